/-
  C11 — Murphy scores match the elementary definition; murphy_thetas cover every kink.

  The theorems of §1 are about `SV.Gen.Murphy.*` (REGENERATED from /repo/src/scores/continuous/murphy_impl.py on every
  run) inside the hand-written frame `SV.Model.Murphy.cell` (NaN matching, dispatch, combine block); §4 is about the hand
  model of `murphy_thetas`.  `Spec.Murphy` holds the papers' definitions over exact rationals.
-/
import ScoresVerif.Model.Murphy
import ScoresVerif.Spec.Murphy
import ScoresVerif.Lemmas.FlBasic
import ScoresVerif.Lemmas.Murphy

set_option linter.unusedVariables false
set_option linter.unusedTactic false
set_option linter.unreachableTactic false
set_option linter.unnecessarySeqFocus false
set_option linter.unusedSimpArgs false

namespace SV.Props.C11
open SV
open SV.Model.Murphy (cell Functional matchNan quantileThetas huberThetas expectileThetas)
open SV.Spec.Murphy
open SV.Lemmas.Murphy

/-! ## 1. The three values murphy_score computes per (case, θ) are the elementary scores of Ehm et al. / Taggart,
    for ALL finite forecasts, observations, thetas, alpha and Huber parameter (no range assumption). -/
section cells
open SV.Fl

theorem min_fin (a b : Rat) : Fl.min (fin a) (fin b) = fin (rmin a b) := by
  simp only [Fl.min, isNan_fin, Bool.or_false, Bool.false_eq_true, if_false, le_fin, rmin, decide_eq_true_eq]
  split_ifs <;> rfl

/-- quantile functional: total / underforecast / overforecast = (1−α)·1[o ≤ θ < f] + α·1[f ≤ θ < o] and its two parts -/
theorem quantile_cell_eq_spec (α f o θ : Rat) (a : Fl) :
    cell .quantile (fin α) a (fin f) (fin o) (fin θ)
      = ⟨fin (elemQ α f o θ), fin (underQ α f o θ), fin (overQ α f o θ)⟩ := by
  simp only [cell, matchNan, Model.Murphy.elemOver, Model.Murphy.elemUnder, Gen.Murphy.quantile_over,
    Gen.Murphy.quantile_under, Gen.Murphy.combine_total, Gen.Murphy.combine_over, Gen.Murphy.combine_under, elemQ, overQ,
    underQ, overRegion, underRegion, isNan_fin, Bool.or_false, Bool.false_eq_true, if_false, mul_fin, add_fin, sub_fin,
    gt_fin, le_fin, whereB, fillna, combineFirst]
  by_cases h1 : o ≤ θ <;> by_cases h2 : θ < f <;> by_cases h3 : f ≤ θ <;> by_cases h4 : θ < o <;>
    simp [h1, h2, h3, h4, isNan] <;> first | (exfalso; linarith) | ring_nf

/-- expectile functional: (1−α)·(θ−o) on o ≤ θ < f, α·(o−θ) on f ≤ θ < o -/
theorem expectile_cell_eq_spec (α f o θ : Rat) (a : Fl) :
    cell .expectile (fin α) a (fin f) (fin o) (fin θ)
      = ⟨fin (elemE α f o θ), fin (underE α f o θ), fin (overE α f o θ)⟩ := by
  simp only [cell, matchNan, Model.Murphy.elemOver, Model.Murphy.elemUnder, Gen.Murphy.expectile_over,
    Gen.Murphy.expectile_under, Gen.Murphy.combine_total, Gen.Murphy.combine_over, Gen.Murphy.combine_under, elemE, overE,
    underE, overRegion, underRegion, isNan_fin, Bool.or_false, Bool.false_eq_true, if_false, mul_fin, add_fin, sub_fin,
    gt_fin, le_fin, abs_fin, whereB, fillna, combineFirst]
  rcases le_total o θ with h | h
  · rw [abs_of_nonpos (by linarith : o - θ ≤ 0)]
    by_cases h2 : θ < f <;> by_cases h3 : f ≤ θ <;> by_cases h4 : θ < o <;>
      simp [h, h2, h3, h4, isNan] <;> first | (exfalso; linarith) | skip
  · rw [abs_of_nonneg (by linarith : 0 ≤ o - θ)]
    by_cases h1 : o ≤ θ <;> by_cases h2 : θ < f <;> by_cases h3 : f ≤ θ <;> by_cases h4 : θ < o <;>
      simp [h1, h2, h3, h4, isNan] <;> first | (exfalso; linarith) | skip
    have : o = θ := le_antisymm h1 h
    subst this; simp

/-- Huber functional: (1−α)·min(θ−o, a) on o ≤ θ < f, α·min(o−θ, a) on f ≤ θ < o -/
theorem huber_cell_eq_spec (α a f o θ : Rat) :
    cell .huber (fin α) (fin a) (fin f) (fin o) (fin θ)
      = ⟨fin (elemH α a f o θ), fin (underH α a f o θ), fin (overH α a f o θ)⟩ := by
  simp only [cell, matchNan, Model.Murphy.elemOver, Model.Murphy.elemUnder, Gen.Murphy.huber_over, Gen.Murphy.huber_under,
    Gen.Murphy.combine_total, Gen.Murphy.combine_over, Gen.Murphy.combine_under, elemH, overH, underH, overRegion,
    underRegion, isNan_fin, Bool.or_false, Bool.false_eq_true, if_false, mul_fin, add_fin, sub_fin, gt_fin, le_fin, min_fin,
    whereB, fillna, combineFirst]
  by_cases h1 : o ≤ θ <;> by_cases h2 : θ < f <;> by_cases h3 : f ≤ θ <;> by_cases h4 : θ < o <;>
    simp [h1, h2, h3, h4, isNan] <;> first | (exfalso; linarith) | skip

/-- NaN matching: a NaN forecast, observation or theta makes all three outputs NaN for that (case, θ),
    whatever the functional and the parameters -/
theorem cell_nan (fn : Functional) (α a f o θ : Fl) (h : f = nan ∨ o = nan ∨ θ = nan) :
    cell fn α a f o θ = ⟨nan, nan, nan⟩ := by
  have hm : (θ.isNan || f.isNan || o.isNan) = true := by
    rcases h with rfl | rfl | rfl <;> simp
  cases fn <;>
    simp [cell, matchNan, hm, Model.Murphy.elemOver, Model.Murphy.elemUnder, Gen.Murphy.quantile_over,
      Gen.Murphy.quantile_under, Gen.Murphy.expectile_over, Gen.Murphy.expectile_under, Gen.Murphy.huber_over,
      Gen.Murphy.huber_under, Gen.Murphy.combine_total, Gen.Murphy.combine_over, Gen.Murphy.combine_under, whereB, fillna,
      combineFirst, Fl.min, Fl.gt, Fl.sub]

/-- the over-forecast penalty of the quantile score is charged exactly when obs ≤ θ < fcst … -/
theorem quantile_over_ne_zero_iff (α f o θ : Rat) (a : Fl) (hα : α < 1) :
    (cell .quantile (fin α) a (fin f) (fin o) (fin θ)).over ≠ fin 0 ↔ (o ≤ θ ∧ θ < f) := by
  rw [quantile_cell_eq_spec]
  simp only [ne_eq, fin.injEq, overQ, overRegion]
  split_ifs with c
  · simp [c]; linarith
  · simp [c]

/-- … and the under-forecast penalty exactly when fcst ≤ θ < obs -/
theorem quantile_under_ne_zero_iff (α f o θ : Rat) (a : Fl) (hα : 0 < α) :
    (cell .quantile (fin α) a (fin f) (fin o) (fin θ)).under ≠ fin 0 ↔ (f ≤ θ ∧ θ < o) := by
  rw [quantile_cell_eq_spec]
  simp only [ne_eq, fin.injEq, underQ, underRegion]
  split_ifs with c
  · simp [c]; linarith
  · simp [c]

end cells

/-! ### consequences at the level of the definitions (all three functionals) -/

/-- the two regions are disjoint: never both penalties -/
theorem regions_disjoint (f o θ : Rat) : ¬ (overRegion f o θ ∧ underRegion f o θ) := by
  rintro ⟨⟨h1, h2⟩, ⟨h3, h4⟩⟩; linarith

theorem never_both_Q (α f o θ : Rat) : overQ α f o θ = 0 ∨ underQ α f o θ = 0 := by
  unfold overQ underQ
  by_cases h : overRegion f o θ
  · right; rw [if_neg (fun h' => regions_disjoint f o θ ⟨h, h'⟩)]
  · left; rw [if_neg h]

theorem never_both_E (α f o θ : Rat) : overE α f o θ = 0 ∨ underE α f o θ = 0 := by
  unfold overE underE
  by_cases h : overRegion f o θ
  · right; rw [if_neg (fun h' => regions_disjoint f o θ ⟨h, h'⟩)]
  · left; rw [if_neg h]

theorem never_both_H (α a f o θ : Rat) : overH α a f o θ = 0 ∨ underH α a f o θ = 0 := by
  unfold overH underH
  by_cases h : overRegion f o θ
  · right; rw [if_neg (fun h' => regions_disjoint f o θ ⟨h, h'⟩)]
  · left; rw [if_neg h]

theorem rmin_pos {x a : Rat} (hx : 0 < x) (ha : 0 < a) : 0 < rmin x a := by
  unfold rmin; split_ifs <;> assumption

/-- expectile / Huber: a penalty is non-zero exactly inside its region, except at θ = obs where the distance is 0 -/
theorem overE_ne_zero_iff (α f o θ : Rat) (hα : α < 1) : overE α f o θ ≠ 0 ↔ (o < θ ∧ θ < f) := by
  unfold overE
  by_cases c : overRegion f o θ
  · rw [if_pos c]; obtain ⟨c1, c2⟩ := c
    constructor
    · intro h; refine ⟨lt_of_le_of_ne c1 ?_, c2⟩; rintro rfl; exact h (by ring)
    · rintro ⟨h2, _⟩; exact mul_ne_zero (ne_of_gt (by linarith)) (ne_of_gt (by linarith))
  · rw [if_neg c]; constructor
    · intro h; exact absurd rfl h
    · rintro ⟨h1, h2⟩; exact absurd ⟨le_of_lt h1, h2⟩ c

theorem underE_ne_zero_iff (α f o θ : Rat) (hα : 0 < α) : underE α f o θ ≠ 0 ↔ (f ≤ θ ∧ θ < o) := by
  unfold underE
  by_cases c : underRegion f o θ
  · rw [if_pos c]
    exact ⟨fun _ => c, fun _ => mul_ne_zero (ne_of_gt hα) (ne_of_gt (by linarith [c.2]))⟩
  · rw [if_neg c]
    exact ⟨fun h => absurd rfl h, fun h => absurd h c⟩

theorem overH_ne_zero_iff (α a f o θ : Rat) (hα : α < 1) (ha : 0 < a) : overH α a f o θ ≠ 0 ↔ (o < θ ∧ θ < f) := by
  unfold overH
  by_cases c : overRegion f o θ
  · rw [if_pos c]; obtain ⟨c1, c2⟩ := c
    constructor
    · intro h; refine ⟨lt_of_le_of_ne c1 ?_, c2⟩; rintro rfl
      apply h; unfold rmin; rw [sub_self, if_pos (le_of_lt ha)]; ring
    · rintro ⟨h2, _⟩
      exact mul_ne_zero (ne_of_gt (by linarith)) (ne_of_gt (rmin_pos (by linarith) ha))
  · rw [if_neg c]; constructor
    · intro h; exact absurd rfl h
    · rintro ⟨h1, h2⟩; exact absurd ⟨le_of_lt h1, h2⟩ c

theorem underH_ne_zero_iff (α a f o θ : Rat) (hα : 0 < α) (ha : 0 < a) : underH α a f o θ ≠ 0 ↔ (f ≤ θ ∧ θ < o) := by
  unfold underH
  by_cases c : underRegion f o θ
  · rw [if_pos c]
    exact ⟨fun _ => c, fun _ => mul_ne_zero (ne_of_gt hα) (ne_of_gt (rmin_pos (by linarith [c.2]) ha))⟩
  · rw [if_neg c]
    exact ⟨fun h => absurd rfl h, fun h => absurd h c⟩

/-- zero outside the data range [min(f,o), max(f,o)) — all functionals, all three outputs -/
theorem zero_outside (fn : Fn) (α a f o θ : Rat) (h : (θ < f ∧ θ < o) ∨ (f ≤ θ ∧ o ≤ θ)) :
    (elem3 fn α a f o θ).total = 0 ∧ (elem3 fn α a f o θ).under = 0 ∧ (elem3 fn α a f o θ).over = 0 := by
  have h1 : ¬ overRegion f o θ := by rintro ⟨a1, a2⟩; rcases h with h | h <;> linarith [h.1, h.2]
  have h2 : ¬ underRegion f o θ := by rintro ⟨a1, a2⟩; rcases h with h | h <;> linarith [h.1, h.2]
  cases fn <;> simp [elem3, elemQ, elemE, elemH, overQ, underQ, overE, underE, overH, underH, h1, h2]

/-- total = underforecast + overforecast (definitional in Spec; for the code it is `quantile_cell_eq_spec` etc.) -/
theorem total_eq_under_add_over (fn : Fn) (α a f o θ : Rat) :
    (elem3 fn α a f o θ).total = (elem3 fn α a f o θ).under + (elem3 fn α a f o θ).over := by
  cases fn <;> simp [elem3, elemQ, elemE, elemH, add_comm]

/-! ### the piecewise forms are the papers' formulas -/

theorem ehmQ_eq_elemQ (α x y θ : Rat) : ehmQ α x y θ = elemQ α x y θ := by
  unfold ehmQ elemQ overQ underQ overRegion underRegion ind
  by_cases h1 : y < x <;> by_cases h2 : θ < x <;> by_cases h3 : θ < y <;>
    simp [h1, h2, h3, not_lt.mp, not_le.mpr] <;> first | done | (exfalso; linarith) | ring_nf | skip
  all_goals first | done | (intro h; exfalso; linarith) | skip

theorem ehmE_eq_elemE (α x y θ : Rat) (h0 : 0 < α) (h1 : α < 1) : ehmE α x y θ = elemE α x y θ := by
  unfold ehmE elemE overE underE ind pos
  rw [rabs_eq_abs]
  have hp : ∀ z : Rat, (if 0 ≤ z then z else 0) = max z 0 := by
    intro z; split_ifs with h
    · exact (max_eq_left h).symm
    · exact (max_eq_right (le_of_lt (not_le.mp h))).symm
  simp only [hp]
  by_cases c1 : y < x
  · rw [if_pos c1, abs_of_pos (by linarith : (0 : Rat) < 1 - α)]
    have hu : ¬ underRegion x y θ := by rintro ⟨a, b⟩; linarith
    rw [if_neg hu]
    by_cases co : overRegion x y θ
    · obtain ⟨a, b⟩ := co
      rw [if_pos (show overRegion x y θ from ⟨a, b⟩), if_pos b, max_eq_right (by linarith : y - θ ≤ 0),
        max_eq_left (by linarith : 0 ≤ x - θ)]; ring
    · rw [if_neg co]
      by_cases c2 : θ < y
      · rw [if_pos (by linarith : θ < x), max_eq_left (by linarith : 0 ≤ y - θ), max_eq_left (by linarith : 0 ≤ x - θ)]; ring
      · have c3 : x ≤ θ := by
          by_contra hc; exact co ⟨not_lt.mp c2, not_le.mp hc⟩
        rw [if_neg (by linarith : ¬ θ < x), max_eq_right (by linarith : y - θ ≤ 0), max_eq_right (by linarith : x - θ ≤ 0)]; ring
  · rw [if_neg c1, zero_sub, abs_neg, abs_of_pos h0]
    have ho : ¬ overRegion x y θ := by rintro ⟨a, b⟩; linarith
    rw [if_neg ho]
    by_cases cu : underRegion x y θ
    · obtain ⟨a, b⟩ := cu
      rw [if_pos (show underRegion x y θ from ⟨a, b⟩), if_neg (by linarith : ¬ θ < x), max_eq_left (by linarith : 0 ≤ y - θ),
        max_eq_right (by linarith : x - θ ≤ 0)]; ring
    · rw [if_neg cu]
      by_cases c2 : θ < x
      · rw [if_pos c2, max_eq_left (by linarith : 0 ≤ y - θ), max_eq_left (by linarith : 0 ≤ x - θ)]; ring
      · have c3 : y ≤ θ := by
          by_contra hc; exact cu ⟨not_lt.mp c2, not_le.mp hc⟩
        rw [if_neg c2, max_eq_right (by linarith : y - θ ≤ 0), max_eq_right (by linarith : x - θ ≤ 0)]; ring

/-! ## 3. Between kinks the curve is constant (quantile) / affine (expectile, Huber) -/

/-- quantile: if no kink (f or o) lies in (θ₁, θ₂], the score (and each part) is the same at θ₁ and θ₂ -/
theorem quantile_const_between (α f o θ₁ θ₂ : Rat) (h12 : θ₁ ≤ θ₂) (h : noKinkIoc (kinksQ f o) θ₁ θ₂) :
    elemQ α f o θ₁ = elemQ α f o θ₂ ∧ overQ α f o θ₁ = overQ α f o θ₂ ∧ underQ α f o θ₁ = underQ α f o θ₂ :=
  ⟨elemQ_const α f o θ₁ θ₂ h12 h, overQ_const α f o θ₁ θ₂ h12 h, underQ_const α f o θ₁ θ₂ h12 h⟩

example : noKinkIoc (kinksQ 3 1) (3/2) (5/2) := by
  intro k hk; simp only [kinksQ, List.mem_cons, List.mem_nil_iff, or_false] at hk
  rcases hk with rfl | rfl <;> norm_num

/-- expectile: affine on [θ₁, θ₂) when no kink lies strictly inside -/
theorem expectile_affine_between (α f o θ₁ θ₂ : Rat) (h : noKinkIoo (kinksE f o) θ₁ θ₂) :
    AffineOn (elemE α f o) θ₁ θ₂ ∧ AffineOn (overE α f o) θ₁ θ₂ ∧ AffineOn (underE α f o) θ₁ θ₂ :=
  ⟨elemE_affine α f o θ₁ θ₂ h, overE_affine α f o θ₁ θ₂ h, underE_affine α f o θ₁ θ₂ h⟩

/-- Huber: affine on [θ₁, θ₂) when none of f, o, o−a, o+a lies strictly inside -/
theorem huber_affine_between (α a f o θ₁ θ₂ : Rat) (h : noKinkIoo (kinksH a f o) θ₁ θ₂) :
    AffineOn (elemH α a f o) θ₁ θ₂ ∧ AffineOn (overH α a f o) θ₁ θ₂ ∧ AffineOn (underH α a f o) θ₁ θ₂ :=
  ⟨elemH_affine α a f o θ₁ θ₂ h, overH_affine α a f o θ₁ θ₂ h, underH_affine α a f o θ₁ θ₂ h⟩

example : noKinkIoo (kinksH 1 3 1) 2 3 := by
  intro k hk; simp only [kinksH, List.mem_cons, List.mem_nil_iff, or_false] at hk
  rcases hk with rfl | rfl | rfl | rfl <;> norm_num

/-- the same for the SUM over any number of cases (hence for the mean): constant … -/
theorem quantile_sum_const_between (α θ₁ θ₂ : Rat) (h12 : θ₁ ≤ θ₂) (cases : List (Rat × Rat))
    (h : ∀ c ∈ cases, noKinkIoc (kinksQ c.1 c.2) θ₁ θ₂) :
    (cases.map fun c => elemQ α c.1 c.2 θ₁).sum = (cases.map fun c => elemQ α c.1 c.2 θ₂).sum := by
  congr 1
  apply List.map_congr_left
  intro c hc
  exact elemQ_const α c.1 c.2 θ₁ θ₂ h12 (h c hc)

/-- … and affine -/
theorem sum_affine_between (S : Rat × Rat → Rat → Rat) (θ₁ θ₂ : Rat) (cases : List (Rat × Rat))
    (h : ∀ c ∈ cases, AffineOn (S c) θ₁ θ₂) :
    AffineOn (fun θ => (cases.map fun c => S c θ).sum) θ₁ θ₂ := by
  induction cases with
  | nil => exact ⟨0, 0, fun θ _ _ => by simp⟩
  | cons c cs ih =>
    have h1 := h c (by simp)
    have h2 := ih (fun c' hc' => h c' (by simp [hc']))
    simpa only [List.map_cons, List.sum_cons] using affineOn_add h1 h2

/-- an affine piece is determined by its values at two points: the value at a theta and at a left-limit point
    `θ₂ − δ` inside the same cell determine the curve on the whole cell -/
theorem affine_determined (S T : Rat → Rat) (θ₁ θ₂ x y : Rat) (hS : AffineOn S θ₁ θ₂) (hT : AffineOn T θ₁ θ₂)
    (hx : θ₁ ≤ x ∧ x < θ₂) (hy : θ₁ ≤ y ∧ y < θ₂) (hxy : x ≠ y) (ex : S x = T x) (ey : S y = T y) :
    ∀ θ, θ₁ ≤ θ → θ < θ₂ → S θ = T θ := by
  obtain ⟨a0, a1, ha⟩ := hS; obtain ⟨b0, b1, hb⟩ := hT
  intro θ h1 h2
  rw [ha θ h1 h2, hb θ h1 h2]
  rw [ha x hx.1 hx.2, hb x hx.1 hx.2] at ex
  rw [ha y hy.1 hy.2, hb y hy.1 hy.2] at ey
  have hd : (a1 - b1) * (x - y) = 0 := by linarith
  have : a1 = b1 := by
    rcases mul_eq_zero.mp hd with h | h
    · linarith
    · exact absurd (by linarith : x = y) hxy
  subst this
  linarith

/-! ## 4. murphy_thetas returns exactly the kink set (for any number of forecast sources), sorted, without NaN -/
section thetas
open SV.Fl

theorem mem_quantile_thetas (z : Fl) (F : List (List Fl)) (O : List Fl) :
    z ∈ quantileThetas F O ↔ z ≠ nan ∧ ((∃ s ∈ F, z ∈ s) ∨ z ∈ O) := mem_quantileThetas z F O

theorem mem_expectile_thetas (z : Fl) (F : List (List Fl)) (O : List Fl) (d : Fl) :
    z ∈ expectileThetas F O d ↔
      z ≠ nan ∧ ((∃ s ∈ F, z ∈ s) ∨ (∃ s ∈ F, ∃ y ∈ s, z = Fl.sub y d) ∨ z ∈ O) := mem_expectileThetas z F O d

theorem mem_huber_thetas (z : Fl) (F : List (List Fl)) (O : List Fl) (a d : Fl) :
    z ∈ huberThetas F O a d ↔
      z ≠ nan ∧ ((∃ s ∈ F, z ∈ s) ∨ (∃ s ∈ F, ∃ y ∈ s, z = Fl.sub y d) ∨ z ∈ O ∨
        (∃ y ∈ O, z = Fl.sub y a) ∨ (∃ y ∈ O, z = Fl.add y a)) := mem_huberThetas z F O a d

/-- the result is strictly increasing (so: unique) — `Sorted l` is `l.Pairwise (· < ·)` -/
theorem quantile_thetas_sorted (F : List (List Fl)) (O : List Fl) : Sorted (quantileThetas F O) :=
  dropNan_npUnique_sorted _
theorem expectile_thetas_sorted (F : List (List Fl)) (O : List Fl) (d : Fl) : Sorted (expectileThetas F O d) :=
  dropNan_npUnique_sorted _
theorem huber_thetas_sorted (F : List (List Fl)) (O : List Fl) (a d : Fl) : Sorted (huberThetas F O a d) :=
  dropNan_npUnique_sorted _

/-- kinks ⊆ thetas, quantile: every forecast value of every source and every observation is a theta -/
theorem kinks_subset_thetas_quantile (F : List (List Fl)) (O : List Fl) (s : List Fl) (hs : s ∈ F) (f o : Rat)
    (hf : fin f ∈ s) (ho : fin o ∈ O) : ∀ k ∈ kinksQ f o, fin k ∈ quantileThetas F O := by
  intro k hk
  simp only [kinksQ, List.mem_cons, List.mem_nil_iff, or_false] at hk
  rw [mem_quantileThetas]
  rcases hk with rfl | rfl
  · exact ⟨by simp, Or.inl ⟨s, hs, hf⟩⟩
  · exact ⟨by simp, Or.inr ho⟩

/-- kinks ⊆ thetas, expectile; in addition the left-limit point f − δ of every forecast value is a theta -/
theorem kinks_subset_thetas_expectile (F : List (List Fl)) (O : List Fl) (d : Rat) (s : List Fl) (hs : s ∈ F) (f o : Rat)
    (hf : fin f ∈ s) (ho : fin o ∈ O) :
    (∀ k ∈ kinksE f o, fin k ∈ expectileThetas F O (fin d)) ∧ fin (f - d) ∈ expectileThetas F O (fin d) := by
  constructor
  · intro k hk
    simp only [kinksE, List.mem_cons, List.mem_nil_iff, or_false] at hk
    rw [mem_expectileThetas]
    rcases hk with rfl | rfl
    · exact ⟨by simp, Or.inl ⟨s, hs, hf⟩⟩
    · exact ⟨by simp, Or.inr (Or.inr ho)⟩
  · rw [mem_expectileThetas]
    exact ⟨by simp, Or.inr (Or.inl ⟨s, hs, fin f, hf, by simp⟩)⟩

/-- kinks ⊆ thetas, Huber: f, o, o − a, o + a, and the left-limit point f − δ -/
theorem kinks_subset_thetas_huber (F : List (List Fl)) (O : List Fl) (a d : Rat) (s : List Fl) (hs : s ∈ F) (f o : Rat)
    (hf : fin f ∈ s) (ho : fin o ∈ O) :
    (∀ k ∈ kinksH a f o, fin k ∈ huberThetas F O (fin a) (fin d)) ∧ fin (f - d) ∈ huberThetas F O (fin a) (fin d) := by
  constructor
  · intro k hk
    simp only [kinksH, List.mem_cons, List.mem_nil_iff, or_false] at hk
    rw [mem_huberThetas]
    rcases hk with rfl | rfl | rfl | rfl
    · exact ⟨by simp, Or.inl ⟨s, hs, hf⟩⟩
    · exact ⟨by simp, Or.inr (Or.inr (Or.inl ho))⟩
    · exact ⟨by simp, Or.inr (Or.inr (Or.inr (Or.inl ⟨fin o, ho, by simp⟩)))⟩
    · exact ⟨by simp, Or.inr (Or.inr (Or.inr (Or.inr ⟨fin o, ho, by simp⟩)))⟩
  · rw [mem_huberThetas]
    exact ⟨by simp, Or.inr (Or.inl ⟨s, hs, fin f, hf, by simp⟩)⟩

example : fin (1 : Rat) ∈ [fin (1 : Rat), nan] := by simp

/-- completeness, quantile: if no returned theta lies in (θ₁, θ₂], then for EVERY source and EVERY case the code's
    three outputs at θ₁ and θ₂ coincide — the values at the thetas determine the whole Murphy curve of every source -/
theorem quantile_curve_determined_by_thetas (α θ₁ θ₂ : Rat) (a : Fl) (h12 : θ₁ ≤ θ₂) (F : List (List Fl)) (O : List Fl)
    (hno : ∀ t : Rat, fin t ∈ quantileThetas F O → ¬ (θ₁ < t ∧ t ≤ θ₂)) :
    ∀ s ∈ F, ∀ f o : Rat, fin f ∈ s → fin o ∈ O →
      cell .quantile (fin α) a (fin f) (fin o) (fin θ₁) = cell .quantile (fin α) a (fin f) (fin o) (fin θ₂) := by
  intro s hs f o hf ho
  have hk : noKinkIoc (kinksQ f o) θ₁ θ₂ := fun k hk =>
    hno k (kinks_subset_thetas_quantile F O s hs f o hf ho k hk)
  obtain ⟨e1, e2, e3⟩ := quantile_const_between α f o θ₁ θ₂ h12 hk
  rw [quantile_cell_eq_spec, quantile_cell_eq_spec, e1, e2, e3]

/-- completeness, expectile: between consecutive returned thetas every case's score of every source is affine in θ -/
theorem expectile_curve_affine_between_thetas (α d θ₁ θ₂ : Rat) (F : List (List Fl)) (O : List Fl)
    (hno : ∀ t : Rat, fin t ∈ expectileThetas F O (fin d) → ¬ (θ₁ < t ∧ t < θ₂)) :
    ∀ s ∈ F, ∀ f o : Rat, fin f ∈ s → fin o ∈ O → AffineOn (elemE α f o) θ₁ θ₂ := by
  intro s hs f o hf ho
  exact elemE_affine α f o θ₁ θ₂ (fun k hk =>
    hno k ((kinks_subset_thetas_expectile F O d s hs f o hf ho).1 k hk))

/-- completeness, Huber -/
theorem huber_curve_affine_between_thetas (α a d θ₁ θ₂ : Rat) (F : List (List Fl)) (O : List Fl)
    (hno : ∀ t : Rat, fin t ∈ huberThetas F O (fin a) (fin d) → ¬ (θ₁ < t ∧ t < θ₂)) :
    ∀ s ∈ F, ∀ f o : Rat, fin f ∈ s → fin o ∈ O → AffineOn (elemH α a f o) θ₁ θ₂ := by
  intro s hs f o hf ho
  exact elemH_affine α a f o θ₁ θ₂ (fun k hk =>
    hno k ((kinks_subset_thetas_huber F O a d s hs f o hf ho).1 k hk))

end thetas

/-! ## 5. ∫ S_θ dθ is the pinball / half asymmetric squared / Huber loss (exact calculus) -/

/-- the quantile elementary score IS the step function (1−α)·1[o,f) + α·1[f,o) … -/
theorem stepQ_eval (α f o θ : Rat) : (stepQ α f o).eval θ = elemQ α f o θ := by
  simp only [StepFn.eval, stepQ, List.map_cons, List.map_nil, List.sum_cons, List.sum_nil, elemQ, overQ, underQ,
    overRegion, underRegion, add_zero]

/-- … whose integral Σ c·(hi−lo)⁺ is the pinball loss -/
theorem stepQ_integral (α f o : Rat) : (stepQ α f o).integral = pinball α f o := by
  simp only [StepFn.integral, stepQ, List.map_cons, List.map_nil, List.sum_cons, List.sum_nil, pinball, add_zero]
  split_ifs with c1 c2 c2
  · have : f = o := le_antisymm c2 c1
    subst this; ring
  · ring
  · ring
  · exfalso; exact c2 (le_of_lt (not_le.mp c1))

/-- midpoint rule (exact on every cell where the integrand is affine) over ANY kink-complete grid that covers the data
    range: quantile → pinball loss -/
theorem integral_quantile (α f o : Rat) (g : List Rat) (p : Rat) (hk : KinkComplete (kinksQ f o) (p :: g))
    (hlo : p ≤ f ∧ p ≤ o) (hhi : f ≤ lastOr p g ∧ o ≤ lastOr p g) :
    midpointRule (elemQ α f o) (p :: g) = pinball α f o := midpoint_elemQ α f o g p hk hlo hhi

/-- expectile → half the asymmetric squared loss -/
theorem integral_expectile (α f o : Rat) (g : List Rat) (p : Rat) (hk : KinkComplete (kinksE f o) (p :: g))
    (hlo : p ≤ f ∧ p ≤ o) (hhi : f ≤ lastOr p g ∧ o ≤ lastOr p g) :
    midpointRule (elemE α f o) (p :: g) = halfAsymSq α f o := midpoint_elemE α f o g p hk hlo hhi

/-- Huber → asymmetric Huber loss -/
theorem integral_huber (α a f o : Rat) (ha : 0 ≤ a) (g : List Rat) (p : Rat) (hk : KinkComplete (kinksH a f o) (p :: g))
    (hlo : p ≤ f ∧ p ≤ o) (hhi : f ≤ lastOr p g ∧ o ≤ lastOr p g) :
    midpointRule (elemH α a f o) (p :: g) = asymHuber α a f o := midpoint_elemH α a f o ha g p hk hlo hhi

/-- the hypotheses are satisfiable on a non-trivial grid: f = 3, o = 1, a = 1, grid 0,1,2,3,4 -/
example : KinkComplete (kinksH 1 3 1) [0, 1, 2, 3, 4] := by
  simp only [KinkComplete, noKinkIoo, kinksH, List.mem_cons, List.mem_nil_iff, or_false, and_true]
  refine ⟨⟨by norm_num, ?_⟩, ⟨by norm_num, ?_⟩, ⟨by norm_num, ?_⟩, ⟨by norm_num, ?_⟩⟩ <;>
    (intro k hk; rcases hk with rfl | rfl | rfl | rfl <;> norm_num)

example : midpointRule (elemH (1/4) 1 3 1) [0, 1, 2, 3, 4] = asymHuber (1/4) 1 3 1 := by decide +kernel

/-! ## 6. The returned thetas are a kink-complete grid: integrating over them is exact -/
section capstone
open SV.Model.Murphy (quantileThetas huberThetas expectileThetas)

/-- capstone, quantile: the midpoint rule over the thetas RETURNED by murphy_thetas (any number of sources, NaNs anywhere)
    integrates every case's elementary score exactly to its pinball loss -/
theorem integral_over_thetas_quantile (α : Rat) (F : List (List Fl)) (O : List Fl) (s : List Fl) (hs : s ∈ F) (f o : Rat)
    (hf : Fl.fin f ∈ s) (ho : Fl.fin o ∈ O) (p : Rat) (g : List Rat) (hg : toRats (quantileThetas F O) = p :: g) :
    midpointRule (elemQ α f o) (p :: g) = pinball α f o := by
  have hsorted : (p :: g).Pairwise (· < ·) := hg ▸ toRats_pairwise _ (quantile_thetas_sorted F O)
  have hmem : ∀ k ∈ kinksQ f o, k ∈ p :: g := fun k hk =>
    hg ▸ (mem_toRats k _).mpr (kinks_subset_thetas_quantile F O s hs f o hf ho k hk)
  have hf' := hmem f (by simp [kinksQ]); have ho' := hmem o (by simp [kinksQ])
  exact integral_quantile α f o g p (kinkComplete_of_sorted _ _ hsorted (fun k hk => Or.inl (hmem k hk)))
    ⟨head_le_of_sorted p g hsorted f hf', head_le_of_sorted p g hsorted o ho'⟩
    ⟨le_lastOr_of_sorted g p hsorted f hf', le_lastOr_of_sorted g p hsorted o ho'⟩

theorem integral_over_thetas_expectile (α d : Rat) (F : List (List Fl)) (O : List Fl) (s : List Fl) (hs : s ∈ F) (f o : Rat)
    (hf : Fl.fin f ∈ s) (ho : Fl.fin o ∈ O) (p : Rat) (g : List Rat)
    (hg : toRats (expectileThetas F O (Fl.fin d)) = p :: g) :
    midpointRule (elemE α f o) (p :: g) = halfAsymSq α f o := by
  have hsorted : (p :: g).Pairwise (· < ·) := hg ▸ toRats_pairwise _ (expectile_thetas_sorted F O _)
  have hmem : ∀ k ∈ kinksE f o, k ∈ p :: g := fun k hk =>
    hg ▸ (mem_toRats k _).mpr ((kinks_subset_thetas_expectile F O d s hs f o hf ho).1 k hk)
  have hf' := hmem f (by simp [kinksE]); have ho' := hmem o (by simp [kinksE])
  exact integral_expectile α f o g p (kinkComplete_of_sorted _ _ hsorted (fun k hk => Or.inl (hmem k hk)))
    ⟨head_le_of_sorted p g hsorted f hf', head_le_of_sorted p g hsorted o ho'⟩
    ⟨le_lastOr_of_sorted g p hsorted f hf', le_lastOr_of_sorted g p hsorted o ho'⟩

theorem integral_over_thetas_huber (α a d : Rat) (ha : 0 ≤ a) (F : List (List Fl)) (O : List Fl) (s : List Fl) (hs : s ∈ F)
    (f o : Rat) (hf : Fl.fin f ∈ s) (ho : Fl.fin o ∈ O) (p : Rat) (g : List Rat)
    (hg : toRats (huberThetas F O (Fl.fin a) (Fl.fin d)) = p :: g) :
    midpointRule (elemH α a f o) (p :: g) = asymHuber α a f o := by
  have hsorted : (p :: g).Pairwise (· < ·) := hg ▸ toRats_pairwise _ (huber_thetas_sorted F O _ _)
  have hmem : ∀ k ∈ kinksH a f o, k ∈ p :: g := fun k hk =>
    hg ▸ (mem_toRats k _).mpr ((kinks_subset_thetas_huber F O a d s hs f o hf ho).1 k hk)
  have hf' := hmem f (by simp [kinksH]); have ho' := hmem o (by simp [kinksH])
  exact integral_huber α a f o ha g p (kinkComplete_of_sorted _ _ hsorted (fun k hk => Or.inl (hmem k hk)))
    ⟨head_le_of_sorted p g hsorted f hf', head_le_of_sorted p g hsorted o ho'⟩
    ⟨le_lastOr_of_sorted g p hsorted f hf', le_lastOr_of_sorted g p hsorted o ho'⟩

example : toRats (quantileThetas [[Fl.fin 3, Fl.nan], [Fl.fin 2]] [Fl.fin 1, Fl.fin 3]) = [1, 2, 3] := by decide +kernel


end capstone

/-! ## 7. Mean over cases with NaN matching: `mean(dim=…)` (skipna) of the three outputs is the mean elementary score over
    the cases whose forecast and observation are both present, NaN when there is none -/
section means
open SV.Fl
open SV.Model.Murphy (meanCell)

/-- quantile -/
theorem mean_eq_spec_quantile (α θ : Rat) (a : Fl) (cases : List (Fl × Fl)) (hok : ∀ c ∈ cases, CaseOK c) :
    let m := meanCell .quantile (fin α) a cases (fin θ)
    (m.total, m.under, m.over) = meanScore .quantile α 0 cases (fin θ) := by
  have hn : ∀ c : Fl × Fl, (c.1 = nan ∨ c.2 = nan) → cell .quantile (fin α) a c.1 c.2 (fin θ) = ⟨nan, nan, nan⟩ :=
    fun c h => cell_nan _ _ _ _ _ _ (by rcases h with h | h; exact Or.inl h; exact Or.inr (Or.inl h))
  simp only [meanCell, meanScore, List.map_map]
  refine Prod.ext ?_ (Prod.ext ?_ ?_)
  · exact nanmean_cases (fun c => (cell .quantile (fin α) a c.1 c.2 (fin θ)).total) (fun f o => elemQ α f o θ)
      (fun c h => by simp only [hn c h]) (fun f o => by simp only [quantile_cell_eq_spec]) cases hok
  · exact nanmean_cases (fun c => (cell .quantile (fin α) a c.1 c.2 (fin θ)).under) (fun f o => underQ α f o θ)
      (fun c h => by simp only [hn c h]) (fun f o => by simp only [quantile_cell_eq_spec]) cases hok
  · exact nanmean_cases (fun c => (cell .quantile (fin α) a c.1 c.2 (fin θ)).over) (fun f o => overQ α f o θ)
      (fun c h => by simp only [hn c h]) (fun f o => by simp only [quantile_cell_eq_spec]) cases hok

/-- expectile -/
theorem mean_eq_spec_expectile (α θ : Rat) (a : Fl) (cases : List (Fl × Fl)) (hok : ∀ c ∈ cases, CaseOK c) :
    let m := meanCell .expectile (fin α) a cases (fin θ)
    (m.total, m.under, m.over) = meanScore .expectile α 0 cases (fin θ) := by
  have hn : ∀ c : Fl × Fl, (c.1 = nan ∨ c.2 = nan) → cell .expectile (fin α) a c.1 c.2 (fin θ) = ⟨nan, nan, nan⟩ :=
    fun c h => cell_nan _ _ _ _ _ _ (by rcases h with h | h; exact Or.inl h; exact Or.inr (Or.inl h))
  simp only [meanCell, meanScore, List.map_map]
  refine Prod.ext ?_ (Prod.ext ?_ ?_)
  · exact nanmean_cases (fun c => (cell .expectile (fin α) a c.1 c.2 (fin θ)).total) (fun f o => elemE α f o θ)
      (fun c h => by simp only [hn c h]) (fun f o => by simp only [expectile_cell_eq_spec]) cases hok
  · exact nanmean_cases (fun c => (cell .expectile (fin α) a c.1 c.2 (fin θ)).under) (fun f o => underE α f o θ)
      (fun c h => by simp only [hn c h]) (fun f o => by simp only [expectile_cell_eq_spec]) cases hok
  · exact nanmean_cases (fun c => (cell .expectile (fin α) a c.1 c.2 (fin θ)).over) (fun f o => overE α f o θ)
      (fun c h => by simp only [hn c h]) (fun f o => by simp only [expectile_cell_eq_spec]) cases hok

/-- Huber -/
theorem mean_eq_spec_huber (α a θ : Rat) (cases : List (Fl × Fl)) (hok : ∀ c ∈ cases, CaseOK c) :
    let m := meanCell .huber (fin α) (fin a) cases (fin θ)
    (m.total, m.under, m.over) = meanScore .huber α a cases (fin θ) := by
  have hn : ∀ c : Fl × Fl, (c.1 = nan ∨ c.2 = nan) → cell .huber (fin α) (fin a) c.1 c.2 (fin θ) = ⟨nan, nan, nan⟩ :=
    fun c h => cell_nan _ _ _ _ _ _ (by rcases h with h | h; exact Or.inl h; exact Or.inr (Or.inl h))
  simp only [meanCell, meanScore, List.map_map]
  refine Prod.ext ?_ (Prod.ext ?_ ?_)
  · exact nanmean_cases (fun c => (cell .huber (fin α) (fin a) c.1 c.2 (fin θ)).total) (fun f o => elemH α a f o θ)
      (fun c h => by simp only [hn c h]) (fun f o => by simp only [huber_cell_eq_spec]) cases hok
  · exact nanmean_cases (fun c => (cell .huber (fin α) (fin a) c.1 c.2 (fin θ)).under) (fun f o => underH α a f o θ)
      (fun c h => by simp only [hn c h]) (fun f o => by simp only [huber_cell_eq_spec]) cases hok
  · exact nanmean_cases (fun c => (cell .huber (fin α) (fin a) c.1 c.2 (fin θ)).over) (fun f o => overH α a f o θ)
      (fun c h => by simp only [hn c h]) (fun f o => by simp only [huber_cell_eq_spec]) cases hok

example : CaseOK (nan, fin 1) ∧ CaseOK (fin 2, fin 1) := ⟨Or.inl (Or.inl rfl), Or.inr ⟨2, 1, rfl⟩⟩

end means

/-! ## 8. Outside the domain: an infinite forecast (notes/C11.md N1) -/

/-- `zero_array = fcst * 0.0` is NaN for fcst = +∞, so the quantile (and Huber) kernels never penalise an infinite
    over-forecast: obs = 1 ≤ θ = 3/2 < fcst = +∞ scores 0 instead of 1 − α (the expectile kernel gives (1−α)(θ−obs)) -/
theorem quantile_inf_forecast_counterexample :
    (Model.Murphy.cell .quantile (Fl.fin (1/4)) Fl.nan Fl.pinf (Fl.fin 1) (Fl.fin (3/2))).total = Fl.fin 0 ∧
    (Model.Murphy.cell .expectile (Fl.fin (1/4)) Fl.nan Fl.pinf (Fl.fin 1) (Fl.fin (3/2))).total = Fl.fin (3/8) := by
  constructor <;> decide +kernel

end SV.Props.C11
