/-
  C14 (stretch) — more of roc_curve_data inside kernel-checked statements, on the SAME definitions as Props/C14.lean
  (`SV.Model.Roc.*` vs `SV.Spec.Roc.*`):

   5. the order of the pairs is irrelevant: every ROC point and the AUC of the MODEL (NaN pairs, NaN / infinite / negative
      weights, any thresholds included) are unchanged by any permutation of the (forecast, observation, weight) triples;
   6. a pair with a missing forecast, observation or weight ANYWHERE in the data is a deleted pair — for the four
      contingency sums, POD, POFD and the AUC;
   7. AUC values: a forecast that separates events from non-events has AUC 1, the inverted one AUC 0, a constant
      forecast AUC 1/2 (thresholds accepted by the guard that contain the forecast values and a value above).
-/
import ScoresVerif.Props.C14
import ScoresVerif.Lemmas.C14Stretch

namespace SV.Props.C14
open SV SV.Model.Roc SV.Spec.Roc SV.Lemmas.Roc

/-! ## 5. the order of the pairs is irrelevant -/

/-- Re-ordering the cells that are summed (e.g. another storage order of the reduced dimensions, `dims` listed in another
    order) changes no ROC point: POD and POFD of the model are the same for any permutation of the triples, whatever
    they contain (NaN, infinite or negative weights) and for any threshold (NaN included). -/
theorem roc_point_perm {ps ps' : List Triple} (h : ps.Perm ps') (t : Fl) :
    Model.Roc.pod ps t = Model.Roc.pod ps' t ∧ Model.Roc.pofd ps t = Model.Roc.pofd ps' t :=
  ⟨pod_perm h t, pofd_perm h t⟩

/-- … and so is the AUC, for any list of thresholds. -/
theorem auc_perm {ps ps' : List Triple} (h : ps.Perm ps') (ts : List Fl) : auc ps ts = auc ps' ts := by
  unfold auc
  rw [show Model.Roc.pod ps = Model.Roc.pod ps' from funext (pod_perm h),
      show Model.Roc.pofd ps = Model.Roc.pofd ps' from funext (pofd_perm h)]
example : ([⟨Fl.fin (1/2), Fl.fin 1, none⟩, ⟨Fl.nan, Fl.fin 0, some (Fl.fin 2)⟩, ⟨Fl.fin (1/4), Fl.fin 0, none⟩] : List Triple).Perm
    [⟨Fl.nan, Fl.fin 0, some (Fl.fin 2)⟩, ⟨Fl.fin (1/2), Fl.fin 1, none⟩, ⟨Fl.fin (1/4), Fl.fin 0, none⟩] :=
  List.Perm.swap _ _ _

/-- the counting spec does not depend on the order either (weighted counts of any predicate) -/
theorem spec_counts_perm {cs cs' : List Case} (h : cs.Perm cs') (t : Rat) :
    hitsW cs t = hitsW cs' t ∧ eventsW cs = eventsW cs' ∧ falseAlarmsW cs t = falseAlarmsW cs' t ∧
    nonEventsW cs = nonEventsW cs' :=
  ⟨wsumIf_perm _ h, wsumIf_perm _ h, wsumIf_perm _ h, wsumIf_perm _ h⟩
example : ([⟨1/2, true, 1⟩, ⟨1/4, false, 2⟩] : List Case).Perm [⟨1/4, false, 2⟩, ⟨1/2, true, 1⟩] := List.Perm.swap _ _ _

/-! ## 6. a NaN pair anywhere = a deleted pair -/

/-- a pair with a missing forecast, observation or weight, at ANY position of the data, contributes to none of the four
    contingency sums (Props/C14.lean `invalid_pair_dropped` is the head position) -/
theorem invalid_pair_dropped_anywhere (cell : Fl → Fl → Fl)
    (hcell : cell = hit ∨ cell = miss ∨ cell = falseAlarm ∨ cell = correctNeg)
    (p : Triple) (hp : p.f = Fl.nan ∨ p.o = Fl.nan ∨ p.w = some Fl.nan) (l₁ l₂ : List Triple) (t : Fl) :
    wsum cell (l₁ ++ p :: l₂) t = wsum cell (l₁ ++ l₂) t := by
  rw [wsum_perm cell (List.perm_middle (a := p) (l₁ := l₁) (l₂ := l₂)) t]
  exact invalid_pair_dropped cell hcell p hp (l₁ ++ l₂) t

/-- hence every ROC point is that of the data with the pair deleted … -/
theorem roc_point_invalid_pair_deleted (p : Triple) (hp : p.f = Fl.nan ∨ p.o = Fl.nan ∨ p.w = some Fl.nan)
    (l₁ l₂ : List Triple) (t : Fl) :
    Model.Roc.pod (l₁ ++ p :: l₂) t = Model.Roc.pod (l₁ ++ l₂) t ∧
    Model.Roc.pofd (l₁ ++ p :: l₂) t = Model.Roc.pofd (l₁ ++ l₂) t := by
  unfold Model.Roc.pod Model.Roc.pofd
  rw [invalid_pair_dropped_anywhere hit (Or.inl rfl) p hp,
      invalid_pair_dropped_anywhere miss (Or.inr (Or.inl rfl)) p hp,
      invalid_pair_dropped_anywhere falseAlarm (Or.inr (Or.inr (Or.inl rfl))) p hp,
      invalid_pair_dropped_anywhere correctNeg (Or.inr (Or.inr (Or.inr rfl))) p hp]
  exact ⟨rfl, rfl⟩

/-- … and so is the AUC: NaN handling of roc_curve_data is pairwise deletion. -/
theorem auc_invalid_pair_deleted (p : Triple) (hp : p.f = Fl.nan ∨ p.o = Fl.nan ∨ p.w = some Fl.nan)
    (l₁ l₂ : List Triple) (ts : List Fl) : auc (l₁ ++ p :: l₂) ts = auc (l₁ ++ l₂) ts := by
  unfold auc
  rw [show Model.Roc.pod (l₁ ++ p :: l₂) = Model.Roc.pod (l₁ ++ l₂) from
        funext fun t => (roc_point_invalid_pair_deleted p hp l₁ l₂ t).1,
      show Model.Roc.pofd (l₁ ++ p :: l₂) = Model.Roc.pofd (l₁ ++ l₂) from
        funext fun t => (roc_point_invalid_pair_deleted p hp l₁ l₂ t).2]
example : (⟨Fl.fin (1/2), Fl.fin 1, some Fl.nan⟩ : Triple).f = Fl.nan ∨ (⟨Fl.fin (1/2), Fl.fin 1, some Fl.nan⟩ : Triple).o = Fl.nan ∨
    (⟨Fl.fin (1/2), Fl.fin 1, some Fl.nan⟩ : Triple).w = some Fl.nan := Or.inr (Or.inr rfl)

/-! ## 7. AUC of a perfect, an inverted and a constant forecast -/

/-- A forecast that gives every event a strictly higher probability than every non-event has AUC exactly 1 (any
    weights with non-zero event and non-event totals; thresholds accepted by the guard that contain every forecast value
    and a value above the largest). -/
theorem auc_perfect_forecast {cs : List Case} {ts : List Rat} (hts : nonDecreasing (ts.map Fl.fin) = true)
    (hall : ∀ c ∈ cs, c.f ∈ ts) (htop : ∀ c ∈ cs, ∃ t ∈ ts, c.f < t)
    (hsep : ∀ a ∈ cs, a.ev = true → ∀ b ∈ cs, b.ev = false → b.f < a.f)
    (hE : eventsW cs ≠ 0) (hN : nonEventsW cs ≠ 0) :
    auc (cs.map ofCase) (ts.map Fl.fin) = Fl.fin 1 := by
  rw [auc_eq_mannWhitney hts hall htop hE hN]
  refine mannWhitney_kernel_const (fun a ha hae b hb hbe => ?_) hE hN
  rw [if_pos (hsep a ha hae b hb hbe)]
example : let cs : List Case := [⟨3/4, true, 1⟩, ⟨1/4, false, 2⟩, ⟨1/2, false, 1⟩, ⟨1, true, 3⟩]
    let ts : List Rat := [0, 1/4, 1/2, 3/4, 1, 5/4]
    nonDecreasing (ts.map Fl.fin) = true ∧ (∀ c ∈ cs, c.f ∈ ts) ∧ (∀ c ∈ cs, ∃ t ∈ ts, c.f < t) ∧
    (∀ a ∈ cs, a.ev = true → ∀ b ∈ cs, b.ev = false → b.f < a.f) ∧ eventsW cs ≠ 0 ∧ nonEventsW cs ≠ 0 := by
  refine ⟨by decide +kernel, ?_, ?_, ?_, by decide +kernel, by decide +kernel⟩
  · intro c hc; simp at hc; rcases hc with rfl | rfl | rfl | rfl <;> simp
  · intro c hc; simp at hc; rcases hc with rfl | rfl | rfl | rfl <;> exact ⟨5/4, by simp, by norm_num⟩
  · intro a ha hae b hb hbe; simp at ha hb
    rcases ha with rfl | rfl | rfl | rfl <;> rcases hb with rfl | rfl | rfl | rfl <;> simp_all <;> norm_num

/-- The inverted forecast (every event strictly below every non-event) has AUC exactly 0. -/
theorem auc_inverted_forecast {cs : List Case} {ts : List Rat} (hts : nonDecreasing (ts.map Fl.fin) = true)
    (hall : ∀ c ∈ cs, c.f ∈ ts) (htop : ∀ c ∈ cs, ∃ t ∈ ts, c.f < t)
    (hsep : ∀ a ∈ cs, a.ev = true → ∀ b ∈ cs, b.ev = false → a.f < b.f)
    (hE : eventsW cs ≠ 0) (hN : nonEventsW cs ≠ 0) :
    auc (cs.map ofCase) (ts.map Fl.fin) = Fl.fin 0 := by
  rw [auc_eq_mannWhitney hts hall htop hE hN]
  refine mannWhitney_kernel_const (fun a ha hae b hb hbe => ?_) hE hN
  have h := hsep a ha hae b hb hbe
  rw [if_neg (not_lt.mpr h.le), if_neg (ne_of_lt h)]
example : let cs : List Case := [⟨1/4, true, 1⟩, ⟨1/2, false, 2⟩]
    let ts : List Rat := [0, 1/4, 1/2, 1]
    nonDecreasing (ts.map Fl.fin) = true ∧ (∀ c ∈ cs, c.f ∈ ts) ∧ (∀ c ∈ cs, ∃ t ∈ ts, c.f < t) ∧
    (∀ a ∈ cs, a.ev = true → ∀ b ∈ cs, b.ev = false → a.f < b.f) ∧ eventsW cs ≠ 0 ∧ nonEventsW cs ≠ 0 := by
  refine ⟨by decide +kernel, ?_, ?_, ?_, by decide +kernel, by decide +kernel⟩
  · intro c hc; simp at hc; rcases hc with rfl | rfl <;> simp
  · intro c hc; simp at hc; rcases hc with rfl | rfl <;> exact ⟨1, by simp, by norm_num⟩
  · intro a ha hae b hb hbe; simp at ha hb
    rcases ha with rfl | rfl <;> rcases hb with rfl | rfl <;> first | (simp_all; done) | (simp_all; norm_num)

/-- A constant forecast `v` (no skill) has AUC exactly 1/2, whenever the thresholds (accepted by the guard) contain `v`
    and a larger value — e.g. thresholds 0, v, 1 for v < 1. -/
theorem auc_constant_forecast {cs : List Case} {ts : List Rat} {v : Rat} (hv : ∀ c ∈ cs, c.f = v)
    (hts : nonDecreasing (ts.map Fl.fin) = true) (hmem : v ∈ ts) (htop : ∃ t ∈ ts, v < t)
    (hE : eventsW cs ≠ 0) (hN : nonEventsW cs ≠ 0) :
    auc (cs.map ofCase) (ts.map Fl.fin) = Fl.fin (1 / 2) := by
  rw [auc_eq_mannWhitney hts (fun c hc => by rw [hv c hc]; exact hmem)
    (fun c hc => by rw [hv c hc]; exact htop) hE hN]
  refine mannWhitney_kernel_const (fun a ha _ b hb _ => ?_) hE hN
  rw [hv a ha, hv b hb, if_neg (lt_irrefl v), if_pos rfl]
example : let cs : List Case := [⟨1/2, true, 1⟩, ⟨1/2, false, 2⟩, ⟨1/2, false, 1⟩]
    let ts : List Rat := [0, 1/2, 1]
    (∀ c ∈ cs, c.f = 1/2) ∧ nonDecreasing (ts.map Fl.fin) = true ∧ (1/2 : Rat) ∈ ts ∧ (∃ t ∈ ts, (1/2 : Rat) < t) ∧
    eventsW cs ≠ 0 ∧ nonEventsW cs ≠ 0 := by
  refine ⟨?_, by decide +kernel, by simp, ⟨1, by simp, by norm_num⟩, by decide +kernel, by decide +kernel⟩
  intro c hc; simp at hc; rcases hc with rfl | rfl | rfl <;> norm_num

/-! ## 8. the complemented forecast 1 − p -/

-- `compl1 c = ⟨1 − c.f, c.ev, c.w⟩` — same observation and weight, forecast complemented (Lemmas/C14Stretch.lean)

/-- Forecasting `1 − p` instead of `p` turns the AUC into `1 − AUC`, when each threshold list (accepted by the guard)
    contains the forecast values of its own call and a value above them — e.g. the same symmetric thresholds
    0, 1/4, 1/2, 3/4, 1 for forecasts strictly between 0 and 1. -/
theorem auc_complement {cs : List Case} {ts ts' : List Rat}
    (hts : nonDecreasing (ts.map Fl.fin) = true) (hall : ∀ c ∈ cs, c.f ∈ ts) (htop : ∀ c ∈ cs, ∃ t ∈ ts, c.f < t)
    (hts' : nonDecreasing (ts'.map Fl.fin) = true) (hall' : ∀ c ∈ cs, 1 - c.f ∈ ts')
    (htop' : ∀ c ∈ cs, ∃ t ∈ ts', 1 - c.f < t)
    (hE : eventsW cs ≠ 0) (hN : nonEventsW cs ≠ 0) :
    auc ((cs.map compl1).map ofCase) (ts'.map Fl.fin) = Fl.sub (Fl.fin 1) (auc (cs.map ofCase) (ts.map Fl.fin)) := by
  have eE : eventsW (cs.map compl1) = eventsW cs := wsumIf_compl _ (fun _ => rfl) cs
  have eN : nonEventsW (cs.map compl1) = nonEventsW cs := wsumIf_compl _ (fun _ => rfl) cs
  rw [auc_eq_mannWhitney hts hall htop hE hN,
    auc_eq_mannWhitney hts'
      (fun c hc => by obtain ⟨d, hd, rfl⟩ := List.mem_map.mp hc; exact hall' d hd)
      (fun c hc => by obtain ⟨d, hd, rfl⟩ := List.mem_map.mp hc; exact htop' d hd)
      (by rw [eE]; exact hE) (by rw [eN]; exact hN)]
  exact mannWhitney_compl hE hN
example : let cs : List Case := [⟨3/4, true, 1⟩, ⟨1/4, false, 2⟩, ⟨1/2, false, 1⟩, ⟨1/2, true, 3⟩]
    let ts : List Rat := [0, 1/4, 1/2, 3/4, 1]
    nonDecreasing (ts.map Fl.fin) = true ∧ (∀ c ∈ cs, c.f ∈ ts) ∧ (∀ c ∈ cs, ∃ t ∈ ts, c.f < t) ∧
    (∀ c ∈ cs, 1 - c.f ∈ ts) ∧ (∀ c ∈ cs, ∃ t ∈ ts, 1 - c.f < t) ∧ eventsW cs ≠ 0 ∧ nonEventsW cs ≠ 0 := by
  refine ⟨by decide +kernel, ?_, ?_, ?_, ?_, by decide +kernel, by decide +kernel⟩
  · intro c hc; simp at hc; rcases hc with rfl | rfl | rfl | rfl <;> simp
  · intro c hc; simp at hc; rcases hc with rfl | rfl | rfl | rfl <;> exact ⟨1, by simp, by norm_num⟩
  · intro c hc; simp at hc; rcases hc with rfl | rfl | rfl | rfl <;> norm_num
  · intro c hc; simp at hc; rcases hc with rfl | rfl | rfl | rfl <;> exact ⟨1, by simp, by norm_num⟩

end SV.Props.C14
