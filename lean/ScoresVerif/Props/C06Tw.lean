/-
  C06Tw — every threshold-weighted ensemble CRPS value INDIVIDUALLY is the weighted integral.

  Props/C06.lean proves that lower tail + interval + upper tail add up to the unweighted CRPS.  Here each part on its own:
  for the models of `tail_tw_crps_for_ensemble` (lower / upper tail at threshold t), `interval_tw_crps_for_ensemble`
  (interval [a, b]) and the generic `tw_crps_for_ensemble` with a clip chaining function (crps_impl.py; `Model.CrpsEns.tw`),
      (tw-variant).total = Fl.fin (twIntegral a? b? xs y),
  where `Spec.CrpsEns.twIntegral a? b? xs y = stepIntegral (fun t => weightOn a? b? t * integrand xs y t) (grid …)`
  is the exact integral ∫ 1[a,b)(t) · (F_ens(t) − 1{t ≥ y})² dt of the ORIGINAL (untransformed) ensemble and observation
  (a missing end `none` = unbounded on that side; the grid = distinct values of the thresholds, y and the members).
  All statements hold for every list of members, every observation and every threshold (ties included); the integral
  identity needs no ordering of a and b (for a > b both sides are 0 — the code raises there, `intervalGuardRaises`).

  Why: the chaining function v(x) = min (max x a) b (`vOpt a? b?`) is the antiderivative of the weight 1[a,b), so
  |v x − v z| = length of [x,z) ∩ [a,b) = ∫ 1[a,b) · 1[x,z)  (`chaining_is_antiderivative`, `weighted_indicator_integral`).
-/
import ScoresVerif.Props.C06
import ScoresVerif.Lemmas.CrpsEnsC06Tw

namespace SV.Props.C06Tw
open SV SV.Model.CrpsEns SV.Spec.CrpsEns SV.Lemmas.CrpsEns SV.Props.C06

/-! ## 1. the pointwise key facts -/

/-- the clip chaining functions written out: `vOpt none (some t) = min · t` (lower tail), `vOpt (some t) none = max · t`
    (upper tail), `vOpt (some a) (some b) = min (max · a) b` (interval), `vOpt none none = id` (no weight) -/
theorem vOpt_cases (a b t x : Rat) :
    vOpt none (some t) x = min x t ∧ vOpt (some t) none x = max x t ∧ vOpt (some a) (some b) x = min (max x a) b ∧
      vOpt none none x = x := ⟨rfl, rfl, rfl, rfl⟩

/-- **the chaining function is the antiderivative of the indicator weight**: |v x − v z| is the length of
    [min x z, max x z) ∩ [a, b) — written for the interval; (·)⁺ = `max · 0` -/
theorem chaining_is_antiderivative (a b x z : Rat) :
    |min (max x a) b - min (max z a) b| = max (min (max x z) b - max (min x z) a) 0 :=
  abs_vOpt_sub (some a) (some b) x z

/-- the same for a missing end (tails): `omax none x = x`, `omin none x = x` -/
theorem chaining_is_antiderivative_opt (a b : Option Rat) (x z : Rat) :
    |vOpt a b x - vOpt a b z| = max (omin b (max x z) - omax a (min x z)) 0 := abs_vOpt_sub a b x z

/-- ∫ 1[a,b)(t) · 1[x,z)(t) dt = |v x − v z| on every increasing grid containing the thresholds, x and z -/
theorem weighted_indicator_integral {g : List Rat} (hg : g.Pairwise (· < ·)) {a b : Option Rat}
    (hp : ∀ p ∈ optPts a b, p ∈ g) {x z : Rat} (hx : x ∈ g) (hz : z ∈ g) :
    stepIntegral (fun t => weightOn a b t * J x z t) g = |vOpt a b x - vOpt a b z| := tw_stepIntegral_J hg hp hx hz
example : ([0, 1, 2, 5] : List Rat).Pairwise (· < ·) ∧ (∀ p ∈ optPts (some 1) (some (2 : Rat)), p ∈ ([0, 1, 2, 5] : List Rat)) ∧
    (0 : Rat) ∈ ([0, 1, 2, 5] : List Rat) ∧ (5 : Rat) ∈ ([0, 1, 2, 5] : List Rat) := by decide +kernel

/-- the weighted integral of the ensemble = the UNWEIGHTED integral (and the kernel form) of the v-transformed ensemble -/
theorem twIntegral_eq_integral_of_transformed {xs : List Rat} (hx : xs ≠ []) (a b : Option Rat) (y : Rat) :
    twIntegral a b xs y = crpsIntegral (xs.map (vOpt a b)) (vOpt a b y) := (crpsIntegral_map_vOpt hx y).symm
example : ([1, 3, 3] : List Rat) ≠ [] := by decide

/-- without a weight (`none none`) the weighted integral is the CRPS integral -/
theorem twIntegral_none_none {xs : List Rat} (hx : xs ≠ []) (y : Rat) : twIntegral none none xs y = crpsIntegral xs y := by
  rw [twIntegral_eq_integral_of_transformed hx]
  have : xs.map (vOpt none none) = xs := by
    have : vOpt none none = id := rfl
    rw [this, List.map_id]
  rw [this]; rfl

/-! ## 2. `tw_crps_for_ensemble` with a clip chaining function, method 'ecdf' -/

/-- **generic**: any chaining function `v` that clips finite values to [a?, b?] (e.g. `lambda x: np.maximum(x, t)`,
    `np.minimum(x, t)`, `np.clip(x, a, b)`), ensembles of any size ≥ 1, any observation -/
theorem tw_ecdf_eq_weighted_integral {v : Fl → Fl} {a b : Option Rat} (hv : ∀ q, v (Fl.fin q) = Fl.fin (vOpt a b q))
    {xs : List Rat} (hx : xs ≠ []) (y : Rat) :
    (tw v .ecdf (xs.map Fl.fin) (Fl.fin y)).total = Fl.fin (twIntegral a b xs y) := by
  have hm : (xs.map Fl.fin).map v = (xs.map (vOpt a b)).map Fl.fin := by
    simp only [List.map_map]; exact List.map_congr_left (fun q _ => hv q)
  simp only [tw, components_total]
  rw [hm, hv, crpsEns_ecdf_eq_integral (by simpa using hx), crpsIntegral_map_vOpt hx]
example : ∀ q, chainUpper (Fl.fin 2) (Fl.fin q) = Fl.fin (vOpt (some 2) none q) := fun q => max_fin q 2

/-- `tail_tw_crps_for_ensemble(tail="upper", threshold=t)` = ∫_{t ≤ ·} (F_ens − H_y)² -/
theorem tail_upper_ecdf_eq_weighted_integral (t : Rat) {xs : List Rat} (hx : xs ≠ []) (y : Rat) :
    (tailUpper (Fl.fin t) .ecdf (xs.map Fl.fin) (Fl.fin y)).total = Fl.fin (twIntegral (some t) none xs y) :=
  tw_ecdf_eq_weighted_integral (fun q => max_fin q t) hx y
example : ([1, 3, 3] : List Rat) ≠ [] := by decide

/-- `tail_tw_crps_for_ensemble(tail="lower", threshold=t)` = ∫_{· < t} (F_ens − H_y)² -/
theorem tail_lower_ecdf_eq_weighted_integral (t : Rat) {xs : List Rat} (hx : xs ≠ []) (y : Rat) :
    (tailLower (Fl.fin t) .ecdf (xs.map Fl.fin) (Fl.fin y)).total = Fl.fin (twIntegral none (some t) xs y) :=
  tw_ecdf_eq_weighted_integral (fun q => min_fin q t) hx y
example : ([2] : List Rat) ≠ [] := by decide

/-- `interval_tw_crps_for_ensemble(lower_threshold=a, upper_threshold=b)` = ∫_{[a,b)} (F_ens − H_y)² -/
theorem interval_ecdf_eq_weighted_integral (a b : Rat) {xs : List Rat} (hx : xs ≠ []) (y : Rat) :
    (interval (Fl.fin a) (Fl.fin b) .ecdf (xs.map Fl.fin) (Fl.fin y)).total = Fl.fin (twIntegral (some a) (some b) xs y) :=
  tw_ecdf_eq_weighted_integral (fun q => by simp [chainInterval, vOpt, omax, omin, min_fin, max_fin]) hx y
example : ([0, 1, 1] : List Rat) ≠ [] := by decide

/-- concrete check of the statement (members 0, 3; obs 1; interval [1, 2)): F_ens = ½ on [0,3), H = 1 from 1 on, so
    ∫_1^2 (½ − 1)² = ¼ -/
theorem interval_example : twIntegral (some 1) (some 2) [0, 3] 1 = 1 / 4 := by decide +kernel

/-! ## 3. method 'fair': the same integral minus the offset of the transformed members -/

/-- 'fair' (≥ 2 members): weighted integral − Σ_i Σ_j |v x_i − v x_j| / (2M²(M−1)) -/
theorem tw_fair_eq_weighted_integral_sub_offset {v : Fl → Fl} {a b : Option Rat}
    (hv : ∀ q, v (Fl.fin q) = Fl.fin (vOpt a b q)) {xs : List Rat} (hx : 2 ≤ xs.length) (y : Rat) :
    (tw v .fair (xs.map Fl.fin) (Fl.fin y)).total
      = Fl.fin (twIntegral a b xs y - fairOffset (xs.map (vOpt a b))) := by
  have hne : xs ≠ [] := by intro h; simp [h] at hx
  have hm : (xs.map Fl.fin).map v = (xs.map (vOpt a b)).map Fl.fin := by
    simp only [List.map_map]; exact List.map_congr_left (fun q _ => hv q)
  simp only [tw, components_total]
  rw [hm, hv, crpsEns_fair_eq_integral_sub_offset (by simpa using hx), crpsIntegral_map_vOpt hne]
example : 2 ≤ ([0, 1, 1] : List Rat).length := by decide

/-- the offset of the transformed members is the weighted one: every |x_i − x_j| is replaced by the length of
    [x_i, x_j) ∩ [a, b) -/
theorem fairOffset_transformed (a b : Option Rat) (xs : List Rat) :
    fairOffset (xs.map (vOpt a b))
      = (xs.map fun p => (xs.map fun q => max (omin b (max p q) - omax a (min p q)) 0).sum).sum
          / (2 * (xs.length : Rat) ^ 2 * ((xs.length : Rat) - 1)) := by
  unfold fairOffset
  rw [pairSum_eq, pairAbs_map, List.length_map]
  simp only [abs_vOpt_sub]

theorem tail_upper_fair_eq_weighted_integral (t : Rat) {xs : List Rat} (hx : 2 ≤ xs.length) (y : Rat) :
    (tailUpper (Fl.fin t) .fair (xs.map Fl.fin) (Fl.fin y)).total
      = Fl.fin (twIntegral (some t) none xs y - fairOffset (xs.map fun x => max x t)) :=
  tw_fair_eq_weighted_integral_sub_offset (fun q => max_fin q t) hx y
example : 2 ≤ ([0, 1] : List Rat).length := by decide

theorem tail_lower_fair_eq_weighted_integral (t : Rat) {xs : List Rat} (hx : 2 ≤ xs.length) (y : Rat) :
    (tailLower (Fl.fin t) .fair (xs.map Fl.fin) (Fl.fin y)).total
      = Fl.fin (twIntegral none (some t) xs y - fairOffset (xs.map fun x => min x t)) :=
  tw_fair_eq_weighted_integral_sub_offset (fun q => min_fin q t) hx y
example : 2 ≤ ([0, 1] : List Rat).length := by decide

theorem interval_fair_eq_weighted_integral (a b : Rat) {xs : List Rat} (hx : 2 ≤ xs.length) (y : Rat) :
    (interval (Fl.fin a) (Fl.fin b) .fair (xs.map Fl.fin) (Fl.fin y)).total
      = Fl.fin (twIntegral (some a) (some b) xs y - fairOffset (xs.map fun x => min (max x a) b)) :=
  tw_fair_eq_weighted_integral_sub_offset (a := some a) (b := some b)
    (fun q => by simp [chainInterval, vOpt, omax, omin, min_fin, max_fin]) hx y
example : 2 ≤ ([0, 1, 1] : List Rat).length := by decide

/-! ## 4. missing (NaN) members -/

/-- members that are rationals or NaN: the value is the weighted integral for the non-missing members
    (NaN — as for `crps_for_ensemble` — when no member is left); `v` keeps NaN (np.maximum / np.minimum / np.clip do) -/
theorem tw_ecdf_eq_weighted_integral_nan {v : Fl → Fl} {a b : Option Rat} (hv : ∀ q, v (Fl.fin q) = Fl.fin (vOpt a b q))
    (hnan : v Fl.nan = Fl.nan) {xs : List Fl} (hfin : ∀ x ∈ xs, x = Fl.nan ∨ ∃ q, x = Fl.fin q) (y : Rat) :
    (tw v .ecdf xs (Fl.fin y)).total
      = if (finVals xs).isEmpty then Fl.nan else Fl.fin (twIntegral a b (finVals xs) y) := by
  have hfin' : ∀ x ∈ xs.map v, x = Fl.nan ∨ ∃ q, x = Fl.fin q := by
    intro x hx
    obtain ⟨z, hz, rfl⟩ := List.mem_map.mp hx
    rcases hfin z hz with rfl | ⟨q, rfl⟩
    · exact Or.inl hnan
    · exact Or.inr ⟨_, hv q⟩
  have hfv : finVals (xs.map v) = (finVals xs).map (vOpt a b) := by
    induction xs with
    | nil => rfl
    | cons z l ih =>
      have ih' := ih (fun x hx => hfin x (List.mem_cons_of_mem _ hx))
        (fun x hx => hfin' x (by simp only [List.map_cons]; exact List.mem_cons_of_mem _ hx))
      rcases hfin z (by simp) with rfl | ⟨q, rfl⟩
      · simp only [List.map_cons, hnan, finVals]; exact ih'
      · simp only [List.map_cons, hv, finVals, ih']
  simp only [tw, components_total]
  rw [hv, crpsEns_ecdf_eq_integral_nan hfin', crpsEcdfFl, hfv]
  by_cases he : finVals xs = []
  · simp [he]
  · have he' : ((finVals xs).map (vOpt a b)).isEmpty = false := by simpa using he
    have he'' : (finVals xs).isEmpty = false := by simpa using he
    simp only [he', he'', Bool.false_eq_true, if_false]
    rw [crpsIntegral_map_vOpt he]
example : ∀ x ∈ ([Fl.fin 1, Fl.nan, Fl.fin 3] : List Fl), x = Fl.nan ∨ ∃ q, x = Fl.fin q := by
  intro x hx; simp at hx; rcases hx with rfl | rfl | rfl <;> simp
example : chainInterval (Fl.fin 0) (Fl.fin 2) Fl.nan = Fl.nan := by decide

/-- a missing observation gives NaN for every chaining function that keeps NaN -/
theorem tw_nan_obs {v : Fl → Fl} (hnan : v Fl.nan = Fl.nan) (m : Method) (xs : List Fl) :
    (tw v m xs Fl.nan).total = Fl.nan := by
  simp only [tw, components_total, hnan, crpsEns_nan_obs]
example : chainUpper (Fl.fin 1) Fl.nan = Fl.nan ∧ chainLower (Fl.fin 1) Fl.nan = Fl.nan := by decide

/-! ## 5. per-case (array) thresholds: the scalar theorem case by case -/

/-- a threshold that differs per forecast case (an xarray `threshold` / `lower_threshold` / `upper_threshold`): the
    model applies the per-case chaining function `v c` to case `c`, so the list of per-case values — and hence its
    (weighted) mean over the cases, `reduceMean` — is the one of the per-case weighted integrals -/
theorem tw_per_case_thresholds {ι : Type} (cases : List ι) (xs : ι → List Rat) (y : ι → Rat) (a b : ι → Option Rat)
    (v : ι → Fl → Fl) (hv : ∀ c ∈ cases, ∀ q, v c (Fl.fin q) = Fl.fin (vOpt (a c) (b c) q))
    (hx : ∀ c ∈ cases, xs c ≠ []) (w : Option (List Fl)) :
    reduceMean (cases.map fun c => (tw (v c) .ecdf ((xs c).map Fl.fin) (Fl.fin (y c))).total) w
      = reduceMean (cases.map fun c => Fl.fin (twIntegral (a c) (b c) (xs c) (y c))) w := by
  congr 1
  exact List.map_congr_left (fun c hc => tw_ecdf_eq_weighted_integral (hv c hc) (hx c hc) (y c))
example : ∀ c ∈ ([1, 2] : List Rat), ∀ q, chainUpper (Fl.fin c) (Fl.fin q) = Fl.fin (vOpt (some c) none q) :=
  fun c _ q => max_fin q c

/-- instance: upper tail with one threshold per case; a case = (members, obs, threshold) -/
theorem tail_upper_per_case_thresholds (cases : List (List Rat × Rat × Rat)) (hx : ∀ c ∈ cases, c.1 ≠ [])
    (w : Option (List Fl)) :
    reduceMean (cases.map fun c => (tailUpper (Fl.fin c.2.2) .ecdf (c.1.map Fl.fin) (Fl.fin c.2.1)).total) w
      = reduceMean (cases.map fun c => Fl.fin (twIntegral (some c.2.2) none c.1 c.2.1)) w :=
  tw_per_case_thresholds cases (·.1) (·.2.1) (fun c => some c.2.2) (fun _ => none) (fun c => chainUpper (Fl.fin c.2.2))
    (fun c _ q => max_fin q c.2.2) hx w
example : ∀ c ∈ ([([0, 2], 1, 1), ([3], 0, 2)] : List (List Rat × Rat × Rat)), c.1 ≠ [] := by decide

/-- instance: interval with per-case bounds; a case = (members, obs, lower, upper) -/
theorem interval_per_case_thresholds (cases : List (List Rat × Rat × Rat × Rat)) (hx : ∀ c ∈ cases, c.1 ≠ [])
    (w : Option (List Fl)) :
    reduceMean (cases.map fun c =>
        (interval (Fl.fin c.2.2.1) (Fl.fin c.2.2.2) .ecdf (c.1.map Fl.fin) (Fl.fin c.2.1)).total) w
      = reduceMean (cases.map fun c => Fl.fin (twIntegral (some c.2.2.1) (some c.2.2.2) c.1 c.2.1)) w :=
  tw_per_case_thresholds cases (·.1) (·.2.1) (fun c => some c.2.2.1) (fun c => some c.2.2.2)
    (fun c => chainInterval (Fl.fin c.2.2.1) (Fl.fin c.2.2.2))
    (fun c _ q => by simp [chainInterval, vOpt, omax, omin, min_fin, max_fin]) hx w
example : ∀ c ∈ ([([0, 2], 1, 0, 1), ([3], 0, 1, 2)] : List (List Rat × Rat × Rat × Rat)), c.1 ≠ [] := by decide

end SV.Props.C06Tw
