/-
  C18 — proportion exceeding with the open-ended bounds −∞ / +∞ as thresholds.

  The model of `flip_flop_index_proportion_exceeding` (`>=` discretisation that keeps NaN, then the nan-mean) against the
  exact spec `Spec.proportionExt` for a threshold in the extended rationals: every valid index is at or above −∞
  (proportion 1), none is at or above +∞ (proportion 0); the result is NaN only when there is no valid index.
-/
import ScoresVerif.Lemmas.FlipFlopC18Inf

namespace SV.Props.C18Inf
open SV SV.Fl SV.Model.FlipFlop
open SV.Spec.FlipFlop (Thr proportionExt)

/-- proportion exceeding a threshold of the extended rationals is the fraction of the valid (non-NaN) indices at or above it -/
theorem proportion_exceeding_ext_is_fraction (vs : List (Option Rat)) (t : Thr) :
    proportionExceeding (vs.map optFl) (thrFl t) = optFl (proportionExt vs t) :=
  proportionExceeding_ext vs t

/-- threshold −∞: 1 as soon as there is one valid index -/
theorem proportion_exceeding_ninf (vs : List (Option Rat)) (h : vs.filterMap id ≠ []) :
    proportionExceeding (vs.map optFl) Fl.ninf = fin 1 := by
  have := proportionExceeding_ext vs Thr.ninf
  rw [proportionExt_ninf vs h] at this
  exact this

example : [some (15 : Rat), none, some 0].filterMap id ≠ [] := by decide

/-- threshold +∞: 0 as soon as there is one valid index -/
theorem proportion_exceeding_pinf (vs : List (Option Rat)) (h : vs.filterMap id ≠ []) :
    proportionExceeding (vs.map optFl) Fl.pinf = fin 0 := by
  have := proportionExceeding_ext vs Thr.pinf
  rw [proportionExt_pinf vs h] at this
  exact this

example : [none, some (40 : Rat)].filterMap id ≠ [] := by decide

/-- NaN only where there is no valid index -/
theorem proportion_exceeding_ext_nan_iff (vs : List (Option Rat)) (t : Thr) :
    proportionExceeding (vs.map optFl) (thrFl t) = Fl.nan ↔ vs.filterMap id = [] := by
  rw [proportionExceeding_ext]
  constructor
  · intro h
    by_contra hne
    unfold proportionExt at h
    have he : (vs.filterMap id).isEmpty = false := by
      cases hv : vs.filterMap id with
      | nil => exact absurd hv hne
      | cons _ _ => rfl
    simp only [he, Bool.false_eq_true, if_false, optFl] at h
    exact absurd h (by simp)
  · intro h
    rw [proportionExt_none vs t h]
    rfl

/-- for a rational threshold the extended spec is the original one (`Props/C18.lean`, `proportion_exceeding_is_fraction`) -/
theorem proportion_ext_fin (vs : List (Option Rat)) (t : Rat) :
    proportionExt vs (Thr.fin t) = SV.Spec.FlipFlop.proportion vs t :=
  proportionExt_fin vs t

end SV.Props.C18Inf
