/-
  C19 (stretch) — `acovf._next_regular(target)` returns THE next regular (5-smooth) number, for every target ≥ 1.

  The model `SV.Model.DM.nextRegular` follows the two nested `while` loops of
  /repo/src/scores/stats/statistical_tests/acovf.py by well-founded recursion (no fuel, any size of target) and is
  compared with the code for every target ≤ 10⁴ / 10⁵ by the correspondence check.  Proved here for ALL targets:

    1. the result has the form 2^a·3^b·5^c                                   (`next_regular_smooth`)
    2. target ≤ result                                                        (`next_regular_ge`)
    3. every 2^a·3^b·5^c that is ≥ target is ≥ result                         (`next_regular_minimal`)
       — together: the result is the least element of {regular numbers ≥ target} (`next_regular_is_least`)
    4. consequences: regular targets are returned unchanged, the function is idempotent and monotone, the result is
       < 2·target, and the FFT length `_next_regular(2·nobs + 1)` used by `acovf` is a regular number ≥ 2·nobs − 1
       (what the circular → linear autocovariance argument needs) which no smaller regular length ≥ 2·nobs + 1 beats.

  Loop invariants: see `Lemmas/C19NextRegular.lean` (`inner_smooth/outer_smooth`, `inner_min/outer_min`).
  `target = 0` is outside the docstring's contract ("Target must be a positive integer"): the code returns 0.
-/
import ScoresVerif.Lemmas.C19NextRegular
import Mathlib.Order.Bounds.Defs

namespace SV.Props.C19NextRegular
open SV SV.Model.DM

/-- 1. the value returned for a positive target is a regular number `2^a·3^b·5^c` -/
theorem next_regular_smooth (n : Nat) (hn : 1 ≤ n) : ∃ a b c : Nat, nextRegular n = 2 ^ a * 3 ^ b * 5 ^ c :=
  nextRegular_smooth n hn

example : (1 : Nat) ≤ 1021 := by decide

/-- without `1 ≤ n` the statement fails: `_next_regular(0) = 0`, which is not of the form `2^a·3^b·5^c` -/
theorem next_regular_zero : nextRegular 0 = 0 ∧ ¬ ∃ a b c : Nat, (0 : Nat) = 2 ^ a * 3 ^ b * 5 ^ c := by
  refine ⟨by simp [nextRegular], ?_⟩
  rintro ⟨a, b, c, h⟩
  have : 0 < 2 ^ a * 3 ^ b * 5 ^ c := by positivity
  omega

/-- 2. the value is not below the target -/
theorem next_regular_ge (n : Nat) : n ≤ nextRegular n := nextRegular_ge n

/-- 3. no regular number lies in `[target, result)`: every `2^a·3^b·5^c ≥ n` is `≥ nextRegular n` -/
theorem next_regular_minimal (n a b c : Nat) (h : n ≤ 2 ^ a * 3 ^ b * 5 ^ c) :
    nextRegular n ≤ 2 ^ a * 3 ^ b * 5 ^ c :=
  nextRegular_min n a b c h

example : (1021 : Nat) ≤ 2 ^ 10 * 3 ^ 0 * 5 ^ 0 := by decide

/-- 1–3 in one statement: `_next_regular(n)` is the least regular number `≥ n` -/
theorem next_regular_is_least (n : Nat) (hn : 1 ≤ n) :
    IsLeast {m : Nat | (∃ a b c : Nat, m = 2 ^ a * 3 ^ b * 5 ^ c) ∧ n ≤ m} (nextRegular n) := by
  refine ⟨⟨next_regular_smooth n hn, next_regular_ge n⟩, ?_⟩
  rintro m ⟨⟨a, b, c, rfl⟩, hm⟩
  exact next_regular_minimal n a b c hm

/-- the characterisation determines the value: any `r` that is regular, `≥ n` and below every regular number `≥ n`
    is `_next_regular(n)` -/
theorem next_regular_unique (n r : Nat) (hn : 1 ≤ n) (hr : ∃ a b c : Nat, r = 2 ^ a * 3 ^ b * 5 ^ c) (hge : n ≤ r)
    (hmin : ∀ a b c : Nat, n ≤ 2 ^ a * 3 ^ b * 5 ^ c → r ≤ 2 ^ a * 3 ^ b * 5 ^ c) : nextRegular n = r := by
  obtain ⟨a, b, c, e⟩ := hr
  obtain ⟨a', b', c', e'⟩ := next_regular_smooth n hn
  have h1 : nextRegular n ≤ r := by rw [e]; exact next_regular_minimal n a b c (by rw [← e]; exact hge)
  have h2 : r ≤ nextRegular n := by rw [e']; exact hmin a' b' c' (by rw [← e']; exact next_regular_ge n)
  omega

/-- a regular target is returned unchanged -/
theorem next_regular_fixed (a b c : Nat) : nextRegular (2 ^ a * 3 ^ b * 5 ^ c) = 2 ^ a * 3 ^ b * 5 ^ c :=
  Nat.le_antisymm (next_regular_minimal _ a b c (Nat.le_refl _)) (next_regular_ge _)

/-- idempotent -/
theorem next_regular_idempotent (n : Nat) (hn : 1 ≤ n) : nextRegular (nextRegular n) = nextRegular n := by
  obtain ⟨a, b, c, e⟩ := next_regular_smooth n hn
  rw [e]; exact next_regular_fixed a b c

/-- monotone in the target -/
theorem next_regular_mono (n n' : Nat) (hn : 1 ≤ n) (h : n ≤ n') : nextRegular n ≤ nextRegular n' := by
  obtain ⟨a, b, c, e⟩ := next_regular_smooth n' (by omega)
  rw [e]; apply next_regular_minimal
  rw [← e]; exact Nat.le_trans h (next_regular_ge n')

example : (1 : Nat) ≤ 7 ∧ (7 : Nat) ≤ 11 := by decide

/-- the padding is less than a factor two: `n ≤ _next_regular(n) < 2n` (a power of two lies in `[n, 2n)`) -/
theorem next_regular_lt_two_mul (n : Nat) (hn : 1 ≤ n) : nextRegular n < 2 * n := by
  have hle : nextRegular n ≤ 2 ^ bitLength (n - 1) * 3 ^ 0 * 5 ^ 0 :=
    next_regular_minimal n _ 0 0 (by simpa using le_pow_bitLength n)
  have hlt : 2 ^ bitLength (n - 1) < 2 * n := by
    unfold bitLength
    split
    · simp; omega
    · rename_i hne
      have := Nat.log2_self_le hne
      rw [pow_succ]; omega
  simp at hle
  omega

/-- concrete values by kernel evaluation of the model (1021 is prime; the next regular number is 1024 = 2^10) -/
theorem next_regular_examples :
    nextRegular 7 = 8 ∧ nextRegular 11 = 12 ∧ nextRegular 13 = 15 ∧ nextRegular 1021 = 1024 := by
  decide +kernel

/-! ## the FFT length of `acovf` -/

/-- 4. whenever the code asks `_next_regular` for a target `≥ 2·nobs − 1`, the padded FFT length is `≥ 2·nobs − 1`:
    the circular autocorrelation of the zero-padded series has no wrap-around at lags `< nobs` -/
theorem padded_length_sufficient (nobs target : Nat) (h : 2 * nobs - 1 ≤ target) :
    2 * nobs - 1 ≤ nextRegular target :=
  Nat.le_trans h (next_regular_ge target)

example : 2 * 5 - 1 ≤ 2 * 5 + 1 := by decide

/-- `acovf` pads to `n = _next_regular(2·nobs + 1)`: a regular number, `≥ 2·nobs + 1 > 2·nobs − 1`, less than twice
    the target, and the smallest regular length with that property -/
theorem fft_length_regular_sufficient_minimal (nobs : Nat) :
    (∃ a b c : Nat, fftLength nobs = 2 ^ a * 3 ^ b * 5 ^ c) ∧
    2 * nobs - 1 ≤ fftLength nobs ∧ 2 * nobs + 1 ≤ fftLength nobs ∧ fftLength nobs < 2 * (2 * nobs + 1) ∧
    (∀ a b c : Nat, 2 * nobs + 1 ≤ 2 ^ a * 3 ^ b * 5 ^ c → fftLength nobs ≤ 2 ^ a * 3 ^ b * 5 ^ c) := by
  unfold fftLength
  have hge := next_regular_ge (2 * nobs + 1)
  exact ⟨next_regular_smooth _ (by omega), by omega, hge, next_regular_lt_two_mul _ (by omega),
    fun a b c h => next_regular_minimal _ a b c h⟩

end SV.Props.C19NextRegular
