/-
  C02 for CDF forecasts — "for a CDF the whole CDF of that case".

  Lifts the NaN-locality lemmas of the C07 model (`Model.CrpsCdf`, `Model.Cdf`: `propagateNan`, `lookupAt` re-indexing
  onto the common grid, `fillRow`, `exactRow` / `trapzRow`; lemmas `propagateNan_of_nan`, `fillRow_blank`,
  `exactRow_nan`, `trapzRow_nan`) to the whole per-case path of `crps_cdf(propagate_nans=True)`:
  one NaN ordinate anywhere in a forecast CDF ⇒ the whole filled CDF of that case is NaN ⇒ total / under / over of that
  case are NaN — and the mean over cases is the mean over the cases without a NaN ordinate.
  The common `grid` is a parameter here (in `crps_cdf` it is the union of all thresholds and observations; that the exact
  integral does not depend on it is C07's grid-refinement theorem, not repeated here).
-/
import ScoresVerif.Lemmas.CrpsCdf
import ScoresVerif.Lemmas.C02Lists

namespace SV.Props.C02Cdf
open SV SV.Fl SV.Model.Cdf SV.Model.CrpsCdf SV.Lemmas.C02Lists SV.Lemmas.Cdf SV.Lemmas.CrpsCdf

theorem lookupAt_replicate_nan : ∀ (thr : List Rat) (n : Nat) (t : Rat), lookupAt thr (List.replicate n nan) t = nan
  | [], _, _ => by simp [lookupAt]
  | _ :: _, 0, _ => by simp [lookupAt]
  | x :: xs, n + 1, t => by
    simp only [List.replicate_succ, lookupAt]
    split
    · rfl
    · exact lookupAt_replicate_nan xs n t

/-- the per-case forecast path of `crps_cdf` with `propagate_nans=True`: propagate NaN along the threshold axis,
    re-index onto the common grid, fill (`min_nonnan = 2`) -/
def filledFcst (thr grid : List Rat) (method : String) (xs : List Fl) : List Fl :=
  fillRow grid (grid.map (lookupAt thr (propagateNan xs))) method 2

/-- **one NaN ordinate blanks the whole CDF of the case**: the filled forecast is NaN at EVERY grid threshold,
    for every fill method -/
theorem cdf_nan_ordinate_blanks_whole_cdf (thr grid : List Rat) (method : String) (xs : List Fl)
    (h : anyNan xs = true) : filledFcst thr grid method xs = List.replicate grid.length nan := by
  unfold filledFcst
  rw [propagateNan_of_nan xs h]
  have hre : grid.map (lookupAt thr (List.replicate xs.length nan)) = List.replicate grid.length nan := by
    rw [List.eq_replicate_iff]
    refine ⟨by simp, ?_⟩
    intro b hb
    obtain ⟨t, _, rfl⟩ := List.mem_map.mp hb
    exact lookupAt_replicate_nan thr _ t
  rw [hre]
  have hc : ((count (List.replicate grid.length nan) : Nat) : Int) < 2 := by
    simp [count, valid]
  simpa using fillRow_blank grid (List.replicate grid.length nan) method 2 hc
example : anyNan [fin 0, nan, fin 1] = true := by decide

/-- … hence total, underforecast and overforecast penalty of that case are NaN, for both integration methods, whatever
    the observation and the weight of the case -/
theorem cdf_nan_ordinate_case_is_nan (thr grid : List Rat) (method : String) (xs o w : List Fl)
    (h : anyNan xs = true) (hg : grid ≠ []) :
    (exactRow grid (filledFcst thr grid method xs) o w).total = nan ∧
    (exactRow grid (filledFcst thr grid method xs) o w).under = nan ∧
    (exactRow grid (filledFcst thr grid method xs) o w).over = nan ∧
    (trapzRow grid (filledFcst thr grid method xs) o w).total = nan ∧
    (trapzRow grid (filledFcst thr grid method xs) o w).under = nan ∧
    (trapzRow grid (filledFcst thr grid method xs) o w).over = nan := by
  have hin : inputsWithoutNan (filledFcst thr grid method xs) o w = false := by
    rw [cdf_nan_ordinate_blanks_whole_cdf thr grid method xs h]
    cases grid with
    | nil => exact absurd rfl hg
    | cons a l => simp [inputsWithoutNan, anyNan, List.replicate_succ]
  obtain ⟨a, b, c⟩ := exactRow_nan grid _ o w hin
  obtain ⟨d, e, f⟩ := trapzRow_nan grid _ o w hin
  exact ⟨a, b, c, d, e, f⟩
example : anyNan [fin 0, nan, fin 1] = true ∧ ([0, 1, 2] : List Rat) ≠ [] := by decide

/-- one case: forecast CDF ordinates, observation CDF row, weight row (the latter two already on the grid) -/
abbrev Case := List Fl × List Fl × List Fl

/-- per-case total of `crps_cdf` (`exact = true`: integration_method "exact", else "trapz") -/
def caseTotal (thr grid : List Rat) (method : String) (exact : Bool) (c : Case) : Fl :=
  (if exact then exactRow grid (filledFcst thr grid method c.1) c.2.1 c.2.2
   else trapzRow grid (filledFcst thr grid method c.1) c.2.1 c.2.2).total

/-- the forecast CDF of the case has no NaN ordinate -/
def fcstComplete (c : Case) : Bool := !(anyNan c.1)

/-- **aggregation**: the mean over cases = the mean over the cases whose forecast CDF has no NaN ordinate — a case with
    a single NaN ordinate is dropped as a whole, never averaged in with a partial integral -/
theorem cdf_mean_eq_mean_without_nan_cases (thr grid : List Rat) (hg : grid ≠ []) (method : String) (exact : Bool)
    (cs : List Case) :
    nanmean (cs.map (caseTotal thr grid method exact)) =
      nanmean ((cs.filter fcstComplete).map (caseTotal thr grid method exact)) := by
  apply nanmean_congr_valid
  apply valid_map_filter
  intro c hc
  have h : anyNan c.1 = true := by simpa [fcstComplete] using hc
  obtain ⟨a, _, _, d, _, _⟩ := cdf_nan_ordinate_case_is_nan thr grid method c.1 c.2.1 c.2.2 h hg
  cases exact <;> simp [caseTotal, a, d]

/-- "only that case": the per-case values of the other cases do not change when a NaN is written into one case's CDF
    (position `i` of the case list, ordinate `j`) -/
theorem cdf_nan_leaves_other_cases (thr grid : List Rat) (method : String) (exact : Bool) (cs : List Case)
    (i j : Nat) (k : Nat) (hk : k ≠ i) :
    ((cs.modify i fun c => (c.1.set j nan, c.2)).map (caseTotal thr grid method exact))[k]? =
      (cs.map (caseTotal thr grid method exact))[k]? := by
  simp only [List.getElem?_map, List.getElem?_modify]
  simp [hk.symm]

end SV.Props.C02Cdf
