/-
  C18 (directional part) — the sector routine is proved, not only compared.

  `_encompassing_sector_size_np` (src/scores/continuous/flip_flop_impl.py) is modelled faithfully by
  `SV.Model.FlipFlop.sectorNp` (`% 360`, sort, roll, folded absolute differences, argmax, rotation by the first bounding
  angle, the `max == second` test, the `n_unique ≤ 2` branch).  For every NaN-free input of any length ≥ 1 that model
  returns the smallest arc covering all directions, which equals 360 − the largest gap between cyclically adjacent
  distinct directions mod 360.  Hence the model of the directional flip-flop index is the closed formula and is invariant
  under rotating all directions by any rational angle.

  With `skipna=False` a NaN/infinite direction gives NaN; with `skipna=True` NaN directions are ignored (all NaN: NaN).

  Proof layers: Lemmas/FlipFlopC18Model.lean (model on finite input = rational mirror `sectorQ d k`, k the argmax),
  Lemmas/FlipFlopC18Core.lean (mirror = covering-arc spec, for ANY index k of a maximal folded difference),
  Lemmas/FlipFlopC18Gap.lean (covering-arc spec = gap spec).
-/
import ScoresVerif.Lemmas.FlipFlopC18Core
import ScoresVerif.Lemmas.FlipFlopC18Model
import ScoresVerif.Lemmas.FlipFlopC18Gap
import ScoresVerif.Lemmas.FlipFlopC18Nan
import ScoresVerif.Lemmas.FlipFlopC18Skipna
import ScoresVerif.Lemmas.FlipFlopC18SkipnaNan

namespace SV.Props.C18
open SV SV.Fl SV.Model.FlipFlop
open SV.Spec.FlipFlop (tvAng arc coverFrom sector sectorGap ffiAng sortedResidues)

/-- the two specifications agree: the shortest arc (starting at a data point) that covers every direction is
    360 − the largest gap between cyclically adjacent distinct directions mod 360 (one distinct direction: gap 360) -/
theorem sector_eq_gap (xs : List Rat) (hne : xs ≠ []) : sector xs = sectorGap xs :=
  SV.Spec.FlipFlop.sector_eq_sectorGap xs hne

example : ([350, 10, 100, 10] : List Rat) ≠ [] ∧ sector [350, 10, 100, 10] = 110 := by decide +kernel

/-- THE SECTOR ROUTINE IS CORRECT: on NaN-free directions (any rationals, any length ≥ 1, duplicates allowed) the model
    of `_encompassing_sector_size_np` returns the smallest covering arc -/
theorem sector_model_eq_spec (xs : List Rat) (hne : xs ≠ []) : sectorNp false (xs.map fin) = fin (sector xs) := by
  obtain ⟨k, hk, hmax, hval⟩ := sectorNp_fin xs hne
  have hmem : ∀ x, x ∈ sortedResidues xs ↔ x ∈ xs.map fun v => rmod v 360 := fun x => List.mem_insertionSort _
  have hd : sortedResidues xs ≠ [] := by intro h; rw [h] at hk; exact absurd hk (by simp)
  have hs : (sortedResidues xs).Pairwise (· ≤ ·) := List.pairwise_insertionSort _ _
  have hr : ∀ x ∈ sortedResidues xs, 0 ≤ x ∧ x < 360 := by
    intro x hx
    obtain ⟨v, _, rfl⟩ := List.mem_map.mp ((hmem x).mp hx)
    exact ⟨rmod360_nonneg v, rmod360_lt v⟩
  rw [hval, SV.Spec.FlipFlop.sectorQ_eq_sector _ hd hs hr hk hmax,
    SV.Spec.FlipFlop.sector_congr_mem _ _ hmem, SV.Spec.FlipFlop.sector_residues]

example : ([725, -10, 100, 350, 100] : List Rat) ≠ [] ∧
    sectorNp false (([725, -10, 100, 350, 100] : List Rat).map fin) = fin 110 := by decide +kernel

/-- … which is 360 − the largest gap -/
theorem sector_model_eq_gap (xs : List Rat) (hne : xs ≠ []) : sectorNp false (xs.map fin) = fin (sectorGap xs) := by
  rw [sector_model_eq_spec xs hne, sector_eq_gap xs hne]

example : ([0, 90, 180, 270] : List Rat) ≠ [] ∧ sectorGap [0, 90, 180, 270] = 270 := by decide +kernel

/-- the routine's value depends only on the SET of directions mod 360: order, multiplicity and whole turns are irrelevant -/
theorem sector_model_set_invariant (xs ys : List Rat) (hne : xs ≠ [])
    (h : ∀ r, r ∈ xs.map (fun v => rmod v 360) ↔ r ∈ ys.map (fun v => rmod v 360)) :
    sectorNp false (xs.map fin) = sectorNp false (ys.map fin) := by
  have hne' : ys ≠ [] := by
    intro hy
    obtain ⟨a, t, rfl⟩ := List.exists_cons_of_ne_nil hne
    have := (h (rmod a 360)).mp (by simp)
    simp [hy] at this
  rw [sector_model_eq_spec xs hne, sector_model_eq_spec ys hne', ← SV.Spec.FlipFlop.sector_residues xs,
    ← SV.Spec.FlipFlop.sector_residues ys, SV.Spec.FlipFlop.sector_congr_mem _ _ h]

example : ([10, 350, 10] : List Rat) ≠ [] ∧
    ∀ r, r ∈ ([10, 350, 10] : List Rat).map (fun v => rmod v 360) ↔ r ∈ ([-10, 370] : List Rat).map (fun v => rmod v 360) := by
  refine ⟨by simp, ?_⟩
  have h1 : rmod (10 : Rat) 360 = 10 := by decide +kernel
  have h2 : rmod (350 : Rat) 360 = 350 := by decide +kernel
  have h3 : rmod (-10 : Rat) 360 = 350 := by decide +kernel
  have h4 : rmod (370 : Rat) 360 = 10 := by decide +kernel
  intro r
  simp only [List.map_cons, List.map_nil, h1, h2, h3, h4, List.mem_cons, List.not_mem_nil, or_false]
  tauto

/-- the routine's value is invariant under rotating all directions by any rational angle -/
theorem sector_model_rotation (xs : List Rat) (c : Rat) (hne : xs ≠ []) :
    sectorNp false ((xs.map (· + c)).map fin) = sectorNp false (xs.map fin) := by
  rw [sector_model_eq_spec _ (by simpa using hne), sector_model_eq_spec xs hne, SV.Spec.FlipFlop.sector_rotate]

example : ([350, 10, 100] : List Rat) ≠ [] ∧
    sectorNp false ((([350, 10, 100] : List Rat).map (· + 77 / 2)).map fin) = sectorNp false (([350, 10, 100] : List Rat).map fin) := by
  decide +kernel

/-- DIRECTIONAL FORMULA, now unconditional: the model of `_flip_flop_index(is_angular=True)` on finite directions is
    (Σ circular successive changes − min(smallest covering sector, 180)) / (N − 2) -/
theorem ffi_angular_closed_form (xs : List Rat) (hn : 3 ≤ xs.length) : ffiAngular (xs.map fin) = fin (ffiAng xs) := by
  have hne : xs ≠ [] := by intro h; simp [h] at hn
  rw [ffiAngular_fin xs (sector xs) hn (sector_model_eq_spec xs hne)]
  rfl

example : 3 ≤ ([350, 10, 100, 20] : List Rat).length ∧
    ffiAngular (([350, 10, 100, 20] : List Rat).map fin) = fin 40 := by decide +kernel

/-- the MODEL of the directional flip-flop index is invariant under rotating all directions by any rational angle -/
theorem ffi_angular_rotation (xs : List Rat) (c : Rat) (hn : 3 ≤ xs.length) :
    ffiAngular ((xs.map (· + c)).map fin) = ffiAngular (xs.map fin) := by
  rw [ffi_angular_closed_form _ (by simpa using hn), ffi_angular_closed_form xs hn, SV.Spec.FlipFlop.ffiAng_rotate]

example : 3 ≤ ([350, 10, 100, 20] : List Rat).length ∧
    ffiAngular ((([350, 10, 100, 20] : List Rat).map (· + 1001 / 8)).map fin) = fin 40 := by decide +kernel

/-! ## NaN and `skipna` -/

/-- `skipna=False`: one NaN or infinite direction makes the routine's value NaN (as documented) -/
theorem sector_model_nan (xs : List Fl) (h : ∃ x ∈ xs, x.isFinite = false) : sectorNp false xs = Fl.nan :=
  sectorNp_false_nan xs h

example : (∃ x ∈ [fin 10, Fl.nan, fin 350], x.isFinite = false) := ⟨Fl.nan, by simp, rfl⟩

/-- so `sectorNp false` is characterised on ALL finite-or-NaN inputs: the smallest covering arc, or NaN -/
theorem sector_model_total (xs : List Fl) (hfin : ∀ x ∈ xs, x = Fl.nan ∨ ∃ q, x = fin q) (hne : xs ≠ []) :
    (Fl.nan ∈ xs → sectorNp false xs = Fl.nan) ∧
    (Fl.nan ∉ xs → ∃ qs : List Rat, xs = qs.map fin ∧ sectorNp false xs = fin (sector qs)) := by
  constructor
  · intro h; exact sectorNp_false_nan xs ⟨Fl.nan, h, rfl⟩
  · intro h
    obtain ⟨qs, rfl⟩ := all_fin_of_no_nan xs hfin h
    exact ⟨qs, rfl, sector_model_eq_spec qs (by intro h'; apply hne; simp [h'])⟩

example : (∀ x ∈ [fin 10, Fl.nan], x = Fl.nan ∨ ∃ q, x = fin q) ∧ [fin 10, Fl.nan] ≠ [] := by
  refine ⟨?_, by simp⟩
  intro x hx
  simp only [List.mem_cons, List.not_mem_nil, or_false] at hx
  rcases hx with rfl | rfl
  · exact Or.inr ⟨10, rfl⟩
  · exact Or.inl rfl

/-- the directional index is NaN iff the sequence contains a NaN (finite-or-NaN sequences of length ≥ 3) -/
theorem ffi_angular_nan_iff (xs : List Fl) (hfin : ∀ x ∈ xs, x = Fl.nan ∨ ∃ q, x = fin q) (hn : 3 ≤ xs.length) :
    ffiAngular xs = Fl.nan ↔ Fl.nan ∈ xs := by
  constructor
  · intro h
    by_contra hno
    obtain ⟨qs, rfl⟩ := all_fin_of_no_nan xs hfin hno
    rw [ffi_angular_closed_form qs (by simpa using hn)] at h
    exact Fl.noConfusion h
  · intro h
    unfold ffiAngular
    rw [sectorNp_false_nan xs ⟨Fl.nan, h, rfl⟩]
    simp [SV.Gen.FlipFlop.angular_range, SV.Gen.FlipFlop.tail, Fl.min]

example : (∀ x ∈ [fin 1, Fl.nan, fin 2], x = Fl.nan ∨ ∃ q, x = fin q) ∧ 3 ≤ [fin 1, Fl.nan, fin 2].length := by
  refine ⟨?_, by decide⟩
  intro x hx
  simp only [List.mem_cons, List.not_mem_nil, or_false] at hx
  rcases hx with rfl | rfl | rfl
  · exact Or.inr ⟨1, rfl⟩
  · exact Or.inl rfl
  · exact Or.inr ⟨2, rfl⟩

/-- `skipna=True` on NaN-free directions: the same value, the smallest covering arc (the extra rotation by the smallest
    angle changes nothing) -/
theorem sector_model_skipna_eq_spec (xs : List Rat) (hne : xs ≠ []) : sectorNp true (xs.map fin) = fin (sector xs) :=
  sectorNp_true_fin xs hne

example : ([725, -10, 100, 350, 100] : List Rat) ≠ [] ∧
    sectorNp true (([725, -10, 100, 350, 100] : List Rat).map fin) = fin 110 := by decide +kernel

/-- `skipna=True` IGNORES NaN: with at least one non-NaN direction the routine returns the smallest arc covering the
    non-NaN directions (NaN sorted last, rotation by the smallest angle, NaN ↦ 0 — a cyclic rotation of sorted residues,
    under which the routine is equivariant) -/
theorem sector_model_skipna_ignores_nan (vs : List (Option Rat)) (hne : vs.filterMap id ≠ []) :
    sectorNp true (vs.map optFl) = fin (sector (vs.filterMap id)) :=
  sectorNp_true_mixed vs hne

example : ([some 350, none, some 10, none, some 100] : List (Option Rat)).filterMap id ≠ [] ∧
    sectorNp true (([some 350, none, some 10, none, some 100] : List (Option Rat)).map optFl) = fin 110 := by
  decide +kernel

/-- `skipna=True` with nothing but NaN: NaN -/
theorem sector_model_skipna_all_nan (vs : List (Option Rat)) (h : vs.filterMap id = []) :
    sectorNp true (vs.map optFl) = Fl.nan :=
  sectorNp_true_all_nan vs h

example : ([none, none] : List (Option Rat)).filterMap id = [] := by decide

end SV.Props.C18
