/-
  C16 stretch — special windows, count bounds and the extreme scores of the Fractions Skill Score.

  Statements are about the EXISTING specification `SV.Spec.Fss` (direct window counting) and the EXISTING model of the
  code `SV.Model.Fss.fssSingle` / `imageOf` (tied to each other by `Props/C16.lean`), for every field shape.
  `flat x H W` is the row-major listing of the field, `total x H W` its number of events (Lemmas/C16Stretch.lean).
-/
import ScoresVerif.Props.C16
import ScoresVerif.Lemmas.C16Stretch

namespace SV.Props.C16
open SV SV.Fl SV.Model.Fss
open SV.Spec.Fss (Cmp isEvent image fieldSums sums score fss win ext)

/-! ## 1. A 1×1 window: the pointwise agreement score -/

/-- with a 1×1 window (no padding) the window-count image IS the event field -/
theorem image_window_1x1 (x : Nat → Nat → Int) (H W : Nat) : image x H W 0 0 0 0 1 1 = flat x H W :=
  image_1x1 x H W

/-- 1×1 window: FSS = 1 − Σ(o−f)²/(Σo² + Σf²) over the CELLS of the two event fields (0 when there is no event) -/
theorem fss_window_1x1 (xf xo : Nat → Nat → Int) (H W : Nat) :
    fss xf xo H W 0 0 0 0 1 1 = score (sums (flat xf H W) (flat xo H W)) := by
  unfold fss fieldSums
  rw [image_1x1, image_1x1]

/-- the same for the model of `fss_2d_single_field(window_size=(1,1), zero_padding=False)` -/
theorem fssSingle_window_1x1 (c : Cmp) (thr : Fl) (fcst obs : List (List Fl)) (H W : Nat) (hH : 1 ≤ H) (hW : 1 ≤ W) :
    fssSingle (cmpOp c) thr false fcst obs H W 1 1
      = fin (score (sums (flat (ev c thr fcst) H W) (flat (ev c thr obs) H W))) := by
  rw [fss_nopad_eq_spec c thr fcst obs H W 1 1 (le_refl _) hH (le_refl _) hW, fss_window_1x1]

example : (1 : Nat) ≤ 2 ∧ (1 : Nat) ≤ 3 := by decide

/-! ## 2. A window equal to the whole field: the two event totals are compared -/

/-- a window as large as the field (no padding) has ONE position, whose count is the number of events -/
theorem image_whole_window (x : Nat → Nat → Int) (H W : Nat) : image x H W 0 0 0 0 H W = [total x H W] :=
  image_whole x H W

/-- whole-field window: FSS = 2·N_o·N_f / (N_o² + N_f²), N = number of events of the field
    (Lean's `q / 0 = 0` covers the case of no event at all: the score is then 0) -/
theorem fss_whole_window (xf xo : Nat → Nat → Int) (H W : Nat) :
    fss xf xo H W 0 0 0 0 H W
      = 2 * (total xo H W : Rat) * (total xf H W : Rat)
          / ((total xo H W : Rat) * (total xo H W : Rat) + (total xf H W : Rat) * (total xf H W : Rat)) := by
  unfold fss fieldSums
  rw [image_whole, image_whole, score_single]

/-- the same for the model of `fss_2d_single_field(window_size=field shape, zero_padding=False)` -/
theorem fssSingle_whole_window (c : Cmp) (thr : Fl) (fcst obs : List (List Fl)) (H W : Nat) (hH : 1 ≤ H) (hW : 1 ≤ W) :
    fssSingle (cmpOp c) thr false fcst obs H W H W
      = fin (2 * (total (ev c thr obs) H W : Rat) * (total (ev c thr fcst) H W : Rat)
          / ((total (ev c thr obs) H W : Rat) * (total (ev c thr obs) H W : Rat)
              + (total (ev c thr fcst) H W : Rat) * (total (ev c thr fcst) H W : Rat))) := by
  rw [fss_nopad_eq_spec c thr fcst obs H W H W hH (le_refl _) hW (le_refl _), fss_whole_window]

example : (1 : Nat) ≤ 3 ∧ (1 : Nat) ≤ 4 := by decide

/-- whole-field window, equal event totals (at least one event): score 1 wherever the events are -/
theorem fss_whole_window_equal_totals (xf xo : Nat → Nat → Int) (H W : Nat)
    (heq : total xf H W = total xo H W) (hne : total xo H W ≠ 0) :
    fss xf xo H W 0 0 0 0 H W = 1 := by
  rw [fss_whole_window, heq]
  have h : (total xo H W : Rat) ≠ 0 := by exact_mod_cast hne
  have h2 : (total xo H W : Rat) * (total xo H W : Rat) ≠ 0 := mul_ne_zero h h
  rw [div_eq_one_iff_eq (by intro h0; apply h2; linarith)]
  ring

/-- two 2×2 fields with one event each in DIFFERENT cells: the whole-field window scores them 1 -/
example : total (fun a b => if a = 0 ∧ b = 0 then (1 : Int) else 0) 2 2
      = total (fun a b => if a = 1 ∧ b = 1 then (1 : Int) else 0) 2 2
    ∧ total (fun a b => if a = 1 ∧ b = 1 then (1 : Int) else 0) 2 2 ≠ 0 := by decide +kernel

/-! ## 3. Window counts are bounded by the window area -/

/-- for 0/1 fields every window count lies in [0, h·w], for every zero extension -/
theorem window_count_le_area (x : Nat → Nat → Int) (H W pt pb pl pr h w : Nat)
    (h0 : ∀ i < H, ∀ j < W, 0 ≤ x i j) (h1 : ∀ i < H, ∀ j < W, x i j ≤ 1) :
    ∀ v ∈ image x H W pt pb pl pr h w, 0 ≤ v ∧ v ≤ (h : Int) * (w : Int) :=
  fun v hv => ⟨image_nonneg x H W pt pb pl pr h w h0 v hv, image_le_area x H W pt pb pl pr h w h1 v hv⟩

example : ∀ i < 2, ∀ j < 2, (0 : Int) ≤ (fun (a b : Nat) => if a = b then (1 : Int) else 0) i j
    ∧ (fun (a b : Nat) => if a = b then (1 : Int) else 0) i j ≤ 1 := by decide

/-- the same for the image the MODEL OF THE CODE computes from the summed-area table (both padding modes): every
    entry of `_compute_integral_field`'s result for a thresholded field is in [0, window area] -/
theorem model_window_count_le_area (op : ThrOp) (thr : Fl) (pad : Bool) (field : List (List Fl)) (H W h w : Nat)
    (hh : 1 ≤ h) (hw : 1 ≤ w) :
    ∀ v ∈ imageOf pad (pop op thr field H W) H W h w, 0 ≤ v ∧ v ≤ (h : Int) * (w : Int) := by
  rw [imageOf_eq_spec pad _ H W h w hh hw]
  apply window_count_le_area
  · intro i hi j hj
    rw [get_pop _ _ _ _ _ _ _ hi hj]
    rcases event_01 op (getFl field i j) thr with e | e <;> omega
  · intro i hi j hj
    rw [get_pop _ _ _ _ _ _ _ hi hj]
    rcases event_01 op (getFl field i j) thr with e | e <;> omega

example : (1 : Nat) ≤ 3 ∧ (1 : Nat) ≤ 2 := by decide

/-! ## 4. The extreme scores -/

/-- FSS = 1 EXACTLY when the two window-count images coincide and contain a non-zero count
    (any fields, any extension, any window — no hypothesis) -/
theorem fss_eq_one_iff (xf xo : Nat → Nat → Int) (H W pt pb pl pr h w : Nat) :
    fss xf xo H W pt pb pl pr h w = 1
      ↔ image xf H W pt pb pl pr h w = image xo H W pt pb pl pr h w
          ∧ ∃ v ∈ image xf H W pt pb pl pr h w, v ≠ 0 := by
  unfold fss fieldSums
  exact score_sums_eq_one_iff _ _ (by rw [length_image, length_image])

/-- the same for the model of `fss_2d_single_field`: the score is 1 iff the two summed-area-table images agree and
    hold a non-zero count -/
theorem fssSingle_eq_one_iff (c : Cmp) (thr : Fl) (pad : Bool) (fcst obs : List (List Fl)) (H W h w : Nat)
    (hh : 1 ≤ h) (hH : h ≤ H) (hw : 1 ≤ w) (hW : w ≤ W) :
    fssSingle (cmpOp c) thr pad fcst obs H W h w = fin 1
      ↔ imageOf pad (pop (cmpOp c) thr fcst H W) H W h w = imageOf pad (pop (cmpOp c) thr obs H W) H W h w
          ∧ ∃ v ∈ imageOf pad (pop (cmpOp c) thr fcst H W) H W h w, v ≠ 0 := by
  rw [fssSingle_spec c thr pad fcst obs H W h w hh hH hw hW, imageOf_eq_spec pad _ H W h w hh hw,
    imageOf_eq_spec pad _ H W h w hh hw, image_pop, image_pop, ← fss_eq_one_iff]
  constructor
  · intro h; injection h
  · intro h; rw [h]

example : (1 : Nat) ≤ 2 ∧ 2 ≤ 3 ∧ (1 : Nat) ≤ 3 ∧ 3 ≤ 3 := by decide

/-- DIFFERENT event fields can score 1 (so "identical fields" is sufficient, not necessary): forecast `1 0 1`,
    observation `0 1 0`, 1×2 window — both count images are (1, 1) -/
theorem fss_one_for_different_fields :
    fss (fun _ b => if b = 1 then 0 else 1) (fun _ b => if b = 1 then 1 else 0) 1 3 0 0 0 0 1 2 = 1 := by
  decide +kernel

/-- FSS = 0 when at no window position both counts are non-zero (the smoothed event fields have disjoint supports) -/
theorem fss_zero_of_disjoint_counts (xf xo : Nat → Nat → Int) (H W pt pb pl pr h w : Nat)
    (hd : ∀ p ∈ List.zip (image xf H W pt pb pl pr h w) (image xo H W pt pb pl pr h w), p.1 * p.2 = 0) :
    fss xf xo H W pt pb pl pr h w = 0 := by
  unfold fss fieldSums
  exact score_zero_of_diff_eq _ (sums_disjoint _ _ hd)

/-- 1×4 fields with events at the two ends, 1×2 window: counts (1,0,0) and (0,0,1) are disjoint -/
example : ∀ p ∈ List.zip (image (fun _ b => if b = 0 then 1 else 0) 1 4 0 0 0 0 1 2)
    (image (fun _ b => if b = 3 then 1 else 0) 1 4 0 0 0 0 1 2), p.1 * p.2 = 0 := by decide +kernel

end SV.Props.C16
