/-
  C03, part 3 — the laws of Props/C03 stated on the REGENERATED helper `SV.Gen.Point.apply_weights`
  (translated from `src/scores/functions.py::apply_weights` on every check run).  If the helper changes
  (adds, clips, normalises, ignores the weights …) these theorems stop compiling.
-/
import ScoresVerif.Gen.Point
import ScoresVerif.Props.C03

namespace SV.Props.C03Gen
open SV SV.Fl SV.C03Nan SV.Props.C03
open SV.Gen.Point (apply_weights)

/-- with weights given, `apply_weights` is the plain IEEE product — for ALL values and weights, including
    ±inf and NaN: weights enter the result in no other way -/
theorem apply_weights_present (v w : Fl) : apply_weights v w true = Fl.mul v w := rfl

/-- `weights=None` returns the values unchanged (whatever is passed in the unused weights slot) -/
theorem apply_weights_absent (v w : Fl) : apply_weights v w false = v := rfl

/-- `apply_weights` depends on the weights only through the product: two weights with equal products with
    `v` give the same result -/
theorem apply_weights_only_product (v w w' : Fl) (h : Fl.mul v w = Fl.mul v w') :
    apply_weights v w true = apply_weights v w' true := h

example : Fl.mul (fin 0) (fin 3) = Fl.mul (fin 0) (fin 5) := by decide +kernel

/-- unit weights through the helper are the same as no weights, for every value incl. NaN, ±inf -/
theorem apply_weights_one (v : Fl) : apply_weights v (fin 1) true = apply_weights v (fin 1) false :=
  C03.mul_one v

/-- a NaN weight makes the weighted value NaN whatever the value -/
theorem apply_weights_nan_weight (v : Fl) : apply_weights v nan true = nan := by
  rw [apply_weights_present]; simp

/-- a NaN value stays NaN under every weight (so validity of a case never comes back through weighting) -/
theorem apply_weights_nan_value (w : Fl) (b : Bool) : apply_weights nan w b = nan := by
  cases b
  · rfl
  · rw [apply_weights_present]; simp

/-- infinite weights: 0 · inf is NaN (the case silently drops out of a NaN-skipping mean), other values become ±inf -/
theorem apply_weights_inf_weight (a : Rat) :
    apply_weights (fin a) pinf true = if a = 0 then nan else if a < 0 then ninf else pinf := rfl

/-! ### the aggregate: NaN-skipping mean over the helper's output = the `weighted` / `weightedF` form of Props/C03 -/

/-- finite weights: averaging the helper's per-case output IS the form the C03 laws are proved for -/
theorem nanmean_apply_weights (g : Case3 → Rat) (l : List Case3) :
    nanmean (l.map fun t => apply_weights (ofOpt t.1) (fin (g t)) true) = nanmean (weighted g l) := rfl

/-- any `Fl` weights (NaN, ±inf): same, with the `weightedF` form -/
theorem nanmean_apply_weightsF (g : CaseN → Fl) (l : List CaseN) :
    nanmean (l.map fun t => apply_weights (ofOpt t.1) (g t) true) = nanmean (weightedF g l) := rfl

/-- no weights: the plain NaN-skipping mean of the per-case scores -/
theorem nanmean_apply_weights_absent (g : CaseN → Fl) (l : List CaseN) :
    nanmean (l.map fun t => apply_weights (ofOpt t.1) (g t) false) = nanmean (l.map fun t => ofOpt t.1) := rfl

/-! ### hence every law of C03 is a law of the regenerated helper -/

/-- additivity in the weights, through the helper (finite weights) -/
theorem helper_add_weights (l : List Case3) :
    nanmean (l.map fun t => apply_weights (ofOpt t.1) (fin (t.2.1 + t.2.2)) true) =
      Fl.add (nanmean (l.map fun t => apply_weights (ofOpt t.1) (fin t.2.1) true))
             (nanmean (l.map fun t => apply_weights (ofOpt t.1) (fin t.2.2) true)) :=
  nanmean_add_weights l

/-- homogeneity, through the helper (finite weights) -/
theorem helper_smul_weights (c : Rat) (l : List Case3) :
    nanmean (l.map fun t => apply_weights (ofOpt t.1) (fin (c * t.2.1)) true) =
      Fl.mul (fin c) (nanmean (l.map fun t => apply_weights (ofOpt t.1) (fin t.2.1) true)) :=
  nanmean_smul_weights c l

/-- unit weights through the helper = the helper without weights, on the aggregate -/
theorem helper_unit_weights (l : List Case3) :
    nanmean (l.map fun t => apply_weights (ofOpt t.1) (fin 1) true) =
      nanmean (l.map fun t => apply_weights (ofOpt t.1) (fin 1) false) :=
  nanmean_unit_weights l

/-- NaN weights through the helper: mean over exactly the cases having both a score and a weight -/
theorem helper_nan_weights (g : CaseN → Option Rat) (l : List CaseN) :
    nanmean (l.map fun t => apply_weights (ofOpt t.1) (ofOpt (g t)) true) =
      if both g l = [] then nan
      else fin (((both g l).map fun p => p.1 * p.2).sum / (both g l).length) :=
  nanmean_nan_weights g l

/-- additivity through the helper for NaN-carrying weights with the same NaN mask -/
theorem helper_add_nan_weights (l : List CaseN) (hm : ∀ t ∈ l, t.2.1.isSome = t.2.2.isSome) :
    nanmean (l.map fun t => apply_weights (ofOpt t.1) (Fl.add (ofOpt t.2.1) (ofOpt t.2.2)) true) =
      Fl.add (nanmean (l.map fun t => apply_weights (ofOpt t.1) (ofOpt t.2.1) true))
             (nanmean (l.map fun t => apply_weights (ofOpt t.1) (ofOpt t.2.2) true)) :=
  nanmean_add_nan_weights l hm

example : ∀ t ∈ ([(some 2, some 1, some 3), (some 7, none, none), (none, some 5, some 5)] : List CaseN),
    t.2.1.isSome = t.2.2.isSome := by decide

/-- homogeneity through the helper for NaN-carrying weights -/
theorem helper_smul_nan_weights (c : Rat) (l : List CaseN) :
    nanmean (l.map fun t => apply_weights (ofOpt t.1) (Fl.mul (fin c) (ofOpt t.2.1)) true) =
      Fl.mul (fin c) (nanmean (l.map fun t => apply_weights (ofOpt t.1) (ofOpt t.2.1) true)) :=
  nanmean_smul_nan_weights c l

/-- preserve_dims='all' through the helper: nothing is averaged, the result is value × weight -/
theorem helper_pointwise (s w : Fl) : nanmean [apply_weights s w true] = Fl.mul s w :=
  weighted_pointwise s w

/-! ### the labelled-array model's weighting step IS the regenerated helper, broadcast by name -/

/-- `scoreEval` with weights = NaN-skipping mean over R of `apply_weights(p, weights=w)` applied label by label
    (so the array-level laws of Props/C03Arr are laws of the helper as well) -/
theorem scoreEval_uses_helper (p w : Arr) (R : List String) :
    scoreEval p (some w) R = Arr.nanmeanOver R (Arr.zipWith (fun v x => apply_weights v x true) p w) := rfl

/-- without weights nothing is multiplied in: the per-case values are reduced as they are
    (`apply_weights_absent`: the helper returns them unchanged) -/
theorem scoreEval_none (p : Arr) (R : List String) : scoreEval p none R = Arr.nanmeanOver R p := rfl

/-- concrete run through the helper: scores 2, NaN, 4 with weights 4, 10, 2 -/
example : nanmean ([(some 2, 1, 3), (none, 5, 5), (some 4, 2, 0)].map
    fun t : Case3 => apply_weights (ofOpt t.1) (fin (t.2.1 + t.2.2)) true) = fin 8 := by
  decide +kernel

end SV.Props.C03Gen
