/-
  C06TwBridge — every threshold-weighted ensemble CRPS value is a TRUE (Lebesgue) integral over the weight's support.

  Props/C06Tw.lean proves (tw-variant).total = Fl.fin (Spec.CrpsEns.twIntegral a? b? xs y) (exact step integral of
  1[a,b) · (F_ens − 1{y ≤ ·})² for the ORIGINAL ensemble and observation).  Lemmas/C06TwBridge.lean (on top of the
  generic step-integral bridge of Lemmas/Bridge.lean) shows that this step integral is Mathlib's interval integral.
  Combined, for the models of the functions of crps_impl.py, method 'ecdf' (finite members, any size ≥ 1):

      interval_tw_crps_for_ensemble(a, b)         = ∫_a^b (F_ens(t) − 1{t ≥ y})² dt                      (a ≤ b)
      tail_tw_crps_for_ensemble(t, tail="upper")  = ∫_t^U (F_ens − H_y)² = ∫_{(t,∞)} (F_ens − H_y)²,  U = max (t, y, members)
      tail_tw_crps_for_ensemble(t, tail="lower")  = ∫_L^t (F_ens − H_y)² = ∫_{(−∞,t)} (F_ens − H_y)², L = min (t, y, members)
      crps_for_ensemble                           = ∫_ℝ (F_ens − H_y)²

  (beyond U and below L the integrand is 0: `crpsIntegrandR_zero_outside`), and 'fair' = the same minus the documented offset of the clipped members.
  `crpsIntegrandR xs y t = (ecdfR xs t − heavisideR y t)²` as in Props/C06Bridge.lean; `grid (…) = p :: g` is the increasing
  list of distinct values, p = min, `lastOr p g` = max.  `EqReal v r` = "the model value v is `fin s` with (s : ℝ) = r".
-/
import ScoresVerif.Props.C06Tw
import ScoresVerif.Lemmas.C06TwBridge

set_option linter.unusedVariables false

namespace SV.Props.C06TwBridge
open MeasureTheory
open SV SV.Bridge SV.Props.C06Tw SV.Model.CrpsEns SV.Spec.CrpsEns SV.Lemmas.CrpsEns
open SV.Spec.Murphy (lastOr)

/-- generic: the weighted step integral is the Lebesgue integral of `twIntegrandR a? b? xs y t = weightOnR a? b? t ·
    crpsIntegrandR xs y t` over the hull of thresholds ∪ {y} ∪ members; `weightOnR` = 1[a,b) over ℝ -/
theorem twIntegral_is_lebesgue (a b : Option ℚ) (xs : List ℚ) (y p : ℚ) (g : List ℚ)
    (hg : grid (optPts a b ++ y :: xs) = p :: g) :
    IntervalIntegrable (twIntegrandR a b xs y) volume p (lastOr p g) ∧
      ((twIntegral a b xs y : ℚ) : ℝ) = ∫ t in (p : ℝ)..(lastOr p g : ℝ), twIntegrandR a b xs y t :=
  twIntegral_eq_lebesgue a b xs y p g hg
example : grid (optPts (some (1 : ℚ)) (some 2) ++ (1 : ℚ) :: [0, 3, 1]) = 0 :: [1, 2, 3] := by decide +kernel

/-- any clip chaining function (generic `tw_crps_for_ensemble`), 'ecdf' -/
theorem tw_ecdf_eq_lebesgue {v : Fl → Fl} {a b : Option ℚ} (hv : ∀ q, v (Fl.fin q) = Fl.fin (vOpt a b q))
    {xs : List ℚ} (hx : xs ≠ []) (y p : ℚ) (g : List ℚ) (hg : grid (optPts a b ++ y :: xs) = p :: g) :
    EqReal (tw v .ecdf (xs.map Fl.fin) (Fl.fin y)).total
      (∫ t in (p : ℝ)..(lastOr p g : ℝ), twIntegrandR a b xs y t) :=
  .of_fin (tw_ecdf_eq_weighted_integral hv hx y) (twIntegral_eq_lebesgue a b xs y p g hg).2
example : ∀ q, chainLower (Fl.fin 2) (Fl.fin q) = Fl.fin (vOpt none (some 2) q) := fun q => min_fin q 2

/-- **interval**: `interval_tw_crps_for_ensemble(lower_threshold=a, upper_threshold=b, method="ecdf")` (model) is
    ∫_a^b (F_ens(t) − 1{t ≥ y})² dt — no grid in the statement -/
theorem interval_ecdf_eq_lebesgue {a b : ℚ} (hab : a ≤ b) {xs : List ℚ} (hx : xs ≠ []) (y : ℚ) :
    EqReal (interval (Fl.fin a) (Fl.fin b) .ecdf (xs.map Fl.fin) (Fl.fin y)).total
      (∫ t in (a : ℝ)..(b : ℝ), crpsIntegrandR xs y t) :=
  .of_fin (interval_ecdf_eq_weighted_integral a b hx y) (twIntegral_interval_eq_lebesgue hab xs y).2
example : (0 : ℚ) ≤ 1 / 2 ∧ ([0, 2, 1] : List ℚ) ≠ [] := ⟨by norm_num, by decide⟩

/-- the integrand is integrable there -/
theorem interval_integrable {a b : ℚ} (hab : a ≤ b) (xs : List ℚ) (y : ℚ) :
    IntervalIntegrable (crpsIntegrandR xs y) volume a b := (twIntegral_interval_eq_lebesgue hab xs y).1
example : (0 : ℚ) ≤ 1 / 2 := by norm_num

/-- **upper tail**: ∫ from the threshold to the largest of threshold, observation, members -/
theorem tail_upper_ecdf_eq_lebesgue (t : ℚ) {xs : List ℚ} (hx : xs ≠ []) (y p : ℚ) (g : List ℚ)
    (hg : grid (t :: y :: xs) = p :: g) :
    EqReal (tailUpper (Fl.fin t) .ecdf (xs.map Fl.fin) (Fl.fin y)).total
      (∫ θ in (t : ℝ)..(lastOr p g : ℝ), crpsIntegrandR xs y θ) :=
  .of_fin (tail_upper_ecdf_eq_weighted_integral t hx y) (twIntegral_upper_eq_lebesgue t xs y p g hg).2
example : ([0, 2, 1] : List ℚ) ≠ [] ∧ grid ((1 : ℚ) :: 1 :: [0, 2, 1]) = 0 :: [1, 2] := ⟨by decide, by decide +kernel⟩

/-- **lower tail**: ∫ from the smallest of threshold, observation, members to the threshold -/
theorem tail_lower_ecdf_eq_lebesgue (t : ℚ) {xs : List ℚ} (hx : xs ≠ []) (y p : ℚ) (g : List ℚ)
    (hg : grid (t :: y :: xs) = p :: g) :
    EqReal (tailLower (Fl.fin t) .ecdf (xs.map Fl.fin) (Fl.fin y)).total
      (∫ θ in (p : ℝ)..(t : ℝ), crpsIntegrandR xs y θ) :=
  .of_fin (tail_lower_ecdf_eq_weighted_integral t hx y) (twIntegral_lower_eq_lebesgue t xs y p g hg).2
example : ([0, 2, 1] : List ℚ) ≠ [] ∧ grid ((3 : ℚ) :: 1 :: [0, 2, 1]) = 0 :: [1, 2, 3] := ⟨by decide, by decide +kernel⟩

/-- **'fair' interval**: ∫_a^b (F_ens − H_y)² minus the offset Σ|v x_i − v x_j| / (2M²(M−1)) of the clipped members -/
theorem interval_fair_eq_lebesgue {a b : ℚ} (hab : a ≤ b) {xs : List ℚ} (hx : 2 ≤ xs.length) (y : ℚ) :
    EqReal (interval (Fl.fin a) (Fl.fin b) .fair (xs.map Fl.fin) (Fl.fin y)).total
      ((∫ t in (a : ℝ)..(b : ℝ), crpsIntegrandR xs y t) - ((fairOffset (xs.map fun x => min (max x a) b) : ℚ) : ℝ)) :=
  .of_fin (interval_fair_eq_weighted_integral a b hx y)
    (by rw [Rat.cast_sub, (twIntegral_interval_eq_lebesgue hab xs y).2])
example : (0 : ℚ) ≤ 1 / 2 ∧ 2 ≤ ([0, 2, 1] : List ℚ).length := ⟨by norm_num, by decide⟩

theorem tail_upper_fair_eq_lebesgue (t : ℚ) {xs : List ℚ} (hx : 2 ≤ xs.length) (y p : ℚ) (g : List ℚ)
    (hg : grid (t :: y :: xs) = p :: g) :
    EqReal (tailUpper (Fl.fin t) .fair (xs.map Fl.fin) (Fl.fin y)).total
      ((∫ θ in (t : ℝ)..(lastOr p g : ℝ), crpsIntegrandR xs y θ) - ((fairOffset (xs.map fun x => max x t) : ℚ) : ℝ)) :=
  .of_fin (tail_upper_fair_eq_weighted_integral t hx y)
    (by rw [Rat.cast_sub, (twIntegral_upper_eq_lebesgue t xs y p g hg).2])
example : 2 ≤ ([0, 2, 1] : List ℚ).length := by decide

theorem tail_lower_fair_eq_lebesgue (t : ℚ) {xs : List ℚ} (hx : 2 ≤ xs.length) (y p : ℚ) (g : List ℚ)
    (hg : grid (t :: y :: xs) = p :: g) :
    EqReal (tailLower (Fl.fin t) .fair (xs.map Fl.fin) (Fl.fin y)).total
      ((∫ θ in (p : ℝ)..(t : ℝ), crpsIntegrandR xs y θ) - ((fairOffset (xs.map fun x => min x t) : ℚ) : ℝ)) :=
  .of_fin (tail_lower_fair_eq_weighted_integral t hx y)
    (by rw [Rat.cast_sub, (twIntegral_lower_eq_lebesgue t xs y p g hg).2])
example : 2 ≤ ([0, 2, 1] : List ℚ).length := by decide

/-! ## the documented form: integrals over the unbounded tails and over the whole real line -/

/-- **upper tail, improper**: `tail_tw_crps_for_ensemble(threshold=t, tail="upper")` (model, 'ecdf') is
    ∫_{(t, ∞)} (F_ens(θ) − 1{θ ≥ y})² dθ — the twCRPS with weight 1{θ ≥ t}; the integrand is integrable there -/
theorem tail_upper_ecdf_eq_improper_integral (t : ℚ) {xs : List ℚ} (hx : xs ≠ []) (y : ℚ) :
    IntegrableOn (crpsIntegrandR xs y) (Set.Ioi (t : ℝ)) volume ∧
    EqReal (tailUpper (Fl.fin t) .ecdf (xs.map Fl.fin) (Fl.fin y)).total
      (∫ θ in Set.Ioi (t : ℝ), crpsIntegrandR xs y θ) :=
  ⟨(twIntegral_upper_eq_improper t hx y).1,
   .of_fin (tail_upper_ecdf_eq_weighted_integral t hx y) (twIntegral_upper_eq_improper t hx y).2⟩
example : ([0, 2, 1] : List ℚ) ≠ [] := by decide

/-- **lower tail, improper**: ∫_{(−∞, t)} (F_ens − H_y)² — the twCRPS with weight 1{θ < t} -/
theorem tail_lower_ecdf_eq_improper_integral (t : ℚ) {xs : List ℚ} (hx : xs ≠ []) (y : ℚ) :
    IntegrableOn (crpsIntegrandR xs y) (Set.Iio (t : ℝ)) volume ∧
    EqReal (tailLower (Fl.fin t) .ecdf (xs.map Fl.fin) (Fl.fin y)).total
      (∫ θ in Set.Iio (t : ℝ), crpsIntegrandR xs y θ) :=
  ⟨(twIntegral_lower_eq_improper t hx y).1,
   .of_fin (tail_lower_ecdf_eq_weighted_integral t hx y) (twIntegral_lower_eq_improper t hx y).2⟩
example : ([0, 2, 1] : List ℚ) ≠ [] := by decide

/-- **unweighted, whole line**: `crps_for_ensemble(method="ecdf")` (model) is ∫_ℝ (F_ens(t) − 1{t ≥ y})² dt, the textbook
    CRPS of the empirical distribution (no hull / grid in the statement) -/
theorem crpsEns_ecdf_eq_integral_real_line {xs : List ℚ} (hx : xs ≠ []) (y : ℚ) :
    Integrable (crpsIntegrandR xs y) volume ∧
    EqReal (total .ecdf (xs.map Fl.fin) (Fl.fin y)) (∫ t, crpsIntegrandR xs y t) :=
  ⟨(crpsIntegral_eq_integral_real hx y).1,
   .of_fin (SV.Props.C06.crpsEns_ecdf_eq_integral hx y) (crpsIntegral_eq_integral_real hx y).2⟩
example : ([0, 2, 1] : List ℚ) ≠ [] := by decide

end SV.Props.C06TwBridge
