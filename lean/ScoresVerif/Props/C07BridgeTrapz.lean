/-
  C07BridgeTrapz — what `crps_cdf(…, integration_method="trapz")` integrates, as a TRUE (Lebesgue) integral.

  `crps_cdf_trapz` samples the integrand at the grid points, g_k = w_k · (F_k − H(x_k))² with H(x) = 1{x ≥ obs}, and applies
  `DataArray.integrate` (the trapezoid rule).  Hence (this file, with Mathlib's `intervalIntegral`):

      total = ∫_{x₀}^{x_n} ĝ(t) dt,      ĝ = the continuous PIECEWISE-LINEAR INTERPOLANT OF THE SAMPLES g_k,

  and likewise `over` with the samples H(x_k)·g_k and `under` with (1 − H(x_k))·g_k.  This is NOT ∫ w (F − H)² for the
  piecewise-linear F that the exact method integrates: on a cell where w and H are constant, ĝ is the CHORD of the parabola
  (F − H)², and the two cell values differ by exactly Δ·(F_k − F_{k+1})²/6 (`trapz_cell_minus_exact_cell`); on the cell
  that ends at the observation the two end samples even use different H (0 on the left, 1 on the right), and a weight is
  interpolated together with the squared difference instead of being a step.
-/
import ScoresVerif.Props.C07
import ScoresVerif.Lemmas.C07BridgeTrapz

set_option linter.unusedVariables false

namespace SV.Props.C07BridgeTrapz
open MeasureTheory
open SV SV.Bridge SV.Bridge.C07 SV.Props.C07
open SV.Model.Cdf SV.Model.CrpsCdf SV.Lemmas.Cdf SV.Lemmas.CrpsCdf
open SV.Fl (fin nan)
open SV.Spec.CrpsCdf (exactParts trapzParts cellSq cellTrap)
open SV.Spec.Murphy (lastOr)

/-! ## the samples -/

/-- total: `g_k = w_k (F_k − H(x_k))²` -/
theorem samples_total (obs x f w : Rat) (xs fs ws : List Rat) :
    LT obs (x :: xs) (f :: fs) (w :: ws) =
      w * ((f - (if obs ≤ x then 1 else 0)) * (f - (if obs ≤ x then 1 else 0))) :: LT obs xs fs ws := rfl

/-- over-forecast part: `H(x_k) g_k` (the samples at and right of the observation) -/
theorem samples_over (obs x f w : Rat) (xs fs ws : List Rat) :
    LO obs (x :: xs) (f :: fs) (w :: ws) =
      (if obs ≤ x then w * ((f - (if obs ≤ x then 1 else 0)) * (f - (if obs ≤ x then 1 else 0))) else 0) :: LO obs xs fs ws := rfl

/-- under-forecast part: `(1 − H(x_k)) g_k` (the samples left of the observation) -/
theorem samples_under (obs x f w : Rat) (xs fs ws : List Rat) :
    LU obs (x :: xs) (f :: fs) (w :: ws) =
      (if x < obs then w * ((f - (if obs ≤ x then 1 else 0)) * (f - (if obs ≤ x then 1 else 0))) else 0) :: LU obs xs fs ws := rfl

/-! ## trapezoid sums are integrals of the interpolant of the samples -/

/-- the trapezoid sum of ANY samples `L` on an increasing grid is the Lebesgue integral of their continuous
    piecewise-linear interpolant over the grid range -/
theorem trapezoid_sum_eq_lebesgue (p : ℚ) (rest L : List ℚ) (hg : Incr (p :: rest)) (hL : L.length = (p :: rest).length) :
    EqReal (trapz (p :: rest) (L.map fin)) (∫ t in (p : ℝ)..(lastOr p rest : ℝ), pwLinR (p :: rest) L t) :=
  .of_fin (trapz_map_fin (p :: rest) L) (trapzQ_integral rest p L hg hL).2

/-- **crps_cdf_trapz (model) as Lebesgue integrals**: total, under- and over-forecast penalty are the integrals over the
    grid range of the piecewise-linear interpolants of the respective samples — for every weight and wherever the
    observation lies (on or off the grid) -/
theorem trapz_eq_lebesgue (obs : ℚ) (p : ℚ) (rest f w : List ℚ) (hg : Incr (p :: rest))
    (hf : f.length = (p :: rest).length) (hw : w.length = (p :: rest).length) :
    EqReal (trapzRow (p :: rest) (f.map fin) (observedRow (p :: rest) (fin obs)) (w.map fin)).total
      (∫ t in (p : ℝ)..(lastOr p rest : ℝ), pwLinR (p :: rest) (LT obs (p :: rest) f w) t) ∧
    EqReal (trapzRow (p :: rest) (f.map fin) (observedRow (p :: rest) (fin obs)) (w.map fin)).under
      (∫ t in (p : ℝ)..(lastOr p rest : ℝ), pwLinR (p :: rest) (LU obs (p :: rest) f w) t) ∧
    EqReal (trapzRow (p :: rest) (f.map fin) (observedRow (p :: rest) (fin obs)) (w.map fin)).over
      (∫ t in (p : ℝ)..(lastOr p rest : ℝ), pwLinR (p :: rest) (LO obs (p :: rest) f w) t) := by
  obtain ⟨c1, c2, c3⟩ := trapz_eq_spec obs (p :: rest) f w hf hw
  obtain ⟨e1, e2, e3⟩ := trapzParts_eq obs (p :: rest) f w hf hw
  have len : ∀ (g f w : List ℚ), f.length = g.length → w.length = g.length →
      (LT obs g f w).length = g.length ∧ (LU obs g f w).length = g.length ∧ (LO obs g f w).length = g.length := by
    intro g
    induction g with
    | nil => intro f w hf hw; cases f <;> cases w <;> simp [SV.Lemmas.CrpsCdf.LT, LU, LO]
    | cons x xs ih =>
      intro f w hf hw
      rcases f with _ | ⟨f0, fs⟩
      · simp at hf
      rcases w with _ | ⟨w0, ws⟩
      · simp at hw
      obtain ⟨a, b, c⟩ := ih fs ws (by simpa using hf) (by simpa using hw)
      simp [SV.Lemmas.CrpsCdf.LT, LU, LO, a, b, c]
  obtain ⟨l1, l2, l3⟩ := len (p :: rest) f w hf hw
  refine ⟨.of_fin c1 ?_, .of_fin c2 ?_, .of_fin c3 ?_⟩
  · rw [e1]; exact (trapzQ_integral rest p _ hg l1).2
  · rw [e3, ← trapzQ_LU]; exact (trapzQ_integral rest p _ hg l2).2
  · rw [e2]; exact (trapzQ_integral rest p _ hg l3).2

/-- the hypotheses hold on a non-trivial instance: grid 0,1,2,3, forecast ¼,½,¾,1, weight 1,0,½,1, observation 1 -/
example : Incr ((0 : ℚ) :: [1, 2, 3]) ∧ ([1/4, 1/2, 3/4, 1] : List ℚ).length = ((0 : ℚ) :: [1, 2, 3]).length ∧
    ([1, 0, 1/2, 1] : List ℚ).length = ((0 : ℚ) :: [1, 2, 3]).length := ⟨exG_incr, rfl, rfl⟩
example : LT 1 [0, 1, 2, 3] [1/4, 1/2, 3/4, 1] [1, 0, 1/2, 1] = [1/16, 0, 1/32, 0] ∧
    (trapzRow exG (exF.map fin) (observedRow exG (fin 1)) (exW.map fin)).total = fin (1/16) := by decide +kernel

/-- the interpolant is integrable on the grid range -/
theorem trapz_integrand_integrable (p : ℚ) (rest L : List ℚ) (hg : Incr (p :: rest)) (hL : L.length = (p :: rest).length) :
    IntervalIntegrable (pwLinR (p :: rest) L) volume p (lastOr p rest) := (trapzQ_integral rest p L hg hL).1

/-! ## … which is not the integral of the squared difference -/

/-- on a cell `[a, b]` where `H = h` is constant (and `w = 1`): the trapezoid value of the two end samples exceeds the exact
    integral `∫ (F − h)²` of the linear piece by `(b − a)(F_a − F_b)²/6` — they agree only where the forecast is flat -/
theorem trapz_cell_minus_exact_cell (a b fa fb h : Rat) (hab : a ≠ b) :
    cellTrap a b ((fa - h) * (fa - h)) ((fb - h) * (fb - h)) - cellSq a b fa fb h = (b - a) * ((fa - fb) * (fa - fb)) / 6 := by
  rw [cellSq_eq a b fa fb h hab]
  unfold cellTrap
  ring

example : (0 : Rat) ≠ 2 := by decide +kernel

/-- concrete: forecast 0, 1 on the thresholds 0, 2, observation 0 (`H = 1` throughout).  `(F − H)² = (t/2 − 1)²` has the
    integral 2/3 (exact method); the trapezoid method integrates the chord `1 − t/2` of the samples 1, 0 and returns 1 -/
theorem trapz_is_not_integral_of_square :
    (trapzParts 0 [0, 2] [0, 1] [1, 1]).total = 1 ∧ (exactParts 0 [0, 2] [0, 1] [1, 1]).total = 2 / 3 ∧
    LT 0 [0, 2] [0, 1] [1, 1] = [1, 0] := by decide +kernel

end SV.Props.C07BridgeTrapz
