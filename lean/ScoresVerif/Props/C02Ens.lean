/-
  C02 for ENSEMBLE forecasts — "for ensembles only that member".

  Statements are about `SV.Gen.CrpsEns.gen_crps_total` / `gen_crps_components`, the per-case code of
  `crps_for_ensemble` regenerated from crps_impl.py on every run (Gen/CrpsEns.lean), through the equalities
  `Props.C06Gen.gen_total_eq_model` / `gen_components_eq_model` with the hand model and the C06 lemma
  `components_valid` (NaN members are dropped).  One forecast case = list of members (NaN = missing member) and one
  observation.  `method` is the string the caller passes (`methodStr .ecdf = "ecdf"`, `methodStr .fair = "fair"`).
-/
import ScoresVerif.Props.C02
import ScoresVerif.Props.C06Gen
import ScoresVerif.Lemmas.CrpsEns
import ScoresVerif.Lemmas.C02Lists

namespace SV.Props.C02Ens
open SV SV.Fl SV.Gen.CrpsEns SV.Model.CrpsEns SV.Lemmas.CrpsEns SV.Lemmas.C02Lists SV.Props.C06Gen SV.Props.C02

/-! ## 1. a NaN member = that member deleted (never the whole case) -/

/-- the regenerated per-case CRPS only sees the non-NaN members -/
theorem ens_total_only_valid_members (m : Method) (xs : List Fl) (y : Fl) :
    gen_crps_total (methodStr m) xs y = gen_crps_total (methodStr m) (valid xs) y := by
  rw [gen_total_eq_model, gen_total_eq_model]
  exact congrArg Components.total (components_valid m xs y)

/-- … and so do all four entries of the `component` dimension (total, under, over, spread) -/
theorem ens_components_only_valid_members (m : Method) (xs : List Fl) (y : Fl) :
    gen_crps_components (methodStr m) xs y = gen_crps_components (methodStr m) (valid xs) y := by
  have h := components_valid m xs y
  rw [gen_components_eq_model, gen_components_eq_model]
  have ht := congrArg Components.total h
  have hu := congrArg Components.under h
  have ho := congrArg Components.over h
  have hs := congrArg Components.spread h
  simp only [components] at ht hu ho hs
  rw [ht, hu, ho, hs]

/-- two ensembles with the same non-NaN members (in the same order) score the same -/
theorem ens_total_congr_valid (m : Method) {xs xs' : List Fl} (h : valid xs = valid xs') (y : Fl) :
    gen_crps_total (methodStr m) xs y = gen_crps_total (methodStr m) xs' y := by
  rw [ens_total_only_valid_members m xs, ens_total_only_valid_members m xs', h]

theorem ens_components_congr_valid (m : Method) {xs xs' : List Fl} (h : valid xs = valid xs') (y : Fl) :
    gen_crps_components (methodStr m) xs y = gen_crps_components (methodStr m) xs' y := by
  rw [ens_components_only_valid_members m xs, ens_components_only_valid_members m xs', h]

/-- **a NaN written over member `i` = the ensemble with member `i` erased**, both methods ('ecdf', 'fair'), any
    ensemble (other members may be missing too), any observation, any position -/
theorem ens_nan_member_eq_member_erased (m : Method) (xs : List Fl) (i : Nat) (y : Fl) :
    gen_crps_total (methodStr m) (xs.set i nan) y = gen_crps_total (methodStr m) (xs.eraseIdx i) y :=
  ens_total_congr_valid m (valid_set_nan_eq_eraseIdx xs i) y

theorem ens_nan_member_eq_member_erased_components (m : Method) (xs : List Fl) (i : Nat) (y : Fl) :
    gen_crps_components (methodStr m) (xs.set i nan) y = gen_crps_components (methodStr m) (xs.eraseIdx i) y :=
  ens_components_congr_valid m (valid_set_nan_eq_eraseIdx xs i) y

/-- the same with members given as `Option Rat` (`none` = missing, encoded as NaN by `ofOpt`):
    `none` at position `i` = the ensemble with that member erased -/
theorem ens_missing_member_eq_member_erased (m : Method) (ms : List (Option Rat)) (i : Nat) (y : Fl) :
    gen_crps_total (methodStr m) ((ms.set i none).map ofOpt) y =
      gen_crps_total (methodStr m) ((ms.eraseIdx i).map ofOpt) y := by
  rw [map_ofOpt_set_none, map_ofOpt_eraseIdx]; exact ens_nan_member_eq_member_erased m _ i y

theorem ens_missing_member_eq_member_erased_components (m : Method) (ms : List (Option Rat)) (i : Nat) (y : Fl) :
    gen_crps_components (methodStr m) ((ms.set i none).map ofOpt) y =
      gen_crps_components (methodStr m) ((ms.eraseIdx i).map ofOpt) y := by
  rw [map_ofOpt_set_none, map_ofOpt_eraseIdx]; exact ens_nan_member_eq_member_erased_components m _ i y

/-- any pattern of missing members at once: NaN-masking members = deleting them -/
theorem ens_masked_members_eq_deleted (m : Method) (keep : List Bool) (xs : List Fl) (y : Fl) :
    gen_crps_total (methodStr m) (maskBy keep xs) y = gen_crps_total (methodStr m) (deleteBy keep xs) y :=
  ens_total_congr_valid m (valid_mask_eq_delete keep xs) y

theorem ens_masked_members_eq_deleted_components (m : Method) (keep : List Bool) (xs : List Fl) (y : Fl) :
    gen_crps_components (methodStr m) (maskBy keep xs) y = gen_crps_components (methodStr m) (deleteBy keep xs) y :=
  ens_components_congr_valid m (valid_mask_eq_delete keep xs) y

/-! ## 2. "only that member": the case itself stays a number -/

/-- members that are rationals or missing, a rational observation: as long as enough members are present (one for
    'ecdf', two for 'fair') the case is NOT lost — its value is the closed-form CRPS kernel of the present members -/
theorem ens_missing_members_value (m : Method) (ms : List (Option Rat)) (y : Rat)
    (h : enough m (present ms).length) :
    gen_crps_total (methodStr m) (ms.map ofOpt) (fin y) = fin (kernel m (present ms) y) := by
  rw [ens_total_only_valid_members, valid_map_ofOpt, gen_total_eq_model]
  exact total_fin h y
example : enough .fair (present [some 1, none, some 3]).length := by show 2 ≤ _; decide
example : gen_crps_total "fair" ([some 1, none, some 3].map ofOpt) (fin 2) = fin 0 := by decide +kernel

/-- hence a missing member never turns the case into NaN while enough members remain -/
theorem ens_missing_member_case_survives (m : Method) (ms : List (Option Rat)) (i : Nat) (y : Rat)
    (h : enough m (present (ms.eraseIdx i)).length) :
    (gen_crps_total (methodStr m) ((ms.set i none).map ofOpt) (fin y)).isNan = false := by
  rw [ens_missing_member_eq_member_erased, ens_missing_members_value m _ y h]; rfl
example : enough .ecdf (present (([some 1, some 5] : List (Option Rat)).eraseIdx 1)).length := by show 1 ≤ _; decide

/-! ## 3. a case that IS missing: NaN observation, or no member at all -/

/-- a NaN observation makes the case NaN — whatever the members and whatever string is passed as `method` -/
theorem ens_nan_obs (method : String) (xs : List Fl) : gen_crps_total method xs nan = nan := by
  have hv : valid ((xs.map (fun s => Fl.sub s nan)).map Fl.abs) = [] := by
    unfold valid; apply List.filter_eq_nil_iff.mpr; intro a ha
    simp only [List.map_map, List.mem_map, Function.comp] at ha
    obtain ⟨b, _, rfl⟩ := ha; simp
  simp only [gen_crps_total]
  unfold nanmean
  rw [hv]; simp

/-- … in every entry of the `component` dimension -/
theorem ens_nan_obs_components (m : Method) (xs : List Fl) :
    gen_crps_components (methodStr m) xs nan =
      [("total", nan), ("underforecast_penalty", nan), ("overforecast_penalty", nan), ("spread", nan)] := by
  rw [gen_components_eq_model]
  have ht : total m xs nan = nan := total_nan_obs m xs
  have hf : fcstObsTerm xs nan = nan := by
    unfold fcstObsTerm nanmean
    have : valid (xs.map fun x => Fl.abs (Fl.sub x nan)) = [] := by
      unfold valid; apply List.filter_eq_nil_iff.mpr; intro a ha
      obtain ⟨b, _, rfl⟩ := List.mem_map.mp ha; simp
    rw [this]; simp
  have hall : ∀ (g : Fl → Fl), (∀ x, g x = nan) → nanmean (xs.map g) = nan := by
    intro g hg
    unfold nanmean
    have : valid (xs.map g) = [] := by
      unfold valid; apply List.filter_eq_nil_iff.mpr; intro a ha
      obtain ⟨b, _, rfl⟩ := List.mem_map.mp ha; simp [hg]
    rw [this]; simp
  have hu : under xs nan = nan := hall _ (by intro x; simp [mask, Fl.whereB])
  have ho : over xs nan = nan := hall _ (by intro x; simp [mask, Fl.whereB])
  have hs : spreadComp m xs nan = nan := by simp [spreadComp, hf, Fl.whereB]
  rw [ht, hu, ho, hs]

/-- an ensemble whose members are ALL missing is a missing case (NaN), not a zero score -/
theorem ens_all_members_missing (m : Method) (xs : List Fl) (h : valid xs = []) (y : Fl) :
    gen_crps_total (methodStr m) xs y = nan := by
  rw [ens_total_only_valid_members, h, gen_total_eq_model]
  cases m <;> simp [total, fcstObsTerm, nanmean, valid]
example : valid [nan, nan] = [] := by decide

/-! ## 4. aggregation over cases: the mean over cases drops exactly the cases with a NaN observation -/

/-- a list of cases (members, observation); NaN written over the observations of the flagged cases -/
def nanObs (c : List Fl × Fl) : List Fl × Fl := (c.1, nan)

/-- the mean over cases of the regenerated per-case CRPS, with the observations of some cases replaced by NaN, is
    the mean over the list of cases with those cases physically deleted (any number of cases, any pattern) -/
theorem ens_mean_over_cases_nan_obs_eq_deleted (method : String) (keep : List Bool) (cases : List (List Fl × Fl)) :
    nanmean ((maskWith nanObs keep cases).map fun c => gen_crps_total method c.1 c.2) =
      nanmean ((deleteWith keep cases).map fun c => gen_crps_total method c.1 c.2) :=
  nanmean_congr_valid
    (valid_map_maskWith (fun c => gen_crps_total method c.1 c.2) nanObs (fun c => ens_nan_obs method c.1) keep cases)

/-- … and it is the mean over the SAME cases when only members are missing: masking members inside the cases changes
    each per-case value to the one of the thinned ensemble and drops no case -/
theorem ens_mean_over_cases_members (m : Method) (cases : List ((List Bool × List Fl) × Fl)) :
    nanmean (cases.map fun c => gen_crps_total (methodStr m) (maskBy c.1.1 c.1.2) c.2) =
      nanmean (cases.map fun c => gen_crps_total (methodStr m) (deleteBy c.1.1 c.1.2) c.2) := by
  congr 1
  exact List.map_congr_left (fun c _ => ens_masked_members_eq_deleted m c.1.1 c.1.2 c.2)

/-! Non-vacuity on concrete ensembles -/
example : gen_crps_total "ecdf" ([fin 1, fin 100, fin 3].set 1 nan) (fin 2) = fin (1 / 2) := by decide +kernel
example : gen_crps_total "ecdf" ([fin 1, fin 100, fin 3].eraseIdx 1) (fin 2) = fin (1 / 2) := by decide +kernel
example : nanmean ((maskWith nanObs [true, false] [([fin 1, fin 3], fin 2), ([fin 0], fin 50)]).map
    fun c => gen_crps_total "ecdf" c.1 c.2) = fin (1 / 2) := by decide +kernel

end SV.Props.C02Ens
