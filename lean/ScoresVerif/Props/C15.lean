/-
  C15 — isotonic regression returns the optimal monotone fit, independent of input order.

  Theorems about the hand model `SV.Model.Isotonic` of `isoreg_impl.py` (tied to the source by the differential
  correspondence check; `scipy.optimize.isotonic_regression`, used by the code for the mean functional, is outside
  the proof).  Everything in sections 1-3 holds for an ARBITRARY block solver.
-/
import ScoresVerif.Lemmas.Isotonic

namespace SV.Props.C15
open SV SV.Model.Isotonic

/-! ## 1. Structure of the fit, for ANY solver (mean, quantile, custom) -/

/-- the fitted sequence is attached to exactly the tidied pairs, in order -/
theorem fit_covers_input (solve : Solver) (t : List Pair) : (fitPairs solve t).map (·.1) = t :=
  fit_fst _ _ t

/-- the fit is non-decreasing along the tidied sequence -/
theorem fit_nondecreasing (solve : Solver) (t : List Pair) :
    (fitPairs solve t).Pairwise (fun a b => a.2 ≤ b.2) :=
  fit_monotone _ _ t

/-- PAV block structure: the tidied pairs are partitioned into consecutive non-empty blocks whose values strictly
    increase (so the blocks ARE the maximal constant runs of the fit); the fit is constant on each block; each block
    value is the solver applied to exactly that block's (obs, weight) items — or the block is one untouched pair
    carrying its own observation. -/
theorem block_structure (solve : Solver) (t : List Pair) :
    ∃ bs : List (Blk Pair),
      flat bs = t ∧ fitPairs solve t = expand bs ∧
      bs.Pairwise (fun a b => a.val < b.val) ∧
      ∀ b ∈ bs, b.items ≠ [] ∧ (b.val = solve (itemsOf b.items) ∨ ∃ p, b.items = [p] ∧ b.val = p.2.1) := by
  refine ⟨pav obsOf (fun l => solve (itemsOf l)) t, pav_flat _ _ t, rfl, pav_increasing _ _ t, ?_⟩
  intro b hb
  obtain ⟨hne, h | ⟨x, rfl⟩⟩ := pav_ok obsOf (fun l => solve (itemsOf l)) t b hb
  · exact ⟨hne, Or.inl h⟩
  · exact ⟨hne, Or.inr ⟨x, rfl, rfl⟩⟩

/-- each maximal constant block equals the solver applied to that block's observations, for every solver that is
    the identity on a single observation (the optimal fit of a one-observation block is that observation) -/
theorem block_value_solver (solve : Solver) (t : List Pair) (hid : ∀ p ∈ t, solve [(p.2.1, p.2.2)] = p.2.1) :
    ∀ b ∈ pav obsOf (fun l => solve (itemsOf l)) t, b.val = solve (itemsOf b.items) := by
  intro b hb
  obtain ⟨_, h | ⟨x, rfl⟩⟩ := pav_ok obsOf (fun l => solve (itemsOf l)) t b hb
  · exact h
  · have hx : x ∈ t := by
      have hf := pav_flat obsOf (fun l => solve (itemsOf l)) t
      rw [← hf]
      exact List.mem_flatMap.mpr ⟨_, hb, by simp [raw]⟩
    simpa [raw, itemsOf, obsOf] using (hid x hx).symm

/-- non-vacuity: `max` is the identity on one observation, for every input -/
example (t : List Pair) : ∀ p ∈ t, namedSolver "max" [(p.2.1, p.2.2)] = p.2.1 := by
  intro p _; simp [namedSolver, lmax]

/-- remark (notes/C15.md, interpretation): without that hypothesis the conclusion fails — never-pooled single
    observations keep the raw observation, the solver `mean + 1` is not applied to them -/
theorem block_value_needs_idempotent_solver :
    ∃ b ∈ pav obsOf (fun l => wmean (itemsOf l) + 1) [((1:Rat), (1:Rat), (1:Rat)), (2, 2, 1), (3, 3, 1)],
      b.val ≠ wmean (itemsOf b.items) + 1 := by
  refine ⟨raw obsOf ((1:Rat), (1:Rat), (1:Rat)), ?_, ?_⟩
  · have h23 : (2:Rat) < 3 := by norm_num
    have h12 : (1:Rat) < 2 := by norm_num
    simp [pav, go, raw, obsOf, h23, h12]
  · simp [raw, obsOf, itemsOf, wmean, wsum, wtot]

/-! ## 2. Tied forecasts share one value (ANY solver): block boundaries only occur where the tidied observations
       strictly increase, and inside a tie `tidy` has sorted the observations in descending order -/

theorem tied_forecasts_adjacent (solve : Solver) (ps : List Pair) :
    (fitPairs solve (tidy ps)).IsChain (fun a b => a.1.1 = b.1.1 → a.2 = b.2) := by
  apply fit_ties obsOf (fun p : Pair => p.1)
  refine (tidy_sorted ps).isChain.imp ?_
  intro a b hab heq
  rcases (keyLe_iff a b).mp hab with h | ⟨_, h⟩
  · exact absurd heq (ne_of_lt h)
  · exact h

/-- any two tidied pairs with the same forecast receive the same fitted value -/
theorem tied_forecasts_share_value (solve : Solver) (ps : List Pair) :
    (fitPairs solve (tidy ps)).Pairwise (fun a b => a.1.1 = b.1.1 → a.2 = b.2) := by
  -- strengthen to a transitive relation: forecasts ascending ∧ (equal forecasts → equal values)
  let R : Pair × Rat → Pair × Rat → Prop := fun a b => a.1.1 ≤ b.1.1 ∧ (a.1.1 = b.1.1 → a.2 = b.2)
  have hR : (fitPairs solve (tidy ps)).IsChain R := by
    refine isChain_and ?_ (tied_forecasts_adjacent solve ps)
    have hs : ((fitPairs solve (tidy ps)).map (·.1)).IsChain (fun a b : Pair => a.1 ≤ b.1) := by
      rw [fit_covers_input]
      refine (tidy_sorted ps).isChain.imp ?_
      intro a b hab
      rcases (keyLe_iff a b).mp hab with h | ⟨h, _⟩
      · exact le_of_lt h
      · exact le_of_eq h
    exact (List.isChain_map (fun pv : Pair × Rat => pv.1)).mp hs
  have : Trans R R R := ⟨fun {a b c} h1 h2 => ⟨le_trans h1.1 h2.1, fun h => by
    have hab : a.1.1 = b.1.1 := le_antisymm h1.1 (h ▸ h2.1)
    have hbc : b.1.1 = c.1.1 := hab ▸ h
    exact (h1.2 hab).trans (h2.2 hbc)⟩⟩
  exact (List.isChain_iff_pairwise.mp hR).imp (fun h => h.2)

/-! ## 3. `tidy` keeps exactly the valid pairs; `fcst_counts` sums to their number -/

theorem tidy_is_permutation (ps : List Pair) : (tidy ps).Perm ps := tidy_perm ps

theorem counts_sum (solve : Solver) (f o w : List Fl) (r : Result) (h : isotonicFit solve f o w = some r) :
    r.counts.sum = (validPairs f o w).length := by
  unfold isotonicFit at h
  simp only at h
  split at h
  · exact absurd h (by simp)
  · simp only [Option.some.injEq] at h
    subst h
    simp only
    rw [groups_count_sum, List.length_map]
    have h1 : (fitPairs solve (tidy (validPairs f o w))).length = (tidy (validPairs f o w)).length := by
      have := congrArg List.length (fit_covers_input solve (tidy (validPairs f o w)))
      simpa using this
    rw [h1]
    exact (tidy_perm _).length_eq

/-- a pair with a NaN in any slot is dropped (it is not among the valid pairs) -/
theorem nan_pairs_ignored (a b c : Fl) (h : a = Fl.nan ∨ b = Fl.nan ∨ c = Fl.nan) : finOf (a, b, c) = none := by
  cases a <;> cases b <;> cases c <;> simp_all [finOf]

/-! ## 4. The mean functional: bounds and preservation of the weighted mean -/

theorem mean_block_value (t : List Pair) (hw : ∀ p ∈ t, 0 < p.2.2) :
    ∀ b ∈ pav obsOf (fun l => wmean (itemsOf l)) t, b.val = wmean (itemsOf b.items) := by
  apply block_value_solver wmean t
  intro p hp
  exact wmean_singleton _ (ne_of_gt (hw p hp))

theorem mean_fit_bounds (t : List Pair) (lo hi : Rat) (hw : ∀ p ∈ t, 0 < p.2.2)
    (hb : ∀ p ∈ t, lo ≤ p.2.1 ∧ p.2.1 ≤ hi) :
    ∀ pv ∈ fitPairs wmean t, lo ≤ pv.2 ∧ pv.2 ≤ hi := by
  intro pv hpv
  unfold fitPairs fit expand at hpv
  obtain ⟨b, hbm, hx⟩ := List.mem_flatMap.mp hpv
  obtain ⟨x, _, rfl⟩ := List.mem_map.mp hx
  have hval := mean_block_value t hw b hbm
  have hsub : ∀ y ∈ b.items, y ∈ t := by
    intro y hy
    rw [← pav_flat obsOf (fun l => wmean (itemsOf l)) t]
    exact List.mem_flatMap.mpr ⟨b, hbm, hy⟩
  have hne : itemsOf b.items ≠ [] := by
    have := (pav_ok obsOf (fun l => wmean (itemsOf l)) t b hbm).1
    simpa [itemsOf] using this
  have hw' : ∀ x ∈ itemsOf b.items, 0 < x.2 := by
    intro x hx
    obtain ⟨p, hp, rfl⟩ := List.mem_map.mp hx
    exact hw p (hsub p hp)
  simp only
  rw [hval]
  refine ⟨wmean_ge lo hne hw' ?_, wmean_le hi hne hw' ?_⟩
  · intro x hx
    obtain ⟨p, hp, rfl⟩ := List.mem_map.mp hx
    exact (hb p (hsub p hp)).1
  · intro x hx
    obtain ⟨p, hp, rfl⟩ := List.mem_map.mp hx
    exact (hb p (hsub p hp)).2

/-- Σ w·fit = Σ w·obs -/
theorem mean_fit_preserves_weighted_sum (t : List Pair) (hw : ∀ p ∈ t, 0 < p.2.2) :
    ((fitPairs wmean t).map fun pv => pv.1.2.2 * pv.2).sum = (t.map fun p => p.2.2 * p.2.1).sum := by
  have hblk : ∀ bs : List (Blk Pair), (∀ b ∈ bs, b.val = wmean (itemsOf b.items) ∧ wtot (itemsOf b.items) ≠ 0) →
      ((expand bs).map fun pv => pv.1.2.2 * pv.2).sum = ((flat bs).map fun p => p.2.2 * p.2.1).sum := by
    intro bs
    induction bs with
    | nil => intro _; simp [expand]
    | cons b rest ih =>
      intro h
      have hb := h b (by simp)
      have := ih (fun c hc => h c (by simp [hc]))
      simp only [expand, List.flatMap_cons, List.map_append, List.sum_append, flat_cons] at this ⊢
      rw [this]
      congr 1
      have h1 : (List.map (fun pv : Pair × Rat => pv.1.2.2 * pv.2) (List.map (fun x => (x, b.val)) b.items)).sum
          = b.val * wtot (itemsOf b.items) := by
        rw [List.map_map]
        simp only [wtot, itemsOf, List.map_map, Function.comp_def]
        induction b.items with
        | nil => simp
        | cons x xs ihx => simp only [List.map_cons, List.sum_cons, ihx]; ring
      have h2 : (List.map (fun p : Pair => p.2.2 * p.2.1) b.items).sum = wsum (itemsOf b.items) := by
        simp [wsum, itemsOf, List.map_map, Function.comp_def]
      rw [h1, h2, hb.1, wmean_mul_wtot hb.2]
  have := hblk (pav obsOf (fun l => wmean (itemsOf l)) t) (by
    intro b hbm
    refine ⟨mean_block_value t hw b hbm, ne_of_gt (wtot_pos ?_ ?_)⟩
    · have := (pav_ok obsOf (fun l => wmean (itemsOf l)) t b hbm).1
      simpa [itemsOf] using this
    · intro x hx
      obtain ⟨p, hp, rfl⟩ := List.mem_map.mp hx
      apply hw p
      rw [← pav_flat obsOf (fun l => wmean (itemsOf l)) t]
      exact List.mem_flatMap.mpr ⟨b, hbm, hp⟩)
  rw [pav_flat] at this
  exact this

/-- non-vacuity of the weight / bound hypotheses -/
example : (∀ p ∈ [((1:Rat), (2:Rat), (1:Rat)), (1, 0, 3)], 0 < p.2.2) ∧
    (∀ p ∈ [((1:Rat), (2:Rat), (1:Rat)), (1, 0, 3)], (0:Rat) ≤ p.2.1 ∧ p.2.1 ≤ 2) := by
  constructor <;> intro p hp <;> simp at hp <;> rcases hp with rfl | rfl <;> norm_num

/-! ## 5. The mean functional is the weighted least-squares isotonic fit -/

/-- KKT prefix invariant: in every block, every prefix has weighted mean ≥ the block mean
    (`μ · Σ_P w ≤ Σ_P w·y`), and the whole block has weighted mean exactly μ -/
theorem mean_kkt_prefix_invariant (t : List Pair) (hw : ∀ p ∈ t, 0 < p.2.2) :
    ∀ b ∈ pav obsOf (fun l => wmean (itemsOf l)) t,
      Sp b.items = b.val * Wp b.items ∧ ∀ P, P <+: b.items → b.val * Wp P ≤ Sp P := by
  intro b hb
  obtain ⟨_, _, h3, h4⟩ := pav_kblk t hw b hb
  exact ⟨h3, h4⟩

/-- OPTIMALITY with the strong-convexity gap: for every competitor `z` that is non-decreasing along the tidied
    sequence, Σ w (y − fit)² + Σ w (fit − z)² ≤ Σ w (y − z)² -/
theorem mean_fit_optimal_gap (t : List Pair) (hw : ∀ p ∈ t, 0 < p.2.2) (z : Pair → Rat)
    (hz : (t.map z).Pairwise (· ≤ ·)) :
    ((fitPairs wmean t).map fun pv => pv.1.2.2 * (pv.1.2.1 - pv.2) ^ 2).sum
      + ((fitPairs wmean t).map fun pv => pv.1.2.2 * (pv.2 - z pv.1) ^ 2).sum
      ≤ (t.map fun p => p.2.2 * (p.2.1 - z p) ^ 2).sum := by
  have := blocks_optimal (pav obsOf (fun l => wmean (itemsOf l)) t) (pav_kblk t hw) z (by rw [pav_flat]; exact hz)
  rw [pav_flat] at this
  exact this

/-- ∀ monotone z, Σ w (y − fit)² ≤ Σ w (y − z)² -/
theorem mean_fit_optimal (t : List Pair) (hw : ∀ p ∈ t, 0 < p.2.2) (z : Pair → Rat)
    (hz : (t.map z).Pairwise (· ≤ ·)) :
    ((fitPairs wmean t).map fun pv => pv.1.2.2 * (pv.1.2.1 - pv.2) ^ 2).sum ≤ (t.map fun p => p.2.2 * (p.2.1 - z p) ^ 2).sum := by
  have h := mean_fit_optimal_gap t hw z hz
  have hnn : 0 ≤ ((fitPairs wmean t).map fun pv => pv.1.2.2 * (pv.2 - z pv.1) ^ 2).sum := by
    apply List.sum_nonneg
    intro x hx
    obtain ⟨pv, hpv, rfl⟩ := List.mem_map.mp hx
    have hmem : pv.1 ∈ t := by
      rw [← fit_covers_input wmean t]; exact List.mem_map_of_mem hpv
    have := hw pv.1 hmem
    positivity
  linarith

/-- UNIQUENESS: a non-decreasing competitor that is at least as good coincides with the fit at every pair -/
theorem mean_fit_unique (t : List Pair) (hw : ∀ p ∈ t, 0 < p.2.2) (z : Pair → Rat) (hz : (t.map z).Pairwise (· ≤ ·))
    (hbest : (t.map fun p => p.2.2 * (p.2.1 - z p) ^ 2).sum ≤
      ((fitPairs wmean t).map fun pv => pv.1.2.2 * (pv.1.2.1 - pv.2) ^ 2).sum) :
    ∀ pv ∈ fitPairs wmean t, z pv.1 = pv.2 := by
  have h := mean_fit_optimal_gap t hw z hz
  have hmem : ∀ pv ∈ fitPairs wmean t, pv.1 ∈ t := by
    intro pv hpv
    rw [← fit_covers_input wmean t]; exact List.mem_map_of_mem hpv
  have hz0 := all_zero_of_sum_nonpos (fitPairs wmean t) (fun pv => pv.1.2.2 * (pv.2 - z pv.1) ^ 2)
    (by intro pv hpv; have := hw pv.1 (hmem pv hpv); positivity) (by linarith)
  intro pv hpv
  have h0 := hz0 pv hpv
  have hwp := hw pv.1 (hmem pv hpv)
  have : (pv.2 - z pv.1) ^ 2 = 0 := by
    rcases mul_eq_zero.mp h0 with h1 | h1
    · exact absurd h1 (ne_of_gt hwp)
    · exact h1
  have := pow_eq_zero_iff (n := 2) (by norm_num) |>.mp this
  linarith

/-- the property's form: among ALL non-decreasing functions `g` of the forecast value, the fit minimises the weighted
    squared error over the valid pairs `ps` (in any order) -/
theorem mean_fit_optimal_among_functions_of_forecast (ps : List Pair) (hw : ∀ p ∈ ps, 0 < p.2.2) (g : Rat → Rat)
    (hg : ∀ a b, a ≤ b → g a ≤ g b) :
    ((fitPairs wmean (tidy ps)).map fun pv => pv.1.2.2 * (pv.1.2.1 - pv.2) ^ 2).sum
      ≤ (ps.map fun p => p.2.2 * (p.2.1 - g p.1) ^ 2).sum := by
  have hperm := tidy_perm ps
  have hw' : ∀ p ∈ tidy ps, 0 < p.2.2 := fun p hp => hw p (hperm.mem_iff.mp hp)
  have hz : ((tidy ps).map fun p => g p.1).Pairwise (· ≤ ·) := by
    rw [List.pairwise_map]
    refine (tidy_sorted ps).imp ?_
    intro a b hab
    rcases (keyLe_iff a b).mp hab with h | ⟨h, _⟩
    · exact hg _ _ (le_of_lt h)
    · exact hg _ _ (le_of_eq h)
  have := mean_fit_optimal (tidy ps) hw' (fun p => g p.1) hz
  rw [(hperm.map _).sum_eq] at this
  exact this

/-- non-vacuity: a monotone `g` and positive weights -/
example : (∀ a b : Rat, a ≤ b → (fun x => 2 * x) a ≤ (fun x => 2 * x) b) ∧
    (∀ p ∈ [((1:Rat), (2:Rat), (1:Rat)), (1, 0, 3)], 0 < p.2.2) := by
  refine ⟨fun a b h => by simp only; linarith, ?_⟩
  intro p hp; simp at hp; rcases hp with rfl | rfl <;> norm_num

/-! ## 6. Confidence band: `_nanquantile` is monotone in the level, hence lower ≤ upper -/

/-- both band lists are the same column-wise map (same mask), at levels (1−c)/2 and 1−(1−c)/2 -/
theorem band_columnwise (rows : List (List Fl)) (ncol : Nat) (c : Rat) (k : Nat) :
    let cols := transpose rows ncol
    let mx : Option Rat := if (cols.flatMap finVals).isEmpty then none else some (lmax (cols.flatMap finVals))
    band rows ncol c k =
      (cols.map fun col => if k ≤ (finVals col).length then nanquantileCol mx col ((1 - c) / 2) else Fl.nan,
       cols.map fun col => if k ≤ (finVals col).length then nanquantileCol mx col (1 - (1 - c) / 2) else Fl.nan) := rfl

/-- on every column with at least one finite bootstrap value, the lower band value is ≤ the upper band value -/
theorem band_lower_le_upper (m : Rat) (col : List Fl) (c : Rat) (hc0 : 0 < c) (hc1 : c < 1)
    (hv : 1 ≤ (finVals col).length) :
    ∃ a b, nanquantileCol (some m) col ((1 - c) / 2) = Fl.fin a ∧
      nanquantileCol (some m) col (1 - (1 - c) / 2) = Fl.fin b ∧ a ≤ b :=
  nanquantile_mono m col _ _ (by linarith) (by linarith) (by linarith) hv

example : (0 : Rat) < 9 / 10 ∧ (9 / 10 : Rat) < 1 ∧ 1 ≤ (finVals [Fl.fin 1, Fl.nan, Fl.fin 3]).length := by
  refine ⟨by norm_num, by norm_num, by decide⟩

end SV.Props.C15
