/-
  C14 — ROC points are POD/POFD of 'forecast ≥ threshold'; AUC is the trapezoid area.

  The theorems are about `SV.Model.Roc.*` — the model of roc_curve_data → binary_discretise(≥) → probability_of_detection /
  probability_of_false_detection → −np.trapezoid, tied to the source by the differential correspondence of
  tools/sv/props/c14.py — against `SV.Spec.Roc.*` (weighted counting over the valid pairs).  Any number of pairs and
  thresholds, any rationals.
-/
import ScoresVerif.Lemmas.Roc
import ScoresVerif.Lemmas.RocMW
import ScoresVerif.Gen.Roc

namespace SV.Props.C14
open SV SV.Model.Roc SV.Spec.Roc SV.Lemmas.Roc

/-! ## 0. tie T: the definitions regenerated from binary_impl.py / roc_impl.py on every run ARE the model
    (a changed map, mask, quotient, a dropped weighting / summation, another discretisation relation or another AUC
    expression makes one of these fail to check) -/

theorem gen_hits_eq_model (d o : Fl) : Gen.Roc.pod_hits d o = hit d o := by
  cases d <;> cases o <;> simp [Gen.Roc.pod_hits, hit, bothValid, Fl.notNan, Bool.and_comm]
theorem gen_misses_eq_model (d o : Fl) : Gen.Roc.pod_misses d o = miss d o := by
  cases d <;> cases o <;> simp [Gen.Roc.pod_misses, miss, bothValid, Fl.notNan, Bool.and_comm]
theorem gen_false_alarms_eq_model (d o : Fl) : Gen.Roc.pofd_false_alarms d o = falseAlarm d o := by
  cases d <;> cases o <;> simp [Gen.Roc.pofd_false_alarms, falseAlarm, bothValid, Fl.notNan, Bool.and_comm]
theorem gen_correct_negatives_eq_model (d o : Fl) : Gen.Roc.pofd_correct_negatives d o = correctNeg d o := by
  cases d <;> cases o <;> simp [Gen.Roc.pofd_correct_negatives, correctNeg, bothValid, Fl.notNan, Bool.and_comm]

/-- `pod = hits / (hits + misses)`, `pofd = false_alarms / (false_alarms + correct_negatives)` -/
theorem gen_pod_ratio (ps : List Triple) (t : Fl) :
    Model.Roc.pod ps t = Gen.Roc.pod_ratio (wsum miss ps t) (wsum hit ps t) := rfl
theorem gen_pofd_ratio (ps : List Triple) (t : Fl) :
    Model.Roc.pofd ps t = Gen.Roc.pofd_ratio (wsum falseAlarm ps t) (wsum correctNeg ps t) := rfl

/-- both arrays of each quotient are weighted and then summed over the reduced dimensions -/
theorem gen_frame_weights_then_sum :
    ("misses = apply_weights(misses, weights=weights)" ∈ Gen.Roc.pod_frame ∧
     "hits = apply_weights(hits, weights=weights)" ∈ Gen.Roc.pod_frame ∧
     "misses = misses.sum(dim=dims_to_sum)" ∈ Gen.Roc.pod_frame ∧
     "hits = hits.sum(dim=dims_to_sum)" ∈ Gen.Roc.pod_frame) ∧
    ("false_alarms = apply_weights(false_alarms, weights=weights)" ∈ Gen.Roc.pofd_frame ∧
     "correct_negatives = apply_weights(correct_negatives, weights=weights)" ∈ Gen.Roc.pofd_frame ∧
     "false_alarms = false_alarms.sum(dim=dims_to_sum)" ∈ Gen.Roc.pofd_frame ∧
     "correct_negatives = correct_negatives.sum(dim=dims_to_sum)" ∈ Gen.Roc.pofd_frame) := by
  decide

/-- `roc_curve_data` discretises `fcst` at `thresholds` with `operator.ge`, hands the result with `obs` and `weights` to
    POD and POFD, and returns `-1 * trapezoid(pod, pofd)` -/
theorem gen_roc_callsite :
    Gen.Roc.roc_mode = "operator.ge" ∧ Gen.Roc.roc_discretises_fcst_at_thresholds = true ∧
    Gen.Roc.roc_pod_wired = true ∧ Gen.Roc.roc_pofd_wired = true ∧
    Gen.Roc.roc_auc = "-1 * apply_ufunc(np.trapezoid, pod, pofd)" := by
  decide

/-! ## 1. each ROC point is (POFD, POD) of the binary forecast `probability ≥ t` -/

/-- a forecast equal to the threshold is an event; below it is a non-event; NaN stays NaN -/
theorem disc_ge (f t : Rat) : disc (Fl.fin f) (Fl.fin t) = Fl.fin (if t ≤ f then 1 else 0) := disc_fin f t
theorem disc_tie (t : Rat) : disc (Fl.fin t) (Fl.fin t) = Fl.fin 1 := by rw [disc_fin]; simp
theorem disc_nan (t : Fl) : disc Fl.nan t = Fl.nan := by simp [disc, Fl.whereB]

/-- with a weights array: POD = weight of detected events / weight of events, POFD likewise, as IEEE quotients -/
theorem roc_point_eq_pod_pofd (cs : List Case) (t : Rat) :
    Model.Roc.pod (cs.map ofCase) (Fl.fin t) = Spec.Roc.pod cs t ∧
    Model.Roc.pofd (cs.map ofCase) (Fl.fin t) = Spec.Roc.pofd cs t :=
  ⟨pod_ofCase cs t, pofd_ofCase cs t⟩

/-- `weights=None` is counting -/
theorem roc_point_eq_pod_pofd_unweighted (cs : List Case) (hw : ∀ c ∈ cs, c.w = 1) (t : Rat) :
    Model.Roc.pod (cs.map ofCaseNoW) (Fl.fin t) = Spec.Roc.pod cs t ∧
    Model.Roc.pofd (cs.map ofCaseNoW) (Fl.fin t) = Spec.Roc.pofd cs t :=
  ⟨pod_ofCaseNoW cs hw t, pofd_ofCaseNoW cs hw t⟩
example : ∀ c ∈ ([⟨1/2, true, 1⟩, ⟨1/4, false, 1⟩] : List Case), c.w = 1 := by
  intro c hc; simp at hc; rcases hc with rfl | rfl <;> rfl

/-- a pair with a missing forecast, observation or weight is not counted (all four maps, every threshold) -/
theorem invalid_pair_dropped (cell : Fl → Fl → Fl) (hcell : cell = hit ∨ cell = miss ∨ cell = falseAlarm ∨ cell = correctNeg)
    (p : Triple) (hp : p.f = Fl.nan ∨ p.o = Fl.nan ∨ p.w = some Fl.nan) (ps : List Triple) (t : Fl) :
    wsum cell (p :: ps) t = wsum cell ps t := by
  have hterm : applyW (cell (disc p.f t) p.o) p.w = Fl.nan := by
    obtain ⟨f, o, w⟩ := p
    simp only at hp
    rcases hp with rfl | rfl | rfl
    · rcases hcell with rfl | rfl | rfl | rfl <;> cases w <;>
        simp [applyW, hit, miss, falseAlarm, correctNeg, bothValid, disc_nan, Fl.whereB]
    · rcases hcell with rfl | rfl | rfl | rfl <;> cases w <;>
        simp [applyW, hit, miss, falseAlarm, correctNeg, bothValid, Fl.whereB]
    · simp [applyW]
  unfold wsum nansum valid
  simp [List.filter_cons, hterm]
example : (⟨Fl.nan, Fl.fin 1, none⟩ : Triple).f = Fl.nan ∨ (⟨Fl.nan, Fl.fin 1, none⟩ : Triple).o = Fl.nan ∨
    (⟨Fl.nan, Fl.fin 1, none⟩ : Triple).w = some Fl.nan := Or.inl rfl

/-! ## 2. values, monotonicity, the point at threshold 0 -/

-- `podQ cs t = hitsW cs t / eventsW cs`, `pofdQ cs t = falseAlarmsW cs t / nonEventsW cs` (Lemmas/RocMW.lean)

/-- POD is a number iff some event carries weight; otherwise it is 0/0 = NaN -/
theorem pod_value {cs : List Case} (h : Nonneg cs) (t : Rat) :
    (0 < eventsW cs ∧ Spec.Roc.pod cs t = Fl.fin (podQ cs t)) ∨ (eventsW cs = 0 ∧ Spec.Roc.pod cs t = Fl.nan) := by
  have hE := wsumIf_nonneg (fun c => c.ev) h
  have hH := wsumIf_nonneg (fun c => c.ev && decide (t ≤ c.f)) h
  have hle := hitsW_le_events h t
  unfold Spec.Roc.pod podQ
  rcases lt_or_eq_of_le hE with hpos | hz
  · left; exact ⟨hpos, Fl.div_fin _ _ (ne_of_gt hpos)⟩
  · right
    have e0 : eventsW cs = 0 := hz.symm
    have h0 : hitsW cs t = 0 := le_antisymm (by rw [e0] at hle; exact hle) hH
    exact ⟨e0, by rw [e0, h0]; simp⟩
example : Nonneg [⟨1/2, true, 2⟩, ⟨1/4, false, 0⟩] := by
  intro c hc; simp at hc; rcases hc with rfl | rfl <;> norm_num

theorem pofd_value {cs : List Case} (h : Nonneg cs) (t : Rat) :
    (0 < nonEventsW cs ∧ Spec.Roc.pofd cs t = Fl.fin (pofdQ cs t)) ∨ (nonEventsW cs = 0 ∧ Spec.Roc.pofd cs t = Fl.nan) := by
  have hE := wsumIf_nonneg (fun c => !c.ev) h
  have hH := wsumIf_nonneg (fun c => !c.ev && decide (t ≤ c.f)) h
  have hle := falseAlarmsW_le_nonEvents h t
  unfold Spec.Roc.pofd pofdQ
  rcases lt_or_eq_of_le hE with hpos | hz
  · left; exact ⟨hpos, Fl.div_fin _ _ (ne_of_gt hpos)⟩
  · right
    have e0 : nonEventsW cs = 0 := hz.symm
    have h0 : falseAlarmsW cs t = 0 := le_antisymm (by rw [e0] at hle; exact hle) hH
    exact ⟨e0, by rw [e0, h0]; simp⟩

/-- both coordinates are non-increasing in the threshold (non-negative weights) and lie in [0,1] -/
theorem pod_antitone {cs : List Case} (h : Nonneg cs) {t t' : Rat} (htt : t ≤ t') : podQ cs t' ≤ podQ cs t :=
  div_le_div_of_nonneg_right (hitsW_antitone h htt) (wsumIf_nonneg _ h)
theorem pofd_antitone {cs : List Case} (h : Nonneg cs) {t t' : Rat} (htt : t ≤ t') : pofdQ cs t' ≤ pofdQ cs t :=
  div_le_div_of_nonneg_right (falseAlarmsW_antitone h htt) (wsumIf_nonneg _ h)

theorem pod_mem_unit {cs : List Case} (h : Nonneg cs) (t : Rat) : 0 ≤ podQ cs t ∧ podQ cs t ≤ 1 :=
  ⟨div_nonneg (wsumIf_nonneg _ h) (wsumIf_nonneg _ h), div_le_one_of_le₀ (hitsW_le_events h t) (wsumIf_nonneg _ h)⟩
theorem pofd_mem_unit {cs : List Case} (h : Nonneg cs) (t : Rat) : 0 ≤ pofdQ cs t ∧ pofdQ cs t ≤ 1 :=
  ⟨div_nonneg (wsumIf_nonneg _ h) (wsumIf_nonneg _ h), div_le_one_of_le₀ (falseAlarmsW_le_nonEvents h t) (wsumIf_nonneg _ h)⟩

/-- at a threshold not above any forecast (t = 0 for probabilities) both are exactly 1 -/
theorem pod_zero_eq_one {cs : List Case} {t : Rat} (hf : ∀ c ∈ cs, t ≤ c.f) (hE : eventsW cs ≠ 0) :
    Spec.Roc.pod cs t = Fl.fin 1 := by
  unfold Spec.Roc.pod; rw [hitsW_at_low hf, Fl.div_fin _ _ hE, div_self hE]
theorem pofd_zero_eq_one {cs : List Case} {t : Rat} (hf : ∀ c ∈ cs, t ≤ c.f) (hN : nonEventsW cs ≠ 0) :
    Spec.Roc.pofd cs t = Fl.fin 1 := by
  unfold Spec.Roc.pofd; rw [falseAlarmsW_at_low hf, Fl.div_fin _ _ hN, div_self hN]
example : (∀ c ∈ ([⟨0, true, 1⟩, ⟨1/4, false, 1⟩] : List Case), (0 : Rat) ≤ c.f) ∧
    eventsW [⟨0, true, 1⟩, ⟨1/4, false, 1⟩] ≠ 0 ∧ nonEventsW [⟨0, true, 1⟩, ⟨1/4, false, 1⟩] ≠ 0 := by
  refine ⟨?_, by decide +kernel, by decide +kernel⟩
  intro c hc; simp at hc; rcases hc with rfl | rfl <;> norm_num

/-- without any event (non-event) the coordinate is NaN at every threshold -/
theorem pod_no_event (cs : List Case) (t : Rat) (hE : eventsW cs = 0) (hH : hitsW cs t = 0) : Spec.Roc.pod cs t = Fl.nan := by
  unfold Spec.Roc.pod; rw [hE, hH]; simp

/-! ## 3. AUC -/

-- `points cs ts = ts.map fun t => (pofdQ cs t, podQ cs t)` — the ROC points as (POFD, POD)  (Lemmas/RocMW.lean)

/-- `AUC = −trapezoid(POD, POFD) = Σ_k (POFD_k − POFD_{k+1}) (POD_k + POD_{k+1}) / 2` -/
theorem auc_eq_trapezoid {cs : List Case} (hE : eventsW cs ≠ 0) (hN : nonEventsW cs ≠ 0) (ts : List Rat) :
    auc (cs.map ofCase) (ts.map Fl.fin) = Fl.fin (trapArea (points cs ts)) := by
  unfold auc
  have e1 : (ts.map Fl.fin).map (Model.Roc.pod (cs.map ofCase)) = (points cs ts).map fun p => Fl.fin p.2 := by
    simp only [points, List.map_map]; apply List.map_congr_left; intro t _
    simp only [Function.comp, pod_ofCase, Spec.Roc.pod, Fl.div_fin _ _ hE, podQ]
  have e2 : (ts.map Fl.fin).map (Model.Roc.pofd (cs.map ofCase)) = (points cs ts).map fun p => Fl.fin p.1 := by
    simp only [points, List.map_map]; apply List.map_congr_left; intro t _
    simp only [Function.comp, pofd_ofCase, Spec.Roc.pofd, Fl.div_fin _ _ hN, pofdQ]
  rw [e1, e2, trapezoid_fin, Fl.mul_fin]; congr 1; ring

theorem trapArea_formula (x0 y0 x1 y1 : Rat) (rest : List (Rat × Rat)) :
    trapArea ((x0, y0) :: (x1, y1) :: rest) = (x0 - x1) * (y0 + y1) / 2 + trapArea ((x1, y1) :: rest) := rfl

theorem points_xAntitone {cs : List Case} (h : Nonneg cs) : ∀ {ts : List Rat}, nonDecreasing (ts.map Fl.fin) = true →
    xAntitone (points cs ts)
  | [], _ => trivial
  | [_], _ => trivial
  | a :: b :: l, hts => by
    simp only [List.map_cons, nonDecreasing, Bool.and_eq_true, Fl.ge_fin, decide_eq_true_eq] at hts
    exact ⟨pofd_antitone h hts.1, points_xAntitone h (ts := b :: l) (by simpa using hts.2)⟩

/-- for thresholds accepted by the guard (non-decreasing) and non-negative weights the area lies in [0,1] -/
theorem auc_mem_unit {cs : List Case} (h : Nonneg cs) {ts : List Rat} (hts : nonDecreasing (ts.map Fl.fin) = true) :
    0 ≤ trapArea (points cs ts) ∧ trapArea (points cs ts) ≤ 1 := by
  have hx := points_xAntitone h hts
  have hy : ∀ p ∈ points cs ts, 0 ≤ p.2 ∧ p.2 ≤ 1 := by
    intro p hp; obtain ⟨t, _, rfl⟩ := List.mem_map.mp hp; exact pod_mem_unit h t
  have hm : ∀ p ∈ points cs ts, 0 ≤ p.1 := by
    intro p hp; obtain ⟨t, _, rfl⟩ := List.mem_map.mp hp; exact (pofd_mem_unit h t).1
  refine ⟨trapArea_nonneg (fun p hp => (hy p hp).1) hx, ?_⟩
  cases hts' : ts with
  | nil => simp [points, trapArea]
  | cons t l =>
    have := trapArea_le 0 hy hm hx (pofdQ cs t, podQ cs t) (by simp [points, hts'])
    rw [hts'] at this
    linarith [(pofd_mem_unit h t).2]
example : nonDecreasing (([0, 1/4, 1/4, 1] : List Rat).map Fl.fin) = true := by decide +kernel

/-! ## 4. Mann–Whitney -/

/-- When the thresholds (accepted by the guard) contain every forecast value of a valid pair and a value above the largest
    forecast — they then start at or below the smallest forecast, e.g. at 0 — the AUC returned by the model equals the
    (weighted) Mann–Whitney probability that a random event received a higher forecast than a random non-event, ties
    counting one half.  Needs an event and a non-event of non-zero total weight (otherwise both sides are 0/0). -/
theorem auc_eq_mannWhitney {cs : List Case} {ts : List Rat} (hts : nonDecreasing (ts.map Fl.fin) = true)
    (hall : ∀ c ∈ cs, c.f ∈ ts) (htop : ∀ c ∈ cs, ∃ t ∈ ts, c.f < t)
    (hE : eventsW cs ≠ 0) (hN : nonEventsW cs ≠ 0) :
    auc (cs.map ofCase) (ts.map Fl.fin) = mannWhitney cs := by
  rw [auc_eq_trapezoid hE hN]
  exact trapArea_eq_mannWhitney (pairwise_of_nonDecreasing hts) hall htop hE hN
example : let cs : List Case := [⟨1/2, true, 1⟩, ⟨1/4, false, 2⟩, ⟨1/2, false, 1⟩]
    let ts : List Rat := [0, 1/4, 1/2, 1]
    nonDecreasing (ts.map Fl.fin) = true ∧ (∀ c ∈ cs, c.f ∈ ts) ∧ (∀ c ∈ cs, ∃ t ∈ ts, c.f < t) ∧
    eventsW cs ≠ 0 ∧ nonEventsW cs ≠ 0 := by
  refine ⟨by decide +kernel, ?_, ?_, by decide +kernel, by decide +kernel⟩
  · intro c hc; simp at hc; rcases hc with rfl | rfl | rfl <;> simp
  · intro c hc; simp at hc; rcases hc with rfl | rfl | rfl <;> exact ⟨1, by simp, by norm_num⟩

end SV.Props.C14
