/-
  C16 — FSS equals the sliding-window definition and aggregates by components.

  Theorems about the model of the code (`SV.Model.Fss`, whose scalar tails `compute_fss`, `agg_step`, `agg_tail`,
  `components` are the definitions REGENERATED from /repo on every run, `SV.Gen.Fss`) versus the direct-count
  specification `SV.Spec.Fss`.  All statements are for arbitrary field shapes H × W and windows h × w.
-/
import ScoresVerif.Lemmas.Fss

namespace SV.Props.C16
open SV SV.Fl SV.Model.Fss
open SV.Spec.Fss (Cmp isEvent image fieldSums sums score fss fssAgg addS win ext)

/-! ## 1. The summed-area table -/

/-- corner identity: D − B − C + A of the summed-area table is the sum over the rectangle -/
theorem sat_window (x : Nat → Nat → Int) (i j h w : Nat) :
    sat x (i + h) (j + w) - sat x i (j + w) - sat x (i + h) j + sat x i j = rect x i j (i + h) (j + w) :=
  sat_rect x i j (i + h) (j + w) (Nat.le_add_right _ _) (Nat.le_add_right _ _)

/-- the model of `pop.cumsum(1).cumsum(0)` with the zero row / column IS the summed-area table -/
theorem cumsum_cumsum_is_sat (x : Tab) (H W i j : Nat) (hi : i ≤ H) (hj : j ≤ W) :
    Model.Fss.get (integral x H W) i j = sat (Model.Fss.get x) i j :=
  integral_eq_sat x H W i j hi hj

/-! ## 2. The images are the direct window counts -/

/-- no padding: (H−h+1)(W−w+1) entries … -/
theorem image_nopad_length (x : Tab) (H W h w : Nat) :
    (imgNoPad (integral x H W) H W h w).length = (H + 1 - h) * (W + 1 - w) := by
  rw [imgNoPad_eq_spec, length_image]; congr 1 <;> omega

/-- … each the direct count of the window at that position, for every window that fits (1×1 up to H×W) -/
theorem image_nopad_eq_window_count (x : Tab) (H W h w : Nat) :
    imgNoPad (integral x H W) H W h w = image (Model.Fss.get x) H W 0 0 0 0 h w :=
  imgNoPad_eq_spec x H W h w

/-- zero padding: the clipped corners are the direct window counts on the zero-extended field, and the extension the
    code uses is ⌊h/2⌋ rows before and h − ⌊h/2⌋ rows after (likewise columns) -/
theorem image_pad_eq_window_count_code_extension (x : Tab) (H W h w : Nat) (hh : 1 ≤ h) (hw : 1 ≤ w) :
    imgPad (integral x H W) H W h w
      = image (Model.Fss.get x) H W (h / 2) (h - h / 2) (w / 2) (w - w / 2) h w :=
  imgPad_eq_spec x H W h w hh hw

example : (1 : Nat) ≤ 3 ∧ (1 : Nat) ≤ 2 := by decide

/-! ## 3. Thresholding: a NaN cell is a non-event -/

theorem nan_cell_is_non_event (c : Cmp) (thr : Fl) : event (cmpOp c) Fl.nan thr = 0 := event_nan c thr

theorem event_is_comparison (c : Cmp) (x thr : Fl) : event (cmpOp c) x thr = isEvent c x thr := event_eq_spec c x thr

/-- the binary entry point (`left_identity_operator`) on a 0/1 field is thresholding at 1/2 -/
theorem binary_entry_is_thresholding (x thr : Fl) (hx : x = fin 0 ∨ x = fin 1) :
    event ThrOp.leftId x thr = isEvent Cmp.gt x (fin (1 / 2)) := by
  rcases hx with rfl | rfl <;> simp [event, isEvent, Fl.isNan] <;> norm_num

example : (fin 1 = fin 0 ∨ fin 1 = fin 1) := Or.inr rfl

/-! ## 4. The score of one field pair -/

/-- events of a field under a comparison operator, as the spec sees them -/
def ev (c : Cmp) (thr : Fl) (field : List (List Fl)) : Nat → Nat → Int := fun i j => isEvent c (getFl field i j) thr

theorem ev_nonneg (c : Cmp) (thr : Fl) (field : List (List Fl)) (i j : Nat) : 0 ≤ ev c thr field i j := by
  unfold ev; rw [← event_eq_spec]; rcases event_01 (cmpOp c) (getFl field i j) thr with h | h <;> rw [h] <;> decide

theorem image_pop (c : Cmp) (thr : Fl) (field : List (List Fl)) (H W pt pb pl pr h w : Nat) :
    image (Model.Fss.get (pop (cmpOp c) thr field H W)) H W pt pb pl pr h w = image (ev c thr field) H W pt pb pl pr h w :=
  image_congr _ _ H W pt pb pl pr h w fun i hi j hj => by rw [get_pop _ _ _ _ _ _ _ hi hj, event_eq_spec]; rfl

/-- generic step: images that are window counts of non-negative fields give the spec score -/
theorem score_of_images (xf xo : Nat → Nat → Int) (H W pt pb pl pr h w : Nat)
    (hf : ∀ i < H, ∀ j < W, 0 ≤ xf i j) (ho : ∀ i < H, ∀ j < W, 0 ≤ xo i j)
    (hn : 0 < (pt + H + pb + 1 - h) * (pl + W + pr + 1 - w)) :
    scoreOf (components (image xf H W pt pb pl pr h w) (image xo H W pt pb pl pr h w)) = fin (fss xf xo H W pt pb pl pr h w) := by
  rw [scoreOf_components _ _ (by rw [length_image, length_image]) (by rw [length_image]; exact hn)
    (image_nonneg _ _ _ _ _ _ _ _ _ hf) (image_nonneg _ _ _ _ _ _ _ _ _ ho)]
  rfl

/-- NO PADDING: `fss_2d_single_field` = 1 − Σ(p_o−p_f)²/(Σp_o²+Σp_f²) over all window positions inside the field, counts by
    direct counting, 0 when the denominator is 0 — for every window 1 ≤ h ≤ H, 1 ≤ w ≤ W -/
theorem fss_nopad_eq_spec (c : Cmp) (thr : Fl) (fcst obs : List (List Fl)) (H W h w : Nat)
    (hh : 1 ≤ h) (hH : h ≤ H) (hw : 1 ≤ w) (hW : w ≤ W) :
    fssSingle (cmpOp c) thr false fcst obs H W h w = fin (fss (ev c thr fcst) (ev c thr obs) H W 0 0 0 0 h w) := by
  unfold fssSingle decomposed decomposedPop imageOf img
  simp only [Bool.false_eq_true, if_false]
  rw [imgNoPad_eq_spec, imgNoPad_eq_spec, image_pop, image_pop]
  exact score_of_images _ _ _ _ _ _ _ _ _ _ (fun i _ j _ => ev_nonneg _ _ _ i j) (fun i _ j _ => ev_nonneg _ _ _ i j)
    (Nat.mul_pos (by omega) (by omega))

example : (1 : Nat) ≤ 2 ∧ 2 ≤ 3 ∧ (1 : Nat) ≤ 1 ∧ 1 ≤ 4 := by decide

/-- ZERO PADDING, what the code computes: the sliding-window score on the field extended by ⌊h/2⌋ before and
    h − ⌊h/2⌋ after -/
theorem fss_pad_eq_code_extension (c : Cmp) (thr : Fl) (fcst obs : List (List Fl)) (H W h w : Nat)
    (hh : 1 ≤ h) (hw : 1 ≤ w) :
    fssSingle (cmpOp c) thr true fcst obs H W h w
      = fin (fss (ev c thr fcst) (ev c thr obs) H W (h / 2) (h - h / 2) (w / 2) (w - w / 2) h w) := by
  unfold fssSingle decomposed decomposedPop imageOf img
  simp only [if_true]
  rw [imgPad_eq_spec _ _ _ _ _ hh hw, imgPad_eq_spec _ _ _ _ _ hh hw, image_pop, image_pop]
  exact score_of_images _ _ _ _ _ _ _ _ _ _ (fun i _ j _ => ev_nonneg _ _ _ i j) (fun i _ j _ => ev_nonneg _ _ _ i j)
    (Nat.mul_pos (by omega) (by omega))

/-- ZERO PADDING, the property ("zero-padded by half a window on each side") — holds for EVEN window dimensions -/
theorem fss_pad_partial (c : Cmp) (thr : Fl) (fcst obs : List (List Fl)) (H W h w : Nat)
    (hh : 1 ≤ h) (hw : 1 ≤ w) (heven_h : h % 2 = 0) (heven_w : w % 2 = 0) :
    fssSingle (cmpOp c) thr true fcst obs H W h w
      = fin (fss (ev c thr fcst) (ev c thr obs) H W (h / 2) (h / 2) (w / 2) (w / 2) h w) := by
  rw [fss_pad_eq_code_extension c thr fcst obs H W h w hh hw]
  have e1 : h - h / 2 = h / 2 := by omega
  have e2 : w - w / 2 = w / 2 := by omega
  rw [e1, e2]

example : (1 : Nat) ≤ 2 ∧ (1 : Nat) ≤ 4 ∧ 2 % 2 = 0 ∧ 4 % 2 = 0 := by decide

/-- the F5 witness: 3×3 fields, one forecast event at (0,0), one observed event at (1,2), 3×3 window -/
def wF : List (List Fl) := [[fin 1, fin 0, fin 0], [fin 0, fin 0, fin 0], [fin 0, fin 0, fin 0]]
def wO : List (List Fl) := [[fin 0, fin 0, fin 0], [fin 0, fin 0, fin 1], [fin 0, fin 0, fin 0]]

/-- KNOWN FINDING F5: for an ODD window the code's zero padding is NOT "half a window on each side":
    the model of the code gives 4/13, the symmetric half-window definition gives 2/5 -/
theorem fss_pad_counterexample :
    fssSingle ThrOp.gt (fin (1 / 2)) true wF wO 3 3 3 3 = fin (4 / 13) ∧
    fss (ev Cmp.gt (fin (1 / 2)) wF) (ev Cmp.gt (fin (1 / 2)) wO) 3 3 1 1 1 1 3 3 = 2 / 5 := by
  constructor <;> decide +kernel

/-! ## 5. Range, symmetry, identical fields (the unclamped formula) -/

/-- 0 ≤ FSS ≤ 1 WITHOUT the clamp: Σ(p_o − p_f)² ≤ Σp_o² + Σp_f² because window counts are non-negative -/
theorem fss_in_unit_interval (xf xo : Nat → Nat → Int) (H W pt pb pl pr h w : Nat)
    (hf : ∀ i < H, ∀ j < W, 0 ≤ xf i j) (ho : ∀ i < H, ∀ j < W, 0 ≤ xo i j) :
    0 ≤ fss xf xo H W pt pb pl pr h w ∧ fss xf xo H W pt pb pl pr h w ≤ 1 := by
  obtain ⟨h1, h2, h3, h4⟩ := spec_sums_bound _ _ (image_nonneg xf H W pt pb pl pr h w hf) (image_nonneg xo H W pt pb pl pr h w ho)
  exact spec_score_bounds _ h1 h2 h3 h4

example : ∀ i < 2, ∀ j < 2, (0 : Int) ≤ (fun (a b : Nat) => if a = b then (1 : Int) else 0) i j := by decide

/-- symmetric in forecast and observation -/
theorem fss_symmetric (xf xo : Nat → Nat → Int) (H W pt pb pl pr h w : Nat) :
    fss xf xo H W pt pb pl pr h w = fss xo xf H W pt pb pl pr h w := by
  unfold fss fieldSums
  rw [spec_sums_swap (image xo H W pt pb pl pr h w) (image xf H W pt pb pl pr h w)]
  exact (spec_score_swap _ _ _).symm

/-- identical event fields containing an event score exactly 1 -/
theorem fss_identical_is_one (x : Nat → Nat → Int) (H W pt pb pl pr h w a b : Nat)
    (hx : ∀ i < H, ∀ j < W, 0 ≤ x i j) (ha : a < H) (hb : b < W) (hab : 0 < x a b)
    (hh : 1 ≤ h) (hH : h ≤ pt + H + pb) (hw : 1 ≤ w) (hW : w ≤ pl + W + pr) :
    fss x x H W pt pb pl pr h w = 1 := by
  obtain ⟨v, hv, hv0⟩ := exists_pos_entry x H W pt pb pl pr h w a b hx ha hb hab hh hH hw hW
  have hpos := sumSq_pos_of_mem _ v hv hv0
  unfold fss fieldSums score
  rw [spec_sums_self]
  simp only
  rw [if_neg (by omega)]
  simp

example : (0 : Nat) < 2 ∧ (0 : Int) < (fun (a b : Nat) => if a = b then (1 : Int) else 0) 0 0 := by decide

/-- the same three facts for the model of `fss_2d_single_field` (both padding modes, every valid window) -/
theorem fssSingle_spec (c : Cmp) (thr : Fl) (pad : Bool) (fcst obs : List (List Fl)) (H W h w : Nat)
    (hh : 1 ≤ h) (hH : h ≤ H) (hw : 1 ≤ w) (hW : w ≤ W) :
    fssSingle (cmpOp c) thr pad fcst obs H W h w
      = fin (fss (ev c thr fcst) (ev c thr obs) H W (if pad then h / 2 else 0) (if pad then h - h / 2 else 0)
              (if pad then w / 2 else 0) (if pad then w - w / 2 else 0) h w) := by
  cases pad
  · exact fss_nopad_eq_spec c thr fcst obs H W h w hh hH hw hW
  · exact fss_pad_eq_code_extension c thr fcst obs H W h w hh hw

theorem fssSingle_symmetric (c : Cmp) (thr : Fl) (pad : Bool) (fcst obs : List (List Fl)) (H W h w : Nat)
    (hh : 1 ≤ h) (hH : h ≤ H) (hw : 1 ≤ w) (hW : w ≤ W) :
    fssSingle (cmpOp c) thr pad fcst obs H W h w = fssSingle (cmpOp c) thr pad obs fcst H W h w := by
  rw [fssSingle_spec c thr pad fcst obs H W h w hh hH hw hW, fssSingle_spec c thr pad obs fcst H W h w hh hH hw hW,
    fss_symmetric]

theorem fssSingle_in_unit_interval (c : Cmp) (thr : Fl) (pad : Bool) (fcst obs : List (List Fl)) (H W h w : Nat)
    (hh : 1 ≤ h) (hH : h ≤ H) (hw : 1 ≤ w) (hW : w ≤ W) :
    ∃ q : Rat, fssSingle (cmpOp c) thr pad fcst obs H W h w = fin q ∧ 0 ≤ q ∧ q ≤ 1 :=
  ⟨_, fssSingle_spec c thr pad fcst obs H W h w hh hH hw hW,
    fss_in_unit_interval _ _ _ _ _ _ _ _ _ _ (fun i _ j _ => ev_nonneg _ _ _ i j) (fun i _ j _ => ev_nonneg _ _ _ i j)⟩

theorem fssSingle_identical_is_one (c : Cmp) (thr : Fl) (pad : Bool) (field : List (List Fl)) (H W h w a b : Nat)
    (hh : 1 ≤ h) (hH : h ≤ H) (hw : 1 ≤ w) (hW : w ≤ W) (ha : a < H) (hb : b < W)
    (hev : isEvent c (getFl field a b) thr = 1) :
    fssSingle (cmpOp c) thr pad field field H W h w = fin 1 := by
  rw [fssSingle_spec c thr pad field field H W h w hh hH hw hW]
  congr 1
  apply fss_identical_is_one _ _ _ _ _ _ _ _ _ a b (fun i _ j _ => ev_nonneg _ _ _ i j) ha hb _ hh _ hw
  · cases pad <;> simp <;> omega
  · show 0 < isEvent c (getFl field a b) thr
    rw [hev]; decide
  · cases pad <;> simp <;> omega

example : (1 : Nat) ≤ 2 ∧ 2 ≤ 3 ∧ (1 : Nat) ≤ 3 ∧ 3 ≤ 3 ∧ isEvent Cmp.gt (getFl wF 0 0) (fin (1 / 2)) = 1 := by decide +kernel

/-! ## 6. Aggregation over several fields -/

theorem imageOf_eq_spec (pad : Bool) (x : Tab) (H W h w : Nat) (hh : 1 ≤ h) (hw : 1 ≤ w) :
    imageOf pad x H W h w
      = image (Model.Fss.get x) H W (if pad then h / 2 else 0) (if pad then h - h / 2 else 0)
          (if pad then w / 2 else 0) (if pad then w - w / 2 else 0) h w := by
  unfold imageOf img
  cases pad
  · simp only [Bool.false_eq_true, if_false]; exact imgNoPad_eq_spec x H W h w
  · simp only [if_true]; exact imgPad_eq_spec x H W h w hh hw

/-- a single `np.void` (nothing to reduce) aggregates to the score of that field -/
theorem aggregateScalar_is_score (c : Fl × Fl × Fl) : aggregateScalar c = scoreOf c := by
  unfold aggregateScalar scoreOf SV.Gen.Fss.agg_scalar SV.Gen.Fss.agg_tail SV.Gen.Fss.compute_fss
  simp only [Fl.add_comm c.2.1 c.1]

theorem foldl_addS_map {α : Type} (g : α → Int × Int × Int) (l : List α) : ∀ (A : Int × Int × Int),
    l.foldl (fun acc p => addS acc (g p)) A = addS A (totS (l.map g)) := by
  induction l with
  | nil => intro A; simp [totS, addS]
  | cons a t ih =>
    intro A
    simp only [List.foldl_cons, List.map_cons, totS]
    rw [ih]
    simp only [addS, Prod.mk.injEq]
    refine ⟨by ring, by ring, by ring⟩

/-- over several fields the score is formed from the MEANS of the three sums (= the pooled sums: every field has the
    same number of positions), not from the per-field scores -/
theorem aggregate_is_pooled (c : Cmp) (thr : Fl) (pad : Bool) (fields : List (List (List Fl) × List (List Fl)))
    (H W h w : Nat) (hne : fields ≠ []) (hh : 1 ≤ h) (hH : h ≤ H) (hw : 1 ≤ w) (hW : w ≤ W) :
    aggregateArr (fields.map fun p => decomposed (cmpOp c) thr pad p.1 p.2 H W h w)
      = fin (fssAgg (fields.map fun p => (ev c thr p.1, ev c thr p.2)) H W (if pad then h / 2 else 0)
              (if pad then h - h / 2 else 0) (if pad then w / 2 else 0) (if pad then w - w / 2 else 0) h w) := by
  set pt := (if pad then h / 2 else 0) with hpt
  set pb := (if pad then h - h / 2 else 0) with hpb
  set pl := (if pad then w / 2 else 0) with hpl
  set pr := (if pad then w - w / 2 else 0) with hpr
  set n := (pt + H + pb + 1 - h) * (pl + W + pr + 1 - w) with hn
  have hnpos : 0 < n := by
    rw [hn]; apply Nat.mul_pos <;> omega
  have hdec : ∀ p : List (List Fl) × List (List Fl), decomposed (cmpOp c) thr pad p.1 p.2 H W h w
      = toC n (fieldSums (ev c thr p.1) (ev c thr p.2) H W pt pb pl pr h w) := by
    intro p
    unfold decomposed decomposedPop
    rw [imageOf_eq_spec pad _ H W h w hh hw, imageOf_eq_spec pad _ H W h w hh hw, image_pop, image_pop,
      components_eq _ _ (by rw [length_image, length_image]), length_image]
    rfl
  have hmap : (fields.map fun p => decomposed (cmpOp c) thr pad p.1 p.2 H W h w)
      = (fields.map fun p => fieldSums (ev c thr p.1) (ev c thr p.2) H W pt pb pl pr h w).map (toC n) := by
    rw [List.map_map]; exact List.map_congr_left fun p _ => hdec p
  rw [hmap, aggregateArr_eq n hnpos _ (by simpa using hne)]
  · congr 1
    unfold fssAgg
    rw [foldl_addS_map, List.map_map]
    have hz : ∀ t : Int × Int × Int, addS (0, 0, 0) t = t := by intro t; simp [addS]
    rw [hz]
    rfl
  · intro s hs
    rw [List.mem_map] at hs
    obtain ⟨p, _, rfl⟩ := hs
    exact spec_sums_bound _ _ (image_nonneg _ H W pt pb pl pr h w fun i _ j _ => ev_nonneg _ _ _ i j)
      (image_nonneg _ H W pt pb pl pr h w fun i _ j _ => ev_nonneg _ _ _ i j)

/-- two 1×2 fields, 1×1 window: field A identical (score 1), field B one forecast event and no observed event (score 0) -/
def aggA : List (List Fl) × List (List Fl) := ([[fin 1, fin 1]], [[fin 1, fin 1]])
def aggB : List (List Fl) × List (List Fl) := ([[fin 1, fin 0]], [[fin 0, fin 0]])

example : [aggA, aggB] ≠ [] ∧ (1 : Nat) ≤ 1 ∧ (1 : Nat) ≤ 2 := by decide

/-- the aggregate (4/5) differs from the mean of the per-field scores ((1 + 0)/2 = 1/2) -/
theorem aggregation_differs_from_mean_of_scores :
    aggregateArr ([aggA, aggB].map fun p => decomposed ThrOp.gt (fin (1 / 2)) false p.1 p.2 1 2 1 1) = fin (4 / 5) ∧
    fssSingle ThrOp.gt (fin (1 / 2)) false aggA.1 aggA.2 1 2 1 1 = fin 1 ∧
    fssSingle ThrOp.gt (fin (1 / 2)) false aggB.1 aggB.2 1 2 1 1 = fin 0 := by
  refine ⟨?_, ?_, ?_⟩ <;> decide +kernel

end SV.Props.C16
