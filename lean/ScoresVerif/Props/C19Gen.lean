/-
  C19 — tie T for the HLN core: `Gen.DM` is regenerated from the AST of `_dm_gamma_hat_k`, `_dm_v_hat` and
  `_hln_method_stat` on every run (tools/gen/DieboldMariano.py).  The theorems say that the regenerated code IS the
  hand model `Model.DM` (γ̂_k, V̂, the HLN statistic with its small-sample factor) that the C19 theorems are about.
-/
import ScoresVerif.Gen.DieboldMariano
import ScoresVerif.Model.DieboldMariano
import Mathlib.Tactic.Ring
import Mathlib.Tactic.NormNum
import Mathlib.Tactic.Linarith
import Mathlib.Algebra.Order.Field.Rat

namespace SV.Props.C19Gen
open SV SV.Model.DM SV.Gen.DM

theorem zipWith_take_right {α β γ : Type} (f : α → β → γ) (a : List α) (b : List β) :
    List.zipWith f a (b.take a.length) = List.zipWith f a b := by
  induction a generalizing b with
  | nil => simp
  | cons x xs ih => cases b with
    | nil => simp
    | cons y ys => simp [ih]

/-- **`_dm_gamma_hat_k` (regenerated) = the model's γ̂-sum** for the series' own length and every lag k ≤ n -/
theorem gen_gamma_eq_model (d : List Rat) (dbar : Rat) (k : Nat) (_hk : k ≤ d.length) :
    gen_gamma_hat_k d dbar d.length k = gammaHatK d dbar k := by
  unfold gen_gamma_hat_k gammaHatK
  have h1 : (d.drop k).take (d.length - k) = d.drop k := by
    apply List.take_of_length_le; simp
  have h2 : List.drop 0 d = d := rfl
  simp only [h1, h2, Nat.sub_zero, List.zipWith_map]
  have h3 : d.take (d.length - k) = d.take (d.drop k).length := by simp
  rw [h3, zipWith_take_right]

/-- **`_dm_v_hat` (regenerated) = the model's V̂** (NaN when not positive), called as the source calls it -/
theorem gen_v_hat_eq_model (d : List Rat) (h : Nat) (hh : h ≤ d.length) :
    gen_v_hat d (mean d) d.length h = vHat d h := by
  unfold gen_v_hat vHat vHatRat
  have h0 : gen_gamma_hat_k d (mean d) d.length 0 = gammaHatK d (mean d) 0 := gen_gamma_eq_model d _ 0 (Nat.zero_le _)
  have hs : (List.range (h - 1)).map (fun k => gen_gamma_hat_k d (mean d) d.length (k + 1))
      = (List.range (h - 1)).map (fun k => gammaHatK d (mean d) (k + 1)) := by
    apply List.map_congr_left
    intro k hkm
    have : k < h - 1 := List.mem_range.mp hkm
    exact gen_gamma_eq_model d _ (k + 1) (by omega)
  simp only [h0, hs]
  norm_num

/-- **`_hln_method_stat` (regenerated)**: the HLN statistic is `sqrt(correction) · (mean / sqrt(V̂))` with the model's
    mean, V̂ and small-sample factor, for any interpretation `sqrtF` of `** 0.5` -/
theorem gen_hln_eq_model (sqrtF : Fl → Fl) (d : List Rat) (h : Nat) (hh : h ≤ d.length) :
    gen_hln_stat sqrtF d h
      = Fl.mul (sqrtF (Fl.fin (correction d.length h))) (Fl.div (Fl.fin (mean d)) (sqrtF (vHat d h))) := by
  unfold gen_hln_stat
  have hm : d.sum / ((d.length : Nat) : Rat) = mean d := by unfold mean; norm_num
  simp only [hm, gen_v_hat_eq_model d h hh]
  congr 3
  unfold correction
  push_cast
  ring

/-- non-vacuity: the regenerated code on a concrete series (h = 2) -/
example : gen_v_hat [1, 3, 2, 6] (mean [1, 3, 2, 6]) 4 2 = vHat [1, 3, 2, 6] 2 := gen_v_hat_eq_model _ _ (by decide)
example : gen_gamma_hat_k [1, 3, 2, 6] 3 4 1 = (-3 : Rat) := by norm_num [gen_gamma_hat_k]

end SV.Props.C19Gen
