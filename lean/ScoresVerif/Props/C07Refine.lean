/-
  C07 (stretch) — `refine_invariant`: with the linear fill method and the exact integration, inserting additional
  thresholds does not change total / under / over of a case.

  Precise domain (what the model — hence, through the correspondence, `crps_cdf` — supports):
    * fill method "linear", integration "exact";
    * the inserted thresholds lie within the span of the forecast's own thresholds (outside of it the forecast is
      extended linearly and CLIPPED to [0,1]; the clip kink is not a grid point, so a finer grid there changes — in
      fact corrects — the integral: `refine_outside_span_counterexample`; and a point beyond the last grid point
      lengthens the integration domain);
    * the common grid contains the forecast thresholds and has no cell with the observation strictly inside
      (`crps_cdf` always puts the observation on the grid);
    * the threshold weight is constant on every cell that receives a point (no weight, or a step weight whose jumps
      are grid points, filled "forward"/"step").
  With fill "step" or integration "trapz" the statement is false (`refine_step_counterexample`,
  `refine_trapz_counterexample`).

  The grid is refined by the model's own `insertU` (one step of `sortU` = `np.sort(pd.unique(...))`), the forecast is
  re-laid on it by `lookupAt` (as `add_thresholds` does: NaN at new points) and filled by the model's `fillRow`.
-/
import ScoresVerif.Model.CrpsCdf
import ScoresVerif.Spec.CrpsCdf
import ScoresVerif.Lemmas.C07Refine
import ScoresVerif.Lemmas.C07RefineFill
import ScoresVerif.Lemmas.C07Pipeline
import ScoresVerif.Lemmas.C07PipelineSpec
import ScoresVerif.Lemmas.C07PipelineAll

namespace SV.Props.C07Refine
open SV SV.Model.Cdf SV.Model.CrpsCdf SV.Lemmas.Cdf SV.Lemmas.CrpsCdf SV.Lemmas.C07Refine
open SV.Fl (fin nan)
open SV.Spec.CrpsCdf (cellSq lin exactParts)

/-! ## 1. the cell integrals are additive -/

/-- the code's piece formula `m²Δ³/3 + mbΔ² + b²Δ`: splitting a cell `[p, q]` at `m`, with the linear interpolation as the
    ordinate at `m`, splits the piece integral: piece(p→m) + piece(m→q) = piece(p→q) -/
theorem piece_additive (p m q a b : Rat) (hpm : p < m) (hmq : m < q) :
    Fl.add (piece (fin (m - p)) (fin a) (fin (lin p q a b m))) (piece (fin (q - m)) (fin (lin p q a b m)) (fin b))
      = piece (fin (q - p)) (fin a) (fin b) := piece_split p m q a b hpm hmq

example : (0 : Rat) < 1 ∧ (1 : Rat) < 3 := by constructor <;> norm_num
example : Fl.add (piece (fin 1) (fin (1/4)) (fin (1/2))) (piece (fin 2) (fin (1/2)) (fin 1)) = piece (fin 3) (fin (1/4)) (fin 1) ∧
    lin 0 3 (1/4) 1 1 = 1/2 := by decide +kernel

/-- the same for the Spec's cell integral `∫ (F − h)²` of an affine `F` -/
theorem cell_integral_additive (α β h a m b : Rat) (ham : a < m) (hmb : m < b) :
    cellSq a m (α + β * a) (α + β * m) h + cellSq m b (α + β * m) (α + β * b) h = cellSq a b (α + β * a) (α + β * b) h :=
  cellSq_split_affine α β h a m b ham hmb

/-! ## 2. the linear fill is a function of the threshold, affine between the forecast's knots -/

/-- re-laying a NaN-free forecast (ordinates in [0,1], ≥ 2 increasing thresholds) on ANY increasing grid `G ⊇ fthr` and
    filling it with `fill_cdf(method="linear")` samples one fixed function `Fhat` of the threshold — the interpolant through
    the forecast's own knots, clipped; in particular knots that were themselves filled (collinear) change nothing -/
theorem linear_fill_is_function (G fthr fq : List Rat) (hG : Incr G) (hf : Incr fthr) (hlen : fq.length = fthr.length)
    (h2 : 2 ≤ fthr.length) (hu : ∀ v ∈ fq, 0 ≤ v ∧ v ≤ 1) (hsub : ∀ t ∈ fthr, t ∈ G) :
    fillRow G (G.map (lookupAt fthr (fq.map fin))) "linear" 2 = (G.map (Fhat (fthr.zip fq))).map fin :=
  fillRow_relay G fthr fq hG hf hlen h2 hu hsub

/-- … and that function is affine on every interval that lies between two knots and has no knot strictly inside -/
theorem linear_fill_affine_between_knots (ks : List (Rat × Rat)) (hinc : ks.Pairwise (fun a b => a.1 < b.1))
    (hu : ∀ k ∈ ks, 0 ≤ k.2 ∧ k.2 ≤ 1) (a b : Rat) (hab : a < b)
    (hlo : ∃ k ∈ ks, k.1 ≤ a) (hhi : ∃ k ∈ ks, b ≤ k.1) (hsep : ∀ k ∈ ks, k.1 ≤ a ∨ b ≤ k.1) :
    ∃ α β : Rat, ∀ t, a ≤ t → t ≤ b → Fhat ks t = α + β * t :=
  affineOn_Fhat ks hinc hu a b hab hlo hhi hsep

/-- concrete case: forecast ¼, ½, 1 on thresholds 0, 1, 3; common grid 0, 1, 3/2, 3 (observation 3/2) -/
def exThr : List Rat := [0, 1, 3]
def exF : List Rat := [1/4, 1/2, 1]
def exG : List Rat := [0, 1, 3/2, 3]
theorem exThr_incr : Incr exThr := by simp [exThr, Incr]
theorem exG_incr : Incr exG := by simp [exG, Incr]; norm_num
theorem exF_unit : ∀ v ∈ exF, 0 ≤ v ∧ v ≤ 1 := by
  intro v hv
  simp only [exF, List.mem_cons, List.not_mem_nil, or_false] at hv
  rcases hv with rfl | rfl | rfl <;> norm_num
theorem exThr_sub : ∀ t ∈ exThr, t ∈ exG := by
  intro t ht
  simp only [exThr, List.mem_cons, List.not_mem_nil, or_false] at ht
  rcases ht with rfl | rfl | rfl <;> simp [exG]

example : Incr exG ∧ Incr exThr ∧ exF.length = exThr.length ∧ 2 ≤ exThr.length ∧ (∀ v ∈ exF, 0 ≤ v ∧ v ≤ 1) ∧ (∀ t ∈ exThr, t ∈ exG) :=
  ⟨exG_incr, exThr_incr, rfl, by decide, exF_unit, exThr_sub⟩
example : fillRow exG (exG.map (lookupAt exThr (exF.map fin))) "linear" 2 = [fin (1/4), fin (1/2), fin (5/8), fin 1] := by
  decide +kernel

/-! ## 3. refine_invariant -/

/-- **refinement invariance for functions on the threshold axis**: forecast `F` and weight `W` sampled on an increasing
    grid `p :: rest` with no cell straddling the observation; the thresholds `ms` are inserted with `insertU`.  If every
    inserted point lies within the grid span, and every cell that receives a point carries an affine `F` and a constant `W`,
    the three outputs of `crps_cdf_exact` are unchanged. -/
theorem refine_invariant_functions (obs : Rat) (F W : Rat → Rat) (p : Rat) (rest ms : List Rat)
    (hinc : Incr (p :: rest)) (hs : NoStraddle obs (p :: rest))
    (hg : OnCells (fun a b => ∀ m ∈ ms, a < m → m < b → AffineOn F a b ∧ ConstOn W a b) (p :: rest))
    (hms : ∀ m ∈ ms, p ≤ m ∧ ∃ q ∈ p :: rest, m ≤ q) :
    exactRow (ms.foldr insertU (p :: rest)) (((ms.foldr insertU (p :: rest)).map F).map fin)
        (observedRow (ms.foldr insertU (p :: rest)) (fin obs)) (((ms.foldr insertU (p :: rest)).map W).map fin)
      = exactRow (p :: rest) (((p :: rest).map F).map fin) (observedRow (p :: rest) (fin obs)) (((p :: rest).map W).map fin) :=
  exactRow_refine obs F W p rest ms hinc hs hg hms

/-- **refine_invariant** (no threshold weight): a NaN-free forecast with ordinates in [0,1] on the increasing thresholds
    `fthr`; a common increasing grid `p :: rest ⊇ fthr` with no cell straddling the observation; extra thresholds `ms`, each
    between two forecast thresholds (anywhere in the forecast's span; on or off existing grid points, in any order, with
    repetitions).  Grid refinement (`insertU`), re-laying (`lookupAt`), linear fill (`fillRow … "linear" 2`) and exact
    integration (`exactRow`) give the same total, under- and over-forecast penalty as on the unrefined grid. -/
theorem refine_invariant (obs : Rat) (fthr fq : List Rat) (p : Rat) (rest ms : List Rat)
    (hG : Incr (p :: rest)) (hs : NoStraddle obs (p :: rest))
    (hf : Incr fthr) (hlen : fq.length = fthr.length) (h2 : 2 ≤ fthr.length) (hu : ∀ v ∈ fq, 0 ≤ v ∧ v ≤ 1)
    (hsub : ∀ t ∈ fthr, t ∈ p :: rest)
    (hms : ∀ m ∈ ms, (∃ t ∈ fthr, t ≤ m) ∧ (∃ t ∈ fthr, m ≤ t)) :
    exactRow (ms.foldr insertU (p :: rest))
        (fillRow (ms.foldr insertU (p :: rest)) ((ms.foldr insertU (p :: rest)).map (lookupAt fthr (fq.map fin))) "linear" 2)
        (observedRow (ms.foldr insertU (p :: rest)) (fin obs)) ((ones (ms.foldr insertU (p :: rest))).map fin)
      = exactRow (p :: rest) (fillRow (p :: rest) ((p :: rest).map (lookupAt fthr (fq.map fin))) "linear" 2)
        (observedRow (p :: rest) (fin obs)) ((ones (p :: rest)).map fin) := by
  have hW : OnCells (fun a b => ∀ m ∈ ms, a < m → m < b → ConstOn (fun _ => (1 : Rat)) a b) (p :: rest) :=
    onCells_mono (fun a b _ m _ _ _ t _ _ => rfl) _ (cells_sep _ hG)
  exact exactRow_refine_fill obs fthr fq (fun _ => 1) p rest ms hG hs hf hlen h2 hu hsub hms hW

/-- the same with a threshold weight given as a function `W` of the threshold that is constant on every cell receiving a
    point (a step weight whose jumps are on the grid, filled "forward" or "step") -/
theorem refine_invariant_weighted (obs : Rat) (fthr fq : List Rat) (W : Rat → Rat) (p : Rat) (rest ms : List Rat)
    (hG : Incr (p :: rest)) (hs : NoStraddle obs (p :: rest))
    (hf : Incr fthr) (hlen : fq.length = fthr.length) (h2 : 2 ≤ fthr.length) (hu : ∀ v ∈ fq, 0 ≤ v ∧ v ≤ 1)
    (hsub : ∀ t ∈ fthr, t ∈ p :: rest)
    (hms : ∀ m ∈ ms, (∃ t ∈ fthr, t ≤ m) ∧ (∃ t ∈ fthr, m ≤ t))
    (hW : OnCells (fun a b => ∀ m ∈ ms, a < m → m < b → ConstOn W a b) (p :: rest)) :
    exactRow (ms.foldr insertU (p :: rest))
        (fillRow (ms.foldr insertU (p :: rest)) ((ms.foldr insertU (p :: rest)).map (lookupAt fthr (fq.map fin))) "linear" 2)
        (observedRow (ms.foldr insertU (p :: rest)) (fin obs)) (((ms.foldr insertU (p :: rest)).map W).map fin)
      = exactRow (p :: rest) (fillRow (p :: rest) ((p :: rest).map (lookupAt fthr (fq.map fin))) "linear" 2)
        (observedRow (p :: rest) (fin obs)) (((p :: rest).map W).map fin) :=
  exactRow_refine_fill obs fthr fq W p rest ms hG hs hf hlen h2 hu hsub hms hW

theorem exG_noStraddle : NoStraddle (3/2) exG := noStraddle_of_mem exG_incr (by simp [exG])
theorem exMs_inside : ∀ m ∈ ([2, 1/2, 5/2, 1, 2] : List Rat), (∃ t ∈ exThr, t ≤ m) ∧ (∃ t ∈ exThr, m ≤ t) := by
  intro m hm
  simp only [List.mem_cons, List.not_mem_nil, or_false] at hm
  rcases hm with rfl | rfl | rfl | rfl | rfl <;>
    exact ⟨⟨0, by simp [exThr], by norm_num⟩, ⟨3, by simp [exThr], by norm_num⟩⟩

example : Incr exG ∧ NoStraddle (3/2) exG ∧ Incr exThr ∧ exF.length = exThr.length ∧ 2 ≤ exThr.length ∧
    (∀ v ∈ exF, 0 ≤ v ∧ v ≤ 1) ∧ (∀ t ∈ exThr, t ∈ exG) ∧
    (∀ m ∈ ([2, 1/2, 5/2, 1, 2] : List Rat), (∃ t ∈ exThr, t ≤ m) ∧ (∃ t ∈ exThr, m ≤ t)) :=
  ⟨exG_incr, exG_noStraddle, exThr_incr, rfl, by decide, exF_unit, exThr_sub, exMs_inside⟩
example : ([2, 1/2, 5/2, 1, 2] : List Rat).foldr insertU exG = [0, 1/2, 1, 3/2, 2, 5/2, 3] := by decide +kernel
example : OnCells (fun a b => ∀ m ∈ ([2] : List Rat), a < m → m < b → ConstOn (fun t => if t < 1 then (0 : Rat) else 1) a b) exG := by
  simp only [exG, OnCells, List.mem_singleton, forall_eq, and_true]
  refine ⟨fun _ h => absurd h (by norm_num), fun _ h => absurd h (by norm_num), fun _ _ t h1 _ => ?_⟩
  have : ¬ t < 1 := by linarith
  simp [this]; norm_num

/-! ## 4. the whole pipeline on concrete cases: inside the domain, and the boundary of the domain -/

/-- the three outputs of every case, as comparable data -/
def parts3 (r : E (List Parts)) : Option (List (Fl × Fl × Fl)) :=
  match r with
  | .ok ps => some (ps.map fun p => (p.total, p.under, p.over))
  | .error _ => none

/-- `crps_cdf` end to end (grid union, observation on / off the forecast thresholds, fill, integration): additional
    thresholds inside the forecast span leave the result as it is -/
theorem refine_pipeline_instances :
    parts3 (crpsCdf exThr [exF.map fin] [fin 1] none [fin 2, fin (1/2), fin (5/2)] {}) = parts3 (crpsCdf exThr [exF.map fin] [fin 1] none [] {}) ∧
    parts3 (crpsCdf exThr [exF.map fin] [fin (3/2)] none [fin 2, fin (1/2)] {}) = parts3 (crpsCdf exThr [exF.map fin] [fin (3/2)] none [] {}) ∧
    parts3 (crpsCdf exThr [exF.map fin] [fin (3/2)] none [] {}) = some [(fin (3/8), fin (39/128), fin (9/128))] := by
  decide +kernel

/-- outside the forecast span the statement is FALSE: the forecast 0, ½ on thresholds 0, 1 is extended linearly and clipped
    at 1 (reached at threshold 2); with the grid 0, 1, 3 the exact method integrates the chord from ½ at 1 to 1 at 3, with the
    extra threshold 2 it sees the kink -/
theorem refine_outside_span_counterexample :
    parts3 (crpsCdf [0, 1] [[fin 0, fin (1/2)]] [fin 0] none [fin 3] {}) = some [(fin (3/4), fin 0, fin (3/4))] ∧
    parts3 (crpsCdf [0, 1] [[fin 0, fin (1/2)]] [fin 0] none [fin 3, fin 2] {}) = some [(fin (2/3), fin 0, fin (2/3))] := by
  decide +kernel

/-- with `fcst_fill_method="step"` the exact method still integrates straight lines between grid points, so a finer grid
    changes the result -/
theorem refine_step_counterexample :
    parts3 (crpsCdf [0, 2] [[fin 0, fin 1]] [fin 0] none [] { fillF := "step" }) = some [(fin (2/3), fin 0, fin (2/3))] ∧
    parts3 (crpsCdf [0, 2] [[fin 0, fin 1]] [fin 0] none [fin 1] { fillF := "step" }) = some [(fin (4/3), fin 0, fin (4/3))] := by
  decide +kernel

/-- the trapezoid rule is not exact for the quadratic integrand, so it is not refinement invariant either -/
theorem refine_trapz_counterexample :
    parts3 (crpsCdf [0, 2] [[fin 0, fin 1]] [fin 0] none [] { integ := "trapz" }) = some [(fin 1, fin 0, fin 1)] ∧
    parts3 (crpsCdf [0, 2] [[fin 0, fin 1]] [fin 0] none [fin 1] { integ := "trapz" }) = some [(fin (3/4), fin 0, fin (3/4))] := by
  decide +kernel

/-! ## 5. the whole pipeline of `crps_cdf` for one case: closed form, refine_invariant, equality with the Spec -/

/-- **the model of `crps_cdf` on one NaN-free case, unfolded** (no threshold weight, `fcst_fill_method="linear"`,
    `integration_method="exact"`, either value of `propagate_nans`; the observation and the additional thresholds may lie
    on, between or outside the forecast thresholds; NaN additional thresholds are dropped): input checks and the CDF-bounds
    guard are silent, the common grid is `sortU (fthr ++ [obs] ++ additional)`, the forecast is re-laid and linearly filled
    on it, the observation CDF is `1{t ≥ obs}`, and the result is `crps_cdf_exact` of these rows -/
theorem crps_cdf_single_case (fthr fq : List Rat) (obs : Rat) (additional : List Fl) (cfg : Cfg)
    (hfill : cfg.fillF = "linear") (hinteg : cfg.integ = "exact")
    (hf : Incr fthr) (hlen : fq.length = fthr.length) (h2 : 2 ≤ fthr.length) (hu : ∀ v ∈ fq, 0 ≤ v ∧ v ≤ 1) :
    crpsCdf fthr [fq.map fin] [fin obs] none additional cfg =
      .ok [exactRow (gridOf fthr obs additional)
            (fillRow (gridOf fthr obs additional) ((gridOf fthr obs additional).map (lookupAt fthr (fq.map fin))) "linear" 2)
            (observedRow (gridOf fthr obs additional) (fin obs)) ((ones (gridOf fthr obs additional)).map fin)] :=
  crpsCdf_single fthr fq obs additional cfg hfill hinteg hf hlen h2 hu

/-- the common grid is THE strictly increasing list of all thresholds involved -/
theorem grid_is_sorted_union (fthr : List Rat) (obs : Rat) (additional : List Fl) :
    Incr (gridOf fthr obs additional) ∧
    ∀ x, x ∈ gridOf fthr obs additional ↔ x ∈ fthr ∨ x = obs ∨ x ∈ finVals additional := by
  refine ⟨incr_sortU _, fun x => ?_⟩
  rw [gridOf, mem_sortU_iff]
  simp

/-- **refine_invariant for `crps_cdf` itself**: for one NaN-free case (no threshold weight, linear fill, exact integration)
    passing extra `additional_thresholds` that lie within the span of the forecast's thresholds does not change total,
    under- and over-forecast penalty — wherever the observation lies (on a threshold, between two, outside the forecast span)
    and whatever other additional thresholds are present -/
theorem refine_invariant_pipeline (fthr fq : List Rat) (obs : Rat) (additional : List Fl) (extra : List Rat) (cfg : Cfg)
    (hfill : cfg.fillF = "linear") (hinteg : cfg.integ = "exact")
    (hf : Incr fthr) (hlen : fq.length = fthr.length) (h2 : 2 ≤ fthr.length) (hu : ∀ v ∈ fq, 0 ≤ v ∧ v ≤ 1)
    (hex : ∀ m ∈ extra, (∃ t ∈ fthr, t ≤ m) ∧ (∃ t ∈ fthr, m ≤ t)) :
    crpsCdf fthr [fq.map fin] [fin obs] none (additional ++ extra.map fin) cfg
      = crpsCdf fthr [fq.map fin] [fin obs] none additional cfg :=
  crpsCdf_refine fthr fq obs additional extra cfg hfill hinteg hf hlen h2 hu hex

/-- **whole pipeline = Spec**: for one NaN-free case the model of `crps_cdf` returns exactly the parts of the executable
    Spec `SV.Spec.CrpsCdf.crps` — grid = merge-sort + dedup union of forecast thresholds, observation and additional
    thresholds; forecast filled by the knot-function description of "linear" (`Spec.Cdf.fillRow`); observation CDF;
    `Σ_cells Simpson((lin − H)²)` — and the two grids coincide -/
theorem pipeline_eq_spec (fthr fq : List Rat) (obs : Rat) (additional : List Fl) (cfg : Cfg)
    (hfill : cfg.fillF = "linear") (hinteg : cfg.integ = "exact")
    (hf : Incr fthr) (hlen : fq.length = fthr.length) (h2 : 2 ≤ fthr.length) (hu : ∀ v ∈ fq, 0 ≤ v ∧ v ≤ 1) :
    crpsCdf fthr [fq.map fin] [fin obs] none additional cfg =
      .ok [ofSpec (SV.Spec.CrpsCdf.crps fthr (fq.map fin) (fin obs) [] none (finVals additional) cfg.propagate
        "linear" cfg.fillW "exact").parts] ∧
    (SV.Spec.CrpsCdf.crps fthr (fq.map fin) (fin obs) [] none (finVals additional) cfg.propagate
        "linear" cfg.fillW "exact").grid = gridOf fthr obs additional :=
  crpsCdf_eq_spec fthr fq obs additional cfg hfill hinteg hf hlen h2 hu

example : ({} : Cfg).fillF = "linear" ∧ ({} : Cfg).integ = "exact" ∧ Incr exThr ∧ exF.length = exThr.length ∧ 2 ≤ exThr.length ∧
    (∀ v ∈ exF, 0 ≤ v ∧ v ≤ 1) ∧ (∀ m ∈ ([2, 1/2, 5/2, 1, 2] : List Rat), (∃ t ∈ exThr, t ≤ m) ∧ (∃ t ∈ exThr, m ≤ t)) :=
  ⟨rfl, rfl, exThr_incr, rfl, by decide, exF_unit, exMs_inside⟩
-- observation between two forecast thresholds, one additional threshold outside the forecast span, a NaN one dropped
example : gridOf exThr (3/2) [fin 4, nan, fin (1/2)] = [0, 1/2, 1, 3/2, 3, 4] := by decide +kernel
-- on this instance both sides of `pipeline_eq_spec` are (3/8, 39/128, 9/128) (`#eval` of the Spec; the kernel cannot unfold
-- the well-founded `mergeSort` inside `Spec.Cdf.union`, so only the model side is a `decide` fact)
example : parts3 (crpsCdf exThr [exF.map fin] [fin (3/2)] none [fin 4, nan, fin (1/2)] {}) =
    some [(fin (3/8), fin (39/128), fin (9/128))] := by decide +kernel

/-- **whole pipeline = Spec for every option combination** (one NaN-free case, no threshold weight): all four
    `fcst_fill_method`s (linked through C17's `fill_eq_spec`) × both `integration_method`s × both `propagate_nans`; the
    forecast may even have fewer ordinates than thresholds — a case the fill blanks gives NaN on both sides -/
theorem pipeline_eq_spec_all (fthr fq : List Rat) (obs : Rat) (additional : List Fl) (cfg : Cfg)
    (hfill : cfg.fillF ∈ ["linear", "step", "forward", "backward"]) (hinteg : cfg.integ = "exact" ∨ cfg.integ = "trapz")
    (hf : Incr fthr) (h2 : 2 ≤ fthr.length) (hu : ∀ v ∈ fq, 0 ≤ v ∧ v ≤ 1) :
    crpsCdf fthr [fq.map fin] [fin obs] none additional cfg =
      .ok [ofSpec (SV.Spec.CrpsCdf.crps fthr (fq.map fin) (fin obs) [] none (finVals additional) cfg.propagate
        cfg.fillF cfg.fillW cfg.integ).parts] :=
  crpsCdf_eq_spec_all fthr fq obs additional cfg hfill hinteg hf h2 hu

example : ({ fillF := "backward", integ := "trapz", propagate := false } : Cfg).fillF ∈ ["linear", "step", "forward", "backward"] ∧
    (({ fillF := "backward", integ := "trapz", propagate := false } : Cfg).integ = "exact" ∨
     ({ fillF := "backward", integ := "trapz", propagate := false } : Cfg).integ = "trapz") := by decide
example : parts3 (crpsCdf exThr [exF.map fin] [fin (3/2)] none [fin 4, nan, fin (1/2)] { fillF := "backward", integ := "trapz", propagate := false }) =
    some [(fin (17/64), fin (17/64), fin 0)] := by decide +kernel

end SV.Props.C07Refine
