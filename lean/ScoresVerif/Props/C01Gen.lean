/-
  C01 — tie T for the resolution routine: `Gen.Dims.gen_gather_dimensions` is regenerated from the AST of
  `scores.utils.gather_dimensions` on every run (statement translator, tools/py2lean_stmt.py).  The theorems here
  say that this regenerated code computes exactly the hand model `Dims.gather` — hence, by `Props/C01.lean`, the
  property's resolution rule — for every universe of names and every request.  A semantic change of the source
  makes these theorems fail to check.
-/
import ScoresVerif.Lemmas.C01GenReduce
import ScoresVerif.Lemmas.C01GenPreserveA
import ScoresVerif.Lemmas.C01GenPreserveB

namespace SV.Props.C01Gen
open SV.Dims SV.PyDyn SV.Gen.Dims

/-- only `preserve_dims` given: regenerated code = model, for every spelling -/
theorem gen_eq_model_preserve (fcst obs : List String) (w : Option (List String)) (preserve specific : DimSpec)
    (hp : notAllStr preserve = true) (hs : notAllStr specific = true) :
    outcome (gen_gather_dimensions (V.list fcst) (V.list obs) (wToV w) (toV DimSpec.none) (toV preserve) (toV specific))
      = some (gather fcst obs w DimSpec.none preserve specific) := by
  cases preserve with
  | none => exact gen_eq_model_reduce fcst obs w DimSpec.none specific rfl hs
  | all => exact gen_eq_model_preserve_all fcst obs w specific hs
  | str s => exact gen_eq_model_preserve_str fcst obs w s specific (by simpa [notAllStr] using hp) hs
  | list l => exact gen_eq_model_preserve_list fcst obs w l specific hs

/-- **The regenerated `gather_dimensions` computes exactly the model** (same set-as-list, same error class; never a
    TypeError / AssertionError), for every list of names, every weights option and every spelling of the three
    requests.  `notAllStr` only says that the literal "all" is spelled `DimSpec.all`. -/
theorem gen_eq_model (fcst obs : List String) (w : Option (List String)) (reduce preserve specific : DimSpec)
    (hr : notAllStr reduce = true) (hp : notAllStr preserve = true) (hs : notAllStr specific = true) :
    outcome (gen_gather_dimensions (V.list fcst) (V.list obs) (wToV w) (toV reduce) (toV preserve) (toV specific))
      = some (gather fcst obs w reduce preserve specific) := by
  by_cases h1 : preserve = DimSpec.none
  · subst h1; exact gen_eq_model_reduce fcst obs w reduce specific hr hs
  · by_cases h2 : reduce = DimSpec.none
    · subst h2; exact gen_eq_model_preserve fcst obs w preserve specific hp hs
    · rw [gen_both_is_error fcst obs w reduce preserve specific h2 h1,
          SV.Props.C01.both_is_error fcst obs w reduce preserve specific h2 h1]

/-- **The regenerated code obeys the property's resolution rule**: for every well-formed request its outcome is
    the rule's outcome (same error, or the same set of names). -/
theorem gen_eq_spec (fcst obs : List String) (w : Option (List String)) (reduce preserve specific : DimSpec)
    (hr : wellFormed reduce = true) (hp : wellFormed preserve = true) (hs : notAllStr specific = true) :
    ∃ r, outcome (gen_gather_dimensions (V.list fcst) (V.list obs) (wToV w) (toV reduce) (toV preserve) (toV specific)) = some r
      ∧ sameOutcome r (Spec.resolve fcst obs w reduce preserve specific) := by
  have hr' : notAllStr reduce = true := by cases reduce <;> simp_all [wellFormed, notAllStr]
  have hp' : notAllStr preserve = true := by cases preserve <;> simp_all [wellFormed, notAllStr]
  exact ⟨_, gen_eq_model fcst obs w reduce preserve specific hr' hp' hs,
    SV.Props.C01.gather_eq_spec fcst obs w reduce preserve specific hr hp⟩

/-- the keyword defaults the callers rely on are still `None` -/
theorem gen_defaults : gather_dimensions_kwdefaults = ["None", "None", "None", "None"] ∧
    gather_dimensions_params = ["fcst_dims", "obs_dims", "weights_dims", "reduce_dims", "preserve_dims", "score_specific_fcst_dims"] := by
  decide

/-- non-vacuity: a concrete request through the regenerated code -/
example : outcome (gen_gather_dimensions (V.list ["a", "b", "m"]) (V.list ["b", "c"]) (wToV (some ["d"]))
    (toV DimSpec.none) (toV (DimSpec.list ["a"])) (toV (DimSpec.str "m")))
    = some (Except.ok ["b", "c", "d"]) := by decide +kernel
example : outcome (gen_gather_dimensions (V.list ["a"]) (V.list ["b"]) (wToV Option.none)
    (toV (DimSpec.str "z")) (toV DimSpec.none) (toV DimSpec.none)) = some (Except.error Err.absent) := by decide +kernel

end SV.Props.C01Gen
