/-
  C03 — weights act as a pointwise multiplier of per-case scores before averaging.
  Every weight-accepting score is `scoreEval p (some w) R` = NaN-skipping mean over R of (p · w by name)
  (shown for the implementation by the C01/C03 correspondence); the laws below are proved for that form,
  for lists of any length.
-/
import ScoresVerif.Model.Arr
import ScoresVerif.Lemmas.NanMean
import ScoresVerif.Lemmas.C03Nan
import Mathlib.Tactic.FieldSimp
import Mathlib.Tactic.Ring

namespace SV.Props.C03
open SV SV.Fl

/-- unit weights change nothing (for every value incl. NaN and ±inf) -/
theorem mul_one (x : Fl) : Fl.mul x (fin 1) = x := by
  cases x <;> simp [Fl.mul]

/-- the mean over a one-element fibre is that element: with preserve_dims='all' nothing is averaged -/
theorem nanmean_singleton (x : Fl) : nanmean [x] = x := by
  cases x <;> simp [nanmean, valid, notNan, isNan, fsum, Fl.ofNat, Fl.add, Fl.div]

/-- preserve_dims='all' with weights w = w × the unweighted pointwise result -/
theorem weighted_pointwise (s w : Fl) : nanmean [Fl.mul s w] = Fl.mul s w := nanmean_singleton _

/-- a case: per-case score (possibly missing) and two finite weights -/
abbrev Case3 := Option Rat × Rat × Rat

def weighted (g : Case3 → Rat) (l : List Case3) : List Fl :=
  l.map fun t => Fl.mul (ofOpt t.1) (fin (g t))

theorem weighted_eq (g : Case3 → Rat) (l : List Case3) :
    weighted g l = (l.map fun t => t.1.map (· * g t)).map ofOpt := by
  unfold weighted
  rw [List.map_map]
  apply List.map_congr_left
  intro t _
  rcases t with ⟨s, w1, w2⟩
  cases s <;> simp [ofOpt]

theorem present_weighted_length (g : Case3 → Rat) (l : List Case3) :
    (present (l.map fun t => t.1.map (· * g t))).length = (present (l.map fun t => t.1)).length := by
  induction l with
  | nil => rfl
  | cons t l ih =>
    rcases t with ⟨s, w1, w2⟩
    cases s <;> simp_all [present]

theorem present_weighted_sum_add (g h : Case3 → Rat) (l : List Case3) :
    (present (l.map fun t => t.1.map (· * (g t + h t)))).sum =
    (present (l.map fun t => t.1.map (· * g t))).sum + (present (l.map fun t => t.1.map (· * h t))).sum := by
  induction l with
  | nil => simp [present]
  | cons t l ih =>
    rcases t with ⟨s, w1, w2⟩
    cases s with
    | none => simpa [present] using ih
    | some v => simp only [present, List.map_cons, List.filterMap_cons, Option.map_some, id, List.sum_cons] at *; rw [ih]; ring

theorem present_weighted_sum_smul (c : Rat) (g : Case3 → Rat) (l : List Case3) :
    (present (l.map fun t => t.1.map (· * (c * g t)))).sum = c * (present (l.map fun t => t.1.map (· * g t))).sum := by
  induction l with
  | nil => simp [present]
  | cons t l ih =>
    rcases t with ⟨s, w1, w2⟩
    cases s with
    | none => simpa [present] using ih
    | some v => simp only [present, List.map_cons, List.filterMap_cons, Option.map_some, id, List.sum_cons] at *; rw [ih]; ring

theorem present_empty_iff (g : Case3 → Rat) (l : List Case3) :
    present (l.map fun t => t.1.map (· * g t)) = [] ↔ present (l.map fun t => t.1) = [] := by
  rw [← List.length_eq_zero_iff, ← List.length_eq_zero_iff, present_weighted_length]

/-- aggregated scores are additive in the weights: weights w₁ + w₂ give the sum of the two results
    (same cases valid in all three, since validity comes from the per-case score) -/
theorem nanmean_add_weights (l : List Case3) :
    nanmean (weighted (fun t => t.2.1 + t.2.2) l) =
      Fl.add (nanmean (weighted (fun t => t.2.1) l)) (nanmean (weighted (fun t => t.2.2) l)) := by
  simp only [weighted_eq, nanmean_ofOpt]
  by_cases h : present (l.map fun t => t.1) = []
  · simp [(present_empty_iff _ l).mpr h]
  · have h1 := (present_empty_iff (fun t => t.2.1 + t.2.2) l).not.mpr h
    have h2 := (present_empty_iff (fun t => t.2.1) l).not.mpr h
    have h3 := (present_empty_iff (fun t => t.2.2) l).not.mpr h
    simp only [h1, h2, h3, if_false, add_fin]
    congr 1
    rw [present_weighted_sum_add, present_weighted_length, present_weighted_length (fun t => t.2.1),
      present_weighted_length (fun t => t.2.2)]
    ring

/-- a constant factor c on the weights scales the aggregated score by c -/
theorem nanmean_smul_weights (c : Rat) (l : List Case3) :
    nanmean (weighted (fun t => c * t.2.1) l) = Fl.mul (fin c) (nanmean (weighted (fun t => t.2.1) l)) := by
  simp only [weighted_eq, nanmean_ofOpt]
  by_cases h : present (l.map fun t => t.1) = []
  · simp [(present_empty_iff _ l).mpr h]
  · have h1 := (present_empty_iff (fun t => c * t.2.1) l).not.mpr h
    have h2 := (present_empty_iff (fun t => t.2.1) l).not.mpr h
    simp only [h1, h2, if_false, mul_fin]
    congr 1
    rw [present_weighted_sum_smul, present_weighted_length, present_weighted_length (fun t => t.2.1)]
    ring

/-- unit weights: the weighted aggregate is the unweighted one -/
theorem nanmean_unit_weights (l : List Case3) :
    nanmean (weighted (fun _ => 1) l) = nanmean (l.map fun t => ofOpt t.1) := by
  unfold weighted
  congr 1
  apply List.map_congr_left
  intro t _; exact mul_one _

/-- ratio scores (POD, POFD, multiplicative bias, percent bias, hence ROC) are quotients of two weighted
    sums; a positive constant weight cancels — including every zero-denominator case -/
theorem ratio_invariant (c a b : Rat) (hc : 0 < c) :
    Fl.div (fin (c * a)) (fin (c * a + c * b)) = Fl.div (fin a) (fin (a + b)) := by
  have hc' : c ≠ 0 := hc.ne'
  have e : c * a + c * b = c * (a + b) := by ring
  rw [e]
  by_cases hd : a + b = 0
  · by_cases ha : a = 0
    · have hb : b = 0 := by rw [ha] at hd; simpa using hd
      simp [Fl.div, ha, hb]
    · have hca : c * a ≠ 0 := mul_ne_zero hc' ha
      have : (c * a < 0) ↔ (a < 0) := by
        constructor
        · intro h; by_contra h'; have h'' : 0 ≤ a := not_lt.mp h'; nlinarith
        · intro h; nlinarith
      simp [Fl.div, hd, ha, hca, this]
  · have : c * (a + b) ≠ 0 := mul_ne_zero hc' hd
    rw [div_fin _ _ this, div_fin _ _ hd]
    congr 1
    field_simp

/-! Non-vacuity: three cases, one missing -/
example : nanmean (weighted (fun t => t.2.1 + t.2.2) [(some 2, 1, 3), (none, 5, 5), (some 4, 2, 0)]) = fin 8 := by
  decide +kernel

/-! ## NaN weights

The theorems above take finite weights.  Below the weight of a case may itself be NaN (`none`), as in
`apply_weights(values, weights=w)` with gaps in `w`: `values * w` is NaN there and the NaN-skipping mean drops the case. -/
section NanWeights
open SV.C03Nan

/-- weighted per-case scores, the weight of case `t` being any `Fl` value `g t` (NaN allowed) -/
def weightedF (g : CaseN → Fl) (l : List CaseN) : List Fl :=
  l.map fun t => Fl.mul (ofOpt t.1) (g t)

theorem weightedF_ofOpt (g : CaseN → Option Rat) (l : List CaseN) :
    weightedF (fun t => ofOpt (g t)) l = (l.map fun t => omul t.1 (g t)).map ofOpt := by
  unfold weightedF
  rw [List.map_map]
  apply List.map_congr_left
  intro t _
  exact mul_ofOpt _ _

/-- With NaN weights the weighted aggregate is Σ s·w / n over exactly the cases in which BOTH the score and the
    weight are present (`both g l`); n counts those cases only; no such case gives NaN.  A NaN weight therefore
    removes its case from the numerator and from the denominator. -/
theorem nanmean_nan_weights (g : CaseN → Option Rat) (l : List CaseN) :
    nanmean (weightedF (fun t => ofOpt (g t)) l) =
      if both g l = [] then nan
      else fin (((both g l).map fun p => p.1 * p.2).sum / (both g l).length) := by
  rw [weightedF_ofOpt, nanmean_ofOpt, present_omul]
  simp only [List.map_eq_nil_iff, List.length_map]

/-- the case has a score and a weight -/
def bothPresent (g : CaseN → Option Rat) (t : CaseN) : Bool := t.1.isSome && (g t).isSome

/-- the same fact without closed forms: the NaN-skipping mean of the weighted scores is the PLAIN mean of the
    weighted scores of the sub-list of cases having both a score and a weight -/
theorem nanmean_nan_weights_filter (g : CaseN → Option Rat) (l : List CaseN) :
    nanmean (weightedF (fun t => ofOpt (g t)) l) =
      strictmean (weightedF (fun t => ofOpt (g t)) (l.filter (bothPresent g))) := by
  have hp : (fun t : CaseN => (Fl.mul (ofOpt t.1) (ofOpt (g t))).notNan) = bothPresent g := by
    funext t
    unfold bothPresent
    cases t.1 <;> cases g t <;> simp
  unfold weightedF
  rw [nanmean_filter_notNan_map, hp]
  apply nanmean_eq_strictmean_of_forall
  intro x hx
  obtain ⟨t, ht, rfl⟩ := List.mem_map.mp hx
  have := (List.mem_filter.mp ht).2
  rw [← hp] at this
  exact this

/-- a case whose weight is NaN contributes nothing at all — whatever its score (any `Fl` weights elsewhere) -/
theorem nanmean_nan_weight_cons (g : CaseN → Fl) (t : CaseN) (l : List CaseN) (h : g t = nan) :
    nanmean (weightedF g (t :: l)) = nanmean (weightedF g l) := by
  have e : valid (weightedF g (t :: l)) = valid (weightedF g l) := by
    simp [weightedF, h, valid]
  unfold nanmean
  rw [e]

example : (fun t : CaseN => ofOpt t.2.1) (some 5, none, some 1) = nan := rfl

/-- contrast: a case whose weight is ZERO (and whose score is present) adds nothing to the numerator but still
    counts in the denominator -/
theorem nanmean_zero_weight_cons (g : CaseN → Option Rat) (s : Rat) (w1 w2 : Option Rat) (l : List CaseN)
    (h : g (some s, w1, w2) = some 0) :
    nanmean (weightedF (fun t => ofOpt (g t)) ((some s, w1, w2) :: l)) =
      fin (((both g l).map fun p => p.1 * p.2).sum / ((both g l).length + 1)) := by
  rw [nanmean_nan_weights]
  have e : both g ((some s, w1, w2) :: l) = (s, 0) :: both g l := by
    simp [both, h]
  simp [e]

/-- zero weight and NaN weight differ: scores 5 and 3, second weight 1; first weight 0 gives 3/2, NaN gives 3 -/
example : nanmean (weightedF (fun t => ofOpt t.2.1) [(some 5, some 0, none), (some 3, some 1, none)]) = fin (3/2) ∧
    nanmean (weightedF (fun t => ofOpt t.2.1) [(some 5, none, none), (some 3, some 1, none)]) = fin 3 := by
  decide +kernel

example : (fun t : CaseN => t.2.1) (some 5, some 0, none) = some 0 := rfl

/-- additivity in the weights for two weight vectors with the SAME NaN mask (scores may have their own NaNs) -/
theorem nanmean_add_nan_weights (l : List CaseN) (hm : ∀ t ∈ l, t.2.1.isSome = t.2.2.isSome) :
    nanmean (weightedF (fun t => Fl.add (ofOpt t.2.1) (ofOpt t.2.2)) l) =
      Fl.add (nanmean (weightedF (fun t => ofOpt t.2.1) l)) (nanmean (weightedF (fun t => ofOpt t.2.2) l)) := by
  simp only [add_ofOpt, nanmean_nan_weights]
  have e1 := both_oadd_length_left l hm
  have e2 := both_oadd_length_right l hm
  by_cases h : both (fun t => oadd t.2.1 t.2.2) l = []
  · have h1 : both (fun t => t.2.1) l = [] := by
      rw [← List.length_eq_zero_iff, ← e1, h]; rfl
    have h2 : both (fun t => t.2.2) l = [] := by
      rw [← List.length_eq_zero_iff, ← e2, h]; rfl
    simp [h, h1, h2]
  · have h1 : both (fun t => t.2.1) l ≠ [] := by
      intro h'; apply h; rw [← List.length_eq_zero_iff, e1, h']; rfl
    have h2 : both (fun t => t.2.2) l ≠ [] := by
      intro h'; apply h; rw [← List.length_eq_zero_iff, e2, h']; rfl
    simp only [h, h1, h2, if_false, add_fin]
    congr 1
    rw [both_oadd_sum l hm, ← e1, ← e2]
    ring

/-- the hypothesis is satisfiable non-trivially: NaN weights in the same place, a NaN score elsewhere -/
example : ∀ t ∈ ([(some 2, some 1, some 3), (some 7, none, none), (none, some 5, some 5), (some 4, some 2, some 0)] : List CaseN),
    t.2.1.isSome = t.2.2.isSome := by decide

example : nanmean (weightedF (fun t => Fl.add (ofOpt t.2.1) (ofOpt t.2.2))
    [(some 2, some 1, some 3), (some 7, none, none), (none, some 5, some 5), (some 4, some 2, some 0)]) = fin 8 := by
  decide +kernel

/-- NEGATIVE: without the common NaN mask additivity FAILS.  Scores 2, 4; w₁ = (1, 1), w₂ = (NaN, 1):
    w₁+w₂ = (NaN, 2) gives 8, but w₁ gives 3 and w₂ gives 4. -/
theorem nanmean_add_nan_weights_needs_mask :
    ∃ l : List CaseN,
      nanmean (weightedF (fun t => Fl.add (ofOpt t.2.1) (ofOpt t.2.2)) l) ≠
        Fl.add (nanmean (weightedF (fun t => ofOpt t.2.1) l)) (nanmean (weightedF (fun t => ofOpt t.2.2) l)) :=
  ⟨[(some 2, some 1, none), (some 4, some 1, some 1)], by decide +kernel⟩

/-- homogeneity with NaN weights: a constant factor c on the weights scales the aggregate by c (no hypothesis:
    c·w has the NaN mask of w) -/
theorem nanmean_smul_nan_weights (c : Rat) (l : List CaseN) :
    nanmean (weightedF (fun t => Fl.mul (fin c) (ofOpt t.2.1)) l) =
      Fl.mul (fin c) (nanmean (weightedF (fun t => ofOpt t.2.1) l)) := by
  simp only [smul_ofOpt, nanmean_nan_weights]
  have e := both_smul_length c l
  by_cases h : both (fun t => t.2.1) l = []
  · have h1 : both (fun t => t.2.1.map (c * ·)) l = [] := by
      rw [← List.length_eq_zero_iff, e, h]; rfl
    simp [h, h1]
  · have h1 : both (fun t => t.2.1.map (c * ·)) l ≠ [] := by
      intro h'; apply h; rw [← List.length_eq_zero_iff, ← e, h']; rfl
    simp only [h, h1, if_false, mul_fin]
    congr 1
    rw [both_smul_sum, e]
    ring

/-- finite weights are the special case: `weighted` of the first part is `weightedF` with `fin` weights -/
theorem weighted_eq_weightedF (g : Case3 → Rat) (l : List Case3) :
    weighted g l = weightedF (fun t => ofOpt t.2.1) (l.map fun t => (t.1, some (g t), none)) := by
  simp [weighted, weightedF, List.map_map, Function.comp_def]

end NanWeights

end SV.Props.C03
