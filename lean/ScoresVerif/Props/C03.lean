/-
  C03 — weights act as a pointwise multiplier of per-case scores before averaging.
  Every weight-accepting score is `scoreEval p (some w) R` = NaN-skipping mean over R of (p · w by name)
  (shown for the implementation by the C01/C03 correspondence); the laws below are proved for that form,
  for lists of any length.
-/
import ScoresVerif.Model.Arr
import ScoresVerif.Lemmas.NanMean
import Mathlib.Tactic.FieldSimp
import Mathlib.Tactic.Ring

namespace SV.Props.C03
open SV SV.Fl

/-- unit weights change nothing (for every value incl. NaN and ±inf) -/
theorem mul_one (x : Fl) : Fl.mul x (fin 1) = x := by
  cases x <;> simp [Fl.mul]

/-- the mean over a one-element fibre is that element: with preserve_dims='all' nothing is averaged -/
theorem nanmean_singleton (x : Fl) : nanmean [x] = x := by
  cases x <;> simp [nanmean, valid, notNan, isNan, fsum, Fl.ofNat, Fl.add, Fl.div]

/-- preserve_dims='all' with weights w = w × the unweighted pointwise result -/
theorem weighted_pointwise (s w : Fl) : nanmean [Fl.mul s w] = Fl.mul s w := nanmean_singleton _

/-- a case: per-case score (possibly missing) and two finite weights -/
abbrev Case3 := Option Rat × Rat × Rat

def weighted (g : Case3 → Rat) (l : List Case3) : List Fl :=
  l.map fun t => Fl.mul (ofOpt t.1) (fin (g t))

theorem weighted_eq (g : Case3 → Rat) (l : List Case3) :
    weighted g l = (l.map fun t => t.1.map (· * g t)).map ofOpt := by
  unfold weighted
  rw [List.map_map]
  apply List.map_congr_left
  intro t _
  rcases t with ⟨s, w1, w2⟩
  cases s <;> simp [ofOpt]

theorem present_weighted_length (g : Case3 → Rat) (l : List Case3) :
    (present (l.map fun t => t.1.map (· * g t))).length = (present (l.map fun t => t.1)).length := by
  induction l with
  | nil => rfl
  | cons t l ih =>
    rcases t with ⟨s, w1, w2⟩
    cases s <;> simp_all [present]

theorem present_weighted_sum_add (g h : Case3 → Rat) (l : List Case3) :
    (present (l.map fun t => t.1.map (· * (g t + h t)))).sum =
    (present (l.map fun t => t.1.map (· * g t))).sum + (present (l.map fun t => t.1.map (· * h t))).sum := by
  induction l with
  | nil => simp [present]
  | cons t l ih =>
    rcases t with ⟨s, w1, w2⟩
    cases s with
    | none => simpa [present] using ih
    | some v => simp only [present, List.map_cons, List.filterMap_cons, Option.map_some, id, List.sum_cons] at *; rw [ih]; ring

theorem present_weighted_sum_smul (c : Rat) (g : Case3 → Rat) (l : List Case3) :
    (present (l.map fun t => t.1.map (· * (c * g t)))).sum = c * (present (l.map fun t => t.1.map (· * g t))).sum := by
  induction l with
  | nil => simp [present]
  | cons t l ih =>
    rcases t with ⟨s, w1, w2⟩
    cases s with
    | none => simpa [present] using ih
    | some v => simp only [present, List.map_cons, List.filterMap_cons, Option.map_some, id, List.sum_cons] at *; rw [ih]; ring

theorem present_empty_iff (g : Case3 → Rat) (l : List Case3) :
    present (l.map fun t => t.1.map (· * g t)) = [] ↔ present (l.map fun t => t.1) = [] := by
  rw [← List.length_eq_zero_iff, ← List.length_eq_zero_iff, present_weighted_length]

/-- aggregated scores are additive in the weights: weights w₁ + w₂ give the sum of the two results
    (same cases valid in all three, since validity comes from the per-case score) -/
theorem nanmean_add_weights (l : List Case3) :
    nanmean (weighted (fun t => t.2.1 + t.2.2) l) =
      Fl.add (nanmean (weighted (fun t => t.2.1) l)) (nanmean (weighted (fun t => t.2.2) l)) := by
  simp only [weighted_eq, nanmean_ofOpt]
  by_cases h : present (l.map fun t => t.1) = []
  · simp [(present_empty_iff _ l).mpr h]
  · have h1 := (present_empty_iff (fun t => t.2.1 + t.2.2) l).not.mpr h
    have h2 := (present_empty_iff (fun t => t.2.1) l).not.mpr h
    have h3 := (present_empty_iff (fun t => t.2.2) l).not.mpr h
    simp only [h1, h2, h3, if_false, add_fin]
    congr 1
    rw [present_weighted_sum_add, present_weighted_length, present_weighted_length (fun t => t.2.1),
      present_weighted_length (fun t => t.2.2)]
    ring

/-- a constant factor c on the weights scales the aggregated score by c -/
theorem nanmean_smul_weights (c : Rat) (l : List Case3) :
    nanmean (weighted (fun t => c * t.2.1) l) = Fl.mul (fin c) (nanmean (weighted (fun t => t.2.1) l)) := by
  simp only [weighted_eq, nanmean_ofOpt]
  by_cases h : present (l.map fun t => t.1) = []
  · simp [(present_empty_iff _ l).mpr h]
  · have h1 := (present_empty_iff (fun t => c * t.2.1) l).not.mpr h
    have h2 := (present_empty_iff (fun t => t.2.1) l).not.mpr h
    simp only [h1, h2, if_false, mul_fin]
    congr 1
    rw [present_weighted_sum_smul, present_weighted_length, present_weighted_length (fun t => t.2.1)]
    ring

/-- unit weights: the weighted aggregate is the unweighted one -/
theorem nanmean_unit_weights (l : List Case3) :
    nanmean (weighted (fun _ => 1) l) = nanmean (l.map fun t => ofOpt t.1) := by
  unfold weighted
  congr 1
  apply List.map_congr_left
  intro t _; exact mul_one _

/-- ratio scores (POD, POFD, multiplicative bias, percent bias, hence ROC) are quotients of two weighted
    sums; a positive constant weight cancels — including every zero-denominator case -/
theorem ratio_invariant (c a b : Rat) (hc : 0 < c) :
    Fl.div (fin (c * a)) (fin (c * a + c * b)) = Fl.div (fin a) (fin (a + b)) := by
  have hc' : c ≠ 0 := hc.ne'
  have e : c * a + c * b = c * (a + b) := by ring
  rw [e]
  by_cases hd : a + b = 0
  · by_cases ha : a = 0
    · have hb : b = 0 := by rw [ha] at hd; simpa using hd
      simp [Fl.div, ha, hb]
    · have hca : c * a ≠ 0 := mul_ne_zero hc' ha
      have : (c * a < 0) ↔ (a < 0) := by
        constructor
        · intro h; by_contra h'; have h'' : 0 ≤ a := not_lt.mp h'; nlinarith
        · intro h; nlinarith
      simp [Fl.div, hd, ha, hca, this]
  · have : c * (a + b) ≠ 0 := mul_ne_zero hc' hd
    rw [div_fin _ _ this, div_fin _ _ hd]
    congr 1
    field_simp

/-! Non-vacuity: three cases, one missing -/
example : nanmean (weighted (fun t => t.2.1 + t.2.2) [(some 2, 1, 3), (none, 5, 5), (some 4, 2, 0)]) = fin 8 := by
  decide +kernel

end SV.Props.C03
