/-
  C01 — every score reduces exactly the dimensions asked for.
  Part 1: the dimension-resolution rule itself (`gather_dimensions`), for every universe of names.
-/
import ScoresVerif.Model.Dims
import Mathlib.Tactic.SplitIfs
import Mathlib.Tactic.Tauto

namespace SV.Props.C01
open SV.Dims

theorem mem_union {a b : List String} {x : String} : x ∈ union a b ↔ x ∈ a ∨ x ∈ b := by
  unfold union
  simp only [List.mem_append, List.mem_filter, Bool.not_eq_true', List.contains_eq_mem, decide_eq_false_iff_not]
  tauto

theorem mem_diff {a b : List String} {x : String} : x ∈ diff a b ↔ x ∈ a ∧ x ∉ b := by
  unfold diff; simp

theorem mem_inter {a b : List String} {x : String} : x ∈ inter a b ↔ x ∈ a ∧ x ∈ b := by
  unfold inter; simp

theorem subset_iff {a b : List String} : subset a b = true ↔ ∀ x ∈ a, x ∈ b := by
  unfold subset; simp

@[simp] theorem subset_nil (b : List String) : subset [] b = true := by simp [subset]
@[simp] theorem inter_nil (b : List String) : inter [] b = [] := by simp [inter]
theorem inter_eq_nil {a b : List String} : inter a b = [] ↔ ∀ x ∈ a, x ∉ b := by
  unfold inter; simp [List.filter_eq_nil_iff]
theorem subset_false_iff {a b : List String} : subset a b = false ↔ ¬ ∀ x ∈ a, x ∈ b := by
  rw [← subset_iff]; simp

theorem gather_weights_none (fcst obs : List String) (reduce preserve specific : DimSpec) :
    gather fcst obs none reduce preserve specific = gather fcst obs (some []) reduce preserve specific := by
  simp [gather, union, inter]

theorem resolve_weights_none (fcst obs : List String) (reduce preserve specific : DimSpec) :
    Spec.resolve fcst obs none reduce preserve specific = Spec.resolve fcst obs (some []) reduce preserve specific := by
  simp [Spec.resolve]

theorem sameOutcome_refl (r : Except Err (List String)) : sameOutcome r r := by
  cases r <;> simp [sameOutcome]

/-- naming both options is an error (before anything else is looked at) -/
theorem both_is_error (fcst obs : List String) (weights : Option (List String)) (reduce preserve specific : DimSpec)
    (hr : reduce ≠ DimSpec.none) (hp : preserve ≠ DimSpec.none) :
    gather fcst obs weights reduce preserve specific = Except.error Err.both := by
  cases reduce <;> cases preserve <;> simp_all [gather, DimSpec.isNone]

theorem both_is_error_spec (fcst obs : List String) (weights : Option (List String)) (reduce preserve specific : DimSpec)
    (hr : reduce ≠ DimSpec.none) (hp : preserve ≠ DimSpec.none) :
    Spec.resolve fcst obs weights reduce preserve specific = Except.error Err.both := by
  cases reduce <;> cases preserve <;> simp_all [Spec.resolve, DimSpec.isNone]

theorem gather_eq_spec_reduce (fcst obs w : List String) (reduce specific : DimSpec) (hr : wellFormed reduce = true) :
    sameOutcome (gather fcst obs (some w) reduce DimSpec.none specific)
                (Spec.resolve fcst obs (some w) reduce DimSpec.none specific) := by
  cases reduce <;> cases specific <;>
    simp [gather, Spec.resolve, DimSpec.isNone, DimSpec.truthy, DimSpec.asList, Spec.named, wellFormed] at * <;>
    (try split_ifs) <;> (try simp_all [sameOutcome, mem_union, mem_diff, mem_inter, subset_iff, subset_false_iff])

theorem gather_eq_spec_preserve_all (fcst obs w : List String) (specific : DimSpec) :
    sameOutcome (gather fcst obs (some w) DimSpec.none DimSpec.all specific)
                (Spec.resolve fcst obs (some w) DimSpec.none DimSpec.all specific) := by
  cases specific <;>
    simp [gather, Spec.resolve, DimSpec.isNone, DimSpec.truthy, DimSpec.asList, Spec.named, wellFormed] at * <;>
    (try split_ifs) <;> (try simp_all [sameOutcome, mem_union, mem_diff, mem_inter, subset_iff, subset_false_iff])

theorem gather_eq_spec_preserve_str (fcst obs w : List String) (s : String) (specific : DimSpec)
    (hp : wellFormed (DimSpec.str s) = true) :
    sameOutcome (gather fcst obs (some w) DimSpec.none (DimSpec.str s) specific)
                (Spec.resolve fcst obs (some w) DimSpec.none (DimSpec.str s) specific) := by
  cases specific <;>
    simp [gather, Spec.resolve, DimSpec.isNone, DimSpec.truthy, DimSpec.asList, Spec.named, wellFormed] at * <;>
    (try split_ifs) <;> (try simp_all [sameOutcome, mem_union, mem_diff, mem_inter, subset_iff, subset_false_iff])

theorem gather_eq_spec_preserve_list (fcst obs w l : List String) (specific : DimSpec) :
    sameOutcome (gather fcst obs (some w) DimSpec.none (DimSpec.list l) specific)
                (Spec.resolve fcst obs (some w) DimSpec.none (DimSpec.list l) specific) := by
  cases specific <;> cases l <;>
    simp [gather, Spec.resolve, DimSpec.isNone, DimSpec.truthy, DimSpec.asList, Spec.named, wellFormed] at * <;>
    (try split_ifs) <;> (try simp_all [sameOutcome, mem_union, mem_diff, mem_inter, subset_iff, subset_false_iff])

/-- the model of `gather_dimensions` follows the resolution rule for EVERY list of names
    (no bound on the universe) and every well-formed request -/
theorem gather_eq_spec (fcst obs : List String) (weights : Option (List String))
    (reduce preserve specific : DimSpec) (hr : wellFormed reduce = true) (hp : wellFormed preserve = true) :
    sameOutcome (gather fcst obs weights reduce preserve specific)
                (Spec.resolve fcst obs weights reduce preserve specific) := by
  have key : ∀ w, sameOutcome (gather fcst obs (some w) reduce preserve specific)
                (Spec.resolve fcst obs (some w) reduce preserve specific) := by
    intro w
    by_cases hp0 : preserve = DimSpec.none
    · subst hp0; exact gather_eq_spec_reduce fcst obs w reduce specific hr
    · by_cases hr0 : reduce = DimSpec.none
      · subst hr0
        cases preserve with
        | none => exact absurd rfl hp0
        | all => exact gather_eq_spec_preserve_all fcst obs w specific
        | str s => exact gather_eq_spec_preserve_str fcst obs w s specific hp
        | list l => exact gather_eq_spec_preserve_list fcst obs w l specific
      · rw [both_is_error _ _ _ _ _ _ hr0 hp0, both_is_error_spec _ _ _ _ _ _ hr0 hp0]
        exact sameOutcome_refl _
  cases weights with
  | none => rw [gather_weights_none, resolve_weights_none]; exact key []
  | some w => exact key w

/-! ### Consequences stated for the model of the code itself -/

/-- omitting both options is the same as `reduce_dims='all'` -/
theorem none_eq_all (fcst obs : List String) (weights : Option (List String)) (specific : DimSpec) :
    gather fcst obs weights DimSpec.none DimSpec.none specific
      = gather fcst obs weights DimSpec.all DimSpec.none specific := by
  cases weights <;> cases specific <;> simp [gather, DimSpec.isNone, DimSpec.truthy, DimSpec.asList]

/-- a single dimension may be named by a plain string -/
theorem str_eq_singleton (fcst obs : List String) (weights : Option (List String)) (specific : DimSpec) (s : String)
    (hs : s ≠ "" ∧ s ≠ "all") :
    gather fcst obs weights (DimSpec.str s) DimSpec.none specific
      = gather fcst obs weights (DimSpec.list [s]) DimSpec.none specific ∧
    gather fcst obs weights DimSpec.none (DimSpec.str s) specific
      = gather fcst obs weights DimSpec.none (DimSpec.list [s]) specific := by
  obtain ⟨h1, h2⟩ := hs
  constructor <;> cases weights <;> cases specific <;>
    simp [gather, DimSpec.isNone, DimSpec.truthy, DimSpec.asList, h1, h2]

/-- reduce_dims = R and preserve_dims = (scoring dims ∖ R) select the same set, for every R inside the
    scoring dimensions (data dimensions minus the score-specific ones) -/
theorem reduce_preserve_dual (fcst obs w R : List String) (specific : DimSpec)
    (hR : ∀ x ∈ R, x ∈ diff (union (union fcst obs) w) (if specific.isNone then [] else specific.asList)) :
    sameOutcome
      (gather fcst obs (some w) (DimSpec.list R) DimSpec.none specific)
      (gather fcst obs (some w) DimSpec.none
        (DimSpec.list (diff (diff (union (union fcst obs) w) (if specific.isNone then [] else specific.asList)) R)) specific) := by
  have e1 := gather_eq_spec fcst obs (some w) (DimSpec.list R) DimSpec.none specific rfl rfl
  have e2 := gather_eq_spec fcst obs (some w) DimSpec.none
    (DimSpec.list (diff (diff (union (union fcst obs) w) (if specific.isNone then [] else specific.asList)) R)) specific rfl rfl
  revert e1 e2
  generalize gather fcst obs (some w) (DimSpec.list R) DimSpec.none specific = g1
  generalize gather fcst obs (some w) DimSpec.none _ specific = g2
  cases specific <;>
    simp [Spec.resolve, DimSpec.isNone, DimSpec.asList, Spec.named] at * <;>
    (try split_ifs) <;>
    (intro e1 e2; cases g1 <;> cases g2 <;>
      simp_all [sameOutcome, mem_union, mem_diff, mem_inter, subset_iff, subset_false_iff, inter_eq_nil]) <;>
    (try (intro x; have := hR x; tauto)) <;>
    (try (obtain ⟨x, hx1, hx2⟩ := ‹∃ x, _›; have := hR x; tauto))

/-- a named dimension that is not in the data is an error, never a number -/
theorem absent_dim_is_error (fcst obs : List String) (weights : Option (List String)) (req : DimSpec)
    (x : String) (hx : x ∈ Spec.named req) (hreq : wellFormed req = true)
    (hnot : x ∉ union (union fcst obs) (weights.getD [])) :
    (∃ e, gather fcst obs weights req DimSpec.none DimSpec.none = Except.error e) ∧
    (∃ e, gather fcst obs weights DimSpec.none req DimSpec.none = Except.error e) := by
  have e1 := gather_eq_spec fcst obs weights req DimSpec.none DimSpec.none hreq rfl
  have e2 := gather_eq_spec fcst obs weights DimSpec.none req DimSpec.none rfl hreq
  have hsub : subset (Spec.named req) (union (union fcst obs) (weights.getD [])) = false := by
    rw [subset_false_iff]; intro h; exact hnot (h x hx)
  constructor
  · revert e1
    generalize gather fcst obs weights req DimSpec.none DimSpec.none = g
    cases req <;> simp_all [Spec.resolve, DimSpec.isNone, Spec.named, sameOutcome] <;>
      (cases g <;> simp_all [sameOutcome])
  · revert e2
    generalize gather fcst obs weights DimSpec.none req DimSpec.none = g
    cases req <;> simp_all [Spec.resolve, DimSpec.isNone, Spec.named, sameOutcome] <;>
      (cases g <;> simp_all [sameOutcome])

/-- score-specific dimensions (ensemble member, CDF threshold, severity, FSS spatial pair) never survive:
    whenever the request is not an explicit reduce list, every scoring dimension that is not preserved is
    reduced, and the score-specific ones are not among the dims handed to the mean (the score removes them itself) -/
theorem specific_never_in_result (fcst obs : List String) (weights : Option (List String))
    (reduce preserve specific : DimSpec) (hs : specific ≠ DimSpec.none)
    (hr : wellFormed reduce = true) (hp : wellFormed preserve = true)
    (res : List String) (hres : gather fcst obs weights reduce preserve specific = Except.ok res) :
    ∀ x ∈ res, x ∉ specific.asList := by
  have e := gather_eq_spec fcst obs weights reduce preserve specific hr hp
  rw [hres] at e
  cases weights <;> cases reduce <;> cases preserve <;> cases specific <;>
    simp [Spec.resolve, DimSpec.isNone, DimSpec.asList, Spec.named] at * <;>
    (try split_ifs at e) <;>
    simp_all [sameOutcome, mem_union, mem_diff, mem_inter, subset_iff, subset_false_iff, inter_eq_nil] <;>
    (try (intro x hx; have := e x; simp_all)) <;>
    (try (intro h; subst h; simp_all))

/-- every reduced dimension is a dimension of the data -/
theorem result_subset_data (fcst obs : List String) (weights : Option (List String))
    (reduce preserve specific : DimSpec) (hr : wellFormed reduce = true) (hp : wellFormed preserve = true)
    (res : List String) (hres : gather fcst obs weights reduce preserve specific = Except.ok res) :
    ∀ x ∈ res, x ∈ union (union fcst obs) (weights.getD []) := by
  have e := gather_eq_spec fcst obs weights reduce preserve specific hr hp
  rw [hres] at e
  cases weights <;> cases reduce <;> cases preserve <;> cases specific <;>
    simp [Spec.resolve, DimSpec.isNone, DimSpec.asList, Spec.named] at * <;>
    (try split_ifs at e) <;>
    simp_all [sameOutcome, mem_union, mem_diff, mem_inter, subset_iff, subset_false_iff, inter_eq_nil] <;>
    (try (intro x hx; have := e x; simp_all)) <;> (try tauto)

/-! Non-vacuity: concrete requests on a 4-name universe meet the hypotheses and exercise both branches. -/
example : gather ["a", "b", "m"] ["a", "c"] (some ["b"]) (DimSpec.list ["a"]) DimSpec.none (DimSpec.str "m")
    = Except.ok ["a"] := by rfl
example : gather ["a", "b", "m"] ["a", "c"] (some ["b"]) DimSpec.none (DimSpec.list ["b", "c"]) (DimSpec.str "m")
    = Except.ok ["a"] := by rfl
example : gather ["a", "b", "m"] ["a", "c"] Option.none (DimSpec.str "z") DimSpec.none DimSpec.none
    = Except.error Err.absent := by rfl
example : gather ["a", "b", "m"] ["a", "c"] Option.none (DimSpec.list ["m"]) DimSpec.none (DimSpec.str "m")
    = Except.error Err.specific := by rfl
example : gather ["a"] ["a"] Option.none DimSpec.all DimSpec.all DimSpec.none = Except.error Err.both := by rfl

end SV.Props.C01
