/-
  C01, part 2 — the generic score combinator on labelled arrays: which dimensions the result carries and
  what value sits at each kept label (every mean-type score is tied to this form by the registry sweep).
-/
import ScoresVerif.Lemmas.Arr

namespace SV.Props.C01Arr

/-! ### The generic score combinator (`SV.scoreEval`: NaN-skipping mean over R of per-case values × weights) -/

/-- the result carries exactly the dimensions of the (weighted) per-case array that were not reduced -/
theorem score_result_dims (p : SV.Arr) (R : List String) (h : p.dims.length = p.shape.length) (d : String) :
    d ∈ (SV.scoreEval p none R).dims ↔ d ∈ p.dims ∧ d ∉ R :=
  SV.Arr.mem_reduceOver_dims SV.nanmean R p h d

/-- and its value at every kept label is the NaN-skipping mean of the per-case values over the reduced dims -/
theorem score_value_is_nanmean_of_fibre (p : SV.Arr) (R : List String) (asg : SV.Asg)
    (hr : SV.Arr.InRange (SV.Arr.keptDims R p) (SV.Arr.keptShape R p) asg) :
    (SV.scoreEval p none R).get asg =
      SV.nanmean ((SV.Arr.assignments (SV.Arr.goneDims R p) (SV.Arr.goneShape R p)).map
        fun r => p.get (SV.Arr.restrict (SV.Arr.keptDims R p) asg ++ r)) :=
  SV.Arr.reduceOver_get SV.nanmean R p asg hr

/-! Non-vacuity -/
example : SV.Arr.InRange ["a"] [2] [("a", 1), ("b", 0)] := by
  refine ⟨by decide, trivial⟩

end SV.Props.C01Arr
