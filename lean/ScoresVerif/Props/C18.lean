/-
  C18 — the flip-flop index is total variation minus range: non-negative, shift-invariant.

  Theorems about the model `SV.Model.FlipFlop` of src/scores/continuous/flip_flop_impl.py (its pointwise pieces —
  `angular_difference`, the linear successive change, the range, the cap at 180 and the normalisation tail — are the
  definitions REGENERATED from /repo on every run, `SV.Gen.FlipFlop`) versus the exact-rational spec `SV.Spec.FlipFlop`.
  All statements are for sequences of arbitrary length ≥ 3.
-/
import ScoresVerif.Lemmas.FlipFlop

namespace SV.Props.C18
open SV SV.Fl SV.Model.FlipFlop
open SV.Spec.FlipFlop (tv maxL minL angDiff tvAng arc coverFrom sector ffiAng)

/-! ## 1. Linear data -/

/-- the model of `_flip_flop_index` on a finite sequence is (Σ|x_{i+1} − x_i| − (max − min)) / (N − 2) -/
theorem ffi_formula (xs : List Rat) (hn : 3 ≤ xs.length) :
    ffiLinear (xs.map fin) = fin ((tv xs - (maxL xs - minL xs)) / ((xs.length : Rat) - 2)) :=
  ffiLinear_fin xs hn

example : 3 ≤ ([50, 20, 40, 80] : List Rat).length := by decide
/-- the docstring example: 50, 20, 40, 80 has index 15 -/
theorem ffi_docstring_example : ffiLinear ([50, 20, 40, 80].map fun q : Rat => fin q) = fin 15 := by decide +kernel

/-- non-negative -/
theorem ffi_nonneg (xs : List Rat) (hn : 3 ≤ xs.length) : 0 ≤ SV.Spec.FlipFlop.ffi xs :=
  SV.Spec.FlipFlop.ffi_nonneg xs hn

/-- zero for monotone sequences (telescoping), in either direction -/
theorem ffi_monotone_zero (xs : List Rat) (h : List.IsChain (· ≤ ·) xs ∨ List.IsChain (· ≥ ·) xs) :
    SV.Spec.FlipFlop.ffi xs = 0 := by
  rcases h with h | h
  · exact SV.Spec.FlipFlop.ffi_nondecreasing_zero xs h
  · exact SV.Spec.FlipFlop.ffi_nonincreasing_zero xs h

example : List.IsChain (· ≤ ·) ([1, 1, 2, 5] : List Rat) := by decide

/-- zero EXACTLY for monotone sequences: index 0 forces the sequence to be monotone -/
theorem ffi_zero_iff_monotone (xs : List Rat) (hn : 3 ≤ xs.length) :
    SV.Spec.FlipFlop.ffi xs = 0 ↔ (List.IsChain (· ≤ ·) xs ∨ List.IsChain (· ≥ ·) xs) :=
  ⟨SV.Spec.FlipFlop.monotone_of_ffi_zero xs hn, ffi_monotone_zero xs⟩

example : 3 ≤ ([5, 2, 2, 1] : List Rat).length := by decide

/-- unchanged by adding a constant -/
theorem ffi_shift (c : Rat) (xs : List Rat) : SV.Spec.FlipFlop.ffi (xs.map (· + c)) = SV.Spec.FlipFlop.ffi xs :=
  SV.Spec.FlipFlop.ffi_shift c xs
/-- unchanged by negation -/
theorem ffi_negate (xs : List Rat) : SV.Spec.FlipFlop.ffi (xs.map fun x => -x) = SV.Spec.FlipFlop.ffi xs :=
  SV.Spec.FlipFlop.ffi_negate xs
/-- unchanged by reversal -/
theorem ffi_reverse (xs : List Rat) : SV.Spec.FlipFlop.ffi xs.reverse = SV.Spec.FlipFlop.ffi xs :=
  SV.Spec.FlipFlop.ffi_reverse xs
/-- scales with |c| -/
theorem ffi_scale (c : Rat) (xs : List Rat) : SV.Spec.FlipFlop.ffi (xs.map fun x => c * x) = |c| * SV.Spec.FlipFlop.ffi xs :=
  SV.Spec.FlipFlop.ffi_scale c xs

/-- the same four laws for the MODEL of the code (through the formula) -/
theorem model_invariances (c : Rat) (xs : List Rat) (hn : 3 ≤ xs.length) :
    ffiLinear ((xs.map (· + c)).map fin) = ffiLinear (xs.map fin) ∧
    ffiLinear ((xs.map fun x => -x).map fin) = ffiLinear (xs.map fin) ∧
    ffiLinear (xs.reverse.map fin) = ffiLinear (xs.map fin) ∧
    ffiLinear ((xs.map fun x => c * x).map fin) = fin (|c| * SV.Spec.FlipFlop.ffi xs) := by
  refine ⟨?_, ?_, ?_, ?_⟩
  · rw [ffiLinear_fin _ (by simpa using hn), ffiLinear_fin _ hn, SV.Spec.FlipFlop.ffi_shift]
  · rw [ffiLinear_fin _ (by simpa using hn), ffiLinear_fin _ hn, SV.Spec.FlipFlop.ffi_negate]
  · rw [ffiLinear_fin _ (by simpa using hn), ffiLinear_fin _ hn, SV.Spec.FlipFlop.ffi_reverse]
  · rw [ffiLinear_fin _ (by simpa using hn), SV.Spec.FlipFlop.ffi_scale]

/-- NaN iff the sequence contains a NaN (skip-NaN sum, but `skipna=False` range) -/
theorem ffi_nan_iff (xs : List Fl) (hfin : ∀ x ∈ xs, x = Fl.nan ∨ ∃ q, x = fin q) (hn : 3 ≤ xs.length) :
    ffiLinear xs = Fl.nan ↔ Fl.nan ∈ xs :=
  ffiLinear_nan_iff xs hfin hn

example : (∀ x ∈ [fin 1, Fl.nan, fin 2], x = Fl.nan ∨ ∃ q, x = fin q) ∧ 3 ≤ [fin 1, Fl.nan, fin 2].length := by
  refine ⟨?_, by decide⟩
  intro x hx
  simp only [List.mem_cons, List.not_mem_nil, or_false] at hx
  rcases hx with rfl | rfl | rfl
  · exact Or.inr ⟨1, rfl⟩
  · exact Or.inl rfl
  · exact Or.inr ⟨2, rfl⟩

/-! ## 2. Selections and proportion exceeding -/

/-- a selection gives the index of the selected sub-sequence (values in the order requested), normalised by ITS length -/
theorem selection_is_subsequence_index (ang : Bool) (coords : List Int) (xs : List Fl) (vals : List Int) (ys : List Fl)
    (h : select coords xs vals = some ys) :
    ffiSelection ang coords xs vals = some (ffi ang ys) ∧ ys.length = vals.length := by
  refine ⟨by simp [ffiSelection, h], ?_⟩
  induction vals generalizing ys with
  | nil => simp [select] at h; simp [← h]
  | cons v vs ih =>
    unfold select at h
    split at h
    · rename_i x r _ hr
      simp only [Option.some.injEq] at h
      rw [← h, List.length_cons, List.length_cons, ih r hr]
    · exact absurd h (by simp)

/-- proportion exceeding is the fraction of the valid (non-NaN) indices at or above the threshold -/
theorem proportion_exceeding_is_fraction (vs : List (Option Rat)) (t : Rat) :
    proportionExceeding (vs.map optFl) (fin t) = optFl (SV.Spec.FlipFlop.proportion vs t) :=
  proportionExceeding_eq vs t

/-! ## 3. Directional data -/

/-- successive changes are circular differences -/
theorem angular_difference_is_circular (a b : Rat) :
    SV.Gen.FlipFlop.angular_difference (fin a) (fin b) = fin (angDiff a b) := angular_difference_fin a b

/-- the directional index, given the value S returned by the sector routine: range = S capped at 180 -/
theorem ffi_angular_formula (xs : List Rat) (S : Rat) (hn : 3 ≤ xs.length) (hS : sectorNp false (xs.map fin) = fin S) :
    ffiAngular (xs.map fin) = fin ((tvAng xs - (if S ≤ 180 then S else 180)) / ((xs.length : Rat) - 2)) :=
  ffiAngular_fin xs S hn hS

example : 3 ≤ ([350, 10, 100] : List Rat).length ∧
    sectorNp false (([350, 10, 100] : List Rat).map fin) = fin 110 := by
  constructor <;> decide +kernel

/-- the smallest covering sector is invariant under rotating all directions -/
theorem sector_rotation (xs : List Rat) (c : Rat) : sector (xs.map (· + c)) = sector xs :=
  SV.Spec.FlipFlop.sector_rotate xs c

/-- so the directional index is invariant under rotating all directions -/
theorem ffiAng_rotation (xs : List Rat) (c : Rat) : ffiAng (xs.map (· + c)) = ffiAng xs :=
  SV.Spec.FlipFlop.ffiAng_rotate xs c

/- The former stretch statements

     sector_model_eq_spec_stmt (xs : List Rat) (hne : xs ≠ []) : sectorNp false (xs.map fin) = fin (sector xs)
     sector_eq_gap_stmt (xs : List Rat) (hne : xs ≠ []) : sector xs = SV.Spec.FlipFlop.sectorGap xs

   are PROVED in Props/C18Sector.lean (`sector_model_eq_spec`, `sector_eq_gap`), together with the unconditional
   closed form and the rotation invariance of the MODEL of the directional index (`ffi_angular_closed_form`,
   `ffi_angular_rotation`). -/

end SV.Props.C18
