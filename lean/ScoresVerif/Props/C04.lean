/-
  C04 — results depend on labelled values only.  What a theorem can carry here: in the model every score is
  (a) a per-case kernel applied label by label and (b) a NaN-skipping reduction of the fibre of per-case values.
  Storage order of the cases (transposition, coordinate order, chunk boundaries) only permutes that fibre, so
  the statements are: (a) mapping a kernel commutes with any permutation of the cases, (b) the reductions are
  invariant under any permutation.  Scheduler, laziness and non-mutation are runtime behaviour: observed by the
  variant fan-out of the harness, not proved (DESIGN §6/C04).
-/
import ScoresVerif.Model.Fl
import ScoresVerif.Lemmas.FlBasic
import Mathlib.Data.List.Perm.Basic

namespace SV.Props.C04
open SV SV.Fl

theorem valid_perm {l₁ l₂ : List Fl} (h : l₁.Perm l₂) : (valid l₁).Perm (valid l₂) := h.filter _

instance : RightCommutative Fl.add := ⟨fun a b c => by
  rw [Fl.add_assoc, Fl.add_comm b c, ← Fl.add_assoc]⟩

theorem fsum_perm {l₁ l₂ : List Fl} (h : l₁.Perm l₂) : fsum l₁ = fsum l₂ := by
  unfold fsum
  exact List.Perm.foldl_eq h _

/-- the NaN-skipping mean, sum and count do not depend on the order in which the cases are stored -/
theorem nanmean_perm {l₁ l₂ : List Fl} (h : l₁.Perm l₂) : nanmean l₁ = nanmean l₂ := by
  unfold nanmean
  have hv := valid_perm h
  have hl : (valid l₁).length = (valid l₂).length := hv.length_eq
  have he : (valid l₁).isEmpty = (valid l₂).isEmpty := by
    cases h1 : valid l₁ <;> cases h2 : valid l₂ <;> simp_all
  simp only [he, fsum_perm hv, hl]

theorem nansum_perm {l₁ l₂ : List Fl} (h : l₁.Perm l₂) : nansum l₁ = nansum l₂ := by
  unfold nansum; exact fsum_perm (valid_perm h)

theorem count_perm {l₁ l₂ : List Fl} (h : l₁.Perm l₂) : count l₁ = count l₂ := by
  unfold count; exact (valid_perm h).length_eq

/-- a per-case kernel applied label by label commutes with any re-ordering of the labelled cases:
    permuting the (forecast, observation, weight) triples permutes the per-case scores the same way -/
theorem kernel_perm {α : Type} (k : α → Fl) {c₁ c₂ : List α} (h : c₁.Perm c₂) : (c₁.map k).Perm (c₂.map k) :=
  h.map k

/-- hence every aggregate `nanmean (cases.map kernel)` is a function of the multiset of labelled cases -/
theorem aggregate_layout_invariant {α : Type} (k : α → Fl) {c₁ c₂ : List α} (h : c₁.Perm c₂) :
    nanmean (c₁.map k) = nanmean (c₂.map k) := nanmean_perm (kernel_perm k h)

/-! Non-vacuity -/
example : nanmean [fin 1, nan, fin 3] = nanmean [nan, fin 3, fin 1] :=
  nanmean_perm (by decide)

end SV.Props.C04
