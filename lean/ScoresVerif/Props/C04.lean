/-
  C04 — results depend on labelled values only.  What a theorem can carry here: in the model every score is
  (a) a per-case kernel applied label by label and (b) a NaN-skipping reduction of the fibre of per-case values.
  Storage order of the cases (transposition, coordinate order, chunk boundaries) only permutes that fibre, so
  the statements are: (a) mapping a kernel commutes with any permutation of the cases, (b) the reductions are
  invariant under any permutation.  Scheduler, laziness and non-mutation are runtime behaviour: observed by the
  variant fan-out of the harness, not proved (DESIGN §6/C04).
-/
import ScoresVerif.Model.Fl
import ScoresVerif.Lemmas.FlBasic
import ScoresVerif.Lemmas.Arr
import Mathlib.Data.List.Perm.Basic

namespace SV.Props.C04
open SV SV.Fl

theorem valid_perm {l₁ l₂ : List Fl} (h : l₁.Perm l₂) : (valid l₁).Perm (valid l₂) := h.filter _

instance : RightCommutative Fl.add := ⟨fun a b c => by
  rw [Fl.add_assoc, Fl.add_comm b c, ← Fl.add_assoc]⟩

theorem fsum_perm {l₁ l₂ : List Fl} (h : l₁.Perm l₂) : fsum l₁ = fsum l₂ := by
  unfold fsum
  exact List.Perm.foldl_eq h _

/-- the NaN-skipping mean, sum and count do not depend on the order in which the cases are stored -/
theorem nanmean_perm {l₁ l₂ : List Fl} (h : l₁.Perm l₂) : nanmean l₁ = nanmean l₂ := by
  unfold nanmean
  have hv := valid_perm h
  have hl : (valid l₁).length = (valid l₂).length := hv.length_eq
  have he : (valid l₁).isEmpty = (valid l₂).isEmpty := by
    cases h1 : valid l₁ <;> cases h2 : valid l₂ <;> simp_all
  simp only [he, fsum_perm hv, hl]

theorem nansum_perm {l₁ l₂ : List Fl} (h : l₁.Perm l₂) : nansum l₁ = nansum l₂ := by
  unfold nansum; exact fsum_perm (valid_perm h)

theorem count_perm {l₁ l₂ : List Fl} (h : l₁.Perm l₂) : count l₁ = count l₂ := by
  unfold count; exact (valid_perm h).length_eq

/-- a per-case kernel applied label by label commutes with any re-ordering of the labelled cases:
    permuting the (forecast, observation, weight) triples permutes the per-case scores the same way -/
theorem kernel_perm {α : Type} (k : α → Fl) {c₁ c₂ : List α} (h : c₁.Perm c₂) : (c₁.map k).Perm (c₂.map k) :=
  h.map k

/-- hence every aggregate `nanmean (cases.map kernel)` is a function of the multiset of labelled cases -/
theorem aggregate_layout_invariant {α : Type} (k : α → Fl) {c₁ c₂ : List α} (h : c₁.Perm c₂) :
    nanmean (c₁.map k) = nanmean (c₂.map k) := nanmean_perm (kernel_perm k h)

/-! ### Positional storage: labelled arrays (`SV.Arr`, row-major data + an ordered list of dims) -/

/-- storing the same labelled values with ANY other dimension order (a transposition), or broadcast
    to extra dimensions, leaves the value attached to every label unchanged -/
theorem relayout_invariant (a : Arr) (dims : List String) (shape : List Nat) (asg : Asg)
    (hsub : ∀ d ∈ a.dims, d ∈ dims) (hr : Arr.InRange dims shape asg) :
    (a.relayout dims shape).get asg = a.get asg := Arr.relayout_get a dims shape asg hsub hr

/-- pointwise operations act label by label, whatever the storage order of the two operands
    (broadcasting by dimension name) -/
theorem pointwise_by_label (f : Fl → Fl → Fl) (a b : Arr) (asg : Asg)
    (hr : Arr.InRange (Arr.zipWith f a b).dims (Arr.zipWith f a b).shape asg) :
    (Arr.zipWith f a b).get asg = f (a.get asg) (b.get asg) := Arr.zipWith_get f a b asg hr

/-- hence a pointwise operation on re-laid-out operands gives the same labelled values -/
theorem pointwise_relayout (f : Fl → Fl → Fl) (a b : Arr) (dims : List String) (shape : List Nat) (asg : Asg)
    (hsub : ∀ d ∈ a.dims, d ∈ dims) (hra : Arr.InRange dims shape asg)
    (hr : Arr.InRange (Arr.zipWith f a b).dims (Arr.zipWith f a b).shape asg)
    (hr' : Arr.InRange (Arr.zipWith f (a.relayout dims shape) b).dims (Arr.zipWith f (a.relayout dims shape) b).shape asg) :
    (Arr.zipWith f (a.relayout dims shape) b).get asg = (Arr.zipWith f a b).get asg := by
  rw [Arr.zipWith_get _ _ _ _ hr', Arr.zipWith_get _ _ _ _ hr, Arr.relayout_get a dims shape asg hsub hra]

/-! Non-vacuity -/
example : Arr.InRange ["b", "a"] [2, 3] [("a", 2), ("b", 1)] := by
  refine ⟨by decide, by decide, trivial⟩
example : nanmean [fin 1, nan, fin 3] = nanmean [nan, fin 3, fin 1] :=
  nanmean_perm (by decide)

end SV.Props.C04
