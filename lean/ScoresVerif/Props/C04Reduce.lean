/-
  C04, part 2 — REDUCED results on positional storage depend on labelled values only.

  `Props/C04.lean` proves the two halves separately (`relayout_invariant`: a transposed copy has the same value
  at every label; `nanmean_perm`: the NaN-skipping reductions ignore the order of the fibre).  Here they are
  joined: the fibre that `reduceOver` reads over a kept label of a re-laid-out array is a `List.Perm` of the
  fibre of the original array, hence the reduced arrays agree at every label; lifted to the generic score
  combinator `scoreEval` (per-case values × weights broadcast by name, then NaN-skipping mean) and to
  two-operand pointwise kernels whose operands (and weights) are re-laid-out INDEPENDENTLY of each other.

  Vocabulary (Lemmas/C04Relayout.lean):
    `Arr.WF a`               distinct dimension names, one size per dimension
    `Arr.SameLabelled a a'`  a' has the same (dimension, size) pairs in any order and `a'.get x = a.get x` at every
                             in-range label x  (`sameLabelled_relayout`: every transposed copy is one)
    `Arr.Compat a b`         a and b agree on the size of every shared dimension (xarray raises otherwise)
    `Arr.fibre R a asg`      the list `reduceOver _ R a` hands to the reduction at the kept label `asg`
-/
import ScoresVerif.Props.C04
import ScoresVerif.Lemmas.C04Relayout

namespace SV.Props.C04Reduce
open SV SV.Arr

/-! ### The fibre of a re-laid-out array -/

/-- `fibre` is exactly what the model's reduction reads: the value of `reduceOver red R a` at a kept label is
    `red` of the fibre over that label -/
theorem reduced_value_is_red_of_fibre (red : List Fl → Fl) (R : List String) (a : Arr) (asg : Asg)
    (hr : InRange (keptDims R a) (keptShape R a) asg) :
    (reduceOver red R a).get asg = red (fibre R a asg) := reduceOver_get_fibre red R a asg hr

/-- storing the array with ANY permutation `dims`/`shape` of its (dimension, size) pairs only permutes the
    fibre over every kept label (whatever set `R` of dimensions is reduced) -/
theorem fibre_relayout_perm (a : Arr) (hwf : WF a) (dims : List String) (shape : List Nat)
    (hl : dims.length = shape.length) (hp : (dims.zip shape).Perm (a.dims.zip a.shape))
    (R : List String) (asg : Asg) (hr : InRange (keptDims R a) (keptShape R a) asg) :
    (fibre R (a.relayout dims shape) asg).Perm (fibre R a asg) :=
  fibre_perm (sameLabelled_relayout hwf hl hp) R asg hr

/-- the same for any other layout (e.g. a pointwise combination of transposed operands) -/
theorem fibre_sameLabelled_perm (a a' : Arr) (h : SameLabelled a a') (R : List String) (asg : Asg)
    (hr : InRange (keptDims R a) (keptShape R a) asg) :
    (fibre R a' asg).Perm (fibre R a asg) := fibre_perm h R asg hr

/-! ### 1. Reductions of a re-laid-out array -/

/-- **`reduced_relayout_invariant`.**  For every order-insensitive list reduction `red`, every array `a`, every
    permutation of its dimension order and every set `R` of reduced dimensions, the reduction of the transposed
    copy has at every output label the value of the reduction of `a`.  (In the code: `x.transpose(...).mean(R)`
    and `x.mean(R)` agree label by label.) -/
theorem reduced_relayout_invariant (red : List Fl → Fl) (hred : ∀ l₁ l₂ : List Fl, l₁.Perm l₂ → red l₁ = red l₂)
    (a : Arr) (hwf : WF a) (dims : List String) (shape : List Nat)
    (hl : dims.length = shape.length) (hp : (dims.zip shape).Perm (a.dims.zip a.shape))
    (R : List String) (asg : Asg) (hr : InRange (keptDims R a) (keptShape R a) asg) :
    (reduceOver red R (a.relayout dims shape)).get asg = (reduceOver red R a).get asg :=
  reduceOver_sameLabelled hred (sameLabelled_relayout hwf hl hp) R asg hr

/-- the NaN-skipping mean over `R` of a transposed copy -/
theorem nanmeanOver_relayout_invariant (a : Arr) (hwf : WF a) (dims : List String) (shape : List Nat)
    (hl : dims.length = shape.length) (hp : (dims.zip shape).Perm (a.dims.zip a.shape))
    (R : List String) (asg : Asg) (hr : InRange (keptDims R a) (keptShape R a) asg) :
    (nanmeanOver R (a.relayout dims shape)).get asg = (nanmeanOver R a).get asg :=
  reduced_relayout_invariant nanmean (fun _ _ h => C04.nanmean_perm h) a hwf dims shape hl hp R asg hr

/-- the NaN-skipping sum over `R` of a transposed copy -/
theorem nansumOver_relayout_invariant (a : Arr) (hwf : WF a) (dims : List String) (shape : List Nat)
    (hl : dims.length = shape.length) (hp : (dims.zip shape).Perm (a.dims.zip a.shape))
    (R : List String) (asg : Asg) (hr : InRange (keptDims R a) (keptShape R a) asg) :
    (nansumOver R (a.relayout dims shape)).get asg = (nansumOver R a).get asg :=
  reduced_relayout_invariant nansum (fun _ _ h => C04.nansum_perm h) a hwf dims shape hl hp R asg hr

/-- reductions compose: the reduced array of another layout is itself another layout of the reduced array
    (so a second reduction, or a pointwise step after the reduction, is covered by the same theorems) -/
theorem reduced_sameLabelled (red : List Fl → Fl) (hred : ∀ l₁ l₂ : List Fl, l₁.Perm l₂ → red l₁ = red l₂)
    (a a' : Arr) (h : SameLabelled a a') (R : List String) :
    SameLabelled (reduceOver red R a) (reduceOver red R a') := sameLabelled_reduceOver hred h R

/-! ### The generic score combinator on other layouts -/

/-- `scoreEval` without weights on any other layout of the per-case values -/
theorem scoreEval_sameLabelled (p p' : Arr) (h : SameLabelled p p') (R : List String) (asg : Asg)
    (hr : InRange (keptDims R p) (keptShape R p) asg) :
    (scoreEval p' none R).get asg = (scoreEval p none R).get asg :=
  reduceOver_sameLabelled (fun _ _ h => C04.nanmean_perm h) h R asg hr

/-- `scoreEval` with weights: per-case values and weights each in any other layout -/
theorem scoreEval_sameLabelled_weighted (p p' w w' : Arr) (hp : SameLabelled p p') (hw : SameLabelled w w')
    (hc : Compat p w) (R : List String) (asg : Asg)
    (hr : InRange (keptDims R (Arr.mul p w)) (keptShape R (Arr.mul p w)) asg) :
    (scoreEval p' (some w') R).get asg = (scoreEval p (some w) R).get asg :=
  reduceOver_sameLabelled (fun _ _ h => C04.nanmean_perm h) (sameLabelled_zipWith Fl.mul hp hw hc) R asg hr

/-- **Score of transposed per-case values.**  `scoreEval` (NaN-skipping mean over `R`) of a transposed copy of the
    per-case array has the value of the original score at every output label -/
theorem scoreEval_relayout_invariant (p : Arr) (hwf : WF p) (dims : List String) (shape : List Nat)
    (hl : dims.length = shape.length) (hp : (dims.zip shape).Perm (p.dims.zip p.shape))
    (R : List String) (asg : Asg) (hr : InRange (keptDims R p) (keptShape R p) asg) :
    (scoreEval (p.relayout dims shape) none R).get asg = (scoreEval p none R).get asg :=
  scoreEval_sameLabelled p _ (sameLabelled_relayout hwf hl hp) R asg hr

/-- **… and with weights**: per-case values and weights transposed independently of each other (pointwise
    product broadcast by name, then the reduction) -/
theorem scoreEval_relayout_invariant_weighted (p w : Arr) (hwfp : WF p) (hwfw : WF w) (hc : Compat p w)
    (dp : List String) (sp : List Nat) (hlp : dp.length = sp.length) (hpp : (dp.zip sp).Perm (p.dims.zip p.shape))
    (dw : List String) (sw : List Nat) (hlw : dw.length = sw.length) (hpw : (dw.zip sw).Perm (w.dims.zip w.shape))
    (R : List String) (asg : Asg)
    (hr : InRange (keptDims R (Arr.mul p w)) (keptShape R (Arr.mul p w)) asg) :
    (scoreEval (p.relayout dp sp) (some (w.relayout dw sw)) R).get asg = (scoreEval p (some w) R).get asg :=
  scoreEval_sameLabelled_weighted p _ w _ (sameLabelled_relayout hwfp hlp hpp) (sameLabelled_relayout hwfw hlw hpw)
    hc R asg hr

/-! ### 2. Two-operand pointwise kernels with independently re-laid-out operands -/

/-- a pointwise kernel (broadcast by name) of two operands in other layouts is another layout of the kernel of
    the originals: same (dimension, size) pairs, same value at every label -/
theorem kernel_sameLabelled (k : Fl → Fl → Fl) (f f' o o' : Arr) (hf : SameLabelled f f') (ho : SameLabelled o o')
    (hc : Compat f o) : SameLabelled (zipWith k f o) (zipWith k f' o') := sameLabelled_zipWith k hf ho hc

/-- **Score of a two-operand kernel, forecast and observation transposed independently.**
    (In the code: `score(fcst.transpose(..), obs.transpose(..), reduce_dims=R)` agrees with
    `score(fcst, obs, reduce_dims=R)` at every label, for every score of the form mean-over-R of a per-case
    kernel.) -/
theorem scoreEval_kernel_relayout_invariant (k : Fl → Fl → Fl) (f o : Arr) (hwff : WF f) (hwfo : WF o)
    (hc : Compat f o)
    (df : List String) (sf : List Nat) (hlf : df.length = sf.length) (hpf : (df.zip sf).Perm (f.dims.zip f.shape))
    (d_o : List String) (so : List Nat) (hlo : d_o.length = so.length) (hpo : (d_o.zip so).Perm (o.dims.zip o.shape))
    (R : List String) (asg : Asg)
    (hr : InRange (keptDims R (zipWith k f o)) (keptShape R (zipWith k f o)) asg) :
    (scoreEval (zipWith k (f.relayout df sf) (o.relayout d_o so)) none R).get asg
      = (scoreEval (zipWith k f o) none R).get asg :=
  scoreEval_sameLabelled _ _
    (sameLabelled_zipWith k (sameLabelled_relayout hwff hlf hpf) (sameLabelled_relayout hwfo hlo hpo) hc) R asg hr

/-- **… and with weights**: forecast, observation and weights all transposed independently -/
theorem scoreEval_kernel_relayout_invariant_weighted (k : Fl → Fl → Fl) (f o w : Arr)
    (hwff : WF f) (hwfo : WF o) (hwfw : WF w) (hc : Compat f o) (hcw : Compat (zipWith k f o) w)
    (df : List String) (sf : List Nat) (hlf : df.length = sf.length) (hpf : (df.zip sf).Perm (f.dims.zip f.shape))
    (d_o : List String) (so : List Nat) (hlo : d_o.length = so.length) (hpo : (d_o.zip so).Perm (o.dims.zip o.shape))
    (dw : List String) (sw : List Nat) (hlw : dw.length = sw.length) (hpw : (dw.zip sw).Perm (w.dims.zip w.shape))
    (R : List String) (asg : Asg)
    (hr : InRange (keptDims R (Arr.mul (zipWith k f o) w)) (keptShape R (Arr.mul (zipWith k f o) w)) asg) :
    (scoreEval (zipWith k (f.relayout df sf) (o.relayout d_o so)) (some (w.relayout dw sw)) R).get asg
      = (scoreEval (zipWith k f o) (some w) R).get asg :=
  scoreEval_sameLabelled_weighted _ _ w _
    (sameLabelled_zipWith k (sameLabelled_relayout hwff hlf hpf) (sameLabelled_relayout hwfo hlo hpo) hc)
    (sameLabelled_relayout hwfw hlw hpw) hcw R asg hr

/-! ### Non-vacuity: concrete instances of all hypotheses -/

/-- a 2×3 array with a missing value -/
def exA : Arr := ⟨["x", "y"], [2, 3], #[.fin 1, .fin 2, .nan, .fin 4, .fin 5, .fin 9]⟩
/-- an observation on ("y","t") -/
def exO : Arr := ⟨["y", "t"], [3, 2], #[.fin 0, .fin 1, .fin 2, .nan, .fin 4, .fin 5]⟩
/-- weights on "y" only -/
def exW : Arr := ⟨["y"], [3], #[.fin 1, .fin 2, .fin 0]⟩

example : WF exA := ⟨by decide, by decide⟩
example : WF exO := ⟨by decide, by decide⟩
example : (["y", "x"].zip [3, 2]).Perm (exA.dims.zip exA.shape) := by decide
example : Compat exA exO := by
  intro d n m h1 h2
  simp only [exA, exO, List.zip_cons_cons, List.zip_nil_right, List.mem_cons, Prod.mk.injEq, List.not_mem_nil,
    or_false] at h1 h2
  rcases h1 with ⟨rfl, rfl⟩ | ⟨rfl, rfl⟩ <;> rcases h2 with ⟨h, rfl⟩ | ⟨h, rfl⟩ <;> simp_all

/-- the transposed copy really is stored differently … -/
example : (exA.relayout ["y", "x"] [3, 2]).data = #[.fin 1, .fin 4, .fin 2, .fin 5, .nan, .fin 9] := by decide +kernel
/-- … the fibres over x = 0 when "y" is reduced coincide here (1-dimensional fibre), and over the empty label when
    both are reduced they are genuinely permuted -/
example : fibre ["x", "y"] exA [] = [.fin 1, .fin 2, .nan, .fin 4, .fin 5, .fin 9] := by decide +kernel
example : fibre ["x", "y"] (exA.relayout ["y", "x"] [3, 2]) [] = [.fin 1, .fin 4, .fin 2, .fin 5, .nan, .fin 9] := by
  decide +kernel
/-- an instance of `nanmeanOver_relayout_invariant` with all hypotheses discharged, and its value -/
example : (nanmeanOver ["y"] (exA.relayout ["y", "x"] [3, 2])).get [("x", 1)] = (nanmeanOver ["y"] exA).get [("x", 1)] :=
  nanmeanOver_relayout_invariant exA ⟨by decide, by decide⟩ ["y", "x"] [3, 2] rfl (by decide) ["y"] _
    (by refine ⟨by decide, trivial⟩)
example : (nanmeanOver ["y"] exA).get [("x", 1)] = .fin 6 := by decide +kernel
example : (nanmeanOver ["y"] exA).get [("x", 0)] = .fin (3 / 2) := by decide +kernel

/-- a complete instance of `scoreEval_kernel_relayout_invariant_weighted`: forecast on (x,y), observation on (y,t),
    weights on y; each stored transposed independently; error kernel `f − o`, mean over y; label (x=1, t=0) -/
example :
    (scoreEval (zipWith Fl.sub (exA.relayout ["y", "x"] [3, 2]) (exO.relayout ["t", "y"] [2, 3]))
        (some (exW.relayout ["y"] [3])) ["y"]).get [("x", 1), ("t", 0)]
      = (scoreEval (zipWith Fl.sub exA exO) (some exW) ["y"]).get [("x", 1), ("t", 0)] :=
  scoreEval_kernel_relayout_invariant_weighted Fl.sub exA exO exW ⟨by decide, by decide⟩ ⟨by decide, by decide⟩
    ⟨by decide, by decide⟩ (Compat.of_forall (by decide +kernel)) (Compat.of_forall (by decide +kernel))
    ["y", "x"] [3, 2] rfl (by decide) ["t", "y"] [2, 3] rfl (by decide) ["y"] [3] rfl (by decide)
    ["y"] _ (by refine ⟨by decide, by decide, trivial⟩)
/-- its value: weights (1,2,0) on y, errors (4−0, 5−2, 9−4) ⇒ mean of (4, 6, 0) = 10/3 -/
example : (scoreEval (zipWith Fl.sub exA exO) (some exW) ["y"]).get [("x", 1), ("t", 0)] = .fin (10 / 3) := by
  decide +kernel
/-- the two stored buffers of the per-case values differ -/
example : (zipWith Fl.sub (exA.relayout ["y", "x"] [3, 2]) (exO.relayout ["t", "y"] [2, 3])).data
    ≠ (zipWith Fl.sub exA exO).data := by decide +kernel

/- reduced_reindex_commutes_stmt — NOT proved (the model has no coordinate labels: an index along a dimension IS the
   label, so "coordinates stored in another order" needs a new definition, and label ALIGNMENT of two operands whose
   coordinates are shuffled independently is xarray's `align`, which the model does not contain).  Planned form, with
     reindex σ a := ofFn a.dims a.shape fun x => a.get (a.dims.map fun d => (d, σ d (lookup x d)))
   and σ d a bijection of [0, size d) for every dimension d of a:
     (reduceOver red R (reindex σ a)).get x = (reindex σ (reduceOver red R a)).get x        (red order-insensitive)
     (zipWith k (reindex σ f) (reindex σ o)).get x = (reindex σ (zipWith k f o)).get x
   Proof route: `(assignments ds ns).map (apply σ)` is a `List.Perm` of `assignments ds ns` (Nodup + membership, as
   in `assignments_perm`), then as `fibre_perm`.  The coordinate-shuffle variants stay covered by the harness fan-out. -/

end SV.Props.C04Reduce
