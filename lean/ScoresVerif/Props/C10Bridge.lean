/-
  C10Bridge — the integrals of C10 (and the integral calculus shared with C11 / C06) are TRUE integrals.

  Props/C10.lean proves `tw_* (code) = SV.Spec.Quad.integral (weight × elementary score)`, where `Spec.Quad.integral` is the
  framework's exact executable quadrature (Milne's open 3-point rule on each cell of the kink grid).  Here that
  quadrature is proved equal to the Lebesgue integral of Mathlib (`∫ θ in lo..hi, F θ`, `intervalIntegral` over ℝ), so
  the statements of C10 become statements about real integrals, with no trusted "Milne is exact / integrals are
  additive" step.  Helper lemmas: Lemmas/Bridge.lean.

  Reading guide: `wRectR a b`, `wTrapR a b c d`, `elemQuantileR α x y`, `elemExpectileR α x y`, `elemHuberR α h x y` are the
  formulas of Spec/ThresholdWeighted.lean read over ℝ (they agree with the Spec functions on every rational argument:
  `wRectR_cast … elemHuberR_cast`);  `EqReal v r` = "the model value v is `fin s` for a rational s with (s : ℝ) = r".
-/
import ScoresVerif.Props.C10
import ScoresVerif.Lemmas.Bridge

set_option linter.unusedVariables false

namespace SV.Props.C10Bridge
open MeasureTheory
open SV SV.Spec.TW SV.Bridge SV.Props.C10 SV.TW
open SV.Fl (fin nan ninf pinf)

/-! ## 1. The quadrature of the framework is the Lebesgue integral -/

/-- Milne's open rule — the cell value of `Spec.Quad.integral`, same formula — is the exact integral of every cubic -/
theorem milne_is_integral_of_cubic (c0 c1 c2 c3 p q : ℚ) :
    ((Spec.Quad.milne (fun θ => c0 + c1 * θ + c2 * θ ^ 2 + c3 * θ ^ 3) p q : ℚ) : ℝ)
      = ∫ x in (p : ℝ)..(q : ℝ), ((c0 : ℝ) + c1 * x + c2 * x ^ 2 + c3 * x ^ 3) :=
  milne_cast_exact_cubic c0 c1 c2 c3 p q

/-- ∫_lo^hi 1[a,b) = length of the overlap (the rectangular threshold weight; the step calculus of C06 / C11 / C14) -/
theorem indicator_integral (a b lo hi : ℝ) (h : lo ≤ hi) :
    ∫ x in lo..hi, (if a ≤ x ∧ x < b then (1 : ℝ) else 0) = max 0 (min hi b - max lo a) :=
  integral_indicator a b lo hi h
example : (-1 : ℝ) ≤ 2 := by norm_num

/-- **Spec.Quad.integral is the Lebesgue integral**: for every rational integrand `f`, every real function `F` that
    agrees with `f` on ℚ and is a polynomial of degree ≤ 3 on each open cell (p, q) ⊆ [lo, hi] containing no kink, `F` is
    integrable on [lo, hi] and `Spec.Quad.integral f lo hi kinks` (sorted, clamped grid; Milne on every cell) is ∫_lo^hi F.
    Values of `F` at the kinks (jumps of indicator weights, half-open elementary scores) do not matter. -/
theorem quad_integral_is_lebesgue (f : ℚ → ℚ) (F : ℝ → ℝ) (hF : ∀ t : ℚ, F t = f t)
    (lo hi : ℚ) (kinks : List ℚ) (hlh : lo ≤ hi)
    (hcell : ∀ p q : ℝ, (lo : ℝ) ≤ p → p ≤ q → q ≤ hi → (∀ k ∈ kinks, (k : ℝ) ≤ p ∨ q ≤ k) → CubicOn F p q) :
    IntervalIntegrable F volume lo hi ∧
      ((Spec.Quad.integral f lo hi kinks : ℚ) : ℝ) = ∫ θ in (lo : ℝ)..(hi : ℝ), F θ :=
  quad_integral_eq_intervalIntegral f F hF lo hi kinks hlh hcell

/-- a concrete instance of the hypotheses: f jumps at the kink 1 (θ³ below, 2 − θ from 1 on) on [0, 2] -/
example :
    ((Spec.Quad.integral (fun θ : ℚ => if θ < 1 then θ ^ 3 else 2 - θ) 0 2 [1] : ℚ) : ℝ)
      = ∫ θ in ((0 : ℚ) : ℝ)..((2 : ℚ) : ℝ), (if θ < 1 then θ ^ 3 else 2 - θ : ℝ) := by
  refine (quad_integral_is_lebesgue _ (fun θ : ℝ => if θ < 1 then θ ^ 3 else 2 - θ) ?_ 0 2 [1] (by norm_num) ?_).2
  · intro t
    by_cases h : t < 1
    · have h' : (t : ℝ) < 1 := by exact_mod_cast h
      simp [h, h']
    · have h' : ¬ (t : ℝ) < 1 := by exact_mod_cast h
      simp [h, h']
  · intro p q _ _ _ hno
    have h1 := hno 1 (by simp)
    push_cast at h1
    exact CubicOn.ite_lt h1 ⟨0, 0, 0, 1, fun θ _ _ => by ring⟩ ⟨2, -1, 0, 0, fun θ _ _ => by ring⟩

/-! ## 2. The Spec integrals of C10 are Lebesgue integrals — for every weight that is affine between its kinks
    (`WeightBridge w W ks`: W is the real reading of w; instances `weightBridge_rect`, `weightBridge_trap`, `weightBridge_one`) -/

section generic
variable {w : ℚ → ℚ} {W : ℝ → ℝ} {ks : List ℚ}

theorem twQuantile_eq_lebesgue (hw : WeightBridge w W ks) (α x y : ℚ) :
    ((twQuantile w ks α x y : ℚ) : ℝ) = ∫ θ in (min (x : ℝ) y)..(max (x : ℝ) y), W θ * elemQuantileR α x y θ :=
  intQuantile_bridge hw α x y

theorem twAbsoluteError_eq_lebesgue (hw : WeightBridge w W ks) (x y : ℚ) :
    ((twAbsoluteError w ks x y : ℚ) : ℝ)
      = 2 * ∫ θ in (min (x : ℝ) y)..(max (x : ℝ) y), W θ * elemQuantileR (1 / 2) x y θ := by
  unfold twAbsoluteError; rw [Rat.cast_mul, intQuantile_bridge hw]; push_cast; rfl

theorem twExpectile_eq_lebesgue (hw : WeightBridge w W ks) (α x y : ℚ) :
    ((twExpectile w ks α x y : ℚ) : ℝ)
      = 2 * ∫ θ in (min (x : ℝ) y)..(max (x : ℝ) y), W θ * elemExpectileR α x y θ := by
  unfold twExpectile; rw [Rat.cast_mul, intExpectile_bridge hw]; push_cast; rfl

theorem twSquaredError_eq_lebesgue (hw : WeightBridge w W ks) (x y : ℚ) :
    ((twSquaredError w ks x y : ℚ) : ℝ)
      = 4 * ∫ θ in (min (x : ℝ) y)..(max (x : ℝ) y), W θ * elemExpectileR (1 / 2) x y θ := by
  unfold twSquaredError; rw [Rat.cast_mul, intExpectile_bridge hw]; push_cast; rfl

theorem twHuber_eq_lebesgue (hw : WeightBridge w W ks) (h x y : ℚ) :
    ((twHuber w ks h x y : ℚ) : ℝ)
      = 2 * ∫ θ in (min (x : ℝ) y)..(max (x : ℝ) y), W θ * elemHuberR (1 / 2) h x y θ := by
  unfold twHuber; rw [Rat.cast_mul, intHuber_bridge hw]; push_cast; rfl

end generic
example : WeightBridge (wRect 0 1) (wRectR ((0 : ℚ) : ℝ) ((1 : ℚ) : ℝ)) [0, 1] := weightBridge_rect 0 1
example : WeightBridge (wTrap 0 1 2 4) (wTrapR ((0 : ℚ) : ℝ) ((1 : ℚ) : ℝ) ((2 : ℚ) : ℝ) ((4 : ℚ) : ℝ)) [0, 1, 2, 4] :=
  weightBridge_trap 0 1 2 4

/-! ## 3. The code: the five threshold-weighted scores ARE the Lebesgue integrals of weight × elementary score -/

/-- all five scores computed with (gF, φF, φ′F) are finite and equal to the real integrals against the weight `W` -/
def AllFiveEqLebesgue (gF φF φ'F : Fl → Fl) (W : ℝ → ℝ) (x y : ℚ) : Prop :=
  (∀ α : ℚ, EqReal (G.tw_quantile_score (fin x) (fin y) (fin α) gF)
    (∫ θ in (min (x : ℝ) y)..(max (x : ℝ) y), W θ * elemQuantileR α x y θ)) ∧
  EqReal (G.tw_absolute_error (fin x) (fin y) gF)
    (2 * ∫ θ in (min (x : ℝ) y)..(max (x : ℝ) y), W θ * elemQuantileR (1 / 2) x y θ) ∧
  (∀ α : ℚ, EqReal (G.tw_expectile_score (fin x) (fin y) (fin α) φF φ'F)
    (2 * ∫ θ in (min (x : ℝ) y)..(max (x : ℝ) y), W θ * elemExpectileR α x y θ)) ∧
  EqReal (G.tw_squared_error (fin x) (fin y) φF φ'F)
    (4 * ∫ θ in (min (x : ℝ) y)..(max (x : ℝ) y), W θ * elemExpectileR (1 / 2) x y θ) ∧
  (∀ h : ℚ, 0 < h → EqReal (G.tw_huber_loss (fin x) (fin y) (fin h) φF φ'F)
    (2 * ∫ θ in (min (x : ℝ) y)..(max (x : ℝ) y), W θ * elemHuberR (1 / 2) h x y θ))

/-- every "code = Spec.Quad integral" statement of Props/C10 turns into "code = Lebesgue integral" -/
theorem allFive_lebesgue {gF φF φ'F : Fl → Fl} {w : ℚ → ℚ} {W : ℝ → ℝ} {ks : List ℚ} {x y : ℚ}
    (H : AllFiveEqIntegral gF φF φ'F w ks x y) (hw : WeightBridge w W ks) : AllFiveEqLebesgue gF φF φ'F W x y :=
  ⟨fun α => .of_fin (H.1 α) (twQuantile_eq_lebesgue hw α x y),
   .of_fin H.2.1 (twAbsoluteError_eq_lebesgue hw x y),
   fun α => .of_fin (H.2.2.1 α) (twExpectile_eq_lebesgue hw α x y),
   .of_fin H.2.2.2.1 (twSquaredError_eq_lebesgue hw x y),
   fun h hh => .of_fin (H.2.2.2.2 h hh) (twHuber_eq_lebesgue hw h x y)⟩

section rect
variable (a b x y : ℚ) (hab : a < b)
include hab

/-- `tw_quantile_score` with the rectangular weight 1[a,b): the value computed by the code is
    ∫_{min(x,y)}^{max(x,y)} 1[a,b)(θ) · S^Q_{α,θ}(x,y) dθ  (Lebesgue integral over ℝ) -/
theorem tw_quantile_score_rect_eq_lebesgue (α : ℚ) :
    EqReal (G.tw_quantile_score (fin x) (fin y) (fin α) (G.g_j_rect (fin a) (fin b)))
      (∫ θ in (min (x : ℝ) y)..(max (x : ℝ) y), wRectR a b θ * elemQuantileR α x y θ) :=
  .of_fin (tw_quantile_rect_eq_integral a b x y hab α) (twQuantile_eq_lebesgue (weightBridge_rect a b) α x y)

theorem tw_absolute_error_rect_eq_lebesgue :
    EqReal (G.tw_absolute_error (fin x) (fin y) (G.g_j_rect (fin a) (fin b)))
      (2 * ∫ θ in (min (x : ℝ) y)..(max (x : ℝ) y), wRectR a b θ * elemQuantileR (1 / 2) x y θ) :=
  .of_fin (tw_absolute_error_rect_eq_integral a b x y hab) (twAbsoluteError_eq_lebesgue (weightBridge_rect a b) x y)

theorem tw_expectile_score_rect_eq_lebesgue (α : ℚ) :
    EqReal (G.tw_expectile_score (fin x) (fin y) (fin α) (G.phi_j_rect (fin a) (fin b)) (G.phi_j_prime_rect (fin a) (fin b)))
      (2 * ∫ θ in (min (x : ℝ) y)..(max (x : ℝ) y), wRectR a b θ * elemExpectileR α x y θ) :=
  .of_fin (tw_expectile_rect_eq_integral a b x y hab α) (twExpectile_eq_lebesgue (weightBridge_rect a b) α x y)

theorem tw_squared_error_rect_eq_lebesgue :
    EqReal (G.tw_squared_error (fin x) (fin y) (G.phi_j_rect (fin a) (fin b)) (G.phi_j_prime_rect (fin a) (fin b)))
      (4 * ∫ θ in (min (x : ℝ) y)..(max (x : ℝ) y), wRectR a b θ * elemExpectileR (1 / 2) x y θ) :=
  .of_fin (tw_squared_error_rect_eq_integral a b x y hab) (twSquaredError_eq_lebesgue (weightBridge_rect a b) x y)

theorem tw_huber_loss_rect_eq_lebesgue (h : ℚ) (hh : 0 < h) :
    EqReal (G.tw_huber_loss (fin x) (fin y) (fin h) (G.phi_j_rect (fin a) (fin b)) (G.phi_j_prime_rect (fin a) (fin b)))
      (2 * ∫ θ in (min (x : ℝ) y)..(max (x : ℝ) y), wRectR a b θ * elemHuberR (1 / 2) h x y θ) :=
  .of_fin (tw_huber_rect_eq_integral a b x y hab h hh) (twHuber_eq_lebesgue (weightBridge_rect a b) h x y)
end rect
example : (0 : ℚ) < 2 ∧ (0 : ℚ) < 1 / 2 := by norm_num

section trap
variable (a b c d x y : ℚ) (hab : a < b) (hbc : b < c) (hcd : c < d)
include hab hbc hcd

/-- the same for the trapezoidal weight (0 below a, ramp up to 1 at b, 1 on [b,c), ramp down to 0 at d) -/
theorem tw_quantile_score_trap_eq_lebesgue (α : ℚ) :
    EqReal (G.tw_quantile_score (fin x) (fin y) (fin α) (G.g_j_trap (fin a) (fin b) (fin c) (fin d)))
      (∫ θ in (min (x : ℝ) y)..(max (x : ℝ) y), wTrapR a b c d θ * elemQuantileR α x y θ) :=
  .of_fin (tw_quantile_trap_eq_integral a b c d x y hab hbc hcd α)
    (twQuantile_eq_lebesgue (weightBridge_trap a b c d) α x y)

theorem tw_absolute_error_trap_eq_lebesgue :
    EqReal (G.tw_absolute_error (fin x) (fin y) (G.g_j_trap (fin a) (fin b) (fin c) (fin d)))
      (2 * ∫ θ in (min (x : ℝ) y)..(max (x : ℝ) y), wTrapR a b c d θ * elemQuantileR (1 / 2) x y θ) :=
  .of_fin (tw_absolute_error_trap_eq_integral a b c d x y hab hbc hcd)
    (twAbsoluteError_eq_lebesgue (weightBridge_trap a b c d) x y)

theorem tw_expectile_score_trap_eq_lebesgue (α : ℚ) :
    EqReal (G.tw_expectile_score (fin x) (fin y) (fin α) (G.phi_j_trap (fin a) (fin b) (fin c) (fin d))
        (G.phi_j_prime_trap (fin a) (fin b) (fin c) (fin d)))
      (2 * ∫ θ in (min (x : ℝ) y)..(max (x : ℝ) y), wTrapR a b c d θ * elemExpectileR α x y θ) :=
  .of_fin (tw_expectile_trap_eq_integral a b c d x y hab hbc hcd α)
    (twExpectile_eq_lebesgue (weightBridge_trap a b c d) α x y)

theorem tw_squared_error_trap_eq_lebesgue :
    EqReal (G.tw_squared_error (fin x) (fin y) (G.phi_j_trap (fin a) (fin b) (fin c) (fin d))
        (G.phi_j_prime_trap (fin a) (fin b) (fin c) (fin d)))
      (4 * ∫ θ in (min (x : ℝ) y)..(max (x : ℝ) y), wTrapR a b c d θ * elemExpectileR (1 / 2) x y θ) :=
  .of_fin (tw_squared_error_trap_eq_integral a b c d x y hab hbc hcd)
    (twSquaredError_eq_lebesgue (weightBridge_trap a b c d) x y)

theorem tw_huber_loss_trap_eq_lebesgue (h : ℚ) (hh : 0 < h) :
    EqReal (G.tw_huber_loss (fin x) (fin y) (fin h) (G.phi_j_trap (fin a) (fin b) (fin c) (fin d))
        (G.phi_j_prime_trap (fin a) (fin b) (fin c) (fin d)))
      (2 * ∫ θ in (min (x : ℝ) y)..(max (x : ℝ) y), wTrapR a b c d θ * elemHuberR (1 / 2) h x y θ) :=
  .of_fin (tw_huber_trap_eq_integral a b c d x y hab hbc hcd h hh)
    (twHuber_eq_lebesgue (weightBridge_trap a b c d) h x y)
end trap
example : (0 : ℚ) < 1 ∧ (1 : ℚ) < 2 ∧ (2 : ℚ) < 4 ∧ (0 : ℚ) < 3 / 2 := by norm_num

/-! ## 4. Infinite end points: after the replacement of ±∞ by any finite value beyond the data (`_auxiliary_funcs`), the
    code computes the Lebesgue integrals against the IDEAL weight (half-line indicator, single ramp, or 1) -/

/-- rectangular weight (−∞, b): ideal weight 1{θ < b} -/
theorem endpoint_replacement_lebesgue_rect_left (A b x y : ℚ) (hAb : A < b) (hx : A ≤ x) (hy : A ≤ y) :
    AllFiveEqLebesgue (G.g_j_rect (fin A) (fin b)) (G.phi_j_rect (fin A) (fin b)) (G.phi_j_prime_rect (fin A) (fin b))
      (fun θ => if θ < (b : ℝ) then 1 else 0) x y :=
  allFive_lebesgue (endpoint_replacement_sound_rect_left A b x y hAb hx hy) (weightBridge_rectE_left b)

/-- rectangular weight [a, ∞): ideal weight 1{a ≤ θ} -/
theorem endpoint_replacement_lebesgue_rect_right (a B x y : ℚ) (haB : a < B) (hx : x ≤ B) (hy : y ≤ B) :
    AllFiveEqLebesgue (G.g_j_rect (fin a) (fin B)) (G.phi_j_rect (fin a) (fin B)) (G.phi_j_prime_rect (fin a) (fin B))
      (fun θ => if θ < (a : ℝ) then 0 else 1) x y :=
  allFive_lebesgue (endpoint_replacement_sound_rect_right a B x y haB hx hy) (weightBridge_rectE_right a)

/-- rectangular weight (−∞, ∞): ideal weight 1 -/
theorem endpoint_replacement_lebesgue_rect_both (A B x y : ℚ) (hAB : A < B) (hx : A ≤ x) (hy : A ≤ y) (hx' : x ≤ B)
    (hy' : y ≤ B) :
    AllFiveEqLebesgue (G.g_j_rect (fin A) (fin B)) (G.phi_j_rect (fin A) (fin B)) (G.phi_j_prime_rect (fin A) (fin B))
      (fun _ => 1) x y :=
  allFive_lebesgue (endpoint_replacement_sound_rect_both A B x y hAB hx hy hx' hy') weightBridge_rectE_all
example : (-1 : ℚ) < 7 ∧ (-1 : ℚ) ≤ 0 ∧ (3 : ℚ) ≤ 7 := by norm_num

/-- trapezoidal weight (−∞, −∞, c, d): ideal weight = the down-ramp -/
theorem endpoint_replacement_lebesgue_trap_left (A0 A c d x y : ℚ) (h0 : A0 < A) (hAc : A < c) (hcd : c < d)
    (hx : A ≤ x) (hy : A ≤ y) :
    AllFiveEqLebesgue (G.g_j_trap (fin A0) (fin A) (fin c) (fin d)) (G.phi_j_trap (fin A0) (fin A) (fin c) (fin d))
      (G.phi_j_prime_trap (fin A0) (fin A) (fin c) (fin d)) (rampDownR c d) x y :=
  allFive_lebesgue (endpoint_replacement_sound_trap_left A0 A c d x y h0 hAc hcd hx hy) (weightBridge_trapE_left c d)

/-- trapezoidal weight (a, b, ∞, ∞): ideal weight = the up-ramp -/
theorem endpoint_replacement_lebesgue_trap_right (a b D D0 x y : ℚ) (hab : a < b) (hbD : b < D) (hD : D < D0)
    (hx : x ≤ D) (hy : y ≤ D) :
    AllFiveEqLebesgue (G.g_j_trap (fin a) (fin b) (fin D) (fin D0)) (G.phi_j_trap (fin a) (fin b) (fin D) (fin D0))
      (G.phi_j_prime_trap (fin a) (fin b) (fin D) (fin D0)) (rampUpR a b) x y :=
  allFive_lebesgue (endpoint_replacement_sound_trap_right a b D D0 x y hab hbD hD hx hy) (weightBridge_trapE_right a b)

/-- trapezoidal weight with all four end points infinite: ideal weight 1 -/
theorem endpoint_replacement_lebesgue_trap_both (A0 A D D0 x y : ℚ) (h0 : A0 < A) (hAD : A < D) (hD : D < D0)
    (hx : A ≤ x) (hy : A ≤ y) (hx' : x ≤ D) (hy' : y ≤ D) :
    AllFiveEqLebesgue (G.g_j_trap (fin A0) (fin A) (fin D) (fin D0)) (G.phi_j_trap (fin A0) (fin A) (fin D) (fin D0))
      (G.phi_j_prime_trap (fin A0) (fin A) (fin D) (fin D0)) (fun _ => 1) x y :=
  allFive_lebesgue (endpoint_replacement_sound_trap_both A0 A D D0 x y h0 hAD hD hx hy hx' hy') weightBridge_trapE_all
example : (-3 : ℚ) < -2 ∧ (-2 : ℚ) < 5 ∧ (5 : ℚ) < 6 ∧ (-2 : ℚ) ≤ 0 ∧ (1 : ℚ) ≤ 5 := by norm_num

/-! ## 5. Mixture representations (Ehm, Gneiting, Jordan & Krüger 2016, Thm 1; Taggart 2022) as Lebesgue integrals:
    the elementary scores integrate to the standard scoring functions -/

/-- ∫ S^Q_{α,θ}(x,y) dθ = pinball loss;  2∫ S^Q_{1/2,θ} = |x − y|;  2∫ S^E_{α,θ} = asymmetric squared loss;
    4∫ S^E_{1/2,θ} = (x − y)²;  2∫ S^H_{1/2,h,θ} = Huber loss — integrals over [min(x,y), max(x,y)], outside of which the
    elementary scores vanish -/
theorem mixture_representation (x y : ℚ) :
    (∀ α : ℚ, ∫ θ in (min (x : ℝ) y)..(max (x : ℝ) y), elemQuantileR α x y θ = ((pinball α x y : ℚ) : ℝ)) ∧
    2 * ∫ θ in (min (x : ℝ) y)..(max (x : ℝ) y), elemQuantileR (1 / 2) x y θ = ((absoluteError x y : ℚ) : ℝ) ∧
    (∀ α : ℚ, 2 * ∫ θ in (min (x : ℝ) y)..(max (x : ℝ) y), elemExpectileR α x y θ = ((asymSquared α x y : ℚ) : ℝ)) ∧
    4 * ∫ θ in (min (x : ℝ) y)..(max (x : ℝ) y), elemExpectileR (1 / 2) x y θ = ((squaredError x y : ℚ) : ℝ) ∧
    (∀ h : ℚ, 0 < h →
      2 * ∫ θ in (min (x : ℝ) y)..(max (x : ℝ) y), elemHuberR (1 / 2) h x y θ = ((huberLoss h x y : ℚ) : ℝ)) := by
  obtain ⟨hq, ha, he, hs, hh⟩ := integral_weight_one x y
  have B := weightBridge_rectE_all
  refine ⟨fun α => ?_, ?_, fun α => ?_, ?_, fun h h0 => ?_⟩
  · have := twQuantile_eq_lebesgue B α x y
    simp only [one_mul] at this; rw [← this, hq α]
  · have := twAbsoluteError_eq_lebesgue B x y
    simp only [one_mul] at this; rw [← this, ha]
  · have := twExpectile_eq_lebesgue B α x y
    simp only [one_mul] at this; rw [← this, he α]
  · have := twSquaredError_eq_lebesgue B x y
    simp only [one_mul] at this; rw [← this, hs]
  · have := twHuber_eq_lebesgue B h x y
    simp only [one_mul] at this; rw [← this, hh h h0]

/-- in particular 4 ∫_{min}^{max} S^E_{1/2,θ}(x,y) dθ = (x − y)² and 2 ∫ S^Q_{1/2,θ} dθ = |x − y| as real numbers -/
theorem mixture_squared_and_absolute (x y : ℚ) :
    4 * ∫ θ in (min (x : ℝ) y)..(max (x : ℝ) y), elemExpectileR (1 / 2) x y θ = ((x : ℝ) - y) ^ 2 ∧
    2 * ∫ θ in (min (x : ℝ) y)..(max (x : ℝ) y), elemQuantileR (1 / 2) x y θ = |(x : ℝ) - y| := by
  obtain ⟨_, ha, _, hs, _⟩ := mixture_representation x y
  refine ⟨by rw [hs]; unfold squaredError; push_cast; ring, ?_⟩
  rw [ha]; unfold absoluteError; rw [rabs_cast]; push_cast; rfl

/-! ## 6. The same bridge for the other two integral calculi of the framework (restated here so that they are audited
    with the rest; Props/C11.lean and Props/C06.lean prove `midpointRule … = loss` and `model = crpsIntegral`) -/

open SV.Spec.Murphy (KinkComplete kinksQ kinksE kinksH midpointRule lastOr) in
/-- C11: on a grid that is increasing and has no kink strictly inside a cell, the midpoint-rule integrals of the three
    Murphy elementary scores are the Lebesgue integrals from the first to the last grid point -/
theorem murphy_midpoint_is_lebesgue (α a f o : ℚ) (g : List ℚ) (p : ℚ) :
    (KinkComplete (kinksQ f o) (p :: g) →
      ((midpointRule (Spec.Murphy.elemQ α f o) (p :: g) : ℚ) : ℝ)
        = ∫ θ in (p : ℝ)..(lastOr p g : ℝ), elemQuantileR α f o θ) ∧
    (KinkComplete (kinksE f o) (p :: g) →
      ((midpointRule (Spec.Murphy.elemE α f o) (p :: g) : ℚ) : ℝ)
        = ∫ θ in (p : ℝ)..(lastOr p g : ℝ), elemExpectileR α f o θ) ∧
    (KinkComplete (kinksH a f o) (p :: g) →
      ((midpointRule (Spec.Murphy.elemH α a f o) (p :: g) : ℚ) : ℝ)
        = ∫ θ in (p : ℝ)..(lastOr p g : ℝ), elemHuberR α a f o θ) :=
  ⟨fun hk => (murphy_midpoint_quantile_eq_lebesgue α f o g p hk).2,
   fun hk => (murphy_midpoint_expectile_eq_lebesgue α f o g p hk).2,
   fun hk => (murphy_midpoint_huber_eq_lebesgue α a f o g p hk).2⟩
example : Spec.Murphy.KinkComplete (Spec.Murphy.kinksH 1 3 1) [0, 1, 2, 3, 4] := by
  simp only [Spec.Murphy.KinkComplete, Spec.Murphy.noKinkIoo, Spec.Murphy.kinksH, List.mem_cons, List.mem_nil_iff,
    or_false, and_true]
  norm_num

/-- C06: the exact CRPS integral of the empirical distribution is ∫ (F_ens(t) − 1{y ≤ t})² dt over the hull of members ∪ {y} -/
theorem crps_step_integral_is_lebesgue (xs : List ℚ) (y p : ℚ) (g : List ℚ) (hg : Spec.CrpsEns.grid (y :: xs) = p :: g) :
    ((Spec.CrpsEns.crpsIntegral xs y : ℚ) : ℝ)
      = ∫ t in (p : ℝ)..(Spec.Murphy.lastOr p g : ℝ), crpsIntegrandR xs y t :=
  (crpsIntegral_eq_lebesgue xs y p g hg).2
example : Spec.CrpsEns.grid ((1 : ℚ) :: [0, 2, 1]) = 0 :: [1, 2] := by decide +kernel

end SV.Props.C10Bridge
