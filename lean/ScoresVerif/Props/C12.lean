/-
  C12 — FIRM and risk-matrix scores are the stated sums of fixed-risk decision penalties.

  §1–§3 are about `SV.Gen.Firm.*` (REGENERATED from multicategorical_impl.py and risk_matrix.py on every run) inside the
  hand-written frame of `Model/Firm.lean`; §2 ties them to `SV.Gen.Murphy.*` (murphy_impl.py) through the C11 theorems.
-/
import ScoresVerif.Model.Firm
import ScoresVerif.Model.Murphy
import ScoresVerif.Spec.Firm
import ScoresVerif.Lemmas.FlBasic
import ScoresVerif.Lemmas.Firm
import ScoresVerif.Lemmas.Murphy
import ScoresVerif.Props.C11

set_option linter.unusedVariables false
set_option linter.unusedSimpArgs false
set_option linter.unusedTactic false
set_option linter.unreachableTactic false
set_option linter.unnecessarySeqFocus false

namespace SV.Props.C12
open SV SV.Fl
open SV.Spec.Firm
open SV.Lemmas.Firm
open SV.Model.Firm (firmCaseAll matrixWeightsToArray sortAsc)

/-! ## 1. FIRM per threshold and per case

`discFl D` is the `discount_distance` argument: `fin 0` (no discount — Python truthiness), `fin d` with d ≠ 0, or `+inf`;
`modeStr lower` is "lower" / "upper".  All finite forecasts, observations, thresholds, weights and risk parameters. -/

/-- overforecast penalty of one threshold = (1−α)·scale·1[false alarm], false alarm = obs ≤ t < fcst (lower) / obs < t ≤ fcst (upper),
    scale = 1 (d = 0), min(t − obs, d), or t − obs (d = ∞) -/
theorem single_over_eq_spec (lower : Bool) (D : Disc) (hD : Disc.ok D) (α f o t : Rat) :
    Gen.Firm.over_penalty (fin f) (fin o) (fin α) (fin t) (discFl D) (modeStr lower) = fin (overPenalty lower D α f o t) :=
  over_eq lower D hD α f o t

/-- underforecast penalty of one threshold = α·scale·1[miss], miss = fcst ≤ t < obs (lower) / fcst < t ≤ obs (upper) -/
theorem single_under_eq_spec (lower : Bool) (D : Disc) (hD : Disc.ok D) (α f o t : Rat) :
    Gen.Firm.under_penalty (fin f) (fin o) (fin α) (fin t) (discFl D) (modeStr lower) = fin (underPenalty lower D α f o t) :=
  under_eq lower D hD α f o t

theorem single_firm_eq_spec (lower : Bool) (D : Disc) (hD : Disc.ok D) (α f o t : Rat) :
    Gen.Firm.firm_score (fin f) (fin o) (fin α) (fin t) (discFl D) (modeStr lower) = fin (single lower D α f o t) :=
  firm_eq lower D hD α f o t

example : Disc.ok (.dist (1/2)) := by intro d h; cases h; norm_num
example : Disc.ok .off := by intro d h; cases h
example : Disc.ok .inf := by intro d h; cases h

/-- `discount_distance = 0` switches discounting OFF (Python truthiness of `if discount_distance:`), it is not "distance 0":
    the penalty of a false alarm is the full 1 − α -/
theorem discount_zero_is_no_discount (α f o t : Rat) (h : o ≤ t ∧ t < f) :
    Gen.Firm.over_penalty (fin f) (fin o) (fin α) (fin t) (fin 0) "lower" = fin (1 - α) := by
  have := over_lower .off (by intro d h; cases h) α f o t
  simp only [discFl] at this
  rw [this]; simp [overPenalty, falseAlarm, h, scale]

/-- firm_score = overforecast_penalty + underforecast_penalty for ALL inputs (NaN, infinities, any mode string) -/
theorem firm_eq_over_add_under (f o α t d : Fl) (mode : String) :
    Gen.Firm.firm_score f o α t d mode
      = Fl.add (Gen.Firm.over_penalty f o α t d mode) (Gen.Firm.under_penalty f o α t d mode) := rfl

/-- a NaN forecast, observation or threshold makes the three per-threshold values NaN -/
theorem single_nan (f o α t d : Fl) (mode : String) (h : f = nan ∨ o = nan ∨ t = nan) :
    Gen.Firm.over_penalty f o α t d mode = nan ∧ Gen.Firm.under_penalty f o α t d mode = nan ∧
      Gen.Firm.firm_score f o α t d mode = nan := by
  have hc : ((!f.isNan) && (!o.isNan) && (!t.isNan)) = false := by
    rcases h with rfl | rfl | rfl <;> simp
  have h1 : Gen.Firm.over_penalty f o α t d mode = nan := by
    simp only [Gen.Firm.over_penalty, whereB]
    rcases h with rfl | rfl | rfl <;> simp
  have h2 : Gen.Firm.under_penalty f o α t d mode = nan := by
    simp only [Gen.Firm.under_penalty, whereB]
    rcases h with rfl | rfl | rfl <;> simp
  exact ⟨h1, h2, by rw [firm_eq_over_add_under, h1]; simp⟩

/-- FIRM per case: `sum(weight_j * single_category_score_j)` = Σ_j w_j·((1−α)·s·1[false alarm_j] + α·s·1[miss_j]), and likewise
    for the two penalty variables; `tw` = the (threshold, weight) pairs seen by this case -/
theorem firm_case_eq_spec (lower : Bool) (D : Disc) (hD : Disc.ok D) (α f o : Rat) (tw : List (Rat × Rat)) :
    firmCaseAll (fin f) (fin o) (fin α) (discFl D) (modeStr lower) (tw.map fun p => (fin p.1, fin p.2))
      = ⟨fin (firm lower D α f o tw), fin (firmOver lower D α f o tw), fin (firmUnder lower D α f o tw)⟩ := by
  simp only [firmCaseAll, Model.Firm.firmCase]
  have h1 := foldl_weighted_fin (fun t => single lower D α f o t)
    (fun t => Gen.Firm.firm_score (fin f) (fin o) (fin α) t (discFl D) (modeStr lower)) (fun t => firm_eq lower D hD α f o t) tw 0
  have h2 := foldl_weighted_fin (fun t => overPenalty lower D α f o t)
    (fun t => Gen.Firm.over_penalty (fin f) (fin o) (fin α) t (discFl D) (modeStr lower)) (fun t => over_eq lower D hD α f o t) tw 0
  have h3 := foldl_weighted_fin (fun t => underPenalty lower D α f o t)
    (fun t => Gen.Firm.under_penalty (fin f) (fin o) (fin α) t (discFl D) (modeStr lower)) (fun t => under_eq lower D hD α f o t) tw 0
  simp only [zero_add] at h1 h2 h3
  rw [h1, h2, h3]; rfl

/-- per case, firm = over + under (as sums over the thresholds) -/
theorem firm_case_eq_over_add_under (lower : Bool) (D : Disc) (α f o : Rat) (tw : List (Rat × Rat)) :
    firm lower D α f o tw = firmOver lower D α f o tw + firmUnder lower D α f o tw := by
  unfold firm firmOver firmUnder single
  induction tw with
  | nil => simp
  | cons p ps ih => simp only [List.map_cons, List.sum_cons, ih]; ring

/-! ## 2. FIRM = Σ_j w_j · Murphy elementary score at θ = t_j -/

open SV.Spec.Murphy in
/-- the per-threshold FIRM penalties with 'lower' ARE the Murphy elementary scores at θ = t: quantile (d = 0), Huber with
    a = d (0 < d < ∞), expectile (d = ∞; factor 1, i.e. the elementary score of HALF the asymmetric squared loss) -/
theorem lower_eq_murphy_spec (D : Disc) (α f o t : Rat) :
    overPenalty true D α f o t = (match D with
      | .off => overQ α f o t | .dist d => overH α d f o t | .inf => overE α f o t) ∧
    underPenalty true D α f o t = (match D with
      | .off => underQ α f o t | .dist d => underH α d f o t | .inf => underE α f o t) ∧
    single true D α f o t = murphyElem D α f o t := by
  cases D <;>
    simp [overPenalty, underPenalty, single, murphyElem, falseAlarm, miss, scale, overQ, underQ, overH, underH, overE, underE,
      elemQ, elemH, elemE, overRegion, underRegion]

/-- the functional and Huber parameter murphy_score must be called with -/
def murphyFn : Disc → Model.Murphy.Functional
  | .off => .quantile | .dist _ => .huber | .inf => .expectile
def murphyA : Disc → Fl
  | .dist d => fin d | _ => nan

/-- code to code: `_single_category_score` (multicategorical_impl.py) with 'lower' returns, for each of its three variables,
    what `murphy_score` (murphy_impl.py) returns at θ = the category threshold -/
theorem firm_lower_eq_murphy_cell (D : Disc) (hD : Disc.ok D) (α f o t : Rat) :
    let c := Model.Murphy.cell (murphyFn D) (fin α) (murphyA D) (fin f) (fin o) (fin t)
    Gen.Firm.firm_score (fin f) (fin o) (fin α) (fin t) (discFl D) "lower" = c.total ∧
    Gen.Firm.over_penalty (fin f) (fin o) (fin α) (fin t) (discFl D) "lower" = c.over ∧
    Gen.Firm.under_penalty (fin f) (fin o) (fin α) (fin t) (discFl D) "lower" = c.under := by
  obtain ⟨h1, h2, h3⟩ := lower_eq_murphy_spec D α f o t
  have e1 := firm_eq true D hD α f o t
  have e2 := over_eq true D hD α f o t
  have e3 := under_eq true D hD α f o t
  simp only [modeStr, if_true] at e1 e2 e3
  cases D with
  | off =>
    simp only [murphyFn, murphyA, C11.quantile_cell_eq_spec]
    exact ⟨by rw [e1, h3]; rfl, by rw [e2, h1], by rw [e3, h2]⟩
  | dist d =>
    simp only [murphyFn, murphyA, C11.huber_cell_eq_spec]
    exact ⟨by rw [e1, h3]; rfl, by rw [e2, h1], by rw [e3, h2]⟩
  | inf =>
    simp only [murphyFn, murphyA, C11.expectile_cell_eq_spec]
    exact ⟨by rw [e1, h3]; rfl, by rw [e2, h1], by rw [e3, h2]⟩

/-- FIRM per case with 'lower' = Σ_j w_j · (Murphy elementary score at θ = t_j) -/
theorem firm_lower_eq_murphy (D : Disc) (α f o : Rat) (tw : List (Rat × Rat)) :
    firm true D α f o tw = (tw.map fun p => p.2 * murphyElem D α f o p.1).sum := by
  unfold firm
  congr 1
  apply List.map_congr_left
  intro p _
  rw [(lower_eq_murphy_spec D α f o p.1).2.2]

open SV.Spec.Murphy in
/-- 'upper' is the left-limit version: without discounting, the 'upper' penalty at threshold t equals the quantile
    elementary score at every θ < t with no kink (f or o) strictly between θ and t -/
theorem firm_upper_eq_murphy_left_limit (α f o t θ : Rat) (hθ : θ < t) (hk : noKinkIoo (kinksQ f o) θ t) :
    single false .off α f o t = elemQ α f o θ ∧ overPenalty false .off α f o t = overQ α f o θ ∧
      underPenalty false .off α f o t = underQ α f o θ := by
  obtain ⟨hf, ho⟩ := SV.Lemmas.Murphy.kink2 hk
  have e1 : falseAlarm false f o t ↔ overRegion f o θ := by
    simp only [falseAlarm, overRegion, Bool.false_eq_true, if_false]
    constructor <;> rintro ⟨a, b⟩ <;> rcases hf with hf | hf <;> rcases ho with ho | ho <;> constructor <;> linarith
  have e2 : miss false f o t ↔ underRegion f o θ := by
    simp only [miss, underRegion, Bool.false_eq_true, if_false]
    constructor <;> rintro ⟨a, b⟩ <;> rcases hf with hf | hf <;> rcases ho with ho | ho <;> constructor <;> linarith
  have h1 : overPenalty false .off α f o t = overQ α f o θ := by
    unfold overPenalty overQ; simp only [e1, scale, mul_one]
  have h2 : underPenalty false .off α f o t = underQ α f o θ := by
    unfold underPenalty underQ; simp only [e2, scale, mul_one]
  exact ⟨by unfold single elemQ; rw [h1, h2], h1, h2⟩

example : Spec.Murphy.noKinkIoo (Spec.Murphy.kinksQ 3 1) (5/2) 3 := by
  intro k hk; simp only [Spec.Murphy.kinksQ, List.mem_cons, List.mem_nil_iff, or_false] at hk
  rcases hk with rfl | rfl <;> norm_num

open SV.Spec.Murphy in
/-- 'upper' = the left-limit version, all discount kinds: the 'upper' FIRM penalty at threshold t is the left limit θ ↑ t of
    the Murphy elementary score FIRM-'lower' is built from (value at t of its affine extension from any [θ₀, t) free of kinks) -/
theorem firm_upper_eq_murphy_left_limit_all (D : Disc) (α f o t θ₀ : Rat) (hθ : θ₀ < t)
    (hk : noKinkIoo (kinksOf D f o) θ₀ t) : LeftLimit (murphyElem D α f o) θ₀ t (single false D α f o t) := by
  have h := (upper_over_left_limit D α f o t θ₀ hθ hk).add' (upper_under_left_limit D α f o t θ₀ hθ hk)
  have e : murphyElem D α f o = fun θ => murphyOver D α f o θ + murphyUnder D α f o θ := by
    funext θ; cases D <;> rfl
  rw [e]; exact h

example : Spec.Murphy.noKinkIoo (kinksOf (.dist 1) 3 1) (5/2) 3 := by
  intro k hk; simp only [kinksOf, Spec.Murphy.kinksH, List.mem_cons, List.mem_nil_iff, or_false] at hk
  rcases hk with rfl | rfl | rfl | rfl <;> norm_num


/-! ## 3. Risk matrix score -/

/-- one decision point: weight · p when the forecast probability is at/above p (≥ for 'lower', > for 'upper') and the event
    did not occur, weight · (1 − p) when it is below and the event occurred -/
theorem rm_cell_eq_spec (lower : Bool) (f o p w : Rat) :
    Gen.Firm.rm_cell (fin f) (fin o) (fin p) (fin w) (modeStr lower) = fin (w * rmPenalty lower f o p) := by
  cases lower
  · have hdec : decide (modeStr false = "lower") = false := by decide
    simp only [Gen.Firm.rm_cell, hdec, rmPenalty, above, whereB, isNan_fin, beq_fin, ge_fin, gt_fin, sub_fin, Bool.not_false,
      Bool.and_true, if_true, Bool.false_eq_true, if_false]
    by_cases h0 : o = 0 <;> by_cases h1 : o = 1 <;> by_cases h2 : p < f <;>
      simp [h0, h1, h2] <;> first | done | ring | (exfalso; linarith) | skip
  · have hdec : decide (modeStr true = "lower") = true := by decide
    simp only [Gen.Firm.rm_cell, hdec, rmPenalty, above, whereB, isNan_fin, beq_fin, ge_fin, gt_fin, sub_fin, Bool.not_false,
      Bool.and_true, if_true]
    by_cases h0 : o = 0 <;> by_cases h1 : o = 1 <;> by_cases h2 : p ≤ f <;>
      simp [h0, h1, h2] <;> first | done | ring | (exfalso; linarith) | skip

/-- NaN forecast, observation or weight at a decision point makes that cell NaN … -/
theorem rm_cell_nan (f o p w : Fl) (mode : String) (h : f = nan ∨ o = nan ∨ w = nan) :
    Gen.Firm.rm_cell f o p w mode = nan := by
  rcases h with rfl | rfl | rfl <;> simp [Gen.Firm.rm_cell, whereB]

theorem sum_flatMap_eq {α : Type} (l : List α) (g : α → List Rat) :
    (l.flatMap g).sum = (l.map fun x => (g x).sum).sum := by
  induction l with
  | nil => simp
  | cons x xs ih => simp [List.flatMap_cons, List.sum_append, ih]

/-- … the score of a case is the double sum over probability thresholds and severity categories of weight × penalty … -/
theorem rm_case_eq_spec (lower : Bool) (fo : List (Rat × Rat)) (W : List (Rat × List Rat)) :
    Model.Firm.rmCase (modeStr lower) (fo.map fun c => (fin c.1, fin c.2)) (W.map fun pw => (fin pw.1, pw.2.map fin))
      = fin (rmScore lower fo W) := by
  have hs : Gen.Firm.rm_sum_skipna = false := rfl
  simp only [Model.Firm.rmCase, hs, Bool.false_eq_true, if_false]
  have : (List.flatMap (fun pw : Fl × List Fl => List.map (fun c : (Fl × Fl) × Fl =>
        Gen.Firm.rm_cell c.1.1 c.1.2 pw.1 c.2 (modeStr lower)) ((fo.map fun c => ((fin c.1 : Fl), (fin c.2 : Fl))).zip pw.2))
        (W.map fun pw => ((fin pw.1 : Fl), pw.2.map fin)))
      = (W.flatMap fun pw => (fo.zip pw.2).map fun c => c.2 * rmPenalty lower c.1.1 c.1.2 pw.1).map fin := by
    rw [List.flatMap_map, List.map_flatMap]
    congr 1; funext pw
    simp only [List.zip_map, List.map_map]
    apply List.map_congr_left
    intro c _
    simp only [Function.comp, Prod.map]
    exact rm_cell_eq_spec lower c.1.1 c.1.2 pw.1 c.2
  rw [this, fsum_fin, sum_flatMap_eq]; rfl

/-- … and NaN anywhere in the case (any category's forecast or observation, any weight) makes the case NaN: the sum is
    taken with `skipna=False` (the flag is read off the source by the translator) -/
theorem rm_case_nan (mode : String) (fo : List (Fl × Fl)) (W : List (Fl × List Fl))
    (h : ∃ pw ∈ W, ∃ c ∈ fo.zip pw.2, c.1.1 = nan ∨ c.1.2 = nan ∨ c.2 = nan) : Model.Firm.rmCase mode fo W = nan := by
  have hs : Gen.Firm.rm_sum_skipna = false := rfl
  simp only [Model.Firm.rmCase, hs, Bool.false_eq_true, if_false]
  apply fsum_nan_of_mem
  obtain ⟨pw, hpw, c, hc, hn⟩ := h
  rw [List.mem_flatMap]
  refine ⟨pw, hpw, ?_⟩
  rw [List.mem_map]
  exact ⟨c, hc, rm_cell_nan _ _ _ _ _ hn⟩

example : ∃ pw ∈ [((fin (1/2) : Fl), [(fin 1 : Fl)])], ∃ c ∈ [((nan : Fl), (fin 0 : Fl))].zip pw.2,
    c.1.1 = nan ∨ c.1.2 = nan ∨ c.2 = nan :=
  ⟨(fin (1/2), [fin 1]), List.mem_singleton.mpr rfl, ((nan, fin 0), fin 1), List.mem_singleton.mpr rfl, Or.inl rfl⟩

/-! ## 4. Weight matrices are oriented with rows in decreasing probability, for any order of the supplied coordinates -/

theorem sortAsc_pairwise (l : List Rat) : (sortAsc l).Pairwise (· ≤ ·) := by
  rw [sortAsc_eq]; exact List.pairwise_insertionSort _ l

theorem sortAsc_perm (l : List Rat) : (sortAsc l).Perm l := by
  rw [sortAsc_eq]; exact List.perm_insertionSort _ l

/-- the array returned by `matrix_weights_to_array` keeps the matrix as given and labels row i with the i-th LARGEST
    probability threshold: the row coordinate is a decreasing rearrangement of the supplied thresholds -/
theorem matrix_weights_rows_decreasing (M : List (List Fl)) (sev : List String) (probs : List Rat)
    (wa : Model.Firm.WeightArray) (h : matrixWeightsToArray M sev probs = some wa) :
    wa.probCoords.Pairwise (· ≥ ·) ∧ wa.probCoords.Perm probs ∧ wa.data = M ∧ wa.sevCoords = sev := by
  unfold matrixWeightsToArray at h
  split_ifs at h
  injection h with h; subst h
  refine ⟨?_, ?_, rfl, rfl⟩
  · rw [List.pairwise_reverse]; exact sortAsc_pairwise probs
  · exact (List.reverse_perm _).trans (sortAsc_perm probs)

/-- the result does not depend on the order in which the probability thresholds are supplied -/
theorem matrix_weights_order_invariant (M : List (List Fl)) (sev : List String) (probs probs' : List Rat)
    (hp : probs.Perm probs') : matrixWeightsToArray M sev probs = matrixWeightsToArray M sev probs' := by
  have hs : sortAsc probs = sortAsc probs' :=
    List.Perm.eq_of_pairwise' (sortAsc_pairwise probs) (sortAsc_pairwise probs')
      (((sortAsc_perm probs).trans hp).trans (sortAsc_perm probs').symm)
  unfold matrixWeightsToArray
  rw [hp.length_eq, hp.any_eq (f := fun p => decide (1 ≤ p)), hp.any_eq (f := fun p => decide (p ≤ 0)), hs]

example : (matrixWeightsToArray [[fin 1], [fin 2]] ["s"] [1/4, 3/4]).map (·.probCoords) = some [3/4, 1/4] := by
  decide +kernel

/-! ## 5. The warning-scaling weight matrix (model of `_scaling_to_weight_matrix`, tied by correspondence) -/
section scaling
open SV.Model.Firm (modifyAt levelStep scalingToWeightMatrix)

/-- `weights_from_warning_scaling`'s weight matrix (model of `_scaling_to_weight_matrix`) has one row per probability threshold,
    one column per severity category, and non-negative finite entries — for every scaling matrix, provided the assessment
    weights are non-negative and at least as many as the highest level (both enforced by the input checks) -/
theorem scaling_shape_nonneg (S : List (List Nat)) (w : List Fl) (hw : ∀ x ∈ w, NonNeg x)
    (hlen : S.flatten.foldl Nat.max 0 ≤ w.length) :
    Good (S.length - 1) ((S.headD []).length - 1) (scalingToWeightMatrix S w) := by
  unfold scalingToWeightMatrix
  simp only
  have hml : Nat.max (S.flatten.foldl Nat.max 0) w.length = w.length := Nat.max_eq_right hlen
  rw [hml]
  set n := S.length - 1
  set m := (S.headD []).length - 1
  have hrev : ∀ M, Good n m M → Good n m M.reverse := by
    intro M h
    exact ⟨by rw [List.length_reverse]; exact h.1, fun r hr => h.2 r (List.mem_reverse.mp hr)⟩
  apply hrev
  apply foldl_inv_mem (Good n m)
  · intro wts l0 hl0 hgood
    have hl : l0 < w.length := List.mem_range.mp hl0
    have hP : ∀ st : List (List Fl) × Nat, Good n m st.1 → ∀ c0, Good n m (levelStep S w (l0 + 1) st c0).1 := by
      intro st hst c0
      unfold levelStep
      simp only
      have hv : NonNeg (w.getD (l0 + 1 - 1) nan) := by
        have : w.getD (l0 + 1 - 1) nan = w[l0] := by simp [List.getD, hl]
        rw [this]; exact hw _ (List.getElem_mem hl)
      split_ifs <;> first
        | exact hst
        | exact good_modify _ _ _ _ _ _ hv hst
    exact foldl_inv_mem (fun st : List (List Fl) × Nat => Good n m st.1) _ _ (fun st c0 _ hst => hP st hst c0) _ hgood
  · refine ⟨by simp, fun r hr => ?_⟩
    rw [List.mem_replicate] at hr
    obtain ⟨_, rfl⟩ := hr
    exact ⟨by simp, fun x hx => by rw [List.mem_replicate] at hx; exact ⟨0, hx.2, le_refl _⟩⟩

example : scalingToWeightMatrix [[0, 2, 3, 3], [0, 1, 2, 3], [0, 1, 1, 2], [0, 0, 0, 0]] [fin 1, fin 2, fin 3]
    = [[fin 2, fin 3, fin 0], [fin 0, fin 2, fin 3], [fin 1, fin 0, fin 2]] := by decide +kernel

/-- notes/C12.md N1 on the model: 4 probability thresholds but a single level — the level-1 crossover in the third row
    from the bottom is lost and the weight matrix is identically 0 -/
theorem scaling_tall_matrix_counterexample :
    scalingToWeightMatrix [[0, 1], [0, 1], [0, 0], [0, 0], [0, 0]] [fin 1] = [[fin 0], [fin 0], [fin 0], [fin 0]] := by
  decide +kernel


end scaling

/-! ## 5. Input guards: the model of `_check_firm_inputs` / `_check_risk_matrix_score_inputs` raises exactly outside the
documented domains (`Spec.Firm.firmDomain`, `Spec.Firm.rmDomain`): 0 < α < 1 with BOTH boundaries rejected, every weight
value > 0 (NaN entries allowed), discount distance ≥ 0 (0 and +∞ accepted), at least one threshold, as many weights as
thresholds, `threshold_assignment` ∈ {"upper", "lower"}; forecast probabilities in [0, 1], observations in {0, 1}, probability
thresholds strictly inside (0, 1).  (The model's guard is tied to the implementation by the harness on a boundary grid.) -/
section guards
open SV.Model.Firm (firmRaises rmRaises)

/-- `firm` raises ⇔ the parameters are outside the documented domain -/
theorem firm_guard_iff_domain (nT nW : Nat) (alpha : Fl) (ws : List Fl) (d : Fl) (mode : String)
    (ha : alpha ≠ nan) (hd : d ≠ nan) :
    firmRaises nT nW alpha ws d mode = !firmDomain nT nW alpha ws d mode := by
  unfold firmRaises firmDomain modeOk
  rw [alpha_guard alpha ha, disc_guard d hd, any_not_all ws _ weightOk weight_guard]
  have h1 : decide (nT < 1) = !decide (1 ≤ nT) := by
    by_cases h : 1 ≤ nT
    · simp [h]; omega
    · simp [h]; omega
  have h2 : (nT == nW) = decide (nT = nW) := by
    by_cases h : nT = nW <;> simp [h]
  rw [h1, h2]
  simp only [Bool.not_and]

example : (fin 1 : Fl) ≠ nan ∧ (fin 0 : Fl) ≠ nan := by constructor <;> intro h <;> cases h

/-- the boundaries themselves: α = 0 and α = 1 are rejected, d = 0 and weights > 0 accepted, a single 0 weight rejected -/
theorem firm_guard_boundaries :
    firmRaises 1 1 (fin 1) [fin 1] (fin 0) "lower" = true ∧ firmRaises 1 1 (fin 0) [fin 1] (fin 0) "upper" = true ∧
    firmRaises 1 1 (fin (1/2)) [fin 1] (fin 0) "lower" = false ∧ firmRaises 2 2 (fin (1/2)) [fin 1, fin 0] (fin 0) "lower" = true ∧
    firmRaises 1 1 (fin (1/2)) [fin 1] (fin (-1/1024)) "lower" = true ∧ firmRaises 0 0 (fin (1/2)) [] (fin 0) "lower" = true := by
  decide +kernel

/-- `risk_matrix_score` raises ⇔ a value is outside the documented domain -/
theorem rm_guard_iff_domain (fcsts obs probs : List Fl) (mode : String) (hp : ∀ p ∈ probs, p ≠ nan) :
    rmRaises fcsts obs probs mode = !rmDomain fcsts obs probs mode := by
  unfold rmRaises rmDomain modeOk
  simp only [valid_any]
  rw [any_or_any fcsts, any_not_all fcsts _ probOk prob_guard, any_not_all obs _ binaryOk binary_guard]
  rw [Bool.or_assoc (!fcsts.all probOk || !obs.all binaryOk), any_or_any probs,
    any_not_all_mem probs _ probThresholdOk (fun x hx => thr_guard x (hp x hx))]
  simp only [Bool.not_and, Bool.or_assoc]

example : ∀ p ∈ [(fin (1/2) : Fl), fin 1], p ≠ nan := by
  intro p hp; simp at hp; rcases hp with rfl | rfl <;> intro h <;> cases h

end guards

/-! ## 6. FIRM with infinite forecasts / observations / thresholds (round 5)

`Spec.Firm.overX / underX` evaluate the stated expression (1−α)·scale·1[false alarm] / α·scale·1[miss] in the extended-real
arithmetic of `Fl`.  They agree with the rational Spec on all finite inputs (both the product and the decision form); WITHOUT
discounting the regenerated kernel equals them for EVERY forecast, observation and threshold (±∞ included: the penalty or 0,
NaN only for a NaN operand); with any discount it equals them for an infinite forecast against finite observation and threshold.
(Discounting with an infinite observation / threshold: `inf·0 = nan` in the product form — compared through the driver only.) -/

theorem overX_fin (product lower : Bool) (D : Disc) (α f o t : Rat) :
    overX product lower D α (fin f) (fin o) (fin t) = fin (overPenalty lower D α f o t) := by
  cases D <;> cases lower <;> cases product <;>
    simp only [overX, anyNan3, isNan_fin, Bool.or_false, Bool.false_eq_true, if_false, if_true, scaleX, falseAlarmX, overPenalty,
      falseAlarm, scale, sub_fin, mul_fin, min_fin, le_fin, lt_fin, ofBool, Bool.and_eq_true, decide_eq_true_eq] <;>
    split_ifs <;> simp

theorem underX_fin (product lower : Bool) (D : Disc) (α f o t : Rat) :
    underX product lower D α (fin f) (fin o) (fin t) = fin (underPenalty lower D α f o t) := by
  cases D <;> cases lower <;> cases product <;>
    simp only [underX, anyNan3, isNan_fin, Bool.or_false, Bool.false_eq_true, if_false, if_true, scaleX, missX, underPenalty,
      miss, scale, sub_fin, mul_fin, min_fin, le_fin, lt_fin, ofBool, Bool.and_eq_true, decide_eq_true_eq] <;>
    split_ifs <;> simp

/-- no discount, ANY forecast / observation / threshold (±∞, NaN): overforecast penalty = (1−α)·1[false alarm] in `Fl` -/
theorem over_nodiscount_all (lower : Bool) (α : Rat) (f o t : Fl) :
    Gen.Firm.over_penalty f o (fin α) t (fin 0) (modeStr lower) = overX true lower .off α f o t := by
  cases lower <;> cases f <;> cases o <;> cases t <;>
    simp [Gen.Firm.over_penalty, modeStr, overX, anyNan3, scaleX, falseAlarmX, whereB, ofBool, truthy, isNan, Fl.le, Fl.lt, Fl.beq,
      Fl.mul, Fl.sub, Fl.add, Fl.neg] <;> (try split_ifs) <;> (try simp) <;> (try ring)

theorem under_nodiscount_all (lower : Bool) (α : Rat) (f o t : Fl) :
    Gen.Firm.under_penalty f o (fin α) t (fin 0) (modeStr lower) = underX true lower .off α f o t := by
  cases lower <;> cases f <;> cases o <;> cases t <;>
    simp [Gen.Firm.under_penalty, modeStr, underX, anyNan3, scaleX, missX, whereB, ofBool, truthy, isNan, Fl.le, Fl.lt, Fl.beq,
      Fl.mul, Fl.sub, Fl.add, Fl.neg] <;> (try split_ifs) <;> (try simp) <;> (try ring)

/-- a forecast above every category (+∞) with the observation at or below the threshold is a false alarm costing 1 − α;
    a +∞ threshold ("category cannot occur") costs a finite forecast nothing -/
theorem infinite_forecast_and_threshold_nodiscount (α o t f : Rat) (h : o ≤ t) :
    Gen.Firm.over_penalty pinf (fin o) (fin α) (fin t) (fin 0) "lower" = fin (1 - α) ∧
    Gen.Firm.firm_score (fin f) (fin o) (fin α) pinf (fin 0) "lower" = fin 0 := by
  constructor
  · have := over_nodiscount_all true α pinf (fin o) (fin t)
    simp only [modeStr, if_true] at this
    rw [this]; simp [overX, anyNan3, isNan, scaleX, falseAlarmX, Fl.le, Fl.lt, h, ofBool]
  · rw [firm_score_eq_add]
    have h1 := over_nodiscount_all true α (fin f) (fin o) pinf
    have h2 := under_nodiscount_all true α (fin f) (fin o) pinf
    simp only [modeStr, if_true] at h1 h2
    rw [h1, h2]; simp [overX, underX, anyNan3, isNan, scaleX, falseAlarmX, missX, Fl.le, Fl.lt, ofBool]

example : (1 : Rat) ≤ 2 := by decide

/-- an infinite FORECAST against finite observation and threshold, any discount kind -/
theorem over_inf_fcst (lower : Bool) (D : Disc) (hD : Disc.ok D) (α o t : Rat) (f : Fl) (hf : f = pinf ∨ f = ninf) :
    Gen.Firm.over_penalty f (fin o) (fin α) (fin t) (discFl D) (modeStr lower) = overX true lower D α f (fin o) (fin t) := by
  cases D with
  | off => exact over_nodiscount_all lower α f _ _
  | dist d =>
    have hd := hD d rfl
    rcases hf with rfl | rfl <;> cases lower <;>
      simp only [Gen.Firm.over_penalty, discFl, modeStr, overX, anyNan3, scaleX, falseAlarmX, whereB, ofBool, truthy, isNan_fin, beq_fin,
        le_fin, lt_fin, sub_fin, mul_fin, min_fin, isNan, Fl.le, Fl.lt] <;>
      simp [hd]
  | inf =>
    rcases hf with rfl | rfl <;> cases lower <;>
      simp only [Gen.Firm.over_penalty, discFl, modeStr, overX, anyNan3, scaleX, falseAlarmX, whereB, ofBool, truthy, isNan_fin, beq_fin,
        le_fin, lt_fin, sub_fin, mul_fin, min_fin_pinf, isNan, Fl.le, Fl.lt] <;>
      simp [Fl.beq]

theorem under_inf_fcst (lower : Bool) (D : Disc) (hD : Disc.ok D) (α o t : Rat) (f : Fl) (hf : f = pinf ∨ f = ninf) :
    Gen.Firm.under_penalty f (fin o) (fin α) (fin t) (discFl D) (modeStr lower) = underX true lower D α f (fin o) (fin t) := by
  cases D with
  | off => exact under_nodiscount_all lower α f _ _
  | dist d =>
    have hd := hD d rfl
    rcases hf with rfl | rfl <;> cases lower <;>
      simp only [Gen.Firm.under_penalty, discFl, modeStr, underX, anyNan3, scaleX, missX, whereB, ofBool, truthy, isNan_fin, beq_fin,
        le_fin, lt_fin, sub_fin, mul_fin, min_fin, isNan, Fl.le, Fl.lt] <;>
      simp [hd]
  | inf =>
    rcases hf with rfl | rfl <;> cases lower <;>
      simp only [Gen.Firm.under_penalty, discFl, modeStr, underX, anyNan3, scaleX, missX, whereB, ofBool, truthy, isNan_fin, beq_fin,
        le_fin, lt_fin, sub_fin, mul_fin, min_fin_pinf, isNan, Fl.le, Fl.lt] <;>
      simp [Fl.beq]

example : Disc.ok (.dist 2) ∧ ((ninf : Fl) = pinf ∨ (ninf : Fl) = ninf) := ⟨by intro d h; cases h; norm_num, Or.inr rfl⟩

/-- where the product form is undefined although the decision is clear: discounting with an observation of +∞ — no false alarm
    is possible, the decision form gives 0, the product (−∞)·0 is NaN (and so is the kernel's value) -/
theorem discount_infinite_obs_product_undefined :
    overX false true (.dist 1) (1/2) (fin 0) pinf (fin 1) = fin 0 ∧ overX true true (.dist 1) (1/2) (fin 0) pinf (fin 1) = nan ∧
    Gen.Firm.over_penalty (fin 0) pinf (fin (1/2)) (fin 1) (fin 1) "lower" = nan := by
  refine ⟨?_, ?_, ?_⟩ <;> decide +kernel

end SV.Props.C12
