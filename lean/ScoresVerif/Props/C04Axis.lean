/-
  C04, part 3 — a positional numpy section commutes with re-layout.

  `cdf_envelope` computes `dim_idx = cdf.dims.index(threshold_dim)` and then works on the bare numpy buffer:
  `np.fmax.accumulate(cdf.values, axis=dim_idx)`, `np.flip(…, axis=dim_idx)`, `np.where(~isnan(cdf), …)`.
  `Arr.alongAxis g k a` (Lemmas/C04Axis.lean) is that step written on the row-major buffer with an axis NUMBER
  and positional multi-indices only (no dimension names): every 1-d lane along axis `k` is replaced by `g lane`.
  With `g = Model.Cdf.upperRow / lowerRow` (the row functions of the C17 model of `cdf_envelope`) the theorems
  say: the envelope of a transposed CDF array, taken along the axis number that `dims.index(threshold_dim)`
  yields for THAT array, has at every label the value of the envelope of the original array — "applying the row
  function along the named axis commutes with relayout of the other axes" (and of the axis itself).

  `Arr.collapseAxis g k a` is the flip-flop shape of the same thing: `np.moveaxis(data, k, 0)` and then a function
  of axis 0 (`encompassing_sector_size_np`; model `Model.FlipFlop.sectorNp`) — the axis disappears, the remaining
  axes keep their order, and `g` may depend on the ORDER along the axis (so this is not a case of
  `reduced_relayout_invariant`, which needs an order-insensitive reduction).
-/
import ScoresVerif.Lemmas.C04Axis
import ScoresVerif.Model.Cdf
import ScoresVerif.Model.FlipFlop

namespace SV.Props.C04Axis
open SV SV.Arr

/-- **What the positional section computes, label by label.**  For a well-formed array and `t` one of its
    dimensions, the value at label `x` of `np.apply_along_axis(g, dims.index(t), values)` is entry `x[t]` of `g`
    applied to the list of values along `t` through `x` — whatever position `t` has in the storage order. -/
theorem alongAxis_value_by_label (g : List Fl → List Fl) (a : Arr) (hwf : WF a) (t : String) (ht : t ∈ a.dims)
    (x : Asg) (hx : InRange a.dims a.shape x) :
    (alongAxis g (a.dims.idxOf t) a).get x
      = (g ((List.range (a.sizeOf t)).map fun i => a.get ((t, i) :: x))).getD (lookup x t) Fl.nan :=
  alongAxis_get g a hwf t ht x hx

/-- **The positional section commutes with transposition.**  `dims`/`shape` any permutation of the
    (dimension, size) pairs of `a`; the axis number is recomputed from the transposed array's own dimension order
    (as the code does with `cdf.dims.index(threshold_dim)`). -/
theorem alongAxis_relayout_commutes (g : List Fl → List Fl) (a : Arr) (hwf : WF a) (t : String) (ht : t ∈ a.dims)
    (dims : List String) (shape : List Nat) (hl : dims.length = shape.length)
    (hp : (dims.zip shape).Perm (a.dims.zip a.shape)) (x : Asg) (hx : InRange a.dims a.shape x) :
    (alongAxis g (dims.idxOf t) (a.relayout dims shape)).get x = (alongAxis g (a.dims.idxOf t) a).get x :=
  (sameLabelled_alongAxis g (sameLabelled_relayout hwf hl hp) t ht).get_eq x hx

/-- … equivalently: section-after-transpose is the transpose of the section, at every label -/
theorem alongAxis_relayout_eq_relayout_alongAxis (g : List Fl → List Fl) (a : Arr) (hwf : WF a) (t : String)
    (ht : t ∈ a.dims) (dims : List String) (shape : List Nat) (hl : dims.length = shape.length)
    (hp : (dims.zip shape).Perm (a.dims.zip a.shape)) (x : Asg) (hx : InRange a.dims a.shape x) :
    (alongAxis g (dims.idxOf t) (a.relayout dims shape)).get x
      = ((alongAxis g (a.dims.idxOf t) a).relayout dims shape).get x := by
  have hs := sameLabelled_relayout (a := alongAxis g (a.dims.idxOf t) a) ⟨hwf.nodup, hwf.len⟩ hl hp
  rw [alongAxis_relayout_commutes g a hwf t ht dims shape hl hp x hx]
  exact (hs.get_eq x hx).symm

/-- the result of the section on another layout is another layout of the result (so a following reduction or
    pointwise step is covered by `Props/C04Reduce.lean`) -/
theorem alongAxis_sameLabelled (g : List Fl → List Fl) (a a' : Arr) (h : SameLabelled a a') (t : String)
    (ht : t ∈ a.dims) : SameLabelled (alongAxis g (a.dims.idxOf t) a) (alongAxis g (a'.dims.idxOf t) a') :=
  sameLabelled_alongAxis g h t ht

/-- **`cdf_envelope`, "upper"**: `np.where(~isnan(cdf), np.fmax.accumulate(cdf.values, axis=dim_idx), nan)` on a
    transposed CDF array gives the same value at every label -/
theorem cdf_envelope_upper_relayout (a : Arr) (hwf : WF a) (thr : String) (ht : thr ∈ a.dims)
    (dims : List String) (shape : List Nat) (hl : dims.length = shape.length)
    (hp : (dims.zip shape).Perm (a.dims.zip a.shape)) (x : Asg) (hx : InRange a.dims a.shape x) :
    (alongAxis Model.Cdf.upperRow (dims.idxOf thr) (a.relayout dims shape)).get x
      = (alongAxis Model.Cdf.upperRow (a.dims.idxOf thr) a).get x :=
  alongAxis_relayout_commutes _ a hwf thr ht dims shape hl hp x hx

/-- **`cdf_envelope`, "lower"**: `flip(1 - fmax.accumulate(1 - flip(cdf, axis), axis), axis)` masked, likewise -/
theorem cdf_envelope_lower_relayout (a : Arr) (hwf : WF a) (thr : String) (ht : thr ∈ a.dims)
    (dims : List String) (shape : List Nat) (hl : dims.length = shape.length)
    (hp : (dims.zip shape).Perm (a.dims.zip a.shape)) (x : Asg) (hx : InRange a.dims a.shape x) :
    (alongAxis Model.Cdf.lowerRow (dims.idxOf thr) (a.relayout dims shape)).get x
      = (alongAxis Model.Cdf.lowerRow (a.dims.idxOf thr) a).get x :=
  alongAxis_relayout_commutes _ a hwf thr ht dims shape hl hp x hx

/-! ### Non-vacuity and a witness that the axis number matters -/

/-- two CDF rows over 3 thresholds, stored ("case","thr"): the first row decreases at the 3rd threshold -/
def exC : Arr := ⟨["case", "thr"], [2, 3], #[.fin 0, .fin (1/2), .fin (1/5), .fin (1/4), .nan, .fin 1]⟩

example : WF exC := ⟨by decide, by decide⟩
example : "thr" ∈ exC.dims := by decide
example : (["thr", "case"].zip [3, 2]).Perm (exC.dims.zip exC.shape) := by decide
example : InRange exC.dims exC.shape [("case", 0), ("thr", 2)] := by refine ⟨by decide, by decide, trivial⟩

/-- the upper envelope on the original layout (axis 1) … -/
example : (alongAxis Model.Cdf.upperRow (exC.dims.idxOf "thr") exC).data
    = #[.fin 0, .fin (1/2), .fin (1/2), .fin (1/4), .nan, .fin 1] := by decide +kernel
/-- … and on the transposed layout (axis 0): stored differently, same labelled values -/
example : (alongAxis Model.Cdf.upperRow (["thr", "case"].idxOf "thr") (exC.relayout ["thr", "case"] [3, 2])).data
    = #[.fin 0, .fin (1/4), .fin (1/2), .nan, .fin (1/2), .fin 1] := by decide +kernel
/-- the statement is not empty: addressing the transposed buffer with the ORIGINAL axis number (what a section
    that forgot to recompute `dim_idx` would do) gives a different value at the label (case 0, thr 2) -/
example : (alongAxis Model.Cdf.upperRow 1 (exC.relayout ["thr", "case"] [3, 2])).get [("case", 0), ("thr", 2)]
    ≠ (alongAxis Model.Cdf.upperRow 1 exC).get [("case", 0), ("thr", 2)] := by decide +kernel

/-! ### The collapsing section (`np.moveaxis(data, k, 0)` + a function of axis 0) -/

/-- **By label**: the value at label `x` (over the remaining dimensions) of the collapsing section along axis number
    `dims.index(t)` is `g` of the values along `t` in their storage order along `t`, other indices as in `x` -/
theorem collapseAxis_value_by_label (g : List Fl → Fl) (a : Arr) (hwf : WF a) (t : String) (ht : t ∈ a.dims)
    (x : Asg) (hx : InRange (a.dims.eraseIdx (a.dims.idxOf t)) (a.shape.eraseIdx (a.dims.idxOf t)) x) :
    (collapseAxis g (a.dims.idxOf t) a).get x
      = g ((List.range (a.sizeOf t)).map fun i => a.get ((t, i) :: x)) :=
  collapseAxis_get g a hwf t ht x hx

/-- **The collapsing section commutes with transposition**, for EVERY lane function `g` (order-sensitive ones
    included): the order along `t` is kept, the other axes may be stored in any order -/
theorem collapseAxis_relayout_commutes (g : List Fl → Fl) (a : Arr) (hwf : WF a) (t : String) (ht : t ∈ a.dims)
    (dims : List String) (shape : List Nat) (hl : dims.length = shape.length)
    (hp : (dims.zip shape).Perm (a.dims.zip a.shape)) (x : Asg)
    (hx : InRange (a.dims.eraseIdx (a.dims.idxOf t)) (a.shape.eraseIdx (a.dims.idxOf t)) x) :
    (collapseAxis g (dims.idxOf t) (a.relayout dims shape)).get x = (collapseAxis g (a.dims.idxOf t) a).get x :=
  (sameLabelled_collapseAxis g (sameLabelled_relayout hwf hl hp) t ht).get_eq x hx

/-- the collapsed result of another layout is another layout of the collapsed result -/
theorem collapseAxis_sameLabelled (g : List Fl → Fl) (a a' : Arr) (h : SameLabelled a a') (t : String)
    (ht : t ∈ a.dims) : SameLabelled (collapseAxis g (a.dims.idxOf t) a) (collapseAxis g (a'.dims.idxOf t) a') :=
  sameLabelled_collapseAxis g h t ht

/-- **flip-flop / `encompassing_sector_size_np(data, axis_to_collapse)`**: with the model's sector function along
    the axis number of the sampling dimension, a transposed input gives the same value at every label -/
theorem flipflop_sector_relayout (skipna : Bool) (a : Arr) (hwf : WF a) (t : String) (ht : t ∈ a.dims)
    (dims : List String) (shape : List Nat) (hl : dims.length = shape.length)
    (hp : (dims.zip shape).Perm (a.dims.zip a.shape)) (x : Asg)
    (hx : InRange (a.dims.eraseIdx (a.dims.idxOf t)) (a.shape.eraseIdx (a.dims.idxOf t)) x) :
    (collapseAxis (Model.FlipFlop.sectorNp skipna) (dims.idxOf t) (a.relayout dims shape)).get x
      = (collapseAxis (Model.FlipFlop.sectorNp skipna) (a.dims.idxOf t) a).get x :=
  collapseAxis_relayout_commutes _ a hwf t ht dims shape hl hp x hx

/-! Non-vacuity for the collapsing section, with an order-SENSITIVE lane function (the first value along the axis) -/
example : InRange (exC.dims.eraseIdx (exC.dims.idxOf "thr")) (exC.shape.eraseIdx (exC.dims.idxOf "thr")) [("case", 1)] := by
  refine ⟨by decide, trivial⟩
example : (collapseAxis (fun l => l.headD .nan) (exC.dims.idxOf "thr") exC).data = #[.fin 0, .fin (1/4)] := by
  decide +kernel
example : (collapseAxis (fun l => l.headD .nan) (["thr", "case"].idxOf "thr") (exC.relayout ["thr", "case"] [3, 2])).data
    = #[.fin 0, .fin (1/4)] := by decide +kernel
/-- with the stale axis number the transposed buffer gives something else -/
example : (collapseAxis (fun l => l.headD .nan) 1 (exC.relayout ["thr", "case"] [3, 2])).data
    = #[.fin 0, .fin (1/2), .fin (1/5)] := by decide +kernel

end SV.Props.C04Axis
