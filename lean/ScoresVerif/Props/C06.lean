/-
  C06 — ensemble CRPS is the exact CRPS of the ensemble, and its weighted parts add up.
-/
import ScoresVerif.Model.CrpsEns
import ScoresVerif.Spec.CrpsEns

namespace SV.Props.C06
end SV.Props.C06
