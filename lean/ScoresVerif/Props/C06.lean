/-
  C06 — ensemble CRPS is the exact CRPS of the ensemble, and its weighted parts add up.

  The theorems are about `SV.Model.CrpsEns.*` — the line-by-line model of `crps_for_ensemble`,
  `tw_crps_for_ensemble`, `tail_tw_crps_for_ensemble`, `interval_tw_crps_for_ensemble` (crps_impl.py), tied to the
  source by the differential correspondence of tools/sv/props/c06.py — against `SV.Spec.CrpsEns.*`, the exact
  step-function integral ∫ (F_ens − 1{· ≥ y})².  All statements hold for ensembles of any size and any rationals.
  Members are `xs.map Fl.fin` (finite) unless the theorem is about missing (NaN) members.
-/
import ScoresVerif.Lemmas.CrpsEns
import ScoresVerif.Lemmas.CrpsEnsBrier

namespace SV.Props.C06
open SV SV.Model.CrpsEns SV.Spec.CrpsEns SV.Lemmas.CrpsEns

/-! ## 1. 'ecdf' = the exact integral of (F_ens − H_y)² -/

/-- finite members, any ensemble size ≥ 1 -/
theorem crpsEns_ecdf_eq_integral {xs : List Rat} (hx : xs ≠ []) (y : Rat) :
    total .ecdf (xs.map Fl.fin) (Fl.fin y) = Fl.fin (crpsIntegral xs y) := by
  rw [total_ecdf_fin hx, kernelEcdf_eq_integral hx]
example : ([1, 3, 3] : List Rat) ≠ [] := by decide

/-- the value for `include_components=True` is the same `total` -/
theorem components_total (m : Method) (xs : List Fl) (y : Fl) : (components m xs y).total = total m xs y := rfl

/-- missing members (NaN) are dropped: every component is the one of the ensemble of valid members -/
theorem crpsEns_nan_members_dropped (m : Method) (xs : List Fl) (y : Fl) :
    components m xs y = components m (valid xs) y := components_valid m xs y

/-- with missing members: members that are rationals or NaN, at least one rational — the value is the integral for the
    ensemble of the non-missing members (`Spec.crpsEcdfFl` drops NaN members) -/
theorem crpsEns_ecdf_eq_integral_nan {xs : List Fl} (hfin : ∀ x ∈ xs, x = Fl.nan ∨ ∃ q, x = Fl.fin q) (y : Rat) :
    total .ecdf xs (Fl.fin y) = crpsEcdfFl xs (Fl.fin y) := by
  have hv : valid xs = (finVals xs).map Fl.fin := by
    induction xs with
    | nil => rfl
    | cons a l ih =>
      have ih' := ih (fun x hx => hfin x (List.mem_cons_of_mem _ hx))
      rcases hfin a (by simp) with rfl | ⟨q, rfl⟩
      · simpa [valid, finVals] using ih'
      · simp only [valid, List.filter_cons, Fl.notNan_fin, if_true, finVals, List.map_cons] at ih' ⊢; rw [ih']
  have h1 : total .ecdf xs (Fl.fin y) = total .ecdf (valid xs) (Fl.fin y) := by
    have := components_valid .ecdf xs (Fl.fin y); exact congrArg Components.total this
  rw [h1, hv]; unfold crpsEcdfFl
  by_cases he : finVals xs = []
  · simp [he, total, fcstObsTerm, nanmean, valid]
  · rw [crpsEns_ecdf_eq_integral he]; simp [he]
example : ∀ x ∈ ([Fl.fin 1, Fl.nan, Fl.fin 3] : List Fl), x = Fl.nan ∨ ∃ q, x = Fl.fin q := by
  intro x hx; simp at hx; rcases hx with rfl | rfl | rfl <;> simp

/-- a missing observation gives NaN -/
theorem crpsEns_nan_obs (m : Method) (xs : List Fl) : total m xs Fl.nan = Fl.nan := total_nan_obs m xs

/-! ## 2. 'fair' differs from 'ecdf' by the documented spread normalisation only -/

theorem crpsEns_fair_eq_integral_sub_offset {xs : List Rat} (hx : 2 ≤ xs.length) (y : Rat) :
    total .fair (xs.map Fl.fin) (Fl.fin y) = Fl.fin (crpsIntegral xs y - fairOffset xs) := by
  have hne : xs ≠ [] := by intro h; simp [h] at hx
  rw [total_fair_fin hx, ← kernelEcdf_eq_integral hne]
  congr 1
  unfold kernelFair kernelEcdf fairOffset
  rw [pairSum_eq]
  have h2 : (2 : Rat) ≤ xs.length := by exact_mod_cast hx
  have h1 : (xs.length : Rat) - 1 ≠ 0 := by linarith
  have h0 : (xs.length : Rat) ≠ 0 := by linarith
  field_simp; ring
example : 2 ≤ ([1, 3] : List Rat).length := by decide

/-- F8: one valid member and 'fair' is 0/0 = NaN (the IEEE value of the documented formula) -/
theorem crpsEns_fair_single_member (a : Rat) (y : Fl) : total .fair [Fl.fin a] y = Fl.nan := total_fair_single a y

/-! ## 3. components: total = underforecast + overforecast − spread -/

theorem total_eq_under_add_over_sub_spread (m : Method) {xs : List Rat} (hx : xs ≠ []) (y : Rat) :
    let c := components m (xs.map Fl.fin) (Fl.fin y)
    c.total = Fl.sub (Fl.add c.under c.over) c.spread := by
  simp only [components, total]
  rw [spreadComp_fin hx, fcstObs_eq_under_add_over hx]

/-- the penalties are the documented means of (y − x)⁺ and (x − y)⁺ over the members -/
theorem under_eq_doc {xs : List Rat} (hx : xs ≠ []) (y : Rat) :
    under (xs.map Fl.fin) (Fl.fin y) = Fl.fin ((xs.map fun x => if x < y then y - x else 0).sum / xs.length) :=
  under_fin hx y
theorem over_eq_doc {xs : List Rat} (hx : xs ≠ []) (y : Rat) :
    over (xs.map Fl.fin) (Fl.fin y) = Fl.fin ((xs.map fun x => if y < x then x - y else 0).sum / xs.length) :=
  over_fin hx y

/-! ## 4. lower tail + interval + upper tail = unweighted CRPS -/

/-- the pointwise partition identity of the three chaining functions -/
theorem chaining_partition {a b : Rat} (hab : a ≤ b) (x y : Rat) :
    |min x a - min y a| + |min (max x a) b - min (max y a) b| + |max x b - max y b| = |x - y| :=
  partition_abs hab x y
example : (0 : Rat) ≤ 1 / 2 := by norm_num

/-- for every split a ≤ b, both methods, any ensemble for which the method yields a number
    (`enough`: ≥ 1 member for 'ecdf', ≥ 2 for 'fair') -/
theorem tail_interval_tail_eq_crps (m : Method) {a b : Rat} (hab : a ≤ b) {xs : List Rat} (h : enough m xs.length) (y : Rat) :
    Fl.add (Fl.add (tailLower (Fl.fin a) m (xs.map Fl.fin) (Fl.fin y)).total
                   (interval (Fl.fin a) (Fl.fin b) m (xs.map Fl.fin) (Fl.fin y)).total)
           (tailUpper (Fl.fin b) m (xs.map Fl.fin) (Fl.fin y)).total
      = total m (xs.map Fl.fin) (Fl.fin y) := by
  simp only [tailLower, tailUpper, interval, tw, components_total, map_chainLower, map_chainUpper, map_chainInterval,
    chainLower, chainUpper, chainInterval, min_fin, max_fin]
  have e1 : ∀ z, min z a = vLo a z := fun _ => rfl
  have e2 : ∀ z, min (max z a) b = vMid a b z := fun _ => rfl
  have e3 : ∀ z, max z b = vHi b z := fun _ => rfl
  rw [e1, e2, e3, total_fin (by simpa using h), total_fin (by simpa using h), total_fin (by simpa using h), total_fin h]
  simp only [Fl.add_fin, kernel_partition m hab]
example : enough .fair ([0, 1, 1] : List Rat).length := by show 2 ≤ 3; decide

/-- … and so do the three components (`include_components=True`): underforecast, overforecast, spread -/
theorem tail_interval_tail_eq_crps_components (m : Method) {a b : Rat} (hab : a ≤ b) {xs : List Rat}
    (h : enough m xs.length) (y : Rat) :
    let lo := tailLower (Fl.fin a) m (xs.map Fl.fin) (Fl.fin y)
    let mid := interval (Fl.fin a) (Fl.fin b) m (xs.map Fl.fin) (Fl.fin y)
    let hi := tailUpper (Fl.fin b) m (xs.map Fl.fin) (Fl.fin y)
    let c := components m (xs.map Fl.fin) (Fl.fin y)
    Fl.add (Fl.add lo.under mid.under) hi.under = c.under ∧
    Fl.add (Fl.add lo.over mid.over) hi.over = c.over ∧
    Fl.add (Fl.add lo.spread mid.spread) hi.spread = c.spread := by
  have hne : xs ≠ [] := by intro e; cases m <;> simp [enough, e] at h
  have hM := length_ne_zero hne
  have n1 : xs.map (vLo a) ≠ [] := by simpa using hne
  have n2 : xs.map (vMid a b) ≠ [] := by simpa using hne
  have n3 : xs.map (vHi b) ≠ [] := by simpa using hne
  have e1 : ∀ z, min z a = vLo a z := fun _ => rfl
  have e2 : ∀ z, min (max z a) b = vMid a b z := fun _ => rfl
  have e3 : ∀ z, max z b = vHi b z := fun _ => rfl
  simp only [tailLower, tailUpper, interval, tw, components, map_chainLower, map_chainUpper, map_chainInterval,
    chainLower, chainUpper, chainInterval, min_fin, max_fin]
  rw [e1, e2, e3]
  refine ⟨?_, ?_, ?_⟩
  · rw [under_fin n1, under_fin n2, under_fin n3, under_fin hne]
    simp only [Fl.add_fin, List.length_map]
    rw [← underSum_partition hab xs y]; congr 1; ring
  · rw [over_fin n1, over_fin n2, over_fin n3, over_fin hne]
    simp only [Fl.add_fin, List.length_map]
    rw [← overSum_partition hab xs y]; congr 1; ring
  · rw [spreadComp_fin n1, spreadComp_fin n2, spreadComp_fin n3, spreadComp_fin hne,
      spreadTerm_fin (by simpa using h), spreadTerm_fin (by simpa using h), spreadTerm_fin (by simpa using h), spreadTerm_fin h]
    simp only [Fl.add_fin, spreadQ_partition m hab]
example : enough .ecdf ([2] : List Rat).length := by show 1 ≤ 1; decide

/-! ## 5. invariances -/

/-- member order (any members, incl. NaN / inf; every component) -/
theorem crps_perm (m : Method) {xs xs' : List Fl} (p : xs.Perm xs') (y : Fl) :
    components m xs y = components m xs' y := components_perm m p y
example : ([Fl.fin 1, Fl.nan, Fl.fin 2] : List Fl).Perm [Fl.nan, Fl.fin 2, Fl.fin 1] := by decide

theorem crps_translate (m : Method) (c : Rat) {xs : List Rat} (h : enough m xs.length) (y : Rat) :
    total m ((xs.map (· + c)).map Fl.fin) (Fl.fin (y + c)) = total m (xs.map Fl.fin) (Fl.fin y) := by
  rw [total_fin (by simpa using h), total_fin h, kernel_translate]

theorem crps_scale (m : Method) (c : Rat) {xs : List Rat} (h : enough m xs.length) (y : Rat) :
    total m ((xs.map (c * ·)).map Fl.fin) (Fl.fin (c * y)) = Fl.mul (Fl.fin |c|) (total m (xs.map Fl.fin) (Fl.fin y)) := by
  rw [total_fin (by simpa using h), total_fin h, kernel_scale, Fl.mul_fin]

/-! ## 6. sign -/

theorem crps_ecdf_nonneg {xs : List Rat} (hx : xs ≠ []) (y : Rat) :
    ∃ v : Rat, total .ecdf (xs.map Fl.fin) (Fl.fin y) = Fl.fin v ∧ 0 ≤ v :=
  ⟨kernelEcdf xs y, total_ecdf_fin hx y, kernelEcdf_nonneg hx y⟩

theorem crps_ecdf_eq_zero_iff {xs : List Rat} (hx : xs ≠ []) (y : Rat) :
    total .ecdf (xs.map Fl.fin) (Fl.fin y) = Fl.fin 0 ↔ ∀ x ∈ xs, x = y := by
  rw [total_ecdf_fin hx, ← kernelEcdf_eq_zero_iff hx]
  constructor
  · intro h; injection h
  · intro h; rw [h]

/-- the integral itself is non-negative (independent of the kernel form) -/
theorem crpsIntegral_nonneg (xs : List Rat) (y : Rat) : 0 ≤ crpsIntegral xs y :=
  stepIntegral_nonneg (fun t => by unfold integrand; positivity) (pairwise_grid _)

/-! ## 7. integrating the ensemble Brier score over all thresholds reproduces the CRPS -/

/-- the per-case formula of `brier_score_for_ensemble` (model) is the documented one: (i/m − 1{y ≥ θ})² minus, with
    `fair_correction`, i(m−i)/(m²(m−1)) (0 for a single member) -/
theorem brierEns_eq_doc (fair : Bool) {xs : List Rat} (hx : xs ≠ []) (y θ : Rat) :
    brierEns fair (xs.map Fl.fin) (Fl.fin y) (Fl.fin θ)
      = Fl.fin (brier xs y θ - (if fair then brierFairCorr xs θ else 0)) := brierEns_fin fair hx y θ

/-- ∫ Brier(θ) dθ = CRPS ('ecdf'), exact step integration over the member/obs grid -/
theorem brier_integral_eq_crps {xs : List Rat} (hx : xs ≠ []) (y : Rat) :
    brierIntegral false xs y = crpsIntegral xs y := brierIntegral_false_eq hx y

/-- ∫ fair Brier(θ) dθ = fair CRPS -/
theorem brier_integral_fair_eq_crps_fair {xs : List Rat} (hx : 2 ≤ xs.length) (y : Rat) :
    brierIntegral true xs y = crpsIntegral xs y - fairOffset xs := brierIntegral_true_eq hx y

/-- … hence equal to the values `crps_for_ensemble` (model) returns -/
theorem brier_integral_eq_crpsEns {xs : List Rat} (hx : xs ≠ []) (y : Rat) :
    total .ecdf (xs.map Fl.fin) (Fl.fin y) = Fl.fin (brierIntegral false xs y) := by
  rw [brier_integral_eq_crps hx, crpsEns_ecdf_eq_integral hx]
theorem brier_integral_fair_eq_crpsEns_fair {xs : List Rat} (hx : 2 ≤ xs.length) (y : Rat) :
    total .fair (xs.map Fl.fin) (Fl.fin y) = Fl.fin (brierIntegral true xs y) := by
  rw [brier_integral_fair_eq_crps_fair hx, crpsEns_fair_eq_integral_sub_offset hx]

/-
  Each threshold-weighted value INDIVIDUALLY equals the weighted integral (formerly the open `tw_eq_weighted_integral_stmt`):
  proved in Props/C06Tw.lean — `tw_ecdf_eq_weighted_integral`, `tail_upper/tail_lower/interval_ecdf_eq_weighted_integral`,
  the 'fair' variants, NaN members, per-case thresholds — and as Lebesgue integrals in Props/C06TwBridge.lean.
-/

end SV.Props.C06
