/-
  C07 — CRPS for CDF forecasts equals the exact threshold-weighted integral.

  Theorems about the executable model `SV.Model.CrpsCdf` of scores.probability.crps_impl
  (crps_cdf_exact with the per-piece weight of commit c6c9dbb, crps_cdf_trapz, crps_cdf_brier_decomposition) against
  `SV.Spec.CrpsCdf`: on the common grid, `exactParts` is Σ_cells w_cell · Simpson((lin − H)²) and `trapzParts`
  the trapezoid sums.  The pointwise kernels are the regenerated ones (`SV.Gen.Cdf`, tie T); the whole
  pipeline (grid union, filling, broadcasting) is tied by the correspondence check.
-/
import ScoresVerif.Gen.Cdf
import ScoresVerif.Model.CrpsCdf
import ScoresVerif.Spec.CrpsCdf
import ScoresVerif.Lemmas.CrpsCdf

namespace SV.Props.C07
open SV SV.Model.Cdf SV.Model.CrpsCdf SV.Lemmas.Cdf SV.Lemmas.CrpsCdf
open SV.Fl (fin nan)
open SV.Spec.CrpsCdf (cellSq simpson lin exactParts trapzParts)

/-! ## 0. tie T: the model's kernels are the regenerated ones -/

theorem piece_eq_gen (dx yprev y : Fl) :
    piece dx yprev y = SV.Gen.Cdf.piece_integral (SV.Gen.Cdf.m_values (Fl.sub y yprev) dx) yprev dx := rfl

theorem piecesW_step_eq_gen (x0 x1 : Rat) (xs : List Rat) (y0 y1 p0 p1 : Fl) (ys ps : List Fl) :
    piecesW (x0 :: x1 :: xs) (y0 :: y1 :: ys) (p0 :: p1 :: ps) =
      SV.Gen.Cdf.piece_integral_weighted (piece (fin (x1 - x0)) y0 y1) p1 :: piecesW (x1 :: xs) (y1 :: ys) (p1 :: ps) := rfl

theorem exact_total_eq_gen (g : List Rat) (f o w : List Fl) :
    (exactRow g f o w).total = SV.Gen.Cdf.exact_total (exactRow g f o w).over (exactRow g f o w).under := rfl

theorem trapz_integrands_eq_gen (g : List Rat) (f o w : List Fl) :
    (trapzRow g f o w).total = Fl.whereB (trapz g (zip3 (fun f o w => SV.Gen.Cdf.trapz_total_integrand w f o) f o w)) (inputsWithoutNan f o w) ∧
    (trapzRow g f o w).over = Fl.whereB (trapz g (zip3 (fun f o w => SV.Gen.Cdf.trapz_over_integrand w f o) f o w)) (inputsWithoutNan f o w) ∧
    (trapzRow g f o w).under = SV.Gen.Cdf.trapz_under (trapzRow g f o w).total (trapzRow g f o w).over := ⟨rfl, rfl, rfl⟩

theorem brier_score_eq_gen (f o : List Fl) :
    (brierRow f o).1 = List.zipWith Fl.add (brierRow f o).2.2 (brierRow f o).2.1 ∧
    (brierRow f o).2.2 = List.zipWith (fun b o => Fl.whereB (Fl.whereB b (Fl.beq o one) (fin 0)) (!b.isNan))
      (List.zipWith SV.Gen.Cdf.brier_score f o) o := ⟨rfl, rfl⟩

/-! ## 1. the piece formula -/

/-- `m²Δ³/3 + mbΔ² + b²Δ = Δ(p² + pq + q²)/3` for the linear piece from `p` to `q` over a cell of width `Δ ≠ 0` -/
theorem piece_eq (d p q : Rat) (hd : d ≠ 0) : piece (fin d) (fin p) (fin q) = fin (d * (p * p + p * q + q * q) / 3) :=
  piece_fin d p q hd

/-- … which is Simpson's rule for the square of (the linear piece − h) on the cell -/
theorem piece_eq_simpson (a b fa fb h : Rat) (hab : a ≠ b) :
    piece (fin (b - a)) (fin (fa - h)) (fin (fb - h)) = fin (cellSq a b fa fb h) := piece_eq_cellSq a b fa fb h hab

/-- Simpson's rule is exact on quadratics: it is the difference of the antiderivative at the end points.  The
    integrand `w (lin − h)²` of a cell is such a quadratic, so the Spec's cell value IS the integral over the cell -/
theorem simpson_eq_antiderivative (c0 c1 c2 a b : Rat) :
    simpson (fun x => c0 + c1 * x + c2 * (x * x)) a b =
      (c0 * b + c1 * (b * b) / 2 + c2 * (b * b * b) / 3) - (c0 * a + c1 * (a * a) / 2 + c2 * (a * a * a) / 3) :=
  simpson_quadratic c0 c1 c2 a b

example : (1 : Rat) ≠ 0 ∧ (0 : Rat) ≠ 2 := by decide +kernel
example : piece (fin 2) (fin (1/4)) (fin (3/4)) = fin (13/24) := by decide +kernel

/-! ## 2. exact integration = the weighted integral, for EVERY non-negative step weight -/

/-- concrete case used by the examples: grid 0 < 1 < 2 < 3, the observation 1 is a grid point, weight (1, 0, ½, ·) -/
def exG : List Rat := [0, 1, 2, 3]
def exF : List Rat := [1/4, 1/2, 3/4, 1]
def exW : List Rat := [1, 0, 1/2, 1]
theorem exG_incr : Incr exG := by simp [exG, Incr]; norm_num
theorem exG_noStraddle : NoStraddle 1 exG := noStraddle_of_mem exG_incr (by simp [exG])

/-- total, under-forecast and over-forecast penalty of `crps_cdf_exact` equal the Spec's weighted cell sums
    `Σ_cells w_cell · Simpson((lin − H)²)` — wherever the observation lies on the grid -/
theorem exact_eq_spec (obs : Rat) (g f w : List Rat) (hg : Incr g) (hs : NoStraddle obs g)
    (hf : f.length = g.length) (hw : w.length = g.length) :
    (exactRow g (f.map fin) (observedRow g (fin obs)) (w.map fin)).total = fin (exactParts obs g f w).total ∧
    (exactRow g (f.map fin) (observedRow g (fin obs)) (w.map fin)).under = fin (exactParts obs g f w).under ∧
    (exactRow g (f.map fin) (observedRow g (fin obs)) (w.map fin)).over = fin (exactParts obs g f w).over :=
  exactRow_eq_spec obs g f w hg hs hf hw

/-- the hypothesis `NoStraddle` holds whenever the observation is one of the grid points (crps_cdf always adds it) -/
theorem obs_on_grid (obs : Rat) (g : List Rat) (hg : Incr g) (hm : obs ∈ g) : NoStraddle obs g := noStraddle_of_mem hg hm

example : Incr exG ∧ NoStraddle 1 exG ∧ exF.length = exG.length ∧ exW.length = exG.length :=
  ⟨exG_incr, exG_noStraddle, rfl, rfl⟩
example : (exactRow exG (exF.map fin) (observedRow exG (fin 1)) (exW.map fin)).total = fin (5/32) ∧
    (exactRow exG (exF.map fin) (observedRow exG (fin 1)) (exW.map fin)).under = fin (7/48) := by decide +kernel
-- the repaired defects F3 / F3b as regression facts of the model
example : (exactRow exG (exF.map fin) (observedRow exG (fin 0)) ([1/2, 1/2, 1/2, 1/2].map fin)).total = fin (9/32) := by decide +kernel
example : (exactRow exG (exF.map fin) (observedRow exG (fin 0)) ([1, 0, 1, 1].map fin)).total = fin (5/12) := by decide +kernel

/-- under + over = total (exact), by construction for every input … -/
theorem exact_under_add_over (g : List Rat) (f o w : List Fl) :
    (exactRow g f o w).total = Fl.add (exactRow g f o w).over (exactRow g f o w).under := rfl
/-- … and as numbers on NaN-free inputs -/
theorem exact_parts_sum (obs : Rat) (g f w : List Rat) (hg : Incr g) (hs : NoStraddle obs g) :
    (exactParts obs g f w).total = (exactParts obs g f w).under + (exactParts obs g f w).over :=
  (pieces_eq_spec obs g f w hg hs).2.2

/-- both components are non-negative for non-negative weights -/
theorem exact_components_nonneg (obs : Rat) (g f w : List Rat) (hg : Incr g) (hw : NonNeg w) :
    0 ≤ (exactParts obs g f w).under ∧ 0 ≤ (exactParts obs g f w).over := exactParts_nonneg obs g f w hg hw

example : NonNeg exW := by intro x hx; simp [exW] at hx; rcases hx with rfl | rfl | rfl | rfl <;> norm_num

/-! ## 3. trapezoid method -/

/-- total and both components of `crps_cdf_trapz` are the trapezoid sums of the integrand sampled on the grid -/
theorem trapz_eq_spec (obs : Rat) (g f w : List Rat) (hf : f.length = g.length) (hw : w.length = g.length) :
    (trapzRow g (f.map fin) (observedRow g (fin obs)) (w.map fin)).total = fin (trapzParts obs g f w).total ∧
    (trapzRow g (f.map fin) (observedRow g (fin obs)) (w.map fin)).under = fin (trapzParts obs g f w).under ∧
    (trapzRow g (f.map fin) (observedRow g (fin obs)) (w.map fin)).over = fin (trapzParts obs g f w).over :=
  trapzRow_eq_spec obs g f w hf hw

/-- **trapz (w = 1) = trapezoid integral of the Brier decomposition over the same thresholds**, total and
    both components -/
theorem trapz_eq_integral_of_brier (obs : Rat) (g f : List Rat) (hf : f.length = g.length) :
    let F := f.map fin; let O := observedRow g (fin obs)
    (trapzRow g F O ((ones g).map fin)).total = trapz g (brierRow F O).1 ∧
    (trapzRow g F O ((ones g).map fin)).under = trapz g (brierRow F O).2.1 ∧
    (trapzRow g F O ((ones g).map fin)).over = trapz g (brierRow F O).2.2 := trapzRow_eq_trapz_brier obs g f hf

example : exF.length = exG.length := rfl
example : (trapzRow exG (exF.map fin) (observedRow exG (fin 1)) ((ones exG).map fin)).total = fin (11/32) := by decide +kernel

/-- under + over = total for the trapezoid method -/
theorem trapz_parts_sum (obs : Rat) (g f w : List Rat) (hf : f.length = g.length) (hw : w.length = g.length) :
    (trapzParts obs g f w).total = (trapzParts obs g f w).under + (trapzParts obs g f w).over := by
  obtain ⟨e1, e2, e3⟩ := trapzParts_eq obs g f w hf hw
  rw [e1, e2, e3]; ring

/-! ## 4. weights that sum to one give scores that sum to the unweighted CRPS -/

theorem complementary_weights_exact (obs : Rat) (g f w w' : List Rat) (hl : w.length = w'.length)
    (hsum : addW w w' = ones g) :
    (exactParts obs g f w).total + (exactParts obs g f w').total = (exactParts obs g f (ones g)).total ∧
    (exactParts obs g f w).under + (exactParts obs g f w').under = (exactParts obs g f (ones g)).under ∧
    (exactParts obs g f w).over + (exactParts obs g f w').over = (exactParts obs g f (ones g)).over := by
  obtain ⟨a, b, c⟩ := exactParts_add obs g f w w' hl
  rw [← hsum]; exact ⟨a.symm, b.symm, c.symm⟩

theorem complementary_weights_trapz (obs : Rat) (g f w w' : List Rat) (hl : w.length = w'.length)
    (hsum : addW w w' = ones g) :
    (trapzParts obs g f w).total + (trapzParts obs g f w').total = (trapzParts obs g f (ones g)).total ∧
    (trapzParts obs g f w).under + (trapzParts obs g f w').under = (trapzParts obs g f (ones g)).under ∧
    (trapzParts obs g f w).over + (trapzParts obs g f w').over = (trapzParts obs g f (ones g)).over := by
  obtain ⟨a, b, c⟩ := trapzParts_add obs g f w w' hl
  rw [← hsum]; exact ⟨a.symm, b.symm, c.symm⟩

/-- at the level of the code's exact path: the two weighted totals add up to the unweighted total -/
theorem complementary_weights_model (obs : Rat) (g f w w' : List Rat) (hg : Incr g) (hs : NoStraddle obs g)
    (hf : f.length = g.length) (hw : w.length = g.length) (hw' : w'.length = g.length) (hsum : addW w w' = ones g) :
    Fl.add (exactRow g (f.map fin) (observedRow g (fin obs)) (w.map fin)).total
           (exactRow g (f.map fin) (observedRow g (fin obs)) (w'.map fin)).total =
      (exactRow g (f.map fin) (observedRow g (fin obs)) ((ones g).map fin)).total := by
  rw [(exact_eq_spec obs g f w hg hs hf hw).1, (exact_eq_spec obs g f w' hg hs hf hw').1,
    (exact_eq_spec obs g f (ones g) hg hs hf (by simp [ones])).1, Fl.add_fin,
    (complementary_weights_exact obs g f w w' (hw.trans hw'.symm) hsum).1]

example : exW.length = ([0, 1, 1/2, 0] : List Rat).length ∧ addW exW [0, 1, 1/2, 0] = ones exG := by decide +kernel

/-! ## 5. NaN is case-local -/

/-- a NaN anywhere in the (filled) forecast, observation CDF or weight of a case makes that case NaN … -/
theorem nan_case_exact (g : List Rat) (f o w : List Fl) (h : inputsWithoutNan f o w = false) :
    (exactRow g f o w).total = nan ∧ (exactRow g f o w).under = nan ∧ (exactRow g f o w).over = nan := exactRow_nan g f o w h
theorem nan_case_trapz (g : List Rat) (f o w : List Fl) (h : inputsWithoutNan f o w = false) :
    (trapzRow g f o w).total = nan ∧ (trapzRow g f o w).under = nan ∧ (trapzRow g f o w).over = nan := trapzRow_nan g f o w h

example : inputsWithoutNan [fin 0, nan] [fin 0, fin 1] [fin 1, fin 1] = false := by decide +kernel

/-- … with `propagate_nans` a single NaN ordinate blanks the whole forecast row before filling, and a blank row
    stays blank under every fill method (fewer than 2 points) -/
theorem propagate_then_fill_blank (thr : List Rat) (xs : List Fl) (method : String) (h : anyNan xs = true) :
    fillRow thr (propagateNan xs) method 2 = List.replicate xs.length nan := by
  rw [propagateNan_of_nan xs h]
  have hc : ((count (List.replicate xs.length nan) : Nat) : Int) < 2 := by
    simp [count, valid, List.filter_replicate]
  simpa using fillRow_blank thr (List.replicate xs.length nan) method 2 hc

/-- … and the score of a case depends only on that case's filled forecast / observation / weight and the common
    grid: the pipeline maps over the cases -/
theorem rows_independent (cfg : Cfg) (grid : List Rat) (f o w : List Fl) (fs os ws : List (List Fl)) :
    crpsCdf.go cfg grid (f :: fs) (o :: os) (w :: ws) =
      (if cfg.integ = "exact" then exactRow grid f o w else trapzRow grid f o w) :: crpsCdf.go cfg grid fs os ws := rfl

/-! ## 6. known finding F18: a non-negative weight with a value above 1 is rejected

  `crps_cdf` fills the weight with `fill_cdf`, whose CDF bounds guard raises for values > 1.  The theorems
  above are about the integration step and hold for every weight; the restriction sits in the input pipeline:
  with weights in [0,1] the guard is silent (`weight_in_unit_accepted`), with a weight 2 the call raises
  (`weight_above_one_counterexample`), although the property's integral would be 9/8. -/

theorem weight_in_unit_accepted (rows : List (List Fl)) (h : ∀ r ∈ rows, Unit01 r) : withinBounds rows = true := by
  unfold withinBounds
  simp only [Bool.or_eq_true, Bool.and_eq_true, List.all_eq_true]
  by_cases he : (valid rows.flatten).isEmpty
  · exact Or.inl he
  · refine Or.inr ⟨?_, ?_⟩ <;>
    · intro x hx
      have hx' : x ∈ rows.flatten := (List.mem_filter.mp hx).1
      obtain ⟨r, hr, hxr⟩ := List.mem_flatten.mp hx'
      rcases h r hr x hxr with rfl | ⟨q, rfl, h0, h1⟩
      · simp [valid] at hx
      · simp [Fl.ge, h0, h1]

example : ∀ r ∈ [[fin 0, fin (1/2), nan, fin 1]], Unit01 r := by
  intro r hr x hx
  simp only [List.mem_cons, List.not_mem_nil, or_false] at hr
  subst hr
  simp only [List.mem_cons, List.not_mem_nil, or_false] at hx
  rcases hx with rfl | rfl | rfl | rfl
  · exact Or.inr ⟨0, rfl, le_rfl, zero_le_one⟩
  · exact Or.inr ⟨1/2, rfl, by norm_num, by norm_num⟩
  · exact Or.inl rfl
  · exact Or.inr ⟨1, rfl, zero_le_one, le_rfl⟩

theorem weight_above_one_counterexample :
    (crpsCdf exG [exF.map fin] [fin 0] (some { thr := exG, rows := [[fin 2, fin 2, fin 2, fin 2]] }) [] {}).toBool = false ∧
    (exactParts 0 exG exF [2, 2, 2, 2]).total = 9 / 8 := by decide +kernel

end SV.Props.C07
