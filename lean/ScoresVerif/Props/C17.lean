/-
  C17 — CDF repair tools bracket the input minimally; CRPS adjustment never flatters.

  Theorems about the executable model `SV.Model.Cdf` / `SV.Model.CrpsCdf` (tied to
  scores.processing.cdf.cdf_functions and scores.probability.crps_impl.adjust_fcst_for_crps by the
  correspondence check, and for the decreasing-sum kernel by the translator: `SV.Gen.Cdf`).
  `finVals xs` is the list of the non-NaN ordinates of a row, in place; "NaN positions are preserved and
  ignored" is the pair of statements `(env xs).map isNan = xs.map isNan` and
  `finVals (env xs) = <running max / reverse running min> (finVals xs)`.
-/
import ScoresVerif.Gen.Cdf
import ScoresVerif.Model.CrpsCdf
import ScoresVerif.Lemmas.Cdf
import ScoresVerif.Lemmas.CdfSpec

namespace SV.Props.C17
open SV SV.Model.Cdf SV.Model.CrpsCdf SV.Lemmas.Cdf
open SV.Fl (fin nan)

/-- a concrete row with a decreasing run, a plateau and a NaN, used by the non-vacuity examples -/
def exRow : List Fl := [fin 0, fin (1/2), nan, fin (1/5), fin (1/5), fin 1]

theorem exRow_noInf : NoInf exRow := by
  intro x hx
  simp only [exRow, List.mem_cons, List.not_mem_nil, or_false] at hx
  rcases hx with rfl | rfl | rfl | rfl | rfl | rfl <;> simp

/-! ## 0. tie T: the decreasing-sum kernel is the regenerated one -/

theorem decreasingRow_eq_gen (xs : List Fl) (tol : Rat) :
    decreasingRow xs tol = SV.Gen.Cdf.decreasing_flag (nansum ((diffs xs).map SV.Gen.Cdf.decrease_clipped)) (fin tol) := rfl

/-! ## 1. cdf_envelope -/

/-- NaN positions are preserved by the upper envelope … -/
theorem upper_isNan (xs : List Fl) (h : NoInf xs) : (upperRow xs).map Fl.isNan = xs.map Fl.isNan :=
  upperRow_isNan xs h
/-- … and by the lower envelope -/
theorem lower_isNan (xs : List Fl) (h : NoInf xs) : (lowerRow xs).map Fl.isNan = xs.map Fl.isNan :=
  lowerRow_isNan xs h

/-- upper = running maximum of the non-NaN ordinates (`np.fmax.accumulate`, NaN ignored) -/
theorem upper_eq_running_max (xs : List Fl) (h : NoInf xs) : finVals (upperRow xs) = runMaxQ (finVals xs) :=
  upperRow_finVals xs h

/-- lower = reverse running minimum of the non-NaN ordinates (the code's `1 − fmax.accumulate(1 − flip)`) -/
theorem lower_eq_reverse_running_min (xs : List Fl) (h : NoInf xs) : finVals (lowerRow xs) = revMinQ (finVals xs) :=
  lowerRow_finVals xs h

/-- the upper envelope is, position by position, the largest non-NaN ordinate at positions `≤ i`, NaN staying NaN —
    the index-wise Spec the oracle evaluates -/
theorem upper_eq_spec (xs : List Fl) (h : NoInf xs) : upperRow xs = SV.Spec.Cdf.upper xs :=
  SV.Lemmas.CdfSpec.upperRow_eq_spec xs h

/- stretch, not proved (compared by the oracle only):
   lower_eq_spec_stmt : NoInf xs → lowerRow xs = SV.Spec.Cdf.lower xs
   fill_eq_spec_stmt  : fillRow thr xs m k = SV.Spec.Cdf.fillRow thr xs m k   (knot-function reading of the four methods) -/

example : NoInf exRow := exRow_noInf
example : finVals (upperRow exRow) = [0, 1/2, 1/2, 1/2, 1] := by decide +kernel
example : finVals (lowerRow exRow) = [0, 1/5, 1/5, 1/5, 1] := by decide +kernel
example : (upperRow exRow).map Fl.isNan = [false, false, true, false, false, false] := by decide +kernel

/-- prefix maximum: entry `i` of the running maximum is the maximum of the first `i+1` ordinates -/
theorem running_max_is_prefix_max (x : Rat) (q : List Rat) (i : Nat) (hi : i < (x :: q).length) :
    (runMaxQ (x :: q))[i]? = some (((x :: q).take (i + 1)).foldl max x) := runMaxQ_getElem? x q i hi

example : (2 : Nat) < ((0 : Rat) :: [1/2, 1/5, 1]).length := by decide

/-- suffix minimum: the reverse running minimum read from the right is the running minimum of the reversed row -/
theorem reverse_running_min_def (q : List Rat) : (revMinQ q).reverse = runMinQ q.reverse := by simp [revMinQ]

/-- both envelopes are non-decreasing -/
theorem upper_mono (xs : List Fl) (h : NoInf xs) : List.IsChain (· ≤ ·) (finVals (upperRow xs)) := by
  rw [upperRow_finVals xs h]; exact runMaxQ_chain _
theorem lower_mono (xs : List Fl) (h : NoInf xs) : List.IsChain (· ≤ ·) (finVals (lowerRow xs)) := by
  rw [lowerRow_finVals xs h]; exact revMinQ_chain _

/-- lower ≤ original ≤ upper -/
theorem original_le_upper (xs : List Fl) (h : NoInf xs) :
    List.Forall₂ (· ≤ ·) (finVals xs) (finVals (upperRow xs)) := by
  rw [upperRow_finVals xs h]; exact runMaxQ_ge _
theorem lower_le_original (xs : List Fl) (h : NoInf xs) :
    List.Forall₂ (· ≤ ·) (finVals (lowerRow xs)) (finVals xs) := by
  rw [lowerRow_finVals xs h]; exact revMinQ_le _
theorem lower_le_upper (xs : List Fl) (h : NoInf xs) :
    List.Forall₂ (· ≤ ·) (finVals (lowerRow xs)) (finVals (upperRow xs)) := by
  rw [upperRow_finVals xs h, lowerRow_finVals xs h]; exact revMinQ_le_runMaxQ _

/-- upper is the LEAST non-decreasing majorant … -/
theorem upper_least (xs : List Fl) (h : NoInf xs) (ys : List Rat)
    (hdom : List.Forall₂ (· ≤ ·) (finVals xs) ys) (hmono : List.IsChain (· ≤ ·) ys) :
    List.Forall₂ (· ≤ ·) (finVals (upperRow xs)) ys := by
  rw [upperRow_finVals xs h]; exact runMaxQ_least _ _ hdom hmono
/-- … lower the GREATEST non-decreasing minorant -/
theorem lower_greatest (xs : List Fl) (h : NoInf xs) (ys : List Rat)
    (hdom : List.Forall₂ (· ≤ ·) ys (finVals xs)) (hmono : List.IsChain (· ≤ ·) ys) :
    List.Forall₂ (· ≤ ·) ys (finVals (lowerRow xs)) := by
  rw [lowerRow_finVals xs h]; exact revMinQ_greatest _ _ hdom hmono

example : List.Forall₂ (· ≤ ·) (finVals exRow) [0, 3/4, 3/4, 3/4, 1] ∧ List.IsChain (· ≤ ·) ([0, 3/4, 3/4, 3/4, 1] : List Rat) := by
  decide +kernel

/-- all three coincide for a non-decreasing input -/
theorem envelope_of_mono (xs : List Fl) (h : NoInf xs) (hmono : List.IsChain (· ≤ ·) (finVals xs)) :
    finVals (upperRow xs) = finVals xs ∧ finVals (lowerRow xs) = finVals xs := by
  rw [upperRow_finVals xs h, lowerRow_finVals xs h]
  exact ⟨runMaxQ_of_chain _ hmono, revMinQ_of_chain _ hmono⟩

example : List.IsChain (· ≤ ·) (finVals [fin 0, nan, fin (1/2), fin (1/2), fin 1]) := by decide +kernel

/-! ## 2. fill_cdf / add_thresholds -/

/-- given ordinates are kept by every method when the row has at least `min_nonnan` of them -/
theorem fill_keeps_given (thr : List Rat) (xs : List Fl) (method : String) (k : Int)
    (hlen : thr.length = xs.length) (hu : Unit01 xs) (henough : k ≤ (count xs : Int)) :
    Keeps xs (fillRow thr xs method k) := fillRow_keeps thr xs method k hlen hu henough

/-- every filled value is NaN or lies in [0,1] -/
theorem fill_in_unit_interval (thr : List Rat) (xs : List Fl) (method : String) (k : Int) (hu : Unit01 xs) :
    Unit01 (fillRow thr xs method k) := fillRow_unit thr xs method k hu

/-- fewer than `min_nonnan` points ⇒ the whole CDF is NaN -/
theorem fill_blank (thr : List Rat) (xs : List Fl) (method : String) (k : Int) (h : (count xs : Int) < k) :
    fillRow thr xs method k = List.replicate xs.length nan := fillRow_blank thr xs method k h

def exGap : List Fl := [nan, fin (1/4), nan, fin (3/4), nan]
theorem exGap_unit : Unit01 exGap := by
  intro x hx
  simp only [exGap, List.mem_cons, List.not_mem_nil, or_false] at hx
  rcases hx with rfl | rfl | rfl | rfl | rfl
  · exact Or.inl rfl
  · exact Or.inr ⟨1/4, rfl, by norm_num, by norm_num⟩
  · exact Or.inl rfl
  · exact Or.inr ⟨3/4, rfl, by norm_num, by norm_num⟩
  · exact Or.inl rfl
example : Unit01 exGap ∧ ([0, 1, 2, 3, 4] : List Rat).length = exGap.length ∧ (2 : Int) ≤ (count exGap : Int) :=
  ⟨exGap_unit, rfl, by decide +kernel⟩
example : ((count exGap : Nat) : Int) < 3 := by decide +kernel

/-- each method is its description -/
theorem fill_linear_eq (thr : List Rat) (xs : List Fl) (k : Int) (h : k ≤ (count xs : Int)) :
    fillRow thr xs "linear" k = (interpolateNa thr xs).map (fun v => Fl.min (Fl.max v (fin 0)) (fin 1)) := by
  simp [fillRow, h]
theorem fill_step_eq (thr : List Rat) (xs : List Fl) (k : Int) (h : k ≤ (count xs : Int)) :
    fillRow thr xs "step" k = (ffill xs).map (fun v => Fl.fillna v (fin 0)) := by
  simp [fillRow, h]
theorem fill_forward_eq (thr : List Rat) (xs : List Fl) (k : Int) (h : k ≤ (count xs : Int)) :
    fillRow thr xs "forward" k = bfill (ffill xs) := by
  simp [fillRow, h]
theorem fill_backward_eq (thr : List Rat) (xs : List Fl) (k : Int) (h : k ≤ (count xs : Int)) :
    fillRow thr xs "backward" k = ffill (bfill xs) := by
  simp [fillRow, h]

example : fillRow [0, 1, 2, 3, 4] exGap "linear" 2 = [fin 0, fin (1/4), fin (1/2), fin (3/4), fin 1] := by decide +kernel
example : fillRow [0, 1, 2, 3, 4] exGap "step" 2 = [fin 0, fin (1/4), fin (1/4), fin (3/4), fin (3/4)] := by decide +kernel
example : fillRow [0, 1, 2, 3, 4] exGap "forward" 2 = [fin (1/4), fin (1/4), fin (1/4), fin (3/4), fin (3/4)] := by decide +kernel
example : fillRow [0, 1, 2, 3, 4] exGap "backward" 2 = [fin (1/4), fin (1/4), fin (3/4), fin (3/4), fin (3/4)] := by decide +kernel

/-! ## 3. decreasing_cdfs -/

/-- a NaN-free CDF is flagged exactly when its total decrease `Σ max(0, x_k − x_{k+1})` exceeds the tolerance -/
theorem decreasing_iff_total_decrease (q : List Rat) (tol : Rat) :
    decreasingRow (q.map fin) tol = decide (tol < Spec.Cdf.totalDecrease q) := decreasingRow_iff q tol

/-- an all-NaN CDF is never flagged -/
theorem decreasing_allNan (n : Nat) (tol : Rat) (h : 0 ≤ tol) : decreasingRow (List.replicate n nan) tol = false :=
  decreasingRow_allNan n tol h

example : Spec.Cdf.totalDecrease [0, 2/5, 3/10, 9/10, 22/25, 1] = 3/25 := by decide +kernel
example : decreasingRow ([0, 2/5, 3/10, 9/10, 22/25, 1].map fin) (3/25) = false ∧
          decreasingRow ([0, 2/5, 3/10, 9/10, 22/25, 1].map fin) (1/10) = true := by decide +kernel

/-! ## 4. propagate_nan, observed_cdf, round_values -/

theorem propagate_nan_some (xs : List Fl) (h : anyNan xs = true) : propagateNan xs = List.replicate xs.length nan :=
  propagateNan_of_nan xs h
theorem propagate_nan_none (xs : List Fl) (h : anyNan xs = false) : propagateNan xs = xs :=
  propagateNan_of_noNan xs h
example : anyNan exRow = true ∧ anyNan [fin 0, fin 1] = false := by decide +kernel

/-- the observed CDF is `1{threshold ≥ obs}`; a NaN observation gives a NaN row -/
theorem observed_cdf_indicator (grid : List Rat) (o : Rat) :
    observedRow grid (fin o) = grid.map fun t => if o ≤ t then fin 1 else fin 0 := observedRow_fin grid o
theorem observed_cdf_nan (grid : List Rat) : observedRow grid nan = List.replicate grid.length nan :=
  observedRow_nan grid

/-- round_values: nearest multiple of the precision, ties to the even multiple (for precisions whose
    multiples survive the final decimal rounding — every dyadic precision down to 2⁻⁷ with 7 decimals) -/
theorem round_values_nearest (q p : Rat) (decpl : Nat) (hp : 0 < p)
    (hrep : ∀ n : Int, ∃ k : Int, ((n : Rat) * p) * (10 : Rat) ^ decpl = k) :
    ∃ n : Int, roundQ q p decpl = n * p ∧ |q - n * p| ≤ p / 2 ∧ (|q - n * p| = p / 2 → n % 2 = 0) :=
  roundQ_nearest q p decpl hp hrep
theorem round_values_zero_precision (q : Rat) (d : Nat) : roundQ q 0 d = q := roundQ_zero q d

example : (0 : Rat) < 1/4 ∧ ∀ n : Int, ∃ k : Int, ((n : Rat) * (1/4)) * (10 : Rat) ^ 7 = k :=
  ⟨by norm_num, fun n => ⟨n * 2500000, by push_cast; ring⟩⟩
example : roundQ (3/8) (1/4) = 1/2 ∧ roundQ (5/8) (1/4) = 1/2 ∧ roundQ (373/100) (1/5) = 19/5 := by decide +kernel

/-! ## 5. adjust_fcst_for_crps -/

/-- `idxmax` over (original, upper, lower): the first maximum -/
theorem idxmax3_fin (a b c : Rat) :
    idxmax3 (fin a) (fin b) (fin c) = some (if b ≤ a ∧ c ≤ a then 0 else if c ≤ b then 1 else 2) := by
  unfold idxmax3
  simp only [List.filter, Fl.isNan_fin, Bool.not_false, List.foldl, Fl.lt_fin]
  by_cases h1 : a < b <;> by_cases h2 : b < c <;> by_cases h3 : a < c <;>
    simp [h1, h2, h3]
  all_goals
    split_ifs with k1 k2 <;> first | rfl | (exfalso; linarith [k1.1, k1.2]) | (exfalso; linarith)

theorem idxmax3_nan : idxmax3 nan nan nan = none := rfl

/-- the CRPS of the candidate that `idxmax` selects is the largest of the three — in particular it is never
    smaller than the CRPS of the original forecast ("never flatters"); ties prefer original, then upper -/
theorem adjust_never_flatters (a b c : Rat) :
    ∃ k, idxmax3 (fin a) (fin b) (fin c) = some k ∧ a ≤ [a, b, c].getD k 0 ∧ b ≤ [a, b, c].getD k 0 ∧ c ≤ [a, b, c].getD k 0 ∧
      (k = 0 ↔ b ≤ a ∧ c ≤ a) ∧ (k = 1 → c ≤ b) := by
  refine ⟨_, idxmax3_fin a b c, ?_⟩
  split_ifs with k1 k2
  · simp [k1.1, k1.2]
  · have : a ≤ b := by
      by_contra h; exact k1 ⟨(not_le.mp h).le, k2.trans (not_le.mp h).le⟩
    simp [k1, k2, this]
  · have hbc : b < c := not_le.mp k2
    have : a ≤ c := by
      by_contra h; exact k1 ⟨(hbc.trans (not_le.mp h)).le, (not_le.mp h).le⟩
    simp [k1, hbc.le, this]

/-- when no CDF decreases beyond the tolerance the forecast is returned unchanged (after NaN propagation) -/
theorem adjust_unchanged (fthr : List Rat) (frows : List (List Fl)) (obs : List Fl) (tol : Rat)
    (additional : List Fl) (fillF integ : String) (dec : List Bool)
    (htol : ¬ tol < 0)
    (hdec : decreasingCdfs fthr (frows.map propagateNan) tol = .ok dec) (hnone : dec.any id = false) :
    adjustFcst fthr frows obs tol additional fillF integ = .ok (frows.map propagateNan) := by
  unfold adjustFcst
  simp [htol, hdec, hnone, bind, Except.bind, pure, Except.pure]

example : decreasingCdfs [0, 1, 2] ([[fin 0, fin (1/2), fin 1], [nan, fin 1, fin 0]].map propagateNan) 0 = .ok [false, false] := by
  decide +kernel

/-- a decreasing case is replaced by whichever of (original, upper, lower) `idxmax` selects; a case that is
    not flagged keeps its (NaN-propagated) original row — one step of the row-wise selection -/
theorem adjust_row (r : List Fl) (d : Bool) (e : List Fl × List Fl × List Fl) (a b c : Parts)
    (rs : List (List Fl)) (ds : List Bool) (es : List (List Fl × List Fl × List Fl)) (as bs cs : List Parts) :
    adjustFcst.go (r :: rs) (d :: ds) (e :: es) (a :: as) (b :: bs) (c :: cs) =
      (if d then
          match idxmax3 a.total b.total c.total with
          | some 0 => e.1
          | some 1 => e.2.1
          | some _ => e.2.2
          | none => r
        else r) :: adjustFcst.go rs ds es as bs cs := rfl

end SV.Props.C17
