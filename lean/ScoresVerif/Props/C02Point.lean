/-
  C02 for POINT scores — the per-case kernels of `mse`, `mae`, `additive_bias` (and their angular variants) and
  `apply_weights`, regenerated from continuous/standard_impl.py and functions.py on every run (Gen/Point.lean):
  the per-case value is NaN exactly when forecast, observation (or weight) is NaN; hence the preserve-all output
  carries NaN exactly at those cases and the mean over cases equals the mean after deleting them.

  "Exactly when" is for inputs that are numbers or NaN (`ofOpt : Option Rat → Fl`); with infinite inputs IEEE
  arithmetic itself creates NaN (`inf − inf`), see `mse_kernel_inf_witness`.  The "if" direction holds for every `Fl`.
-/
import ScoresVerif.Props.C02
import ScoresVerif.Gen.Point
import ScoresVerif.Lemmas.C02Lists
import Mathlib.Tactic.NormNum

namespace SV.Props.C02Point
open SV SV.Fl SV.Gen.Point SV.Lemmas.C02Lists

/-! ## 1. one case -/

theorem angular_difference_fin (a b : Rat) : ∃ q, angular_difference (fin a) (fin b) = fin q := by
  have h360 : ((360 : Rat) / 1 = 0) = False := by norm_num
  simp only [angular_difference, sub_fin, abs_fin, Fl.mod, h360, if_false, whereB, le_fin]
  split
  · exact ⟨_, rfl⟩
  · exact ⟨_, rfl⟩

theorem angular_difference_nan_left (x : Fl) : angular_difference nan x = nan := by
  simp [angular_difference, Fl.mod, whereB]
theorem angular_difference_nan_right (x : Fl) : angular_difference x nan = nan := by
  simp [angular_difference, Fl.mod, whereB]

/-- a NaN forecast or observation gives a NaN per-case value, for EVERY other input (infinities included) -/
theorem kernels_nan (ang : Bool) (x : Fl) :
    mse_kernel ang nan x = nan ∧ mse_kernel ang x nan = nan ∧ mae_kernel ang nan x = nan ∧ mae_kernel ang x nan = nan ∧
    additive_bias_kernel nan x = nan ∧ additive_bias_kernel x nan = nan := by
  cases ang <;>
    simp [mse_kernel, mae_kernel, additive_bias_kernel, angular_difference_nan_left, angular_difference_nan_right]

/-- a NaN weight gives a NaN weighted value; without weights the value is untouched -/
theorem apply_weights_nan (v : Fl) : apply_weights v nan true = nan ∧ apply_weights nan v true = nan ∧
    apply_weights v nan false = v := by simp [apply_weights]

/-- **`mse` per case is NaN iff the forecast or the observation is NaN** (plain and angular) -/
theorem mse_kernel_nan_iff (ang : Bool) (f o : Option Rat) :
    (mse_kernel ang (ofOpt f) (ofOpt o)).isNan = true ↔ f = none ∨ o = none := by
  cases f with
  | none => simp [(kernels_nan ang _).1]
  | some a =>
    cases o with
    | none => simp [(kernels_nan ang _).2.1]
    | some b =>
      cases ang
      · simp [mse_kernel]
      · obtain ⟨q, hq⟩ := angular_difference_fin a b
        simp [mse_kernel, hq]

/-- **`mae` per case is NaN iff the forecast or the observation is NaN** (plain and angular) -/
theorem mae_kernel_nan_iff (ang : Bool) (f o : Option Rat) :
    (mae_kernel ang (ofOpt f) (ofOpt o)).isNan = true ↔ f = none ∨ o = none := by
  cases f with
  | none => simp [(kernels_nan ang _).2.2.1]
  | some a =>
    cases o with
    | none => simp [(kernels_nan ang _).2.2.2.1]
    | some b =>
      cases ang
      · simp [mae_kernel]
      · obtain ⟨q, hq⟩ := angular_difference_fin a b
        simp [mae_kernel, hq]

/-- **`additive_bias` (mean error) per case is NaN iff the forecast or the observation is NaN** -/
theorem additive_bias_kernel_nan_iff (f o : Option Rat) :
    (additive_bias_kernel (ofOpt f) (ofOpt o)).isNan = true ↔ f = none ∨ o = none := by
  cases f <;> cases o <;> simp [additive_bias_kernel]

/-- weighted per-case value: NaN iff the value or the weight is NaN — a zero weight does NOT hide a NaN and a NaN
    weight is not a zero weight -/
theorem apply_weights_nan_iff (v w : Option Rat) :
    (apply_weights (ofOpt v) (ofOpt w) true).isNan = true ↔ v = none ∨ w = none := by
  cases v <;> cases w <;> simp [apply_weights]

/-- scope of the "only if": with infinite inputs IEEE arithmetic makes a NaN out of non-NaN inputs -/
theorem mse_kernel_inf_witness : mse_kernel false pinf pinf = nan ∧ pinf.isNan = false := by decide +kernel

/-! ## 2. the preserve-all output: NaN exactly at the cases with a NaN input -/

/-- a per-case function of forecast and observation that is NaN iff one of them is missing -/
def NanExact (k : Fl → Fl → Fl) : Prop :=
  ∀ f o : Option Rat, (k (ofOpt f) (ofOpt o)).isNan = true ↔ f = none ∨ o = none

theorem nanExact_mse (ang : Bool) : NanExact (mse_kernel ang) := mse_kernel_nan_iff ang
theorem nanExact_mae (ang : Bool) : NanExact (mae_kernel ang) := mae_kernel_nan_iff ang
theorem nanExact_additive_bias : NanExact additive_bias_kernel := additive_bias_kernel_nan_iff

/-- both inputs present -/
def complete (c : Option Rat × Option Rat) : Bool := c.1.isSome && c.2.isSome

/-- the per-case values over a list of cases (`preserve_dims="all"`) -/
def pointwise (k : Fl → Fl → Fl) (cs : List (Option Rat × Option Rat)) : List Fl :=
  cs.map fun c => k (ofOpt c.1) (ofOpt c.2)

theorem isNan_eq_not_complete {k : Fl → Fl → Fl} (hk : NanExact k) (c : Option Rat × Option Rat) :
    (k (ofOpt c.1) (ofOpt c.2)).isNan = !complete c := by
  have h := hk c.1 c.2
  obtain ⟨f, o⟩ := c
  cases hn : (k (ofOpt f) (ofOpt o)).isNan
  · have : ¬(f = none ∨ o = none) := fun hh => by simp [h.mpr hh] at hn
    cases f <;> cases o <;> simp_all [complete]
  · have := h.mp hn
    rcases this with rfl | rfl <;> simp [complete]

/-- **NaN mask of the preserve-all output = the cases with a NaN input**, position by position, any number of cases:
    for `mse`, `mae` (plain/angular) and `additive_bias` via `nanExact_*` -/
theorem pointwise_nan_mask {k : Fl → Fl → Fl} (hk : NanExact k) (cs : List (Option Rat × Option Rat)) :
    (pointwise k cs).map Fl.isNan = cs.map fun c => !complete c := by
  unfold pointwise
  rw [List.map_map]
  exact List.map_congr_left (fun c _ => isNan_eq_not_complete hk c)
example : NanExact (mse_kernel true) := nanExact_mse true

/-! ## 3. aggregation: the mean over cases = the mean after deleting the cases with a NaN input -/

/-- **mean over all cases = mean over the list with every incomplete case deleted**, and that list contains no NaN,
    so it is the plain (non-skipping) mean of it; also the number of cases averaged = number of complete cases -/
theorem mean_eq_mean_without_nan_cases {k : Fl → Fl → Fl} (hk : NanExact k) (cs : List (Option Rat × Option Rat)) :
    nanmean (pointwise k cs) = nanmean (pointwise k (cs.filter complete)) ∧
    nanmean (pointwise k cs) = strictmean (pointwise k (cs.filter complete)) ∧
    count (pointwise k cs) = (cs.filter complete).length := by
  have hv : valid (pointwise k cs) = pointwise k (cs.filter complete) := by
    unfold pointwise
    apply valid_map_filter_eq (fun c => k (ofOpt c.1) (ofOpt c.2)) complete
    · intro c hc
      have := isNan_eq_not_complete hk c
      rw [hc] at this
      exact (Fl.isNan_iff _).mp this
    · intro c hc
      have := isNan_eq_not_complete hk c
      rw [hc] at this
      simp [Fl.notNan, this]
  have hvv : valid (pointwise k (cs.filter complete)) = pointwise k (cs.filter complete) := by
    rw [← hv]; unfold valid; simp
  refine ⟨nanmean_congr_valid (by rw [hvv, hv]), ?_, ?_⟩
  · unfold nanmean strictmean; rw [hv]
  · unfold count; rw [hv]; simp [pointwise]
example : nanmean (pointwise (mse_kernel false) [(some 1, some 3), (none, some 100), (some 2, some 2), (some 7, none)])
    = fin 2 := by decide +kernel

/-- NaN written over the forecast / observation of a case (any `Fl` values in the other cases) -/
def nanFcst (c : Fl × Fl) : Fl × Fl := (nan, c.2)
def nanObs (c : Fl × Fl) : Fl × Fl := (c.1, nan)

/-- mask = delete for the three regenerated kernels: NaN written into the forecast (or the observation) of the flagged
    cases gives the mean of the list with those cases physically deleted — any list, any values (infinities
    included), any pattern; `kernel` is one of the regenerated per-case functions -/
theorem mean_nan_fcst_eq_deleted (ang : Bool) (keep : List Bool) (cs : List (Fl × Fl)) :
    nanmean ((maskWith nanFcst keep cs).map fun c => mse_kernel ang c.1 c.2) =
      nanmean ((deleteWith keep cs).map fun c => mse_kernel ang c.1 c.2) ∧
    nanmean ((maskWith nanFcst keep cs).map fun c => mae_kernel ang c.1 c.2) =
      nanmean ((deleteWith keep cs).map fun c => mae_kernel ang c.1 c.2) ∧
    nanmean ((maskWith nanFcst keep cs).map fun c => additive_bias_kernel c.1 c.2) =
      nanmean ((deleteWith keep cs).map fun c => additive_bias_kernel c.1 c.2) :=
  ⟨nanmean_congr_valid (valid_map_maskWith _ nanFcst (fun c => (kernels_nan ang c.2).1) keep cs),
   nanmean_congr_valid (valid_map_maskWith _ nanFcst (fun c => (kernels_nan ang c.2).2.2.1) keep cs),
   nanmean_congr_valid (valid_map_maskWith _ nanFcst (fun c => (kernels_nan ang c.2).2.2.2.2.1) keep cs)⟩

theorem mean_nan_obs_eq_deleted (ang : Bool) (keep : List Bool) (cs : List (Fl × Fl)) :
    nanmean ((maskWith nanObs keep cs).map fun c => mse_kernel ang c.1 c.2) =
      nanmean ((deleteWith keep cs).map fun c => mse_kernel ang c.1 c.2) ∧
    nanmean ((maskWith nanObs keep cs).map fun c => mae_kernel ang c.1 c.2) =
      nanmean ((deleteWith keep cs).map fun c => mae_kernel ang c.1 c.2) ∧
    nanmean ((maskWith nanObs keep cs).map fun c => additive_bias_kernel c.1 c.2) =
      nanmean ((deleteWith keep cs).map fun c => additive_bias_kernel c.1 c.2) :=
  ⟨nanmean_congr_valid (valid_map_maskWith _ nanObs (fun c => (kernels_nan ang c.1).2.1) keep cs),
   nanmean_congr_valid (valid_map_maskWith _ nanObs (fun c => (kernels_nan ang c.1).2.2.2.1) keep cs),
   nanmean_congr_valid (valid_map_maskWith _ nanObs (fun c => (kernels_nan ang c.1).2.2.2.2.2) keep cs)⟩

/-- weighted mean (`apply_weights(values, weights).mean()`): a NaN WEIGHT deletes its case as well -/
def nanWeight (c : (Fl × Fl) × Fl) : (Fl × Fl) × Fl := (c.1, nan)

theorem weighted_mean_nan_weight_eq_deleted (k : Fl → Fl → Fl) (keep : List Bool) (cs : List ((Fl × Fl) × Fl)) :
    nanmean ((maskWith nanWeight keep cs).map fun c => apply_weights (k c.1.1 c.1.2) c.2 true) =
      nanmean ((deleteWith keep cs).map fun c => apply_weights (k c.1.1 c.1.2) c.2 true) :=
  nanmean_congr_valid (valid_map_maskWith _ nanWeight (fun _ => (apply_weights_nan _).1) keep cs)

example : nanmean ((maskWith nanFcst [true, false, true] [(fin 1, fin 3), (fin 100, fin 0), (fin 2, fin 2)]).map
    fun c => mse_kernel false c.1 c.2) = fin 2 := by decide +kernel

end SV.Props.C02Point
