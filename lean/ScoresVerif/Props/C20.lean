/-
  C20 — out-of-domain parameters are rejected exactly at the documented boundary.

  Every theorem is about a guard REGENERATED from the `if …: raise` statements of /repo (`SV.Gen.Guards.*`,
  see tools/gen/Guards.py) and states: the guard fires  ↔  the parameter is outside the documented domain
  (`SV.Spec.Guards.*`).  Hence a value ON the boundary of an open domain is rejected, a value on the boundary of a
  closed domain and every value strictly inside are accepted.  Array-valued parameters: the function raises iff the
  pointwise guard fires for SOME element (`.any()` / `not .all()` stripped by the translator; lifted by `any_iff`).
  NaN-valued parameters are outside the property's quantifier; what the guards do with them is recorded in §4.
-/
import ScoresVerif.Gen.Guards
import ScoresVerif.Spec.Guards
import ScoresVerif.Lemmas.FlBasic
import ScoresVerif.Lemmas.PointScores

namespace SV.Props.C20
open SV
open SV.Fl (fin nan pinf ninf)
open SV.Spec.Guards
namespace G
export SV.Gen.Guards (check_alpha check_huber_param quantile_score_alpha qis_levels qis_order interval_range murphy_alpha
  murphy_huber_a murphy_left_limit_delta tw_rect_order tw_trap_one_order tw_trap_inf_rule tw_trap_left tw_trap_right
  firm_risk_parameter firm_weight_array firm_weight_scalar firm_discount_distance firm_threshold_assignment
  crps_adjust_tolerance crps_cdf_weight_negative crps_interval_tw_array crps_interval_tw_scalar brier_fcst_range
  roc_fcst_range roc_thresholds_range roc_thresholds_monotonic discretise_abs_tolerance binary_discretise_monotonic
  cdf_round_precision cdf_observed_precision iso_quantile_level iso_weight_positive iso_bootstraps iso_confidence_level
  fss_window dm_confidence_level dm_h_integer dm_h_positive dm_h_below_length dm_stat_h risk_fcst_range
  risk_prob_thresholds risk_matrix_prob_thresholds risk_scaling_prob_thresholds risk_assessment_weights isInf
  fill_cdf_method fill_cdf_min_nonnan_other fill_cdf_min_nonnan_linear cdf_decreasing_tolerance crps_cdf_fcst_fill_method
  crps_cdf_weight_fill_method crps_cdf_integration_method crps_cdf_threshold_count crps_cdf_brier_fcst_fill_method
  crps_ensemble_method tail_tw_crps_tail brier_fcst_range_dataset dm_method dm_statistic_distribution
  risk_threshold_assignment risk_scaling_min risk_scaling_rows risk_scaling_columns risk_assessment_weights_count
  firm_threshold_count)
end G

/-- reduce a translated guard on finite arguments to a proposition over rationals, then decide the logic -/
macro "guard_iff" : tactic => `(tactic|
  (simp only [Fl.lt_fin, Fl.le_fin, Fl.gt_fin, Fl.ge_fin, Fl.beq_fin, Fl.bne, Fl.sub_fin, Option.isSome_some, Option.isNone_some,
      Option.getD_some, Option.isSome_none, Option.isNone_none, Bool.or_eq_true, Bool.and_eq_true, Bool.not_eq_true',
      Bool.not_eq_eq_eq_not, Bool.not_true, Bool.not_false, decide_eq_true_eq, decide_eq_false_iff_not, Bool.and_eq_false_iff,
      Bool.or_eq_false_iff, Bool.true_and, Bool.false_and, Bool.false_eq_true, Bool.true_or, Bool.false_or, true_and, false_and,
      Open01, Positive, Nonneg, Levels, NotAbove, StrictlyBelow, Closed01Range, Open01Range, NonDecreasing, Window, Horizon,
      AtLeastOne, Trapezoid, AtLeast, Nonpos]
   <;> grind))

variable (x y a b c d : Rat)

/-! ## 1. Levels strictly inside (0, 1): quantile, expectile, risk, confidence, interval range -/

theorem check_alpha_iff : G.check_alpha (fin x) = true ↔ ¬ Open01 x := by
  unfold SV.Gen.Guards.check_alpha; guard_iff
theorem quantile_score_alpha_iff : G.quantile_score_alpha (fin x) = true ↔ ¬ Open01 x := by
  unfold SV.Gen.Guards.quantile_score_alpha; guard_iff
theorem interval_range_iff : G.interval_range (fin x) = true ↔ ¬ Open01 x := by
  unfold SV.Gen.Guards.interval_range; guard_iff
theorem firm_risk_parameter_iff : G.firm_risk_parameter (fin x) = true ↔ ¬ Open01 x := by
  unfold SV.Gen.Guards.firm_risk_parameter; guard_iff
theorem iso_confidence_level_iff : G.iso_confidence_level (fin x) = true ↔ ¬ Open01 x := by
  unfold SV.Gen.Guards.iso_confidence_level; guard_iff
theorem dm_confidence_level_iff : G.dm_confidence_level (fin x) = true ↔ ¬ Open01 x := by
  unfold SV.Gen.Guards.dm_confidence_level; guard_iff
/-- Murphy alpha is optional: `None` is accepted, a number must be in (0, 1) -/
theorem murphy_alpha_iff : G.murphy_alpha (some (fin x)) = true ↔ ¬ Open01 x := by
  unfold SV.Gen.Guards.murphy_alpha; guard_iff
theorem murphy_alpha_none : G.murphy_alpha none = false := rfl
/-- isotonic quantile level is only validated for the quantile functional -/
theorem iso_quantile_level_iff (q : Bool) : G.iso_quantile_level q (fin x) = true ↔ (q = true ∧ ¬ Open01 x) := by
  unfold SV.Gen.Guards.iso_quantile_level; cases q <;> guard_iff
/-- the boundary itself is rejected, its neighbours inside are accepted -/
theorem open01_boundary : G.check_alpha (fin 0) = true ∧ G.check_alpha (fin 1) = true
    ∧ G.check_alpha (fin (1/1000000)) = false ∧ G.check_alpha (fin (999999/1000000)) = false := by
  decide +kernel

/-- quantile-interval levels: Python's chained `not 0 < a < b < 1` -/
theorem qis_levels_iff : G.qis_levels (fin a) (fin b) = true ↔ ¬ Levels a b := by
  unfold SV.Gen.Guards.qis_levels; guard_iff

/-! ## 2. Strictly positive / non-negative parameters -/

theorem check_huber_param_iff : G.check_huber_param (fin x) = true ↔ ¬ Positive x := by
  unfold SV.Gen.Guards.check_huber_param; guard_iff
theorem firm_weight_scalar_iff : G.firm_weight_scalar (fin x) = true ↔ ¬ Positive x := by
  unfold SV.Gen.Guards.firm_weight_scalar; guard_iff
theorem firm_weight_array_iff : G.firm_weight_array (fin x) = true ↔ ¬ Positive x := by
  unfold SV.Gen.Guards.firm_weight_array; guard_iff
theorem iso_weight_positive_iff : G.iso_weight_positive (fin x) = true ↔ ¬ Positive x := by
  unfold SV.Gen.Guards.iso_weight_positive; guard_iff
theorem risk_assessment_weights_iff : G.risk_assessment_weights (fin x) = true ↔ ¬ Positive x := by
  unfold SV.Gen.Guards.risk_assessment_weights; guard_iff
theorem dm_h_positive_iff : G.dm_h_positive (fin x) = true ↔ ¬ Positive x := by
  unfold SV.Gen.Guards.dm_h_positive; guard_iff
/-- Huber parameter of the Murphy score: required (not `None`) and positive exactly when the functional is Huber -/
theorem murphy_huber_a_iff (h : Bool) : G.murphy_huber_a h (some (fin x)) = true ↔ (h = true ∧ ¬ Positive x) := by
  unfold SV.Gen.Guards.murphy_huber_a; cases h <;> guard_iff
theorem murphy_huber_a_none (h : Bool) : G.murphy_huber_a h none = h := by
  unfold SV.Gen.Guards.murphy_huber_a; cases h <;> rfl

theorem firm_discount_distance_iff : G.firm_discount_distance (fin x) = true ↔ ¬ Nonneg x := by
  unfold SV.Gen.Guards.firm_discount_distance; guard_iff
theorem crps_adjust_tolerance_iff : G.crps_adjust_tolerance (fin x) = true ↔ ¬ Nonneg x := by
  unfold SV.Gen.Guards.crps_adjust_tolerance; guard_iff
theorem discretise_abs_tolerance_iff : G.discretise_abs_tolerance (fin x) = true ↔ ¬ Nonneg x := by
  unfold SV.Gen.Guards.discretise_abs_tolerance; guard_iff
theorem cdf_round_precision_iff : G.cdf_round_precision (fin x) = true ↔ ¬ Nonneg x := by
  unfold SV.Gen.Guards.cdf_round_precision; guard_iff
theorem cdf_observed_precision_iff : G.cdf_observed_precision (fin x) = true ↔ ¬ Nonneg x := by
  unfold SV.Gen.Guards.cdf_observed_precision; guard_iff
theorem murphy_left_limit_delta_iff : G.murphy_left_limit_delta (some (fin x)) = true ↔ ¬ Nonneg x := by
  unfold SV.Gen.Guards.murphy_left_limit_delta; guard_iff
theorem murphy_left_limit_delta_none : G.murphy_left_limit_delta none = false := rfl
theorem crps_cdf_weight_negative_iff : G.crps_cdf_weight_negative (some (fin x)) = true ↔ ¬ Nonneg x := by
  unfold SV.Gen.Guards.crps_cdf_weight_negative; guard_iff
/-- closed boundary: 0 itself is accepted, anything below is rejected -/
theorem nonneg_boundary : G.firm_discount_distance (fin 0) = false ∧ G.firm_discount_distance (fin (-1/1000000)) = true
    ∧ G.check_huber_param (fin 0) = true ∧ G.check_huber_param (fin (1/1000000)) = false := by
  decide +kernel
/-- bootstraps: an `int` that is at least 1 -/
theorem iso_bootstraps_iff (i : Bool) : G.iso_bootstraps i (fin x) = true ↔ ¬ (i = true ∧ AtLeastOne x) := by
  unfold SV.Gen.Guards.iso_bootstraps; cases i <;> guard_iff

/-! ## 3. Ordering of interval ends, thresholds; ranges; windows; horizons -/

/-- lower quantile above upper quantile is rejected (equal is allowed) -/
theorem qis_order_iff : G.qis_order (fin a) (fin b) = true ↔ ¬ NotAbove a b := by
  unfold SV.Gen.Guards.qis_order; guard_iff
theorem tw_rect_order_iff : G.tw_rect_order (fin a) (fin b) = true ↔ ¬ StrictlyBelow a b := by
  unfold SV.Gen.Guards.tw_rect_order; guard_iff
theorem tw_trap_one_order_iff : G.tw_trap_one_order (fin a) (fin b) = true ↔ ¬ StrictlyBelow a b := by
  unfold SV.Gen.Guards.tw_trap_one_order; guard_iff
theorem crps_interval_tw_scalar_iff : G.crps_interval_tw_scalar (fin a) (fin b) = true ↔ ¬ StrictlyBelow a b := by
  unfold SV.Gen.Guards.crps_interval_tw_scalar; guard_iff
theorem crps_interval_tw_array_iff : G.crps_interval_tw_array (fin a) (fin b) = true ↔ ¬ StrictlyBelow a b := by
  unfold SV.Gen.Guards.crps_interval_tw_array; guard_iff

/-- trapezoidal threshold weight, finite end points: some guard fires ↔ not a < b < c < d -/
theorem tw_trapezoid_iff :
    (G.tw_trap_one_order (fin b) (fin c) || G.tw_trap_inf_rule (fin a) (fin b) (fin c) (fin d)
      || G.tw_trap_left (fin a) (fin b) || G.tw_trap_right (fin c) (fin d)) = true ↔ ¬ Trapezoid a b c d := by
  unfold SV.Gen.Guards.tw_trap_one_order SV.Gen.Guards.tw_trap_inf_rule SV.Gen.Guards.tw_trap_left
    SV.Gen.Guards.tw_trap_right SV.Gen.Guards.isInf
  simp only [Fl.isFinite, Fl.isNan, Bool.not_true, Bool.false_and, Bool.and_false, Bool.or_false]
  guard_iff
/-- infinite end points: allowed exactly when the matching `interval_where_one` end is the same infinity -/
theorem tw_trapezoid_infinite :
    G.tw_trap_left ninf ninf = false ∧ G.tw_trap_inf_rule ninf ninf (fin c) (fin d) = false
    ∧ G.tw_trap_right pinf pinf = false ∧ G.tw_trap_inf_rule (fin a) (fin b) pinf pinf = false
    ∧ G.tw_trap_inf_rule ninf (fin b) (fin c) (fin d) = true ∧ G.tw_trap_inf_rule (fin a) (fin b) (fin c) pinf = true
    ∧ G.tw_rect_order ninf (fin b) = false ∧ G.tw_rect_order (fin a) pinf = false ∧ G.tw_rect_order ninf pinf = false := by
  unfold SV.Gen.Guards.tw_trap_left SV.Gen.Guards.tw_trap_right SV.Gen.Guards.tw_trap_inf_rule SV.Gen.Guards.tw_rect_order
    SV.Gen.Guards.isInf
  simp [Fl.lt, Fl.le, Fl.ge, Fl.beq, Fl.bne, Fl.isFinite, Fl.isNan]

/-- threshold sequences must not decrease (equal neighbours are allowed) -/
theorem roc_thresholds_monotonic_iff : G.roc_thresholds_monotonic (fin a) (fin b) = true ↔ ¬ NonDecreasing a b := by
  unfold SV.Gen.Guards.roc_thresholds_monotonic; guard_iff
theorem binary_discretise_monotonic_iff : G.binary_discretise_monotonic (fin a) (fin b) = true ↔ ¬ NonDecreasing a b := by
  unfold SV.Gen.Guards.binary_discretise_monotonic; guard_iff

/-- probability forecasts and thresholds, given by their largest and smallest value: inside [0, 1] -/
theorem brier_fcst_range_iff : G.brier_fcst_range (fin a) (fin b) = true ↔ ¬ Closed01Range a b := by
  unfold SV.Gen.Guards.brier_fcst_range; guard_iff
theorem roc_fcst_range_iff : G.roc_fcst_range (fin a) (fin b) = true ↔ ¬ Closed01Range a b := by
  unfold SV.Gen.Guards.roc_fcst_range; guard_iff
theorem roc_thresholds_range_iff : G.roc_thresholds_range (fin a) (fin b) = true ↔ ¬ Closed01Range a b := by
  unfold SV.Gen.Guards.roc_thresholds_range; guard_iff
theorem risk_fcst_range_iff : G.risk_fcst_range (fin a) (fin b) = true ↔ ¬ Closed01Range a b := by
  unfold SV.Gen.Guards.risk_fcst_range; guard_iff
/-- probability-threshold coordinates of a risk matrix: strictly inside (0, 1) -/
theorem risk_prob_thresholds_iff : G.risk_prob_thresholds (fin a) (fin b) = true ↔ ¬ Open01Range a b := by
  unfold SV.Gen.Guards.risk_prob_thresholds; guard_iff
theorem risk_matrix_prob_thresholds_iff : G.risk_matrix_prob_thresholds (fin a) (fin b) = true ↔ ¬ Open01Range a b := by
  unfold SV.Gen.Guards.risk_matrix_prob_thresholds; guard_iff
theorem risk_scaling_prob_thresholds_iff : G.risk_scaling_prob_thresholds (fin a) (fin b) = true ↔ ¬ Open01Range a b := by
  unfold SV.Gen.Guards.risk_scaling_prob_thresholds; guard_iff

/-- FSS window: 1 ≤ w ≤ side, in both directions (0 and side + 1 rejected, 1 and side accepted) -/
theorem fss_window_iff : G.fss_window (fin a) (fin b) (fin c) (fin d) = true ↔ ¬ Window a b c d := by
  unfold SV.Gen.Guards.fss_window; guard_iff
theorem fss_window_boundary : G.fss_window (fin 0) (fin 1) (fin 5) (fin 5) = true ∧ G.fss_window (fin 6) (fin 1) (fin 5) (fin 5) = true
    ∧ G.fss_window (fin 1) (fin 5) (fin 5) (fin 5) = false := by decide +kernel

/-- Diebold–Mariano horizon: 0 < h < n (h = n rejected, h = n − 1 accepted) -/
theorem dm_stat_h_iff : G.dm_stat_h (fin a) (fin b) = true ↔ ¬ Horizon a b := by
  unfold SV.Gen.Guards.dm_stat_h; guard_iff
theorem dm_h_below_length_iff : G.dm_h_below_length (fin b) (fin a) = true ↔ ¬ StrictlyBelow a b := by
  unfold SV.Gen.Guards.dm_h_below_length; guard_iff

/-- `h % 1 != 0` rejects exactly the values that are not whole numbers (7.0 passes, 1.5 does not) -/
theorem dm_h_integer_iff : G.dm_h_integer (fin x) = true ↔ ¬ Whole x := by
  unfold SV.Gen.Guards.dm_h_integer Whole
  have h1 : ((1 : Rat) / 1) ≠ 0 := by norm_num
  rw [Fl.mod_fin _ _ h1]
  simp only [Fl.bne, Fl.beq_fin, Bool.not_eq_true', decide_eq_false_iff_not, not_iff_not, rmod_eq, div_one, one_mul]
  constructor
  · intro h
    have hx : x = ((⌊x⌋ : Int) : Rat) := by linarith
    rw [hx]; exact Rat.den_intCast _
  · intro h
    have hx : ((x.num : Int) : Rat) = x := Rat.coe_int_num_of_den_eq_one h
    rw [← hx, Int.floor_intCast]; ring

/-- enumerated option -/
theorem firm_threshold_assignment_iff (s : String) :
    G.firm_threshold_assignment s = true ↔ ¬ (s = "upper" ∨ s = "lower") := by
  unfold SV.Gen.Guards.firm_threshold_assignment; simp

/-- every generated guard raises ValueError or its subclass DimensionError -/
theorem exceptions_documented :
    SV.Gen.Guards.exceptions.all (fun p => p.2 == "ValueError" || p.2 == "DimensionError") = true := by decide +kernel

/-! ## 5. Guards added after the guard-site audit (tools/c20_audit.py, notes/C20.md) -/

/-- `fill_cdf` (and `add_thresholds`, which passes `min_nonnan` on): for EVERY method one of the two `min_nonnan` guards
    fires exactly when `min_nonnan` is below the documented minimum - 2 for "linear", 1 for "step", "forward", "backward"
    (and any other string, which the method guard rejects first). -/
theorem fill_cdf_min_nonnan_iff (m : String) :
    (G.fill_cdf_min_nonnan_other (fin x) m || G.fill_cdf_min_nonnan_linear (fin x) m) = true ↔ ¬ MinNonnan m x := by
  unfold SV.Gen.Guards.fill_cdf_min_nonnan_other SV.Gen.Guards.fill_cdf_min_nonnan_linear MinNonnan
  by_cases h : m = "linear" <;> simp [h, Fl.lt_fin]
theorem fill_cdf_min_nonnan_other_iff (m : String) :
    G.fill_cdf_min_nonnan_other (fin x) m = true ↔ (m ≠ "linear" ∧ x < 1) := by
  unfold SV.Gen.Guards.fill_cdf_min_nonnan_other
  by_cases h : m = "linear" <;> simp [h, Fl.lt_fin]
theorem fill_cdf_min_nonnan_linear_iff (m : String) :
    G.fill_cdf_min_nonnan_linear (fin x) m = true ↔ (m = "linear" ∧ x < 2) := by
  unfold SV.Gen.Guards.fill_cdf_min_nonnan_linear
  by_cases h : m = "linear" <;> simp [h, Fl.lt_fin]
/-- the boundary for each of the four methods: the minimum itself is accepted, one below is rejected -/
theorem fill_cdf_min_nonnan_boundary :
    (["step", "forward", "backward"].all fun m =>
        (G.fill_cdf_min_nonnan_other (fin 0) m || G.fill_cdf_min_nonnan_linear (fin 0) m)
        && !(G.fill_cdf_min_nonnan_other (fin 1) m || G.fill_cdf_min_nonnan_linear (fin 1) m)) = true
    ∧ (G.fill_cdf_min_nonnan_other (fin 1) "linear" || G.fill_cdf_min_nonnan_linear (fin 1) "linear") = true
    ∧ (G.fill_cdf_min_nonnan_other (fin 2) "linear" || G.fill_cdf_min_nonnan_linear (fin 2) "linear") = false := by
  decide +kernel

/-- enumerated string options: rejected ↔ not one of the documented spellings -/
theorem fill_cdf_method_iff (s : String) : G.fill_cdf_method s = true ↔ ¬ OneOf fillMethods s := by
  unfold SV.Gen.Guards.fill_cdf_method; simp [OneOf, fillMethods]
theorem crps_cdf_fcst_fill_method_iff (s : String) : G.crps_cdf_fcst_fill_method s = true ↔ ¬ OneOf fillMethods s := by
  unfold SV.Gen.Guards.crps_cdf_fcst_fill_method; simp [OneOf, fillMethods]
theorem crps_cdf_brier_fcst_fill_method_iff (s : String) :
    G.crps_cdf_brier_fcst_fill_method s = true ↔ ¬ OneOf fillMethods s := by
  unfold SV.Gen.Guards.crps_cdf_brier_fcst_fill_method; simp [OneOf, fillMethods]
/-- the fill method of the threshold weight is only validated when a weight is supplied -/
theorem crps_cdf_weight_fill_method_iff (w : Bool) (s : String) :
    G.crps_cdf_weight_fill_method w s = true ↔ (w = true ∧ ¬ OneOf fillMethods s) := by
  unfold SV.Gen.Guards.crps_cdf_weight_fill_method; cases w <;> simp [OneOf, fillMethods]
theorem crps_cdf_integration_method_iff (s : String) :
    G.crps_cdf_integration_method s = true ↔ ¬ OneOf ["exact", "trapz"] s := by
  unfold SV.Gen.Guards.crps_cdf_integration_method; simp [OneOf]
theorem crps_ensemble_method_iff (s : String) : G.crps_ensemble_method s = true ↔ ¬ OneOf ["ecdf", "fair"] s := by
  unfold SV.Gen.Guards.crps_ensemble_method; simp [OneOf]
theorem tail_tw_crps_tail_iff (s : String) : G.tail_tw_crps_tail s = true ↔ ¬ OneOf ["upper", "lower"] s := by
  unfold SV.Gen.Guards.tail_tw_crps_tail; simp [OneOf]
theorem dm_method_iff (s : String) : G.dm_method s = true ↔ ¬ OneOf ["HLN", "HG"] s := by
  unfold SV.Gen.Guards.dm_method; simp [OneOf]
theorem dm_statistic_distribution_iff (s : String) :
    G.dm_statistic_distribution s = true ↔ ¬ OneOf ["normal", "t"] s := by
  unfold SV.Gen.Guards.dm_statistic_distribution; simp [OneOf]
theorem risk_threshold_assignment_iff (s : String) :
    G.risk_threshold_assignment s = true ↔ ¬ OneOf ["upper", "lower"] s := by
  unfold SV.Gen.Guards.risk_threshold_assignment; simp [OneOf]

/-- tolerance of `decreasing_cdfs`: not negative -/
theorem cdf_decreasing_tolerance_iff : G.cdf_decreasing_tolerance (fin x) = true ↔ ¬ Nonneg x := by
  unfold SV.Gen.Guards.cdf_decreasing_tolerance; guard_iff
/-- `crps_cdf` needs at least two thresholds, FIRM at least one category threshold -/
theorem crps_cdf_threshold_count_iff : G.crps_cdf_threshold_count (fin x) = true ↔ ¬ AtLeast 2 x := by
  unfold SV.Gen.Guards.crps_cdf_threshold_count; guard_iff
theorem firm_threshold_count_iff : G.firm_threshold_count (fin x) = true ↔ ¬ AtLeast 1 x := by
  unfold SV.Gen.Guards.firm_threshold_count; guard_iff
/-- probability forecasts given as a Dataset: inside [0, 1] -/
theorem brier_fcst_range_dataset_iff : G.brier_fcst_range_dataset (fin a) (fin b) = true ↔ ¬ Closed01Range a b := by
  unfold SV.Gen.Guards.brier_fcst_range_dataset; guard_iff
/-- warning scaling matrix: entries not negative, rows not decreasing, columns not increasing, enough assessment weights -/
theorem risk_scaling_min_iff : G.risk_scaling_min (fin x) = true ↔ ¬ Nonneg x := by
  unfold SV.Gen.Guards.risk_scaling_min; guard_iff
theorem risk_scaling_rows_iff : G.risk_scaling_rows (fin x) = true ↔ ¬ Nonneg x := by
  unfold SV.Gen.Guards.risk_scaling_rows; guard_iff
theorem risk_scaling_columns_iff : G.risk_scaling_columns (fin x) = true ↔ ¬ Nonpos x := by
  unfold SV.Gen.Guards.risk_scaling_columns; guard_iff
theorem risk_assessment_weights_count_iff :
    G.risk_assessment_weights_count (fin a) (fin b) = true ↔ ¬ NotAbove b a := by
  unfold SV.Gen.Guards.risk_assessment_weights_count; guard_iff

/-! ## Array-valued parameters: the function raises iff the pointwise guard fires somewhere -/

theorem any_iff (g : Fl → Bool) (D : Rat → Prop) (h : ∀ q, g (fin q) = true ↔ ¬ D q) (qs : List Rat) :
    (qs.map fin).any g = true ↔ ¬ ∀ q ∈ qs, D q := by
  simp only [List.any_map, List.any_eq_true, Function.comp]
  constructor
  · rintro ⟨q, hq, hg⟩ hall; exact (h q).mp hg (hall q hq)
  · intro hn
    by_contra hc
    apply hn; intro q hq
    by_contra hd
    exact hc ⟨q, hq, (h q).mpr hd⟩

/-! ## 4. Recorded, outside the property's quantifier: NaN-valued parameters.  `x <= 0 or x >= 1` style guards let NaN
    through, `not 0 < x < 1` style guards reject it. -/
theorem nan_parameters :
    G.check_alpha nan = false ∧ G.quantile_score_alpha nan = false ∧ G.interval_range nan = false
    ∧ G.firm_risk_parameter nan = false ∧ G.check_huber_param nan = false ∧ G.firm_discount_distance nan = false
    ∧ G.murphy_alpha (some nan) = true ∧ G.qis_levels nan (fin (1/2)) = true ∧ G.iso_confidence_level nan = true
    ∧ G.dm_confidence_level nan = true ∧ G.dm_stat_h nan (fin 5) = true := by
  decide +kernel

end SV.Props.C20
