/-
  C13 (stretch) — the list-level invariances lifted to the ARRAY level of `brier_score_for_ensemble`
  (`Model.C13.ensScore`: all cases × all thresholds, weights, mean over cases): member order, missing members and
  the complementary operator do not change any per-case value nor any mean; and the link between the two
  functions of the property (`brier_score` of the ensemble's event fraction = unadjusted ensemble score).
-/
import ScoresVerif.Props.C13Fair

set_option linter.unusedSimpArgs false

namespace SV.Props.C13
open SV SV.Fl
open SV.Gen.Brier (brier_case operator_rejected brier_kernel)
open SV.Model.C13 (ensCase ensScore applyWeights)

private theorem column_congr (f : List Fl → List Fl) (g g' : List Fl → Fl → Except String Fl)
    (h : ∀ ms o, g ms o = g' (f ms) o) : ∀ (fcst : List (List Fl)) (obs : List Fl),
    (fcst.zip obs).mapM (fun x => g x.1 x.2) = ((fcst.map f).zip obs).mapM (fun x => g' x.1 x.2) := by
  intro fcst
  induction fcst with
  | nil => intro obs; rfl
  | cons ms rest ih =>
    intro obs
    cases obs with
    | nil => rfl
    | cons o os =>
      simp only [List.map_cons, List.zip_cons_cons, List.mapM_cons, h ms o, ih os]

/-- general transfer: a per-member-list transformation `f` and a change of operator that leave every single case
    unchanged leave the whole result (per-case table and means over cases, every threshold, weights) unchanged -/
theorem ensScore_congr (f : List Fl → List Fl) (op op' : PyMode) (fair : Bool)
    (hrej : operator_rejected op = operator_rejected op')
    (h : ∀ ms o thr, ensCase ms o thr op fair = ensCase (f ms) o thr op' fair)
    (fcst : List (List Fl)) (obs thresholds : List Fl) (weights : Option (List Fl)) :
    ensScore fcst obs thresholds op fair weights = ensScore (fcst.map f) obs thresholds op' fair weights := by
  unfold ensScore
  rw [hrej, List.length_map]
  have hcol : ∀ thr, ((fcst.zip obs).mapM fun (x : List Fl × Fl) => ensCase x.1 x.2 thr op fair) =
      (((fcst.map f).zip obs).mapM fun (x : List Fl × Fl) => ensCase x.1 x.2 thr op' fair) :=
    fun thr => column_congr f (fun ms o => ensCase ms o thr op fair) (fun ms o => ensCase ms o thr op' fair)
      (fun ms o => h ms o thr) fcst obs
  simp only [hcol]

/-- the hypotheses of `ensScore_congr` are met by the three instances below; e.g. for `reverse`: -/
example : operator_rejected (.op .ge) = operator_rejected (.op .ge) ∧
    ∀ ms o thr, ensCase ms o thr (.op .ge) true = ensCase ms.reverse o thr (.op .ge) true :=
  ⟨rfl, fun ms o thr => ensCase_perm ms ms.reverse (List.reverse_perm ms).symm o thr _ true⟩

/-- **member order is irrelevant at array level**: re-ordering the members of every case by any rule `f` that
    permutes its argument (reverse, sort, rotate, …) changes nothing -/
theorem ensScore_perm (f : List Fl → List Fl) (hf : ∀ ms, (f ms).Perm ms) (fcst : List (List Fl))
    (obs thresholds : List Fl) (op : PyMode) (fair : Bool) (weights : Option (List Fl)) :
    ensScore (fcst.map f) obs thresholds op fair weights = ensScore fcst obs thresholds op fair weights :=
  (ensScore_congr f op op fair rfl (fun ms o thr => ensCase_perm ms (f ms) (hf ms).symm o thr op fair)
    fcst obs thresholds weights).symm

example : ∀ ms : List Fl, ms.reverse.Perm ms := fun ms => List.reverse_perm ms

/-- **missing members are deleted members at array level** (ragged ensembles: each case keeps its own valid members) -/
theorem ensScore_drop_nan (fcst : List (List Fl)) (obs thresholds : List Fl) (op : PyMode) (fair : Bool)
    (weights : Option (List Fl)) :
    ensScore (fcst.map (List.filter Fl.notNan)) obs thresholds op fair weights = ensScore fcst obs thresholds op fair weights :=
  (ensScore_congr (List.filter Fl.notNan) op op fair rfl (fun ms o thr => ensCase_drop_nan ms o thr op fair)
    fcst obs thresholds weights).symm

/-- **complementary operators at array level**: `>=` vs `<` and `>` vs `<=` give the same table and the same means
    for every threshold list, weights, fair or not -/
theorem ensScore_complement (fcst : List (List Fl)) (obs thresholds : List Fl) (fair : Bool) (weights : Option (List Fl)) :
    ensScore fcst obs thresholds (.op .ge) fair weights = ensScore fcst obs thresholds (.op .lt) fair weights ∧
    ensScore fcst obs thresholds (.op .gt) fair weights = ensScore fcst obs thresholds (.op .le) fair weights := by
  constructor
  · have := ensScore_congr id (.op .ge) (.op .lt) fair (by decide)
      (fun ms o thr => complement_ge_lt ms o thr fair) fcst obs thresholds weights
    rwa [List.map_id] at this
  · have := ensScore_congr id (.op .gt) (.op .le) fair (by decide)
      (fun ms o thr => complement_gt_le ms o thr fair) fcst obs thresholds weights
    rwa [List.map_id] at this

/-- concrete: two cases (one with a NaN member), two thresholds with ties, weights -/
example : ensScore [[fin 1, nan, fin 0], [fin 1, fin 1, fin (1/2)]] [fin 1, fin 0] [fin (1/2), fin 1] (.op .ge) true (some [fin 2, fin 1])
    = .ok ([[fin 0, fin 0], [fin 1, fin (1/3)]], [fin (1/2), fin (1/6)]) := by decide +kernel

/-- **link between the two functions**: the unadjusted ensemble score of a case is `brier_score`'s kernel applied
    to the ensemble's event fraction i/m as the probability forecast -/
theorem unadjusted_is_brier_of_fraction (i m : Nat) (hi : i ≤ m) (hm : m ≠ 0) (y : Rat) :
    brier_case (Fl.ofNat i) (Fl.ofNat m) (fin y) false = brier_kernel (fin ((i : Rat) / m)) (fin y) := by
  rw [brier_case_eq_scoreQ i m hi hm, brier_kernel_fin]
  unfold scoreQ
  simp

example : (2 : Nat) ≤ 5 ∧ (5 : Nat) ≠ 0 := by omega

end SV.Props.C13
