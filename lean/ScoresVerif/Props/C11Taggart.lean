/-
  C11Taggart — the Huber elementary score in Taggart's own form is the piecewise (Ehm-style) form used everywhere else.

  `Spec.Murphy.taggartH α a x y θ = |1{y<x} − α| · min(|θ − y|, a) · 1{min(x,y) ≤ θ < max(x,y)}`   (Taggart 2022, Thm 5.3)
  `Spec.Murphy.elemH   α a f o θ = (1−α)·min(θ−o, a)·1[o ≤ θ < f] + α·min(o−θ, a)·1[f ≤ θ < o]`     (over + under part)

  `elemH` is what the regenerated code computes (`Props/C11.huber_cell_eq_spec`), what the integrals are taken of
  (`midpoint_elemH`, `Props/C11Bridge`) and what FIRM is a sum of (C12).  The two agree exactly for 0 ≤ α ≤ 1 — for EVERY
  Huber parameter a (also a ≤ 0), forecast x, observation y and threshold θ.  Outside [0, 1] they differ in sign (the paper's
  form takes the absolute value of the asymmetry factor, the code does not); `murphy_score` rejects such α (0 < α < 1).
-/
import ScoresVerif.Props.C11

set_option linter.unusedVariables false

namespace SV.Props.C11Taggart
open SV SV.Spec.Murphy

/-- the relation that holds for EVERY α, a, x, y, θ: Taggart's form is the piecewise form with the two asymmetry factors
    replaced by their absolute values (`overH 0` = min(θ−y, a) on y ≤ θ < x, `underH 1` = min(y−θ, a) on x ≤ θ < y) -/
theorem taggartH_eq_abs_form (α a x y θ : Rat) :
    taggartH α a x y θ = rabs (1 - α) * overH 0 a x y θ + rabs α * underH 1 a x y θ := by
  unfold taggartH overH underH ind
  by_cases c : y < x
  · have e1 : rmin x y = y := by unfold rmin; rw [if_neg (not_le.mpr c)]
    have e2 : rmax x y = x := by unfold rmax; rw [if_neg (not_le.mpr c)]
    have hu : ¬ underRegion x y θ := by rintro ⟨h1, h2⟩; linarith
    rw [if_pos c, e1, e2, if_neg hu]
    by_cases r : overRegion x y θ
    · have r' : y ≤ θ ∧ θ < x := r
      have e3 : rabs (θ - y) = θ - y := by unfold rabs; rw [if_neg (by linarith [r'.1])]
      rw [if_pos r, if_pos r', e3]; ring
    · have r' : ¬ (y ≤ θ ∧ θ < x) := r
      rw [if_neg r, if_neg r']; ring
  · have c' : x ≤ y := not_lt.mp c
    have e1 : rmin x y = x := by unfold rmin; rw [if_pos c']
    have e2 : rmax x y = y := by unfold rmax; rw [if_pos c']
    have ho : ¬ overRegion x y θ := by rintro ⟨h1, h2⟩; linarith
    have e0 : rabs (0 - α) = rabs α := by unfold rabs; split_ifs <;> linarith
    rw [if_neg c, e1, e2, if_neg ho, e0]
    by_cases r : underRegion x y θ
    · have r' : x ≤ θ ∧ θ < y := r
      have e3 : rabs (θ - y) = y - θ := by unfold rabs; rw [if_pos (by linarith [r'.2])]; ring
      rw [if_pos r, if_pos r', e3]; ring
    · have r' : ¬ (x ≤ θ ∧ θ < y) := r
      rw [if_neg r, if_neg r']; ring

/-- **taggartH = elemH** for every level 0 ≤ α ≤ 1 (in particular on the whole domain 0 < α < 1 accepted by `murphy_score`),
    every Huber parameter a, forecast x, observation y and threshold θ — no sign assumption on a -/
theorem taggartH_eq_elemH (α a x y θ : Rat) (h0 : 0 ≤ α) (h1 : α ≤ 1) : taggartH α a x y θ = elemH α a x y θ := by
  have e1 : rabs (1 - α) = 1 - α := by unfold rabs; rw [if_neg (by linarith)]
  have e2 : rabs α = α := by unfold rabs; rw [if_neg (by linarith)]
  rw [taggartH_eq_abs_form, e1, e2]
  unfold elemH overH underH
  split_ifs <;> ring
example : (0 : Rat) ≤ 1 / 4 ∧ (1 / 4 : Rat) ≤ 1 ∧ taggartH (1 / 4) 1 3 0 2 = 3 / 4 ∧ elemH (1 / 4) 1 3 0 2 = 3 / 4 := by decide +kernel

/-- outside [0, 1] the naive equality FAILS: α = 2, over-forecast x = 1 > y = 0, θ = ½: the paper's form gives |1 − 2|·½ = ½, the
    piecewise form (1 − 2)·½ = −½;  α = −1, under-forecast: ½ against −½ -/
theorem taggartH_ne_elemH_counterexample :
    taggartH 2 1 1 0 (1 / 2) = 1 / 2 ∧ elemH 2 1 1 0 (1 / 2) = -(1 / 2) ∧
    taggartH (-1) 1 0 1 (1 / 2) = 1 / 2 ∧ elemH (-1) 1 0 1 (1 / 2) = -(1 / 2) := by decide +kernel

/-- the condition is exact: for a positive Huber parameter, the two forms agree for all (x, y, θ) iff 0 ≤ α ≤ 1 -/
theorem taggartH_eq_elemH_iff (α a : Rat) (ha : 0 < a) :
    (∀ x y θ, taggartH α a x y θ = elemH α a x y θ) ↔ 0 ≤ α ∧ α ≤ 1 := by
  constructor
  · intro h
    -- over-forecast x = 1 > y = 0 at θ = ½ gives |1 − α| = 1 − α; under-forecast x = 0 < y = 1 gives |α| = α
    have m : 0 < rmin (1 / 2) a := by unfold rmin; split_ifs <;> [norm_num; exact ha]
    have hov := h 1 0 (1 / 2)
    have hun := h 0 1 (1 / 2)
    rw [taggartH_eq_abs_form] at hov hun
    have ro : overRegion 1 0 (1 / 2) := by unfold overRegion; norm_num
    have ru : ¬ underRegion 1 0 (1 / 2) := by unfold underRegion; norm_num
    have so : ¬ overRegion 0 1 (1 / 2) := by unfold overRegion; norm_num
    have su : underRegion 0 1 (1 / 2) := by unfold underRegion; norm_num
    have o1 : overH 0 a 1 0 (1 / 2) = rmin (1 / 2) a := by unfold overH; rw [if_pos ro]; norm_num
    have o2 : ∀ β, underH β a 1 0 (1 / 2) = 0 := by intro β; unfold underH; rw [if_neg ru]
    have u1 : ∀ β, overH β a 0 1 (1 / 2) = 0 := by intro β; unfold overH; rw [if_neg so]
    have u2 : underH 1 a 0 1 (1 / 2) = rmin (1 / 2) a := by unfold underH; rw [if_pos su]; norm_num
    have o3 : elemH α a 1 0 (1 / 2) = (1 - α) * rmin (1 / 2) a := by
      unfold elemH; rw [o2]; unfold overH; rw [if_pos ro]; norm_num
    have u3 : elemH α a 0 1 (1 / 2) = α * rmin (1 / 2) a := by
      unfold elemH; rw [u1]; unfold underH; rw [if_pos su]; norm_num
    rw [o1, o2, o3] at hov
    rw [u1, u2, u3] at hun
    have k1 : rabs (1 - α) = 1 - α := by
      have : (rabs (1 - α) - (1 - α)) * rmin (1 / 2) a = 0 := by linarith
      rcases mul_eq_zero.mp this with z | z
      · linarith
      · linarith
    have k2 : rabs α = α := by
      have : (rabs α - α) * rmin (1 / 2) a = 0 := by linarith
      rcases mul_eq_zero.mp this with z | z
      · linarith
      · linarith
    constructor
    · unfold rabs at k2; split_ifs at k2 <;> linarith
    · unfold rabs at k1; split_ifs at k1 <;> linarith
  · rintro ⟨h0, h1⟩ x y θ
    exact taggartH_eq_elemH α a x y θ h0 h1
example : (0 : Rat) < 1 / 2 := by norm_num

/-- for the code: the `total` that the regenerated `murphy_score` kernels compute per (case, θ) for the Huber functional is
    Taggart's elementary score, on the whole accepted domain 0 < α < 1 (any Huber parameter; `murphy_score` requires a > 0) -/
theorem huber_cell_total_eq_taggart (α a f o θ : Rat) (h0 : 0 < α) (h1 : α < 1) :
    (Model.Murphy.cell .huber (Fl.fin α) (Fl.fin a) (Fl.fin f) (Fl.fin o) (Fl.fin θ)).total = Fl.fin (taggartH α a f o θ) := by
  rw [SV.Props.C11.huber_cell_eq_spec, taggartH_eq_elemH α a f o θ h0.le h1.le]
example : (0 : Rat) < 1 / 4 ∧ (1 / 4 : Rat) < 1 := by norm_num

end SV.Props.C11Taggart
