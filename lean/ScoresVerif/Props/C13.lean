/-
  C13 — Brier scores equal their definitions, including the fair ensemble correction.

  The theorems are about `SV.Gen.Brier.*` (per-case formula, member predicates, operator guard, observed
  event, range guard, accepted set, mse kernel) REGENERATED from /repo on every run, assembled by the
  list-level model `SV.Model.C13`.
-/
import ScoresVerif.Gen.Brier
import ScoresVerif.Gen.Discretise
import ScoresVerif.Model.C13
import ScoresVerif.Spec.Brier
import ScoresVerif.Lemmas.FlBasic
import ScoresVerif.Lemmas.Discretise

set_option linter.unusedSimpArgs false

namespace SV.Props.C13
open SV SV.Fl SV.DiscL
open SV.Gen.Brier (brier_case operator_rejected member_event_count_element total_member_count_element binary_obs
  fcst_range_rejected mse_kernel brier_kernel binary_set)
open SV.Spec.Brier (brierEns correction Rel4 eventCount memberCount)
open SV.Model.C13 (ensCase memberEventCount totalMemberCount brierScore binaryRejected nanMax nanMin applyWeights)

/-! ## 1. The per-case formula: (i/m − y)² − [fair ∧ m > 1]·i(m−i)/(m²(m−1)). -/

/-- without the fair correction -/
theorem brier_case_unfair (i m y : Rat) (hm : m ≠ 0) :
    brier_case (fin i) (fin m) (fin y) false = fin ((i / m - y) ^ 2) := by
  unfold brier_case
  simp [powNat, div_fin _ _ hm]
  ring

/-- with the fair correction, more than one member -/
theorem brier_case_fair (i m y : Rat) (hm : m ≠ 0) (hm1 : m ≠ 1) :
    brier_case (fin i) (fin m) (fin y) true = fin ((i / m - y) ^ 2 - i * (m - i) / (m ^ 2 * (m - 1))) := by
  unfold brier_case
  have h2 : 1 * m * m * (m - 1) ≠ 0 := by
    simp [hm, sub_ne_zero.mpr hm1]
  simp only [powNat, mul_fin, sub_fin, div_fin _ _ hm, div_fin _ _ h2, fillna, isNan, if_true, Bool.false_eq_true, if_false]
  congr 1
  field_simp

example : ((3 : Rat) ≠ 0) ∧ ((3 : Rat) ≠ 1) := by norm_num
example : brier_case (fin 1) (fin 3) (fin 1) true = fin (1 / 3) := by
  rw [brier_case_fair 1 3 1 (by norm_num) (by norm_num)]; norm_num

/-- a single member: the correction is 0/0, filled with 0 — the score is (i − y)² whether or not the fair
    correction is requested -/
theorem brier_case_single (i y : Rat) (hi : i = 0 ∨ i = 1) (fair : Bool) :
    brier_case (fin i) (fin 1) (fin y) fair = fin ((i - y) ^ 2) := by
  unfold brier_case
  rcases hi with rfl | rfl <;> cases fair <;> simp [powNat, div_fin, fillna, isNan] <;> ring

/-- no member at all: NaN -/
theorem brier_case_no_member (y : Fl) (fair : Bool) : brier_case (fin 0) (fin 0) y fair = nan := by
  unfold brier_case
  cases fair <;> simp [powNat, fillna, isNan]

/-- a missing observation gives NaN whatever the counts -/
theorem brier_case_nan_obs (i m : Fl) (fair : Bool) : brier_case i m nan fair = nan := by
  unfold brier_case
  cases fair <;> simp [powNat]

/-- **the translated formula is the definition** for every count 0 ≤ i ≤ m (m = 0, m = 1 included), every
    observed event value y, fair or not -/
theorem brier_case_eq_spec (i m : Nat) (hi : i ≤ m) (y : Rat) (fair : Bool) :
    brier_case (Fl.ofNat i) (Fl.ofNat m) (fin y) fair = brierEns i m y fair := by
  unfold brierEns Fl.ofNat
  by_cases hm0 : m = 0
  · have : i = 0 := by omega
    subst hm0; subst this
    simp only [if_true]
    exact brier_case_no_member _ _
  · have hmq : (m : Rat) ≠ 0 := by exact_mod_cast hm0
    simp only [hm0, if_false]
    by_cases hm1 : m = 1
    · subst hm1
      have hi' : (i : Rat) = 0 ∨ (i : Rat) = 1 := by
        have : i = 0 ∨ i = 1 := by omega
        rcases this with rfl | rfl <;> simp
      have := brier_case_single (i : Rat) y hi' fair
      simp only [Nat.cast_one] at this ⊢
      rw [this]
      congr 1
      simp; ring
    · have hmq1 : (m : Rat) ≠ 1 := by exact_mod_cast hm1
      have h1m : 1 < m := by omega
      cases fair
      · rw [brier_case_unfair _ _ _ hmq]; congr 1; simp; ring
      · rw [brier_case_fair _ _ _ hmq hmq1]; congr 1; simp [h1m, correction]; ring

/-- bounds of the fair correction: 0 ≤ i(m−i)/(m²(m−1)) ≤ 1/(4(m−1)) -/
theorem correction_bounds (i m : Nat) (hi : i ≤ m) (hm : 1 < m) :
    0 ≤ correction i m ∧ correction i m ≤ 1 / (4 * ((m : Rat) - 1)) := by
  unfold correction
  have hiq : (i : Rat) ≤ m := by exact_mod_cast hi
  have hi0 : (0 : Rat) ≤ i := by positivity
  have hmq : (1 : Rat) < m := by exact_mod_cast hm
  have hm1 : (0 : Rat) < (m : Rat) - 1 := by linarith
  have hmm : (0 : Rat) < (m : Rat) * m := by nlinarith
  constructor
  · apply div_nonneg
    · nlinarith
    · positivity
  · rw [div_le_div_iff₀ (by positivity) (by positivity)]
    nlinarith [sq_nonneg ((m : Rat) - 2 * i), mul_pos hm1 hmm]

example : (1 : Nat) ≤ 3 ∧ 1 < 3 := by omega

/-- the definition is symmetric under event ↔ non-event: i ↦ m − i, y ↦ 1 − y -/
theorem brierEns_complement (i m : Nat) (hi : i ≤ m) (y : Rat) (fair : Bool) :
    brierEns (m - i) m (1 - y) fair = brierEns i m y fair := by
  unfold brierEns correction
  by_cases hm0 : m = 0
  · simp [hm0]
  · have hmq : (m : Rat) ≠ 0 := by exact_mod_cast hm0
    simp only [hm0, if_false]
    congr 1
    rw [Nat.cast_sub hi]
    have e1 : ((m : Rat) - i) / m - (1 - y) = -((i : Rat) / m - y) := by field_simp; ring
    rw [e1]
    have e2 : ((m : Rat) - i) * ((m : Rat) - ((m : Rat) - i)) = (i : Rat) * ((m : Rat) - i) := by ring
    rw [e2]
    ring

/-! ## 2. The assembled case: counts over the ensemble, observed event, guard on the operator. -/

private theorem binary_obs_op (o : PyOp) (ho : o = .ge ∨ o = .gt ∨ o = .le ∨ o = .lt) (obs thr : Fl) :
    binary_obs obs thr (.op o) = .ok (if obs.notNan && thr.notNan then ofBool (o.apply obs thr) else nan) := by
  unfold binary_obs Gen.Discretise.comparative_discretise Gen.Discretise.abs_tolerance_sanitised
  rcases ho with rfl | rfl | rfl | rfl <;>
    simp [Except.bind, bind, pure, Except.pure, Gen.Discretise.comparative_discretise_kernel, PyMode.inKeys, PyMode.isOp,
      PyMode.inOps, PyMode.call, whereB, add_zero']

/-- the assembled case for each of the four accepted operators: i and m are the direct counts, y the
    observed event, combined by the translated formula -/
theorem ensCase_op (o : PyOp) (ho : o = .ge ∨ o = .gt ∨ o = .le ∨ o = .lt) (members : List Fl) (obs thr : Fl) (fair : Bool) :
    ensCase members obs thr (.op o) fair =
      .ok (brier_case (Fl.ofNat (members.filter fun x => o.apply x thr).length) (Fl.ofNat (members.filter Fl.notNan).length)
            (if obs.notNan && thr.notNan then ofBool (o.apply obs thr) else nan) fair) := by
  unfold ensCase
  have hr : operator_rejected (.op o) = false := by
    rcases ho with rfl | rfl | rfl | rfl <;> decide
  rw [hr, binary_obs_op o ho]
  rfl

/-- any other operator (`operator.eq`, `operator.ne`, another callable) is rejected -/
theorem other_operator_rejected (members : List Fl) (obs thr : Fl) (fair : Bool) :
    ensCase members obs thr (.op .eq) fair = .error "ValueError" ∧
    ensCase members obs thr (.op .ne) fair = .error "ValueError" ∧
    ensCase members obs thr .other fair = .error "ValueError" := by
  refine ⟨?_, ?_, ?_⟩ <;> rfl

/-! ## 3. Complementary operators (`>=` vs `<`, `>` vs `<=`) give the same score — every threshold, ties
    included, NaN members and observations, fair or not, ensembles of any size. -/

private theorem ge_eq_not_lt (x t : Fl) (hx : x.notNan = true) (ht : t.notNan = true) : Fl.ge x t = !Fl.lt x t := by
  cases x <;> cases t <;> simp_all [Fl.ge, Fl.le, Fl.lt, notNan, isNan]
  rw [← decide_not]; exact decide_eq_decide.mpr not_lt.symm

private theorem gt_eq_not_le (x t : Fl) (hx : x.notNan = true) (ht : t.notNan = true) : Fl.gt x t = !Fl.le x t := by
  cases x <;> cases t <;> simp_all [Fl.gt, Fl.le, Fl.lt, notNan, isNan]
  rw [← decide_not]; exact decide_eq_decide.mpr not_le.symm

private theorem filter_compl_length {α : Type} (p q v : α → Bool) (h : ∀ a, v a = true → p a = !q a)
    (h' : ∀ a, v a = false → p a = false ∧ q a = false) (l : List α) :
    (l.filter p).length + (l.filter q).length = (l.filter v).length := by
  induction l with
  | nil => rfl
  | cons a l ih =>
    simp only [List.filter_cons]
    cases hv : v a
    · simp [(h' a hv).1, (h' a hv).2, ih]
    · have := h a hv
      cases hq : q a <;> simp [hq] at this <;> simp [this, hq] <;> omega

private theorem complement_aux (o o' : PyOp) (ho : o = .ge ∨ o = .gt ∨ o = .le ∨ o = .lt)
    (ho' : o' = .ge ∨ o' = .gt ∨ o' = .le ∨ o' = .lt)
    (h : ∀ x t : Fl, x.notNan = true → t.notNan = true → o.apply x t = !o'.apply x t)
    (hn : ∀ x t : Fl, x.notNan = false → o.apply x t = false ∧ o'.apply x t = false)
    (members : List Fl) (obs thr : Fl) (fair : Bool) :
    ensCase members obs thr (.op o) fair = ensCase members obs thr (.op o') fair := by
  rw [ensCase_op o ho, ensCase_op o' ho']
  congr 1
  by_cases hv : (obs.notNan && thr.notNan) = true
  · simp only [hv, if_true]
    simp only [Bool.and_eq_true] at hv
    have hcount := filter_compl_length (fun x => o.apply x thr) (fun x => o'.apply x thr) Fl.notNan
      (fun x hx => h x thr hx hv.2) (fun x hx => hn x thr hx) members
    have hle : (members.filter fun x => o'.apply x thr).length ≤ (members.filter Fl.notNan).length := by omega
    have hi : (members.filter fun x => o.apply x thr).length =
        (members.filter Fl.notNan).length - (members.filter fun x => o'.apply x thr).length := by omega
    have hy : ∀ b : Bool, ofBool b = fin (if b then 1 else 0) := by intro b; cases b <;> rfl
    rw [hy, hy, brier_case_eq_spec _ _ hle, hi, brier_case_eq_spec _ _ (by omega), h obs thr hv.1 hv.2]
    rw [← brierEns_complement _ _ hle]
    congr 1
    cases o'.apply obs thr <;> norm_num
  · simp only [Bool.not_eq_true] at hv
    simp only [hv, Bool.false_eq_true, if_false, brier_case_nan_obs]

theorem complement_ge_lt (members : List Fl) (obs thr : Fl) (fair : Bool) :
    ensCase members obs thr (.op .ge) fair = ensCase members obs thr (.op .lt) fair := by
  apply complement_aux .ge .lt (by simp) (by simp)
  · intro x t hx ht; exact ge_eq_not_lt x t hx ht
  · intro x t hx; cases x <;> simp_all [PyOp.apply, notNan, isNan]

theorem complement_gt_le (members : List Fl) (obs thr : Fl) (fair : Bool) :
    ensCase members obs thr (.op .gt) fair = ensCase members obs thr (.op .le) fair := by
  apply complement_aux .gt .le (by simp) (by simp)
  · intro x t hx ht; exact gt_eq_not_le x t hx ht
  · intro x t hx; cases x <;> simp_all [PyOp.apply, notNan, isNan]

/-- a tie is a tie for every member and the observation: concrete instance on the threshold -/
example : ensCase [fin (1/2), fin (1/2), nan, fin (3/4)] (fin (1/2)) (fin (1/2)) (.op .ge) true = .ok (fin 0) := by
  decide +kernel
example : ensCase [fin (1/2), fin (1/2), nan, fin (3/4)] (fin (1/2)) (fin (1/2)) (.op .gt) true = .ok (fin 0) := by
  decide +kernel

/-! ## 4. The assembled case IS the property's definition (`Spec.Brier.ensCase`): for each of the four
    operators, every ensemble (any size, NaN members, ties), observation and threshold. -/

def opOf : Rel4 → PyOp
  | .ge => .ge | .gt => .gt | .le => .le | .lt => .lt

private theorem filter_length_mono {α : Type} (p q : α → Bool) (h : ∀ a, p a = true → q a = true) (l : List α) :
    (l.filter p).length ≤ (l.filter q).length := by
  induction l with
  | nil => simp
  | cons a l ih =>
    simp only [List.filter_cons]
    cases hp : p a
    · cases q a <;> simp <;> omega
    · simp [h a hp]; omega

private theorem apply_notNan (r : Rel4) (x t : Fl) (h : (opOf r).apply x t = true) : x.notNan = true := by
  cases r <;> cases x <;> simp_all [opOf, PyOp.apply, notNan, isNan]

theorem ensCase_eq_spec (r : Rel4) (members : List Fl) (obs thr : Fl) (fair : Bool) :
    ensCase members obs thr (.op (opOf r)) fair = .ok (Spec.Brier.ensCase r members obs thr fair) := by
  rw [ensCase_op (opOf r) (by cases r <;> simp [opOf])]
  congr 1
  unfold Spec.Brier.ensCase
  have hholds : ∀ x t, (opOf r).apply x t = r.holds x t := by intro x t; cases r <;> rfl
  by_cases hv : (obs.notNan && thr.notNan) = true
  · have hv' : (obs.isNan || thr.isNan) = false := by
      simp only [Bool.and_eq_true, notNan, Bool.not_eq_true'] at hv; simp [hv.1, hv.2]
    simp only [hv, hv', if_true, Bool.false_eq_true, if_false]
    have hy : ∀ b : Bool, ofBool b = fin (if b then 1 else 0) := by intro b; cases b <;> rfl
    rw [hy, brier_case_eq_spec _ _ (filter_length_mono _ _ (fun x hx => apply_notNan r x thr hx) members)]
    unfold eventCount memberCount
    simp only [hholds]
  · have hv' : (obs.isNan || thr.isNan) = true := by
      simp only [Bool.not_eq_true, Bool.and_eq_false_iff, notNan, Bool.not_eq_false'] at hv
      rcases hv with h | h <;> simp [h]
    simp only [Bool.not_eq_true] at hv
    simp only [hv, hv', Bool.false_eq_true, if_false, if_true, brier_case_nan_obs]

/-! ## 5. `brier_score`: the squared difference kernel of `mse`, the range guard and the accepted set. -/

theorem brier_eq_mse (f o : Fl) : brier_kernel f o = mse_kernel f o := rfl

theorem brier_kernel_fin (f o : Rat) : brier_kernel (fin f) (fin o) = fin ((f - o) ^ 2) := by
  unfold brier_kernel mse_kernel; simp; ring

theorem brier_kernel_nan (x : Fl) : brier_kernel nan x = nan ∧ brier_kernel x nan = nan := by
  unfold brier_kernel mse_kernel; simp

/-- with every dimension reduced `brier_score` is the mean squared difference of the definition — when
    checking is off for every input, … -/
theorem brier_unchecked (fs os : List Fl) (w : Option (List Fl)) :
    brierScore fs os w false = .ok (Spec.Brier.brier fs os w) := by
  unfold brierScore Spec.Brier.brier Spec.Brier.meanOver applyWeights
  cases w <;> rfl

/-- the range guard fires exactly when the largest forecast exceeds 1 or the smallest is below 0 -/
theorem range_guard (mx mn : Rat) : fcst_range_rejected (fin mx) (fin mn) = true ↔ (1 < mx ∨ mn < 0) := by
  unfold fcst_range_rejected; simp

/-- all-missing forecasts (max = min = NaN) pass the range guard -/
theorem range_guard_nan : fcst_range_rejected nan nan = false := by
  unfold fcst_range_rejected; simp

/-- `check_binary` rejects exactly the lists with a non-missing value other than 0 and 1 -/
theorem binary_guard (os : List Fl) :
    binaryRejected os = true ↔ ∃ o ∈ os, o ≠ nan ∧ o ≠ fin 0 ∧ o ≠ fin 1 := by
  unfold binaryRejected valid binary_set
  simp only [List.any_eq_true, List.mem_filter, Bool.not_eq_true', List.any_cons, List.any_nil, Bool.or_false,
    Bool.or_eq_false_iff]
  constructor
  · rintro ⟨o, ⟨ho, hv⟩, h0, h1⟩
    refine ⟨o, ho, ?_, ?_, ?_⟩
    · rintro rfl; simp [notNan, isNan] at hv
    · rintro rfl; simp [beq] at h0
    · rintro rfl; simp [beq] at h1
  · rintro ⟨o, ho, hn, h0, h1⟩
    refine ⟨o, ⟨ho, ?_⟩, ?_, ?_⟩
    · cases o <;> simp_all [notNan, isNan]
    · cases o <;> simp_all [beq]
    · cases o <;> simp_all [beq]

example : binaryRejected [fin 0, nan, fin (1/2)] = true := by decide +kernel
example : binaryRejected [fin 0, nan, fin 1] = false := by decide +kernel

/-- … and when checking is on for every input the two guards accept; otherwise ValueError -/
theorem brier_checked (fs os : List Fl) (w : Option (List Fl)) :
    brierScore fs os w true =
      if fcst_range_rejected (nanMax fs) (nanMin fs) || binaryRejected os then .error "ValueError"
      else .ok (Spec.Brier.brier fs os w) := by
  have hu := brier_unchecked fs os w
  unfold brierScore at hu ⊢
  simp only [Bool.false_and, Bool.false_eq_true, if_false] at hu
  cases h1 : fcst_range_rejected (nanMax fs) (nanMin fs) <;> cases h2 : binaryRejected os <;> simp [hu] <;> rfl

/-! ## 6. The guards at array level: exactly the inputs of the definition's domain are accepted. -/

private theorem max_notNan (a b : Fl) (ha : a.notNan = true) (hb : b.notNan = true) : (Fl.max a b).notNan = true := by
  cases a <;> cases b <;> simp_all [Fl.max, notNan, isNan] <;> split_ifs <;> rfl

private theorem min_notNan (a b : Fl) (ha : a.notNan = true) (hb : b.notNan = true) : (Fl.min a b).notNan = true := by
  cases a <;> cases b <;> simp_all [Fl.min, notNan, isNan] <;> split_ifs <;> rfl

private theorem gt_max (a b : Fl) (c : Rat) (ha : a.notNan = true) (hb : b.notNan = true) :
    Fl.gt (Fl.max a b) (fin c) = (Fl.gt a (fin c) || Fl.gt b (fin c)) := by
  cases a <;> cases b <;> simp_all [Fl.max, Fl.gt, Fl.lt, Fl.le, notNan, isNan]
  rename_i p q
  by_cases h : p ≤ q
  · simp [h]; intro h1; linarith
  · simp [h]; intro h1; linarith

private theorem lt_min (a b : Fl) (c : Rat) (ha : a.notNan = true) (hb : b.notNan = true) :
    Fl.lt (Fl.min a b) (fin c) = (Fl.lt a (fin c) || Fl.lt b (fin c)) := by
  cases a <;> cases b <;> simp_all [Fl.min, Fl.lt, Fl.le, notNan, isNan]
  rename_i p q
  by_cases h : p ≤ q
  · simp [h]; intro h1; linarith
  · simp [h]; intro h1; linarith

private theorem foldl_max (c : Rat) (v : List Fl) : ∀ x : Fl, x.notNan = true → (∀ y ∈ v, y.notNan = true) →
    (v.foldl Fl.max x).notNan = true ∧
    Fl.gt (v.foldl Fl.max x) (fin c) = (Fl.gt x (fin c) || v.any fun y => Fl.gt y (fin c)) := by
  induction v with
  | nil => intro x hx _; simp [hx]
  | cons y v ih =>
    intro x hx hv
    have hy := hv y List.mem_cons_self
    have := ih (Fl.max x y) (max_notNan x y hx hy) (fun z hz => hv z (List.mem_cons_of_mem y hz))
    simp only [List.foldl_cons, List.any_cons]
    refine ⟨this.1, ?_⟩
    rw [this.2, gt_max x y c hx hy, Bool.or_assoc]

private theorem foldl_min (c : Rat) (v : List Fl) : ∀ x : Fl, x.notNan = true → (∀ y ∈ v, y.notNan = true) →
    (v.foldl Fl.min x).notNan = true ∧
    Fl.lt (v.foldl Fl.min x) (fin c) = (Fl.lt x (fin c) || v.any fun y => Fl.lt y (fin c)) := by
  induction v with
  | nil => intro x hx _; simp [hx]
  | cons y v ih =>
    intro x hx hv
    have hy := hv y List.mem_cons_self
    have := ih (Fl.min x y) (min_notNan x y hx hy) (fun z hz => hv z (List.mem_cons_of_mem y hz))
    simp only [List.foldl_cons, List.any_cons]
    refine ⟨this.1, ?_⟩
    rw [this.2, lt_min x y c hx hy, Bool.or_assoc]

private theorem valid_notNan (xs : List Fl) : ∀ y ∈ valid xs, y.notNan = true := by
  intro y hy; unfold valid at hy; exact (List.mem_filter.mp hy).2

theorem nanMax_gt (c : Rat) (xs : List Fl) : Fl.gt (nanMax xs) (fin c) = (valid xs).any fun y => Fl.gt y (fin c) := by
  unfold nanMax
  have hv := valid_notNan xs
  cases h : valid xs with
  | nil => simp
  | cons x r =>
    rw [h] at hv
    simp only [List.any_cons]
    exact (foldl_max c r x (hv x List.mem_cons_self) (fun z hz => hv z (List.mem_cons_of_mem x hz))).2

theorem nanMin_lt (c : Rat) (xs : List Fl) : Fl.lt (nanMin xs) (fin c) = (valid xs).any fun y => Fl.lt y (fin c) := by
  unfold nanMin
  have hv := valid_notNan xs
  cases h : valid xs with
  | nil => simp
  | cons x r =>
    rw [h] at hv
    simp only [List.any_cons]
    exact (foldl_min c r x (hv x List.mem_cons_self) (fun z hz => hv z (List.mem_cons_of_mem x hz))).2

/-- **the range guard at array level**: the forecasts are rejected exactly when some non-missing value is
    above 1 or below 0 -/
theorem range_guard_list (fs : List Fl) :
    fcst_range_rejected (nanMax fs) (nanMin fs) = true ↔ ∃ f ∈ fs, f ≠ nan ∧ (Fl.gt f (fin 1) = true ∨ Fl.lt f (fin 0) = true) := by
  unfold fcst_range_rejected
  rw [nanMax_gt, nanMin_lt]
  simp only [Bool.or_eq_true, List.any_eq_true, valid, List.mem_filter]
  constructor
  · rintro (⟨f, ⟨hf, hv⟩, h⟩ | ⟨f, ⟨hf, hv⟩, h⟩)
    · exact ⟨f, hf, by rintro rfl; simp [notNan, isNan] at hv, Or.inl h⟩
    · exact ⟨f, hf, by rintro rfl; simp [notNan, isNan] at hv, Or.inr h⟩
  · rintro ⟨f, hf, hn, h | h⟩
    · exact Or.inl ⟨f, ⟨hf, by cases f <;> simp_all [notNan, isNan]⟩, h⟩
    · exact Or.inr ⟨f, ⟨hf, by cases f <;> simp_all [notNan, isNan]⟩, h⟩

example : fcst_range_rejected (nanMax [fin (1/2), nan, fin (5/4)]) (nanMin [fin (1/2), nan, fin (5/4)]) = true := by
  decide +kernel

/-- **no tolerance at the end points**: ANY excursion below 0 or above 1, however small, hidden anywhere among
    valid and missing values, is rejected (the guard is about exact values; a float implementation must therefore
    reject the neighbours of 0 and 1 at the resolution limit of the storage format) -/
theorem range_guard_no_tolerance (ε : Rat) (hε : 0 < ε) (fs : List Fl) (h : fin (-ε) ∈ fs ∨ fin (1 + ε) ∈ fs) :
    fcst_range_rejected (nanMax fs) (nanMin fs) = true := by
  rw [range_guard_list]
  rcases h with h | h
  · exact ⟨_, h, by simp, Or.inr (by simp only [Fl.lt, decide_eq_true_eq]; linarith)⟩
  · exact ⟨_, h, by simp, Or.inl (by simp only [Fl.gt, Fl.lt, decide_eq_true_eq]; linarith)⟩

/-- the neighbours of the end points in binary64 / binary32 storage, the smallest denormal, 0.3 − 0.1 − 0.2 as stored -/
example : (0 : Rat) < 1 / 2 ^ 1074 := by positivity
example : fcst_range_rejected (nanMax [fin (1/2), nan, fin (-(1 / 2 ^ 1074))]) (nanMin [fin (1/2), nan, fin (-(1 / 2 ^ 1074))]) = true := by
  decide +kernel
example : fcst_range_rejected (nanMax [fin (1 + 1 / 2 ^ 52), fin 0]) (nanMin [fin (1 + 1 / 2 ^ 52), fin 0]) = true := by decide +kernel
example : fcst_range_rejected (nanMax [fin (1 + 1 / 2 ^ 23)]) (nanMin [fin (1 + 1 / 2 ^ 23)]) = true := by decide +kernel
example : fcst_range_rejected (nanMax [fin (-(1 / 2 ^ 55))]) (nanMin [fin (-(1 / 2 ^ 55))]) = true := by decide +kernel
example : fcst_range_rejected (nanMax [fin (-(1 / 2 ^ 149))]) (nanMin [fin (-(1 / 2 ^ 149))]) = true := by decide +kernel
/-- … and their inward neighbours are accepted -/
example : fcst_range_rejected (nanMax [fin (1 / 2 ^ 1074), fin (1 - 1 / 2 ^ 53), nan, fin 0, fin 1])
    (nanMin [fin (1 / 2 ^ 1074), fin (1 - 1 / 2 ^ 53), nan, fin 0, fin 1]) = false := by decide +kernel

private theorem le_eq_not_lt (a b : Fl) (ha : a.notNan = true) (hb : b.notNan = true) : Fl.le a b = !Fl.lt b a := by
  cases a <;> cases b <;> simp_all [Fl.le, Fl.lt, notNan, isNan]
  rw [← decide_not]; exact decide_eq_decide.mpr not_lt.symm

/-- the two guards together accept exactly `Spec.Brier.accepted`: every non-missing forecast in [0,1] and
    every non-missing observation 0 or 1 -/
theorem accepted_iff (fs os : List Fl) :
    Spec.Brier.accepted fs os = true ↔
      (fcst_range_rejected (nanMax fs) (nanMin fs) = false ∧ binaryRejected os = false) := by
  unfold Spec.Brier.accepted
  rw [Bool.and_eq_true, ← Bool.not_eq_true, ← Bool.not_eq_true, range_guard_list, binary_guard]
  simp only [List.all_eq_true, Bool.or_eq_true, Bool.and_eq_true, not_exists, not_and]
  constructor
  · rintro ⟨hf, ho⟩
    refine ⟨fun f hfm hn h => ?_, fun o hom hn h0 h1 => ?_⟩
    · have hv : f.notNan = true := by cases f <;> simp_all [notNan, isNan]
      rcases hf f hfm with h' | ⟨h1, h2⟩
      · cases f <;> simp_all [isNan]
      · rw [le_eq_not_lt _ _ rfl hv] at h1
        rw [le_eq_not_lt _ _ hv rfl] at h2
        rcases h with h | h
        · simp [Fl.gt] at h; simp [h] at h2
        · simp [h] at h1
    · rcases ho o hom with (h' | h') | h'
      · cases o <;> simp_all [isNan]
      · cases o <;> simp_all [beq]
      · cases o <;> simp_all [beq]
  · rintro ⟨hf, ho⟩
    refine ⟨fun f hfm => ?_, fun o hom => ?_⟩
    · by_cases hn : f = nan
      · subst hn; exact Or.inl rfl
      · have hv : f.notNan = true := by cases f <;> simp_all [notNan, isNan]
        refine Or.inr ⟨?_, ?_⟩
        · rw [le_eq_not_lt _ _ rfl hv]
          cases h : Fl.lt f (fin 0)
          · rfl
          · exact absurd (Or.inr h) (hf f hfm hn)
        · rw [le_eq_not_lt _ _ hv rfl]
          cases h : Fl.lt (fin 1) f
          · rfl
          · exact absurd (Or.inl (by simpa [Fl.gt] using h)) (hf f hfm hn)
    · by_cases hn : o = nan
      · subst hn; exact Or.inl (Or.inl rfl)
      · by_cases h0 : o = fin 0
        · subst h0; exact Or.inl (Or.inr (by simp [beq]))
        · by_cases h1 : o = fin 1
          · subst h1; exact Or.inr (by simp [beq])
          · exact absurd h1 (ho o hom hn h0)

/-- **brier_score with checking on**: the mean squared difference on exactly the accepted inputs, ValueError
    on all others -/
theorem brier_checked_accepted (fs os : List Fl) (w : Option (List Fl)) :
    brierScore fs os w true =
      if Spec.Brier.accepted fs os then .ok (Spec.Brier.brier fs os w) else .error "ValueError" := by
  rw [brier_checked]
  by_cases h : Spec.Brier.accepted fs os = true
  · have := (accepted_iff fs os).mp h
    simp [h, this.1, this.2]
  · have h' : ¬(fcst_range_rejected (nanMax fs) (nanMin fs) = false ∧ binaryRejected os = false) :=
      fun hh => h ((accepted_iff fs os).mpr hh)
    simp only [Bool.not_eq_true] at h
    simp only [h, Bool.false_eq_true, if_false]
    cases h1 : fcst_range_rejected (nanMax fs) (nanMin fs) <;> cases h2 : binaryRejected os <;> simp_all

example : Spec.Brier.accepted [fin (1/4), nan, fin 1] [fin 0, fin 1, nan] = true := by decide +kernel
example : Spec.Brier.accepted [fin (5/4)] [fin 0] = false := by decide +kernel
example : Spec.Brier.accepted [fin (1/4), fin (-(1 / 2 ^ 1074))] [fin 0, fin 1] = false := by decide +kernel
example : Spec.Brier.accepted [fin (1 + 1 / 2 ^ 52)] [fin 1] = false := by decide +kernel
example : Spec.Brier.accepted [fin (1 / 2 ^ 1074), fin (1 - 1 / 2 ^ 53)] [fin 0, fin 1] = true := by decide +kernel
example : Spec.Brier.accepted [fin (1/2)] [fin (1 / 2 ^ 1074)] = false := by decide +kernel
example : Spec.Brier.accepted [fin (1/2)] [fin (1 - 1 / 2 ^ 53)] = false := by decide +kernel

end SV.Props.C13
