/-
  C13 (stretch) — unbiasedness of the fair ensemble Brier score stated on MEMBER LISTS: the sum over all 2^m
  patterns "exactly the members in S forecast the event", each weighted by p^|S| (1−p)^(m−|S|), of the value the
  model `Model.C13.ensCase` returns for that ensemble, is (p − y)²; without the correction it is
  (p − y)² + p(1−p)/m.
-/
import ScoresVerif.Props.C13Fair
import Mathlib.Data.List.FinRange
import Mathlib.Data.Fintype.Basic
import Mathlib.Data.Fintype.Card
import Mathlib.Data.Finset.Powerset

set_option linter.unusedSimpArgs false

namespace SV.Props.C13
open SV SV.Fl Finset
open SV.Spec.Brier (Rel4 eventCount memberCount)
open SV.Model.C13 (ensCase)

/-- the ensemble of m members in which exactly the members in S have the value a and the others the value b -/
def pattern (m : Nat) (S : Finset (Fin m)) (a b : Fl) : List Fl :=
  (List.finRange m).map fun k => if k ∈ S then a else b

/-- the rational value of a finite result (0 for errors and non-finite results — never reached below) -/
def valQ : Except String Fl → Rat
  | .ok (.fin q) => q
  | _ => 0

theorem filter_finRange_length (m : Nat) (S : Finset (Fin m)) :
    ((List.finRange m).filter fun k => decide (k ∈ S)).length = S.card := by
  rw [← List.toFinset_card_of_nodup ((List.nodup_finRange m).filter _), List.toFinset_filter, List.toFinset_finRange]
  congr 1; ext k; simp

/-- the event count of a pattern is the size of S … -/
theorem eventCount_pattern (m : Nat) (S : Finset (Fin m)) (r : Rel4) (a b thr : Fl)
    (ha : r.holds a thr = true) (hb : r.holds b thr = false) :
    eventCount r thr (pattern m S a b) = S.card := by
  unfold eventCount pattern
  rw [List.filter_map, List.length_map, ← filter_finRange_length m S]
  congr 1
  apply List.filter_congr
  intro k _
  by_cases hk : k ∈ S <;> simp [hk, ha, hb]

/-- … and its member count is m -/
theorem memberCount_pattern (m : Nat) (S : Finset (Fin m)) (a b : Fl) (ha : a.isNan = false) (hb : b.isNan = false) :
    memberCount (pattern m S a b) = m := by
  unfold memberCount pattern
  rw [List.filter_map, List.length_map, List.filter_eq_self.mpr, List.length_finRange]
  intro k _
  by_cases hk : k ∈ S <;> simp [hk, notNan, ha, hb]

example : pattern 3 {0, 2} (fin 1) (fin 0) = [fin 1, fin 0, fin 1] := by decide +kernel

/-- summing a function of the count over all patterns with the pattern weights p^|S| (1−p)^(m−|S|) is the
    binomially weighted sum over the counts -/
theorem sum_patterns (m : Nat) (p : Rat) (f : Nat → Rat) :
    ∑ S ∈ (univ : Finset (Fin m)).powerset, p ^ S.card * (1 - p) ^ (m - S.card) * f S.card
      = ∑ i ∈ range (m + 1), (m.choose i : Rat) * p ^ i * (1 - p) ^ (m - i) * f i := by
  have := Finset.sum_powerset_apply_card (fun i => p ^ i * (1 - p) ^ (m - i) * f i) (x := (univ : Finset (Fin m)))
  rw [this, Finset.card_univ, Fintype.card_fin]
  apply sum_congr rfl
  intro i _
  rw [nsmul_eq_mul]; ring

private theorem holds_notNan (r : Rel4) (a thr : Fl) (h : r.holds a thr = true) : a.isNan = false := by
  cases r <;> cases a <;> simp_all [Rel4.holds, isNan]

private theorem val_pattern (m : Nat) (hm : 1 ≤ m) (r : Rel4) (a b obs thr : Fl)
    (ha : r.holds a thr = true) (hb : r.holds b thr = false) (hbn : b.isNan = false)
    (hobs : obs.isNan = false) (hthr : thr.isNan = false) (fair : Bool) (S : Finset (Fin m)) :
    valQ (ensCase (pattern m S a b) obs thr (.op (opOf r)) fair)
      = scoreQ S.card m (if r.holds obs thr then 1 else 0) fair := by
  have hmc := memberCount_pattern m S a b (holds_notNan r a thr ha) hbn
  rw [ensCase_scoreQ r _ obs thr hobs hthr (by rw [hmc]; omega), eventCount_pattern m S r a b thr ha hb, hmc]
  rfl

/-- **the fair score is unbiased, on member lists**: m ≥ 2 members, each taking a value `a` that meets the event
    relation (weight p) or a value `b` that does not (weight 1 − p); the weighted sum of the model's fair scores
    over all 2^m ensembles is the Brier score (p − y)² of the underlying probability against the observed event -/
theorem fair_unbiased_lists (m : Nat) (hm : 2 ≤ m) (p : Rat) (r : Rel4) (a b obs thr : Fl)
    (ha : r.holds a thr = true) (hb : r.holds b thr = false) (hbn : b.isNan = false)
    (hobs : obs.isNan = false) (hthr : thr.isNan = false) :
    ∑ S ∈ (univ : Finset (Fin m)).powerset,
        p ^ S.card * (1 - p) ^ (m - S.card) * valQ (ensCase (pattern m S a b) obs thr (.op (opOf r)) true)
      = (p - (if r.holds obs thr then 1 else 0)) ^ 2 := by
  simp only [val_pattern m (by omega) r a b obs thr ha hb hbn hobs hthr true]
  rw [sum_patterns m p (fun i => scoreQ i m (if r.holds obs thr then 1 else 0) true)]
  exact fair_unbiased m hm p _

/-- the hypotheses on a concrete instance: event "member ≥ 1/2", members 1 or 0, observation 3/4 -/
example : Rel4.ge.holds (fin 1) (fin (1/2)) = true ∧ Rel4.ge.holds (fin 0) (fin (1/2)) = false ∧
    (fin 0).isNan = false ∧ (fin (3/4)).isNan = false ∧ (fin (1/2)).isNan = false := by decide +kernel

example : (2 : Nat) ≤ 3 := by omega

/-- **the unadjusted score on member lists is biased by p(1−p)/m** (m ≥ 1) -/
theorem unadjusted_bias_lists (m : Nat) (hm : 1 ≤ m) (p : Rat) (r : Rel4) (a b obs thr : Fl)
    (ha : r.holds a thr = true) (hb : r.holds b thr = false) (hbn : b.isNan = false)
    (hobs : obs.isNan = false) (hthr : thr.isNan = false) :
    ∑ S ∈ (univ : Finset (Fin m)).powerset,
        p ^ S.card * (1 - p) ^ (m - S.card) * valQ (ensCase (pattern m S a b) obs thr (.op (opOf r)) false)
      = (p - (if r.holds obs thr then 1 else 0)) ^ 2 + p * (1 - p) / m := by
  simp only [val_pattern m hm r a b obs thr ha hb hbn hobs hthr false]
  rw [sum_patterns m p (fun i => scoreQ i m (if r.holds obs thr then 1 else 0) false)]
  exact unadjusted_bias m hm p _

example : Rel4.lt.holds (fin 0) (fin (1/2)) = true ∧ Rel4.lt.holds (fin 1) (fin (1/2)) = false := by decide +kernel

/-- a worked instance, m = 2, p = 1/4, event observed (y = 1): the four ensembles [b,b], [a,b], [b,a], [a,a] score
    1, 0, 0, 0 (fair) with weights 9/16, 3/16, 3/16, 1/16: the sum 9/16 = (1/4 − 1)² -/
example : valQ (ensCase [fin 0, fin 0] (fin 1) (fin (1/2)) (.op .ge) true) = 1 ∧
    valQ (ensCase [fin 1, fin 0] (fin 1) (fin (1/2)) (.op .ge) true) = 0 ∧
    valQ (ensCase [fin 1, fin 1] (fin 1) (fin (1/2)) (.op .ge) true) = 0 := by decide +kernel

end SV.Props.C13
