/-
  C19 — Diebold–Mariano statistics follow the published estimators and sign symmetry.

  Theorems about the hand model `SV.Model.DM` (HLN rational core, CI arithmetic in `Fl`, `_next_regular`), tied to
  the source by the differential correspondence check.  `sqrt` is uninterpreted in the rational model: the statistic
  is characterised by its square (`statSq`) and its sign (`statSign`); section 3 restates the laws over ℝ with
  `Real.sqrt`.  Section 6: the HG density / statistic GIVEN the fitted parameters.  Not covered by any theorem: the HG
  fit itself (scipy least-squares), the FFT, scipy's cdf/ppf.
-/
import ScoresVerif.Lemmas.DieboldMariano
import Mathlib.Analysis.Real.Sqrt

namespace SV.Props.C19
open SV SV.Model.DM

/-! ## 1. The model's estimators are the published ones (Harvey–Leybourne–Newbold eqs. (5), (9)) -/

theorem correction_eq_published (n h : Nat) : correction n h = SV.Spec.DM.hlnFactor n h := rfl

theorem mean_eq_published (d : List Rat) : mean d = SV.Spec.DM.mean d := mean_eq_spec d

/-- the autocovariance model is the direct biased estimator γ̂_k = (1/n) Σ_{t=k}^{n-1} (d_t − d̄)(d_{t−k} − d̄) -/
theorem autocovariance_eq_published (d : List Rat) (k : Nat) : acovfDirect d k = SV.Spec.DM.gammaHat d k :=
  gammaHatK_eq_spec d k

/-- V̂ of the model (the code's `(γ₀' + 2 Σ γ_k') / n²`) is the published V̂ = (γ̂₀ + 2 Σ_{k=1}^{h−1} γ̂_k) / n -/
theorem v_hat_eq_published (d : List Rat) (h : Nat) : vHatRat d h = SV.Spec.DM.vHat d h := vHatRat_eq_spec d h

/-- the small-sample factor is positive whenever `0 < h < n`: `n·factor·n = (n−h)² + (n−h)` -/
theorem correction_pos (n h : Nat) (hn : h < n) : 0 < correction n h := by
  unfold correction
  have hn' : (0 : Rat) < ((n : Int) : Rat) := by
    have : 0 < n := by omega
    exact_mod_cast this
  have hh : ((h : Int) : Rat) + 1 ≤ ((n : Int) : Rat) := by exact_mod_cast hn
  apply div_pos _ hn'
  have : ((n : Int) : Rat) + 1 - 2 * ((h : Int) : Rat) + ((h : Int) : Rat) * (((h : Int) : Rat) - 1) / ((n : Int) : Rat)
      = ((((n : Int) : Rat) - ((h : Int) : Rat)) ^ 2 + (((n : Int) : Rat) - ((h : Int) : Rat))) / ((n : Int) : Rat) := by
    field_simp; ring
  rw [this]
  apply div_pos _ hn'
  nlinarith

example : (2 : Nat) < 5 := by decide

/-! ## 2. Sign symmetry and scale invariance of the HLN statistic (through its square and sign) -/

theorem mean_negate (d : List Rat) : mean (negate d) = - mean d := by
  rw [negate_eq_scale, mean_scale]; ring

theorem v_hat_negate (d : List Rat) (h : Nat) : vHat (negate d) h = vHat d h := by
  unfold vHat
  rw [negate_eq_scale, vHatRat_scale]
  norm_num

/-- negating the series leaves |statistic| (and its NaN-ness) unchanged … -/
theorem stat_sq_negate (d : List Rat) (h : Nat) : statSq (negate d) h = statSq d h := by
  rw [negate_eq_scale]; exact statSq_scale (-1) (by norm_num) d h

/-- … and flips its sign: the statistic negates -/
theorem stat_sign_negate (d : List Rat) : statSign (negate d) = - statSign d := by
  unfold statSign
  rw [mean_negate, rsign_neg]

theorem mean_scale_eq (c : Rat) (d : List Rat) : mean (scale c d) = c * mean d := mean_scale c d

theorem v_hat_scale (c : Rat) (d : List Rat) (h : Nat) : vHatRat (scale c d) h = c ^ 2 * vHatRat d h :=
  vHatRat_scale c d h

/-- positive rescaling leaves the HLN statistic unchanged: same square (and NaN-ness), same sign -/
theorem stat_scale_invariant (c : Rat) (hc : 0 < c) (d : List Rat) (h : Nat) :
    statSq (scale c d) h = statSq d h ∧ statSign (scale c d) = statSign d := by
  refine ⟨statSq_scale c (ne_of_gt hc) d h, ?_⟩
  unfold statSign
  rw [mean_scale, rsign_mul_pos c _ hc]

example : (0 : Rat) < 3 := by norm_num

/-- an all-zero series has a NaN statistic -/
theorem all_zero_nan (d : List Rat) (h : Nat) (hz : ∀ x ∈ d, x = 0) : statSq d h = Fl.nan := by
  unfold statSq
  have : allZero d = true := by
    unfold allZero
    rw [List.all_eq_true]
    intro x hx; simpa using hz x hx
  simp [this]

example : ∀ x ∈ [(0 : Rat), 0, 0], x = 0 := by simp

/-- V̂ ≤ 0 gives a NaN statistic (the code's `if result <= 0: result = np.nan`) -/
theorem nonpositive_vhat_nan (d : List Rat) (h : Nat) (hv : vHatRat d h ≤ 0) : statSq d h = Fl.nan := by
  unfold statSq; split <;> simp

/-- `[1,−1,1,−1]` with h = 2 has V̂ = −1/8 ≤ 0 -/
example : vHatRat [1, -1, 1, -1] 2 ≤ 0 := by decide +kernel

/-- NaNs are removed before anything else; `timeseries_len` counts what remains -/
theorem clean_nan_cons (xs : List Fl) : clean (Fl.nan :: xs) = clean xs := by simp [clean]
theorem clean_fin_cons (a : Rat) (xs : List Fl) : clean (Fl.fin a :: xs) = a :: clean xs := by simp [clean]
theorem clean_append (xs ys : List Fl) : clean (xs ++ ys) = clean xs ++ clean ys := by simp [clean]
theorem ts_len_nan_cons (xs : List Fl) : tsLen (Fl.nan :: xs) = tsLen xs := by simp [tsLen, clean]
theorem ts_len_fin_cons (a : Rat) (xs : List Fl) : tsLen (Fl.fin a :: xs) = tsLen xs + 1 := by simp [tsLen, clean]

/-! ## 3. The same laws over ℝ with `Real.sqrt` (the formula `sqrt(factor) · mean / sqrt(V̂)`) -/

/-- the HLN statistic as a real number (meaningful when `0 < V̂`) -/
noncomputable def hlnReal (d : List Rat) (h : Nat) : ℝ :=
  Real.sqrt (correction d.length h : ℚ) * ((mean d : ℚ) / Real.sqrt (vHatRat d h : ℚ))

theorem hln_real_negate (d : List Rat) (h : Nat) : hlnReal (negate d) h = - hlnReal d h := by
  unfold hlnReal
  rw [negate_eq_scale, mean_scale, vHatRat_scale, scale_length]
  push_cast
  ring_nf

theorem hln_real_scale (c : Rat) (hc : 0 < c) (d : List Rat) (h : Nat) (hv : 0 < vHatRat d h) :
    hlnReal (scale c d) h = hlnReal d h := by
  unfold hlnReal
  rw [mean_scale, vHatRat_scale, scale_length]
  have hcR : (0 : ℝ) < (c : ℝ) := by exact_mod_cast hc
  have hvR : (0 : ℝ) < ((vHatRat d h : ℚ) : ℝ) := by exact_mod_cast hv
  have hs : Real.sqrt (((c ^ 2 * vHatRat d h : ℚ)) : ℝ) = (c : ℝ) * Real.sqrt ((vHatRat d h : ℚ) : ℝ) := by
    push_cast
    rw [Real.sqrt_mul (by positivity), Real.sqrt_sq (le_of_lt hcR)]
  rw [hs]
  push_cast
  have : Real.sqrt ((vHatRat d h : ℚ) : ℝ) ≠ 0 := ne_of_gt (Real.sqrt_pos.mpr hvR)
  field_simp

example : (0 : Rat) < vHatRat [1, 2, 4] 1 := by decide +kernel

/-- the real statistic squared is the model's `statSq`, and it has the sign of the mean -/
theorem hln_real_sq (d : List Rat) (h : Nat) (hn : h < d.length) (hv : 0 < vHatRat d h) :
    hlnReal d h ^ 2 = ((correction d.length h * (mean d) ^ 2 / vHatRat d h : ℚ) : ℝ) := by
  unfold hlnReal
  have hvR : (0 : ℝ) < ((vHatRat d h : ℚ) : ℝ) := by exact_mod_cast hv
  have hcR : (0 : ℝ) ≤ ((correction d.length h : ℚ) : ℝ) := by exact_mod_cast le_of_lt (correction_pos _ _ hn)
  rw [mul_pow, div_pow, Real.sq_sqrt hcR, Real.sq_sqrt (le_of_lt hvR)]
  push_cast
  ring

/-! ## 4. The confidence interval `mean · (1 ∓ q / statistic)` -/

/-- PARTIAL (known finding F6 excluded by `s ≠ 0`): for a finite non-zero statistic that has the sign of the mean
    and a quantile `q ≥ 0`, both limits are finite, `ci_lower ≤ mean ≤ ci_upper`, and the half-width is `q·|mean/statistic|` -/
theorem ci_brackets_mean_partial (m s q : Rat) (hs : s ≠ 0) (hq : 0 ≤ q) (hsign : 0 ≤ m * s) :
    ∃ lo up : Rat, ciLower (Fl.fin m) (Fl.fin s) (Fl.fin q) = Fl.fin lo ∧ ciUpper (Fl.fin m) (Fl.fin s) (Fl.fin q) = Fl.fin up ∧
      lo ≤ m ∧ m ≤ up ∧ up - m = q * |m / s| ∧ m - lo = q * |m / s| := by
  refine ⟨m * (1 - q / s), m * (1 + q / s), ?_, ?_, ?_⟩
  · simp [ciLower, Fl.div_fin _ _ hs]
  · simp [ciUpper, Fl.div_fin _ _ hs]
  · have hms : 0 ≤ m / s := by
      have : m / s = m * s / s ^ 2 := by field_simp
      rw [this]; positivity
    rw [abs_of_nonneg hms]
    have e1 : m * (1 + q / s) - m = q * (m / s) := by field_simp; ring
    have e2 : m - m * (1 - q / s) = q * (m / s) := by field_simp; ring
    have hnn : 0 ≤ q * (m / s) := mul_nonneg hq hms
    refine ⟨by linarith, by linarith, e1, e2⟩

example : (3 : Rat) ≠ 0 ∧ (0 : Rat) ≤ 2 ∧ (0 : Rat) ≤ 6 * 3 := by norm_num

/-- the statistic of the model has the sign of the mean, so `hsign` above is met by every HLN statistic:
    `mean · (sign(mean) · r) ≥ 0` for every magnitude `r ≥ 0` -/
theorem sign_hypothesis_met (d : List Rat) (r : Rat) (hr : 0 ≤ r) : 0 ≤ mean d * ((statSign d : Rat) * r) := by
  unfold statSign Fl.rsign
  split
  · rename_i h; push_cast; nlinarith
  · split
    · rename_i h; simp [h]
    · rename_i h1 h2
      have : 0 ≤ mean d := not_lt.mp h1
      push_cast; nlinarith

/-- KNOWN FINDING F6: with mean 0 the statistic is 0 (finite) and both limits are NaN — `0·(1 ± q/0)` -/
theorem ci_counterexample :
    ciUpper (Fl.fin 0) (Fl.fin 0) (Fl.fin 2) = Fl.nan ∧ ciLower (Fl.fin 0) (Fl.fin 0) (Fl.fin 2) = Fl.nan := by
  decide +kernel

/-- the witness series of notes/C19.md: `[1,−1,2,−2]`, h = 1 has mean 0, V̂ = 5/8 > 0, hence statistic² = 0 (finite) -/
theorem ci_counterexample_witness :
    mean [1, -1, 2, -2] = 0 ∧ vHat [1, -1, 2, -2] 1 = Fl.fin (5 / 8) ∧ statSq [1, -1, 2, -2] 1 = Fl.fin 0 := by
  decide +kernel

/-- in general: statistic 0 and any positive quantile give NaN limits -/
theorem ci_nan_at_zero_statistic (q : Rat) (hq : 0 < q) :
    ciUpper (Fl.fin 0) (Fl.fin 0) (Fl.fin q) = Fl.nan ∧ ciLower (Fl.fin 0) (Fl.fin 0) (Fl.fin q) = Fl.nan := by
  have h1 : ¬ q < 0 := not_lt.mpr (le_of_lt hq)
  have h2 : q ≠ 0 := ne_of_gt hq
  simp [ciUpper, ciLower, Fl.div, Fl.add, Fl.sub, Fl.neg, Fl.mul, h1, h2]

example : (0 : Rat) < 2 := by norm_num

/-! ## 5. `acovf`: the FFT length is large enough for a linear (non-circular) autocovariance -/

theorem next_regular_ge (n : Nat) : n ≤ nextRegular n := nextRegular_ge n

/-- padded length ≥ 2·nobs − 1, so the circular correlation computed by FFT equals the linear one at lags < nobs -/
theorem fft_length_sufficient (nobs : Nat) : 2 * nobs - 1 ≤ fftLength nobs := by
  have := nextRegular_ge (2 * nobs + 1)
  unfold fftLength; omega

/-- the autocovariance model is the published biased estimator scaled consistently with V̂:
    `V̂ = (γ̂₀ + 2 Σ_{k<h} γ̂_k) / n` with `γ̂_k = acovfDirect d k` -/
theorem v_hat_from_autocovariances (d : List Rat) (h : Nat) :
    vHatRat d h = (acovfDirect d 0 + 2 * ((List.range (h - 1)).map fun k => acovfDirect d (k + 1)).sum) / ((d.length : Int) : Rat) := by
  unfold vHatRat acovfDirect
  have : ((List.range (h - 1)).map fun k => gammaHatK d (mean d) (k + 1) / ((d.length : Int) : Rat)).sum
      = ((List.range (h - 1)).map fun k => gammaHatK d (mean d) (k + 1)).sum / ((d.length : Int) : Rat) := by
    induction (List.range (h - 1)) with
    | nil => simp
    | cons a t ih => simp only [List.map_cons, List.sum_cons, ih]; ring
  simp only
  rw [this]
  ring

/-! ## 6. The Hering–Genton density GIVEN the fitted parameters (σ², ρ = exp(−3/θ)); the fit itself is not modelled -/

theorem hg_density_eq (sigmaSq rho : Rat) (m : Nat) :
    SV.Spec.DM.hgDensityLags sigmaSq rho m = sigmaSq * (1 + 2 * SV.Spec.DM.lagSum rho (m - 1)) := rfl

/-- "positivity is guaranteed": for σ² > 0 and ρ ≥ 0 the density estimate is positive (≥ σ²), so the HG statistic is finite -/
theorem hg_density_pos {sigmaSq rho : Rat} (hs : 0 < sigmaSq) (hr : 0 ≤ rho) (n : Nat) :
    0 < SV.Spec.DM.hgDensity sigmaSq rho n := by
  unfold SV.Spec.DM.hgDensity; rw [hg_density_eq]
  have := SV.Spec.DM.lagSum_nonneg hr (n - 1)
  apply mul_pos hs; linarith

example : (0 : Rat) < 4 ∧ (0 : Rat) ≤ 1 / 2 := by norm_num

/-- summing the fitted model over fewer lags (e.g. only the fitting lags 0 … max_lag−1 instead of all lags 0 … n−1)
    gives a strictly smaller density for every ρ > 0 — hence a strictly larger |statistic| -/
theorem hg_density_truncation_lt {sigmaSq rho : Rat} (hs : 0 < sigmaSq) (hr : 0 < rho) {m n : Nat} (hm : 1 ≤ m) (hmn : m < n) :
    SV.Spec.DM.hgDensityLags sigmaSq rho m < SV.Spec.DM.hgDensity sigmaSq rho n := by
  unfold SV.Spec.DM.hgDensity; rw [hg_density_eq, hg_density_eq]
  have : SV.Spec.DM.lagSum rho (m - 1) < SV.Spec.DM.lagSum rho (n - 1) := SV.Spec.DM.lagSum_strictMono hr (by omega)
  apply mul_lt_mul_of_pos_left _ hs; linarith

example : (0 : Rat) < 1 ∧ (0 : Rat) < 1 / 2 ∧ 1 ≤ 2 ∧ 2 < 4 := by norm_num

/-- concrete instance: σ² = 1, ρ = 1/2, series of length 4: all lags give 11/4, the first two lags only 2 -/
theorem hg_density_truncation_example :
    SV.Spec.DM.hgDensity 1 (1 / 2) 4 = 11 / 4 ∧ SV.Spec.DM.hgDensityLags 1 (1 / 2) 2 = 2 := by decide +kernel

/-- geometric closed form: (1 − ρ) · f̂(0) = σ² (1 + ρ − 2ρⁿ) for a series of length n ≥ 1 -/
theorem hg_density_closed_form (sigmaSq rho : Rat) {n : Nat} (hn : 1 ≤ n) :
    (1 - rho) * SV.Spec.DM.hgDensity sigmaSq rho n = sigmaSq * (1 + rho - 2 * rho ^ n) := by
  unfold SV.Spec.DM.hgDensity; rw [hg_density_eq]
  have h := SV.Spec.DM.lagSum_closed rho (n - 1)
  have hn' : n - 1 + 1 = n := by omega
  rw [hn'] at h
  calc (1 - rho) * (sigmaSq * (1 + 2 * SV.Spec.DM.lagSum rho (n - 1)))
      = sigmaSq * ((1 - rho) + 2 * ((1 - rho) * SV.Spec.DM.lagSum rho (n - 1))) := by ring
    _ = sigmaSq * (1 + rho - 2 * rho ^ n) := by rw [h]; ring

/-- the density scales with σ² and the squared statistic is invariant when series and σ are rescaled together:
    f̂(0)(c²σ², ρ) = c² f̂(0)(σ², ρ) -/
theorem hg_density_scale (c sigmaSq rho : Rat) (n : Nat) :
    SV.Spec.DM.hgDensity (c ^ 2 * sigmaSq) rho n = c ^ 2 * SV.Spec.DM.hgDensity sigmaSq rho n := by
  unfold SV.Spec.DM.hgDensity SV.Spec.DM.hgDensityLags; ring

/-- negating the series leaves the squared statistic unchanged (the sign flips with the mean) -/
theorem hg_stat_sq_neg (d : List Rat) (sigmaSq rho : Rat) :
    SV.Spec.DM.hgStatSq (SV.Model.DM.negate d) sigmaSq rho = SV.Spec.DM.hgStatSq d sigmaSq rho := by
  unfold SV.Spec.DM.hgStatSq
  have hl : (SV.Model.DM.negate d).length = d.length := by simp [SV.Model.DM.negate]
  have hm : SV.Spec.DM.mean (SV.Model.DM.negate d) = - SV.Spec.DM.mean d := by
    rw [← SV.Model.DM.mean_eq_spec, ← SV.Model.DM.mean_eq_spec, SV.Model.DM.negate_eq_scale, SV.Model.DM.mean_scale]; ring
  rw [hl, hm]; ring

end SV.Props.C19
