/-
  C10Model — the replacement of infinite end points in `_auxiliary_funcs` is sound for a whole batch, also when the end
  points are per-position ARRAYS that mix infinite and finite values.

  /repo/src/scores/continuous/threshold_weighted_impl.py, `_auxiliary_funcs`:

      rectangular   a = a.where(a > -inf, min(fcst.min(), obs.min(), b.min()) - 1)
                    b = b.where(b <  inf, max(fcst.max(), obs.max(), a.max()) + 1)
      trapezoidal   b = b.where(b > -inf, min(fcst.min(), obs.min(), c.min()) - 1)
                    a = a.where(a > -inf, b.min() - 1)
                    c = c.where(c <  inf, max(fcst.max(), obs.max(), b.max()) + 1)
                    d = d.where(d <  inf, c.max() + 1)

  The stand-ins are computed ONCE for the batch, from the minimum / maximum over the WHOLE data arrays and the WHOLE
  end-point arrays (hand model `Model.TW.auxRect / auxTrap`, tied to the code by the differential check).  The theorems
  say: whenever the model does not raise, at every position i and for every forecast x and observation y of the batch,
  each of the five tw_* scores evaluated by the REGENERATED code (`Gen.ThresholdWeighted`) with the replaced finite end
  points (a′ᵢ, b′ᵢ, c′ᵢ, d′ᵢ) equals the integral of the elementary score against the TRUE weight `wTrapE aᵢ bᵢ cᵢ dᵢ`
  (resp. `wRectE aᵢ bᵢ`) — weight 1 / the ramp continued out to ±∞ — over [min(x,y), max(x,y)].
  Positions are addressed as `l[i]? = some v` (lists already broadcast against the data, as in the model).

  The soundness needs FINITE data: `endpoint_replacement_infinite_data_counterexample` shows that one −∞ forecast
  anywhere in the batch turns the score of every other (finite) forecast case into NaN (notes/C10.md, observation O1).
-/
import ScoresVerif.Props.C10
import ScoresVerif.Lemmas.C10Model

set_option linter.unusedVariables false

namespace SV.Props.C10Model
open SV SV.Spec.Quad SV.Spec.TW SV.TW SV.Props.C10
open SV.Fl (fin nan ninf pinf)

/-! ## 1. one position -/

/-- trapezoidal weight: an admissible quadruple (a, b, c, d) whose infinite end points are replaced by A0 < A ≤ data and
    data ≤ D < D0, with A below the finite c and D above the finite b -/
theorem trap_position_sound (a b c d : Fl) (A0 A D D0 x y : Rat) (hadm : AdmTrap a b c d)
    (hx : A + 1 ≤ x ∧ x + 1 ≤ D) (hy : A + 1 ≤ y ∧ y + 1 ≤ D)
    (hA0 : b = ninf → A0 + 1 ≤ A ∧ A + 1 ≤ D) (hbD : ∀ q, b = fin q → q + 1 ≤ D)
    (hAc : ∀ r, c = fin r → A + 1 ≤ r) (hD0 : c = pinf → D + 1 ≤ D0) :
    AllFiveEqIntegral
      (G.g_j_trap (Fl.whereB a (Fl.gt a ninf) (fin A0)) (Fl.whereB b (Fl.gt b ninf) (fin A))
        (Fl.whereB c (Fl.lt c pinf) (fin D)) (Fl.whereB d (Fl.lt d pinf) (fin D0)))
      (G.phi_j_trap (Fl.whereB a (Fl.gt a ninf) (fin A0)) (Fl.whereB b (Fl.gt b ninf) (fin A))
        (Fl.whereB c (Fl.lt c pinf) (fin D)) (Fl.whereB d (Fl.lt d pinf) (fin D0)))
      (G.phi_j_prime_trap (Fl.whereB a (Fl.gt a ninf) (fin A0)) (Fl.whereB b (Fl.gt b ninf) (fin A))
        (Fl.whereB c (Fl.lt c pinf) (fin D)) (Fl.whereB d (Fl.lt d pinf) (fin D0)))
      (wTrapE a b c d) (finKinks [a, b, c, d]) x y := by
  obtain ⟨h1, h2, h3⟩ := hadm
  rcases h1 with ⟨rfl, rfl⟩ | ⟨p, q, rfl, rfl, hpq⟩ <;> rcases h2 with ⟨rfl, rfl⟩ | ⟨r, s, rfl, rfl, hrs⟩
  · have := hA0 rfl; have := hD0 rfl
    exact endpoint_replacement_sound_trap_both A0 A D D0 x y (by linarith) (by linarith) (by linarith) (by linarith)
      (by linarith) (by linarith) (by linarith)
  · have := hA0 rfl; have := hAc r rfl
    exact endpoint_replacement_sound_trap_left A0 A r s x y (by linarith) (by linarith) hrs (by linarith) (by linarith)
  · have := hbD q rfl; have := hD0 rfl
    exact endpoint_replacement_sound_trap_right p q D D0 x y hpq (by linarith) (by linarith) (by linarith) (by linarith)
  · have hqr : q < r := by simpa using h3
    have e : wTrapE (fin p) (fin q) (fin r) (fin s) = wTrap p q r s := funext fun θ => wTrapE_fin p q r s θ hpq hqr hrs
    show AllFiveEqIntegral (G.g_j_trap (fin p) (fin q) (fin r) (fin s)) (G.phi_j_trap (fin p) (fin q) (fin r) (fin s))
      (G.phi_j_prime_trap (fin p) (fin q) (fin r) (fin s)) (wTrapE (fin p) (fin q) (fin r) (fin s)) [p, q, r, s] x y
    rw [e]
    exact allFive_of_antider (auxFin_trap p q r s hpq hqr hrs) (antider_trap p q r s hpq hqr hrs (min x y) (max x y)) x y
      (min_le_left _ _) (min_le_right _ _) (le_max_left _ _) (le_max_right _ _)
example : AdmTrap ninf ninf (fin 4) (fin 6) ∧ AdmTrap (fin 0) (fin 1) pinf pinf ∧ AdmTrap (fin 0) (fin 1) (fin 2) (fin 4) :=
  ⟨⟨Or.inl ⟨rfl, rfl⟩, Or.inr ⟨4, 6, rfl, rfl, by norm_num⟩, rfl⟩, ⟨Or.inr ⟨0, 1, rfl, rfl, by norm_num⟩, Or.inl ⟨rfl, rfl⟩, rfl⟩,
   ⟨Or.inr ⟨0, 1, rfl, rfl, by norm_num⟩, Or.inr ⟨2, 4, rfl, rfl, by norm_num⟩, by decide +kernel⟩⟩

/-- rectangular weight: an admissible pair (a, b) whose infinite end points are replaced by A ≤ data ≤ B, with A below the
    finite b and B above the finite a -/
theorem rect_position_sound (a b : Fl) (A B x y : Rat) (hadm : AdmRect a b)
    (hx : A + 1 ≤ x ∧ x + 1 ≤ B) (hy : A + 1 ≤ y ∧ y + 1 ≤ B)
    (hAb : ∀ q, b = fin q → A + 1 ≤ q) (haB : ∀ p, a = fin p → p + 1 ≤ B) :
    AllFiveEqIntegral
      (G.g_j_rect (Fl.whereB a (Fl.gt a ninf) (fin A)) (Fl.whereB b (Fl.lt b pinf) (fin B)))
      (G.phi_j_rect (Fl.whereB a (Fl.gt a ninf) (fin A)) (Fl.whereB b (Fl.lt b pinf) (fin B)))
      (G.phi_j_prime_rect (Fl.whereB a (Fl.gt a ninf) (fin A)) (Fl.whereB b (Fl.lt b pinf) (fin B)))
      (wRectE a b) (finKinks [a, b]) x y := by
  obtain ⟨h1, h2, h3⟩ := hadm
  rcases h1 with rfl | ⟨p, rfl⟩ <;> rcases h2 with rfl | ⟨q, rfl⟩
  · exact endpoint_replacement_sound_rect_both A B x y (by linarith) (by linarith) (by linarith) (by linarith) (by linarith)
  · have := hAb q rfl
    exact endpoint_replacement_sound_rect_left A q x y (by linarith) (by linarith) (by linarith)
  · have := haB p rfl
    exact endpoint_replacement_sound_rect_right p B x y (by linarith) (by linarith) (by linarith)
  · have hpq : p < q := by simpa using h3
    have e : wRectE (fin p) (fin q) = wRect p q := funext fun θ => wRectE_fin p q θ
    show AllFiveEqIntegral (G.g_j_rect (fin p) (fin q)) (G.phi_j_rect (fin p) (fin q)) (G.phi_j_prime_rect (fin p) (fin q))
      (wRectE (fin p) (fin q)) [p, q] x y
    rw [e]
    exact allFive_of_antider (auxFin_rect p q hpq) (antider_rect p q hpq (min x y) (max x y)) x y
      (min_le_left _ _) (min_le_right _ _) (le_max_left _ _) (le_max_right _ _)
example : AdmRect ninf (fin 2) ∧ AdmRect (fin 1) pinf ∧ AdmRect ninf pinf ∧ AdmRect (fin 1) (fin 2) :=
  ⟨⟨Or.inl rfl, Or.inr ⟨2, rfl⟩, rfl⟩, ⟨Or.inr ⟨1, rfl⟩, Or.inl rfl, rfl⟩, ⟨Or.inl rfl, Or.inl rfl, rfl⟩,
   ⟨Or.inr ⟨1, rfl⟩, Or.inr ⟨2, rfl⟩, by decide +kernel⟩⟩

/-! ## 2. the whole batch -/

/-- **endpoint_replacement_model_trap** — trapezoidal branch of `_auxiliary_funcs`.  For every batch of finite forecasts
    `fc` and observations `ob` and all per-position end-point lists (any mixture of finite and infinite entries, NaN
    allowed in the hypothesis): if the model does not raise a ValueError then the four replaced lists have the length of
    the originals and at EVERY position i the quadruple (a, b, c, d) is admissible (a = b = −∞ or a < b finite; c = d = +∞ or
    c < d finite; b < c; no NaN) and for EVERY forecast x and observation y of the batch each of tw_quantile_score,
    tw_absolute_error, tw_expectile_score, tw_squared_error, tw_huber_loss computed with the replaced finite end points
    (a′, b′, c′, d′) of that position equals the integral of the elementary score against the true weight `wTrapE a b c d`
    (1 out to −∞ / +∞ on an infinite side).  The stand-ins use the min / max over the whole end-point arrays; this is
    sound for mixed arrays because every stand-in is still beyond all data and on the correct side of the other end
    points of its own position. -/
theorem endpoint_replacement_model_trap (fc ob : List Rat) (as bs cs ds : List Fl) (hf : fc ≠ []) (ho : ob ≠ [])
    (hn : as ≠ []) (hlb : bs.length = as.length) (hlc : cs.length = as.length) (hld : ds.length = as.length)
    (T : Model.TW.Trap) (h : Model.TW.auxTrap (fc.map fin) (ob.map fin) as bs cs ds = .ok T) :
    (T.a.length = as.length ∧ T.b.length = bs.length ∧ T.c.length = cs.length ∧ T.d.length = ds.length) ∧
    ∀ (i : Nat) (a b c d a' b' c' d' : Fl), as[i]? = some a → bs[i]? = some b → cs[i]? = some c → ds[i]? = some d →
      T.a[i]? = some a' → T.b[i]? = some b' → T.c[i]? = some c' → T.d[i]? = some d' →
      AdmTrap a b c d ∧
      ∀ x ∈ fc, ∀ y ∈ ob,
        AllFiveEqIntegral (G.g_j_trap a' b' c' d') (G.phi_j_trap a' b' c' d') (G.phi_j_prime_trap a' b' c' d')
          (wTrapE a b c d) (finKinks [a, b, c, d]) x y := by
  obtain ⟨adm, A0, A, D, D0, eTa, eTb, eTc, eTd, hfc, hob, hAcs, hTb, hTc⟩ :=
    aux_trap_replacement fc ob as bs cs ds hf ho hn hlb hlc hld T h
  refine ⟨by rw [eTa, eTb, eTc, eTd]; simp, ?_⟩
  intro i a b c d a' b' c' d' ha hb hc hd ha' hb' hc' hd'
  have hadm := adm i a b c d ha hb hc hd
  refine ⟨hadm, fun x hx y hy => ?_⟩
  have mb' : b' ∈ T.b := List.mem_of_getElem? hb'
  have mc' : c' ∈ T.c := List.mem_of_getElem? hc'
  rw [eTa, List.getElem?_map, ha, Option.map_some, Option.some.injEq] at ha'
  rw [eTb, List.getElem?_map, hb, Option.map_some, Option.some.injEq] at hb'
  rw [eTc, List.getElem?_map, hc, Option.map_some, Option.some.injEq] at hc'
  rw [eTd, List.getElem?_map, hd, Option.map_some, Option.some.injEq] at hd'
  subst ha' hb' hc' hd'
  refine trap_position_sound a b c d A0 A D D0 x y hadm (hfc x hx) (hob y hy) ?_ ?_ ?_ ?_
  · rintro rfl; exact hTb A mb'
  · rintro q rfl; exact (hTb q mb').2
  · rintro r rfl; exact hAcs r (List.mem_of_getElem? hc)
  · rintro rfl; exact hTc D mc'

/-- a batch whose end-point arrays mix infinite and finite values: position 0 has weight ≡ 1, position 1 a finite
    trapezoid far to the left of the data, position 2 the ramp-down weight; stand-ins −51 < −1 ≤ data ≤ 10 < 11 (−51 = min over ALL of b′, incl. the finite −50, minus 1) -/
example : (Model.TW.auxTrap [fin 1, fin 7, fin 3] [fin 0, fin 2, fin 9] [ninf, fin (-100), ninf] [ninf, fin (-50), ninf]
      [pinf, fin 4, fin 5] [pinf, fin 6, fin 8]).toOption.map (fun T => (T.a, T.b, T.c, T.d))
    = some ([fin (-51), fin (-100), fin (-51)], [fin (-1), fin (-50), fin (-1)], [fin 10, fin 4, fin 5], [fin 11, fin 6, fin 8]) := by
  decide +kernel

/-- **endpoint_replacement_model_rect_sound** — the rectangular branch, same statement: for end-point lists without NaN
    (left ends −∞ or finite, right ends +∞ or finite, any mixture), if the model does not raise then at every position
    a < b and the five scores computed with the replaced (a′, b′) are the integrals against the true weight `wRectE a b`. -/
theorem endpoint_replacement_model_rect_sound (fc ob : List Rat) (as bs : List Fl) (hf : fc ≠ []) (ho : ob ≠ [])
    (ha : as ≠ []) (hb : bs ≠ [])
    (has : ∀ t ∈ as, t = ninf ∨ ∃ q, t = fin q) (hbs : ∀ t ∈ bs, t = pinf ∨ ∃ q, t = fin q)
    (as' bs' : List Fl) (h : Model.TW.auxRect (fc.map fin) (ob.map fin) as bs = .ok (as', bs')) :
    (as'.length = as.length ∧ bs'.length = bs.length) ∧
    ∀ (i : Nat) (a b a' b' : Fl), as[i]? = some a → bs[i]? = some b → as'[i]? = some a' → bs'[i]? = some b' →
      AdmRect a b ∧
      ∀ x ∈ fc, ∀ y ∈ ob,
        AllFiveEqIntegral (G.g_j_rect a' b') (G.phi_j_rect a' b') (G.phi_j_prime_rect a' b') (wRectE a b) (finKinks [a, b]) x y := by
  obtain ⟨A, B, eA, eB, hfc, hob, hAb, haB⟩ := endpoint_replacement_model_rect fc ob as bs hf ho ha hb has hbs as' bs' h
  have hchk : Model.TW.any2 Fl.ge as bs = false := by
    unfold Model.TW.auxRect at h
    split at h
    · exact absurd h (by simp)
    · rename_i hc; simpa using hc
  refine ⟨by rw [eA, eB]; simp, ?_⟩
  intro i a b a' b' hai hbi ha' hb'
  have hadm : AdmRect a b := admRect_of_check a b (has a (List.mem_of_getElem? hai)) (hbs b (List.mem_of_getElem? hbi))
    (any2_false_at hchk hai hbi)
  refine ⟨hadm, fun x hx y hy => ?_⟩
  rw [eA, List.getElem?_map, hai, Option.map_some, Option.some.injEq] at ha'
  rw [eB, List.getElem?_map, hbi, Option.map_some, Option.some.injEq] at hb'
  subst ha' hb'
  refine rect_position_sound a b A B x y hadm (hfc x hx) (hob y hy) ?_ ?_
  · rintro q rfl; exact hAb q (List.mem_of_getElem? hbi)
  · rintro p rfl; exact haB p (List.mem_of_getElem? hai)
example : Model.TW.auxRect [fin 0, fin 3] [fin 1, fin 2] [ninf, fin 1] [fin 2, pinf]
    = .ok ([fin (-1), fin 1], [fin 2, fin 4]) := by decide +kernel

/-! ## 2b. NaN forecasts / observations in the batch are skipped (`.min()` / `.max()` of xarray skip NaN), so the statements
    hold for every batch whose non-NaN values are finite: `fc`, `ob` = the non-NaN forecasts / observations -/

theorem endpoint_replacement_model_trap_nan_data (fcF obF : List Fl) (fc ob : List Rat)
    (hvf : SV.valid fcF = fc.map fin) (hvo : SV.valid obF = ob.map fin) (as bs cs ds : List Fl) (hf : fc ≠ []) (ho : ob ≠ [])
    (hn : as ≠ []) (hlb : bs.length = as.length) (hlc : cs.length = as.length) (hld : ds.length = as.length)
    (T : Model.TW.Trap) (h : Model.TW.auxTrap fcF obF as bs cs ds = .ok T) :
    (T.a.length = as.length ∧ T.b.length = bs.length ∧ T.c.length = cs.length ∧ T.d.length = ds.length) ∧
    ∀ (i : Nat) (a b c d a' b' c' d' : Fl), as[i]? = some a → bs[i]? = some b → cs[i]? = some c → ds[i]? = some d →
      T.a[i]? = some a' → T.b[i]? = some b' → T.c[i]? = some c' → T.d[i]? = some d' →
      AdmTrap a b c d ∧
      ∀ x ∈ fc, ∀ y ∈ ob,
        AllFiveEqIntegral (G.g_j_trap a' b' c' d') (G.phi_j_trap a' b' c' d') (G.phi_j_prime_trap a' b' c' d')
          (wTrapE a b c d) (finKinks [a, b, c, d]) x y := by
  rw [← auxTrap_valid, hvf, hvo] at h
  exact endpoint_replacement_model_trap fc ob as bs cs ds hf ho hn hlb hlc hld T h

theorem endpoint_replacement_model_rect_nan_data (fcF obF : List Fl) (fc ob : List Rat)
    (hvf : SV.valid fcF = fc.map fin) (hvo : SV.valid obF = ob.map fin) (as bs : List Fl) (hf : fc ≠ []) (ho : ob ≠ [])
    (ha : as ≠ []) (hb : bs ≠ [])
    (has : ∀ t ∈ as, t = ninf ∨ ∃ q, t = fin q) (hbs : ∀ t ∈ bs, t = pinf ∨ ∃ q, t = fin q)
    (as' bs' : List Fl) (h : Model.TW.auxRect fcF obF as bs = .ok (as', bs')) :
    (as'.length = as.length ∧ bs'.length = bs.length) ∧
    ∀ (i : Nat) (a b a' b' : Fl), as[i]? = some a → bs[i]? = some b → as'[i]? = some a' → bs'[i]? = some b' →
      AdmRect a b ∧
      ∀ x ∈ fc, ∀ y ∈ ob,
        AllFiveEqIntegral (G.g_j_rect a' b') (G.phi_j_rect a' b') (G.phi_j_prime_rect a' b') (wRectE a b) (finKinks [a, b]) x y := by
  rw [← auxRect_valid, hvf, hvo] at h
  exact endpoint_replacement_model_rect_sound fc ob as bs hf ho ha hb has hbs as' bs' h
example : SV.valid [fin 1, nan, fin 3] = [1, 3].map fin := by decide +kernel

/-! ## 3. the condition: finite data -/

/-- **outside the hypothesis "finite data" the replacement is NOT sound.**  Batch of two cases, weight 1(−∞, 5):
    (fcst, obs) = (1, 0) and (−∞, 0).  The stand-in is min(data) − 1 = −∞, i.e. nothing is replaced, and the score of the
    FIRST case — finite inputs, true value ∫ = (1 − 0)² = 1, which is also what the code returns for the batch without the
    second case — becomes NaN (φ(x) = 2(x − a)² = +∞ for every finite x, and +∞ − +∞ = NaN). -/
theorem endpoint_replacement_infinite_data_counterexample :
    Model.TW.auxRect [fin 1, ninf] [fin 0, fin 0] [ninf, ninf] [fin 5, fin 5] = .ok ([ninf, ninf], [fin 5, fin 5]) ∧
    G.tw_squared_error (fin 1) (fin 0) (G.phi_j_rect ninf (fin 5)) (G.phi_j_prime_rect ninf (fin 5)) = nan ∧
    G.tw_absolute_error (fin 1) (fin 0) (G.g_j_rect ninf (fin 5)) = nan ∧
    Model.TW.auxRect [fin 1] [fin 0] [ninf] [fin 5] = .ok ([fin (-1)], [fin 5]) ∧
    G.tw_squared_error (fin 1) (fin 0) (G.phi_j_rect (fin (-1)) (fin 5)) (G.phi_j_prime_rect (fin (-1)) (fin 5)) = fin 1 ∧
    G.tw_absolute_error (fin 1) (fin 0) (G.g_j_rect (fin (-1)) (fin 5)) = fin 1 := by
  decide +kernel

end SV.Props.C10Model
