/-
  C06Bridge — the ensemble CRPS is a TRUE (Lebesgue) integral.

  Props/C06.lean proves `total .ecdf (model of crps_for_ensemble) = Fl.fin (Spec.CrpsEns.crpsIntegral xs y)`, where
  `crpsIntegral` is the framework's exact step integral of (F_ens − 1{y ≤ ·})² over the grid of distinct values of the
  members and the observation.  Lemmas/Bridge.lean proves that this step integral is Mathlib's `∫ t in a..b, F t`
  (intervalIntegral over ℝ).  Combined here: the model's ensemble CRPS equals ∫ (F_ens(t) − 1{t ≥ y})² dt as a real
  integral over the hull of members ∪ {y} (outside of which the integrand is 0), and so does the θ-integral of the
  ensemble Brier score — with no trusted "step integration is exact" step.

  Reading guide: `crpsIntegrandR xs y t = (ecdfR xs t − heavisideR y t)²` with `ecdfR xs t` = fraction of members ≤ t,
  `heavisideR y t = 1{y ≤ t}`; `brierIntegrandR fair xs y θ` = (fraction of members ≥ θ − 1{θ ≤ y})² [− i(m−i)/(m²(m−1))];
  these are the formulas of Spec/CrpsEns.lean read over ℝ (`crpsIntegrandR_cast`, `brierIntegrandR_cast`: equal to the
  Spec functions at every rational argument).  The range is written `p .. lastOr p g` where `grid (y :: xs) = p :: g` is the
  increasing list of distinct values: p = min, `lastOr p g` = max of members ∪ {y}.
  `EqReal v r` = "the model value v is `fin s` for a rational s with (s : ℝ) = r".
-/
import ScoresVerif.Props.C06
import ScoresVerif.Lemmas.Bridge

set_option linter.unusedVariables false

namespace SV.Props.C06Bridge
open MeasureTheory
open SV SV.Bridge SV.Props.C06 SV.Model.CrpsEns SV.Spec.CrpsEns
open SV.Spec.Murphy (lastOr)

/-- the integrand (F_ens − H_y)² is integrable over the hull and the Spec step integral is its Lebesgue integral -/
theorem crpsIntegral_is_lebesgue (xs : List ℚ) (y p : ℚ) (g : List ℚ) (hg : grid (y :: xs) = p :: g) :
    IntervalIntegrable (crpsIntegrandR xs y) volume p (lastOr p g) ∧
      ((crpsIntegral xs y : ℚ) : ℝ) = ∫ t in (p : ℝ)..(lastOr p g : ℝ), crpsIntegrandR xs y t :=
  crpsIntegral_eq_lebesgue xs y p g hg
example : grid ((1 : ℚ) :: [0, 2, 1]) = 0 :: [1, 2] := by decide +kernel

/-- **'ecdf'**: the value of `crps_for_ensemble(method="ecdf")` (model; finite members, any size ≥ 1) is
    ∫ (F_ens(t) − 1{t ≥ y})² dt -/
theorem crpsEns_ecdf_eq_lebesgue {xs : List ℚ} (hx : xs ≠ []) (y p : ℚ) (g : List ℚ) (hg : grid (y :: xs) = p :: g) :
    EqReal (total .ecdf (xs.map Fl.fin) (Fl.fin y))
      (∫ t in (p : ℝ)..(lastOr p g : ℝ), crpsIntegrandR xs y t) :=
  .of_fin (crpsEns_ecdf_eq_integral hx y) (crpsIntegral_eq_lebesgue xs y p g hg).2
example : ([0, 2, 1] : List ℚ) ≠ [] ∧ grid ((1 : ℚ) :: [0, 2, 1]) = 0 :: [1, 2] := ⟨by decide, by decide +kernel⟩

/-- **'fair'**: ∫ (F_ens − H_y)² minus the documented spread offset Σ|x_i − x_j| / (2M²(M−1)) -/
theorem crpsEns_fair_eq_lebesgue {xs : List ℚ} (hx : 2 ≤ xs.length) (y p : ℚ) (g : List ℚ) (hg : grid (y :: xs) = p :: g) :
    EqReal (total .fair (xs.map Fl.fin) (Fl.fin y))
      ((∫ t in (p : ℝ)..(lastOr p g : ℝ), crpsIntegrandR xs y t) - ((fairOffset xs : ℚ) : ℝ)) :=
  .of_fin (crpsEns_fair_eq_integral_sub_offset hx y) (by rw [Rat.cast_sub, (crpsIntegral_eq_lebesgue xs y p g hg).2])
example : 2 ≤ ([0, 2, 1] : List ℚ).length := by decide

/-- members that are rationals or NaN (missing), at least one rational: the integral for the non-missing members -/
theorem crpsEns_ecdf_eq_lebesgue_nan {xs : List Fl} (hfin : ∀ x ∈ xs, x = Fl.nan ∨ ∃ q, x = Fl.fin q)
    (hne : finVals xs ≠ []) (y p : ℚ) (g : List ℚ) (hg : grid (y :: finVals xs) = p :: g) :
    EqReal (total .ecdf xs (Fl.fin y))
      (∫ t in (p : ℝ)..(lastOr p g : ℝ), crpsIntegrandR (finVals xs) y t) := by
  refine .of_fin ?_ (crpsIntegral_eq_lebesgue (finVals xs) y p g hg).2
  rw [crpsEns_ecdf_eq_integral_nan hfin y]
  simp [crpsEcdfFl, hne]
example : finVals [Fl.fin 1, Fl.nan, Fl.fin 3] ≠ [] := by decide

/-- the θ-integral of the ensemble Brier score (event "value ≥ θ", optionally with the fair correction) is a Lebesgue
    integral over the same hull … -/
theorem brierIntegral_is_lebesgue (fair : Bool) (xs : List ℚ) (y p : ℚ) (g : List ℚ) (hg : grid (y :: xs) = p :: g) :
    IntervalIntegrable (brierIntegrandR fair xs y) volume p (lastOr p g) ∧
      ((brierIntegral fair xs y : ℚ) : ℝ) = ∫ θ in (p : ℝ)..(lastOr p g : ℝ), brierIntegrandR fair xs y θ :=
  brierIntegral_eq_lebesgue fair xs y p g hg

/-- … and equals the model's CRPS: ∫ Brier(θ) dθ = CRPS 'ecdf' -/
theorem crpsEns_ecdf_eq_brier_lebesgue {xs : List ℚ} (hx : xs ≠ []) (y p : ℚ) (g : List ℚ) (hg : grid (y :: xs) = p :: g) :
    EqReal (total .ecdf (xs.map Fl.fin) (Fl.fin y))
      (∫ θ in (p : ℝ)..(lastOr p g : ℝ), brierIntegrandR false xs y θ) :=
  .of_fin (brier_integral_eq_crpsEns hx y) (brierIntegral_eq_lebesgue false xs y p g hg).2

/-- ∫ fair Brier(θ) dθ = CRPS 'fair' -/
theorem crpsEns_fair_eq_brier_lebesgue {xs : List ℚ} (hx : 2 ≤ xs.length) (y p : ℚ) (g : List ℚ)
    (hg : grid (y :: xs) = p :: g) :
    EqReal (total .fair (xs.map Fl.fin) (Fl.fin y))
      (∫ θ in (p : ℝ)..(lastOr p g : ℝ), brierIntegrandR true xs y θ) :=
  .of_fin (brier_integral_fair_eq_crpsEns_fair hx y) (brierIntegral_eq_lebesgue true xs y p g hg).2

/-- hence, as real integrals, ∫ Brier(θ) dθ = ∫ (F_ens − H_y)² dt (Brier-score decomposition of the CRPS) -/
theorem brier_lebesgue_eq_crps_lebesgue {xs : List ℚ} (hx : xs ≠ []) (y p : ℚ) (g : List ℚ) (hg : grid (y :: xs) = p :: g) :
    ∫ θ in (p : ℝ)..(lastOr p g : ℝ), brierIntegrandR false xs y θ
      = ∫ t in (p : ℝ)..(lastOr p g : ℝ), crpsIntegrandR xs y t := by
  rw [← (brierIntegral_eq_lebesgue false xs y p g hg).2, ← (crpsIntegral_eq_lebesgue xs y p g hg).2,
    brier_integral_eq_crps hx y]

end SV.Props.C06Bridge
