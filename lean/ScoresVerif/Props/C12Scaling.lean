/-
  C12 (continued) — the content of the warning-scaling weights (`weights_from_warning_scaling` → `_scaling_to_weight_matrix`,
  Appendix B of Taggart & Wilke 2024) and the column orientation of `matrix_weights_to_array`.

  All statements are about the hand model `Model.Firm.scalingToWeightMatrix` (the Appendix-B loop literally, tied to the code
  by the harness) against the level-set specification `Spec.Firm.scalingWeights`:

      weight(i, j) = Σ_ℓ assessment_weight[ℓ−1] · [ S[i+1][j+1] < ℓ ≤ S[i][j+1]  and  S[i][j] < ℓ ]

  (row i of the weight matrix = the probability threshold between certainty rows i+1 and i of the scaling matrix S, rows in
  decreasing probability; column j = the j-th warned severity category = scaling column j+1): level ℓ puts its assessment
  weight on the corner points of the staircase {S ≥ ℓ}.
-/
import ScoresVerif.Model.Firm
import ScoresVerif.Spec.Firm
import ScoresVerif.Lemmas.FlBasic
import ScoresVerif.Lemmas.Firm
import ScoresVerif.Lemmas.C12Scaling
import ScoresVerif.Props.C12
import Mathlib.Algebra.BigOperators.Ring.List
import Mathlib.Algebra.Order.BigOperators.Group.List

set_option linter.unusedVariables false
set_option linter.unusedSimpArgs false

namespace SV.Props.C12Scaling
open SV SV.Fl
open SV.Spec.Firm
open SV.Model.Firm (scalingToWeightMatrix matrixWeightsToArray sortAsc idxOf?)
open SV.Lemmas.C12Scaling (tab list_sum_comm rmScore_tab idxOf?_getElem)

/-! ## 1. The loop returns the corner weights of the level staircases -/

/-- `_scaling_to_weight_matrix` (model) = the level-set specification, for every scaling matrix in the documented domain (first
    column / last row 0, monotone along rows and columns, at least as many assessment weights as levels) that has no more
    probability thresholds than assessment weights, and all finite assessment weights -/
theorem scaling_weights_eq_spec (S : List (List Nat)) (ws : List Rat) (hd : scalingDomain S ws.length) :
    scalingToWeightMatrix S (ws.map fin) = (scalingWeights S ws).map (fun row => row.map fin) :=
  SV.Lemmas.C12Scaling.scaling_eq_spec S ws hd

/-- the SHORT-RANGE scaling of the docstring of `weights_from_warning_scaling` with ESCALATION weights is in the domain … -/
example : scalingDomain [[0, 2, 3, 3], [0, 1, 2, 3], [0, 1, 1, 2], [0, 0, 0, 0]] [(1 : Rat), 2, 3].length := by decide +kernel

/-- … and its level-set weights are the documented result -/
example : scalingWeights [[0, 2, 3, 3], [0, 1, 2, 3], [0, 1, 1, 2], [0, 0, 0, 0]] [1, 2, 3]
    = [[2, 3, 0], [0, 2, 3], [1, 0, 2]] := by decide +kernel

/-- on the WHOLE documented domain (any number of probability thresholds) the loop returns the corner weights only in the rows
    of height ≤ number of assessment weights (height = `S.length − 1 − i`, counted from the lowest probability threshold = 1)
    and leaves every higher row 0: `lowest_prob_index` is initialised with `max_level + 1`, a level count, but compared with
    row indices (notes/C12.md N1) -/
theorem scaling_weights_eq_cut (S : List (List Nat)) (ws : List Rat) (hd : scalingDocDomain S ws.length) :
    scalingToWeightMatrix S (ws.map fin) = (scalingWeightsCut S ws).map (fun row => row.map fin) :=
  SV.Lemmas.C12Scaling.scaling_eq_cut S ws hd

/-- outside the domain of `scaling_weights_eq_spec` but inside the documented one the statement is FALSE: 4 probability
    thresholds, one level — the model (= the code) returns all zeros, the level-set weights put the weight 1 on the 2nd row -/
theorem scaling_eq_spec_fails_outside_domain :
    scalingDocDomain [[0, 1], [0, 1], [0, 0], [0, 0], [0, 0]] [(1 : Rat)].length ∧
    ¬ scalingDomain [[0, 1], [0, 1], [0, 0], [0, 0], [0, 0]] [(1 : Rat)].length ∧
    scalingWeights [[0, 1], [0, 1], [0, 0], [0, 0], [0, 0]] [1] = [[0], [1], [0], [0]] ∧
    scalingToWeightMatrix [[0, 1], [0, 1], [0, 0], [0, 0], [0, 0]] ([(1 : Rat)].map fin)
      ≠ (scalingWeights [[0, 1], [0, 1], [0, 0], [0, 0], [0, 0]] [1]).map (fun row => row.map fin) := by
  decide +kernel

/-! ## 2. Consequences for the weights -/

/-- non-negative assessment weights give non-negative decision-point weights -/
theorem scaling_weight_nonneg (S : List (List Nat)) (ws : List Rat) (hw : ∀ x ∈ ws, 0 ≤ x) (i j : Nat) :
    0 ≤ scalingWeight S ws i j := by
  unfold scalingWeight
  apply List.sum_nonneg
  intro x hx
  rw [List.mem_map] at hx
  obtain ⟨l0, hl0, rfl⟩ := hx
  split_ifs
  · have hl : l0 < ws.length := List.mem_range.mp hl0
    have : ws.getD l0 0 = ws[l0] := by simp [List.getD, List.getElem?_eq_getElem hl]
    rw [this]; exact hw _ (List.getElem_mem hl)
  · exact le_refl _

example : ∀ x ∈ [(1 : Rat), 2, 3], 0 ≤ x := by decide +kernel

/-- total mass: the entries of the weight matrix add up to Σ_ℓ assessment_weight[ℓ−1] · (number of corner points of the
    staircase of level ℓ) -/
theorem scaling_total_mass (S : List (List Nat)) (ws : List Rat) :
    ((scalingWeights S ws).map List.sum).sum
      = ((List.range ws.length).map fun l0 => ws.getD l0 0 * ((cornerMatrix S (l0 + 1)).map List.sum).sum).sum := by
  unfold scalingWeights cornerMatrix scalingWeight
  simp only [List.map_map, Function.comp_def]
  have h1 : ∀ l0 : Nat, ws.getD l0 0 * ((List.range (S.length - 1)).map fun i =>
        ((List.range ((S.headD []).length - 1)).map fun j => if isCorner S (l0 + 1) i j = true then (1 : Rat) else 0).sum).sum
      = ((List.range (S.length - 1)).map fun i => ((List.range ((S.headD []).length - 1)).map fun j =>
          if isCorner S (l0 + 1) i j = true then ws.getD l0 0 else 0).sum).sum := by
    intro l0
    rw [← List.sum_map_mul_left]
    congr 1; apply List.map_congr_left; intro i _
    rw [← List.sum_map_mul_left]
    congr 1; apply List.map_congr_left; intro j _
    split_ifs <;> simp
  simp only [h1]
  rw [list_sum_comm (List.range ws.length)]
  congr 1; apply List.map_congr_left; intro i _
  rw [list_sum_comm (List.range ws.length)]

/-! ## 3. Consequence for the score: the risk matrix score with warning-scaling weights is the assessment-weighted sum over the
warning levels of the risk matrix score of that level's corner decision points -/

/-- `rmScore lower fo (probs.zip W)` is the score of one case with decision weights `W` whose row i belongs to the probability
    threshold `probs[i]` (`probs` in decreasing order, as `matrix_weights_to_array` labels the rows).  With
    `W = scalingWeights S ws` it is Σ_ℓ ws[ℓ−1] · (score with the 0/1 matrix of the corner points of level ℓ): each warning level
    ℓ is assessed by the two-sided fixed-risk penalties (p for acting on a non-event, 1 − p for not acting on an event) at the
    decision points (probability threshold, severity category) that delimit "warning level ≥ ℓ", weighted by its assessment
    weight -/
theorem rm_score_scaling_eq_level_sum (lower : Bool) (fo : List (Rat × Rat)) (probs : List Rat) (S : List (List Nat))
    (ws : List Rat) :
    rmScore lower fo (probs.zip (scalingWeights S ws))
      = ((List.range ws.length).map fun l0 =>
          ws.getD l0 0 * rmScore lower fo (probs.zip (cornerMatrix S (l0 + 1)))).sum := by
  have e1 : scalingWeights S ws = tab (S.length - 1) ((S.headD []).length - 1) (fun i j => scalingWeight S ws i j) := rfl
  have e2 : ∀ l, cornerMatrix S l = tab (S.length - 1) ((S.headD []).length - 1)
      (fun i j => if isCorner S l i j then (1 : Rat) else 0) := fun l => rfl
  rw [e1, rmScore_tab]
  simp only [e2, rmScore_tab]
  simp only [← List.sum_map_mul_left]
  rw [list_sum_comm (List.range ws.length)]
  congr 1; apply List.map_congr_left; intro pi _
  rw [list_sum_comm (List.range ws.length)]
  congr 1; apply List.map_congr_left; intro cj _
  unfold scalingWeight
  rw [← List.sum_map_mul_right]
  congr 1; apply List.map_congr_left; intro l0 _
  split_ifs <;> simp

/-- the score of one level's corner matrix spelled out: Σ over the decision points (i, j) that are corners of the staircase of
    level ℓ of the elementary penalty at (probability threshold of row i, forecast/observation of severity category j) -/
theorem rm_score_corner_matrix (lower : Bool) (fo : List (Rat × Rat)) (probs : List Rat) (S : List (List Nat)) (l : Nat) :
    rmScore lower fo (probs.zip (cornerMatrix S l))
      = ((probs.zip (List.range (S.length - 1))).map fun pi => ((fo.zip (List.range ((S.headD []).length - 1))).map fun cj =>
          if isCorner S l pi.2 cj.2 then rmPenalty lower cj.1.1 cj.1.2 pi.1 else 0).sum).sum := by
  have e2 : cornerMatrix S l = tab (S.length - 1) ((S.headD []).length - 1)
      (fun i j => if isCorner S l i j then (1 : Rat) else 0) := rfl
  rw [e2, rmScore_tab]
  congr 1; apply List.map_congr_left; intro pi _
  congr 1; apply List.map_congr_left; intro cj _
  split_ifs <;> simp

/-- the same through the model: on the domain of `scaling_weights_eq_spec`, the modelled `_risk_matrix_score` of one case with
    the modelled `weights_from_warning_scaling` weights is the assessment-weighted sum over the levels -/
theorem rm_case_scaling_eq_level_sum (lower : Bool) (fo : List (Rat × Rat)) (probs : List Rat) (S : List (List Nat))
    (ws : List Rat) (hd : scalingDomain S ws.length) :
    Model.Firm.rmCase (SV.Lemmas.Firm.modeStr lower) (fo.map fun c => (fin c.1, fin c.2))
        ((probs.map fin).zip (scalingToWeightMatrix S (ws.map fin)))
      = fin (((List.range ws.length).map fun l0 =>
          ws.getD l0 0 * rmScore lower fo (probs.zip (cornerMatrix S (l0 + 1)))).sum) := by
  rw [scaling_weights_eq_spec S ws hd, ← rm_score_scaling_eq_level_sum, ← SV.Props.C12.rm_case_eq_spec]
  congr 1
  rw [List.zip_map]; rfl

/-! ## 3b. What the corner points mean: they are the decision points of "issue warning level ≥ ℓ" -/

/-- no level is dropped by the level-set weights: every level that occurs in the scaling matrix has at least one corner
    decision point (so its assessment weight enters the total mass at least once) -/
theorem level_has_corner (S : List (List Nat)) (nw : Nat) (hd : scalingDocDomain S nw) (l : Nat) (hl : 1 ≤ l)
    (h : ∃ i < S.length, ∃ j, j + 1 < (S.headD []).length ∧ l ≤ sAt S i (j + 1)) :
    ∃ i < S.length - 1, ∃ j < (S.headD []).length - 1, isCorner S l i j = true := by
  obtain ⟨i, hi, j, hj, hreach⟩ := h
  obtain ⟨i', j', _, h2, h3, h4⟩ :=
    SV.Lemmas.C12Scaling.corner_below S nw hd l hl _ i j (le_refl _) hi hj hreach
  exact ⟨i', h2, j', by omega, h4⟩

example : scalingDocDomain [[0, 1, 2], [0, 1, 1], [0, 0, 0]] 2 ∧
    (∃ i < [[0, 1, 2], [0, 1, 1], [0, 0, 0]].length, ∃ j, j + 1 < ([[0, 1, 2], [0, 1, 1], [0, 0, 0]].headD []).length ∧
      2 ≤ sAt [[0, 1, 2], [0, 1, 1], [0, 0, 0]] i (j + 1)) :=
  ⟨by decide +kernel, 0, by decide, 1, by decide +kernel⟩

/-- the service encoded by the scaling matrix issues warning level ≥ ℓ exactly when the forecast probability of SOME corner
    decision point (i, j) of level ℓ reaches that point's probability threshold — for coherent forecasts (probabilities of the
    nested severity categories non-increasing) and thresholds listed in decreasing order, one per scaling row but the last.
    Hence `rm_score_scaling_eq_level_sum` scores, per level ℓ, exactly the decisions that determine "warn at level ≥ ℓ", each by
    its two-sided fixed-risk penalty. (`warnLevel` is Spec only: the library does not compute warning levels.) -/
theorem warn_level_ge_iff_corner_reached (S : List (List Nat)) (nw : Nat) (hd : scalingDocDomain S nw) (lower : Bool)
    (probs fs : List Rat) (hpl : probs.length = S.length - 1) (hfl : fs.length = (S.headD []).length - 1)
    (hp : probs.Pairwise (· ≥ ·)) (hf : fs.Pairwise (· ≥ ·)) (l : Nat) (hl : 1 ≤ l) :
    l ≤ warnLevel S lower probs fs ↔
      ∃ i < probs.length, ∃ j < fs.length, isCorner S l i j = true ∧ above lower (fs.getD j 0) (probs.getD i 0) := by
  unfold warnLevel
  rw [SV.Lemmas.C12Scaling.le_foldl_max]
  constructor
  · rintro (h | ⟨x, hx, hlx⟩)
    · omega
    · rw [List.mem_map] at hx
      obtain ⟨j, hj, rfl⟩ := hx
      have hj : j < fs.length := List.mem_range.mp hj
      have hle := SV.Lemmas.C12Scaling.certaintyRow_le_length lower probs (fs.getD j 0)
      have hlt : certaintyRow lower probs (fs.getD j 0) < probs.length := by
        by_contra hge
        have e : certaintyRow lower probs (fs.getD j 0) = S.length - 1 := by omega
        rw [e, hd.2.1 (j + 1) (by omega)] at hlx
        omega
      have hab := SV.Lemmas.C12Scaling.certaintyRow_above lower probs (fs.getD j 0) hlt
      obtain ⟨i', j', h1, h2, h3, h4⟩ := SV.Lemmas.C12Scaling.corner_below S nw hd l hl _
        (certaintyRow lower probs (fs.getD j 0)) j (le_refl _) (by omega) (by omega) hlx
      refine ⟨i', by omega, j', by omega, h4, ?_⟩
      exact SV.Lemmas.C12Scaling.above_mono lower _ _ _ _
        (SV.Lemmas.C12Scaling.getD_antitone fs hf j' j h3 hj)
        (SV.Lemmas.C12Scaling.getD_antitone probs hp _ i' h1 (by omega)) hab
  · rintro ⟨i, hi, j, hj, hc, hab⟩
    right
    refine ⟨_, List.mem_map.mpr ⟨j, List.mem_range.mpr hj, rfl⟩, ?_⟩
    have hle := SV.Lemmas.C12Scaling.certaintyRow_le lower probs (fs.getD j 0) i hi hab
    simp only [isCorner, Bool.and_eq_true, decide_eq_true_eq] at hc
    have := SV.Lemmas.C12Scaling.col_mono S nw hd (j + 1) (by omega) (certaintyRow lower probs (fs.getD j 0))
      (i - certaintyRow lower probs (fs.getD j 0)) (by omega)
    have e : certaintyRow lower probs (fs.getD j 0) + (i - certaintyRow lower probs (fs.getD j 0)) = i := by omega
    rw [e] at this
    omega

example : scalingDocDomain [[0, 1, 2], [0, 1, 1], [0, 0, 0]] 2 ∧ [(3/4 : Rat), 1/4].Pairwise (· ≥ ·) ∧
    [(1/2 : Rat), 1/2].Pairwise (· ≥ ·) ∧ warnLevel [[0, 1, 2], [0, 1, 1], [0, 0, 0]] true [3/4, 1/4] [1/2, 1/2] = 1 := by
  decide +kernel

/-! ## 4. `matrix_weights_to_array`: columns keep the supplied severity labels in the supplied order -/

/-- looking the returned array up BY LABEL: the weight stored under (i-th largest probability threshold, j-th supplied severity
    label) is `M[i][j]` — row i of the matrix is the i-th largest threshold and column j is the j-th severity label, in the order
    supplied (distinct thresholds, distinct labels).  A permutation of the column labels would change the looked-up values. -/
theorem matrix_weights_lookup (M : List (List Fl)) (sev : List String) (probs : List Rat) (wa : Model.Firm.WeightArray)
    (h : matrixWeightsToArray M sev probs = some wa) (hs : sev.Nodup) (hp : probs.Nodup) (i j : Nat) (p : Rat) (s : String)
    (hi : ((sortAsc probs).reverse)[i]? = some p) (hj : sev[j]? = some s) :
    wa.lookup p s = (M[i]?).bind (·[j]?) := by
  obtain ⟨_, hperm, hdata, hsev⟩ := SV.Props.C12.matrix_weights_rows_decreasing M sev probs wa h
  have hpc : wa.probCoords = (sortAsc probs).reverse := by
    unfold matrixWeightsToArray at h
    split_ifs at h
    injection h with h; subst h; rfl
  have hnd : wa.probCoords.Nodup := hperm.nodup_iff.mpr hp
  unfold Model.Firm.WeightArray.lookup
  rw [idxOf?_getElem wa.probCoords hnd i p (by rw [hpc]; exact hi), hsev, idxOf?_getElem sev hs j s hj, hdata]
  cases hM : M[i]? <;> simp [hM]

example : (matrixWeightsToArray [[fin 1, fin 2], [fin 3, fin 4]] ["a", "b"] [1/4, 3/4]).isSome = true ∧
    ["a", "b"].Nodup ∧ [(1/4 : Rat), 3/4].Nodup ∧ ((sortAsc [1/4, 3/4]).reverse)[1]? = some (1/4) := by
  decide +kernel

/-- end to end for `weights_from_warning_scaling` (model: Appendix-B loop, then `matrix_weights_to_array`): the weight that
    `risk_matrix_score` will find under the labels (i-th largest probability threshold, j-th supplied severity label) is the
    level-set weight of decision point (i, j) -/
theorem weights_from_scaling_lookup (S : List (List Nat)) (ws : List Rat) (sev : List String) (probs : List Rat)
    (wa : Model.Firm.WeightArray) (hd : scalingDomain S ws.length)
    (h : Model.Firm.weightsFromWarningScaling S (ws.map fin) sev probs = some wa) (hs : sev.Nodup) (hp : probs.Nodup)
    (i j : Nat) (p : Rat) (s : String) (hi : ((sortAsc probs).reverse)[i]? = some p) (hj : sev[j]? = some s) :
    wa.lookup p s = some (fin (scalingWeight S ws i j)) := by
  unfold Model.Firm.weightsFromWarningScaling at h
  rw [scaling_weights_eq_spec S ws hd] at h
  rw [matrix_weights_lookup _ sev probs wa h hs hp i j p s hi hj]
  have hlen : ((scalingWeights S ws).map fun row => row.map fin).length = S.length - 1 := by simp [scalingWeights]
  unfold matrixWeightsToArray at h
  split_ifs at h with h1 h2 h3
  have hi' : i < S.length - 1 := by
    have := (List.getElem?_eq_some_iff.mp hi).1
    rw [List.length_reverse, (SV.Props.C12.sortAsc_perm probs).length_eq] at this
    omega
  have hj' : j < sev.length := (List.getElem?_eq_some_iff.mp hj).1
  have hrow : ((scalingWeights S ws).map fun row => row.map fin)[i]? =
      some (((List.range ((S.headD []).length - 1)).map fun j => scalingWeight S ws i j).map fin) := by
    simp [scalingWeights, hi']
  have hm : sev.length = (S.headD []).length - 1 := by
    by_contra hne
    apply h2
    rw [List.any_eq_true]
    refine ⟨_, List.mem_of_getElem? hrow, ?_⟩
    simp only [List.length_map, List.length_range, decide_eq_true_eq]
    exact fun e => hne e.symm
  rw [hrow]
  have hj'' : j < (S.headD []).length - 1 := hm ▸ hj'
  simp only [Option.bind_some, List.map_map, List.getElem?_map, List.getElem?_range hj'', Option.map_some, Function.comp]

example : scalingDomain [[0, 1, 2], [0, 1, 1], [0, 0, 0]] [(1 : Rat), 2].length ∧
    (Model.Firm.weightsFromWarningScaling [[0, 1, 2], [0, 1, 1], [0, 0, 0]] ([(1 : Rat), 2].map fin) ["a", "b"] [1/4, 3/4]).isSome = true ∧
    ["a", "b"].Nodup ∧ [(1/4 : Rat), 3/4].Nodup ∧ ((sortAsc [1/4, 3/4]).reverse)[0]? = some (3/4) ∧ ["a", "b"][1]? = some "b" := by
  decide +kernel

/-- the column labels matter: the same matrix with the two severity labels exchanged stores a different weight under ("a", 3/4) -/
theorem matrix_weights_column_labels_matter :
    ((matrixWeightsToArray [[fin 1, fin 2], [fin 3, fin 4]] ["a", "b"] [1/4, 3/4]).bind (·.lookup (3/4) "a")) = some (fin 1) ∧
    ((matrixWeightsToArray [[fin 1, fin 2], [fin 3, fin 4]] ["b", "a"] [1/4, 3/4]).bind (·.lookup (3/4) "a")) = some (fin 2) := by
  decide +kernel

end SV.Props.C12Scaling
