/-
  C07 (stretch) — the whole `crps_cdf` pipeline with a THRESHOLD WEIGHT and with SEVERAL CASES.

  `Props/C07Refine.lean :: pipeline_eq_spec_all` proved: for ONE NaN-free unweighted case the model of `crps_cdf`
  (input checks → propagate_nan → grid union → add_thresholds / fill_cdf with its guards → observed CDF → integration)
  equals the executable Spec.  Here:

    1. `pipeline_eq_spec_weighted` — the same with a threshold weight given on its OWN threshold grid: every
       `fcst_fill_method` × every `threshold_weight_fill_method` (default "forward") × both integration methods × both
       `propagate_nans`.  For the exact method the Spec value is Σ_cells w_cell · ∫_cell (F − H)² on the union grid
       (`Spec.CrpsCdf.exactParts`, a Lebesgue integral by `Props/C07Bridge.lean`).  Domain: weight ordinates in [0,1]
       (known finding F18: `fill_cdf`'s CDF guard rejects larger weights).
    2. `pipeline_cases_eq_spec(_weighted)` — several cases sharing the forecast thresholds: case i gets the Spec value of
       (forecast i, obs i, weight i) on the grid that contains ALL observation values — the other cases enter only through
       that list of thresholds (`others`).
    3. `pipeline_cases_independent` — with linear fill and exact integration (no weight) they do not enter at all, provided
       the other cases' observations lie within the span of the forecast thresholds: every case gets what it would get
       alone.  Outside that domain the statement is false: `cases_step_counterexample`, `cases_trapz_counterexample`,
       `cases_outside_span_counterexample`.  `pipeline_cases_independent_weighted`: the same with a threshold weight
       filled "forward" (the default) or "step" — a step function whose jumps are grid points; false for the weight fill
       methods "linear" and "backward" (`cases_weight_fill_counterexample`).

  A case is a triple (forecast ordinates, observation, weight ordinates); the harness broadcasts observation and weight to
  one row per forecast case, as xarray does.
-/
import ScoresVerif.Props.C07Refine
import ScoresVerif.Lemmas.C07PipelineCases
import ScoresVerif.Lemmas.C07PipelineCasesW

namespace SV.Props.C07Cases
open SV SV.Model.Cdf SV.Model.CrpsCdf SV.Lemmas.Cdf SV.Lemmas.CrpsCdf SV.Lemmas.C07Refine
open SV.Fl (fin nan)
open SV.Props.C07Refine (parts3 exThr exF exThr_incr exF_unit)

/-! ## 1. one case with a threshold weight on its own threshold grid -/

/-- **whole pipeline = Spec, with a threshold weight**: forecast `fq` on thresholds `fthr` (NaN-free, ordinates in [0,1]),
    weight `wq` on its own increasing thresholds `wthr` (NaN-free, values in [0,1]), observation and additional thresholds
    anywhere.  The model of `crps_cdf(fcst, obs, threshold_weight=w, …)` returns exactly the parts of `Spec.CrpsCdf.crps`:
    grid = sorted union of weight, forecast, observation and additional thresholds; forecast and weight filled on it by the
    knot-function description of their fill methods; then `Σ_cells w_cell · Simpson((lin − H)²)` (exact) resp. the trapezoid
    sums of `w (F − H)²` (trapz).  A forecast or weight that the fill blanks (fewer than two points) gives NaN on both
    sides. -/
theorem pipeline_eq_spec_weighted (fthr wthr fq wq : List Rat) (obs : Rat) (additional : List Fl) (cfg : Cfg)
    (hfill : cfg.fillF ∈ ["linear", "step", "forward", "backward"])
    (hfillW : cfg.fillW ∈ ["linear", "step", "forward", "backward"])
    (hinteg : cfg.integ = "exact" ∨ cfg.integ = "trapz")
    (hf : Incr fthr) (h2 : 2 ≤ fthr.length) (hw : Incr wthr)
    (huf : ∀ v ∈ fq, 0 ≤ v ∧ v ≤ 1) (huw : ∀ v ∈ wq, 0 ≤ v ∧ v ≤ 1) :
    crpsCdf fthr [fq.map fin] [fin obs] (some { thr := wthr, rows := [wq.map fin] }) additional cfg =
      .ok [ofSpec (SV.Spec.CrpsCdf.crps fthr (fq.map fin) (fin obs) [] (some (wthr, wq.map fin)) (finVals additional)
        cfg.propagate cfg.fillF cfg.fillW cfg.integ).parts] :=
  crpsCdf_weighted_eq_spec fthr wthr fq wq obs additional cfg hfill hfillW hinteg hf h2 hw huf huw

/-- concrete case: forecast ¼, ½, 1 on thresholds 0, 1, 3; weight ½, 1 on its own thresholds ½, 2; observation 3/2 -/
def exWthr : List Rat := [1/2, 2]
def exWq : List Rat := [1/2, 1]
theorem exWthr_incr : Incr exWthr := by simp [exWthr, Incr]; norm_num
theorem exWq_unit : ∀ v ∈ exWq, 0 ≤ v ∧ v ≤ 1 := by
  intro v hv
  simp only [exWq, List.mem_cons, List.not_mem_nil, or_false] at hv
  rcases hv with rfl | rfl <;> norm_num

example : ({} : Cfg).fillF ∈ ["linear", "step", "forward", "backward"] ∧ ({} : Cfg).fillW ∈ ["linear", "step", "forward", "backward"] ∧
    (({} : Cfg).integ = "exact" ∨ ({} : Cfg).integ = "trapz") ∧ Incr exThr ∧ 2 ≤ exThr.length ∧ Incr exWthr ∧
    (∀ v ∈ exF, 0 ≤ v ∧ v ≤ 1) ∧ (∀ v ∈ exWq, 0 ≤ v ∧ v ≤ 1) :=
  ⟨by decide, by decide, Or.inl rfl, exThr_incr, by decide, exWthr_incr, exF_unit, exWq_unit⟩

/-- the union grid and the filled rows of that case: weight "forward" = ½ left of its first threshold and on [½, 2), 1 from 2 on -/
example : gridAll exWthr exThr [fin (3/2)] [] = [0, 1/2, 1, 3/2, 2, 3] ∧
    fRow [0, 1/2, 1, 3/2, 2, 3] exThr "linear" (exF, fin (3/2), exWq) = [1/4, 3/8, 1/2, 5/8, 3/4, 1].map fin ∧
    wRow [0, 1/2, 1, 3/2, 2, 3] (some exWthr) "forward" (exF, fin (3/2), exWq) = [1/2, 1/2, 1/2, 1/2, 1, 1].map fin := by
  decide +kernel

/-- both sides of `pipeline_eq_spec_weighted` on it: the model end to end, and the Spec's weighted cell sums on the union grid -/
example : parts3 (crpsCdf exThr [exF.map fin] [fin (3/2)] (some { thr := exWthr, rows := [exWq.map fin] }) [] {}) =
      some [(fin (19/96), fin (39/256), fin (35/768))] ∧
    (SV.Spec.CrpsCdf.exactParts (3/2) [0, 1/2, 1, 3/2, 2, 3] [1/4, 3/8, 1/2, 5/8, 3/4, 1] [1/2, 1/2, 1/2, 1/2, 1, 1]).total = 19/96 := by
  decide +kernel

/-! ## 2. several cases: each case is the Spec on the grid of ALL observations -/

/-- **the model of `crps_cdf` on several cases, unfolded** (`wthr = none`: no weight; NaN-free forecasts / weights with
    ordinates in [0,1], observations may be NaN): no check and no guard fires, the common grid `G` is the sorted union of
    weight, forecast, ALL observation and additional thresholds, and the result of case `c` is the integration step on ITS
    rows: forecast re-laid and filled on `G`, observed CDF `1{t ≥ obs_c}`, weight re-laid and filled on `G` (ones if none) -/
theorem crps_cdf_cases_closed_form (fthr : List Rat) (wthr : Option (List Rat)) (cs : List Case) (additional : List Fl) (cfg : Cfg)
    (hfill : cfg.fillF ∈ ["linear", "step", "forward", "backward"])
    (hfillW : cfg.fillW ∈ ["linear", "step", "forward", "backward"])
    (hinteg : cfg.integ = "exact" ∨ cfg.integ = "trapz")
    (hf : Incr fthr) (h2 : 2 ≤ fthr.length) (hwinc : ∀ t ∈ wthr, Incr t)
    (huf : ∀ c ∈ cs, ∀ v ∈ c.1, 0 ≤ v ∧ v ≤ 1) (huw : ∀ c ∈ cs, ∀ v ∈ c.2.2, 0 ≤ v ∧ v ≤ 1) :
    crpsCdf fthr (cs.map Case.F) (cs.map Case.O) (mkWeight wthr cs) additional cfg =
      .ok (cs.map fun c =>
        rowOf cfg (gridAll (wthr.getD []) fthr (cs.map Case.O) additional)
          (fRow (gridAll (wthr.getD []) fthr (cs.map Case.O) additional) fthr cfg.fillF c)
          (observedRow (gridAll (wthr.getD []) fthr (cs.map Case.O) additional) c.O)
          (wRow (gridAll (wthr.getD []) fthr (cs.map Case.O) additional) wthr cfg.fillW c)) :=
  crpsCdf_cases_closed fthr wthr cs additional cfg hfill hfillW hinteg hf h2 hwinc huf huw

/-- the common grid is THE strictly increasing list of all thresholds involved -/
theorem grid_all_is_sorted_union (wthr fthr : List Rat) (obs additional : List Fl) :
    Incr (gridAll wthr fthr obs additional) ∧
    ∀ x, x ∈ gridAll wthr fthr obs additional ↔ x ∈ wthr ∨ x ∈ fthr ∨ x ∈ finVals obs ∨ x ∈ finVals additional :=
  ⟨incr_sortU _, fun _ => mem_gridAll⟩

/-- **whole pipeline = Spec for several cases with a threshold weight** (every option combination): the result of case
    `c = (forecast, obs, weight)` is the Spec of THAT case with `others` = the finite observation values of the whole array —
    the other cases' forecasts and weights do not enter, their observations only as thresholds of the common grid -/
theorem pipeline_cases_eq_spec_weighted (fthr wthr : List Rat) (cs : List Case) (additional : List Fl) (cfg : Cfg)
    (hfill : cfg.fillF ∈ ["linear", "step", "forward", "backward"])
    (hfillW : cfg.fillW ∈ ["linear", "step", "forward", "backward"])
    (hinteg : cfg.integ = "exact" ∨ cfg.integ = "trapz")
    (hf : Incr fthr) (h2 : 2 ≤ fthr.length) (hw : Incr wthr)
    (huf : ∀ c ∈ cs, ∀ v ∈ c.1, 0 ≤ v ∧ v ≤ 1) (huw : ∀ c ∈ cs, ∀ v ∈ c.2.2, 0 ≤ v ∧ v ≤ 1)
    (ho : ∀ c ∈ cs, c.2.1 = nan ∨ ∃ q, c.2.1 = fin q) :
    crpsCdf fthr (cs.map fun c => c.1.map fin) (cs.map fun c => c.2.1)
        (some { thr := wthr, rows := cs.map fun c => c.2.2.map fin }) additional cfg =
      .ok (cs.map fun c => ofSpec (SV.Spec.CrpsCdf.crps fthr (c.1.map fin) c.2.1 (finVals (cs.map fun c => c.2.1))
        (some (wthr, c.2.2.map fin)) (finVals additional) cfg.propagate cfg.fillF cfg.fillW cfg.integ).parts) :=
  crpsCdf_cases_eq_spec fthr (some wthr) cs additional cfg hfill hfillW hinteg hf h2
    (by intro t ht; cases ht; exact hw) huf huw ho

/-- **whole pipeline = Spec for several cases, no weight** (cases = (forecast, observation) pairs) -/
theorem pipeline_cases_eq_spec (fthr : List Rat) (cs : List (List Rat × Fl)) (additional : List Fl) (cfg : Cfg)
    (hfill : cfg.fillF ∈ ["linear", "step", "forward", "backward"])
    (hfillW : cfg.fillW ∈ ["linear", "step", "forward", "backward"])
    (hinteg : cfg.integ = "exact" ∨ cfg.integ = "trapz")
    (hf : Incr fthr) (h2 : 2 ≤ fthr.length)
    (huf : ∀ c ∈ cs, ∀ v ∈ c.1, 0 ≤ v ∧ v ≤ 1) (ho : ∀ c ∈ cs, c.2 = nan ∨ ∃ q, c.2 = fin q) :
    crpsCdf fthr (cs.map fun c => c.1.map fin) (cs.map fun c => c.2) none additional cfg =
      .ok (cs.map fun c => ofSpec (SV.Spec.CrpsCdf.crps fthr (c.1.map fin) c.2 (finVals (cs.map fun c => c.2))
        none (finVals additional) cfg.propagate cfg.fillF cfg.fillW cfg.integ).parts) := by
  have h := crpsCdf_cases_eq_spec fthr none (cs.map fun c => (c.1, c.2, ([] : List Rat))) additional cfg hfill hfillW hinteg hf h2
    (by intro t ht; cases ht)
    (by intro c hc; obtain ⟨c', hc', rfl⟩ := List.mem_map.mp hc; exact huf c' hc')
    (by intro c hc; obtain ⟨c', _, rfl⟩ := List.mem_map.mp hc; intro v hv; cases hv)
    (by intro c hc; obtain ⟨c', hc', rfl⟩ := List.mem_map.mp hc; exact ho c' hc')
  simpa only [List.map_map, Function.comp_def, mkWeight, Option.map_none, caseSpec, Case.F, Case.O] using h

/-- two cases on the thresholds 0, 1, 3 with observations 3/2 and 1, weights on the thresholds ½, 2; a third case has a NaN
    observation -/
def exCases : List Case := [(exF, fin (3/2), exWq), ([0, 1/2, 1], fin 1, [1, 1/2]), ([0, 0, 1], nan, [1, 1])]

theorem unitQ_of_all (q : List Rat) (h : q.all (fun v => decide (0 ≤ v) && decide (v ≤ 1)) = true) : ∀ v ∈ q, 0 ≤ v ∧ v ≤ 1 := by
  intro v hv
  have := List.all_eq_true.mp h v hv
  simpa using this

example : (∀ c ∈ exCases, ∀ v ∈ c.1, 0 ≤ v ∧ v ≤ 1) ∧ (∀ c ∈ exCases, ∀ v ∈ c.2.2, 0 ≤ v ∧ v ≤ 1) ∧
    (∀ c ∈ exCases, c.2.1 = nan ∨ ∃ q, c.2.1 = fin q) := by
  refine ⟨?_, ?_, ?_⟩ <;> intro c hc <;>
    simp only [exCases, List.mem_cons, List.not_mem_nil, or_false] at hc <;>
    rcases hc with rfl | rfl | rfl
  · exact unitQ_of_all _ (by decide +kernel)
  · exact unitQ_of_all _ (by decide +kernel)
  · exact unitQ_of_all _ (by decide +kernel)
  · exact unitQ_of_all _ (by decide +kernel)
  · exact unitQ_of_all _ (by decide +kernel)
  · exact unitQ_of_all _ (by decide +kernel)
  · exact Or.inr ⟨_, rfl⟩
  · exact Or.inr ⟨_, rfl⟩
  · exact Or.inl rfl

example : parts3 (crpsCdf exThr (exCases.map Case.F) (exCases.map Case.O) (mkWeight (some exWthr) exCases) [] {}) =
    some [(fin (19/96), fin (39/256), fin (35/768)), (fin (23/96), fin (1/12), fin (5/32)), (nan, nan, nan)] := by
  decide +kernel

/-! ## 3. independence of the cases -/

/-- **pipeline_cases_independent** (no weight, `fcst_fill_method="linear"`, `integration_method="exact"`): if, for every
    case, the observation values of the array that differ from its own lie within the span of the forecast thresholds, then
    every case gets exactly the value it gets when it is scored ALONE — the Spec with `others = []`, which by the second
    part is what the one-case call returns.  (Forecasts NaN-free with ordinates in [0,1] on all thresholds; observations
    finite or NaN; a case's own observation may lie anywhere.) -/
theorem pipeline_cases_independent (fthr : List Rat) (cs : List (List Rat × Fl)) (additional : List Fl) (cfg : Cfg)
    (hfill : cfg.fillF = "linear") (hfillW : cfg.fillW ∈ ["linear", "step", "forward", "backward"]) (hinteg : cfg.integ = "exact")
    (hf : Incr fthr) (h2 : 2 ≤ fthr.length)
    (hlen : ∀ c ∈ cs, c.1.length = fthr.length) (huf : ∀ c ∈ cs, ∀ v ∈ c.1, 0 ≤ v ∧ v ≤ 1)
    (ho : ∀ c ∈ cs, c.2 = nan ∨ ∃ q, c.2 = fin q)
    (hspan : ∀ c ∈ cs, ∀ m ∈ finVals (cs.map fun c => c.2), fin m ≠ c.2 → (∃ t ∈ fthr, t ≤ m) ∧ (∃ t ∈ fthr, m ≤ t)) :
    crpsCdf fthr (cs.map fun c => c.1.map fin) (cs.map fun c => c.2) none additional cfg =
      .ok (cs.map fun c => ofSpec (SV.Spec.CrpsCdf.crps fthr (c.1.map fin) c.2 [] none (finVals additional)
        cfg.propagate cfg.fillF cfg.fillW cfg.integ).parts) ∧
    ∀ c ∈ cs, crpsCdf fthr [c.1.map fin] [c.2] none additional cfg =
      .ok [ofSpec (SV.Spec.CrpsCdf.crps fthr (c.1.map fin) c.2 [] none (finVals additional)
        cfg.propagate cfg.fillF cfg.fillW cfg.integ).parts] := by
  have hfm : cfg.fillF ∈ fillMethods := by rw [hfill]; simp [fillMethods]
  constructor
  · have h := crpsCdf_cases_independent fthr (cs.map fun c => (c.1, c.2, ([] : List Rat))) additional cfg hfill hfillW hinteg hf h2
      (by intro c hc; obtain ⟨c', hc', rfl⟩ := List.mem_map.mp hc; exact hlen c' hc')
      (by intro c hc; obtain ⟨c', hc', rfl⟩ := List.mem_map.mp hc; exact huf c' hc')
      (by intro c hc; obtain ⟨c', _, rfl⟩ := List.mem_map.mp hc; intro v hv; cases hv)
      (by intro c hc; obtain ⟨c', hc', rfl⟩ := List.mem_map.mp hc; exact ho c' hc')
      (by
        intro c hc m hm hne
        obtain ⟨c', hc', rfl⟩ := List.mem_map.mp hc
        simp only [List.map_map, Function.comp_def, Case.O] at hm hne
        exact hspan c' hc' m hm hne)
    simpa only [List.map_map, Function.comp_def, caseSpec, Case.F, Case.O, Option.map_none] using h
  · intro c hc
    have h := crpsCdf_cases_eq_spec fthr none [(c.1, c.2, ([] : List Rat))] additional cfg hfm hfillW (Or.inl hinteg) hf h2
      (by intro t ht; cases ht)
      (by intro c' hc'; cases List.mem_singleton.mp hc'; exact huf c hc)
      (by intro c' hc'; cases List.mem_singleton.mp hc'; intro v hv; cases hv)
      (by intro c' hc'; cases List.mem_singleton.mp hc'; exact ho c hc)
    simp only [List.map_cons, List.map_nil, mkWeight, Option.map_none, caseSpec, Case.F, Case.O] at h
    rw [h]
    congr 2
    -- `others = [obs]` and `others = []` give the same Spec grid
    have e := fun others hmem => spec_parts_eq fthr none (c.1, c.2, ([] : List Rat)) others (finVals additional) cfg.propagate cfg.fillF
      cfg.fillW cfg.integ (sortU (fthr ++ obsQ c.2 ++ finVals additional)) (incr_sortU _) hmem hfm hfillW (huf c hc)
      (by intro v hv; cases hv)
    simp only [Option.map_none, Case.F, Case.O] at e
    rw [e (finVals [c.2]) (fun x => by
        rw [mem_sortU_iff]
        cases c.2 <;> simp [obsQ, finVals]),
      e [] (fun x => by rw [mem_sortU_iff]; simp)]

/-- three cases on the thresholds 0, 1, 3: observations 1 and 2 inside the forecast span, one NaN observation -/
def exPairs : List (List Rat × Fl) := [(exF, fin 1), ([0, 1/2, 1], fin 2), ([0, 0, 1], nan)]

example : ({} : Cfg).fillF = "linear" ∧ ({} : Cfg).integ = "exact" ∧ Incr exThr ∧ 2 ≤ exThr.length ∧
    (∀ c ∈ exPairs, c.1.length = exThr.length) ∧ (∀ c ∈ exPairs, c.2 = nan ∨ ∃ q, c.2 = fin q) ∧
    (∀ c ∈ exPairs, ∀ m ∈ finVals (exPairs.map fun c => c.2), fin m ≠ c.2 → (∃ t ∈ exThr, t ≤ m) ∧ (∃ t ∈ exThr, m ≤ t)) := by
  refine ⟨rfl, rfl, exThr_incr, by decide, ?_, ?_, ?_⟩
  · intro c hc
    simp only [exPairs, exF, List.mem_cons, List.not_mem_nil, or_false] at hc
    rcases hc with rfl | rfl | rfl <;> rfl
  · intro c hc
    simp only [exPairs, List.mem_cons, List.not_mem_nil, or_false] at hc
    rcases hc with rfl | rfl | rfl
    · exact Or.inr ⟨_, rfl⟩
    · exact Or.inr ⟨_, rfl⟩
    · exact Or.inl rfl
  · intro c _ m hm _
    simp only [exPairs, List.map_cons, List.map_nil, finVals, List.mem_cons, List.not_mem_nil, or_false] at hm
    rcases hm with rfl | rfl <;>
      exact ⟨⟨0, by simp [exThr], by norm_num⟩, ⟨3, by simp [exThr], by norm_num⟩⟩

/-- the instance end to end: the three cases together, and the first two alone -/
example : parts3 (crpsCdf exThr (exPairs.map fun c => c.1.map fin) (exPairs.map fun c => c.2) none [] {}) =
      some [(fin (5/16), fin (7/48), fin (1/6)), (fin (1/2), fin (23/48), fin (1/48)), (nan, nan, nan)] ∧
    parts3 (crpsCdf exThr [exF.map fin] [fin 1] none [] {}) = some [(fin (5/16), fin (7/48), fin (1/6))] ∧
    parts3 (crpsCdf exThr [[fin 0, fin (1/2), fin 1]] [fin 2] none [] {}) = some [(fin (1/2), fin (23/48), fin (1/48))] := by
  decide +kernel

/-- with `fcst_fill_method="step"` the cases are NOT independent: the second case's observation 1 becomes a threshold, the
    step-filled forecast of the first case gets the ordinate 0 there, and its score changes from 2/3 to 4/3 -/
theorem cases_step_counterexample :
    parts3 (crpsCdf [0, 2] [[fin 0, fin 1]] [fin 0] none [] { fillF := "step" }) = some [(fin (2/3), fin 0, fin (2/3))] ∧
    parts3 (crpsCdf [0, 2] [[fin 0, fin 1], [fin 0, fin 1]] [fin 0, fin 1] none [] { fillF := "step" }) =
      some [(fin (4/3), fin 0, fin (4/3)), (fin (1/3), fin 0, fin (1/3))] := by
  decide +kernel

/-- with `integration_method="trapz"` neither: the trapezoid rule on the finer grid gives 3/4 instead of 1 -/
theorem cases_trapz_counterexample :
    parts3 (crpsCdf [0, 2] [[fin 0, fin 1]] [fin 0] none [] { integ := "trapz" }) = some [(fin 1, fin 0, fin 1)] ∧
    parts3 (crpsCdf [0, 2] [[fin 0, fin 1], [fin 0, fin 1]] [fin 0, fin 1] none [] { integ := "trapz" }) =
      some [(fin (3/4), fin 0, fin (3/4)), (fin (1/4), fin 0, fin (1/4))] := by
  decide +kernel

/-- linear fill + exact integration, but another case's observation (3) lies OUTSIDE the forecast span [0, 1]: the common
    grid, hence the integration domain of the first case, grows from [0, 1] to [0, 3] and its score from 7/12 to 3/4 -/
theorem cases_outside_span_counterexample :
    parts3 (crpsCdf [0, 1] [[fin 0, fin (1/2)]] [fin 0] none [] {}) = some [(fin (7/12), fin 0, fin (7/12))] ∧
    parts3 (crpsCdf [0, 1] [[fin 0, fin (1/2)], [fin 0, fin (1/2)]] [fin 0, fin 3] none [] {}) =
      some [(fin (3/4), fin 0, fin (3/4)), (fin (5/4), fin (5/4), fin 0)] := by
  decide +kernel

/-! ## 4. independence of the cases with a threshold weight -/

/-- **pipeline_cases_independent_weighted** (`fcst_fill_method="linear"`, `integration_method="exact"`, threshold weight on
    its own ≥ 2 thresholds with `threshold_weight_fill_method` "forward" — the default — or "step"): the filled weight is a
    right-continuous step function whose jumps are the weight's thresholds, hence grid points, so refining the grid by the
    other cases' observations changes nothing: under the same span condition every case gets the value of the one-case call
    (`pipeline_eq_spec_weighted`), i.e. the Spec with `others = []` -/
theorem pipeline_cases_independent_weighted (fthr wthr : List Rat) (cs : List Case) (additional : List Fl) (cfg : Cfg)
    (hfill : cfg.fillF = "linear") (hfillW : cfg.fillW = "forward" ∨ cfg.fillW = "step") (hinteg : cfg.integ = "exact")
    (hf : Incr fthr) (h2 : 2 ≤ fthr.length) (hw : Incr wthr) (hw2 : 2 ≤ wthr.length)
    (hlen : ∀ c ∈ cs, c.1.length = fthr.length) (hlenw : ∀ c ∈ cs, c.2.2.length = wthr.length)
    (huf : ∀ c ∈ cs, ∀ v ∈ c.1, 0 ≤ v ∧ v ≤ 1) (huw : ∀ c ∈ cs, ∀ v ∈ c.2.2, 0 ≤ v ∧ v ≤ 1)
    (ho : ∀ c ∈ cs, c.2.1 = nan ∨ ∃ q, c.2.1 = fin q)
    (hspan : ∀ c ∈ cs, ∀ m ∈ finVals (cs.map fun c => c.2.1), fin m ≠ c.2.1 → (∃ t ∈ fthr, t ≤ m) ∧ (∃ t ∈ fthr, m ≤ t)) :
    crpsCdf fthr (cs.map fun c => c.1.map fin) (cs.map fun c => c.2.1)
        (some { thr := wthr, rows := cs.map fun c => c.2.2.map fin }) additional cfg =
      .ok (cs.map fun c => ofSpec (SV.Spec.CrpsCdf.crps fthr (c.1.map fin) c.2.1 [] (some (wthr, c.2.2.map fin))
        (finVals additional) cfg.propagate cfg.fillF cfg.fillW cfg.integ).parts) :=
  crpsCdf_cases_independent_weighted fthr wthr cs additional cfg hfill hfillW hinteg hf h2 hw hw2 hlen hlenw huf huw ho hspan

/-- the cases of `exCases` with observations 1 and 2 (inside the forecast span 0 … 3) and a NaN observation -/
def exCases2 : List Case := [(exF, fin 1, exWq), ([0, 1/2, 1], fin 2, [1, 1/2]), ([0, 0, 1], nan, [1, 1])]

example : (({} : Cfg).fillW = "forward" ∨ ({} : Cfg).fillW = "step") ∧ 2 ≤ exWthr.length ∧
    (∀ c ∈ exCases2, c.1.length = exThr.length) ∧ (∀ c ∈ exCases2, c.2.2.length = exWthr.length) ∧
    (∀ c ∈ exCases2, ∀ m ∈ finVals (exCases2.map fun c => c.2.1), fin m ≠ c.2.1 → (∃ t ∈ exThr, t ≤ m) ∧ (∃ t ∈ exThr, m ≤ t)) := by
  refine ⟨Or.inl rfl, by decide, ?_, ?_, ?_⟩
  · intro c hc
    simp only [exCases2, List.mem_cons, List.not_mem_nil, or_false] at hc
    rcases hc with rfl | rfl | rfl <;> rfl
  · intro c hc
    simp only [exCases2, List.mem_cons, List.not_mem_nil, or_false] at hc
    rcases hc with rfl | rfl | rfl <;> rfl
  · intro c _ m hm _
    simp only [exCases2, List.map_cons, List.map_nil, finVals, List.mem_cons, List.not_mem_nil, or_false] at hm
    rcases hm with rfl | rfl <;>
      exact ⟨⟨0, by simp [exThr], by norm_num⟩, ⟨3, by simp [exThr], by norm_num⟩⟩

/-- the instance end to end: together, and the first two cases alone -/
example : parts3 (crpsCdf exThr (exCases2.map Case.F) (exCases2.map Case.O) (mkWeight (some exWthr) exCases2) [] {}) =
      some [(fin (1/6), fin (7/96), fin (3/32)), (fin (47/96), fin (23/48), fin (1/96)), (nan, nan, nan)] ∧
    parts3 (crpsCdf exThr [exF.map fin] [fin 1] (some { thr := exWthr, rows := [exWq.map fin] }) [] {}) =
      some [(fin (1/6), fin (7/96), fin (3/32))] ∧
    parts3 (crpsCdf exThr [[fin 0, fin (1/2), fin 1]] [fin 2] (some { thr := exWthr, rows := [[fin 1, fin (1/2)]] }) [] {}) =
      some [(fin (47/96), fin (23/48), fin (1/96))] := by
  decide +kernel

/-- with `threshold_weight_fill_method` "linear" or "backward" the filled weight is not a step function with jumps on the
    grid: the weight 0, 1 on the thresholds 0, 2 gives the cell [0, 2] the weight 0 (score 0) when the case is alone; with
    another case's observation 1 on the grid, the cell [1, 2] gets the weight ½ resp. 1 -/
theorem cases_weight_fill_counterexample :
    parts3 (crpsCdf [0, 2] [[fin 0, fin 1]] [fin 0] (some { thr := [0, 2], rows := [[fin 0, fin 1]] }) [] { fillW := "linear" }) =
      some [(fin 0, fin 0, fin 0)] ∧
    parts3 (crpsCdf [0, 2] [[fin 0, fin 1], [fin 0, fin 1]] [fin 0, fin 1]
        (some { thr := [0, 2], rows := [[fin 0, fin 1], [fin 0, fin 1]] }) [] { fillW := "linear" }) =
      some [(fin (1/24), fin 0, fin (1/24)), (fin (1/24), fin 0, fin (1/24))] ∧
    parts3 (crpsCdf [0, 2] [[fin 0, fin 1]] [fin 0] (some { thr := [0, 2], rows := [[fin 0, fin 1]] }) [] { fillW := "backward" }) =
      some [(fin 0, fin 0, fin 0)] ∧
    parts3 (crpsCdf [0, 2] [[fin 0, fin 1], [fin 0, fin 1]] [fin 0, fin 1]
        (some { thr := [0, 2], rows := [[fin 0, fin 1], [fin 0, fin 1]] }) [] { fillW := "backward" }) =
      some [(fin (1/12), fin 0, fin (1/12)), (fin (1/12), fin 0, fin (1/12))] := by
  decide +kernel

end SV.Props.C07Cases
