/-
  C10 — threshold-weighted scores are weighted integrals of elementary scores.

  The theorems are about `SV.Gen.ThresholdWeighted.*`, i.e. about the definitions REGENERATED on every run from
  /repo/src/scores/continuous/threshold_weighted_impl.py (`_g_j_rect … _phi_j_prime_trap`, the 0.5 / 2 rescalings of the
  five `tw_*` wrappers) and consistent_impl.py (the kernels of `consistent_{quantile,expectile,huber}_score`),
  against `SV.Spec.TW` (weights, Murphy elementary scores, integrals by `SV.Spec.Quad.integral`) — for ALL rational
  forecasts x, observations y, end points, α, Huber parameters.  `fin q` embeds the rational q into the number model.

  Reading guide: `twQuantile w ks α x y = ∫ w(θ)·S^Q_θ(x,y) dθ`, `twAbsoluteError = 2∫ w·S^Q_{1/2}`,
  `twExpectile = 2∫ w·S^E_α`, `twSquaredError = 4∫ w·S^E_{1/2}`, `twHuber = 2∫ w·S^H_{1/2,h}` over [min(x,y), max(x,y)]
  with grid kinks `ks` (Spec/ThresholdWeighted.lean).  Helper lemmas: Lemmas/Quad.lean, Lemmas/ThresholdWeighted.lean.
-/
import ScoresVerif.Gen.ThresholdWeighted
import ScoresVerif.Spec.ThresholdWeighted
import ScoresVerif.Lemmas.ThresholdWeighted

set_option linter.unusedVariables false

namespace SV.Props.C10
open SV SV.Spec.Quad SV.Spec.TW SV.TW
open SV.Fl (fin nan ninf pinf)
namespace G
export SV.Gen.ThresholdWeighted (g_j_rect phi_j_rect phi_j_prime_rect g_j_trap phi_j_trap phi_j_prime_trap
  consistent_quantile_score consistent_expectile_score consistent_huber_score
  tw_squared_error tw_absolute_error tw_quantile_score tw_expectile_score tw_huber_loss)
end G

/-! ## 1. g, φ′, φ are the first / second antiderivatives of the weight (rows of Table B1) -/

/-- φ′ = 4g for every input, NaN and infinities included -/
theorem phi_prime_rect_eq_four_g (a b x : Fl) : G.phi_j_prime_rect a b x = Fl.mul (fin 4) (G.g_j_rect a b x) := rfl
theorem phi_prime_trap_eq_four_g (a b c d x : Fl) :
    G.phi_j_prime_trap a b c d x = Fl.mul (fin 4) (G.g_j_trap a b c d x) := rfl

/-- a NaN forecast / observation gives NaN -/
theorem aux_nan (a b c d : Fl) :
    G.g_j_rect a b nan = nan ∧ G.phi_j_rect a b nan = nan ∧ G.g_j_trap a b c d nan = nan ∧ G.phi_j_trap a b c d nan = nan :=
  ⟨g_j_rect_nan a b, phi_j_rect_nan a b, g_j_trap_nan a b c d, phi_j_trap_nan a b c d⟩

/-- g_rect(hi) − g_rect(lo) = ∫_lo^hi 1[a,b)(θ) dθ -/
theorem g_rect_first_antiderivative (a b lo hi : Rat) (hab : a < b) (h : lo ≤ hi) :
    Fl.sub (G.g_j_rect (fin a) (fin b) (fin hi)) (G.g_j_rect (fin a) (fin b) (fin lo))
      = fin (integral (wRect a b) lo hi [a, b]) := by
  rw [g_j_rect_fin _ _ _ hab, g_j_rect_fin _ _ _ hab, Fl.sub_fin,
    integral_eq_of_antiderivative _ (gRect a b) lo hi _ h (fun p q _ hpq _ hno => rect_cell1 a b hab p q hpq hno)]
example : (0 : Rat) < 1 ∧ (-1 : Rat) ≤ 2 := by norm_num

/-- … which is the length of [y, x) ∩ [a, b) -/
theorem g_rect_diff_eq_overlap (a b x y : Rat) (hab : a < b) (hyx : y ≤ x) :
    Fl.sub (G.g_j_rect (fin a) (fin b) (fin x)) (G.g_j_rect (fin a) (fin b) (fin y))
      = fin (max 0 (min b x - max a y)) := by
  rw [g_j_rect_fin _ _ _ hab, g_j_rect_fin _ _ _ hab, Fl.sub_fin]
  congr 1
  unfold gRect
  split_ifs <;> simp only [max_def, min_def] <;> split_ifs <;> linarith
example : (0 : Rat) < 1 ∧ (0 : Rat) ≤ 3 := by norm_num

/-- φ_rect is the second antiderivative: the Bregman term φ(y) − φ(x) − φ′(x)(y − x) is 4∫ w(θ)|θ − y| dθ between y and x -/
theorem phi_rect_second_antiderivative_over (a b x y : Rat) (hab : a < b) (hyx : y ≤ x) :
    Fl.sub (Fl.sub (G.phi_j_rect (fin a) (fin b) (fin y)) (G.phi_j_rect (fin a) (fin b) (fin x)))
        (Fl.mul (G.phi_j_prime_rect (fin a) (fin b) (fin x)) (Fl.sub (fin y) (fin x)))
      = fin (4 * integral (fun θ => wRect a b θ * (θ - y)) y x [a, b]) := by
  rw [phi_j_rect_fin _ _ _ hab, phi_j_rect_fin _ _ _ hab, phi_j_prime_rect_fin _ _ _ hab, Fl.sub_fin, Fl.sub_fin, Fl.mul_fin, Fl.sub_fin,
    integral_eq_of_antiderivative _ (fun t => gRect a b t * (t - y) - phiRect a b t / 4) y x _ hyx
      (fun p q _ hpq _ hno => rect_cell2 a b hab y p q hpq hno)]
  congr 1; ring

theorem phi_rect_second_antiderivative_under (a b x y : Rat) (hab : a < b) (hxy : x ≤ y) :
    Fl.sub (Fl.sub (G.phi_j_rect (fin a) (fin b) (fin y)) (G.phi_j_rect (fin a) (fin b) (fin x)))
        (Fl.mul (G.phi_j_prime_rect (fin a) (fin b) (fin x)) (Fl.sub (fin y) (fin x)))
      = fin (4 * integral (fun θ => wRect a b θ * (y - θ)) x y [a, b]) := by
  have e : (fun θ => wRect a b θ * (y - θ)) = fun θ => (-1) * (wRect a b θ * (θ - y)) := by funext θ; ring
  rw [phi_j_rect_fin _ _ _ hab, phi_j_rect_fin _ _ _ hab, phi_j_prime_rect_fin _ _ _ hab, Fl.sub_fin, Fl.sub_fin, Fl.mul_fin, Fl.sub_fin, e,
    integral_eq_of_antiderivative _ (fun t => (-1) * (gRect a b t * (t - y) - phiRect a b t / 4)) x y _ hxy
      (fun p q _ hpq _ hno => by rw [milne_smul, rect_cell2 a b hab y p q hpq hno]; ring)]
  congr 1; ring

/-- the same for the trapezoidal weight (a < b < c < d) -/
theorem g_trap_first_antiderivative (a b c d lo hi : Rat) (hab : a < b) (hbc : b < c) (hcd : c < d) (h : lo ≤ hi) :
    Fl.sub (G.g_j_trap (fin a) (fin b) (fin c) (fin d) (fin hi)) (G.g_j_trap (fin a) (fin b) (fin c) (fin d) (fin lo))
      = fin (integral (wTrap a b c d) lo hi [a, b, c, d]) := by
  rw [g_j_trap_fin _ _ _ _ _ hab hbc hcd, g_j_trap_fin _ _ _ _ _ hab hbc hcd, Fl.sub_fin,
    integral_eq_of_antiderivative _ (gTrap a b c d) lo hi _ h
      (fun p q _ hpq _ hno => trap_cell1 a b c d hab hbc hcd p q hpq hno)]
example : (0 : Rat) < 1 ∧ (1 : Rat) < 2 ∧ (2 : Rat) < 4 ∧ (-1 : Rat) ≤ 3 := by norm_num

theorem phi_trap_second_antiderivative_over (a b c d x y : Rat) (hab : a < b) (hbc : b < c) (hcd : c < d) (hyx : y ≤ x) :
    Fl.sub (Fl.sub (G.phi_j_trap (fin a) (fin b) (fin c) (fin d) (fin y)) (G.phi_j_trap (fin a) (fin b) (fin c) (fin d) (fin x)))
        (Fl.mul (G.phi_j_prime_trap (fin a) (fin b) (fin c) (fin d) (fin x)) (Fl.sub (fin y) (fin x)))
      = fin (4 * integral (fun θ => wTrap a b c d θ * (θ - y)) y x [a, b, c, d]) := by
  rw [phi_j_trap_fin _ _ _ _ _ hab hbc hcd, phi_j_trap_fin _ _ _ _ _ hab hbc hcd, phi_j_prime_trap_fin _ _ _ _ _ hab hbc hcd,
    Fl.sub_fin, Fl.sub_fin, Fl.mul_fin, Fl.sub_fin,
    integral_eq_of_antiderivative _ (fun t => gTrap a b c d t * (t - y) - phiTrap a b c d t / 4) y x _ hyx
      (fun p q _ hpq _ hno => trap_cell2 a b c d hab hbc hcd y p q hpq hno)]
  congr 1; ring

theorem phi_trap_second_antiderivative_under (a b c d x y : Rat) (hab : a < b) (hbc : b < c) (hcd : c < d) (hxy : x ≤ y) :
    Fl.sub (Fl.sub (G.phi_j_trap (fin a) (fin b) (fin c) (fin d) (fin y)) (G.phi_j_trap (fin a) (fin b) (fin c) (fin d) (fin x)))
        (Fl.mul (G.phi_j_prime_trap (fin a) (fin b) (fin c) (fin d) (fin x)) (Fl.sub (fin y) (fin x)))
      = fin (4 * integral (fun θ => wTrap a b c d θ * (y - θ)) x y [a, b, c, d]) := by
  have e : (fun θ => wTrap a b c d θ * (y - θ)) = fun θ => (-1) * (wTrap a b c d θ * (θ - y)) := by funext θ; ring
  rw [phi_j_trap_fin _ _ _ _ _ hab hbc hcd, phi_j_trap_fin _ _ _ _ _ hab hbc hcd, phi_j_prime_trap_fin _ _ _ _ _ hab hbc hcd,
    Fl.sub_fin, Fl.sub_fin, Fl.mul_fin, Fl.sub_fin, e,
    integral_eq_of_antiderivative _ (fun t => (-1) * (gTrap a b c d t * (t - y) - phiTrap a b c d t / 4)) x y _ hxy
      (fun p q _ hpq _ hno => by rw [milne_smul, trap_cell2 a b c d hab hbc hcd y p q hpq hno]; ring)]
  congr 1; ring

/-! ## 2. The five threshold-weighted scores are the integrals of weight × elementary score -/

section rect
variable (a b x y : Rat) (hab : a < b)
include hab

theorem tw_quantile_rect_eq_integral (α : Rat) :
    G.tw_quantile_score (fin x) (fin y) (fin α) (G.g_j_rect (fin a) (fin b)) = fin (twQuantile (wRect a b) [a, b] α x y) := by
  rw [tw_quantile_fin (auxFin_rect a b hab), twQuantile,
    intQuantile_eq (antider_rect a b hab (min x y) (max x y)) α x y (min_le_left _ _) (min_le_right _ _) (le_max_left _ _) (le_max_right _ _)]

theorem tw_absolute_error_rect_eq_integral :
    G.tw_absolute_error (fin x) (fin y) (G.g_j_rect (fin a) (fin b)) = fin (twAbsoluteError (wRect a b) [a, b] x y) := by
  rw [tw_absolute_error_fin (auxFin_rect a b hab), twAbsoluteError,
    intQuantile_eq (antider_rect a b hab (min x y) (max x y)) _ x y (min_le_left _ _) (min_le_right _ _) (le_max_left _ _) (le_max_right _ _)]

theorem tw_expectile_rect_eq_integral (α : Rat) :
    G.tw_expectile_score (fin x) (fin y) (fin α) (G.phi_j_rect (fin a) (fin b)) (G.phi_j_prime_rect (fin a) (fin b))
      = fin (twExpectile (wRect a b) [a, b] α x y) := by
  rw [tw_expectile_fin (auxFin_rect a b hab), twExpectile,
    intExpectile_eq (antider_rect a b hab (min x y) (max x y)) α x y (min_le_left _ _) (min_le_right _ _) (le_max_left _ _) (le_max_right _ _)]

theorem tw_squared_error_rect_eq_integral :
    G.tw_squared_error (fin x) (fin y) (G.phi_j_rect (fin a) (fin b)) (G.phi_j_prime_rect (fin a) (fin b))
      = fin (twSquaredError (wRect a b) [a, b] x y) := by
  have := intExpectile_eq (antider_rect a b hab (min x y) (max x y)) (1 / 2) x y (min_le_left _ _) (min_le_right _ _)
    (le_max_left _ _) (le_max_right _ _)
  rw [tw_squared_error_fin (auxFin_rect a b hab), twSquaredError]; congr 1; linarith

theorem tw_huber_rect_eq_integral (h : Rat) (hh : 0 < h) :
    G.tw_huber_loss (fin x) (fin y) (fin h) (G.phi_j_rect (fin a) (fin b)) (G.phi_j_prime_rect (fin a) (fin b))
      = fin (twHuber (wRect a b) [a, b] h x y) := by
  rw [tw_huber_fin (auxFin_rect a b hab), twHuber,
    intHuber_eq (antider_rect a b hab (min x y) (max x y)) h x y hh (min_le_left _ _) (min_le_right _ _) (le_max_left _ _) (le_max_right _ _)]
end rect
example : (0 : Rat) < 2 ∧ (0 : Rat) < 1 / 2 := by norm_num

section trap
variable (a b c d x y : Rat) (hab : a < b) (hbc : b < c) (hcd : c < d)
include hab hbc hcd

theorem tw_quantile_trap_eq_integral (α : Rat) :
    G.tw_quantile_score (fin x) (fin y) (fin α) (G.g_j_trap (fin a) (fin b) (fin c) (fin d))
      = fin (twQuantile (wTrap a b c d) [a, b, c, d] α x y) := by
  rw [tw_quantile_fin (auxFin_trap a b c d hab hbc hcd), twQuantile,
    intQuantile_eq (antider_trap a b c d hab hbc hcd (min x y) (max x y)) α x y (min_le_left _ _) (min_le_right _ _)
      (le_max_left _ _) (le_max_right _ _)]

theorem tw_absolute_error_trap_eq_integral :
    G.tw_absolute_error (fin x) (fin y) (G.g_j_trap (fin a) (fin b) (fin c) (fin d))
      = fin (twAbsoluteError (wTrap a b c d) [a, b, c, d] x y) := by
  rw [tw_absolute_error_fin (auxFin_trap a b c d hab hbc hcd), twAbsoluteError,
    intQuantile_eq (antider_trap a b c d hab hbc hcd (min x y) (max x y)) _ x y (min_le_left _ _) (min_le_right _ _)
      (le_max_left _ _) (le_max_right _ _)]

theorem tw_expectile_trap_eq_integral (α : Rat) :
    G.tw_expectile_score (fin x) (fin y) (fin α) (G.phi_j_trap (fin a) (fin b) (fin c) (fin d))
        (G.phi_j_prime_trap (fin a) (fin b) (fin c) (fin d))
      = fin (twExpectile (wTrap a b c d) [a, b, c, d] α x y) := by
  rw [tw_expectile_fin (auxFin_trap a b c d hab hbc hcd), twExpectile,
    intExpectile_eq (antider_trap a b c d hab hbc hcd (min x y) (max x y)) α x y (min_le_left _ _) (min_le_right _ _)
      (le_max_left _ _) (le_max_right _ _)]

theorem tw_squared_error_trap_eq_integral :
    G.tw_squared_error (fin x) (fin y) (G.phi_j_trap (fin a) (fin b) (fin c) (fin d))
        (G.phi_j_prime_trap (fin a) (fin b) (fin c) (fin d))
      = fin (twSquaredError (wTrap a b c d) [a, b, c, d] x y) := by
  have := intExpectile_eq (antider_trap a b c d hab hbc hcd (min x y) (max x y)) (1 / 2) x y (min_le_left _ _)
    (min_le_right _ _) (le_max_left _ _) (le_max_right _ _)
  rw [tw_squared_error_fin (auxFin_trap a b c d hab hbc hcd), twSquaredError]; congr 1; linarith

theorem tw_huber_trap_eq_integral (h : Rat) (hh : 0 < h) :
    G.tw_huber_loss (fin x) (fin y) (fin h) (G.phi_j_trap (fin a) (fin b) (fin c) (fin d))
        (G.phi_j_prime_trap (fin a) (fin b) (fin c) (fin d))
      = fin (twHuber (wTrap a b c d) [a, b, c, d] h x y) := by
  rw [tw_huber_fin (auxFin_trap a b c d hab hbc hcd), twHuber,
    intHuber_eq (antider_trap a b c d hab hbc hcd (min x y) (max x y)) h x y hh (min_le_left _ _) (min_le_right _ _)
      (le_max_left _ _) (le_max_right _ _)]
end trap
example : (0 : Rat) < 1 ∧ (1 : Rat) < 2 ∧ (2 : Rat) < 4 ∧ (0 : Rat) < 3 / 2 := by norm_num

/-! ## 3. endpoint_replacement_sound — an infinite end point may be replaced by ANY finite one beyond the two data
    points: the scores computed with the replaced end points are the integrals against the ideal weight
    (`wRectE` / `wTrapE` with `ninf` / `pinf`).  `_auxiliary_funcs` replaces −∞ by min(data, other end) − 1 and +∞ by
    max(data, other end) + 1 (hand model `Model.TW.auxRect/auxTrap`, tied by the differential check). -/

/-- all five scores computed with finite-valued (gF, φF, φ′F) are the integrals against the weight w -/
def AllFiveEqIntegral (gF φF φ'F : Fl → Fl) (w : Rat → Rat) (ks : List Rat) (x y : Rat) : Prop :=
  (∀ α, G.tw_quantile_score (fin x) (fin y) (fin α) gF = fin (twQuantile w ks α x y)) ∧
  G.tw_absolute_error (fin x) (fin y) gF = fin (twAbsoluteError w ks x y) ∧
  (∀ α, G.tw_expectile_score (fin x) (fin y) (fin α) φF φ'F = fin (twExpectile w ks α x y)) ∧
  G.tw_squared_error (fin x) (fin y) φF φ'F = fin (twSquaredError w ks x y) ∧
  (∀ h, 0 < h → G.tw_huber_loss (fin x) (fin y) (fin h) φF φ'F = fin (twHuber w ks h x y))

theorem allFive_of_antider {gF φF φ'F : Fl → Fl} {w g φ : Rat → Rat} {ks : List Rat} {L U : Rat}
    (F : AuxFin gF φF φ'F g φ) (A : Antider w g φ ks L U) (x y : Rat) (hLx : L ≤ x) (hLy : L ≤ y) (hxU : x ≤ U)
    (hyU : y ≤ U) : AllFiveEqIntegral gF φF φ'F w ks x y := by
  refine ⟨fun α => ?_, ?_, fun α => ?_, ?_, fun h hh => ?_⟩
  · rw [tw_quantile_fin F, twQuantile, intQuantile_eq A α x y hLx hLy hxU hyU]
  · rw [tw_absolute_error_fin F, twAbsoluteError, intQuantile_eq A _ x y hLx hLy hxU hyU]
  · rw [tw_expectile_fin F, twExpectile, intExpectile_eq A α x y hLx hLy hxU hyU]
  · have := intExpectile_eq A (1 / 2) x y hLx hLy hxU hyU
    rw [tw_squared_error_fin F, twSquaredError]; congr 1; linarith
  · rw [tw_huber_fin F, twHuber, intHuber_eq A h x y hh hLx hLy hxU hyU]

theorem endpoint_replacement_sound_rect_left (A b x y : Rat) (hAb : A < b) (hx : A ≤ x) (hy : A ≤ y) :
    AllFiveEqIntegral (G.g_j_rect (fin A) (fin b)) (G.phi_j_rect (fin A) (fin b)) (G.phi_j_prime_rect (fin A) (fin b))
      (wRectE ninf (fin b)) [b] x y :=
  allFive_of_antider (auxFin_rect A b hAb) (antider_rectE_left A b (max x y) hAb) x y hx hy (le_max_left _ _) (le_max_right _ _)

theorem endpoint_replacement_sound_rect_right (a B x y : Rat) (haB : a < B) (hx : x ≤ B) (hy : y ≤ B) :
    AllFiveEqIntegral (G.g_j_rect (fin a) (fin B)) (G.phi_j_rect (fin a) (fin B)) (G.phi_j_prime_rect (fin a) (fin B))
      (wRectE (fin a) pinf) [a] x y :=
  allFive_of_antider (auxFin_rect a B haB) (antider_rectE_right a B (min x y) haB) x y (min_le_left _ _) (min_le_right _ _) hx hy

theorem endpoint_replacement_sound_rect_both (A B x y : Rat) (hAB : A < B) (hx : A ≤ x) (hy : A ≤ y) (hx' : x ≤ B)
    (hy' : y ≤ B) :
    AllFiveEqIntegral (G.g_j_rect (fin A) (fin B)) (G.phi_j_rect (fin A) (fin B)) (G.phi_j_prime_rect (fin A) (fin B))
      (wRectE ninf pinf) [] x y :=
  allFive_of_antider (auxFin_rect A B hAB) (antider_rectE_both A B hAB) x y hx hy hx' hy'

theorem endpoint_replacement_sound_trap_left (A0 A c d x y : Rat) (h0 : A0 < A) (hAc : A < c) (hcd : c < d)
    (hx : A ≤ x) (hy : A ≤ y) :
    AllFiveEqIntegral (G.g_j_trap (fin A0) (fin A) (fin c) (fin d)) (G.phi_j_trap (fin A0) (fin A) (fin c) (fin d))
      (G.phi_j_prime_trap (fin A0) (fin A) (fin c) (fin d)) (wTrapE ninf ninf (fin c) (fin d)) [c, d] x y :=
  allFive_of_antider (auxFin_trap A0 A c d h0 hAc hcd) (antider_trapE_left A0 A c d (max x y) h0 hAc hcd) x y hx hy
    (le_max_left _ _) (le_max_right _ _)

theorem endpoint_replacement_sound_trap_right (a b D D0 x y : Rat) (hab : a < b) (hbD : b < D) (hD : D < D0)
    (hx : x ≤ D) (hy : y ≤ D) :
    AllFiveEqIntegral (G.g_j_trap (fin a) (fin b) (fin D) (fin D0)) (G.phi_j_trap (fin a) (fin b) (fin D) (fin D0))
      (G.phi_j_prime_trap (fin a) (fin b) (fin D) (fin D0)) (wTrapE (fin a) (fin b) pinf pinf) [a, b] x y :=
  allFive_of_antider (auxFin_trap a b D D0 hab hbD hD) (antider_trapE_right a b D D0 (min x y) hab hbD hD) x y
    (min_le_left _ _) (min_le_right _ _) hx hy

theorem endpoint_replacement_sound_trap_both (A0 A D D0 x y : Rat) (h0 : A0 < A) (hAD : A < D) (hD : D < D0)
    (hx : A ≤ x) (hy : A ≤ y) (hx' : x ≤ D) (hy' : y ≤ D) :
    AllFiveEqIntegral (G.g_j_trap (fin A0) (fin A) (fin D) (fin D0)) (G.phi_j_trap (fin A0) (fin A) (fin D) (fin D0))
      (G.phi_j_prime_trap (fin A0) (fin A) (fin D) (fin D0)) (wTrapE ninf ninf pinf pinf) [] x y :=
  allFive_of_antider (auxFin_trap A0 A D D0 h0 hAD hD) (antider_trapE_both A0 A D D0 h0 hAD hD) x y hx hy hx' hy'
example : (-3 : Rat) < -2 ∧ (-2 : Rat) < 5 ∧ (5 : Rat) < 6 ∧ (-2 : Rat) ≤ 0 ∧ (1 : Rat) ≤ 5 := by norm_num

/-- the hand model of the rectangular branch of `_auxiliary_funcs` (finite data, end points finite or infinite on their own
    side) replaces −∞ by a finite A and +∞ by a finite B with A + 1 ≤ every forecast / observation ≤ B − 1, A + 1 ≤ every
    finite right end point and every finite left end point + 1 ≤ B — so the hypotheses of the three theorems above hold for it -/
theorem endpoint_replacement_model_rect (fc ob : List Rat) (as bs : List Fl) (hf : fc ≠ []) (ho : ob ≠ [])
    (ha : as ≠ []) (hb : bs ≠ [])
    (has : ∀ t ∈ as, t = ninf ∨ ∃ q, t = fin q) (hbs : ∀ t ∈ bs, t = pinf ∨ ∃ q, t = fin q)
    (a' b' : List Fl) (h : Model.TW.auxRect (fc.map fin) (ob.map fin) as bs = .ok (a', b')) :
    ∃ A B, a' = as.map (fun s => Fl.whereB s (Fl.gt s ninf) (fin A)) ∧ b' = bs.map (fun t => Fl.whereB t (Fl.lt t pinf) (fin B)) ∧
      (∀ x ∈ fc, A + 1 ≤ x ∧ x + 1 ≤ B) ∧ (∀ y ∈ ob, A + 1 ≤ y ∧ y + 1 ≤ B) ∧
      (∀ q, fin q ∈ bs → A + 1 ≤ q) ∧ (∀ q, fin q ∈ as → q + 1 ≤ B) := by
  obtain ⟨A, eA, hA1, hA2, hA3⟩ := aux_rect_left_replacement fc ob bs hf ho hb hbs
  unfold Model.TW.auxRect at h
  split at h
  · exact absurd h (by simp)
  · simp only [eA, Except.ok.injEq, Prod.mk.injEq] at h
    obtain ⟨h1, h2⟩ := h
    have has' : ∀ t ∈ a', t = ninf ∨ ∃ q, t = fin q := by
      intro t ht; rw [← h1, List.mem_map] at ht
      obtain ⟨s, hs, rfl⟩ := ht
      rcases has s hs with rfl | ⟨q, rfl⟩
      · right; exact ⟨A, by simp [Fl.whereB, Fl.gt, Fl.lt]⟩
      · right; exact ⟨q, by simp [Fl.whereB, Fl.gt, Fl.lt]⟩
    have hne' : a' ≠ [] := by rw [← h1]; simpa using ha
    obtain ⟨B, eB, hB1, hB2, hB3⟩ := aux_rect_right_replacement fc ob a' hf ho hne' has'
    rw [h1, eB] at h2
    refine ⟨A, B, h1.symm, h2.symm, fun x hx => ⟨hA1 x hx, hB1 x hx⟩, fun y hy => ⟨hA2 y hy, hB2 y hy⟩, hA3, ?_⟩
    intro q hq
    apply hB3 q
    rw [← h1, List.mem_map]
    exact ⟨fin q, hq, by simp [Fl.whereB, Fl.gt, Fl.lt]⟩
example : Model.TW.auxRect [fin 0, fin 3] [fin 1, fin 2] [ninf, fin 1] [fin 2, pinf]
    = .ok ([fin (-1), fin 1], [fin 2, fin 4]) := by decide +kernel

/-- with finite end points the ideal weights are the plain ones (so the oracle's `wRectE` / `wTrapE` is `wRect` / `wTrap`) -/
theorem ideal_weights_finite (a b c d θ : Rat) (hab : a < b) (hbc : b < c) (hcd : c < d) :
    wRectE (fin a) (fin b) θ = wRect a b θ ∧ wTrapE (fin a) (fin b) (fin c) (fin d) θ = wTrap a b c d θ :=
  ⟨wRectE_fin a b θ, wTrapE_fin a b c d θ hab hbc hcd⟩

/-! ## 4. weight_one — with weight 1 on the data range the five scores are (x−y)², |x−y|, pinball loss, asymmetric
    squared loss and Huber loss, including the 0.5 / 2 rescalings of the wrappers -/

/-- the five scores computed with (gF, φF, φ′F) are the five standard scoring functions -/
def AllFiveEqStandard (gF φF φ'F : Fl → Fl) (x y : Rat) : Prop :=
  (∀ α, G.tw_quantile_score (fin x) (fin y) (fin α) gF = fin (pinball α x y)) ∧
  G.tw_absolute_error (fin x) (fin y) gF = fin (absoluteError x y) ∧
  (∀ α, G.tw_expectile_score (fin x) (fin y) (fin α) φF φ'F = fin (asymSquared α x y)) ∧
  G.tw_squared_error (fin x) (fin y) φF φ'F = fin (squaredError x y) ∧
  (∀ h, 0 < h → G.tw_huber_loss (fin x) (fin y) (fin h) φF φ'F = fin (huberLoss h x y))

theorem allFive_of_unit {gF φF φ'F : Fl → Fl} {g φ : Rat → Rat} {A B : Rat} (F : AuxFin gF φF φ'F g φ)
    (hu : UnitPair g φ A B) (x y : Rat) (hx : A ≤ x) (hx' : x ≤ B) (hy : A ≤ y) (hy' : y ≤ B) :
    AllFiveEqStandard gF φF φ'F x y := by
  refine ⟨fun α => ?_, ?_, fun α => ?_, ?_, fun h hh => ?_⟩
  · rw [tw_quantile_fin F, cq_unit hu α x y hx hx' hy hy']
  · rw [tw_absolute_error_fin F, cq_unit hu _ x y hx hx' hy hy']
    congr 1; unfold pinball absoluteError Spec.TW.rabs; split_ifs <;> linarith
  · rw [tw_expectile_fin F, ce_unit hu α x y hx hx' hy hy']
  · have := ce_unit hu (1 / 2) x y hx hx' hy hy'
    rw [tw_squared_error_fin F]; congr 1
    unfold asymSquared at this; unfold squaredError; split_ifs at this <;> linarith
  · rw [tw_huber_fin F, ch_unit hu h x y hh hx hx' hy hy']

/-- rectangular weight (−∞, ∞) after the finite replacement A ≤ data ≤ B -/
theorem weight_one_rect (A B x y : Rat) (hAB : A < B) (hx : A ≤ x) (hx' : x ≤ B) (hy : A ≤ y) (hy' : y ≤ B) :
    AllFiveEqStandard (G.g_j_rect (fin A) (fin B)) (G.phi_j_rect (fin A) (fin B)) (G.phi_j_prime_rect (fin A) (fin B)) x y :=
  allFive_of_unit (auxFin_rect A B hAB) (unitPair_rect A B hAB) x y hx hx' hy hy'

/-- trapezoidal weight with all four end points infinite, after the finite replacement A0 < A ≤ data ≤ D < D0 -/
theorem weight_one_trap (A0 A D D0 x y : Rat) (h0 : A0 < A) (hAD : A < D) (hD : D < D0) (hx : A ≤ x) (hx' : x ≤ D)
    (hy : A ≤ y) (hy' : y ≤ D) :
    AllFiveEqStandard (G.g_j_trap (fin A0) (fin A) (fin D) (fin D0)) (G.phi_j_trap (fin A0) (fin A) (fin D) (fin D0))
      (G.phi_j_prime_trap (fin A0) (fin A) (fin D) (fin D0)) x y :=
  allFive_of_unit (auxFin_trap A0 A D D0 h0 hAD hD) (unitPair_trap A0 A D D0 h0 hAD hD) x y hx hx' hy hy'
example : (-1 : Rat) < 7 ∧ (-1 : Rat) ≤ 0 ∧ (3 : Rat) ≤ 7 := by norm_num

theorem weight_one_tw_squared_error (A B x y : Rat) (hAB : A < B) (hx : A ≤ x) (hx' : x ≤ B) (hy : A ≤ y) (hy' : y ≤ B) :
    G.tw_squared_error (fin x) (fin y) (G.phi_j_rect (fin A) (fin B)) (G.phi_j_prime_rect (fin A) (fin B))
      = fin ((x - y) * (x - y)) := (weight_one_rect A B x y hAB hx hx' hy hy').2.2.2.1
theorem weight_one_tw_absolute_error (A B x y : Rat) (hAB : A < B) (hx : A ≤ x) (hx' : x ≤ B) (hy : A ≤ y) (hy' : y ≤ B) :
    G.tw_absolute_error (fin x) (fin y) (G.g_j_rect (fin A) (fin B)) = fin |x - y| := by
  rw [(weight_one_rect A B x y hAB hx hx' hy hy').2.1]; congr 1
  unfold absoluteError Spec.TW.rabs; split_ifs with h
  · exact (abs_of_neg h).symm
  · exact (abs_of_nonneg (not_lt.mp h)).symm
theorem weight_one_tw_quantile_score (A B x y α : Rat) (hAB : A < B) (hx : A ≤ x) (hx' : x ≤ B) (hy : A ≤ y) (hy' : y ≤ B) :
    G.tw_quantile_score (fin x) (fin y) (fin α) (G.g_j_rect (fin A) (fin B)) = fin (pinball α x y) :=
  (weight_one_rect A B x y hAB hx hx' hy hy').1 α
theorem weight_one_tw_expectile_score (A B x y α : Rat) (hAB : A < B) (hx : A ≤ x) (hx' : x ≤ B) (hy : A ≤ y) (hy' : y ≤ B) :
    G.tw_expectile_score (fin x) (fin y) (fin α) (G.phi_j_rect (fin A) (fin B)) (G.phi_j_prime_rect (fin A) (fin B))
      = fin (asymSquared α x y) := (weight_one_rect A B x y hAB hx hx' hy hy').2.2.1 α
theorem weight_one_tw_huber_loss (A B x y h : Rat) (hh : 0 < h) (hAB : A < B) (hx : A ≤ x) (hx' : x ≤ B) (hy : A ≤ y)
    (hy' : y ≤ B) :
    G.tw_huber_loss (fin x) (fin y) (fin h) (G.phi_j_rect (fin A) (fin B)) (G.phi_j_prime_rect (fin A) (fin B))
      = fin (huberLoss h x y) := (weight_one_rect A B x y hAB hx hx' hy hy').2.2.2.2 h hh

/-- hence the integrals of the elementary scores against weight ≡ 1 are the standard scoring functions -/
theorem integral_weight_one (x y : Rat) :
    (∀ α, twQuantile (wRectE ninf pinf) [] α x y = pinball α x y) ∧
    twAbsoluteError (wRectE ninf pinf) [] x y = absoluteError x y ∧
    (∀ α, twExpectile (wRectE ninf pinf) [] α x y = asymSquared α x y) ∧
    twSquaredError (wRectE ninf pinf) [] x y = squaredError x y ∧
    (∀ h, 0 < h → twHuber (wRectE ninf pinf) [] h x y = huberLoss h x y) := by
  have hA : min x y - 1 < max x y + 1 := by have := min_le_left x y; have := le_max_left x y; linarith
  have hx : min x y - 1 ≤ x := by have := min_le_left x y; linarith
  have hy : min x y - 1 ≤ y := by have := min_le_right x y; linarith
  have hx' : x ≤ max x y + 1 := by have := le_max_left x y; linarith
  have hy' : y ≤ max x y + 1 := by have := le_max_right x y; linarith
  have I := endpoint_replacement_sound_rect_both _ _ x y hA hx hy hx' hy'
  have S := weight_one_rect _ _ x y hA hx hx' hy hy'
  refine ⟨fun α => ?_, ?_, fun α => ?_, ?_, fun h hh => ?_⟩
  · exact Fl.fin.inj ((I.1 α).symm.trans (S.1 α))
  · exact Fl.fin.inj (I.2.1.symm.trans S.2.1)
  · exact Fl.fin.inj ((I.2.2.1 α).symm.trans (S.2.2.1 α))
  · exact Fl.fin.inj (I.2.2.2.1.symm.trans S.2.2.2.1)
  · exact Fl.fin.inj ((I.2.2.2.2 h hh).symm.trans (S.2.2.2.2 h hh))

/-! ## 5. partition of unity — threshold weights that sum to one give scores that sum to the unweighted score -/

/-- two half-lines (−∞, b) and [b, ∞), after the finite replacement A ≤ data ≤ B, A < b < B -/
theorem partition_half_lines (A b B x y : Rat) (hAb : A < b) (hbB : b < B) (hx : A ≤ x) (hx' : x ≤ B) (hy : A ≤ y)
    (hy' : y ≤ B) :
    (∀ α, Fl.add (G.tw_quantile_score (fin x) (fin y) (fin α) (G.g_j_rect (fin A) (fin b)))
        (G.tw_quantile_score (fin x) (fin y) (fin α) (G.g_j_rect (fin b) (fin B))) = fin (pinball α x y)) ∧
    Fl.add (G.tw_absolute_error (fin x) (fin y) (G.g_j_rect (fin A) (fin b)))
        (G.tw_absolute_error (fin x) (fin y) (G.g_j_rect (fin b) (fin B))) = fin (absoluteError x y) ∧
    (∀ α, Fl.add (G.tw_expectile_score (fin x) (fin y) (fin α) (G.phi_j_rect (fin A) (fin b)) (G.phi_j_prime_rect (fin A) (fin b)))
        (G.tw_expectile_score (fin x) (fin y) (fin α) (G.phi_j_rect (fin b) (fin B)) (G.phi_j_prime_rect (fin b) (fin B)))
        = fin (asymSquared α x y)) ∧
    Fl.add (G.tw_squared_error (fin x) (fin y) (G.phi_j_rect (fin A) (fin b)) (G.phi_j_prime_rect (fin A) (fin b)))
        (G.tw_squared_error (fin x) (fin y) (G.phi_j_rect (fin b) (fin B)) (G.phi_j_prime_rect (fin b) (fin B)))
        = fin (squaredError x y) ∧
    (∀ h, 0 < h → Fl.add (G.tw_huber_loss (fin x) (fin y) (fin h) (G.phi_j_rect (fin A) (fin b)) (G.phi_j_prime_rect (fin A) (fin b)))
        (G.tw_huber_loss (fin x) (fin y) (fin h) (G.phi_j_rect (fin b) (fin B)) (G.phi_j_prime_rect (fin b) (fin B)))
        = fin (huberLoss h x y)) := by
  have hu := unitPair_halves A b B hAb hbB
  have F1 := auxFin_rect A b hAb; have F2 := auxFin_rect b B hbB
  refine ⟨fun α => ?_, ?_, fun α => ?_, ?_, fun h hh => ?_⟩
  · rw [tw_quantile_fin F1, tw_quantile_fin F2, Fl.add_fin, ← cq_add, cq_unit hu α x y hx hx' hy hy']
  · rw [tw_absolute_error_fin F1, tw_absolute_error_fin F2, Fl.add_fin, ← mul_add, ← cq_add, cq_unit hu _ x y hx hx' hy hy']
    congr 1; unfold pinball absoluteError Spec.TW.rabs; split_ifs <;> linarith
  · rw [tw_expectile_fin F1, tw_expectile_fin F2, Fl.add_fin, ← mul_add, ← ce_add, ce_unit hu α x y hx hx' hy hy']
  · have := ce_unit hu (1 / 2) x y hx hx' hy hy'
    rw [tw_squared_error_fin F1, tw_squared_error_fin F2, Fl.add_fin, ← ce_add]; congr 1
    unfold asymSquared at this; unfold squaredError; split_ifs at this <;> linarith
  · rw [tw_huber_fin F1, tw_huber_fin F2, Fl.add_fin, ← mul_add, ← ch_add, ch_unit hu h x y hh hx hx' hy hy']
example : (-5 : Rat) < 1 ∧ (1 : Rat) < 9 ∧ (-5 : Rat) ≤ 1 ∧ (1 : Rat) ≤ 9 := by norm_num

/-- trapezoid (a,b,c,d) + the complementary left ramp (one = (−∞,a), positive = (−∞,b)) + right ramp
    (one = (d,∞), positive = (c,∞)), after the finite replacement A0 < A ≤ data ≤ D < D0 with A < a, d < D -/
theorem partition_trapezoid_ramps (A0 A a b c d D D0 x y : Rat) (h0 : A0 < A) (hAa : A < a) (hab : a < b) (hbc : b < c)
    (hcd : c < d) (hdD : d < D) (hD : D < D0) (hx : A ≤ x) (hx' : x ≤ D) (hy : A ≤ y) (hy' : y ≤ D) :
    let gl := G.g_j_trap (fin A0) (fin A) (fin a) (fin b); let gm := G.g_j_trap (fin a) (fin b) (fin c) (fin d)
    let gr := G.g_j_trap (fin c) (fin d) (fin D) (fin D0)
    let pl := G.phi_j_trap (fin A0) (fin A) (fin a) (fin b); let pm := G.phi_j_trap (fin a) (fin b) (fin c) (fin d)
    let pr := G.phi_j_trap (fin c) (fin d) (fin D) (fin D0)
    let ql := G.phi_j_prime_trap (fin A0) (fin A) (fin a) (fin b); let qm := G.phi_j_prime_trap (fin a) (fin b) (fin c) (fin d)
    let qr := G.phi_j_prime_trap (fin c) (fin d) (fin D) (fin D0)
    (∀ α, Fl.add (Fl.add (G.tw_quantile_score (fin x) (fin y) (fin α) gl) (G.tw_quantile_score (fin x) (fin y) (fin α) gm))
        (G.tw_quantile_score (fin x) (fin y) (fin α) gr) = fin (pinball α x y)) ∧
    Fl.add (Fl.add (G.tw_absolute_error (fin x) (fin y) gl) (G.tw_absolute_error (fin x) (fin y) gm))
        (G.tw_absolute_error (fin x) (fin y) gr) = fin (absoluteError x y) ∧
    (∀ α, Fl.add (Fl.add (G.tw_expectile_score (fin x) (fin y) (fin α) pl ql) (G.tw_expectile_score (fin x) (fin y) (fin α) pm qm))
        (G.tw_expectile_score (fin x) (fin y) (fin α) pr qr) = fin (asymSquared α x y)) ∧
    Fl.add (Fl.add (G.tw_squared_error (fin x) (fin y) pl ql) (G.tw_squared_error (fin x) (fin y) pm qm))
        (G.tw_squared_error (fin x) (fin y) pr qr) = fin (squaredError x y) ∧
    (∀ h, 0 < h → Fl.add (Fl.add (G.tw_huber_loss (fin x) (fin y) (fin h) pl ql) (G.tw_huber_loss (fin x) (fin y) (fin h) pm qm))
        (G.tw_huber_loss (fin x) (fin y) (fin h) pr qr) = fin (huberLoss h x y)) := by
  intro gl gm gr pl pm pr ql qm qr
  have hu := unitPair_trap_ramps A0 A a b c d D D0 h0 hAa hab hbc hcd hdD hD
  have F1 := auxFin_trap A0 A a b h0 hAa hab; have F2 := auxFin_trap a b c d hab hbc hcd
  have F3 := auxFin_trap c d D D0 hcd hdD hD
  refine ⟨fun α => ?_, ?_, fun α => ?_, ?_, fun h hh => ?_⟩
  · rw [tw_quantile_fin F1, tw_quantile_fin F2, tw_quantile_fin F3, Fl.add_fin, Fl.add_fin, ← cq_add, ← cq_add,
      cq_unit hu α x y hx hx' hy hy']
  · rw [tw_absolute_error_fin F1, tw_absolute_error_fin F2, tw_absolute_error_fin F3, Fl.add_fin, Fl.add_fin, ← mul_add,
      ← mul_add, ← cq_add, ← cq_add, cq_unit hu _ x y hx hx' hy hy']
    congr 1; unfold pinball absoluteError Spec.TW.rabs; split_ifs <;> linarith
  · rw [tw_expectile_fin F1, tw_expectile_fin F2, tw_expectile_fin F3, Fl.add_fin, Fl.add_fin, ← mul_add, ← mul_add,
      ← ce_add, ← ce_add, ce_unit hu α x y hx hx' hy hy']
  · have := ce_unit hu (1 / 2) x y hx hx' hy hy'
    rw [tw_squared_error_fin F1, tw_squared_error_fin F2, tw_squared_error_fin F3, Fl.add_fin, Fl.add_fin, ← ce_add, ← ce_add]
    congr 1
    unfold asymSquared at this; unfold squaredError; split_ifs at this <;> linarith
  · rw [tw_huber_fin F1, tw_huber_fin F2, tw_huber_fin F3, Fl.add_fin, Fl.add_fin, ← mul_add, ← mul_add, ← ch_add, ← ch_add,
      ch_unit hu h x y hh hx hx' hy hy']
example : (-9 : Rat) < -8 ∧ (-8 : Rat) < 0 ∧ (0 : Rat) < 1 ∧ (1 : Rat) < 2 ∧ (2 : Rat) < 4 ∧ (4 : Rat) < 8 ∧ (8 : Rat) < 9 := by
  norm_num

/-! ## 6. non-negativity, and zero when forecast = observation -/

/-- consistent_quantile_score with a non-decreasing g -/
theorem consistent_quantile_nonneg (gF : Fl → Fl) (g : Rat → Rat) (hg : ∀ t, gF (fin t) = fin (g t))
    (hmono : ∀ s t, s ≤ t → g s ≤ g t) (α x y : Rat) (h0 : 0 < α) (h1 : α < 1) :
    ∃ s, G.consistent_quantile_score (fin x) (fin y) (fin α) gF = fin s ∧ 0 ≤ s ∧ (x = y → s = 0) :=
  ⟨cq α g x y, consistent_quantile_fin gF g hg α x y, cq_nonneg hmono α x y h0.le h1.le, fun e => by rw [e]; exact cq_self α g y⟩
example : ∀ s t : Rat, s ≤ t → id s ≤ id t := fun _ _ h => h

/-- consistent_expectile_score with a convex φ: φ′ is a subgradient, i.e. φ(y) ≥ φ(x) + φ′(x)(y − x) -/
theorem consistent_expectile_nonneg (φF φ'F : Fl → Fl) (φ φ' : Rat → Rat) (hφ : ∀ t, φF (fin t) = fin (φ t))
    (hφ' : ∀ t, φ'F (fin t) = fin (φ' t)) (hsub : ∀ x y, φ x + φ' x * (y - x) ≤ φ y) (α x y : Rat) (h0 : 0 < α) (h1 : α < 1) :
    ∃ s, G.consistent_expectile_score (fin x) (fin y) (fin α) φF φ'F = fin s ∧ 0 ≤ s ∧ (x = y → s = 0) :=
  ⟨ce α φ φ' x y, consistent_expectile_fin φF φ'F φ φ' hφ hφ' α x y,
   ce_nonneg (fun u v => by unfold bregman; linarith [hsub u v]) α x y h0.le h1.le, fun e => by rw [e]; exact ce_self α φ φ' y⟩
example : ∀ x y : Rat, x ^ 2 + 2 * x * (y - x) ≤ y ^ 2 := fun x y => by nlinarith [sq_nonneg (y - x)]

/-- consistent_huber_score with a convex φ and subgradient φ′ -/
theorem consistent_huber_nonneg (φF φ'F : Fl → Fl) (φ φ' : Rat → Rat) (hφ : ∀ t, φF (fin t) = fin (φ t))
    (hφ' : ∀ t, φ'F (fin t) = fin (φ' t)) (hsub : ∀ x y, φ x + φ' x * (y - x) ≤ φ y) (h x y : Rat) (hh : 0 < h) :
    ∃ s, G.consistent_huber_score (fin x) (fin y) (fin h) φF φ'F = fin s ∧ 0 ≤ s ∧ (x = y → s = 0) :=
  ⟨ch h φ φ' x y, consistent_huber_fin φF φ'F φ φ' hφ hφ' h x y,
   ch_nonneg (fun u v => by unfold bregman; linarith [hsub u v]) h x y hh, fun e => by rw [e]; exact ch_self h φ φ' y hh⟩

/-- the auxiliary functions of both weight shapes satisfy the hypotheses: g non-decreasing, φ convex with subgradient 4g -/
theorem tw_aux_admissible_rect (a b : Rat) (hab : a < b) :
    (∀ s t, s ≤ t → gRect a b s ≤ gRect a b t) ∧
    (∀ x y, phiRect a b x + 4 * gRect a b x * (y - x) ≤ phiRect a b y) :=
  ⟨gRect_mono a b hab, fun x y => by have := bregman_rect_nonneg a b hab x y; unfold bregman at this; linarith⟩
theorem tw_aux_admissible_trap (a b c d : Rat) (hab : a < b) (hbc : b < c) (hcd : c < d) :
    (∀ s t, s ≤ t → gTrap a b c d s ≤ gTrap a b c d t) ∧
    (∀ x y, phiTrap a b c d x + 4 * gTrap a b c d x * (y - x) ≤ phiTrap a b c d y) :=
  ⟨gTrap_mono a b c d hab hbc hcd, fun x y => by
    have := bregman_trap_nonneg a b c d hab hbc hcd x y; unfold bregman at this; linarith⟩

/-- every threshold-weighted score is a finite non-negative number, and 0 when forecast = observation -/
def AllFiveNonneg (gF φF φ'F : Fl → Fl) (x y : Rat) : Prop :=
  (∀ α, 0 < α → α < 1 → ∃ s, G.tw_quantile_score (fin x) (fin y) (fin α) gF = fin s ∧ 0 ≤ s ∧ (x = y → s = 0)) ∧
  (∃ s, G.tw_absolute_error (fin x) (fin y) gF = fin s ∧ 0 ≤ s ∧ (x = y → s = 0)) ∧
  (∀ α, 0 < α → α < 1 → ∃ s, G.tw_expectile_score (fin x) (fin y) (fin α) φF φ'F = fin s ∧ 0 ≤ s ∧ (x = y → s = 0)) ∧
  (∃ s, G.tw_squared_error (fin x) (fin y) φF φ'F = fin s ∧ 0 ≤ s ∧ (x = y → s = 0)) ∧
  (∀ h, 0 < h → ∃ s, G.tw_huber_loss (fin x) (fin y) (fin h) φF φ'F = fin s ∧ 0 ≤ s ∧ (x = y → s = 0))

theorem allFive_nonneg {gF φF φ'F : Fl → Fl} {g φ : Rat → Rat} (F : AuxFin gF φF φ'F g φ)
    (hmono : ∀ s t, s ≤ t → g s ≤ g t) (hsub : ∀ x y, 0 ≤ bregman φ (fun t => 4 * g t) x y) (x y : Rat) :
    AllFiveNonneg gF φF φ'F x y := by
  have half : (0 : Rat) ≤ 1 / 2 ∧ (1 / 2 : Rat) ≤ 1 := by norm_num
  refine ⟨fun α h0 h1 => ⟨_, tw_quantile_fin F α x y, cq_nonneg hmono α x y h0.le h1.le, fun e => by rw [e]; exact cq_self _ _ _⟩,
    ⟨_, tw_absolute_error_fin F x y, by have := cq_nonneg hmono (1 / 2) x y half.1 half.2; linarith,
      fun e => by rw [e, cq_self]; ring⟩,
    fun α h0 h1 => ⟨_, tw_expectile_fin F α x y, by have := ce_nonneg hsub α x y h0.le h1.le; linarith,
      fun e => by rw [e, ce_self]; ring⟩,
    ⟨_, tw_squared_error_fin F x y, ce_nonneg hsub (1 / 2) x y half.1 half.2, fun e => by rw [e, ce_self]⟩,
    fun h hh => ⟨_, tw_huber_fin F h x y, by have := ch_nonneg hsub h x y hh; linarith,
      fun e => by rw [e, ch_self _ _ _ _ hh]; ring⟩⟩

theorem tw_nonneg_rect (a b x y : Rat) (hab : a < b) :
    AllFiveNonneg (G.g_j_rect (fin a) (fin b)) (G.phi_j_rect (fin a) (fin b)) (G.phi_j_prime_rect (fin a) (fin b)) x y :=
  allFive_nonneg (auxFin_rect a b hab) (gRect_mono a b hab) (bregman_rect_nonneg a b hab) x y

theorem tw_nonneg_trap (a b c d x y : Rat) (hab : a < b) (hbc : b < c) (hcd : c < d) :
    AllFiveNonneg (G.g_j_trap (fin a) (fin b) (fin c) (fin d)) (G.phi_j_trap (fin a) (fin b) (fin c) (fin d))
      (G.phi_j_prime_trap (fin a) (fin b) (fin c) (fin d)) x y :=
  allFive_nonneg (auxFin_trap a b c d hab hbc hcd) (gTrap_mono a b c d hab hbc hcd) (bregman_trap_nonneg a b c d hab hbc hcd) x y
example : (0 : Rat) < 1 ∧ (1 : Rat) < 2 ∧ (2 : Rat) < 4 := by norm_num

/-! ## 7. sanity: concrete values (kernel-evaluated) -/

/-- rectangular weight on [1,2), forecast 3, observation 0: twMSE = 4∫_1^2 ½(θ − 0) dθ = 3 -/
example : G.tw_squared_error (fin 3) (fin 0) (G.phi_j_rect (fin 1) (fin 2)) (G.phi_j_prime_rect (fin 1) (fin 2)) = fin 3 := by
  decide +kernel
/-- … and so is the Spec integral (through the theorem; `mergeSort` does not reduce in the kernel) -/
example : twSquaredError (wRect 1 2) [1, 2] 3 0 = 3 := by
  have h := tw_squared_error_rect_eq_integral 1 2 3 0 (by norm_num)
  have e : G.tw_squared_error (fin 3) (fin 0) (G.phi_j_rect (fin 1) (fin 2)) (G.phi_j_prime_rect (fin 1) (fin 2)) = fin 3 := by
    decide +kernel
  exact Fl.fin.inj (h.symm.trans e)

/-
  Stretch statements not proved (kept as comments, no `sorry`):

  theorem bridge_interval_integral_stmt (f : ℝ → ℝ) … : ∫ θ in lo..hi, f θ = (Spec.Quad.integral f lo hi kinks : ℝ)
    for f a polynomial of degree ≤ 3 on each open cell (bridge to Mathlib's intervalIntegral; until then "Milne's rule is
    exact for cubics and integrals are additive" is a trusted mathematical fact).

  (`endpoint_replacement_model_trap` — the analogue of `endpoint_replacement_model_rect` for `Model.TW.auxTrap`, with the
    conclusion strengthened to "all five scores = the integrals against the true weight, at every position of mixed
    finite / infinite end-point arrays" — is PROVED in Props/C10Model.lean, together with the rectangular version
    `endpoint_replacement_model_rect_sound` and the counterexample for infinite data.)
-/

end SV.Props.C10
