/-
  C13 (stretch) — the ensemble Brier score on member LISTS of any length, its range, and the reason for the
  fair correction (unbiasedness).

  List semantics (the property's own: `Spec.Brier.eventCount / memberCount`): m = number of non-missing
  members, i = number of (non-missing) members meeting the event relation.  The theorems are about the assembled
  model case `Model.C13.ensCase` (translated kernels of Gen/Brier + counts over the member list) and about the
  translated per-case formula `Gen.Brier.brier_case`, through the closed form `scoreQ` below.
-/
import ScoresVerif.Props.C13
import ScoresVerif.Lemmas.C13Binomial
import Mathlib.Data.List.Perm.Basic
import Mathlib.Data.List.Perm.Lattice

set_option linter.unusedSimpArgs false

namespace SV.Props.C13
open SV SV.Fl SV.DiscL Finset
open SV.Gen.Brier (brier_case operator_rejected)
open SV.Spec.Brier (brierEns correction Rel4 eventCount memberCount)
open SV.Model.C13 (ensCase memberEventCount totalMemberCount)
open SV.Lemmas.C13Binomial (bw sum_bw sum_id_bw sum_ff2_bw)

/-! ## 0. The score as a rational number (at least one valid member). -/

/-- (i/m − y)² − [fair ∧ m > 1]·i(m−i)/(m²(m−1)) as a rational -/
def scoreQ (i m : Nat) (y : Rat) (fair : Bool) : Rat :=
  ((i : Rat) / (m : Rat) - y) ^ 2 - (if fair && decide (1 < m) then correction i m else 0)

theorem brierEns_eq_scoreQ (i m : Nat) (hm : m ≠ 0) (y : Rat) (fair : Bool) :
    brierEns i m y fair = fin (scoreQ i m y fair) := by
  unfold brierEns scoreQ
  simp only [hm, if_false]
  congr 1; ring

example : (3 : Nat) ≠ 0 := by omega

/-- the TRANSLATED per-case formula on counts 0 ≤ i ≤ m, m ≥ 1, is `scoreQ` -/
theorem brier_case_eq_scoreQ (i m : Nat) (hi : i ≤ m) (hm : m ≠ 0) (y : Rat) (fair : Bool) :
    brier_case (Fl.ofNat i) (Fl.ofNat m) (fin y) fair = fin (scoreQ i m y fair) := by
  rw [brier_case_eq_spec i m hi, brierEns_eq_scoreQ i m hm]

example : (1 : Nat) ≤ 3 ∧ (3 : Nat) ≠ 0 := by omega

/-! ## 1. From counts to member lists of ANY length. -/

theorem eventCount_le_memberCount (r : Rel4) (thr : Fl) (members : List Fl) :
    eventCount r thr members ≤ memberCount members := by
  unfold eventCount memberCount
  induction members with
  | nil => simp
  | cons a l ih =>
    simp only [List.filter_cons]
    have h : r.holds a thr = true → a.notNan = true := by
      intro h; cases r <;> cases a <;> simp_all [Rel4.holds, notNan, isNan]
    cases hp : r.holds a thr
    · cases a.notNan <;> simp <;> omega
    · simp [h hp]; omega

/-- i counts members "among the non-missing ones": deleting the missing members changes neither count -/
theorem counts_valid (r : Rel4) (thr : Fl) (members : List Fl) :
    eventCount r thr (members.filter Fl.notNan) = eventCount r thr members ∧
    memberCount (members.filter Fl.notNan) = memberCount members := by
  unfold eventCount memberCount
  rw [List.filter_filter, List.filter_filter]
  refine ⟨?_, ?_⟩
  · congr 1; apply List.filter_congr; intro a _
    cases r <;> cases a <;> simp [Rel4.holds, notNan, isNan]
  · congr 1; apply List.filter_congr; intro a _; simp

private theorem holds_compl (r : Rel4) (a thr : Fl) (ha : a.notNan = true) (ht : thr.notNan = true) :
    r.compl.holds a thr = !r.holds a thr := by
  cases r <;> cases a <;> cases thr <;>
    simp_all [Rel4.holds, Rel4.compl, Fl.ge, Fl.gt, Fl.le, Fl.lt, notNan, isNan]
  all_goals
    rw [← decide_not]; apply decide_eq_decide.mpr
    first | exact not_le.symm | exact not_lt.symm

private theorem holds_nan (r : Rel4) (a thr : Fl) (ha : a.notNan = false) : r.holds a thr = false := by
  cases r <;> cases a <;> simp_all [Rel4.holds, notNan, isNan]

/-- every valid member is counted by exactly one of a relation and its complement (valid threshold):
    i(r) + i(complement of r) = m, for every list -/
theorem eventCount_compl (r : Rel4) (thr : Fl) (hthr : thr.isNan = false) (members : List Fl) :
    eventCount r thr members + eventCount r.compl thr members = memberCount members := by
  have ht : thr.notNan = true := by simp [notNan, hthr]
  unfold eventCount memberCount
  induction members with
  | nil => rfl
  | cons a l ih =>
    simp only [List.filter_cons]
    cases hv : a.notNan
    · simp [holds_nan r a thr hv, holds_nan r.compl a thr hv, ih]
    · rw [holds_compl r a thr hv ht]
      cases r.holds a thr <;> simp <;> omega

example : (fin (1/2)).isNan = false := rfl

/-- the four operators are the only ones not rejected -/
theorem not_rejected (op : PyMode) (h : operator_rejected op = false) :
    ∃ r : Rel4, op = .op (opOf r) := by
  cases op with
  | str s => simp [operator_rejected, PyMode.inOps] at h
  | other => simp [operator_rejected, PyMode.inOps] at h
  | op o =>
    cases o
    · exact ⟨.ge, rfl⟩
    · exact ⟨.gt, rfl⟩
    · exact ⟨.le, rfl⟩
    · exact ⟨.lt, rfl⟩
    · exact absurd h (by decide)
    · exact absurd h (by decide)

example : operator_rejected (.op .lt) = false := by decide

/-- **permutation invariance**: the score of a case does not depend on the order of the ensemble members
    (any operator object, any list length, NaN members, ties) -/
theorem ensCase_perm (members members' : List Fl) (h : members.Perm members') (obs thr : Fl) (op : PyMode) (fair : Bool) :
    ensCase members obs thr op fair = ensCase members' obs thr op fair := by
  unfold ensCase memberEventCount totalMemberCount
  rw [(h.filter _).length_eq, (h.filter _).length_eq]

example : [fin 1, nan, fin 3].Perm [nan, fin 3, fin 1] := by decide

/-- **a NaN member is a deleted member**: the score is that of the ensemble with all missing members removed -/
theorem ensCase_drop_nan (members : List Fl) (obs thr : Fl) (op : PyMode) (fair : Bool) :
    ensCase members obs thr op fair = ensCase (members.filter Fl.notNan) obs thr op fair := by
  cases hr : operator_rejected op
  · obtain ⟨r, rfl⟩ := not_rejected op hr
    rw [ensCase_eq_spec, ensCase_eq_spec]
    unfold Spec.Brier.ensCase
    rw [(counts_valid r thr members).1, (counts_valid r thr members).2]
  · unfold ensCase; simp [hr]

/-- … in particular inserting a NaN member anywhere changes nothing -/
theorem ensCase_nan_member (l₁ l₂ : List Fl) (obs thr : Fl) (op : PyMode) (fair : Bool) :
    ensCase (l₁ ++ nan :: l₂) obs thr op fair = ensCase (l₁ ++ l₂) obs thr op fair := by
  rw [ensCase_drop_nan (l₁ ++ nan :: l₂), ensCase_drop_nan (l₁ ++ l₂)]
  simp [List.filter_append, List.filter_cons]

/-- **complementarity on lists**, on the property's own definition: the score for a relation on the event
    equals the score for the complementary relation (`>=` ↔ `<`, `>` ↔ `<=`), every threshold incl. ties -/
theorem spec_complement (r : Rel4) (members : List Fl) (obs thr : Fl) (fair : Bool) :
    Spec.Brier.ensCase r.compl members obs thr fair = Spec.Brier.ensCase r members obs thr fair := by
  have h1 := complement_ge_lt members obs thr fair
  have h2 := complement_gt_le members obs thr fair
  have e := fun r => ensCase_eq_spec r members obs thr fair
  have ege := e .ge; have egt := e .gt; have ele := e .le; have elt := e .lt
  simp only [opOf] at ege egt ele elt
  rw [ege, elt] at h1
  rw [egt, ele] at h2
  cases r <;> simp only [Rel4.compl]
  · exact (Except.ok.inj h1).symm
  · exact (Except.ok.inj h2).symm
  · exact Except.ok.inj h2
  · exact Except.ok.inj h1

/-- a case with a valid observation, a valid threshold and at least one valid member: the model's value is
    `scoreQ` of the two list counts and the observed event -/
theorem ensCase_scoreQ (r : Rel4) (members : List Fl) (obs thr : Fl) (hobs : obs.isNan = false) (hthr : thr.isNan = false)
    (hm : memberCount members ≠ 0) (fair : Bool) :
    ensCase members obs thr (.op (opOf r)) fair =
      .ok (fin (scoreQ (eventCount r thr members) (memberCount members) (if r.holds obs thr then 1 else 0) fair)) := by
  rw [ensCase_eq_spec]
  unfold Spec.Brier.ensCase
  simp only [hobs, hthr, Bool.or_self, Bool.false_eq_true, if_false]
  rw [brierEns_eq_scoreQ _ _ hm]

example : (fin (1/2)).isNan = false ∧ memberCount [fin 1, nan, fin 3] ≠ 0 := by decide

/-! ## 2. The fair correction: zero exactly for unanimous ensembles; fair ≤ unadjusted. -/

theorem correction_eq_zero_iff (i m : Nat) (hm : 1 < m) : correction i m = 0 ↔ (i = 0 ∨ i = m) := by
  unfold correction
  have hmq : (1 : Rat) < m := by exact_mod_cast hm
  have hd : (m : Rat) * m * ((m : Rat) - 1) ≠ 0 := by
    have : (0 : Rat) < (m : Rat) * m * ((m : Rat) - 1) := by
      have h1 : (0 : Rat) < (m : Rat) - 1 := by linarith
      have h2 : (0 : Rat) < (m : Rat) := by linarith
      positivity
    exact ne_of_gt this
  rw [div_eq_zero_iff]
  simp only [hd, or_false, mul_eq_zero, sub_eq_zero]
  constructor
  · rintro (h | h)
    · left; exact_mod_cast h
    · right; exact_mod_cast h.symm
  · rintro (h | h)
    · left; exact_mod_cast h
    · right; exact_mod_cast h.symm

example : (1 : Nat) < 3 := by omega

/-- the fair score never exceeds the unadjusted score … -/
theorem scoreQ_fair_le (i m : Nat) (hi : i ≤ m) (y : Rat) : scoreQ i m y true ≤ scoreQ i m y false := by
  unfold scoreQ
  by_cases hm : 1 < m
  · have := (correction_bounds i m hi hm).1
    simp [hm]; exact this
  · simp [hm]

example : (2 : Nat) ≤ 3 := by omega

/-- … with equality exactly when there is a single member or the members are unanimous (i = 0 or i = m) -/
theorem scoreQ_fair_eq_iff (i m : Nat) (hm : m ≠ 0) (y : Rat) :
    scoreQ i m y true = scoreQ i m y false ↔ (m = 1 ∨ i = 0 ∨ i = m) := by
  unfold scoreQ
  by_cases hm1 : 1 < m
  · have := correction_eq_zero_iff i m hm1
    simp only [Bool.true_and, hm1, decide_true, if_true, Bool.false_and, Bool.false_eq_true, if_false, sub_zero,
      sub_eq_self, this]
    constructor
    · intro h; exact Or.inr h
    · rintro (h | h)
      · omega
      · exact h
  · have : m = 1 := by omega
    simp [hm1, this]

example : (3 : Nat) ≠ 0 := by omega

/-- **on lists**: with a valid observation, threshold and at least one valid member, both scores are finite,
    fair ≤ unadjusted, and they coincide exactly when one valid member is left or all valid members agree on
    the event (none or all of them meet the relation) -/
theorem fair_le_unadjusted_list (r : Rel4) (members : List Fl) (obs thr : Fl) (hobs : obs.isNan = false)
    (hthr : thr.isNan = false) (hm : memberCount members ≠ 0) :
    ∃ a b : Rat, ensCase members obs thr (.op (opOf r)) true = .ok (fin a) ∧
      ensCase members obs thr (.op (opOf r)) false = .ok (fin b) ∧ a ≤ b ∧
      (a = b ↔ (memberCount members = 1 ∨ eventCount r thr members = 0 ∨ eventCount r thr members = memberCount members)) :=
  ⟨_, _, ensCase_scoreQ r members obs thr hobs hthr hm true, ensCase_scoreQ r members obs thr hobs hthr hm false,
    scoreQ_fair_le _ _ (eventCount_le_memberCount r thr members) _,
    scoreQ_fair_eq_iff _ _ hm _⟩

/-- concrete: unanimous ensemble (fair = unadjusted) and split ensemble (fair < unadjusted) -/
example : ensCase [fin 2, nan, fin 3] (fin 0) (fin 1) (.op .ge) true = .ok (fin 1) ∧
    ensCase [fin 2, nan, fin 3] (fin 0) (fin 1) (.op .ge) false = .ok (fin 1) := by decide +kernel
example : ensCase [fin 0, nan, fin 3] (fin 0) (fin 1) (.op .ge) true = .ok (fin 0) ∧
    ensCase [fin 0, nan, fin 3] (fin 0) (fin 1) (.op .ge) false = .ok (fin (1/4)) := by decide +kernel

/-! ## 3. Range. -/

/-- the unadjusted score of a binary observed event lies in [0, 1] -/
theorem scoreQ_unadjusted_range (i m : Nat) (hi : i ≤ m) (hm : m ≠ 0) (y : Rat) (hy : y = 0 ∨ y = 1) :
    0 ≤ scoreQ i m y false ∧ scoreQ i m y false ≤ 1 := by
  unfold scoreQ
  simp only [Bool.false_and, Bool.false_eq_true, if_false, sub_zero]
  have hmq : (0 : Rat) < m := by exact_mod_cast Nat.pos_of_ne_zero hm
  have hiq : (i : Rat) ≤ m := by exact_mod_cast hi
  have hi0 : (0 : Rat) ≤ i := by positivity
  have h0 : 0 ≤ (i : Rat) / m := div_nonneg hi0 hmq.le
  have h1 : (i : Rat) / m ≤ 1 := by rw [div_le_one hmq]; exact hiq
  refine ⟨sq_nonneg _, ?_⟩
  rcases hy with rfl | rfl <;> nlinarith

example : (2 : Nat) ≤ 3 ∧ (3 : Nat) ≠ 0 ∧ ((1 : Rat) = 0 ∨ (1 : Rat) = 1) := by norm_num

/-- the fair score of a NON-event (y = 0) in closed form: i(i−1)/(m(m−1)) — the fraction of ordered member
    pairs that both forecast the event -/
theorem scoreQ_fair_nonevent (i m : Nat) (hm : 1 < m) :
    scoreQ i m 0 true = (i : Rat) * ((i : Rat) - 1) / ((m : Rat) * ((m : Rat) - 1)) := by
  unfold scoreQ correction
  have hmq : (1 : Rat) < m := by exact_mod_cast hm
  have h1 : (m : Rat) - 1 ≠ 0 := by linarith
  have h2 : (m : Rat) ≠ 0 := by linarith
  simp only [Bool.true_and, hm, decide_true, if_true]
  field_simp
  ring

/-- the fair score of an event (y = 1): (m−i)(m−i−1)/(m(m−1)) -/
theorem scoreQ_fair_event (i m : Nat) (hm : 1 < m) :
    scoreQ i m 1 true = ((m : Rat) - i) * ((m : Rat) - i - 1) / ((m : Rat) * ((m : Rat) - 1)) := by
  unfold scoreQ correction
  have hmq : (1 : Rat) < m := by exact_mod_cast hm
  have h1 : (m : Rat) - 1 ≠ 0 := by linarith
  have h2 : (m : Rat) ≠ 0 := by linarith
  simp only [Bool.true_and, hm, decide_true, if_true]
  field_simp
  ring

example : (1 : Nat) < 3 := by omega

private theorem nat_mul_pred_nonneg (k : Nat) : (0 : Rat) ≤ (k : Rat) * ((k : Rat) - 1) := by
  rcases Nat.eq_zero_or_pos k with rfl | h
  · simp
  · have : (1 : Rat) ≤ k := by exact_mod_cast h
    nlinarith

/-- **range of the fair score for a binary observed event: [0, 1]** — although the correction is subtracted,
    the fair score of a case is never negative when the observation is an event or a non-event; the lower
    bound 0 is sharp for every m (i = 0 and i = 1 with y = 0), as is the upper bound 1 (i = m, y = 0) -/
theorem scoreQ_fair_range (i m : Nat) (hi : i ≤ m) (hm : 1 < m) (y : Rat) (hy : y = 0 ∨ y = 1) :
    0 ≤ scoreQ i m y true ∧ scoreQ i m y true ≤ 1 := by
  have hmq : (1 : Rat) < m := by exact_mod_cast hm
  have hd : (0 : Rat) < (m : Rat) * ((m : Rat) - 1) := by nlinarith
  have hiq : (i : Rat) ≤ m := by exact_mod_cast hi
  have hi0 : (0 : Rat) ≤ i := by positivity
  constructor
  · rcases hy with rfl | rfl
    · rw [scoreQ_fair_nonevent i m hm]
      exact div_nonneg (nat_mul_pred_nonneg i) hd.le
    · rw [scoreQ_fair_event i m hm]
      have := nat_mul_pred_nonneg (m - i)
      rw [Nat.cast_sub hi] at this
      exact div_nonneg this hd.le
  · have h1 := scoreQ_fair_le i m hi y
    have h2 := (scoreQ_unadjusted_range i m hi (by omega) y hy).2
    linarith

example : (2 : Nat) ≤ 3 ∧ 1 < 3 ∧ ((0 : Rat) = 0 ∨ (0 : Rat) = 1) := by norm_num

/-- sharpness of 0 and 1, every m ≥ 2 -/
theorem scoreQ_fair_range_sharp (m : Nat) (hm : 1 < m) :
    scoreQ 0 m 0 true = 0 ∧ scoreQ 1 m 0 true = 0 ∧ scoreQ m m 0 true = 1 := by
  have hmq : (1 : Rat) < m := by exact_mod_cast hm
  have hd : (m : Rat) * ((m : Rat) - 1) ≠ 0 := by
    have : (0 : Rat) < (m : Rat) * ((m : Rat) - 1) := by nlinarith
    exact ne_of_gt this
  refine ⟨?_, ?_, ?_⟩
  · rw [scoreQ_fair_nonevent 0 m hm]; simp
  · rw [scoreQ_fair_nonevent 1 m hm]; simp
  · rw [scoreQ_fair_nonevent m m hm]; exact div_self hd

example : (1 : Nat) < 2 := by omega

/-- the product i(m−i) is at most ⌊m²/4⌋ -/
theorem mul_sub_le_quarter (i m : Nat) (hi : i ≤ m) : i * (m - i) ≤ m * m / 4 := by
  obtain ⟨j, rfl⟩ := Nat.exists_eq_add_of_le hi
  rw [Nat.add_sub_cancel_left, Nat.le_div_iff_mul_le (by norm_num)]
  rcases le_total i j with h | h
  · obtain ⟨d, rfl⟩ := Nat.exists_eq_add_of_le h
    exact Nat.le.intro (k := d * d) (by ring)
  · obtain ⟨d, rfl⟩ := Nat.exists_eq_add_of_le h
    exact Nat.le.intro (k := d * d) (by ring)

example : (2 : Nat) ≤ 5 ∧ 2 * (5 - 2) ≤ 5 * 5 / 4 := by decide

/-- **sharp lower bound of the per-case formula for an ARBITRARY comparison value y** (the formula
    `brier_case` accepts any y; the model only feeds 0 / 1): fair score ≥ −⌊m²/4⌋ / (m²(m−1)), i.e.
    −1/(4(m−1)) for even m and −(m+1)/(4m²) for odd m -/
theorem scoreQ_fair_lower (i m : Nat) (hi : i ≤ m) (hm : 1 < m) (y : Rat) :
    -(((m * m / 4 : Nat) : Rat) / ((m : Rat) * m * ((m : Rat) - 1))) ≤ scoreQ i m y true := by
  unfold scoreQ correction
  simp only [Bool.true_and, hm, decide_true, if_true]
  have hmq : (1 : Rat) < m := by exact_mod_cast hm
  have hd : (0 : Rat) < (m : Rat) * m * ((m : Rat) - 1) := by
    have h1 : (0 : Rat) < (m : Rat) - 1 := by linarith
    have h2 : (0 : Rat) < (m : Rat) := by linarith
    positivity
  have hq : ((i * (m - i) : Nat) : Rat) ≤ ((m * m / 4 : Nat) : Rat) := by exact_mod_cast mul_sub_le_quarter i m hi
  rw [Nat.cast_mul, Nat.cast_sub hi] at hq
  have h3 : (i : Rat) * ((m : Rat) - i) / ((m : Rat) * m * ((m : Rat) - 1)) ≤
      ((m * m / 4 : Nat) : Rat) / ((m : Rat) * m * ((m : Rat) - 1)) := div_le_div_of_nonneg_right hq hd.le
  have h4 := sq_nonneg ((i : Rat) / m - y)
  linarith

example : (1 : Nat) ≤ 3 ∧ 1 < 3 := by omega

/-- attained for m = 2 (i = 1, y = 1/2: −1/4) and m = 3 (i = 1, y = 1/3: −1/9), m = 4 (i = 2, y = 1/2: −1/12) -/
theorem scoreQ_fair_lower_attained :
    scoreQ 1 2 (1/2) true = -(((2 * 2 / 4 : Nat) : Rat) / ((2 : Nat) * (2 : Nat) * (((2 : Nat) : Rat) - 1))) ∧
    scoreQ 1 3 (1/3) true = -(((3 * 3 / 4 : Nat) : Rat) / ((3 : Nat) * (3 : Nat) * (((3 : Nat) : Rat) - 1))) ∧
    scoreQ 2 4 (1/2) true = -(((4 * 4 / 4 : Nat) : Rat) / ((4 : Nat) * (4 : Nat) * (((4 : Nat) : Rat) - 1))) ∧
    scoreQ 1 2 (1/2) true = -(1/4) ∧ scoreQ 1 3 (1/3) true = -(1/9) ∧ scoreQ 2 4 (1/2) true = -(1/12) := by
  refine ⟨?_, ?_, ?_, ?_, ?_, ?_⟩ <;> decide +kernel

theorem half_mul_sub_half (m : Nat) : (m / 2) * (m - m / 2) = m * m / 4 := by
  rcases Nat.even_or_odd' m with ⟨k, rfl | rfl⟩
  · have h1 : 2 * k / 2 = k := by omega
    have h2 : 2 * k - k = k := by omega
    have h3 : 2 * k * (2 * k) = 4 * (k * k) := by ring
    rw [h1, h2, h3, Nat.mul_div_cancel_left _ (by norm_num)]
  · have h1 : (2 * k + 1) / 2 = k := by omega
    have h2 : 2 * k + 1 - k = k + 1 := by omega
    have h3 : (2 * k + 1) * (2 * k + 1) = 4 * (k * (k + 1)) + 1 := by ring
    rw [h1, h2, h3]
    omega

/-- … and for EVERY m ≥ 2 the bound is attained by an evenly split ensemble scored against its own event
    fraction: i = ⌊m/2⌋, y = i/m — so −⌊m²/4⌋/(m²(m−1)) is the exact minimum of the fair per-case formula -/
theorem scoreQ_fair_lower_attained_all (m : Nat) (hm : 1 < m) :
    scoreQ (m / 2) m (((m / 2 : Nat) : Rat) / m) true = -(((m * m / 4 : Nat) : Rat) / ((m : Rat) * m * ((m : Rat) - 1))) := by
  unfold scoreQ correction
  simp only [Bool.true_and, hm, decide_true, if_true, sub_self]
  have h : (((m / 2 : Nat) : Rat)) * ((m : Rat) - ((m / 2 : Nat) : Rat)) = ((m * m / 4 : Nat) : Rat) := by
    rw [← half_mul_sub_half m, Nat.cast_mul, Nat.cast_sub (Nat.div_le_self m 2)]
  rw [h]
  ring

example : (1 : Nat) < 5 := by omega

/-- the same on the translated formula -/
example : brier_case (fin 1) (fin 2) (fin (1/2)) true = fin (-(1/4)) := by decide +kernel
example : brier_case (fin 1) (fin 3) (fin (1/3)) true = fin (-(1/9)) := by decide +kernel

/-- **range on lists**: a case with a valid observation, threshold and ≥ 1 valid member scores in [0, 1],
    fair or not, for each of the four operators and ensembles of any size -/
theorem ensCase_range (r : Rel4) (members : List Fl) (obs thr : Fl) (hobs : obs.isNan = false)
    (hthr : thr.isNan = false) (hm : memberCount members ≠ 0) (fair : Bool) :
    ∃ a : Rat, ensCase members obs thr (.op (opOf r)) fair = .ok (fin a) ∧ 0 ≤ a ∧ a ≤ 1 := by
  refine ⟨_, ensCase_scoreQ r members obs thr hobs hthr hm fair, ?_⟩
  have hi := eventCount_le_memberCount r thr members
  have hy : ((if r.holds obs thr = true then 1 else 0 : Rat) = 0 ∨ (if r.holds obs thr = true then 1 else 0 : Rat) = 1) := by
    cases r.holds obs thr <;> simp
  cases fair
  · exact scoreQ_unadjusted_range _ _ hi hm _ hy
  · by_cases h1 : 1 < memberCount members
    · exact scoreQ_fair_range _ _ hi h1 _ hy
    · have h := scoreQ_unadjusted_range _ _ hi hm _ hy
      have e := (scoreQ_fair_eq_iff (eventCount r thr members) _ hm (if r.holds obs thr = true then 1 else 0)).mpr (Or.inl (by omega))
      rw [e]; exact h

example : (fin (3/4)).isNan = false ∧ (fin (1/2)).isNan = false ∧ memberCount [fin 1, nan] ≠ 0 := by decide +kernel

/-! ## 4. Why the correction: the fair score is unbiased for the Brier score of the underlying probability.

  If each of the m members forecasts the event independently with probability p, the count i has weights
  C(m,i) pⁱ (1−p)^(m−i).  Stated without probability theory, as a polynomial identity in p. -/

/-- the fair score is a polynomial of degree 2 in the count: y² − 2y·i/m + i(i−1)/(m(m−1)) -/
theorem scoreQ_fair_poly (i m : Nat) (hm : 1 < m) (y : Rat) :
    scoreQ i m y true = y ^ 2 - 2 * y / m * i + 1 / ((m : Rat) * ((m : Rat) - 1)) * ((i : Rat) * ((i : Rat) - 1)) := by
  unfold scoreQ correction
  have hmq : (1 : Rat) < m := by exact_mod_cast hm
  have h1 : (m : Rat) - 1 ≠ 0 := by linarith
  have h2 : (m : Rat) ≠ 0 := by linarith
  simp only [Bool.true_and, hm, decide_true, if_true]
  field_simp
  ring

example : (1 : Nat) < 4 := by omega

private theorem fair_unbiased_aux (n : Nat) (p y : Rat) :
    ∑ i ∈ range (n + 3), bw p (1 - p) (n + 2) i * scoreQ i (n + 2) y true = (p - y) ^ 2 := by
  have h1 : p + (1 - p) = 1 := by ring
  have e0 := sum_bw p (1 - p) (n + 2)
  have e1 := sum_id_bw p (1 - p) (n + 1)
  have e2 := sum_ff2_bw p (1 - p) n
  rw [h1, one_pow] at e0 e1 e2
  rw [show n + 1 + 2 = n + 3 from rfl, show n + 1 + 1 = n + 2 from rfl] at e1
  rw [show n + 2 + 1 = n + 3 from rfl] at e0
  push_cast at e1
  have hterm : ∀ i ∈ range (n + 3), bw p (1 - p) (n + 2) i * scoreQ i (n + 2) y true =
      y ^ 2 * bw p (1 - p) (n + 2) i - 2 * y / ((n : Rat) + 2) * ((i : Rat) * bw p (1 - p) (n + 2) i)
        + 1 / (((n : Rat) + 2) * ((n : Rat) + 2 - 1)) * ((i : Rat) * ((i : Rat) - 1) * bw p (1 - p) (n + 2) i) := by
    intro i _
    rw [scoreQ_fair_poly i (n + 2) (by omega)]
    push_cast
    ring
  rw [sum_congr rfl hterm, sum_add_distrib, sum_sub_distrib, ← mul_sum, ← mul_sum, ← mul_sum, e0, e1, e2]
  have hn2 : (n : Rat) + 2 ≠ 0 := by positivity
  have hn1 : (n : Rat) + 2 - 1 ≠ 0 := by
    have : (0 : Rat) ≤ n := by positivity
    linarith
  field_simp
  ring

/-- **the fair score is unbiased**: for every ensemble size m ≥ 2, every p and every y,
    Σᵢ C(m,i) pⁱ (1−p)^(m−i) · fair(i, m, y) = (p − y)² -/
theorem fair_unbiased (m : Nat) (hm : 2 ≤ m) (p y : Rat) :
    ∑ i ∈ range (m + 1), (m.choose i : Rat) * p ^ i * (1 - p) ^ (m - i) * scoreQ i m y true = (p - y) ^ 2 := by
  obtain ⟨n, rfl⟩ := Nat.exists_eq_add_of_le hm
  have := fair_unbiased_aux n p y
  rw [show 2 + n = n + 2 from Nat.add_comm 2 n]
  exact this

example : (2 : Nat) ≤ 5 := by omega

/-- … stated on the TRANSLATED formula: whatever finite values `brier_case` returns on the counts 0..m with the
    fair correction on, their binomially weighted sum is (p − y)² -/
theorem fair_unbiased_gen (m : Nat) (hm : 2 ≤ m) (p y : Rat) (s : Nat → Rat)
    (hs : ∀ i ≤ m, brier_case (Fl.ofNat i) (Fl.ofNat m) (fin y) true = fin (s i)) :
    ∑ i ∈ range (m + 1), (m.choose i : Rat) * p ^ i * (1 - p) ^ (m - i) * s i = (p - y) ^ 2 := by
  rw [← fair_unbiased m hm p y]
  apply sum_congr rfl
  intro i hi
  have hi' : i ≤ m := by have := mem_range.mp hi; omega
  have := hs i hi'
  rw [brier_case_eq_scoreQ i m hi' (by omega)] at this
  rw [Fl.fin.inj this]

/-- the hypothesis of `fair_unbiased_gen` is satisfiable (by `scoreQ`, for every m ≥ 1) -/
example (y : Rat) : ∀ i ≤ 4, brier_case (Fl.ofNat i) (Fl.ofNat 4) (fin y) true = fin (scoreQ i 4 y true) :=
  fun i hi => brier_case_eq_scoreQ i 4 hi (by omega) y true

/-- **the unadjusted score is biased** by exactly p(1−p)/m (m ≥ 1):
    Σᵢ C(m,i) pⁱ (1−p)^(m−i) · (i/m − y)² = (p − y)² + p(1−p)/m -/
theorem unadjusted_bias (m : Nat) (hm : 1 ≤ m) (p y : Rat) :
    ∑ i ∈ range (m + 1), (m.choose i : Rat) * p ^ i * (1 - p) ^ (m - i) * scoreQ i m y false
      = (p - y) ^ 2 + p * (1 - p) / m := by
  obtain ⟨n, rfl⟩ := Nat.exists_eq_add_of_le hm
  rw [show 1 + n = n + 1 from Nat.add_comm 1 n]
  have h1 : p + (1 - p) = 1 := by ring
  have e0 := sum_bw p (1 - p) (n + 1)
  have e1 := sum_id_bw p (1 - p) n
  rw [h1, one_pow] at e0 e1
  have hn1 : (n : Rat) + 1 ≠ 0 := by positivity
  -- second raw moment of the count: Σ i² w = (n+1) n p² + (n+1) p
  have e2 : ∑ i ∈ range (n + 2), (i : Rat) * ((i : Rat) - 1) * bw p (1 - p) (n + 1) i = ((n : Rat) + 1) * n * p ^ 2 := by
    rcases Nat.eq_zero_or_pos n with rfl | hpos
    · simp [sum_range_succ, bw]
    · obtain ⟨k, rfl⟩ := Nat.exists_eq_add_of_le hpos
      have := sum_ff2_bw p (1 - p) k
      rw [h1, one_pow] at this
      rw [show 1 + k = k + 1 from Nat.add_comm 1 k, show k + 1 + 2 = k + 3 from rfl, show k + 1 + 1 = k + 2 from rfl, this]
      push_cast; ring
  have hterm : ∀ i ∈ range (n + 2), ((n + 1).choose i : Rat) * p ^ i * (1 - p) ^ (n + 1 - i) * scoreQ i (n + 1) y false =
      y ^ 2 * bw p (1 - p) (n + 1) i - 2 * y / ((n : Rat) + 1) * ((i : Rat) * bw p (1 - p) (n + 1) i)
        + 1 / (((n : Rat) + 1) ^ 2) * ((i : Rat) * ((i : Rat) - 1) * bw p (1 - p) (n + 1) i)
        + 1 / (((n : Rat) + 1) ^ 2) * ((i : Rat) * bw p (1 - p) (n + 1) i) := by
    intro i _
    unfold scoreQ bw
    simp only [Bool.false_and, Bool.false_eq_true, if_false, sub_zero]
    push_cast
    field_simp
    ring
  rw [show n + 1 + 1 = n + 2 from rfl] at e0 ⊢
  rw [sum_congr rfl hterm, sum_add_distrib, sum_add_distrib, sum_sub_distrib, ← mul_sum, ← mul_sum, ← mul_sum, ← mul_sum,
    e0, e1, e2]
  push_cast
  field_simp
  ring

example : (1 : Nat) ≤ 1 := by omega

end SV.Props.C13
