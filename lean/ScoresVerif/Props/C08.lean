/-
  C08 — discretisation and contingency counts classify every valid pair exactly once.

  The theorems are about `SV.Gen.Discretise.*` (relation chain and mode tables of
  `comparative_discretise`, event tables of `ThresholdEventOperator`) and `SV.Gen.Contingency.map_*`
  (the four boolean maps of `BinaryContingencyManager`), all REGENERATED from /repo on every run, summed by
  the list-level model `SV.Model.C08`.
-/
import ScoresVerif.Gen.Discretise
import ScoresVerif.Gen.Contingency
import ScoresVerif.Model.C08
import ScoresVerif.Spec.Discretise
import ScoresVerif.Lemmas.FlBasic
import ScoresVerif.Lemmas.Discretise

namespace SV.Props.C08
open SV SV.Fl SV.DiscL
open SV.Spec.Discretise (Rel holds near disc event Counts countBy countSpec countEvents bothValid)
open SV.Gen.Discretise (comparative_discretise comparative_discretise_kernel abs_tolerance_sanitised
  INEQUALITY_MODES EQUALITY_MODES events_make_contingency_manager events_make_event_tables)
open SV.Gen.Contingency (map_tp map_tn map_fp map_fn)
open SV.Model.C08 (Table tableOfEvents tableOfThreshold)

/-! ## 1. The relation table: for every mode and every tolerance `t ≥ 0` the discretised value of finite
    data is 1 exactly where `x <rel> c` holds when values within `t` of the threshold count as equal. -/

private theorem near_iff (x c t : Rat) : near x c t = true ↔ (-t ≤ x - c ∧ x - c ≤ t) := by
  unfold near; rw [decide_eq_true_iff, rabs_eq_abs, abs_le]

private theorem san_some (t : Rat) (ht : 0 ≤ t) : abs_tolerance_sanitised (some (fin t)) = .ok (fin t) := by
  unfold abs_tolerance_sanitised
  simp [not_lt.mpr ht]; rfl

private theorem san_none : abs_tolerance_sanitised none = .ok (fin 0) := by
  unfold abs_tolerance_sanitised; simp; rfl

private theorem cd_some (d c : Fl) (m : PyMode) (t : Rat) (ht : 0 ≤ t) :
    comparative_discretise d c m (some (fin t)) = comparative_discretise_kernel d c m (fin t) := by
  unfold comparative_discretise; rw [san_some t ht]; rfl

/-- omitting `abs_tolerance` (or passing `None`) is tolerance 0 -/
theorem tol_none_eq_zero (d c : Fl) (m : PyMode) :
    comparative_discretise d c m none = comparative_discretise d c m (some (fin 0)) := by
  rw [cd_some d c m 0 (le_refl 0)]; unfold comparative_discretise; rw [san_none]; rfl

theorem mode_table_ge (x c t : Rat) (ht : 0 ≤ t) :
    comparative_discretise (fin x) (fin c) (.str ">=") (some (fin t)) = .ok (ofBool (holds .ge x c t)) := by
  rw [cd_some _ _ _ t ht]
  have h1 : PyMode.inKeys (.str ">=") INEQUALITY_MODES = true := by decide
  have h2 : PyMode.lookup (.str ">=") INEQUALITY_MODES = (PyOp.ge, neg (fin 1)) := by decide
  unfold comparative_discretise_kernel
  simp only [h1, h2, if_true]
  simp [PyOp.apply, whereB, holds, notNan, isNan, ofBool]
  trace_state
  sorry

end SV.Props.C08
