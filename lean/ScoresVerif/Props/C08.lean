/-
  C08 — discretisation and contingency counts classify every valid pair exactly once.

  The theorems are about `SV.Gen.Discretise.*` (relation chain and mode tables of
  `comparative_discretise`, event tables of `ThresholdEventOperator`) and `SV.Gen.Contingency.map_*`
  (the four boolean maps of `BinaryContingencyManager`), all REGENERATED from /repo on every run, summed by
  the list-level model `SV.Model.C08`.
-/
import ScoresVerif.Gen.Discretise
import ScoresVerif.Gen.Contingency
import ScoresVerif.Model.C08
import ScoresVerif.Spec.Discretise
import ScoresVerif.Lemmas.FlBasic
import ScoresVerif.Lemmas.Discretise

set_option linter.unusedSimpArgs false

namespace SV.Props.C08
open SV SV.Fl SV.DiscL
open SV.Spec.Discretise (Rel holds near disc discX event Counts countBy countSpec countEvents bothValid)
open SV.Gen.Discretise (comparative_discretise comparative_discretise_kernel abs_tolerance_sanitised
  INEQUALITY_MODES EQUALITY_MODES events_make_contingency_manager events_make_event_tables)
open SV.Gen.Contingency (map_tp map_tn map_fp map_fn)
open SV.Model.C08 (Table tableOfEvents tableOfThreshold)

/-! ## 1. The relation table: for every mode and every tolerance `t ≥ 0` the discretised value of finite
    data is 1 exactly where `x <rel> c` holds when values within `t` of the threshold count as equal. -/

private theorem near_iff (x c t : Rat) : near x c t = true ↔ (-t ≤ x - c ∧ x - c ≤ t) := by
  unfold near; rw [decide_eq_true_iff, rabs_eq_abs, abs_le]

private theorem san_some (t : Rat) (ht : 0 ≤ t) : abs_tolerance_sanitised (some (fin t)) = .ok (fin t) := by
  unfold abs_tolerance_sanitised
  simp [not_lt.mpr ht]; rfl

private theorem san_none : abs_tolerance_sanitised none = .ok (fin 0) := by
  unfold abs_tolerance_sanitised; simp; rfl

private theorem cd_some (d c : Fl) (m : PyMode) (t : Rat) (ht : 0 ≤ t) :
    comparative_discretise d c m (some (fin t)) = comparative_discretise_kernel d c m (fin t) := by
  unfold comparative_discretise; rw [san_some t ht]; rfl

/-- omitting `abs_tolerance` (or passing `None`) is tolerance 0 -/
theorem tol_none_eq_zero (d c : Fl) (m : PyMode) :
    comparative_discretise d c m none = comparative_discretise d c m (some (fin 0)) := by
  rw [cd_some d c m 0 (le_refl 0)]; unfold comparative_discretise; rw [san_none]; rfl

private theorem ite_ok {P Q : Prop} [Decidable P] [Decidable Q] (h : P ↔ Q) :
    (pure (if P then fin 1 else fin 0) : Except String Fl) = .ok (if Q then fin 1 else fin 0) := by
  simp only [h]; rfl

private theorem keys_ge : PyMode.inKeys (.str ">=") INEQUALITY_MODES = true := by decide
private theorem keys_gt : PyMode.inKeys (.str ">") INEQUALITY_MODES = true := by decide
private theorem keys_le : PyMode.inKeys (.str "<=") INEQUALITY_MODES = true := by decide
private theorem keys_lt : PyMode.inKeys (.str "<") INEQUALITY_MODES = true := by decide
private theorem keys_eq : PyMode.inKeys (.str "==") INEQUALITY_MODES = false := by decide
private theorem keys_ne : PyMode.inKeys (.str "!=") INEQUALITY_MODES = false := by decide
private theorem ekeys_eq : PyMode.inKeys (.str "==") EQUALITY_MODES = true := by decide
private theorem ekeys_ne : PyMode.inKeys (.str "!=") EQUALITY_MODES = true := by decide
private theorem look_ge : PyMode.lookup (.str ">=") INEQUALITY_MODES = (PyOp.ge, neg (fin 1)) := by decide
private theorem look_gt : PyMode.lookup (.str ">") INEQUALITY_MODES = (PyOp.gt, fin 1) := by decide
private theorem look_le : PyMode.lookup (.str "<=") INEQUALITY_MODES = (PyOp.le, fin 1) := by decide
private theorem look_lt : PyMode.lookup (.str "<") INEQUALITY_MODES = (PyOp.lt, neg (fin 1)) := by decide
private theorem look_eq : PyMode.lookup (.str "==") EQUALITY_MODES = PyOp.le := by decide
private theorem look_ne : PyMode.lookup (.str "!=") EQUALITY_MODES = PyOp.gt := by decide

theorem mode_table_ge (x c t : Rat) (ht : 0 ≤ t) :
    comparative_discretise (fin x) (fin c) (.str ">=") (some (fin t)) = .ok (ofBool (holds .ge x c t)) := by
  rw [cd_some _ _ _ t ht]; unfold comparative_discretise_kernel
  simp only [keys_ge, look_ge, if_true]
  simp [PyOp.apply, whereB, holds, notNan, isNan, ofBool]
  apply ite_ok; rw [near_iff]
  constructor
  · intro h; by_cases h' : c < x
    · exact Or.inl h'
    · exact Or.inr ⟨by linarith, by linarith⟩
  · rintro (h | ⟨h, _⟩) <;> linarith

theorem mode_table_gt (x c t : Rat) (ht : 0 ≤ t) :
    comparative_discretise (fin x) (fin c) (.str ">") (some (fin t)) = .ok (ofBool (holds .gt x c t)) := by
  rw [cd_some _ _ _ t ht]; unfold comparative_discretise_kernel
  simp only [keys_gt, look_gt, if_true]
  simp [PyOp.apply, whereB, holds, notNan, isNan, ofBool]
  apply ite_ok; rw [← Bool.not_eq_true, near_iff]
  constructor
  · intro h; exact ⟨by linarith, fun ⟨_, h2⟩ => by linarith⟩
  · rintro ⟨h1, h2⟩; by_contra h3; exact h2 ⟨by linarith, by linarith⟩

theorem mode_table_le (x c t : Rat) (ht : 0 ≤ t) :
    comparative_discretise (fin x) (fin c) (.str "<=") (some (fin t)) = .ok (ofBool (holds .le x c t)) := by
  rw [cd_some _ _ _ t ht]; unfold comparative_discretise_kernel
  simp only [keys_le, look_le, if_true]
  simp [PyOp.apply, whereB, holds, notNan, isNan, ofBool]
  apply ite_ok; rw [near_iff]
  constructor
  · intro h; by_cases h' : x < c
    · exact Or.inl h'
    · exact Or.inr ⟨by linarith, by linarith⟩
  · rintro (h | ⟨_, h⟩) <;> linarith

theorem mode_table_lt (x c t : Rat) (ht : 0 ≤ t) :
    comparative_discretise (fin x) (fin c) (.str "<") (some (fin t)) = .ok (ofBool (holds .lt x c t)) := by
  rw [cd_some _ _ _ t ht]; unfold comparative_discretise_kernel
  simp only [keys_lt, look_lt, if_true]
  simp [PyOp.apply, whereB, holds, notNan, isNan, ofBool]
  apply ite_ok; rw [← Bool.not_eq_true, near_iff]
  constructor
  · intro h; exact ⟨by linarith, fun ⟨h2, _⟩ => by linarith⟩
  · rintro ⟨h1, h2⟩; by_contra h3; exact h2 ⟨by linarith, by linarith⟩

theorem mode_table_eq (x c t : Rat) (ht : 0 ≤ t) :
    comparative_discretise (fin x) (fin c) (.str "==") (some (fin t)) = .ok (ofBool (holds .eq x c t)) := by
  rw [cd_some _ _ _ t ht]; unfold comparative_discretise_kernel
  simp only [keys_eq, ekeys_eq, look_eq, if_true]
  simp [PyOp.apply, whereB, holds, notNan, isNan, ofBool]
  apply ite_ok; rw [near_iff, abs_le]

theorem mode_table_ne (x c t : Rat) (ht : 0 ≤ t) :
    comparative_discretise (fin x) (fin c) (.str "!=") (some (fin t)) = .ok (ofBool (holds .ne x c t)) := by
  rw [cd_some _ _ _ t ht]; unfold comparative_discretise_kernel
  simp only [keys_ne, ekeys_ne, look_ne, if_true]
  simp [PyOp.apply, whereB, holds, notNan, isNan, ofBool]
  apply ite_ok; rw [← Bool.not_eq_true, near_iff, ← abs_le, not_le]

/-- the whole relation table at once (string spelling) -/
theorem mode_table (r : Rel) (x c t : Rat) (ht : 0 ≤ t) :
    comparative_discretise (fin x) (fin c) (.str r.str) (some (fin t)) = .ok (ofBool (holds r x c t)) := by
  cases r
  · exact mode_table_ge x c t ht
  · exact mode_table_gt x c t ht
  · exact mode_table_le x c t ht
  · exact mode_table_lt x c t ht
  · exact mode_table_eq x c t ht
  · exact mode_table_ne x c t ht

example : (0 : Rat) ≤ 1/4 := by norm_num
example : comparative_discretise (fin (3/4)) (fin 1) (.str ">=") (some (fin (1/4))) = .ok (fin 1) := by
  rw [mode_table_ge _ _ _ (by norm_num)]; decide +kernel

/-! ## 2. The two spellings of each mode are the same function — for ALL data and comparison values
    (NaN, infinities) and every `abs_tolerance` argument (absent, negative, NaN, …). -/

section spelling
variable (d c : Fl) (tol : Option Fl)

private theorem spelling_aux (s : String) (o : PyOp)
    (h : ∀ t, comparative_discretise_kernel d c (.str s) t = comparative_discretise_kernel d c (.op o) t) :
    comparative_discretise d c (.str s) tol = comparative_discretise d c (.op o) tol := by
  unfold comparative_discretise
  cases abs_tolerance_sanitised tol with
  | error e => rfl
  | ok t => exact h t

theorem string_eq_operator_ge : comparative_discretise d c (.str ">=") tol = comparative_discretise d c (.op .ge) tol := by
  apply spelling_aux; intro t; unfold comparative_discretise_kernel
  simp only [keys_ge, look_ge, if_true]
  simp [PyMode.inKeys, PyMode.isOp, PyMode.inOps, PyMode.call]

theorem string_eq_operator_gt : comparative_discretise d c (.str ">") tol = comparative_discretise d c (.op .gt) tol := by
  apply spelling_aux; intro t; unfold comparative_discretise_kernel
  simp only [keys_gt, look_gt, if_true]
  simp [PyMode.inKeys, PyMode.isOp, PyMode.inOps, PyMode.call]

theorem string_eq_operator_le : comparative_discretise d c (.str "<=") tol = comparative_discretise d c (.op .le) tol := by
  apply spelling_aux; intro t; unfold comparative_discretise_kernel
  simp only [keys_le, look_le, if_true]
  simp [PyMode.inKeys, PyMode.isOp, PyMode.inOps, PyMode.call]

theorem string_eq_operator_lt : comparative_discretise d c (.str "<") tol = comparative_discretise d c (.op .lt) tol := by
  apply spelling_aux; intro t; unfold comparative_discretise_kernel
  simp only [keys_lt, look_lt, if_true]
  simp [PyMode.inKeys, PyMode.isOp, PyMode.inOps, PyMode.call]

theorem string_eq_operator_eq : comparative_discretise d c (.str "==") tol = comparative_discretise d c (.op .eq) tol := by
  apply spelling_aux; intro t; unfold comparative_discretise_kernel
  simp only [keys_eq, ekeys_eq, look_eq, if_true]
  simp [PyMode.inKeys, PyMode.isOp, PyMode.inOps, PyMode.call]

theorem string_eq_operator_ne : comparative_discretise d c (.str "!=") tol = comparative_discretise d c (.op .ne) tol := by
  apply spelling_aux; intro t; unfold comparative_discretise_kernel
  simp only [keys_ne, ekeys_ne, look_ne, if_true]
  simp [PyMode.inKeys, PyMode.isOp, PyMode.inOps, PyMode.call]

theorem string_eq_operator (r : Rel) :
    comparative_discretise d c (.str r.str) tol = comparative_discretise d c (.op r.op) tol := by
  cases r
  · exact string_eq_operator_ge d c tol
  · exact string_eq_operator_gt d c tol
  · exact string_eq_operator_le d c tol
  · exact string_eq_operator_lt d c tol
  · exact string_eq_operator_eq d c tol
  · exact string_eq_operator_ne d c tol

end spelling

/-- the relation table for the operator spelling -/
theorem mode_table_op (r : Rel) (x c t : Rat) (ht : 0 ≤ t) :
    comparative_discretise (fin x) (fin c) (.op r.op) (some (fin t)) = .ok (ofBool (holds r x c t)) := by
  rw [← string_eq_operator]; exact mode_table r x c t ht

/-- …and the implementation agrees with the property's definition `Spec.disc` on finite data -/
theorem disc_eq_spec (r : Rel) (x c t : Rat) (ht : 0 ≤ t) :
    (comparative_discretise (fin x) (fin c) (.str r.str) (some (fin t))).toOption = disc r (fin x) (fin c) t := by
  rw [mode_table r x c t ht]; rfl

/-- …and on the extended reals: an infinite datum and/or threshold is a valid, comparable value and the
    implementation follows the order of the extended reals (`Spec.discX`) for every tolerance `t ≥ 0`
    (`==` / `!=` between two equal infinities is outside `discX`'s domain: notes/C08.md N-C08-1) -/
theorem disc_eq_specX (r : Rel) (x c : Fl) (t : Rat) (ht : 0 ≤ t) (v : Fl) (h : discX r x c t = some v) :
    comparative_discretise x c (.str r.str) (some (fin t)) = .ok v := by
  cases x <;> cases c
  case fin.fin a b =>
    have hv : ofBool (holds r a b t) = v := by simpa [discX, disc] using h
    rw [← hv]; exact mode_table r a b t ht
  all_goals
    rw [cd_some _ _ _ t ht]
    cases r <;>
      simp [discX, disc, Rel.op, PyOp.apply, Fl.beq, Fl.bne, ofBool, Fl.ge, Fl.gt, Fl.le, Fl.lt] at h <;>
      (try subst h) <;>
      (unfold comparative_discretise_kernel
       simp [Rel.str, keys_ge, keys_gt, keys_le, keys_lt, keys_eq, keys_ne, ekeys_eq, ekeys_ne,
         look_ge, look_gt, look_le, look_lt, look_eq, look_ne, PyOp.apply, whereB, notNan, isNan, ofBool,
         Fl.neg, Fl.add, Fl.sub, Fl.abs, Fl.mul, Fl.ge, Fl.gt, Fl.le, Fl.lt, pure, Except.pure])

example : discX .ge pinf pinf (1/4) = some (fin 1) ∧ discX .lt ninf (fin 2) 0 = some (fin 1) ∧
    discX .ne pinf (fin 2) 0 = some (fin 1) ∧ discX .eq pinf pinf 0 = none := by decide +kernel

/-! ## 3. NaN in, NaN out; complementary relations sum to 1; guards. -/

/-- whatever the (valid) mode and tolerance: NaN data gives NaN -/
theorem nan_data (c : Fl) (r : Rel) (tol : Option Fl) (v : Fl)
    (h : comparative_discretise nan c (.str r.str) tol = .ok v) : v = nan := by
  unfold comparative_discretise at h
  cases hs : abs_tolerance_sanitised tol with
  | error e => rw [hs] at h; cases h
  | ok t =>
    rw [hs] at h
    cases r <;>
      simp [Except.bind, comparative_discretise_kernel, Rel.str, keys_ge, keys_gt, keys_le, keys_lt, keys_eq, keys_ne,
        ekeys_eq, ekeys_ne, whereB, notNan, isNan, pure, Except.pure] at h <;> exact h.symm

/-- …and a NaN threshold gives NaN -/
theorem nan_comparison (d : Fl) (r : Rel) (tol : Option Fl) (v : Fl)
    (h : comparative_discretise d nan (.str r.str) tol = .ok v) : v = nan := by
  unfold comparative_discretise at h
  cases hs : abs_tolerance_sanitised tol with
  | error e => rw [hs] at h; cases h
  | ok t =>
    rw [hs] at h
    cases r <;>
      simp [Except.bind, comparative_discretise_kernel, Rel.str, keys_ge, keys_gt, keys_le, keys_lt, keys_eq, keys_ne,
        ekeys_eq, ekeys_ne, whereB, notNan, isNan, pure, Except.pure] at h <;> exact h.symm

example : comparative_discretise nan (fin 1) (.str ">=") none = .ok nan := by decide +kernel

private theorem holds_compl (r : Rel) (x c t : Rat) (ht : 0 ≤ t) : holds r.compl x c t = !holds r x c t := by
  have hAB : ¬(c < x ∧ x < c) := fun ⟨a, b⟩ => lt_asymm a b
  have hN : ¬ c < x → ¬ x < c → near x c t = true := by
    intro a b
    have : x = c := le_antisymm (not_lt.mp a) (not_lt.mp b)
    subst this; simp [near, rabs]; exact ht
  cases r <;> simp only [holds, Rel.compl] <;> by_cases a : c < x <;> by_cases b : x < c <;>
    cases hn : near x c t <;> simp_all

/-- complementary relations (`>=`/`<`, `>`/`<=`, `==`/`!=`) classify every finite datum exactly once:
    the two discretised values are 0/1 and sum to 1 -/
theorem complementary_sum_one (r : Rel) (x c t : Rat) (ht : 0 ≤ t) :
    ∃ a b : Fl, comparative_discretise (fin x) (fin c) (.str r.str) (some (fin t)) = .ok a ∧
      comparative_discretise (fin x) (fin c) (.str r.compl.str) (some (fin t)) = .ok b ∧
      add a b = fin 1 ∧ (a = fin 0 ∨ a = fin 1) := by
  refine ⟨_, _, mode_table r x c t ht, mode_table r.compl x c t ht, ?_, ?_⟩
  · rw [holds_compl r x c t ht]; cases holds r x c t <;> simp [ofBool]
  · cases holds r x c t <;> simp [ofBool]

/-- a negative tolerance is rejected whatever the mode and data -/
theorem negative_tolerance_rejected (d c : Fl) (m : PyMode) (t : Rat) (ht : t < 0) :
    comparative_discretise d c m (some (fin t)) = .error "ValueError" := by
  unfold comparative_discretise abs_tolerance_sanitised; simp [ht]; rfl

example : (-1/4 : Rat) < 0 := by norm_num

/-- a mode outside the 12 spellings is rejected: another string, another object -/
theorem unknown_mode_rejected (d c : Fl) (t : Rat) (ht : 0 ≤ t) :
    comparative_discretise d c .other (some (fin t)) = .error "ValueError" ∧
    comparative_discretise d c (.str "=>") (some (fin t)) = .error "ValueError" := by
  constructor
  · rw [cd_some _ _ _ t ht]; simp [comparative_discretise_kernel, PyMode.inKeys, PyMode.isOp, PyMode.inOps]; rfl
  · rw [cd_some _ _ _ t ht]
    have h1 : PyMode.inKeys (.str "=>") INEQUALITY_MODES = false := by decide
    have h2 : PyMode.inKeys (.str "=>") EQUALITY_MODES = false := by decide
    simp [comparative_discretise_kernel, h1, h2, PyMode.isOp, PyMode.inOps]; rfl

/-! ## 4. The four maps of `BinaryContingencyManager` on event arrays (values 1 = event, 0 = no event,
    NaN = missing): each map is the direct indicator, they are pairwise disjoint and cover. -/

/-- an event value -/
def IsEv (x : Fl) : Prop := x = fin 0 ∨ x = fin 1 ∨ x = nan

theorem map_tp_indicator (f o : Fl) (hf : IsEv f) (ho : IsEv o) :
    map_tp f o = if bothValid (f, o) then ofBool (beq f (fin 1) && beq o (fin 1)) else nan := by
  rcases hf with rfl | rfl | rfl <;> rcases ho with rfl | rfl | rfl <;> decide +kernel
theorem map_tn_indicator (f o : Fl) (hf : IsEv f) (ho : IsEv o) :
    map_tn f o = if bothValid (f, o) then ofBool (beq f (fin 0) && beq o (fin 0)) else nan := by
  rcases hf with rfl | rfl | rfl <;> rcases ho with rfl | rfl | rfl <;> decide +kernel
theorem map_fp_indicator (f o : Fl) (hf : IsEv f) (ho : IsEv o) :
    map_fp f o = if bothValid (f, o) then ofBool (beq f (fin 1) && beq o (fin 0)) else nan := by
  rcases hf with rfl | rfl | rfl <;> rcases ho with rfl | rfl | rfl <;> decide +kernel
theorem map_fn_indicator (f o : Fl) (hf : IsEv f) (ho : IsEv o) :
    map_fn f o = if bothValid (f, o) then ofBool (beq f (fin 0) && beq o (fin 1)) else nan := by
  rcases hf with rfl | rfl | rfl <;> rcases ho with rfl | rfl | rfl <;> decide +kernel

example : IsEv (fin 1) ∧ IsEv nan := ⟨Or.inr (Or.inl rfl), Or.inr (Or.inr rfl)⟩

/-- a missing forecast or observation is missing in all four maps -/
theorem maps_nan (f o : Fl) (hf : IsEv f) (ho : IsEv o) (h : bothValid (f, o) = false) :
    map_tp f o = nan ∧ map_tn f o = nan ∧ map_fp f o = nan ∧ map_fn f o = nan := by
  simp [map_tp_indicator f o hf ho, map_tn_indicator f o hf ho, map_fp_indicator f o hf ho, map_fn_indicator f o hf ho, h]

/-- the four maps are pairwise disjoint: no pair is counted in two cells -/
theorem maps_disjoint (f o : Fl) (hf : IsEv f) (ho : IsEv o) :
    ¬(map_tp f o = fin 1 ∧ map_tn f o = fin 1) ∧ ¬(map_tp f o = fin 1 ∧ map_fp f o = fin 1) ∧
    ¬(map_tp f o = fin 1 ∧ map_fn f o = fin 1) ∧ ¬(map_tn f o = fin 1 ∧ map_fp f o = fin 1) ∧
    ¬(map_tn f o = fin 1 ∧ map_fn f o = fin 1) ∧ ¬(map_fp f o = fin 1 ∧ map_fn f o = fin 1) := by
  rcases hf with rfl | rfl | rfl <;> rcases ho with rfl | rfl | rfl <;> decide +kernel

/-- the four maps cover: a valid pair is in exactly one cell -/
theorem maps_cover (f o : Fl) (hf : f = fin 0 ∨ f = fin 1) (ho : o = fin 0 ∨ o = fin 1) :
    add (add (add (map_tp f o) (map_tn f o)) (map_fp f o)) (map_fn f o) = fin 1 := by
  rcases hf with rfl | rfl <;> rcases ho with rfl | rfl <;> decide +kernel

example : (fin 1 : Fl) = fin 0 ∨ (fin 1 : Fl) = fin 1 := Or.inr rfl

/-! ## 5. Events of the threshold operator: `op x thr` for EVERY supplied threshold (0 and negative included). -/

theorem events_eq_op (dthr : Fl) (dop o : PyOp) (thr f ob : Fl) :
    events_make_contingency_manager dthr dop f ob (some thr) (some o) = (event o thr f, event o thr ob) := by
  unfold events_make_contingency_manager event
  cases f <;> cases ob <;> simp [whereB, isNan]

theorem events_tables_eq_op (dthr : Fl) (dop o : PyOp) (thr f ob : Fl) :
    events_make_event_tables dthr dop f ob (some thr) (some o) = (event o thr f, event o thr ob) := by
  unfold events_make_event_tables event
  cases f <;> cases ob <;> simp [whereB, isNan]

/-- the defaults are used exactly when nothing is supplied -/
theorem events_defaults (dthr : Fl) (dop : PyOp) (f ob : Fl) :
    events_make_contingency_manager dthr dop f ob none none = (event dop dthr f, event dop dthr ob) ∧
    events_make_event_tables dthr dop f ob none none = (event dop dthr f, event dop dthr ob) := by
  unfold events_make_contingency_manager events_make_event_tables event
  cases f <;> cases ob <;> simp [whereB, isNan]

/-- threshold 0 is a threshold like any other (defect F4 of the pinned tree, repaired) -/
example : events_make_contingency_manager (fin (1/1000)) .ge (fin 0) (fin (1/2000)) (some (fin 0)) none = (fin 1, fin 1) := by
  decide +kernel

/-- events are 0, 1 or NaN, and NaN exactly for missing data -/
theorem event_values (o : PyOp) (thr x : Fl) :
    (x = nan ∧ event o thr x = nan) ∨ (x ≠ nan ∧ (event o thr x = fin 0 ∨ event o thr x = fin 1)) := by
  unfold event
  cases x <;> simp [isNan, ofBool]

/-! ## 6. Counts: each count is the direct count, the cells partition the pairs valid in both, counts are
    additive under concatenation (so counts kept along a dimension sum to the fully reduced counts).
    Lists of ANY length. -/

def Table.ofCounts (c : Counts) : Table :=
  { tp := fin (c.tp : Rat), tn := fin (c.tn : Rat), fp := fin (c.fp : Rat), fn := fin (c.fn : Rat), total := fin (c.total : Rat) }

/-- the four cells partition the pairs that are valid in both (pure counting fact about `countBy`) -/
theorem countBy_partition (f o : Fl × Fl → Bool) (ps : List (Fl × Fl)) :
    (countBy f o ps).tp + (countBy f o ps).tn + (countBy f o ps).fp + (countBy f o ps).fn = (countBy f o ps).total := by
  unfold countBy
  simp only
  induction ps with
  | nil => rfl
  | cons p ps ih =>
    simp only [List.filter_cons]
    cases bothValid p <;> cases f p <;> cases o p <;> simp <;> omega

/-- counts of BinaryContingencyManager on event arrays of any length: each cell is the number of valid pairs
    showing exactly that combination -/
theorem event_counts_direct (es : List (Fl × Fl)) (hev : ∀ e ∈ es, IsEv e.1 ∧ IsEv e.2) :
    (tableOfEvents es).tp = fin (((es.filter fun e => bothValid e && (beq e.1 (fin 1) && beq e.2 (fin 1))).length : Nat) : Rat) ∧
    (tableOfEvents es).tn = fin (((es.filter fun e => bothValid e && (beq e.1 (fin 0) && beq e.2 (fin 0))).length : Nat) : Rat) ∧
    (tableOfEvents es).fp = fin (((es.filter fun e => bothValid e && (beq e.1 (fin 1) && beq e.2 (fin 0))).length : Nat) : Rat) ∧
    (tableOfEvents es).fn = fin (((es.filter fun e => bothValid e && (beq e.1 (fin 0) && beq e.2 (fin 1))).length : Nat) : Rat) := by
  unfold tableOfEvents
  refine ⟨?_, ?_, ?_, ?_⟩
  · exact nansum_indicator_mem _ bothValid _ es (fun e he => map_tp_indicator e.1 e.2 (hev e he).1 (hev e he).2)
  · exact nansum_indicator_mem _ bothValid _ es (fun e he => map_tn_indicator e.1 e.2 (hev e he).1 (hev e he).2)
  · exact nansum_indicator_mem _ bothValid _ es (fun e he => map_fp_indicator e.1 e.2 (hev e he).1 (hev e he).2)
  · exact nansum_indicator_mem _ bothValid _ es (fun e he => map_fn_indicator e.1 e.2 (hev e he).1 (hev e he).2)

example : ∀ e ∈ [((fin 1 : Fl), (fin 0 : Fl)), (nan, fin 1)], IsEv e.1 ∧ IsEv e.2 := by
  intro e he; simp at he; rcases he with rfl | rfl <;> simp [IsEv]

private theorem isEv_event (o : PyOp) (thr x : Fl) : IsEv (event o thr x) := by
  rcases event_values o thr x with ⟨_, h⟩ | ⟨_, h | h⟩
  · exact Or.inr (Or.inr h)
  · exact Or.inl h
  · exact Or.inr (Or.inl h)

private theorem bothValid_event (o : PyOp) (thr : Fl) (p : Fl × Fl) :
    bothValid (event o thr p.1, event o thr p.2) = bothValid p := by
  obtain ⟨a, b⟩ := p
  unfold bothValid event
  cases a <;> cases b <;> simp [isNan, notNan, ofBool] <;> split_ifs <;> simp [isNan]

private theorem beq_event_one (o : PyOp) (thr x : Fl) (hx : x.notNan = true) :
    beq (event o thr x) (fin 1) = o.apply x thr ∧ beq (event o thr x) (fin 0) = !o.apply x thr := by
  unfold event
  cases x <;> simp [isNan, notNan] at hx ⊢ <;> cases PyOp.apply o _ thr <;> simp [ofBool, beq]

/-- **each count equals direct counting** with `op · thr` for the SUPPLIED threshold and operator — every
    threshold (0, negative, NaN, infinite), each of the six operators, lists of any length — and
    `tp + tn + fp + fn = total = number of pairs valid in both` -/
theorem threshold_counts_eq_direct (dthr : Fl) (dop o : PyOp) (thr : Fl) (ps : List (Fl × Fl)) :
    tableOfThreshold dthr dop ps (some thr) (some o) = Table.ofCounts (countSpec o thr ps) := by
  have hpart := countBy_partition (fun p => o.apply p.1 thr) (fun p => o.apply p.2 thr) ps
  unfold tableOfThreshold
  have hev : (ps.map fun p => events_make_contingency_manager dthr dop p.1 p.2 (some thr) (some o)) =
      ps.map fun p => (event o thr p.1, event o thr p.2) := by
    apply List.map_congr_left; intro p _; exact events_eq_op ..
  rw [hev]
  unfold tableOfEvents
  simp only [List.map_map, Function.comp_def]
  have key : ∀ (m : Fl → Fl → Fl) (bf bo : Bool)
      (hm : ∀ f o', IsEv f → IsEv o' → m f o' = if bothValid (f, o') then ofBool (beq f (fin (if bf then 1 else 0)) && beq o' (fin (if bo then 1 else 0))) else nan),
      nansum (ps.map fun p => m (event o thr p.1) (event o thr p.2)) =
        fin (((ps.filter fun p => bothValid p && ((if bf then o.apply p.1 thr else !o.apply p.1 thr) &&
          (if bo then o.apply p.2 thr else !o.apply p.2 thr))).length : Nat) : Rat) := by
    intro m bf bo hm
    apply nansum_indicator _ bothValid
    intro p
    rw [hm _ _ (isEv_event o thr p.1) (isEv_event o thr p.2), bothValid_event]
    by_cases hv : bothValid p = true
    · have h1 := beq_event_one o thr p.1 (by unfold bothValid at hv; simp at hv; exact hv.1)
      have h2 := beq_event_one o thr p.2 (by unfold bothValid at hv; simp at hv; exact hv.2)
      cases bf <;> cases bo <;> simp [hv, h1.1, h1.2, h2.1, h2.2]
    · simp only [Bool.not_eq_true] at hv; simp [hv]
  have htp := key map_tp true true (by intro f o' hf ho; simpa using map_tp_indicator f o' hf ho)
  have htn := key map_tn false false (by intro f o' hf ho; simpa using map_tn_indicator f o' hf ho)
  have hfp := key map_fp true false (by intro f o' hf ho; simpa using map_fp_indicator f o' hf ho)
  have hfn := key map_fn false true (by intro f o' hf ho; simpa using map_fn_indicator f o' hf ho)
  simp only [if_true, Bool.false_eq_true, if_false] at htp htn hfp hfn
  rw [htp, htn, hfp, hfn]
  unfold Table.ofCounts countSpec
  unfold countBy at hpart ⊢
  simp only at hpart ⊢
  simp only [add_fin]
  congr 2
  rw [← hpart]; push_cast; ring

/-- `tp + fp + fn + tn = total = number of pairs valid in both`, any threshold, any operator -/
theorem total_eq_valid_pairs (dthr : Fl) (dop o : PyOp) (thr : Fl) (ps : List (Fl × Fl)) :
    let t := tableOfThreshold dthr dop ps (some thr) (some o)
    t.total = fin (((ps.filter bothValid).length : Nat) : Rat) ∧
    add (add (add t.tp t.fp) t.fn) t.tn = t.total := by
  intro t
  have h : t = Table.ofCounts (countSpec o thr ps) := threshold_counts_eq_direct dthr dop o thr ps
  have hpart := countBy_partition (fun p => o.apply p.1 thr) (fun p => o.apply p.2 thr) ps
  rw [h]
  refine ⟨rfl, ?_⟩
  unfold Table.ofCounts countSpec
  simp only [add_fin]
  congr 1
  rw [← hpart]; push_cast; ring

/-- with the defaults (nothing supplied) the same holds for the default threshold and operator -/
theorem default_counts_eq_direct (dthr : Fl) (dop : PyOp) (ps : List (Fl × Fl)) :
    tableOfThreshold dthr dop ps none none = Table.ofCounts (countSpec dop dthr ps) := by
  rw [← threshold_counts_eq_direct dthr dop dop dthr ps]
  unfold tableOfThreshold
  congr 1

section additivity
local instance : Std.Associative Fl.add := ⟨Fl.add_assoc⟩
local instance : Std.Commutative Fl.add := ⟨Fl.add_comm⟩

/-- counts are additive under concatenation of the positions — for ALL event values -/
theorem counts_append (xs ys : List (Fl × Fl)) :
    tableOfEvents (xs ++ ys) = (tableOfEvents xs).add (tableOfEvents ys) := by
  unfold tableOfEvents Table.add
  simp only [List.map_append, nansum_append]
  congr 1
  ac_rfl

theorem threshold_counts_append (dthr : Fl) (dop : PyOp) (thr : Option Fl) (o : Option PyOp) (xs ys : List (Fl × Fl)) :
    tableOfThreshold dthr dop (xs ++ ys) thr o =
      (tableOfThreshold dthr dop xs thr o).add (tableOfThreshold dthr dop ys thr o) := by
  unfold tableOfThreshold; rw [List.map_append, counts_append]

theorem counts_nil : tableOfEvents [] = Table.zero := by
  unfold tableOfEvents Table.zero; simp [nansum_nil]

/-- counts kept along a dimension (one table per row) sum to the fully reduced counts -/
theorem counts_flatten (rows : List (List (Fl × Fl))) :
    tableOfEvents rows.flatten = (rows.map tableOfEvents).foldr Table.add Table.zero := by
  induction rows with
  | nil => exact counts_nil
  | cons r rs ih => rw [List.flatten_cons, counts_append, ih]; rfl

theorem threshold_counts_flatten (dthr : Fl) (dop : PyOp) (thr : Option Fl) (o : Option PyOp)
    (rows : List (List (Fl × Fl))) :
    tableOfThreshold dthr dop rows.flatten thr o =
      (rows.map fun r => tableOfThreshold dthr dop r thr o).foldr Table.add Table.zero := by
  induction rows with
  | nil => exact counts_nil
  | cons r rs ih => rw [List.flatten_cons, threshold_counts_append, ih]; rfl

end additivity

/-! ## 7. `binary_discretise_proportion` over finite data: the mean of the discretised values is the share
    of valid data in the event category. -/

/-- mean (skipna) of a list of 0/1/NaN indicator values = (#ones) / (#valid); NaN when nothing is valid -/
theorem nanmean_indicator {α : Type} (g : α → Fl) (v b : α → Bool)
    (h : ∀ a, g a = if v a then ofBool (b a) else nan) (l : List α) :
    nanmean (l.map g) = if (l.filter v).length = 0 then nan
      else fin ((((l.filter fun a => v a && b a).length : Nat) : Rat) / (((l.filter v).length : Nat) : Rat)) := by
  have hvalid : (valid (l.map g)).length = (l.filter v).length := by
    unfold valid
    induction l with
    | nil => rfl
    | cons a l ih =>
      rw [List.map_cons, List.filter_cons, List.filter_cons, h a]
      cases v a <;> cases b a <;> simp [ofBool, notNan, isNan, ih]
  have hs := nansum_indicator g v b h l
  unfold nansum at hs
  unfold nanmean
  simp only [List.isEmpty_iff, ← List.length_eq_zero_iff, hvalid, hs]
  by_cases h0 : (l.filter v).length = 0
  · simp [h0]
  · simp only [h0, if_false, Fl.ofNat]
    rw [div_fin _ _ (by exact_mod_cast h0)]

private theorem mapM_ok {α β : Type} (f : α → Except String β) (g : α → β) (h : ∀ a, f a = .ok (g a)) (l : List α) :
    l.mapM f = .ok (l.map g) := by
  induction l with
  | nil => rfl
  | cons a l ih => rw [List.mapM_cons, h a, ih]; rfl

private theorem nan_data_ok (c : Fl) (r : Rel) (t : Rat) (ht : 0 ≤ t) :
    comparative_discretise nan c (.str r.str) (some (fin t)) = .ok nan := by
  rw [cd_some _ _ _ t ht]
  cases r <;>
    simp [comparative_discretise_kernel, Rel.str, keys_ge, keys_gt, keys_le, keys_lt, keys_eq, keys_ne,
      ekeys_eq, ekeys_ne, whereB, notNan, isNan] <;> rfl

/-- data with missing values: `none` is NaN -/
def ofOpt : Option Rat → Fl
  | some q => fin q
  | none => nan

/-- **proportion = share**: for one finite threshold, any relation and tolerance `t ≥ 0`, the proportion is
    (#valid data for which the relation holds) / (#valid data), NaN when no datum is valid -/
theorem proportion_eq_share (r : Rel) (c t : Rat) (ht : 0 ≤ t) (qs : List (Option Rat)) :
    Model.C08.proportion (qs.map ofOpt) [fin c] (.str r.str) (some (fin t)) =
      .ok [if (qs.filter Option.isSome).length = 0 then nan
           else fin ((((qs.filter fun q => q.isSome && (q.map fun x => holds r x c t).getD false).length : Nat) : Rat) /
                     (((qs.filter Option.isSome).length : Nat) : Rat))] := by
  have hpt : ∀ q : Option Rat, comparative_discretise (ofOpt q) (fin c) (.str r.str) (some (fin t)) =
      .ok (if q.isSome then ofBool ((q.map fun x => holds r x c t).getD false) else nan) := by
    intro q
    cases q with
    | none => exact nan_data_ok _ r t ht
    | some x => simpa [ofOpt] using mode_table r x c t ht
  unfold Model.C08.proportion
  have hm : monotoneNondecr [fin c] = true := rfl
  rw [nan_data_ok _ r t ht]
  simp only [hm, Bool.not_true, Bool.false_eq_true, if_false, List.mapM_cons, List.mapM_nil, List.mapM_map]
  rw [mapM_ok ((fun x => comparative_discretise x (fin c) (PyMode.str r.str) (some (fin t))) ∘ ofOpt) _ hpt qs]
  simp only [bind, Except.bind, pure, Except.pure]
  rw [nanmean_indicator _ Option.isSome (fun q => (q.map fun x => holds r x c t).getD false) (fun q => rfl) qs]

example : Model.C08.proportion [fin 0, fin (1/2), nan, fin 1] [fin (1/2)] (.str ">=") (some (fin 0)) = .ok [fin (2/3)] := by
  decide +kernel

end SV.Props.C08
