/-
  C09 (stretch) — the IEEE value of every contingency metric on tables WITH ZERO CELLS.

  `Props/C09.lean` proves that each metric is the documented expression tree evaluated in `Fl` arithmetic.
  Here the value of that tree is worked out for every table of natural-number counts
      a = tp (hits), b = fp (false alarms), c = fn (misses), d = tn (correct negatives), total = a+d+b+c,
  as an explicit case split on which cells / marginal sums vanish: `nan`, `+inf` or a rational number
  (never an exception, never `-inf`).  The theorems are about `SV.Gen.Contingency.*`, the definitions
  regenerated from /repo/src/scores/categorical/contingency_impl.py on every run (argument order of the
  generated functions: `logF tp tn fp fn total`).

  Reading guide: "`metric … = if a + c = 0 then nan else fin q`" means: the code returns NaN exactly on the
  tables without observed events and the number `q` on all others.
-/
import ScoresVerif.Props.C09
import ScoresVerif.Lemmas.C09Zero

namespace SV.Props.C09Zero
open SV SV.Fl SV.Lemmas.C09Zero
open SV.Props.C09 (peirce_closed hss_closed ets_closed)
namespace G
export SV.Gen.Contingency (accuracy base_rate forecast_rate frequency_bias
  probability_of_detection false_alarm_ratio false_alarm_rate
  probability_of_false_detection success_ratio threat_score peirce_skill_score
  specificity negative_predictive_value f1_score equitable_threat_score
  heidke_skill_score odds_ratio odds_ratio_skill_score)
end G

variable (logF : Fl → Fl) (a b c d : Nat)

/-! ## 1. Single-quotient metrics: NaN exactly when the denominator count is zero, otherwise the quotient.
    (pod, false_alarm_ratio, frequency_bias, accuracy are in `Props/C09.lean` §5.) -/

/-- base rate (a+c)/n: NaN on the empty table only -/
theorem base_rate_zero_cells :
    G.base_rate logF (fin a) (fin d) (fin b) (fin c) (fin ((a+d+b+c : Nat) : Rat))
      = if a + d + b + c = 0 then nan else fin (((a : Rat) + c) / ((a + d + b + c : Nat) : Rat)) := by
  show div (add (fin a) (fin c)) (fin _) = _
  rw [add_fin, ← Nat.cast_add, div_nat_le _ _ (by omega)]

/-- forecast rate (a+b)/n: NaN on the empty table only -/
theorem forecast_rate_zero_cells :
    G.forecast_rate logF (fin a) (fin d) (fin b) (fin c) (fin ((a+d+b+c : Nat) : Rat))
      = if a + d + b + c = 0 then nan else fin (((a : Rat) + b) / ((a + d + b + c : Nat) : Rat)) := by
  show div (add (fin a) (fin b)) (fin _) = _
  rw [add_fin, ← Nat.cast_add, div_nat_le _ _ (by omega)]

/-- POFD / false alarm rate b/(d+b): NaN exactly when there is no observed non-event -/
theorem false_alarm_rate_zero_cells :
    G.false_alarm_rate logF (fin a) (fin d) (fin b) (fin c) (fin ((a+d+b+c : Nat) : Rat))
      = if d + b = 0 then nan else fin ((b : Rat) / (d + b)) := by
  show div (fin b) (add (fin d) (fin b)) = _
  rw [add_fin, ← Nat.cast_add, div_nat_le _ _ (by omega)]

/-- success ratio / precision a/(a+b): NaN exactly when nothing was forecast -/
theorem success_ratio_zero_cells :
    G.success_ratio logF (fin a) (fin d) (fin b) (fin c) (fin ((a+d+b+c : Nat) : Rat))
      = if a + b = 0 then nan else fin ((a : Rat) / (a + b)) := by
  show div (fin a) (add (fin a) (fin b)) = _
  rw [add_fin, ← Nat.cast_add, div_nat_le _ _ (by omega)]

/-- threat score / CSI a/(a+b+c): NaN exactly when the table has correct negatives only -/
theorem threat_score_zero_cells :
    G.threat_score logF (fin a) (fin d) (fin b) (fin c) (fin ((a+d+b+c : Nat) : Rat))
      = if a + b + c = 0 then nan else fin ((a : Rat) / (a + b + c)) := by
  show div (fin a) (add (add (fin a) (fin b)) (fin c)) = _
  rw [add_fin, add_fin, ← Nat.cast_add, ← Nat.cast_add, div_nat_le _ _ (by omega)]

/-- specificity d/(d+b): NaN exactly when there is no observed non-event -/
theorem specificity_zero_cells :
    G.specificity logF (fin a) (fin d) (fin b) (fin c) (fin ((a+d+b+c : Nat) : Rat))
      = if d + b = 0 then nan else fin ((d : Rat) / (d + b)) := by
  show div (fin d) (add (fin d) (fin b)) = _
  rw [add_fin, ← Nat.cast_add, div_nat_le _ _ (by omega)]

/-- negative predictive value d/(d+c): NaN exactly when no non-event was forecast -/
theorem npv_zero_cells :
    G.negative_predictive_value logF (fin a) (fin d) (fin b) (fin c) (fin ((a+d+b+c : Nat) : Rat))
      = if d + c = 0 then nan else fin ((d : Rat) / (d + c)) := by
  show div (fin d) (add (fin d) (fin c)) = _
  rw [add_fin, ← Nat.cast_add, div_nat_le _ _ (by omega)]

/-- F1 = 2a/(2a+b+c): NaN exactly when the table has correct negatives only -/
theorem f1_zero_cells :
    G.f1_score logF (fin a) (fin d) (fin b) (fin c) (fin ((a+d+b+c : Nat) : Rat))
      = if a + b + c = 0 then nan else fin (2 * (a : Rat) / (2 * a + b + c)) := by
  show div (mul (fin 2) (fin a)) (add (add (mul (fin 2) (fin a)) (fin b)) (fin c)) = _
  have e : (2 : Rat) * (a : Rat) = ((2 * a : Nat) : Rat) := by push_cast; rfl
  rw [mul_fin, add_fin, add_fin, e, ← Nat.cast_add, ← Nat.cast_add, div_nat_le _ _ (by omega)]
  have h : (2 * a + b + c = 0) ↔ (a + b + c = 0) := by omega
  simp only [h, Nat.cast_add, Nat.cast_mul, Nat.cast_ofNat]

/-! ## 2. Composite metrics. -/

/-- Peirce skill score POD − POFD: NaN exactly when an observed marginal (events a+c, or non-events b+d)
    is empty; otherwise (ad − bc)/((a+c)(b+d)). -/
theorem peirce_zero_cells :
    G.peirce_skill_score logF (fin a) (fin d) (fin b) (fin c) (fin ((a+d+b+c : Nat) : Rat))
      = if a + c = 0 ∨ b + d = 0 then nan
        else fin (((a : Rat) * d - b * c) / (((a : Rat) + c) * (b + d))) := by
  by_cases h : a + c = 0 ∨ b + d = 0
  · rw [if_pos h]
    show sub (div (fin a) (add (fin a) (fin c))) (div (fin b) (add (fin b) (fin d))) = _
    rcases h with h | h
    · have ha : a = 0 := by omega
      have hc : c = 0 := by omega
      subst ha; subst hc; simp
    · have hb : b = 0 := by omega
      have hd : d = 0 := by omega
      subst hb; subst hd; simp
  · rw [if_neg h]
    have h1 : (a : Rat) + c ≠ 0 := by
      have : a + c ≠ 0 := fun e => h (Or.inl e)
      exact_mod_cast this
    have h2 : (b : Rat) + d ≠ 0 := by
      have : b + d ≠ 0 := fun e => h (Or.inr e)
      exact_mod_cast this
    have := peirce_closed logF (a : Rat) b c d h1 h2
    rw [← this]
    congr 2
    push_cast; ring

/-- odds-ratio skill score / Yule's Q (ad − bc)/(ad + bc): NaN exactly when both diagonal products vanish -/
theorem orss_zero_cells :
    G.odds_ratio_skill_score logF (fin a) (fin d) (fin b) (fin c) (fin ((a+d+b+c : Nat) : Rat))
      = if a * d = 0 ∧ b * c = 0 then nan
        else fin (((a : Rat) * d - b * c) / ((a : Rat) * d + b * c)) := by
  show div (sub (mul (fin a) (fin d)) (mul (fin c) (fin b))) (add (mul (fin a) (fin d)) (mul (fin c) (fin b))) = _
  rw [mul_fin, mul_fin, sub_fin, add_fin]
  by_cases h : a * d = 0 ∧ b * c = 0
  · rw [if_pos h]
    have h1 : (a : Rat) * d = 0 := by exact_mod_cast h.1
    have h2 : (c : Rat) * b = 0 := by rw [_root_.mul_comm]; exact_mod_cast h.2
    exact div_zero_zero_of_eq _ _ (by rw [h1, h2]; ring) (by rw [h1, h2]; ring)
  · rw [if_neg h]
    have hpos : 0 < a * d + b * c := by
      rcases Nat.eq_zero_or_pos (a * d) with h1 | h1
      · rcases Nat.eq_zero_or_pos (b * c) with h2 | h2
        · exact absurd ⟨h1, h2⟩ h
        · omega
      · omega
    have hne : (a : Rat) * d + c * b ≠ 0 := by
      have : ((a * d + b * c : Nat) : Rat) ≠ 0 := by exact_mod_cast hpos.ne'
      intro e; apply this; push_cast; linarith
    rw [div_fin _ _ hne]
    congr 2 <;> ring

/-- **Odds ratio.**  The code evaluates `[POD/(1−POD)] / [POFD/(1−POFD)]` (four nested quotients).  On every
    natural-number table this IEEE expression has exactly the IEEE value of the cross ratio `ad / (bc)`. -/
theorem odds_ratio_eq_cross_ratio :
    G.odds_ratio logF (fin a) (fin d) (fin b) (fin c) (fin ((a+d+b+c : Nat) : Rat))
      = div (fin ((a : Rat) * d)) (fin ((b : Rat) * c)) := by
  show div (div (div (fin a) (add (fin a) (fin c))) (sub (fin 1) (div (fin a) (add (fin a) (fin c)))))
           (div (div (fin b) (add (fin d) (fin b))) (sub (fin 1) (div (fin b) (add (fin d) (fin b))))) = _
  rw [add_fin, add_fin, odds_nat a c _ rfl, odds_nat b d _ (add_comm _ _), div_div_nat]

/-- odds ratio, full case split: `bc = 0 = ad` → NaN; `bc = 0 < ad` → +inf; otherwise the number ad/(bc)
    (which is 0 when `ad = 0`).  In particular the result is NaN iff (a = 0 or d = 0) and (b = 0 or c = 0),
    and it is never −inf. -/
theorem odds_ratio_zero_cells :
    G.odds_ratio logF (fin a) (fin d) (fin b) (fin c) (fin ((a+d+b+c : Nat) : Rat))
      = if b * c = 0 then (if a * d = 0 then nan else pinf) else fin (((a : Rat) * d) / ((b : Rat) * c)) := by
  rw [odds_ratio_eq_cross_ratio, ← Nat.cast_mul, ← Nat.cast_mul, div_nat]

/-- the odds ratio is NaN exactly when both diagonal products vanish: (a = 0 or d = 0) and (b = 0 or c = 0) -/
theorem odds_ratio_nan_iff :
    G.odds_ratio logF (fin a) (fin d) (fin b) (fin c) (fin ((a+d+b+c : Nat) : Rat)) = nan
      ↔ (a = 0 ∨ d = 0) ∧ (b = 0 ∨ c = 0) := by
  rw [odds_ratio_zero_cells]
  by_cases h1 : b * c = 0 <;> by_cases h2 : a * d = 0 <;>
    simp [h1, h2, ← Nat.mul_eq_zero]

/-- the odds ratio is +inf exactly when b = 0 or c = 0 while a and d are both positive -/
theorem odds_ratio_pinf_iff :
    G.odds_ratio logF (fin a) (fin d) (fin b) (fin c) (fin ((a+d+b+c : Nat) : Rat)) = pinf
      ↔ (a ≠ 0 ∧ d ≠ 0) ∧ (b = 0 ∨ c = 0) := by
  rw [odds_ratio_zero_cells]
  by_cases h1 : b * c = 0 <;> by_cases h2 : a * d = 0 <;>
    simp [h1, h2, ← Nat.mul_eq_zero, ← not_or]

/-- the same split spelled out cell by cell, following the order in which the code's quotients degenerate -/
theorem odds_ratio_by_cells :
    G.odds_ratio logF (fin a) (fin d) (fin b) (fin c) (fin ((a+d+b+c : Nat) : Rat))
      = if a + c = 0 ∨ b + d = 0 then nan                      -- POD or POFD is 0/0
        else if c = 0 then (if d = 0 then nan else pinf)        -- POD = 1: inf/inf, or inf/finite
        else if d = 0 then fin 0                                -- POFD = 1: finite/inf
        else if b = 0 then (if a = 0 then nan else pinf)        -- POFD = 0: 0/0, or positive/0
        else fin (((a : Rat) * d) / ((b : Rat) * c)) := by
  rw [odds_ratio_zero_cells]
  rcases Nat.eq_zero_or_pos a with ha | ha <;> rcases Nat.eq_zero_or_pos b with hb | hb <;>
  rcases Nat.eq_zero_or_pos c with hc | hc <;> rcases Nat.eq_zero_or_pos d with hd | hd <;>
  simp [*, Nat.ne_of_gt]

/-- **Swap law for the odds ratio** (forecast ↔ observation, i.e. fp ↔ fn): holds on EVERY natural-number
    table, zero cells included (both sides are NaN / +inf / the same number together). -/
theorem swap_odds_ratio :
    G.odds_ratio logF (fin a) (fin d) (fin c) (fin b) (fin ((a+d+c+b : Nat) : Rat))
      = G.odds_ratio logF (fin a) (fin d) (fin b) (fin c) (fin ((a+d+b+c : Nat) : Rat)) := by
  rw [odds_ratio_eq_cross_ratio, odds_ratio_eq_cross_ratio, _root_.mul_comm (c : Rat) b]

/-- the `total` argument is not used by the odds ratio, so the swap law also holds with the total kept as is -/
theorem swap_odds_ratio_any_total (total : Fl) :
    G.odds_ratio logF (fin a) (fin d) (fin c) (fin b) total = G.odds_ratio logF (fin a) (fin d) (fin b) (fin c) total := by
  have := swap_odds_ratio logF a b c d
  exact this

/-- Heidke skill score / Cohen's kappa: NaN exactly when b = c = 0 and (a = 0 or d = 0) — the tables where
    forecast and observation are the same constant, including the empty table (where `1/total` is +inf and
    `inf * 0` is NaN); otherwise 2(ad − bc)/((a+c)(c+d) + (a+b)(b+d)).  Never infinite. -/
theorem hss_zero_cells :
    G.heidke_skill_score logF (fin a) (fin d) (fin b) (fin c) (fin ((a+d+b+c : Nat) : Rat))
      = if b = 0 ∧ c = 0 ∧ (a = 0 ∨ d = 0) then nan
        else fin (2 * ((a : Rat) * d - b * c) / (((a : Rat) + c) * (c + d) + ((a : Rat) + b) * (b + d))) := by
  have hcast : ((a + d + b + c : Nat) : Rat) = (a : Rat) + d + b + c := by push_cast; ring
  by_cases h : b = 0 ∧ c = 0 ∧ (a = 0 ∨ d = 0)
  · rw [if_pos h]
    obtain ⟨hb, hc, had⟩ := h
    subst hb; subst hc
    show div (sub (add (fin a) (fin d)) (mul (div (fin 1) (fin _))
          (add (mul (add (fin a) (fin ((0 : Nat) : Rat))) (add (fin a) (fin ((0 : Nat) : Rat))))
               (mul (add (fin d) (fin ((0 : Nat) : Rat))) (add (fin d) (fin ((0 : Nat) : Rat)))))))
        (sub (fin _) (mul (div (fin 1) (fin _))
          (add (mul (add (fin a) (fin ((0 : Nat) : Rat))) (add (fin a) (fin ((0 : Nat) : Rat))))
               (mul (add (fin d) (fin ((0 : Nat) : Rat))) (add (fin d) (fin ((0 : Nat) : Rat))))))) = nan
    rcases Nat.eq_zero_or_pos a with ha | ha
    · subst ha
      rcases Nat.eq_zero_or_pos d with hd | hd
      · subst hd; decide +kernel
      · have hd' : (d : Rat) ≠ 0 := by exact_mod_cast hd.ne'
        have hn : ((0 + d + 0 + 0 : Nat) : Rat) ≠ 0 := by simpa using hd'
        simp only [add_fin, mul_fin, div_fin _ _ hn, sub_fin]
        apply div_zero_zero_of_eq <;> (push_cast; field_simp; ring)
    · have hd : d = 0 := by omega
      subst hd
      have ha' : (a : Rat) ≠ 0 := by exact_mod_cast ha.ne'
      have hn : ((a + 0 + 0 + 0 : Nat) : Rat) ≠ 0 := by simpa using ha'
      simp only [add_fin, mul_fin, div_fin _ _ hn, sub_fin]
      apply div_zero_zero_of_eq <;> (push_cast; field_simp; ring)
  · rw [if_neg h]
    have hpos := hss_den_pos a b c d h
    have hn := total_ne_zero a b c d h
    rw [hcast]
    exact hss_closed logF (a : Rat) b c d hn hpos.ne'

/-- Equitable threat score / Gilbert skill score: NaN on exactly the same tables as HSS (b = c = 0 and
    (a = 0 or d = 0)); otherwise (a − a_r)/(a + b + c − a_r) with a_r = (a+c)(a+b)/n.  Never infinite. -/
theorem ets_zero_cells :
    G.equitable_threat_score logF (fin a) (fin d) (fin b) (fin c) (fin ((a+d+b+c : Nat) : Rat))
      = if b = 0 ∧ c = 0 ∧ (a = 0 ∨ d = 0) then nan
        else fin (((a : Rat) - ((a : Rat) + c) * (a + b) / (a + d + b + c))
                  / ((a : Rat) + c + b - ((a : Rat) + c) * (a + b) / (a + d + b + c))) := by
  have hcast : ((a + d + b + c : Nat) : Rat) = (a : Rat) + d + b + c := by push_cast; ring
  by_cases h : b = 0 ∧ c = 0 ∧ (a = 0 ∨ d = 0)
  · rw [if_pos h]
    obtain ⟨hb, hc, had⟩ := h
    subst hb; subst hc
    show div (sub (fin a) (div (mul (add (fin a) (fin ((0 : Nat) : Rat))) (add (fin a) (fin ((0 : Nat) : Rat)))) (fin _)))
             (sub (add (add (fin a) (fin ((0 : Nat) : Rat))) (fin ((0 : Nat) : Rat)))
                  (div (mul (add (fin a) (fin ((0 : Nat) : Rat))) (add (fin a) (fin ((0 : Nat) : Rat)))) (fin _))) = nan
    rcases Nat.eq_zero_or_pos a with ha | ha
    · subst ha
      rcases Nat.eq_zero_or_pos d with hd | hd
      · subst hd; simp [div]
      · have hd' : (d : Rat) ≠ 0 := by exact_mod_cast hd.ne'
        have hn : ((0 + d + 0 + 0 : Nat) : Rat) ≠ 0 := by simpa using hd'
        simp only [add_fin, mul_fin, div_fin _ _ hn, sub_fin]
        apply div_zero_zero_of_eq <;> (push_cast; field_simp; ring)
    · have hd : d = 0 := by omega
      subst hd
      have ha' : (a : Rat) ≠ 0 := by exact_mod_cast ha.ne'
      have hn : ((a + 0 + 0 + 0 : Nat) : Rat) ≠ 0 := by simpa using ha'
      simp only [add_fin, mul_fin, div_fin _ _ hn, sub_fin]
      apply div_zero_zero_of_eq <;> (push_cast; field_simp; ring)
  · rw [if_neg h]
    -- n · (a + b + c − a_r) = b² + c² + ab + ac + bc + (a+b+c)d > 0
    have hpos := ets_den_pos a b c d h
    have hn := total_ne_zero a b c d h
    have hden : (a : Rat) + c + b - ((a : Rat) + c) * (a + b) / (a + d + b + c) ≠ 0 := by
      intro e
      have e2 : ((a : Rat) + c + b) * (a + d + b + c) = ((a : Rat) + c) * (a + b) := by
        field_simp at e
        linarith
      nlinarith
    rw [hcast]
    exact ets_closed logF (a : Rat) b c d hn hden

/-! ## 3. Ranges: whenever one of the proportion-type metrics is a number, it lies in [0, 1]. -/

theorem pod_range (q : Rat)
    (h : G.probability_of_detection logF (fin a) (fin d) (fin b) (fin c) (fin ((a+d+b+c : Nat) : Rat)) = fin q) :
    0 ≤ q ∧ q ≤ 1 := by
  apply div_nat_le_range a (a + c) (by omega)
  rw [← h]; show _ = div (fin a) (add (fin a) (fin c))
  rw [add_fin, Nat.cast_add]

theorem false_alarm_ratio_range (q : Rat)
    (h : G.false_alarm_ratio logF (fin a) (fin d) (fin b) (fin c) (fin ((a+d+b+c : Nat) : Rat)) = fin q) :
    0 ≤ q ∧ q ≤ 1 := by
  apply div_nat_le_range b (a + b) (by omega)
  rw [← h]; show _ = div (fin b) (add (fin a) (fin b))
  rw [add_fin, Nat.cast_add]

theorem false_alarm_rate_range (q : Rat)
    (h : G.false_alarm_rate logF (fin a) (fin d) (fin b) (fin c) (fin ((a+d+b+c : Nat) : Rat)) = fin q) :
    0 ≤ q ∧ q ≤ 1 := by
  apply div_nat_le_range b (d + b) (by omega)
  rw [← h]; show _ = div (fin b) (add (fin d) (fin b))
  rw [add_fin, Nat.cast_add]

theorem success_ratio_range (q : Rat)
    (h : G.success_ratio logF (fin a) (fin d) (fin b) (fin c) (fin ((a+d+b+c : Nat) : Rat)) = fin q) :
    0 ≤ q ∧ q ≤ 1 := by
  apply div_nat_le_range a (a + b) (by omega)
  rw [← h]; show _ = div (fin a) (add (fin a) (fin b))
  rw [add_fin, Nat.cast_add]

theorem threat_score_range (q : Rat)
    (h : G.threat_score logF (fin a) (fin d) (fin b) (fin c) (fin ((a+d+b+c : Nat) : Rat)) = fin q) :
    0 ≤ q ∧ q ≤ 1 := by
  apply div_nat_le_range a (a + b + c) (by omega)
  rw [← h]; show _ = div (fin a) (add (add (fin a) (fin b)) (fin c))
  rw [add_fin, add_fin, Nat.cast_add, Nat.cast_add]

theorem accuracy_range (q : Rat)
    (h : G.accuracy logF (fin a) (fin d) (fin b) (fin c) (fin ((a+d+b+c : Nat) : Rat)) = fin q) :
    0 ≤ q ∧ q ≤ 1 := by
  apply div_nat_le_range (a + d) (a + d + b + c) (by omega)
  rw [← h]; show _ = div (add (fin a) (fin d)) (fin _)
  rw [add_fin, Nat.cast_add]

theorem specificity_range (q : Rat)
    (h : G.specificity logF (fin a) (fin d) (fin b) (fin c) (fin ((a+d+b+c : Nat) : Rat)) = fin q) :
    0 ≤ q ∧ q ≤ 1 := by
  apply div_nat_le_range d (d + b) (by omega)
  rw [← h]; show _ = div (fin d) (add (fin d) (fin b))
  rw [add_fin, Nat.cast_add]

theorem npv_range (q : Rat)
    (h : G.negative_predictive_value logF (fin a) (fin d) (fin b) (fin c) (fin ((a+d+b+c : Nat) : Rat)) = fin q) :
    0 ≤ q ∧ q ≤ 1 := by
  apply div_nat_le_range d (d + c) (by omega)
  rw [← h]; show _ = div (fin d) (add (fin d) (fin c))
  rw [add_fin, Nat.cast_add]

theorem base_rate_range (q : Rat)
    (h : G.base_rate logF (fin a) (fin d) (fin b) (fin c) (fin ((a+d+b+c : Nat) : Rat)) = fin q) :
    0 ≤ q ∧ q ≤ 1 := by
  apply div_nat_le_range (a + c) (a + d + b + c) (by omega)
  rw [← h]; show _ = div (add (fin a) (fin c)) (fin _)
  rw [add_fin, Nat.cast_add]

theorem forecast_rate_range (q : Rat)
    (h : G.forecast_rate logF (fin a) (fin d) (fin b) (fin c) (fin ((a+d+b+c : Nat) : Rat)) = fin q) :
    0 ≤ q ∧ q ≤ 1 := by
  apply div_nat_le_range (a + b) (a + d + b + c) (by omega)
  rw [← h]; show _ = div (add (fin a) (fin b)) (fin _)
  rw [add_fin, Nat.cast_add]

theorem f1_range (q : Rat)
    (h : G.f1_score logF (fin a) (fin d) (fin b) (fin c) (fin ((a+d+b+c : Nat) : Rat)) = fin q) :
    0 ≤ q ∧ q ≤ 1 := by
  apply div_nat_le_range (2 * a) (2 * a + b + c) (by omega)
  rw [← h]; show _ = div (mul (fin 2) (fin a)) (add (add (mul (fin 2) (fin a)) (fin b)) (fin c))
  rw [mul_fin, add_fin, add_fin]; push_cast; rfl

/-- the odds ratio is never negative (and never −inf, by `odds_ratio_zero_cells`) -/
theorem odds_ratio_nonneg (q : Rat)
    (h : G.odds_ratio logF (fin a) (fin d) (fin b) (fin c) (fin ((a+d+b+c : Nat) : Rat)) = fin q) : 0 ≤ q := by
  rw [odds_ratio_zero_cells] at h
  by_cases hbc : b * c = 0
  · rw [if_pos hbc] at h; split_ifs at h
  · rw [if_neg hbc] at h
    injection h with h
    subst h; positivity

/-- Yule's Q lies in [−1, 1] -/
theorem orss_range (q : Rat)
    (h : G.odds_ratio_skill_score logF (fin a) (fin d) (fin b) (fin c) (fin ((a+d+b+c : Nat) : Rat)) = fin q) :
    -1 ≤ q ∧ q ≤ 1 := by
  rw [orss_zero_cells] at h
  by_cases hz : a * d = 0 ∧ b * c = 0
  · rw [if_pos hz] at h; cases h
  · rw [if_neg hz] at h
    injection h with h
    subst h
    have h1 : (0 : Rat) ≤ (a : Rat) * d := by positivity
    have h2 : (0 : Rat) ≤ (b : Rat) * c := by positivity
    have hpos : (0 : Rat) < (a : Rat) * d + b * c := by
      rcases h1.lt_or_eq with h | h
      · linarith
      · rcases h2.lt_or_eq with h' | h'
        · linarith
        · exfalso; apply hz
          constructor
          · exact_mod_cast h.symm
          · exact_mod_cast h'.symm
    constructor
    · rw [le_div_iff₀ hpos]; linarith
    · rw [div_le_one hpos]; linarith

/-- the Peirce skill score lies in [−1, 1] -/
theorem peirce_range (q : Rat)
    (h : G.peirce_skill_score logF (fin a) (fin d) (fin b) (fin c) (fin ((a+d+b+c : Nat) : Rat)) = fin q) :
    -1 ≤ q ∧ q ≤ 1 := by
  rw [peirce_zero_cells] at h
  by_cases hz : a + c = 0 ∨ b + d = 0
  · rw [if_pos hz] at h; cases h
  · rw [if_neg hz] at h
    injection h with h
    subst h
    have ha0 : (0 : Rat) ≤ a := by positivity
    have hb0 : (0 : Rat) ≤ b := by positivity
    have hc0 : (0 : Rat) ≤ c := by positivity
    have hd0 : (0 : Rat) ≤ d := by positivity
    have h1 : (0 : Rat) < (a : Rat) + c := by
      have : 0 < a + c := Nat.pos_of_ne_zero fun e => hz (Or.inl e)
      exact_mod_cast this
    have h2 : (0 : Rat) < (b : Rat) + d := by
      have : 0 < b + d := Nat.pos_of_ne_zero fun e => hz (Or.inr e)
      exact_mod_cast this
    have hpos : (0 : Rat) < ((a : Rat) + c) * (b + d) := by positivity
    constructor
    · rw [le_div_iff₀ hpos]
      nlinarith [mul_nonneg ha0 hb0, mul_nonneg ha0 hd0, mul_nonneg hc0 hd0, mul_nonneg hb0 hc0]
    · rw [div_le_one hpos]
      nlinarith [mul_nonneg ha0 hb0, mul_nonneg ha0 hd0, mul_nonneg hc0 hd0, mul_nonneg hb0 hc0]

/-- the Heidke skill score lies in [−1, 1] -/
theorem hss_range (q : Rat)
    (h : G.heidke_skill_score logF (fin a) (fin d) (fin b) (fin c) (fin ((a+d+b+c : Nat) : Rat)) = fin q) :
    -1 ≤ q ∧ q ≤ 1 := by
  rw [hss_zero_cells] at h
  by_cases hz : b = 0 ∧ c = 0 ∧ (a = 0 ∨ d = 0)
  · rw [if_pos hz] at h; cases h
  · rw [if_neg hz] at h
    injection h with h
    subst h
    have ha0 : (0 : Rat) ≤ a := by positivity
    have hb0 : (0 : Rat) ≤ b := by positivity
    have hc0 : (0 : Rat) ≤ c := by positivity
    have hd0 : (0 : Rat) ≤ d := by positivity
    have hpos := hss_den_pos a b c d hz
    constructor
    · rw [le_div_iff₀ hpos]
      nlinarith [mul_nonneg ha0 hb0, mul_nonneg ha0 hd0, mul_nonneg hc0 hd0, mul_nonneg ha0 hc0,
        mul_nonneg hb0 hd0, sq_nonneg ((b : Rat) - c)]
    · rw [div_le_one hpos]
      nlinarith [mul_nonneg ha0 hb0, mul_nonneg ha0 hd0, mul_nonneg hc0 hd0, mul_nonneg ha0 hc0,
        mul_nonneg hb0 hd0, mul_nonneg hb0 hc0, mul_nonneg hb0 hb0, mul_nonneg hc0 hc0]

/-- the equitable threat score lies in [−1/3, 1]; as a single fraction it is (ad − bc)/(b² + c² + ab + ac + bc + (a+b+c)d) -/
theorem ets_range (q : Rat)
    (h : G.equitable_threat_score logF (fin a) (fin d) (fin b) (fin c) (fin ((a+d+b+c : Nat) : Rat)) = fin q) :
    -(1/3) ≤ q ∧ q ≤ 1 := by
  rw [ets_zero_cells] at h
  by_cases hz : b = 0 ∧ c = 0 ∧ (a = 0 ∨ d = 0)
  · rw [if_pos hz] at h; cases h
  · rw [if_neg hz] at h
    injection h with h
    have ha0 : (0 : Rat) ≤ a := by positivity
    have hb0 : (0 : Rat) ≤ b := by positivity
    have hc0 : (0 : Rat) ≤ c := by positivity
    have hd0 : (0 : Rat) ≤ d := by positivity
    have hD := ets_den_pos a b c d hz
    have hn := total_ne_zero a b c d hz
    have k1 : ((a : Rat) - ((a : Rat) + c) * (a + b) / (a + d + b + c)) * (a + d + b + c) = (a : Rat) * d - b * c := by
      field_simp; ring
    have k2 : ((a : Rat) + c + b - ((a : Rat) + c) * (a + b) / (a + d + b + c)) * (a + d + b + c)
        = (b : Rat) * b + c * c + a * b + a * c + b * c + ((a : Rat) + b + c) * d := by
      field_simp; ring
    have hq : q = ((a : Rat) * d - b * c) / ((b : Rat) * b + c * c + a * b + a * c + b * c + ((a : Rat) + b + c) * d) := by
      rw [← h, ← k1, ← k2, mul_div_mul_right _ _ hn]
    rw [hq]
    constructor
    · rw [le_div_iff₀ hD]
      nlinarith [mul_nonneg ha0 hb0, mul_nonneg ha0 hd0, mul_nonneg hc0 hd0, mul_nonneg ha0 hc0,
        mul_nonneg hb0 hd0, sq_nonneg ((b : Rat) - c)]
    · rw [div_le_one hD]
      nlinarith [mul_nonneg ha0 hb0, mul_nonneg ha0 hd0, mul_nonneg hc0 hd0, mul_nonneg ha0 hc0,
        mul_nonneg hb0 hd0, mul_nonneg hb0 hc0, mul_nonneg hb0 hb0, mul_nonneg hc0 hc0]

/-! Non-vacuity of the range hypotheses: on Finley's tornado table (tp 28, fp 72, fn 23, tn 2680) every one of the
    metrics above is a number, so each range theorem applies (the kernel evaluates the generated definition). -/
example : (0 : Rat) ≤ 28 / 51 ∧ (28 / 51 : Rat) ≤ 1 := pod_range id 28 72 23 2680 _ (by decide +kernel)
example : (0 : Rat) ≤ 72 / 100 ∧ (72 / 100 : Rat) ≤ 1 := false_alarm_ratio_range id 28 72 23 2680 _ (by decide +kernel)
example : (0 : Rat) ≤ 72 / 2752 ∧ (72 / 2752 : Rat) ≤ 1 := false_alarm_rate_range id 28 72 23 2680 _ (by decide +kernel)
example : (0 : Rat) ≤ 28 / 100 ∧ (28 / 100 : Rat) ≤ 1 := success_ratio_range id 28 72 23 2680 _ (by decide +kernel)
example : (0 : Rat) ≤ 28 / 123 ∧ (28 / 123 : Rat) ≤ 1 := threat_score_range id 28 72 23 2680 _ (by decide +kernel)
example : (0 : Rat) ≤ 2708 / 2803 ∧ (2708 / 2803 : Rat) ≤ 1 := accuracy_range id 28 72 23 2680 _ (by decide +kernel)
example : (0 : Rat) ≤ 2680 / 2752 ∧ (2680 / 2752 : Rat) ≤ 1 := specificity_range id 28 72 23 2680 _ (by decide +kernel)
example : (0 : Rat) ≤ 2680 / 2703 ∧ (2680 / 2703 : Rat) ≤ 1 := npv_range id 28 72 23 2680 _ (by decide +kernel)
example : (0 : Rat) ≤ 51 / 2803 ∧ (51 / 2803 : Rat) ≤ 1 := base_rate_range id 28 72 23 2680 _ (by decide +kernel)
example : (0 : Rat) ≤ 100 / 2803 ∧ (100 / 2803 : Rat) ≤ 1 := forecast_rate_range id 28 72 23 2680 _ (by decide +kernel)
example : (0 : Rat) ≤ 56 / 151 ∧ (56 / 151 : Rat) ≤ 1 := f1_range id 28 72 23 2680 _ (by decide +kernel)
example : (0 : Rat) ≤ (28 * 2680) / (72 * 23) := odds_ratio_nonneg id 28 72 23 2680 _ (by decide +kernel)
example : (-1 : Rat) ≤ (28 * 2680 - 72 * 23) / (28 * 2680 + 72 * 23) ∧ ((28 * 2680 - 72 * 23) / (28 * 2680 + 72 * 23) : Rat) ≤ 1 :=
  orss_range id 28 72 23 2680 _ (by decide +kernel)
example : (-1 : Rat) ≤ (28 * 2680 - 72 * 23) / (51 * 2752) ∧ ((28 * 2680 - 72 * 23) / (51 * 2752) : Rat) ≤ 1 :=
  peirce_range id 28 72 23 2680 _ (by decide +kernel)
example : (-1 : Rat) ≤ 2 * (28 * 2680 - 72 * 23) / (51 * 2703 + 100 * 2752)
    ∧ (2 * (28 * 2680 - 72 * 23) / (51 * 2703 + 100 * 2752) : Rat) ≤ 1 :=
  hss_range id 28 72 23 2680 _ (by decide +kernel)
example : (-(1/3) : Rat) ≤ (28 - 51 * 100 / 2803) / (123 - 51 * 100 / 2803)
    ∧ ((28 - 51 * 100 / 2803) / (123 - 51 * 100 / 2803) : Rat) ≤ 1 :=
  ets_range id 28 72 23 2680 _ (by decide +kernel)

/-! ## Concrete instances (non-vacuity of the hypotheses, and the degenerate values themselves). -/

-- Finley's tornado table (tp 28, fp 72, fn 23, tn 2680): all range hypotheses are met with a proper fraction
example : G.probability_of_detection id (fin (28 : Nat)) (fin (2680 : Nat)) (fin (72 : Nat)) (fin (23 : Nat))
    (fin ((28+2680+72+23 : Nat) : Rat)) = fin (28 / 51) := by decide +kernel
example : G.false_alarm_rate id (fin (28 : Nat)) (fin (2680 : Nat)) (fin (72 : Nat)) (fin (23 : Nat))
    (fin ((28+2680+72+23 : Nat) : Rat)) = fin (72 / 2752) := by decide +kernel
example : G.odds_ratio id (fin (28 : Nat)) (fin (2680 : Nat)) (fin (72 : Nat)) (fin (23 : Nat))
    (fin ((28+2680+72+23 : Nat) : Rat)) = fin ((28 * 2680) / (72 * 23)) := by decide +kernel
example : G.heidke_skill_score id (fin (28 : Nat)) (fin (2680 : Nat)) (fin (72 : Nat)) (fin (23 : Nat))
    (fin ((28+2680+72+23 : Nat) : Rat)) = fin (2 * (28 * 2680 - 72 * 23) / ((28 + 23) * (23 + 2680) + (28 + 72) * (72 + 2680))) := by
  decide +kernel
-- degenerate tables (a b c d = tp fp fn tn): the claimed special values, evaluated by the kernel
example : G.odds_ratio id (fin (2 : Nat)) (fin (3 : Nat)) (fin (0 : Nat)) (fin (0 : Nat)) (fin ((2+3+0+0 : Nat) : Rat)) = pinf := by
  decide +kernel      -- perfect forecast: +inf
example : G.odds_ratio id (fin (2 : Nat)) (fin (0 : Nat)) (fin (1 : Nat)) (fin (0 : Nat)) (fin ((2+0+1+0 : Nat) : Rat)) = nan := by
  decide +kernel      -- c = d = 0: inf/inf
example : G.odds_ratio id (fin (0 : Nat)) (fin (3 : Nat)) (fin (0 : Nat)) (fin (2 : Nat)) (fin ((0+3+0+2 : Nat) : Rat)) = nan := by
  decide +kernel      -- a = b = 0: 0/0
example : G.odds_ratio id (fin (2 : Nat)) (fin (0 : Nat)) (fin (1 : Nat)) (fin (3 : Nat)) (fin ((2+0+1+3 : Nat) : Rat)) = fin 0 := by
  decide +kernel      -- d = 0 < b, c: finite/inf = 0
example : G.odds_ratio id (fin (2 : Nat)) (fin (3 : Nat)) (fin (0 : Nat)) (fin (1 : Nat)) (fin ((2+3+0+1 : Nat) : Rat)) = pinf := by
  decide +kernel      -- b = 0 < a: positive/0
example : G.heidke_skill_score id (fin (0 : Nat)) (fin (0 : Nat)) (fin (0 : Nat)) (fin (0 : Nat)) (fin ((0+0+0+0 : Nat) : Rat)) = nan := by
  decide +kernel
example : G.heidke_skill_score id (fin (5 : Nat)) (fin (0 : Nat)) (fin (0 : Nat)) (fin (0 : Nat)) (fin ((5+0+0+0 : Nat) : Rat)) = nan := by
  decide +kernel
example : G.equitable_threat_score id (fin (0 : Nat)) (fin (4 : Nat)) (fin (0 : Nat)) (fin (0 : Nat)) (fin ((0+4+0+0 : Nat) : Rat)) = nan := by
  decide +kernel
example : G.equitable_threat_score id (fin (0 : Nat)) (fin (0 : Nat)) (fin (3 : Nat)) (fin (0 : Nat)) (fin ((0+0+3+0 : Nat) : Rat)) = fin 0 := by
  decide +kernel
example : G.peirce_skill_score id (fin (0 : Nat)) (fin (4 : Nat)) (fin (1 : Nat)) (fin (0 : Nat)) (fin ((0+4+1+0 : Nat) : Rat)) = nan := by
  decide +kernel
example : G.odds_ratio_skill_score id (fin (0 : Nat)) (fin (4 : Nat)) (fin (0 : Nat)) (fin (2 : Nat)) (fin ((0+4+0+2 : Nat) : Rat)) = nan := by
  decide +kernel

end SV.Props.C09Zero
