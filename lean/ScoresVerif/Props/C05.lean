/-
  C05 — point and interval scores equal their textbook definitions on every input.

  The theorems are about `SV.Gen.Point.*` (the pointwise kernels REGENERATED from /repo's
  functions.py, standard_impl.py, quantile_loss_impl.py, interval_impl.py on every run) composed
  with the hand model of the reduction (`SV.Model.PointScores`, tied by correspondence), against the
  hand-written textbook definitions `SV.Spec.PointScores`.  `sqrt` is uninterpreted in the model;
  the statements that need it are made over ℝ with `Real.sqrt`.
-/
import ScoresVerif.Gen.Point
import ScoresVerif.Model.PointScores
import ScoresVerif.Spec.PointScores
import ScoresVerif.Lemmas.PointScores
import Mathlib.Analysis.Real.Sqrt

namespace SV.Props.C05
open SV
open SV.Fl (fin nan pinf ninf)
namespace G
export SV.Gen.Point (angular_difference apply_weights mse_kernel mae_kernel additive_bias_kernel rmse_of_mse
  multiplicative_bias_ratio pbias_ratio pbias_error kge_alpha kge_beta kge_value quantile_kernel quantile_score_guard
  qis_interval_width_penalty qis_overprediction_penalty qis_underprediction_penalty qis_total qis_level_guard
  qis_order_guard interval_score_guard interval_interval_width_penalty interval_overprediction_penalty
  interval_underprediction_penalty interval_total interval_lower_level interval_upper_level)
end G
namespace S
export SV.Spec.PointScores (rmax rmin RCase RPair sumBy meanBy angDiff err mse mae additiveBias multiplicativeBias pbias
  pinball quantileScore qisWidth qisOver qisUnder qisTotal intervalTotal psum pmean meanF meanO varF varO covFO mseP biasP
  kgeRadicand meanList)
end S
namespace M
export SV.Model.PointScores (Case ICase applyW meanScore matchNan weightedPairs multiplicativeBias pbias meanIScore
  anyGuard moments Moments)
end M

/-! ## 1. Quantile (pinball) score -/

/-- the kernel is the textbook max form `max (α(o−f)) ((1−α)(f−o))`, for EVERY α (no domain needed) -/
theorem pinball_eq_spec (α f o : Rat) :
    G.quantile_kernel (fin α) (fin f) (fin o) = fin (S.pinball α f o) := by
  unfold SV.Gen.Point.quantile_kernel SV.Spec.PointScores.pinball
  simp only [Fl.sub_fin, Fl.neg_fin, Fl.mul_fin, Fl.gt_fin, rmax_eq_max]
  have key : (1 - α) * (f - o) = (f - o) + α * (o - f) := by ring
  by_cases h : 0 < f - o
  · simp only [h, decide_true, if_true]
    rw [max_eq_right (by rw [key]; linarith)]
  · simp only [h, decide_false, Bool.false_eq_true, if_false]
    rw [max_eq_left (by rw [key]; linarith)]
    congr 1; ring

/-- branch form: over-forecast costs `(1−α)(f−o)`, under-forecast (and the tie) costs `α(o−f)` -/
theorem pinball_branches (α f o : Rat) :
    S.pinball α f o = if o < f then (1 - α) * (f - o) else α * (o - f) := by
  unfold SV.Spec.PointScores.pinball; rw [rmax_eq_max]
  have key : (1 - α) * (f - o) = (f - o) + α * (o - f) := by ring
  split_ifs with h
  · exact max_eq_right (by rw [key]; linarith)
  · exact max_eq_left (by rw [key]; linarith)

theorem pinball_nonneg (α f o : Rat) (h0 : 0 < α) (h1 : α < 1) : 0 ≤ S.pinball α f o := by
  rw [pinball_branches]
  split_ifs with h
  · exact mul_nonneg (by linarith) (by linarith)
  · exact mul_nonneg h0.le (by linarith)
example : (0 : Rat) < 1/4 ∧ (1/4 : Rat) < 1 := by norm_num

/-- a forecast equal to the observation scores 0 at every level -/
theorem pinball_tie (α x : Rat) : G.quantile_kernel (fin α) (fin x) (fin x) = fin 0 := by
  rw [pinball_eq_spec, pinball_branches]; simp

/-- a missing forecast or observation gives a missing score (which the mean then skips) -/
theorem pinball_nan (α : Rat) (x : Fl) :
    G.quantile_kernel (fin α) nan x = nan ∧ G.quantile_kernel (fin α) x nan = nan := by
  unfold SV.Gen.Point.quantile_kernel
  constructor <;> simp

/-- the alpha guard rejects exactly the complement of the open interval (0,1) -/
theorem quantile_guard_iff (α : Rat) : G.quantile_score_guard (fin α) = true ↔ ¬ (0 < α ∧ α < 1) := by
  unfold SV.Gen.Point.quantile_score_guard
  simp only [Fl.le_fin, Fl.ge_fin, Bool.or_eq_true, decide_eq_true_eq, not_and_or, not_lt]

/-! ## 2. Quantile-interval score and interval score -/

section interval
variable (l u y a b r : Rat)

/-- total = width + over-prediction penalty + under-prediction penalty, for EVERY value (NaN, inf included) -/
theorem qis_total_eq_width_plus_penalties (L U Y A B : Fl) :
    G.qis_total L U Y A B =
      Fl.add (Fl.add (G.qis_interval_width_penalty L U Y A B) (G.qis_overprediction_penalty L U Y A B))
        (G.qis_underprediction_penalty L U Y A B) := rfl

theorem qis_width_eq_spec :
    G.qis_interval_width_penalty (fin l) (fin u) (fin y) (fin a) (fin b) = fin (S.qisWidth l u) := by
  unfold SV.Gen.Point.qis_interval_width_penalty SV.Spec.PointScores.qisWidth
  simp only [Fl.sub_fin]

/-- over-prediction penalty `(l − y)⁺ / a` (the clip at 0 commutes with the positive factor 1/a) -/
theorem qis_over_eq_spec (ha : 0 < a) :
    G.qis_overprediction_penalty (fin l) (fin u) (fin y) (fin a) (fin b) = fin (S.qisOver l y a) := by
  unfold SV.Gen.Point.qis_overprediction_penalty SV.Spec.PointScores.qisOver
  simp only [Fl.sub_fin, Fl.div_fin _ _ ha.ne', Fl.mul_fin, Fl.max_fin, rmax_eq_max]
  congr 1
  rcases le_total (l - y) 0 with h | h
  · rw [max_eq_right (by have := one_div_pos.mpr ha; nlinarith), max_eq_left h]; simp
  · rw [max_eq_left (by have := one_div_pos.mpr ha; nlinarith), max_eq_right h]; ring

/-- under-prediction penalty `(y − u)⁺ / (1 − b)` -/
theorem qis_under_eq_spec (hb : b < 1) :
    G.qis_underprediction_penalty (fin l) (fin u) (fin y) (fin a) (fin b) = fin (S.qisUnder u y b) := by
  unfold SV.Gen.Point.qis_underprediction_penalty SV.Spec.PointScores.qisUnder
  have hb' : (0 : Rat) < 1 - b := by linarith
  simp only [Fl.sub_fin, Fl.div_fin _ _ hb'.ne', Fl.mul_fin, Fl.max_fin, rmax_eq_max]
  congr 1
  rcases le_total (y - u) 0 with h | h
  · rw [max_eq_right (by have := one_div_pos.mpr hb'; nlinarith), max_eq_left h]; simp
  · rw [max_eq_left (by have := one_div_pos.mpr hb'; nlinarith), max_eq_right h]; ring

theorem qis_total_eq_spec (ha : 0 < a) (hb : b < 1) :
    G.qis_total (fin l) (fin u) (fin y) (fin a) (fin b) = fin (S.qisTotal l u y a b) := by
  rw [qis_total_eq_width_plus_penalties, qis_width_eq_spec, qis_over_eq_spec l u y a b ha,
    qis_under_eq_spec l u y a b hb]
  simp only [Fl.add_fin, SV.Spec.PointScores.qisTotal]
example : (0 : Rat) < 1/4 ∧ (3/4 : Rat) < 1 := by norm_num

theorem qis_penalties_nonneg (ha : 0 < a) (hb : b < 1) : 0 ≤ S.qisOver l y a ∧ 0 ≤ S.qisUnder u y b := by
  unfold SV.Spec.PointScores.qisOver SV.Spec.PointScores.qisUnder
  simp only [rmax_eq_max]
  exact ⟨div_nonneg (le_max_left _ _) ha.le, div_nonneg (le_max_left _ _) (by linarith)⟩

/-- the level guard rejects exactly the complement of `0 < a < b < 1` (Python's chained comparison) -/
theorem qis_level_guard_iff : G.qis_level_guard (fin a) (fin b) = true ↔ ¬ (0 < a ∧ a < b ∧ b < 1) := by
  unfold SV.Gen.Point.qis_level_guard
  simp only [Fl.lt_fin, Bool.not_eq_true', Bool.and_eq_false_iff, decide_eq_false_iff_not, not_and_or, or_assoc]

/-- the data guard fires exactly when lower > upper (NaN on either side never fires) -/
theorem qis_order_guard_iff : G.qis_order_guard (fin l) (fin u) = true ↔ u < l := by
  unfold SV.Gen.Point.qis_order_guard; simp
theorem qis_order_guard_nan (x : Fl) : G.qis_order_guard nan x = false ∧ G.qis_order_guard x nan = false := by
  unfold SV.Gen.Point.qis_order_guard; simp

/-- `interval_score` IS `quantile_interval_score` at the symmetric levels -/
theorem interval_eq_qis_symmetric (L U Y R : Fl) :
    G.interval_total L U Y R = G.qis_total L U Y (G.interval_lower_level R) (G.interval_upper_level R)
    ∧ G.interval_interval_width_penalty L U Y R =
        G.qis_interval_width_penalty L U Y (G.interval_lower_level R) (G.interval_upper_level R)
    ∧ G.interval_overprediction_penalty L U Y R =
        G.qis_overprediction_penalty L U Y (G.interval_lower_level R) (G.interval_upper_level R)
    ∧ G.interval_underprediction_penalty L U Y R =
        G.qis_underprediction_penalty L U Y (G.interval_lower_level R) (G.interval_upper_level R) :=
  ⟨rfl, rfl, rfl, rfl⟩

theorem interval_levels :
    G.interval_lower_level (fin r) = fin ((1 - r) / 2) ∧ G.interval_upper_level (fin r) = fin ((1 + r) / 2) := by
  unfold SV.Gen.Point.interval_lower_level SV.Gen.Point.interval_upper_level
  simp [Fl.div_fin]

/-- the interval score is the textbook `(u − l) + (2/α)(l − y)⁺ + (2/α)(y − u)⁺`, α = 1 − r -/
theorem interval_total_eq_textbook (h1 : r < 1) :
    G.interval_total (fin l) (fin u) (fin y) (fin r) = fin (S.intervalTotal l u y r) := by
  rw [(interval_eq_qis_symmetric _ _ _ _).1, (interval_levels r).1, (interval_levels r).2,
    qis_total_eq_spec l u y _ _ (by linarith) (by linarith)]
  congr 1
  unfold SV.Spec.PointScores.qisTotal SV.Spec.PointScores.qisWidth SV.Spec.PointScores.qisOver
    SV.Spec.PointScores.qisUnder SV.Spec.PointScores.intervalTotal
  have hr : (1 : Rat) - r ≠ 0 := by linarith
  have h2 : (1 : Rat) - (1 + r) / 2 = (1 - r) / 2 := by ring
  rw [h2]
  generalize SV.Spec.PointScores.rmax 0 (l - y) = P
  generalize SV.Spec.PointScores.rmax 0 (y - u) = Q
  field_simp
example : (1/2 : Rat) < 1 := by norm_num

/-- interval score = (2/α)·(pinball_{α/2}(l, y) + pinball_{1−α/2}(u, y)), α = 1 − r, whenever l ≤ u -/
theorem interval_eq_scaled_pinball_sum (hlu : l ≤ u) (h1 : r < 1) :
    S.intervalTotal l u y r =
      2 / (1 - r) * (S.pinball ((1 - r) / 2) l y + S.pinball (1 - (1 - r) / 2) u y) := by
  have hr : (1 : Rat) - r ≠ 0 := by linarith
  unfold SV.Spec.PointScores.intervalTotal
  rw [pinball_branches, pinball_branches]
  simp only [rmax_eq_max]
  split_ifs with h1' h2' h2'
  · rw [max_eq_right (by linarith), max_eq_left (by linarith)]; field_simp; ring
  · rw [max_eq_right (by linarith), max_eq_right (by linarith)]; exfalso; linarith
  · rw [max_eq_left (by linarith), max_eq_left (by linarith)]; field_simp; ring
  · rw [max_eq_left (by linarith), max_eq_right (by linarith)]; field_simp; ring
example : (0 : Rat) ≤ 1 ∧ (1/2 : Rat) < 1 := by norm_num

/-- an observation exactly on an interval end incurs no penalty: the score is the width -/
theorem interval_obs_on_end (hlu : l ≤ u) :
    S.intervalTotal l u l r = u - l ∧ S.intervalTotal l u u r = u - l := by
  unfold SV.Spec.PointScores.intervalTotal
  simp only [rmax_eq_max, sub_self, max_self, mul_zero, add_zero]
  constructor
  · rw [max_eq_left (by linarith)]; ring
  · rw [max_eq_left (by linarith)]; ring

theorem interval_guard_iff : G.interval_score_guard (fin r) = true ↔ ¬ (0 < r ∧ r < 1) := by
  unfold SV.Gen.Point.interval_score_guard
  simp only [Fl.le_fin, Fl.ge_fin, Bool.or_eq_true, decide_eq_true_eq, not_and_or, not_lt]

end interval

/-! ## 3. Angular difference -/

section angular
variable (a b : Rat)

/-- `min d (360 − d)` with `d = |a − b| mod 360` — the smaller of the two explementary angles -/
theorem angular_eq_spec : G.angular_difference (fin a) (fin b) = fin (S.angDiff a b) := by
  unfold SV.Gen.Point.angular_difference SV.Spec.PointScores.angDiff
  have h360 : (360 : Rat) ≠ 0 := by norm_num
  simp only [div_one]
  simp only [Fl.sub_fin, Fl.abs_fin, Fl.mod_fin _ _ h360, Fl.le_fin, Fl.whereB, rmin_eq_min, rabs_eq_abs]
  by_cases h : rmod |a - b| 360 ≤ 180
  · simp only [h, decide_true, if_true]; rw [min_eq_left (by linarith)]
  · simp only [h, decide_false, Bool.false_eq_true, if_false]; rw [min_eq_right (by linarith)]

theorem angular_nan (x : Fl) : G.angular_difference nan x = nan ∧ G.angular_difference x nan = nan := by
  unfold SV.Gen.Point.angular_difference
  constructor <;> simp [Fl.whereB]

/-- angles that are not finite have no direction: the difference is NaN (numpy: `inf % 360 = nan`) -/
theorem angular_inf (x : Rat) : G.angular_difference pinf (fin x) = nan := by
  unfold SV.Gen.Point.angular_difference
  simp [Fl.sub, Fl.neg, Fl.add, Fl.abs, Fl.mod, Fl.whereB, Fl.le]

/-- the folded value of an angle `x`: `min (x mod 360) (360 − x mod 360)` -/
def fold (x : Rat) : Rat := min (rmod x 360) (360 - rmod x 360)

theorem angDiff_eq_fold : S.angDiff a b = fold |a - b| := by
  unfold SV.Spec.PointScores.angDiff fold; simp only [rmin_eq_min, rabs_eq_abs]

theorem fold_neg (x : Rat) : fold (-x) = fold x := by
  unfold fold
  rw [rmod_neg x 360 (by norm_num)]
  split_ifs with h
  · rw [h]
  · rw [min_comm]; congr 1; ring

theorem fold_abs (x : Rat) : fold |x| = fold x := by
  rcases abs_cases x with ⟨h, _⟩ | ⟨h, _⟩ <;> rw [h]
  exact fold_neg x

theorem fold_add_turns (x : Rat) (k : Int) : fold (x + 360 * k) = fold x := by
  unfold fold; rw [rmod_add_int_mul x 360 k (by norm_num)]

/-- range: the difference lies in [0, 180] -/
theorem angular_range : 0 ≤ S.angDiff a b ∧ S.angDiff a b ≤ 180 := by
  rw [angDiff_eq_fold]; unfold fold
  have h0 := rmod_nonneg |a - b| 360 (by norm_num)
  have h1 := rmod_lt |a - b| 360 (by norm_num)
  constructor
  · exact le_min h0 (by linarith)
  · rcases le_total (rmod |a - b| 360) 180 with h | h
    · exact le_trans (min_le_left _ _) h
    · exact le_trans (min_le_right _ _) (by linarith)

theorem angular_symmetric : S.angDiff a b = S.angDiff b a := by
  rw [angDiff_eq_fold, angDiff_eq_fold, abs_sub_comm]

theorem angular_self : S.angDiff a a = 0 := by
  rw [angDiff_eq_fold]; unfold fold
  have : rmod |a - a| 360 = 0 := by
    apply rmod_unique _ 360 0 0 (by norm_num) le_rfl (by norm_num); simp
  rw [this]; norm_num

/-- 360-periodicity in either argument, for every whole number of turns (so also angles beyond ±360) -/
theorem angular_periodic (k : Int) :
    S.angDiff (a + 360 * k) b = S.angDiff a b ∧ S.angDiff a (b + 360 * k) = S.angDiff a b := by
  constructor
  · rw [angDiff_eq_fold, angDiff_eq_fold, fold_abs, fold_abs]
    have : a + 360 * (k : Rat) - b = (a - b) + 360 * (k : Rat) := by ring
    rw [this, fold_add_turns]
  · rw [angular_symmetric a (b + 360 * k), angular_symmetric a b, angDiff_eq_fold, angDiff_eq_fold, fold_abs, fold_abs]
    have : b + 360 * (k : Rat) - a = (b - a) + 360 * (k : Rat) := by ring
    rw [this, fold_add_turns]

/-- directions exactly opposite are 180 apart -/
theorem angular_opposite : S.angDiff (a + 180) a = 180 := by
  rw [angDiff_eq_fold]; unfold fold
  have : rmod |a + 180 - a| 360 = 180 := by
    apply rmod_unique _ 360 180 0 (by norm_num) (by norm_num) (by norm_num)
    simp
  rw [this]; norm_num

/-- angular MSE / MAE are the plain kernels applied to the angular difference -/
theorem angular_kernels (f o : Fl) :
    G.mse_kernel true f o = Fl.mul (G.angular_difference f o) (G.angular_difference f o)
    ∧ G.mae_kernel true f o = Fl.abs (G.angular_difference f o) := ⟨rfl, rfl⟩

end angular

/-! ## 4. Mean-type scores: kernel + weights + NaN-skipping mean = the textbook mean over the valid cases,
    for fibres of ANY length -/

section means

/-- a valid weighted case `(f, o, w)` as the model sees it -/
def caseW (c : S.RCase) : M.Case := { f := fin c.1, o := fin c.2.1, w := some (fin c.2.2) }
/-- a valid case without weights (`weights=None`) -/
def caseU (p : Rat × Rat) : M.Case := { f := fin p.1, o := fin p.2, w := none }
/-- the same case with the neutral weight 1 -/
def unit (p : Rat × Rat) : S.RCase := (p.1, p.2, 1)

/-- generic step: if the weighted kernel value of every valid case is the rational `g c`, the model's mean is
    the textbook mean of `g` (and NaN for an empty fibre) -/
theorem meanScore_eq (k : Fl → Fl → Fl) (g : S.RCase → Rat)
    (hk : ∀ c : S.RCase, M.applyW (k (fin c.1) (fin c.2.1)) (some (fin c.2.2)) = fin (g c)) (cs : List S.RCase) :
    M.meanScore k (cs.map caseW) = S.meanBy g cs := by
  unfold SV.Model.PointScores.meanScore SV.Spec.PointScores.meanBy SV.Spec.PointScores.sumBy
  have hmap : (cs.map caseW).map (fun c => M.applyW (k c.f c.o) c.w) = (cs.map g).map fin := by
    simp only [List.map_map]; apply List.map_congr_left; intro c _; exact hk c
  rw [hmap]
  by_cases h : cs = []
  · subst h; rfl
  · have h' : cs.map g ≠ [] := by simpa using h
    rw [nanmean_map_fin _ h']
    simp [h]

theorem meanScore_eq_unweighted (k : Fl → Fl → Fl) (g : S.RCase → Rat)
    (hk : ∀ p : Rat × Rat, k (fin p.1) (fin p.2) = fin (g (unit p))) (ps : List (Rat × Rat)) :
    M.meanScore k (ps.map caseU) = S.meanBy g (ps.map unit) := by
  unfold SV.Model.PointScores.meanScore SV.Spec.PointScores.meanBy SV.Spec.PointScores.sumBy
  have hmap : (ps.map caseU).map (fun c => M.applyW (k c.f c.o) c.w) = ((ps.map unit).map g).map fin := by
    simp only [List.map_map]; apply List.map_congr_left; intro c _; exact hk c
  rw [hmap]
  by_cases h : ps = []
  · subst h; rfl
  · have h' : (ps.map unit).map g ≠ [] := by simpa using h
    rw [nanmean_map_fin _ h']
    simp [h]

/-- a case whose weighted score is missing (NaN forecast, observation or weight) is dropped from the sum
    AND from the count -/
theorem meanScore_drops_missing (k : Fl → Fl → Fl) (c : M.Case) (cs : List M.Case)
    (h : (M.applyW (k c.f c.o) c.w).isNan = true) : M.meanScore k (c :: cs) = M.meanScore k cs := by
  unfold SV.Model.PointScores.meanScore
  rw [List.map_cons, nanmean_cons_nan _ _ h]

theorem apply_weights_eq (v w : Fl) :
    G.apply_weights v w true = M.applyW v (some w) ∧ G.apply_weights v w false = M.applyW v none := ⟨rfl, rfl⟩

theorem mse_eq_spec (ang : Bool) (cs : List S.RCase) :
    M.meanScore (G.mse_kernel ang) (cs.map caseW) = S.mse ang cs := by
  apply meanScore_eq
  intro c
  cases ang
  · show Fl.mul (Fl.mul (Fl.sub (fin c.1) (fin c.2.1)) (Fl.sub (fin c.1) (fin c.2.1))) (fin c.2.2) = _
    simp only [Fl.sub_fin, Fl.mul_fin, SV.Spec.PointScores.err]; congr 1; simp; ring
  · show Fl.mul (Fl.mul (G.angular_difference (fin c.1) (fin c.2.1)) (G.angular_difference (fin c.1) (fin c.2.1))) (fin c.2.2) = _
    rw [angular_eq_spec]; simp only [Fl.mul_fin, SV.Spec.PointScores.err]; congr 1; simp; ring

theorem mae_eq_spec (ang : Bool) (cs : List S.RCase) :
    M.meanScore (G.mae_kernel ang) (cs.map caseW) = S.mae ang cs := by
  apply meanScore_eq
  intro c
  cases ang
  · show Fl.mul (Fl.abs (Fl.sub (fin c.1) (fin c.2.1))) (fin c.2.2) = _
    simp only [Fl.sub_fin, Fl.abs_fin, Fl.mul_fin, SV.Spec.PointScores.err, rabs_eq_abs]; congr 1; simp; ring
  · show Fl.mul (Fl.abs (G.angular_difference (fin c.1) (fin c.2.1))) (fin c.2.2) = _
    rw [angular_eq_spec]; simp only [Fl.abs_fin, Fl.mul_fin, SV.Spec.PointScores.err, rabs_eq_abs]; congr 1; simp; ring

theorem additive_bias_eq_spec (cs : List S.RCase) :
    M.meanScore G.additive_bias_kernel (cs.map caseW) = S.additiveBias cs := by
  apply meanScore_eq
  intro c
  show Fl.mul (Fl.sub (fin c.1) (fin c.2.1)) (fin c.2.2) = _
  simp only [Fl.sub_fin, Fl.mul_fin]; congr 1; ring

theorem quantile_score_eq_spec (α : Rat) (cs : List S.RCase) :
    M.meanScore (G.quantile_kernel (fin α)) (cs.map caseW) = S.quantileScore α cs := by
  apply meanScore_eq
  intro c
  show Fl.mul (G.quantile_kernel (fin α) (fin c.1) (fin c.2.1)) (fin c.2.2) = _
  rw [pinball_eq_spec]; simp only [Fl.mul_fin]; congr 1; ring

/-- without weights the scores are the plain means: MSE = (1/n) Σ (f − o)², MAE = (1/n) Σ |f − o| … -/
theorem mse_eq_spec_unweighted (ps : List (Rat × Rat)) :
    M.meanScore (G.mse_kernel false) (ps.map caseU) = S.mse false (ps.map unit) := by
  apply meanScore_eq_unweighted
  intro p
  show Fl.mul (Fl.sub (fin p.1) (fin p.2)) (Fl.sub (fin p.1) (fin p.2)) = _
  simp only [Fl.sub_fin, Fl.mul_fin, SV.Spec.PointScores.err, unit]; congr 1; simp

theorem mae_eq_spec_unweighted (ps : List (Rat × Rat)) :
    M.meanScore (G.mae_kernel false) (ps.map caseU) = S.mae false (ps.map unit) := by
  apply meanScore_eq_unweighted
  intro p
  show Fl.abs (Fl.sub (fin p.1) (fin p.2)) = _
  simp only [Fl.sub_fin, Fl.abs_fin, SV.Spec.PointScores.err, unit, rabs_eq_abs]; congr 1; simp

/-- a one-element reduction returns the per-case score itself -/
theorem mse_single (f o : Rat) :
    M.meanScore (G.mse_kernel false) [caseU (f, o)] = fin ((f - o) * (f - o)) := by
  have := mse_eq_spec_unweighted [(f, o)]
  simp only [List.map_cons, List.map_nil] at this
  rw [this]
  simp [SV.Spec.PointScores.mse, SV.Spec.PointScores.meanBy, SV.Spec.PointScores.sumBy, SV.Spec.PointScores.err, unit]

/-- kernels propagate a missing operand -/
theorem kernels_nan (b : Bool) (x : Fl) :
    G.mse_kernel b nan x = nan ∧ G.mse_kernel b x nan = nan ∧ G.mae_kernel b nan x = nan ∧ G.mae_kernel b x nan = nan
    ∧ G.additive_bias_kernel nan x = nan ∧ G.additive_bias_kernel x nan = nan := by
  have h1 := (angular_nan x).1
  have h2 := (angular_nan x).2
  cases b <;>
    simp [SV.Gen.Point.mse_kernel, SV.Gen.Point.mae_kernel, SV.Gen.Point.additive_bias_kernel, h1, h2]

end means

/-! ## 5. Ratio scores: sum-then-ratio -/

section ratios

/-- dividing numerator and denominator means by the same positive count does not change the IEEE quotient
    (including the ±inf / NaN outcomes at a zero denominator) -/
theorem div_fin_scale (A B n : Rat) (hn : 0 < n) :
    Fl.div (fin (A / n)) (fin (B / n)) = Fl.div (fin A) (fin B) := by
  by_cases hB : B = 0
  · subst hB
    rcases lt_trichotomy A 0 with hA | hA | hA
    · have : A / n < 0 := div_neg_of_neg_of_pos hA hn
      simp [Fl.div, hA, this, hA.ne, this.ne]
    · subst hA; simp [Fl.div]
    · have : 0 < A / n := div_pos hA hn
      simp [Fl.div, hA.ne', this.ne', not_lt.mpr hA.le, not_lt.mpr this.le]
  · have hBn : B / n ≠ 0 := div_ne_zero hB hn.ne'
    rw [Fl.div_fin _ _ hBn, Fl.div_fin _ _ hB]
    congr 1; field_simp

theorem weightedPairs_valid (cs : List S.RCase) :
    M.weightedPairs (cs.map caseW) = cs.map fun c => (fin (c.1 * c.2.2), fin (c.2.1 * c.2.2)) := by
  unfold SV.Model.PointScores.weightedPairs
  simp only [List.map_map]; apply List.map_congr_left; intro c _
  simp [caseW, SV.Model.PointScores.applyW, SV.Model.PointScores.matchNan]

theorem length_pos_rat {α : Type} (cs : List α) (h : cs ≠ []) : (0 : Rat) < (cs.length : Rat) := by
  have : cs.length ≠ 0 := fun h0 => h (List.length_eq_zero_iff.mp h0)
  exact_mod_cast Nat.pos_of_ne_zero this

/-- multiplicative bias = Σ wf / Σ wo, as an IEEE quotient -/
theorem multiplicative_bias_eq_spec (cs : List S.RCase) :
    M.multiplicativeBias G.multiplicative_bias_ratio (cs.map caseW) = S.multiplicativeBias cs := by
  unfold SV.Model.PointScores.multiplicativeBias SV.Spec.PointScores.multiplicativeBias SV.Spec.PointScores.sumBy
  rw [weightedPairs_valid]
  by_cases h : cs = []
  · subst h; rfl
  · simp only [List.map_map, List.isEmpty_iff, h, if_false]
    have e1 : (cs.map ((fun p : Fl × Fl => p.1) ∘ fun c : S.RCase => (fin (c.1 * c.2.2), fin (c.2.1 * c.2.2))))
        = (cs.map fun c => c.1 * c.2.2).map fin := by simp [List.map_map, Function.comp_def]
    have e2 : (cs.map ((fun p : Fl × Fl => p.2) ∘ fun c : S.RCase => (fin (c.1 * c.2.2), fin (c.2.1 * c.2.2))))
        = (cs.map fun c => c.2.1 * c.2.2).map fin := by simp [List.map_map, Function.comp_def]
    rw [e1, e2, nanmean_map_fin _ (by simpa using h), nanmean_map_fin _ (by simpa using h)]
    simp only [List.length_map]
    unfold SV.Gen.Point.multiplicative_bias_ratio
    rw [div_fin_scale _ _ _ (length_pos_rat cs h)]
    have hf : (fun c : S.RCase => c.1 * c.2.2) = fun c => c.2.2 * c.1 := by funext c; ring
    have hg : (fun c : S.RCase => c.2.1 * c.2.2) = fun c => c.2.2 * c.2.1 := by funext c; ring
    rw [hf, hg]

/-- the documented degenerate outcomes: Σ wo = 0 gives +inf, −inf or NaN by the sign of Σ wf -/
theorem multiplicative_bias_zero_obs (A : Rat) :
    Fl.div (fin A) (fin 0) = if A = 0 then nan else if A < 0 then ninf else pinf := by
  simp [Fl.div]

theorem multiplicative_bias_closed (cs : List S.RCase) (h : cs ≠ [])
    (hden : S.sumBy (fun c => c.2.2 * c.2.1) cs ≠ 0) :
    S.multiplicativeBias cs = fin (S.sumBy (fun c => c.2.2 * c.1) cs / S.sumBy (fun c => c.2.2 * c.2.1) cs) := by
  unfold SV.Spec.PointScores.multiplicativeBias
  simp only [List.isEmpty_iff, h, if_false]
  exact Fl.div_fin _ _ hden
example : ([(1, 2, 1)] : List S.RCase) ≠ [] ∧ S.sumBy (fun c => c.2.2 * c.2.1) [((1 : Rat), (2 : Rat), (1 : Rat))] ≠ 0 := by
  constructor
  · simp
  · simp [SV.Spec.PointScores.sumBy]

/-- percent bias = 100 · Σ w(f − o) / Σ wo -/
theorem pbias_eq_spec (cs : List S.RCase) :
    M.pbias G.pbias_error G.pbias_ratio (cs.map caseW) = S.pbias cs := by
  unfold SV.Model.PointScores.pbias SV.Spec.PointScores.pbias SV.Spec.PointScores.sumBy
  rw [weightedPairs_valid]
  by_cases h : cs = []
  · subst h; rfl
  · simp only [List.map_map, List.isEmpty_iff, h, if_false]
    have e1 : (cs.map ((fun p : Fl × Fl => G.pbias_error p.1 p.2) ∘ fun c : S.RCase => (fin (c.1 * c.2.2), fin (c.2.1 * c.2.2))))
        = (cs.map fun c => c.1 * c.2.2 - c.2.1 * c.2.2).map fin := by
      simp [List.map_map, Function.comp_def, SV.Gen.Point.pbias_error]
    have e2 : (cs.map ((fun p : Fl × Fl => p.2) ∘ fun c : S.RCase => (fin (c.1 * c.2.2), fin (c.2.1 * c.2.2))))
        = (cs.map fun c => c.2.1 * c.2.2).map fin := by simp [List.map_map, Function.comp_def]
    rw [e1, e2, nanmean_map_fin _ (by simpa using h), nanmean_map_fin _ (by simpa using h)]
    simp only [List.length_map]
    unfold SV.Gen.Point.pbias_ratio
    rw [Fl.mul_fin, mul_div_assoc', div_fin_scale _ _ _ (length_pos_rat cs h)]
    have hf : (fun c : S.RCase => c.1 * c.2.2 - c.2.1 * c.2.2) = fun c => c.2.2 * c.1 - c.2.2 * c.2.1 := by
      funext c; ring
    have hg : (fun c : S.RCase => c.2.1 * c.2.2) = fun c => c.2.2 * c.2.1 := by funext c; ring
    rw [hf, hg]

end ratios

/-! ## 6. Second moments, MSE decomposition (series of ANY length) -/

section moments_sec

theorem psum_centered (g h : S.RPair → Rat) (m k : Rat) (ps : List S.RPair) :
    S.psum (fun p => (g p - m) * (h p - k)) ps =
      S.psum (fun p => g p * h p) ps - k * S.psum g ps - m * S.psum h ps + (ps.length : Rat) * m * k := by
  induction ps with
  | nil => simp [SV.Spec.PointScores.psum]
  | cons p ps ih =>
    simp only [SV.Spec.PointScores.psum, List.map_cons, List.sum_cons, List.length_cons] at ih ⊢
    rw [ih]; push_cast; ring

theorem psum_sq_diff (ps : List S.RPair) :
    S.psum (fun p => (p.1 - p.2) * (p.1 - p.2)) ps =
      S.psum (fun p => p.1 * p.1) ps - 2 * S.psum (fun p => p.1 * p.2) ps + S.psum (fun p => p.2 * p.2) ps := by
  induction ps with
  | nil => simp [SV.Spec.PointScores.psum]
  | cons p ps ih =>
    simp only [SV.Spec.PointScores.psum, List.map_cons, List.sum_cons] at ih ⊢
    rw [ih]; ring

theorem psum_diff (ps : List S.RPair) :
    S.psum (fun p => p.1 - p.2) ps = S.psum (fun p => p.1) ps - S.psum (fun p => p.2) ps := by
  induction ps with
  | nil => simp [SV.Spec.PointScores.psum]
  | cons p ps ih =>
    simp only [SV.Spec.PointScores.psum, List.map_cons, List.sum_cons] at ih ⊢
    rw [ih]; ring

/-- MSE = bias² + var f + var o − 2·cov(f, o), for paired series of any length n ≥ 1 -/
theorem mse_decomposition (ps : List S.RPair) (h : ps ≠ []) :
    S.mseP ps = S.biasP ps * S.biasP ps + S.varF ps + S.varO ps - 2 * S.covFO ps := by
  have hn : (ps.length : Rat) ≠ 0 := (length_pos_rat ps h).ne'
  unfold SV.Spec.PointScores.mseP SV.Spec.PointScores.biasP SV.Spec.PointScores.varF SV.Spec.PointScores.varO
    SV.Spec.PointScores.covFO SV.Spec.PointScores.meanF SV.Spec.PointScores.meanO SV.Spec.PointScores.pmean
  rw [psum_sq_diff, psum_diff]
  field_simp
  ring
example : ([(1, 2), (3, 5)] : List S.RPair) ≠ [] := by simp

/-- the population variance and covariance as the library computes them (mean of demeaned products) equal the
    raw-moment forms E[x²] − E[x]², E[xy] − E[x]E[y] -/
theorem centered_eq_raw (g h : S.RPair → Rat) (ps : List S.RPair) (hne : ps ≠ []) :
    S.psum (fun p => (g p - S.pmean g ps) * (h p - S.pmean h ps)) ps / (ps.length : Rat) =
      S.pmean (fun p => g p * h p) ps - S.pmean g ps * S.pmean h ps := by
  have hn : (ps.length : Rat) ≠ 0 := (length_pos_rat ps hne).ne'
  rw [psum_centered]
  unfold SV.Spec.PointScores.pmean
  field_simp
  ring

theorem mse_nonneg (ps : List S.RPair) : 0 ≤ S.mseP ps := by
  unfold SV.Spec.PointScores.mseP SV.Spec.PointScores.pmean SV.Spec.PointScores.psum
  apply div_nonneg _ (by positivity)
  apply List.sum_nonneg
  intro x hx
  obtain ⟨p, _, rfl⟩ := List.mem_map.mp hx
  exact mul_self_nonneg _

theorem var_nonneg (ps : List S.RPair) (hne : ps ≠ []) : 0 ≤ S.varF ps ∧ 0 ≤ S.varO ps := by
  have key : ∀ g : S.RPair → Rat, 0 ≤ S.pmean (fun p => g p * g p) ps - S.pmean g ps * S.pmean g ps := by
    intro g
    rw [← centered_eq_raw g g ps hne]
    apply div_nonneg _ (by positivity)
    unfold SV.Spec.PointScores.psum
    apply List.sum_nonneg
    intro x hx
    obtain ⟨p, _, rfl⟩ := List.mem_map.mp hx
    exact mul_self_nonneg _
  exact ⟨key (·.1), key (·.2)⟩

/-- the hand model of `xr.corr` / `.std` / `.mean` on a fully valid fibre returns exactly the textbook moments -/
theorem moments_eq_spec (ps : List S.RPair) (hne : ps ≠ []) :
    (M.moments (ps.map fun p => (fin p.1, fin p.2))).muF = fin (S.meanF ps)
    ∧ (M.moments (ps.map fun p => (fin p.1, fin p.2))).muO = fin (S.meanO ps)
    ∧ (M.moments (ps.map fun p => (fin p.1, fin p.2))).varF = fin (S.varF ps)
    ∧ (M.moments (ps.map fun p => (fin p.1, fin p.2))).varO = fin (S.varO ps)
    ∧ (M.moments (ps.map fun p => (fin p.1, fin p.2))).cov = fin (S.covFO ps) := by
  have hq : (ps.map fun p => (fin p.1, fin p.2)).map M.matchNan = ps.map fun p => (fin p.1, fin p.2) := by
    simp only [List.map_map]; apply List.map_congr_left; intro p _
    simp [SV.Model.PointScores.matchNan]
  have hF : ((ps.map fun p => (fin p.1, fin p.2)).map (·.1)) = (ps.map (·.1)).map fin := by
    simp [List.map_map, Function.comp_def]
  have hO : ((ps.map fun p => (fin p.1, fin p.2)).map (·.2)) = (ps.map (·.2)).map fin := by
    simp [List.map_map, Function.comp_def]
  have hmF : nanmean ((ps.map (·.1)).map fin) = fin (S.meanF ps) := by
    rw [nanmean_map_fin _ (by simpa using hne)]; simp [SV.Spec.PointScores.meanF, SV.Spec.PointScores.pmean, SV.Spec.PointScores.psum]
  have hmO : nanmean ((ps.map (·.2)).map fin) = fin (S.meanO ps) := by
    rw [nanmean_map_fin _ (by simpa using hne)]; simp [SV.Spec.PointScores.meanO, SV.Spec.PointScores.pmean, SV.Spec.PointScores.psum]
  have hdF : ((ps.map (·.1)).map fin).map (fun x => Fl.sub x (fin (S.meanF ps))) = (ps.map fun p => p.1 - S.meanF ps).map fin := by
    simp [List.map_map, Function.comp_def]
  have hdO : ((ps.map (·.2)).map fin).map (fun x => Fl.sub x (fin (S.meanO ps))) = (ps.map fun p => p.2 - S.meanO ps).map fin := by
    simp [List.map_map, Function.comp_def]
  have cen := fun g h => centered_eq_raw g h ps hne
  unfold SV.Model.PointScores.moments
  simp only [hq, hF, hO, hmF, hmO, hdF, hdO]
  refine ⟨trivial, trivial, ?_, ?_, ?_⟩
  · have : ((ps.map fun p => p.1 - S.meanF ps).map fin).map (fun x => Fl.mul x x)
        = (ps.map fun p => (p.1 - S.meanF ps) * (p.1 - S.meanF ps)).map fin := by simp [List.map_map, Function.comp_def]
    rw [this, nanmean_map_fin _ (by simpa using hne)]
    simp only [List.length_map]
    have := cen (·.1) (·.1)
    simp only [SV.Spec.PointScores.psum] at this
    rw [SV.Spec.PointScores.varF, SV.Spec.PointScores.meanF, ← this]
  · have : ((ps.map fun p => p.2 - S.meanO ps).map fin).map (fun x => Fl.mul x x)
        = (ps.map fun p => (p.2 - S.meanO ps) * (p.2 - S.meanO ps)).map fin := by simp [List.map_map, Function.comp_def]
    rw [this, nanmean_map_fin _ (by simpa using hne)]
    simp only [List.length_map]
    have := cen (·.2) (·.2)
    simp only [SV.Spec.PointScores.psum] at this
    rw [SV.Spec.PointScores.varO, SV.Spec.PointScores.meanO, ← this]
  · have : List.zipWith Fl.mul ((ps.map fun p => p.1 - S.meanF ps).map fin) ((ps.map fun p => p.2 - S.meanO ps).map fin)
        = (ps.map fun p => (p.1 - S.meanF ps) * (p.2 - S.meanO ps)).map fin := by
      simp only [List.zipWith_map, List.zipWith_self, List.map_map]
      apply List.map_congr_left; intro p _; simp
    rw [this, nanmean_map_fin _ (by simpa using hne)]
    simp only [List.length_map]
    have := cen (·.1) (·.2)
    simp only [SV.Spec.PointScores.psum] at this
    rw [SV.Spec.PointScores.covFO, SV.Spec.PointScores.meanF, SV.Spec.PointScores.meanO, ← this]

end moments_sec

/-! ## 7. What lies behind `sqrt`: RMSE, Pearson correlation, KGE.  In the model `sqrt` is an uninterpreted
    function parameter `sqrtF`; the formula-level facts are stated over ℝ with `Real.sqrt`. -/

section roots

/-- `rmse` is the root of `mse` (same arguments forwarded) -/
theorem rmse_is_root_of_mse (sqrtF : Fl → Fl) (m : Fl) : G.rmse_of_mse sqrtF m = sqrtF m := rfl
theorem rmse_forwards_all_arguments :
    SV.Gen.Point.rmse_delegate =
      "mse(fcst, obs, reduce_dims=reduce_dims, preserve_dims=preserve_dims, weights=weights, is_angular=is_angular)" := rfl
theorem mean_error_is_additive_bias :
    SV.Gen.Point.mean_error_delegate =
      "additive_bias(fcst, obs, reduce_dims=reduce_dims, preserve_dims=preserve_dims, weights=weights)" := rfl
theorem pandas_entry_points_delegate :
    SV.Gen.Point.pandas_delegates =
      [("mse", "__continuous.mse(fcst, obs, is_angular=is_angular)"),
       ("rmse", "__continuous.rmse(fcst, obs, is_angular=is_angular)"),
       ("mae", "__continuous.mae(fcst, obs, is_angular=is_angular)")] := rfl

/-- RMSE² = MSE -/
theorem rmse_sq_eq_mse (ps : List S.RPair) : Real.sqrt ((S.mseP ps : Rat) : ℝ) ^ 2 = ((S.mseP ps : Rat) : ℝ) :=
  Real.sq_sqrt (by exact_mod_cast mse_nonneg ps)

/-- the KGE tail as translated: α = σ_f/σ_o, β = μ_f/μ_o, KGE = 1 − sqrt((s_ρ(ρ−1))² + (s_α(α−1))² + (s_β(β−1))²) -/
theorem kge_value_eq_formula (sqrtF : Fl → Fl) (ρ σf σo μf μo s1 s2 s3 : Rat) (hσ : σo ≠ 0) (hμ : μo ≠ 0) :
    G.kge_value sqrtF (fin ρ) (fin σf) (fin σo) (fin μf) (fin μo) (fin s1) (fin s2) (fin s3) =
      Fl.sub (fin 1) (sqrtF (fin (S.kgeRadicand ρ (σf / σo) (μf / μo) s1 s2 s3)))
    ∧ G.kge_alpha sqrtF (fin ρ) (fin σf) (fin σo) (fin μf) (fin μo) (fin s1) (fin s2) (fin s3) = fin (σf / σo)
    ∧ G.kge_beta sqrtF (fin ρ) (fin σf) (fin σo) (fin μf) (fin μo) (fin s1) (fin s2) (fin s3) = fin (μf / μo) := by
  unfold SV.Gen.Point.kge_value SV.Gen.Point.kge_alpha SV.Gen.Point.kge_beta SV.Spec.PointScores.kgeRadicand
  simp only [Fl.div_fin _ _ hσ, Fl.div_fin _ _ hμ, Fl.sub_fin, Fl.mul_fin, Fl.add_fin, Fl.powNat, one_mul, and_self]
example : (2 : Rat) ≠ 0 := by norm_num

/-- the sources of ρ, σ and μ in `kge` are the library calls on (fcst, obs) in this order -/
theorem kge_frame_ok :
    SV.Gen.Point.kge_frame =
      [("rho", "xr.corr(fcst, obs, reduce_dims)"), ("sigma_fcst", "fcst.std(reduce_dims)"),
       ("sigma_obs", "obs.std(reduce_dims)"), ("mu_fcst", "mean_fcst"), ("mu_obs", "mean_obs")]
    ∧ SV.Gen.Point.kge_unpack =
      ["s_rho, s_alpha, s_beta = scaling_factors", "fcst, obs = broadcast_and_match_nan(fcst, obs)", "[1.0, 1.0, 1.0]"] :=
  ⟨rfl, rfl⟩

/-- KGE of a series with itself: ρ = 1, α = 1, β = 1, radicand 0, so KGE = 1 − sqrt 0 = 1 for every scaling -/
theorem kge_self (sqrtF : Fl → Fl) (h0 : sqrtF (fin 0) = fin 0) (σ μ s1 s2 s3 : Rat) (hσ : σ ≠ 0) (hμ : μ ≠ 0) :
    G.kge_value sqrtF (fin 1) (fin σ) (fin σ) (fin μ) (fin μ) (fin s1) (fin s2) (fin s3) = fin 1 := by
  rw [(kge_value_eq_formula sqrtF 1 σ σ μ μ s1 s2 s3 hσ hμ).1]
  have : S.kgeRadicand 1 (σ / σ) (μ / μ) s1 s2 s3 = 0 := by
    unfold SV.Spec.PointScores.kgeRadicand; rw [div_self hσ, div_self hμ]; ring
  rw [this, h0]; simp
example : (fun x : Fl => x) (fin 0) = fin 0 ∧ (3 : Rat) ≠ 0 := ⟨rfl, by norm_num⟩

/-- Pearson correlation of a non-constant series with itself is 1: cov(f,f) / (σ_f σ_f) -/
theorem pearson_self (v : ℝ) (hv : 0 < v) : v / (Real.sqrt v * Real.sqrt v) = 1 := by
  rw [Real.mul_self_sqrt hv.le]; exact div_self hv.ne'
example : (0 : ℝ) < 2 := by norm_num

/-- over ℝ: KGE(f, f) = 1 with the real square root, for every scaling factor -/
theorem kge_self_real (v μ s1 s2 s3 : ℝ) (hv : 0 < v) (hμ : μ ≠ 0) :
    1 - Real.sqrt ((s1 * (v / (Real.sqrt v * Real.sqrt v) - 1)) ^ 2 + (s2 * (Real.sqrt v / Real.sqrt v - 1)) ^ 2
      + (s3 * (μ / μ - 1)) ^ 2) = 1 := by
  have hs : Real.sqrt v ≠ 0 := (Real.sqrt_pos.mpr hv).ne'
  rw [pearson_self v hv, div_self hs, div_self hμ]
  simp
example : (0 : ℝ) < 2 ∧ (3 : ℝ) ≠ 0 := by norm_num

/-- over ℝ: MSE = bias² + σ_f² + σ_o² − 2 σ_f σ_o ρ with σ = sqrt(var), ρ = cov/(σ_f σ_o), when both σ ≠ 0 -/
theorem mse_decomposition_real (ps : List S.RPair) (hne : ps ≠ []) (hF : S.varF ps ≠ 0) (hO : S.varO ps ≠ 0) :
    ((S.mseP ps : Rat) : ℝ) =
      ((S.biasP ps : Rat) : ℝ) ^ 2 + Real.sqrt ((S.varF ps : Rat) : ℝ) ^ 2 + Real.sqrt ((S.varO ps : Rat) : ℝ) ^ 2
        - 2 * Real.sqrt ((S.varF ps : Rat) : ℝ) * Real.sqrt ((S.varO ps : Rat) : ℝ)
          * (((S.covFO ps : Rat) : ℝ) / (Real.sqrt ((S.varF ps : Rat) : ℝ) * Real.sqrt ((S.varO ps : Rat) : ℝ))) := by
  have hvF : (0 : ℝ) < ((S.varF ps : Rat) : ℝ) := by
    exact_mod_cast lt_of_le_of_ne (var_nonneg ps hne).1 (Ne.symm hF)
  have hvO : (0 : ℝ) < ((S.varO ps : Rat) : ℝ) := by
    exact_mod_cast lt_of_le_of_ne (var_nonneg ps hne).2 (Ne.symm hO)
  have sF : Real.sqrt ((S.varF ps : Rat) : ℝ) ≠ 0 := (Real.sqrt_pos.mpr hvF).ne'
  have sO : Real.sqrt ((S.varO ps : Rat) : ℝ) ≠ 0 := (Real.sqrt_pos.mpr hvO).ne'
  rw [Real.sq_sqrt hvF.le, Real.sq_sqrt hvO.le]
  have h := mse_decomposition ps hne
  have h' : ((S.mseP ps : Rat) : ℝ) = ((S.biasP ps : Rat) : ℝ) * ((S.biasP ps : Rat) : ℝ) + ((S.varF ps : Rat) : ℝ)
      + ((S.varO ps : Rat) : ℝ) - 2 * ((S.covFO ps : Rat) : ℝ) := by exact_mod_cast h
  rw [h']
  field_simp
example : ([(1, 2), (3, 5)] : List S.RPair) ≠ [] ∧ S.varF [((1 : Rat), (2 : Rat)), (3, 5)] ≠ 0
    ∧ S.varO [((1 : Rat), (2 : Rat)), (3, 5)] ≠ 0 := by
  refine ⟨by simp, ?_, ?_⟩ <;>
    norm_num [SV.Spec.PointScores.varF, SV.Spec.PointScores.varO, SV.Spec.PointScores.pmean, SV.Spec.PointScores.psum,
      SV.Spec.PointScores.meanF, SV.Spec.PointScores.meanO]

end roots

/-! ## 8. The parts of the source that are not kernels (library calls, delegation, which value is averaged):
    their source text is regenerated too and pinned here, so a change of any of them breaks this file -/

theorem frames_ok :
    SV.Gen.Point.multiplicative_bias_ratio_frame =
      ["fcst = apply_weights(fcst, weights=weights)", "obs = apply_weights(obs, weights=weights)",
       "fcst, obs = _match_nan_per_variable(fcst, obs)"]
    ∧ SV.Gen.Point.pbias_ratio_frame =
      ["fcst = apply_weights(fcst, weights=weights)", "obs = apply_weights(obs, weights=weights)",
       "fcst, obs = _match_nan_per_variable(fcst, obs)"]
    ∧ SV.Gen.Point.qis_components =
      ["interval_width_penalty", "overprediction_penalty", "underprediction_penalty", "total"]
    ∧ SV.Gen.Point.qis_frame = ["result = xr.Dataset(components)", "result"]
    ∧ SV.Gen.Point.interval_delegate_frame = ["preserve_dims=preserve_dims", "reduce_dims=reduce_dims", "weights=weights"]
    ∧ SV.Gen.Point.quantile_score_guard_exc = ["ValueError"]
    ∧ SV.Gen.Point.qis_guard_exc = ["ValueError", "ValueError"] :=
  ⟨rfl, rfl, rfl, rfl, rfl, rfl, rfl⟩

/-- the joint NaN matching of the ratio scores (`_match_nan_per_variable`, regenerated): element by element — hence, for
    Datasets, variable by variable — both operands are kept exactly where both are valid and are NaN everywhere else;
    a missing value can only remove its own case (of its own variable) -/
theorem match_nan_spec (f o : Fl) :
    SV.Gen.Point.match_nan_fcst f o = (if f.isNan || o.isNan then Fl.nan else f)
    ∧ SV.Gen.Point.match_nan_obs f o = (if f.isNan || o.isNan then Fl.nan else o) := by
  cases f <;> cases o <;> simp [SV.Gen.Point.match_nan_fcst, SV.Gen.Point.match_nan_obs, Fl.notNan, Fl.isNan, Fl.whereB]

theorem match_nan_same_mask (f o : Fl) :
    (SV.Gen.Point.match_nan_fcst f o).isNan = (SV.Gen.Point.match_nan_obs f o).isNan := by
  cases f <;> cases o <;> simp [SV.Gen.Point.match_nan_fcst, SV.Gen.Point.match_nan_obs, Fl.notNan, Fl.isNan, Fl.whereB]

end SV.Props.C05
