/-
  C06Components — the under- / over-forecast (and spread) components of the ensemble CRPS are integrals of the
  ensemble CDF, individually, also for every threshold-weighted variant.

  `crps_for_ensemble(include_components=True)` (crps_impl.py; `Model.CrpsEns.under / over / spreadComp`) returns, per
  case with members xs (M of them) and observation y,
      underforecast_penalty = mean_i (y − x_i)⁺ ,  overforecast_penalty = mean_i (x_i − y)⁺ ,  spread = Σ|x_i − x_j| / (2M²)
  (`under_eq_doc`, `over_eq_doc` in Props/C06.lean).  Here, with F(t) = `ecdf xs t` = #{x_i ≤ t}/M and in the exact step
  calculus of C06 (`Spec.CrpsEns.stepIntegral` on `grid (y :: xs)` = increasing distinct values of members ∪ {y}; the
  integrands vanish outside the hull):
      under  = ∫_{t < y} F(t) dt                    the ensemble CDF below the observation
      over   = ∫_{t ≥ y} (1 − F(t)) dt              the ensemble survival function from the observation on
      spread = ∫ F(t) (1 − F(t)) dt                 ('ecdf')
  and pointwise (F − 1{t≥y})² = 1{t<y} F + 1{t≥y} (1 − F) − F (1 − F), which is total = under + over − spread under the
  integral sign.  For the threshold-weighted functions (`tw_crps_for_ensemble` with a chaining function v that clips to
  [a?, b?], `tail_tw_…`, `interval_tw_…`; `Model.CrpsEns.tw`), whose components are those of the v-transformed
  ensemble, each component is the same integral of the ORIGINAL ensemble weighted by 1[a,b)(t) (`weightOn a? b?`), on the
  grid of thresholds ∪ {y} ∪ members — for both methods (under / over do not depend on the method).

  Why: 1{t<y} F(t) = (1/M) Σ_i 1[x_i, y)(t), 1{t≥y} (1 − F(t)) = (1/M) Σ_i 1[y, x_i)(t), and v is the antiderivative of
  the weight, ∫ 1[a,b) · 1[lo,hi) = (v hi − v lo)⁺ (`weighted_halfopen_integral`).
-/
import ScoresVerif.Props.C06Tw
import ScoresVerif.Lemmas.C06Components

namespace SV.Props.C06Components
open SV SV.Model.CrpsEns SV.Spec.CrpsEns SV.Lemmas.CrpsEns

/-! ## 1. `crps_for_ensemble`: the components as integrals of the ensemble CDF -/

/-- **underforecast_penalty = ∫_{t<y} F_ens(t) dt** (finite members, any size ≥ 1, any observation, ties included) -/
theorem under_eq_integral {xs : List Rat} (hx : xs ≠ []) (y : Rat) :
    under (xs.map Fl.fin) (Fl.fin y)
      = Fl.fin (stepIntegral (fun t => (if t < y then 1 else 0) * ecdf xs t) (grid (y :: xs))) :=
  under_fin_integral hx y
example : ([1, 3, 3] : List Rat) ≠ [] := by decide

/-- **overforecast_penalty = ∫_{t≥y} (1 − F_ens(t)) dt** -/
theorem over_eq_integral {xs : List Rat} (hx : xs ≠ []) (y : Rat) :
    over (xs.map Fl.fin) (Fl.fin y)
      = Fl.fin (stepIntegral (fun t => heaviside y t * (1 - ecdf xs t)) (grid (y :: xs))) :=
  over_fin_integral hx y
example : ([2] : List Rat) ≠ [] := by decide

/-- **spread ('ecdf') = ∫ F_ens(t) (1 − F_ens(t)) dt** -/
theorem spread_ecdf_eq_integral {xs : List Rat} (hx : xs ≠ []) (y : Rat) :
    spreadComp .ecdf (xs.map Fl.fin) (Fl.fin y)
      = Fl.fin (stepIntegral (fun t => ecdf xs t * (1 - ecdf xs t)) (grid (y :: xs))) :=
  spread_ecdf_fin_integral hx y
example : ([0, 1, 1] : List Rat) ≠ [] := by decide

/-- the CRPS integrand splits pointwise into the three component integrands -/
theorem integrand_decomposition (xs : List Rat) (y t : Rat) :
    integrand xs y t
      = (if t < y then 1 else 0) * ecdf xs t + heaviside y t * (1 - ecdf xs t) - ecdf xs t * (1 - ecdf xs t) :=
  integrand_eq_under_add_over_sub_spread xs y t

/-- concrete check (members 0, 3; obs 1): F = ½ on [0,3): under = ∫_0^1 ½ = ½, over = ∫_1^3 ½ = 1, spread = ∫_0^3 ¼ = ¾ -/
theorem components_example :
    stepIntegral (fun t => (if t < 1 then 1 else 0) * ecdf [0, 3] t) (grid (1 :: [0, 3])) = 1 / 2 ∧
    stepIntegral (fun t => heaviside 1 t * (1 - ecdf [0, 3] t)) (grid (1 :: [0, 3])) = 1 ∧
    stepIntegral (fun t => ecdf [0, 3] t * (1 - ecdf [0, 3] t)) (grid (1 :: [0, 3])) = 3 / 4 := by decide +kernel

/-- members that are rationals or NaN (missing), at least one rational: the integrals for the non-missing members -/
theorem under_over_eq_integral_nan {xs : List Fl} (hfin : ∀ x ∈ xs, x = Fl.nan ∨ ∃ q, x = Fl.fin q)
    (hne : finVals xs ≠ []) (y : Rat) :
    under xs (Fl.fin y)
        = Fl.fin (stepIntegral (fun t => (if t < y then 1 else 0) * ecdf (finVals xs) t) (grid (y :: finVals xs))) ∧
      over xs (Fl.fin y)
        = Fl.fin (stepIntegral (fun t => heaviside y t * (1 - ecdf (finVals xs) t)) (grid (y :: finVals xs))) := by
  rw [under_valid, over_valid, valid_eq_finVals hfin]
  exact ⟨under_fin_integral hne y, over_fin_integral hne y⟩
example : (∀ x ∈ ([Fl.fin 1, Fl.nan, Fl.fin 3] : List Fl), x = Fl.nan ∨ ∃ q, x = Fl.fin q) ∧
    finVals [Fl.fin 1, Fl.nan, Fl.fin 3] ≠ [] :=
  ⟨by intro x hx; simp at hx; rcases hx with rfl | rfl | rfl <;> simp, by decide⟩

/-! ## 2. threshold-weighted variants: the same integrals weighted by 1[a,b) -/

/-- ∫ 1[a,b)(t) · 1[lo,hi)(t) dt = (v hi − v lo)⁺ on every increasing grid containing the thresholds, lo and hi
    (v = the clip chaining function `vOpt a? b?`, the antiderivative of the weight) -/
theorem weighted_halfopen_integral {g : List Rat} (hg : g.Pairwise (· < ·)) {a b : Option Rat}
    (hp : ∀ p ∈ optPts a b, p ∈ g) {lo hi : Rat} (hlo : lo ∈ g) (hhi : hi ∈ g) :
    stepIntegral (fun t => weightOn a b t * ind lo hi t) g
      = if vOpt a b lo < vOpt a b hi then vOpt a b hi - vOpt a b lo else 0 := tw_stepIntegral_ind hg hp hlo hhi
example : ([0, 1, 2, 5] : List Rat).Pairwise (· < ·) ∧ (∀ p ∈ optPts (some 1) (some (2 : Rat)), p ∈ ([0, 1, 2, 5] : List Rat)) ∧
    (0 : Rat) ∈ ([0, 1, 2, 5] : List Rat) ∧ (5 : Rat) ∈ ([0, 1, 2, 5] : List Rat) := by decide +kernel

/-- **generic tw, underforecast**: for any chaining function `v` that clips finite values to [a?, b?], either method:
    (tw …).under = ∫ 1[a,b)(t) 1{t<y} F_ens(t) dt of the ORIGINAL ensemble and observation -/
theorem tw_under_eq_weighted_integral {v : Fl → Fl} {a b : Option Rat} (hv : ∀ q, v (Fl.fin q) = Fl.fin (vOpt a b q))
    {xs : List Rat} (hx : xs ≠ []) (m : Method) (y : Rat) :
    (tw v m (xs.map Fl.fin) (Fl.fin y)).under
      = Fl.fin (stepIntegral (fun t => weightOn a b t * ((if t < y then 1 else 0) * ecdf xs t))
          (grid (optPts a b ++ y :: xs))) := tw_under_fin hv hx m y
example : ∀ q, chainUpper (Fl.fin 2) (Fl.fin q) = Fl.fin (vOpt (some 2) none q) := fun q => max_fin q 2

/-- **generic tw, overforecast**: (tw …).over = ∫ 1[a,b)(t) 1{t≥y} (1 − F_ens(t)) dt -/
theorem tw_over_eq_weighted_integral {v : Fl → Fl} {a b : Option Rat} (hv : ∀ q, v (Fl.fin q) = Fl.fin (vOpt a b q))
    {xs : List Rat} (hx : xs ≠ []) (m : Method) (y : Rat) :
    (tw v m (xs.map Fl.fin) (Fl.fin y)).over
      = Fl.fin (stepIntegral (fun t => weightOn a b t * (heaviside y t * (1 - ecdf xs t)))
          (grid (optPts a b ++ y :: xs))) := tw_over_fin hv hx m y
example : ∀ q, chainLower (Fl.fin 2) (Fl.fin q) = Fl.fin (vOpt none (some 2) q) := fun q => min_fin q 2

/-- **generic tw, spread ('ecdf')**: (tw …).spread = ∫ 1[a,b)(t) F_ens(t) (1 − F_ens(t)) dt -/
theorem tw_spread_ecdf_eq_weighted_integral {v : Fl → Fl} {a b : Option Rat}
    (hv : ∀ q, v (Fl.fin q) = Fl.fin (vOpt a b q)) {xs : List Rat} (hx : xs ≠ []) (y : Rat) :
    (tw v .ecdf (xs.map Fl.fin) (Fl.fin y)).spread
      = Fl.fin (stepIntegral (fun t => weightOn a b t * (ecdf xs t * (1 - ecdf xs t)))
          (grid (optPts a b ++ y :: xs))) := tw_spread_ecdf_fin hv hx y
example : ∀ q, chainInterval (Fl.fin 0) (Fl.fin 2) (Fl.fin q) = Fl.fin (vOpt (some 0) (some 2) q) :=
  fun q => by simp [chainInterval, vOpt, omax, omin, min_fin, max_fin]

/-- the three weighted component integrals add up to the weighted CRPS integral `twIntegral` of Props/C06Tw.lean -/
theorem twIntegral_decomposition (a b : Option Rat) (xs : List Rat) (y : Rat) :
    twIntegral a b xs y
      = stepIntegral (fun t => weightOn a b t * ((if t < y then 1 else 0) * ecdf xs t)) (grid (optPts a b ++ y :: xs))
        + stepIntegral (fun t => weightOn a b t * (heaviside y t * (1 - ecdf xs t))) (grid (optPts a b ++ y :: xs))
        - stepIntegral (fun t => weightOn a b t * (ecdf xs t * (1 - ecdf xs t))) (grid (optPts a b ++ y :: xs)) :=
  twIntegral_eq_under_add_over_sub_spread a b xs y

/-- `tail_tw_crps_for_ensemble(tail="upper", threshold=θ)`: under = ∫_{θ ≤ t < y} F_ens, over = ∫_{t ≥ max θ y} (1 − F_ens) -/
theorem tail_upper_components (θ : Rat) {xs : List Rat} (hx : xs ≠ []) (m : Method) (y : Rat) :
    (tailUpper (Fl.fin θ) m (xs.map Fl.fin) (Fl.fin y)).under
        = Fl.fin (stepIntegral (fun t => weightOn (some θ) none t * ((if t < y then 1 else 0) * ecdf xs t))
            (grid (θ :: y :: xs))) ∧
      (tailUpper (Fl.fin θ) m (xs.map Fl.fin) (Fl.fin y)).over
        = Fl.fin (stepIntegral (fun t => weightOn (some θ) none t * (heaviside y t * (1 - ecdf xs t)))
            (grid (θ :: y :: xs))) :=
  ⟨tw_under_fin (a := some θ) (b := none) (fun q => max_fin q θ) hx m y,
   tw_over_fin (a := some θ) (b := none) (fun q => max_fin q θ) hx m y⟩
example : ([1, 3, 3] : List Rat) ≠ [] := by decide

/-- `tail_tw_crps_for_ensemble(tail="lower", threshold=θ)`: under = ∫_{t < min θ y} F_ens, over = ∫_{y ≤ t < θ} (1 − F_ens) -/
theorem tail_lower_components (θ : Rat) {xs : List Rat} (hx : xs ≠ []) (m : Method) (y : Rat) :
    (tailLower (Fl.fin θ) m (xs.map Fl.fin) (Fl.fin y)).under
        = Fl.fin (stepIntegral (fun t => weightOn none (some θ) t * ((if t < y then 1 else 0) * ecdf xs t))
            (grid (θ :: y :: xs))) ∧
      (tailLower (Fl.fin θ) m (xs.map Fl.fin) (Fl.fin y)).over
        = Fl.fin (stepIntegral (fun t => weightOn none (some θ) t * (heaviside y t * (1 - ecdf xs t)))
            (grid (θ :: y :: xs))) :=
  ⟨tw_under_fin (a := none) (b := some θ) (fun q => min_fin q θ) hx m y,
   tw_over_fin (a := none) (b := some θ) (fun q => min_fin q θ) hx m y⟩
example : ([2] : List Rat) ≠ [] := by decide

/-- `interval_tw_crps_for_ensemble(lower_threshold=a, upper_threshold=b)`: the integrals restricted to [a, b) -/
theorem interval_components (a b : Rat) {xs : List Rat} (hx : xs ≠ []) (m : Method) (y : Rat) :
    (interval (Fl.fin a) (Fl.fin b) m (xs.map Fl.fin) (Fl.fin y)).under
        = Fl.fin (stepIntegral (fun t => weightOn (some a) (some b) t * ((if t < y then 1 else 0) * ecdf xs t))
            (grid (a :: b :: y :: xs))) ∧
      (interval (Fl.fin a) (Fl.fin b) m (xs.map Fl.fin) (Fl.fin y)).over
        = Fl.fin (stepIntegral (fun t => weightOn (some a) (some b) t * (heaviside y t * (1 - ecdf xs t)))
            (grid (a :: b :: y :: xs))) :=
  have hv : ∀ q, chainInterval (Fl.fin a) (Fl.fin b) (Fl.fin q) = Fl.fin (vOpt (some a) (some b) q) :=
    fun q => by simp [chainInterval, vOpt, omax, omin, min_fin, max_fin]
  ⟨tw_under_fin hv hx m y, tw_over_fin hv hx m y⟩
example : ([0, 1, 1] : List Rat) ≠ [] := by decide

/-- concrete check (members 0, 3; obs 1; interval [1, 2)): under = 0 (nothing of [1,2) lies below the obs),
    over = ∫_1^2 ½ = ½, spread = ∫_1^2 ¼ = ¼; total = 0 + ½ − ¼ = ¼ (`C06Tw.interval_example`) -/
theorem interval_components_example :
    stepIntegral (fun t => weightOn (some 1) (some 2) t * ((if t < 1 then 1 else 0) * ecdf [0, 3] t))
        (grid (1 :: 2 :: 1 :: [0, 3])) = 0 ∧
    stepIntegral (fun t => weightOn (some 1) (some 2) t * (heaviside 1 t * (1 - ecdf [0, 3] t)))
        (grid (1 :: 2 :: 1 :: [0, 3])) = 1 / 2 ∧
    stepIntegral (fun t => weightOn (some 1) (some 2) t * (ecdf [0, 3] t * (1 - ecdf [0, 3] t)))
        (grid (1 :: 2 :: 1 :: [0, 3])) = 1 / 4 := by decide +kernel

/-! ## 3. missing (NaN) members in the weighted variants -/

/-- members that are rationals or NaN, at least one rational; `v` keeps NaN (np.maximum / np.minimum / np.clip do):
    the weighted integrals for the non-missing members -/
theorem tw_under_over_eq_weighted_integral_nan {v : Fl → Fl} {a b : Option Rat}
    (hv : ∀ q, v (Fl.fin q) = Fl.fin (vOpt a b q)) (hnan : v Fl.nan = Fl.nan) {xs : List Fl}
    (hfin : ∀ x ∈ xs, x = Fl.nan ∨ ∃ q, x = Fl.fin q) (hne : finVals xs ≠ []) (m : Method) (y : Rat) :
    (tw v m xs (Fl.fin y)).under
        = Fl.fin (stepIntegral (fun t => weightOn a b t * ((if t < y then 1 else 0) * ecdf (finVals xs) t))
            (grid (optPts a b ++ y :: finVals xs))) ∧
      (tw v m xs (Fl.fin y)).over
        = Fl.fin (stepIntegral (fun t => weightOn a b t * (heaviside y t * (1 - ecdf (finVals xs) t)))
            (grid (optPts a b ++ y :: finVals xs))) := by
  have hne' : (finVals xs).map (vOpt a b) ≠ [] := by simpa using hne
  have e1 : (tw v m xs (Fl.fin y)).under = under (((finVals xs).map (vOpt a b)).map Fl.fin) (Fl.fin (vOpt a b y)) := by
    show under (xs.map v) (v (Fl.fin y)) = _
    rw [under_valid, valid_eq_finVals (map_v_nanfin hv hnan hfin), finVals_map_v hv hnan hfin, hv]
  have e2 : (tw v m xs (Fl.fin y)).over = over (((finVals xs).map (vOpt a b)).map Fl.fin) (Fl.fin (vOpt a b y)) := by
    show over (xs.map v) (v (Fl.fin y)) = _
    rw [over_valid, valid_eq_finVals (map_v_nanfin hv hnan hfin), finVals_map_v hv hnan hfin, hv]
  rw [e1, e2, under_fin hne', over_fin hne', List.length_map]
  exact ⟨congrArg Fl.fin (twUnderIntegral_eq a b (finVals xs) y).symm,
    congrArg Fl.fin (twOverIntegral_eq hne a b y).symm⟩
example : chainInterval (Fl.fin 0) (Fl.fin 2) Fl.nan = Fl.nan ∧ finVals [Fl.fin 1, Fl.nan, Fl.fin 3] ≠ [] := by decide

end SV.Props.C06Components
