/-
  C06 — tie T for the ensemble CRPS: `Gen.CrpsEns` is regenerated from the AST of `crps_for_ensemble`,
  `tw_crps_for_ensemble`, `tail_tw_…` and `interval_tw_…` on every run (row translator, tools/py2lean_row.py: one
  forecast case = the list of members + the observation).  The theorems say that the regenerated per-case code IS the
  hand model `Model.CrpsEns` that every C06 theorem (kernel form = ∫(F−H)², partition, ∫Brier, invariances, Lebesgue
  readings) is about — so those theorems are statements about the current source.  A semantic change of the source
  makes these equalities fail to check.
-/
import ScoresVerif.Gen.CrpsEns
import ScoresVerif.Model.CrpsEns
import Mathlib.Tactic.Ring
import Mathlib.Tactic.NormNum
import Mathlib.Tactic.Linarith
import Mathlib.Algebra.Order.Field.Rat

namespace SV.Props.C06Gen
open SV SV.Model.CrpsEns SV.Gen.CrpsEns

theorem foldl_rangeFrom_getD {α β : Type} (d : α) (g : β → α → β) (l pre : List α) (a : β) :
    (List.range' pre.length l.length).foldl (fun acc i => g acc ((pre ++ l).getD i d)) a = l.foldl g a := by
  induction l generalizing pre a with
  | nil => simp
  | cons x l ih =>
    have h0 : (pre ++ x :: l).getD pre.length d = x := by simp [List.getD]
    have h := ih (pre ++ [x]) (g a x)
    simp only [List.length_append, List.length_singleton, List.append_assoc, List.singleton_append] at h
    simp only [List.length_cons, List.range'_succ, List.foldl_cons, h0]
    exact h

/-- the Python loop `for i in range(len(l)): acc = g acc l[i]` visits the elements in order -/
theorem foldl_range_getD {α β : Type} (l : List α) (d : α) (g : β → α → β) (a : β) :
    (List.range l.length).foldl (fun acc i => g acc (l.getD i d)) a = l.foldl g a := by
  have := foldl_rangeFrom_getD d g l [] a
  simpa [List.range_eq_range'] using this

/-- the accumulated spread loop of the source = the model's `spreadRaw` -/
theorem gen_spread_loop (xs : List Fl) :
    (List.range xs.length).foldl
        (fun acc i => Fl.add acc (nansum ((xs.map (fun s => Fl.sub s (xs.getD i Fl.nan))).map Fl.abs))) (Fl.fin (0 : Rat))
      = spreadRaw xs := by
  have := foldl_range_getD xs Fl.nan
    (fun acc xi => Fl.add acc (nansum ((xs.map (fun s => Fl.sub s xi)).map Fl.abs))) (Fl.fin (0 : Rat))
  rw [this]
  unfold spreadRaw spreadRow fsum
  rw [List.foldl_map]
  simp [List.map_map, Function.comp_def]

theorem den_ecdf (c : Nat) :
    Fl.mul (Fl.fin (2 : Rat)) (Fl.powNat (Fl.ofNat c) 2) = Fl.ofInt (2 * ((c : Nat) : Int) ^ 2) := by
  simp only [Fl.powNat, Fl.ofNat, Fl.mul, Fl.ofInt]
  congr 1
  push_cast; ring

theorem den_fair (c : Nat) :
    Fl.mul (Fl.mul (Fl.fin (2 : Rat)) (Fl.ofNat c)) (Fl.sub (Fl.ofNat c) (Fl.fin (1 : Rat)))
      = Fl.ofInt (2 * ((c : Nat) : Int) * (((c : Nat) : Int) - 1)) := by
  simp only [Fl.ofNat, Fl.mul, Fl.sub, Fl.neg, Fl.add, Fl.ofInt]
  congr 1
  push_cast; ring

/-- the method argument as the caller spells it -/
def methodStr : Method → String
  | .ecdf => "ecdf"
  | .fair => "fair"

/-- **`crps_for_ensemble` (regenerated, one case) = the model's `total`**, for every list of members (NaN = missing
    member), every observation and both methods. -/
theorem gen_total_eq_model (m : Method) (xs : List Fl) (y : Fl) :
    gen_crps_total (methodStr m) xs y = total m xs y := by
  cases m <;> simp only [gen_crps_total, methodStr, gen_spread_loop] <;>
  simp [total, spreadTerm, spreadDen, ensCount, fcstObsTerm, den_ecdf, den_fair, List.map_map, Function.comp_def]


theorem zipWith_map_map {α β γ δ : Type} (f : β → γ → δ) (g : α → β) (h : α → γ) (l : List α) :
    List.zipWith f (l.map g) (l.map h) = l.map (fun x => f (g x) (h x)) := by
  induction l with
  | nil => rfl
  | cons x l ih => simp [ih]

/-- **the `component` dimension of `crps_for_ensemble(include_components=True)` (regenerated, one case) = the model's
    four components, under the names and in the order the source assigns** -/
theorem gen_components_eq_model (m : Method) (xs : List Fl) (y : Fl) :
    gen_crps_components (methodStr m) xs y =
      [("total", total m xs y), ("underforecast_penalty", under xs y), ("overforecast_penalty", over xs y),
       ("spread", spreadComp m xs y)] := by
  have hmask : ((xs.map Fl.isNan).map (fun s => !s)).map (fun s => and s (!(Fl.isNan y))) = xs.map (fun x => mask x y) := by
    simp [List.map_map, Function.comp_def, mask, Fl.notNan]
  cases m <;> simp only [gen_crps_components, methodStr, gen_spread_loop, hmask, zipWith_map_map] <;>
  simp [total, spreadTerm, spreadDen, ensCount, fcstObsTerm, den_ecdf, den_fair, List.map_map, Function.comp_def,
    under, over, spreadComp]

/-- the chaining functions of the tail / interval variants are the model's -/
theorem gen_chain_upper_eq_model (t x : Fl) : gen_chain_upper t x = chainUpper t x := rfl
theorem gen_chain_lower_eq_model (t x : Fl) : gen_chain_lower t x = chainLower t x := rfl
theorem gen_chain_interval_eq_model (a b x : Fl) : gen_chain_interval a b x = chainInterval a b x := rfl

/-- **call-site facts of `tw_crps_for_ensemble`** (read from the AST on every run): the observation AND the members are
    both chained with the caller's function and the SAME keyword arguments, in that role, and the result of
    `crps_for_ensemble` on the chained pair is returned with every option forwarded under its own name -/
theorem tw_callsite :
    tw_chained = [("fcst", ["fcst"], ["chaining_func_kwargs"], []), ("obs", ["obs"], ["chaining_func_kwargs"], [])] ∧
    tw_inner_positional = ["fcst", "obs", "ensemble_member_dim"] ∧
    tw_inner_forwarded = ["include_components", "method", "preserve_dims", "reduce_dims", "weights"] := by decide

/-- the tail / interval wrappers hand their thresholds to the chaining function under the parameter names it uses,
    and forward every option -/
theorem wrapper_callsites :
    tail_call_positional = ["fcst", "obs", "ensemble_member_dim", "_chainingfunc"] ∧
    tail_call_kwargs = [("threshold", "threshold")] ∧
    tail_call_forwarded = ["include_components", "method", "preserve_dims", "reduce_dims", "weights"] ∧
    interval_call_positional = ["fcst", "obs", "ensemble_member_dim", "_chaining_func"] ∧
    interval_call_kwargs = [("lower_threshold", "lower_threshold"), ("upper_threshold", "upper_threshold")] ∧
    interval_call_forwarded = ["include_components", "method", "preserve_dims", "reduce_dims", "weights"] := by decide

/-- weights are applied to the per-case result (all components) and only then the mean over the gathered dims is taken;
    the member dimension is handed to `gather_dimensions` as the score-specific one -/
theorem crps_frame :
    crps_frame_tail = ["result = scores.functions.apply_weights(result, weights=weights).mean(dim=dims_for_mean)", "return result"] ∧
    crps_gather_call = "scores.utils.gather_dimensions(fcst.dims, obs.dims, weights_dims=weights_dims, reduce_dims=reduce_dims, preserve_dims=preserve_dims, score_specific_fcst_dims=ensemble_member_dim)" := by
  decide +kernel

/-- hence the regenerated threshold-weighted variants are the model's `tw`: chaining members and observation with `v`
    and scoring the chained pair -/
theorem gen_tw_eq_model (v : Fl → Fl) (m : Method) (xs : List Fl) (y : Fl) :
    gen_crps_components (methodStr m) (xs.map v) (v y) =
      [("total", (tw v m xs y).total), ("underforecast_penalty", (tw v m xs y).under),
       ("overforecast_penalty", (tw v m xs y).over), ("spread", (tw v m xs y).spread)] := by
  rw [gen_components_eq_model]; rfl

/-- non-vacuity: the regenerated code on a concrete ensemble with a missing member -/
example : gen_crps_total "ecdf" [Fl.fin 1, Fl.nan, Fl.fin 3] (Fl.fin 2) = Fl.fin (1 / 2) := by decide +kernel
example : gen_crps_total "fair" [Fl.fin 1, Fl.nan, Fl.fin 3] (Fl.fin 2) = Fl.fin 0 := by decide +kernel

end SV.Props.C06Gen
