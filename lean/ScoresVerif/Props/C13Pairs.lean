/-
  C13 (stretch) — the pairwise (Ferro) form of the ensemble Brier score on member lists:
    unadjusted = mean over members of the one-member scores − Σ_{k,l}(e_k − e_l)² / (2m²)
    fair       = mean over members of the one-member scores − Σ_{k,l}(e_k − e_l)² / (2m(m−1))
  with e_k ∈ {0,1} the event indicator of the k-th valid member — the fair score is the "fair CRPS" form of a
  binary ensemble, the correction is the (ordered-pair) disagreement among the members.
-/
import ScoresVerif.Props.C13Fair
import ScoresVerif.Lemmas.C13Pairs

set_option linter.unusedSimpArgs false

namespace SV.Props.C13
open SV SV.Fl
open SV.Spec.Brier (correction Rel4 eventCount memberCount)
open SV.Model.C13 (ensCase)
open SV.Lemmas.C13Pairs (sum_sq_sub sum_pairs sum_sq_binary sum_indicator)

/-- event indicators (0 / 1) of the valid members, in member order -/
def indicators (r : Rel4) (thr : Fl) (ms : List Fl) : List Rat :=
  (ms.filter Fl.notNan).map fun x => if r.holds x thr then 1 else 0

/-- mean over the members of the one-member Brier scores (e_k − y)² -/
def meanMemberScore (e : List Rat) (y : Rat) : Rat := (e.map fun a => (a - y) ^ 2).sum / e.length

/-- Σ over all ordered pairs (k, l) of members of (e_k − e_l)² -/
def pairSum (e : List Rat) : Rat := (e.map fun a => (e.map fun b => (b - a) ^ 2).sum).sum

theorem indicators_length (r : Rel4) (thr : Fl) (ms : List Fl) : (indicators r thr ms).length = memberCount ms := by
  simp [indicators, memberCount]

theorem indicators_sum (r : Rel4) (thr : Fl) (ms : List Fl) : (indicators r thr ms).sum = (eventCount r thr ms : Rat) := by
  unfold indicators
  rw [sum_indicator (fun x => r.holds x thr)]
  have := (counts_valid r thr ms).1
  unfold eventCount at this ⊢
  rw [this]

theorem indicators_binary (r : Rel4) (thr : Fl) (ms : List Fl) : ∀ a ∈ indicators r thr ms, a = 0 ∨ a = 1 := by
  intro a ha
  unfold indicators at ha
  obtain ⟨x, _, rfl⟩ := List.mem_map.mp ha
  cases r.holds x thr <;> simp

/-- the two scores of a 0/1 indicator list with at least two entries, in pairwise form -/
theorem scoreQ_pairs (e : List Rat) (hb : ∀ a ∈ e, a = 0 ∨ a = 1) (hm : 1 < e.length) (i : Nat) (hi : (i : Rat) = e.sum)
    (y : Rat) :
    scoreQ i e.length y true = meanMemberScore e y - pairSum e / (2 * e.length * ((e.length : Rat) - 1)) ∧
    scoreQ i e.length y false = meanMemberScore e y - pairSum e / (2 * (e.length : Rat) ^ 2) := by
  unfold meanMemberScore pairSum
  rw [sum_sq_sub, sum_pairs, sum_sq_binary e hb, ← hi]
  unfold scoreQ correction
  have hmq : (1 : Rat) < e.length := by exact_mod_cast hm
  have h1 : (e.length : Rat) - 1 ≠ 0 := by linarith
  have h2 : (e.length : Rat) ≠ 0 := by linarith
  simp only [Bool.true_and, hm, decide_true, if_true, Bool.false_and, Bool.false_eq_true, if_false, sub_zero]
  constructor
  · field_simp; ring
  · field_simp; ring

example : (∀ a ∈ [(1 : Rat), 0, 1], a = 0 ∨ a = 1) ∧ 1 < [(1 : Rat), 0, 1].length ∧ ((2 : Nat) : Rat) = [(1 : Rat), 0, 1].sum := by
  refine ⟨by decide +kernel, by decide, by norm_num⟩

/-- **pairwise form on member lists** (valid observation and threshold, at least two valid members): the model's
    value is the mean one-member score minus the ordered-pair disagreement divided by 2m(m−1) (fair) resp. 2m²
    (unadjusted); NaN members take no part -/
theorem ensCase_pairs (r : Rel4) (ms : List Fl) (obs thr : Fl) (hobs : obs.isNan = false) (hthr : thr.isNan = false)
    (hm : 1 < memberCount ms) :
    ensCase ms obs thr (.op (opOf r)) true =
      .ok (fin (meanMemberScore (indicators r thr ms) (if r.holds obs thr then 1 else 0)
                - pairSum (indicators r thr ms) / (2 * (memberCount ms : Rat) * ((memberCount ms : Rat) - 1)))) ∧
    ensCase ms obs thr (.op (opOf r)) false =
      .ok (fin (meanMemberScore (indicators r thr ms) (if r.holds obs thr then 1 else 0)
                - pairSum (indicators r thr ms) / (2 * (memberCount ms : Rat) ^ 2))) := by
  have hlen := indicators_length r thr ms
  have h := scoreQ_pairs (indicators r thr ms) (indicators_binary r thr ms) (by rw [hlen]; exact hm)
    (eventCount r thr ms) (indicators_sum r thr ms).symm (if r.holds obs thr then 1 else 0)
  rw [hlen] at h
  rw [ensCase_scoreQ r ms obs thr hobs hthr (by omega), ensCase_scoreQ r ms obs thr hobs hthr (by omega), h.1, h.2]
  exact ⟨rfl, rfl⟩

example : (fin 0).isNan = false ∧ 1 < memberCount [fin 1, nan, fin 0, fin 2] := by decide +kernel

/-- concrete: members 1, NaN, 0, 2 against threshold 1 with `>=`: indicators [1, 0, 1] -/
example : indicators .ge (fin 1) [fin 1, nan, fin 0, fin 2] = [1, 0, 1] := by decide +kernel
example : pairSum [1, 0, 1] = 4 ∧ meanMemberScore [1, 0, 1] 0 = 2 / 3 := by
  constructor <;> (simp [pairSum, meanMemberScore]; norm_num)

end SV.Props.C13
