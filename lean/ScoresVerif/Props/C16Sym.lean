/-
  C16 stretch — the Fractions Skill Score under reflecting and transposing the fields.

  About the EXISTING specification `SV.Spec.Fss.fss` and the EXISTING model of the code `SV.Model.Fss.fssSingle`.
  `flipRows x H` is the field upside down, `transposeF x` the transposed field (Lemmas/C16Sym.lean).
  These statements also explain known finding F5: reflecting the fields SWAPS the two padding amounts, so the score is
  reflection invariant exactly for a symmetric extension — which the code's extension is only for even windows.
-/
import ScoresVerif.Props.C16
import ScoresVerif.Lemmas.C16Sym

namespace SV.Props.C16
open SV SV.Fl SV.Model.Fss
open SV.Spec.Fss (Cmp isEvent image fieldSums sums score fss win ext)

/-- turning BOTH fields upside down = exchanging the extension above and below (any fields, window, extension) -/
theorem fss_flip_rows (xf xo : Nat → Nat → Int) (H W pt pb pl pr h w : Nat) :
    fss (flipRows xf H) (flipRows xo H) H W pt pb pl pr h w = fss xf xo H W pb pt pl pr h w := by
  unfold fss; rw [fieldSums_flipRows]

/-- hence the score is reflection invariant for every symmetric extension, in particular without padding -/
theorem fss_flip_rows_invariant (xf xo : Nat → Nat → Int) (H W p pl pr h w : Nat) :
    fss (flipRows xf H) (flipRows xo H) H W p p pl pr h w = fss xf xo H W p p pl pr h w :=
  fss_flip_rows xf xo H W p p pl pr h w

/-- transposing both fields, the window and the extension leaves the score unchanged -/
theorem fss_transpose (xf xo : Nat → Nat → Int) (H W pt pb pl pr h w : Nat) :
    fss (transposeF xf) (transposeF xo) W H pl pr pt pb w h = fss xf xo H W pt pb pl pr h w := by
  unfold fss; rw [fieldSums_transpose]

/-- the spec score only looks at the cells inside the H × W field -/
theorem fss_congr (xf xo yf yo : Nat → Nat → Int) (H W pt pb pl pr h w : Nat)
    (hf : ∀ i < H, ∀ j < W, xf i j = yf i j) (ho : ∀ i < H, ∀ j < W, xo i j = yo i j) :
    fss xf xo H W pt pb pl pr h w = fss yf yo H W pt pb pl pr h w := by
  unfold fss fieldSums
  rw [image_congr xf yf H W pt pb pl pr h w hf, image_congr xo yo H W pt pb pl pr h w ho]

example : ∀ i < 2, ∀ j < 2, (fun (a _ : Nat) => if a < 2 then (1 : Int) else 0) i j = (fun _ _ => 1) i j := by decide

/-- events of a row-reversed table are the upside-down events -/
theorem ev_reverse (c : Cmp) (thr : Fl) (field : List (List Fl)) (i j : Nat) (hi : i < field.length) :
    ev c thr field.reverse i j = flipRows (ev c thr field) field.length i j := by
  unfold ev flipRows
  rw [getFl_reverse field i j hi]

/-- MODEL OF THE CODE, both fields stored upside down (`fcst[::-1]`, `obs[::-1]`): `fss_2d_single_field` computes the
    sliding-window score with the two vertical padding amounts EXCHANGED: ⌊h/2⌋ rows now lie BELOW … -/
theorem fssSingle_flip_rows (c : Cmp) (thr : Fl) (pad : Bool) (fcst obs : List (List Fl)) (H W h w : Nat)
    (hh : 1 ≤ h) (hH : h ≤ H) (hw : 1 ≤ w) (hW : w ≤ W) (hlf : fcst.length = H) (hlo : obs.length = H) :
    fssSingle (cmpOp c) thr pad fcst.reverse obs.reverse H W h w
      = fin (fss (ev c thr fcst) (ev c thr obs) H W (if pad then h - h / 2 else 0) (if pad then h / 2 else 0)
              (if pad then w / 2 else 0) (if pad then w - w / 2 else 0) h w) := by
  rw [fssSingle_spec c thr pad _ _ H W h w hh hH hw hW]
  congr 1
  rw [← fss_flip_rows (ev c thr fcst) (ev c thr obs)]
  apply fss_congr
  · intro i hi j _; rw [ev_reverse c thr fcst i j (by omega), hlf]
  · intro i hi j _; rw [ev_reverse c thr obs i j (by omega), hlo]

example : (1 : Nat) ≤ 3 ∧ 3 ≤ 3 ∧ (1 : Nat) ≤ 3 ∧ wF.length = 3 ∧ wO.length = 3 := by decide

/-- … so the code's score is unchanged by turning both fields upside down whenever there is no padding or the window
    height is even (for odd heights with padding it is not: F5, `fss_pad_counterexample`) -/
theorem fssSingle_flip_rows_invariant (c : Cmp) (thr : Fl) (pad : Bool) (fcst obs : List (List Fl)) (H W h w : Nat)
    (hh : 1 ≤ h) (hH : h ≤ H) (hw : 1 ≤ w) (hW : w ≤ W) (hlf : fcst.length = H) (hlo : obs.length = H)
    (hsym : pad = true → h % 2 = 0) :
    fssSingle (cmpOp c) thr pad fcst.reverse obs.reverse H W h w = fssSingle (cmpOp c) thr pad fcst obs H W h w := by
  rw [fssSingle_flip_rows c thr pad fcst obs H W h w hh hH hw hW hlf hlo, fssSingle_spec c thr pad fcst obs H W h w hh hH hw hW]
  cases pad
  · rfl
  · have e : h - h / 2 = h / 2 := by have := hsym rfl; omega
    simp only [if_true, e]

example : (1 : Nat) ≤ 2 ∧ 2 ≤ 3 ∧ (1 : Nat) ≤ 3 ∧ wF.length = 3 ∧ wO.length = 3 ∧ (true = true → 2 % 2 = 0) := by decide

/-- F5 seen through reflection: 3×3 window with zero padding, the witness fields of `fss_pad_counterexample` score
    4/13, the same fields upside down score 4/9 -/
theorem fssSingle_flip_rows_odd_pad_counterexample :
    fssSingle ThrOp.gt (fin (1 / 2)) true wF wO 3 3 3 3 = fin (4 / 13) ∧
    fssSingle ThrOp.gt (fin (1 / 2)) true wF.reverse wO.reverse 3 3 3 3 ≠ fin (4 / 13) := by
  constructor <;> decide +kernel

end SV.Props.C16
