/-
  C01, part 3 — the dimension frame of every function that calls `gather_dimensions`, as read from the AST of
  every module under /repo/src/scores on this run (`Gen/Frames.lean`).  A refactor that drops a keyword, hands the
  forecast's dims twice, or stops using the resolved set changes a generated fact and one of these theorems fails.
-/
import ScoresVerif.Gen.Frames

namespace SV.Props.C01Frames
open SV.Gen.Frames

/-- functions with one data input (the same dims are legitimately handed over twice) -/
def singleInput : List String := ["scores.processing.discretise.binary_discretise_proportion"]
/-- functions that hand over dims derived from their inputs rather than `<parameter>.dims` -/
def derivedDims : List String :=
  ["scores.emerging.risk_matrix.risk_matrix_score", "scores.categorical.contingency_impl._get_counts"]

/-- there are exactly 25 call sites (a new one must be looked at) -/
theorem site_count : sites.length = 25 := by decide +kernel

/-- every call site passes the caller's `reduce_dims` and `preserve_dims` through unchanged -/
theorem request_passed_through : ∀ s ∈ sites, s.passesReduce = true ∧ s.passesPreserve = true := by decide +kernel

/-- the two dimension sets handed over are those of the forecast-like input and of `obs` — two different inputs -/
theorem inputs_are_fcst_and_obs : ∀ s ∈ sites, s.site ∈ singleInput ∨ s.site ∈ derivedDims ∨
    (s.p0 ≠ "" ∧ s.p1 = "obs" ∧ s.p0 ≠ s.p1) := by decide +kernel

theorem single_input_sites : ∀ s ∈ sites, s.site ∈ singleInput → s.p0 = "data" ∧ s.p1 = "data" := by decide +kernel

theorem derived_sites : ∀ s ∈ sites, s.site ∈ derivedDims →
    (s.arg0 = "fcst_dims0" ∧ s.arg1 = "obs_dims0") ∨ (s.arg0 = "self.fcst_events.dims" ∧ s.arg1 = "self.obs_events.dims") := by
  decide +kernel

/-- the resolved set is what the reduction (`mean` / `sum` / `corr`) or the following code uses -/
theorem result_is_used : ∀ s ∈ sites, s.resultUsed = true := by decide +kernel

/-- exactly these three scores let `reduce_dims='all'` also reduce a dimension that only the weights carry -/
theorem weights_dims_sites : (sites.filter (·.passesWeightsDims)).map (·.site) =
    ["scores.emerging.risk_matrix.risk_matrix_score", "scores.probability.brier_impl.brier_score_for_ensemble",
     "scores.probability.crps_impl.crps_for_ensemble"] := by decide +kernel

/-- exactly the two ensemble scores declare a score-specific (member) dimension to `gather_dimensions` -/
theorem specific_sites : (sites.filter (·.passesSpecific)).map (·.site) =
    ["scores.probability.brier_impl.brier_score_for_ensemble", "scores.probability.crps_impl.crps_for_ensemble"] := by
  decide +kernel

end SV.Props.C01Frames
