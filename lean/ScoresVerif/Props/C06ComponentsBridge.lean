/-
  C06ComponentsBridge — the under- / over-forecast components of the ensemble CRPS as TRUE (Lebesgue) integrals of the
  ensemble CDF.

  Props/C06Components.lean proves under / over / spread = exact step integrals; Lemmas/C06ComponentsBridge.lean (on top of
  the generic bridge of Lemmas/Bridge.lean) shows those step integrals are Mathlib integrals.  Combined, for the model of
  `crps_for_ensemble(include_components=True)` (finite members, any size ≥ 1, any observation y) — no grid in the statement:

      underforecast_penalty = ∫_{(−∞, y]} F_ens(t) dt
      overforecast_penalty  = ∫_{(y, ∞)} (1 − F_ens(t)) dt
      spread ('ecdf')       = ∫_p^U F_ens (1 − F_ens),   p / U = smallest / largest of members ∪ {y}

  and for `interval_tw_crps_for_ensemble(a, b)`, a ≤ b:
      under = ∫_a^b 1{t<y} F_ens(t) dt ,   over = ∫_a^b 1{t≥y} (1 − F_ens(t)) dt.
  `ecdfR xs t` = fraction of members ≤ t over ℝ (Lemmas/Bridge.lean), `underIntegrandR xs y t = 1{t<y}·ecdfR xs t`,
  `overIntegrandR xs y t = 1{y≤t}·(1 − ecdfR xs t)`; `EqReal v r` = "the model value v is `fin s` with (s : ℝ) = r".
-/
import ScoresVerif.Props.C06Components
import ScoresVerif.Lemmas.C06ComponentsBridge

set_option linter.unusedVariables false

namespace SV.Props.C06ComponentsBridge
open MeasureTheory Set
open SV SV.Bridge SV.Model.CrpsEns SV.Spec.CrpsEns SV.Lemmas.CrpsEns
open SV.Spec.Murphy (lastOr)

/-- **underforecast_penalty = ∫_{(−∞, y]} F_ens(t) dt** -/
theorem under_eq_lebesgue {xs : List ℚ} (hx : xs ≠ []) (y : ℚ) :
    EqReal (under (xs.map Fl.fin) (Fl.fin y)) (∫ t in Iic (y : ℝ), ecdfR xs t) :=
  .of_fin (under_fin_integral hx y) (underIntegral_eq_improper xs y).2
example : ([1, 3, 3] : List ℚ) ≠ [] := by decide

/-- F_ens is integrable there -/
theorem ecdf_integrableOn_Iic (xs : List ℚ) (y : ℚ) : IntegrableOn (ecdfR xs) (Iic (y : ℝ)) volume :=
  (underIntegral_eq_improper xs y).1

/-- the same as an interval integral from the smallest of members ∪ {y} -/
theorem under_eq_intervalIntegral {xs : List ℚ} (hx : xs ≠ []) (y p : ℚ) (g : List ℚ) (hg : grid (y :: xs) = p :: g) :
    EqReal (under (xs.map Fl.fin) (Fl.fin y)) (∫ t in (p : ℝ)..(y : ℝ), ecdfR xs t) :=
  .of_fin (under_fin_integral hx y) (underIntegral_eq_lebesgue xs y p g hg).2
example : ([0, 2, 1] : List ℚ) ≠ [] ∧ grid ((1 : ℚ) :: [0, 2, 1]) = 0 :: [1, 2] := ⟨by decide, by decide +kernel⟩

/-- **overforecast_penalty = ∫_{(y, ∞)} (1 − F_ens(t)) dt** -/
theorem over_eq_lebesgue {xs : List ℚ} (hx : xs ≠ []) (y : ℚ) :
    EqReal (over (xs.map Fl.fin) (Fl.fin y)) (∫ t in Ioi (y : ℝ), (1 - ecdfR xs t)) :=
  .of_fin (over_fin_integral hx y) (overIntegral_eq_improper hx y).2
example : ([2] : List ℚ) ≠ [] := by decide

/-- 1 − F_ens is integrable there -/
theorem one_sub_ecdf_integrableOn_Ioi {xs : List ℚ} (hx : xs ≠ []) (y : ℚ) :
    IntegrableOn (fun t => 1 - ecdfR xs t) (Ioi (y : ℝ)) volume := (overIntegral_eq_improper hx y).1
example : ([2] : List ℚ) ≠ [] := by decide

/-- the same as an interval integral up to the largest of members ∪ {y} -/
theorem over_eq_intervalIntegral {xs : List ℚ} (hx : xs ≠ []) (y p : ℚ) (g : List ℚ) (hg : grid (y :: xs) = p :: g) :
    EqReal (over (xs.map Fl.fin) (Fl.fin y)) (∫ t in (y : ℝ)..(lastOr p g : ℝ), (1 - ecdfR xs t)) :=
  .of_fin (over_fin_integral hx y) (overIntegral_eq_lebesgue xs y p g hg).2
example : ([0, 2, 1] : List ℚ) ≠ [] ∧ grid ((1 : ℚ) :: [0, 2, 1]) = 0 :: [1, 2] := ⟨by decide, by decide +kernel⟩

/-- **spread ('ecdf') = ∫ F_ens (1 − F_ens)** over the hull of members ∪ {y} (outside of it the integrand is 0) -/
theorem spread_ecdf_eq_lebesgue {xs : List ℚ} (hx : xs ≠ []) (y p : ℚ) (g : List ℚ) (hg : grid (y :: xs) = p :: g) :
    EqReal (spreadComp .ecdf (xs.map Fl.fin) (Fl.fin y))
      (∫ t in (p : ℝ)..(lastOr p g : ℝ), spreadIntegrandR xs t) :=
  .of_fin (spread_ecdf_fin_integral hx y) (spreadIntegral_eq_lebesgue xs y p g hg).2
example : ([0, 2, 1] : List ℚ) ≠ [] ∧ grid ((1 : ℚ) :: [0, 2, 1]) = 0 :: [1, 2] := ⟨by decide, by decide +kernel⟩

/-! ## threshold-weighted -/

/-- generic clip chaining function: under / over are the Lebesgue integrals of `weightOnR a? b?` × the component
    integrands over the hull of thresholds ∪ {y} ∪ members -/
theorem tw_under_over_eq_lebesgue {v : Fl → Fl} {a b : Option ℚ} (hv : ∀ q, v (Fl.fin q) = Fl.fin (vOpt a b q))
    {xs : List ℚ} (hx : xs ≠ []) (m : Method) (y p : ℚ) (g : List ℚ) (hg : grid (optPts a b ++ y :: xs) = p :: g) :
    EqReal (tw v m (xs.map Fl.fin) (Fl.fin y)).under
        (∫ t in (p : ℝ)..(lastOr p g : ℝ), weightOnR a b t * underIntegrandR xs y t) ∧
      EqReal (tw v m (xs.map Fl.fin) (Fl.fin y)).over
        (∫ t in (p : ℝ)..(lastOr p g : ℝ), weightOnR a b t * overIntegrandR xs y t) :=
  ⟨.of_fin (tw_under_fin hv hx m y) (twUnderIntegral_eq_lebesgue a b xs y p g hg).2,
   .of_fin (tw_over_fin hv hx m y) (twOverIntegral_eq_lebesgue a b xs y p g hg).2⟩
example : (∀ q, chainUpper (Fl.fin 1) (Fl.fin q) = Fl.fin (vOpt (some 1) none q)) ∧
    grid (optPts (some (1 : ℚ)) none ++ (1 : ℚ) :: [0, 3, 1]) = 0 :: [1, 3] :=
  ⟨fun q => max_fin q 1, by decide +kernel⟩

/-- **interval**: `interval_tw_crps_for_ensemble(lower_threshold=a, upper_threshold=b)` (model, either method), a ≤ b:
    under = ∫_a^b 1{t<y} F_ens(t) dt and over = ∫_a^b 1{t≥y} (1 − F_ens(t)) dt -/
theorem interval_under_over_eq_lebesgue {a b : ℚ} (hab : a ≤ b) {xs : List ℚ} (hx : xs ≠ []) (m : Method) (y : ℚ) :
    EqReal (interval (Fl.fin a) (Fl.fin b) m (xs.map Fl.fin) (Fl.fin y)).under
        (∫ t in (a : ℝ)..(b : ℝ), underIntegrandR xs y t) ∧
      EqReal (interval (Fl.fin a) (Fl.fin b) m (xs.map Fl.fin) (Fl.fin y)).over
        (∫ t in (a : ℝ)..(b : ℝ), overIntegrandR xs y t) :=
  have hv : ∀ q, chainInterval (Fl.fin a) (Fl.fin b) (Fl.fin q) = Fl.fin (vOpt (some a) (some b) q) :=
    fun q => by simp [chainInterval, vOpt, omax, omin, min_fin, max_fin]
  ⟨.of_fin (tw_under_fin hv hx m y) (twUnderIntegral_interval_eq_lebesgue hab xs y).2,
   .of_fin (tw_over_fin hv hx m y) (twOverIntegral_interval_eq_lebesgue hab xs y).2⟩
example : (0 : ℚ) ≤ 1 / 2 ∧ ([0, 2, 1] : List ℚ) ≠ [] := ⟨by norm_num, by decide⟩

end SV.Props.C06ComponentsBridge
