/-
  C07Bridge — the exact CDF-CRPS is a TRUE (Lebesgue) integral.

  Props/C07.lean (`exact_eq_spec`) proves that total / under-forecast / over-forecast penalty of the model of
  `crps_cdf_exact` equal the Spec's weighted cell sums Σ_cells w_cell · Simpson((lin − H)²) (`Spec.CrpsCdf.exactParts`).
  Lemmas/C07Bridge.lean proves that these cell sums are Mathlib's `∫ t in x₀..x_n, …` (intervalIntegral over ℝ).  Combined:

      total = ∫ w(t)·(F(t) − H(t))² dt,   under = ∫_{t < obs} w·(F − H)² ,   over = ∫_{t ≥ obs} w·(F − H)²

  over [x₀, x_n] = first … last point of the common grid, where `F = pwLinR g f` is the continuous piecewise-linear
  forecast CDF through the grid ordinates, `w = stepR g w` the right-continuous step weight (w_k on [x_k, x_{k+1})) and
  `H = heavisideR obs` = 1{t ≥ obs} — with no trusted "Simpson is exact on each cell / cells add up" step.
  `EqReal v r` = "the model value v is `fin s` for a rational s with (s : ℝ) = r".
-/
import ScoresVerif.Props.C07
import ScoresVerif.Lemmas.C07Bridge

set_option linter.unusedVariables false

namespace SV.Props.C07Bridge
open MeasureTheory
open SV SV.Bridge SV.Bridge.C07 SV.Props.C07
open SV.Model.Cdf SV.Model.CrpsCdf SV.Lemmas.Cdf SV.Lemmas.CrpsCdf
open SV.Fl (fin nan)
open SV.Spec.CrpsCdf (exactParts)
open SV.Spec.Murphy (lastOr)

/-- the Spec cell sums are Lebesgue integrals: total, and the parts left of / from the observation on -/
theorem exactParts_eq_lebesgue (obs : ℚ) (p : ℚ) (rest f w : List ℚ) (hg : Incr (p :: rest))
    (hs : NoStraddle obs (p :: rest)) (hf : f.length = (p :: rest).length) (hw : w.length = (p :: rest).length) :
    (((exactParts obs (p :: rest) f w).total : ℚ) : ℝ)
      = ∫ t in (p : ℝ)..(lastOr p rest : ℝ),
          stepR (p :: rest) w t * (pwLinR (p :: rest) f t - heavisideR obs t) ^ 2 ∧
    (((exactParts obs (p :: rest) f w).under : ℚ) : ℝ)
      = ∫ t in (p : ℝ)..(lastOr p rest : ℝ),
          (if t < (obs : ℝ) then stepR (p :: rest) w t * (pwLinR (p :: rest) f t - heavisideR obs t) ^ 2 else 0) ∧
    (((exactParts obs (p :: rest) f w).over : ℚ) : ℝ)
      = ∫ t in (p : ℝ)..(lastOr p rest : ℝ),
          (if t < (obs : ℝ) then 0 else stepR (p :: rest) w t * (pwLinR (p :: rest) f t - heavisideR obs t) ^ 2) := by
  obtain ⟨e1, e2, e3⟩ := exactParts_eq_partSum obs (p :: rest) f w hf hw
  have I := fun a b : ℚ => (part_integral a b obs rest p f w hg hs hf hw).2
  have E := fun a b : ℝ => partIntegrandR_eq a b obs (p :: rest) f w hf hw
  refine ⟨?_, ?_, ?_⟩
  · rw [e1, I 1 1]
    refine intervalIntegral.integral_congr fun t _ => ?_
    simp only [E, Rat.cast_one, ite_self, one_mul]
  · rw [e2, I 1 0]
    refine intervalIntegral.integral_congr fun t _ => ?_
    simp only [E, Rat.cast_one, Rat.cast_zero]
    split_ifs <;> ring
  · rw [e3, I 0 1]
    refine intervalIntegral.integral_congr fun t _ => ?_
    simp only [E, Rat.cast_one, Rat.cast_zero]
    split_ifs <;> ring

/-- **crps_cdf_exact (model) = the threshold-weighted CRPS integral**: total, under-forecast and over-forecast penalty
    are the Lebesgue integrals of w·(F − H)² over the grid range, over its part left of the observation, and over its part
    from the observation on — wherever the observation lies on the grid -/
theorem exact_eq_lebesgue (obs : ℚ) (p : ℚ) (rest f w : List ℚ) (hg : Incr (p :: rest))
    (hs : NoStraddle obs (p :: rest)) (hf : f.length = (p :: rest).length) (hw : w.length = (p :: rest).length) :
    EqReal (exactRow (p :: rest) (f.map fin) (observedRow (p :: rest) (fin obs)) (w.map fin)).total
      (∫ t in (p : ℝ)..(lastOr p rest : ℝ),
          stepR (p :: rest) w t * (pwLinR (p :: rest) f t - heavisideR obs t) ^ 2) ∧
    EqReal (exactRow (p :: rest) (f.map fin) (observedRow (p :: rest) (fin obs)) (w.map fin)).under
      (∫ t in (p : ℝ)..(lastOr p rest : ℝ),
          (if t < (obs : ℝ) then stepR (p :: rest) w t * (pwLinR (p :: rest) f t - heavisideR obs t) ^ 2 else 0)) ∧
    EqReal (exactRow (p :: rest) (f.map fin) (observedRow (p :: rest) (fin obs)) (w.map fin)).over
      (∫ t in (p : ℝ)..(lastOr p rest : ℝ),
          (if t < (obs : ℝ) then 0 else stepR (p :: rest) w t * (pwLinR (p :: rest) f t - heavisideR obs t) ^ 2)) := by
  obtain ⟨c1, c2, c3⟩ := exact_eq_spec obs (p :: rest) f w hg hs hf hw
  obtain ⟨l1, l2, l3⟩ := exactParts_eq_lebesgue obs p rest f w hg hs hf hw
  exact ⟨.of_fin c1 l1, .of_fin c2 l2, .of_fin c3 l3⟩

/-- the hypotheses hold on a non-trivial instance: grid 0,1,2,3, observation 1 (a grid point), weight 1,0,½,1 -/
example : Incr ((0 : ℚ) :: [1, 2, 3]) ∧ NoStraddle 1 ((0 : ℚ) :: [1, 2, 3]) ∧
    ([1/4, 1/2, 3/4, 1] : List ℚ).length = ((0 : ℚ) :: [1, 2, 3]).length ∧
    ([1, 0, 1/2, 1] : List ℚ).length = ((0 : ℚ) :: [1, 2, 3]).length :=
  ⟨exG_incr, exG_noStraddle, rfl, rfl⟩

/-- the integrand is integrable on the grid range (it is piecewise quadratic with finitely many jumps) -/
theorem exact_integrand_integrable (obs : ℚ) (p : ℚ) (rest f w : List ℚ) (hg : Incr (p :: rest))
    (hs : NoStraddle obs (p :: rest)) (hf : f.length = (p :: rest).length) (hw : w.length = (p :: rest).length) :
    IntervalIntegrable (fun t => stepR (p :: rest) w t * (pwLinR (p :: rest) f t - heavisideR obs t) ^ 2)
      volume p (lastOr p rest) := by
  have h := (part_integral 1 1 obs rest p f w hg hs hf hw).1
  have e : (fun t => stepR (p :: rest) w t * (pwLinR (p :: rest) f t - heavisideR obs t) ^ 2)
      = partIntegrandR ((1 : ℚ) : ℝ) ((1 : ℚ) : ℝ) obs (p :: rest) f w := by
    funext t
    rw [partIntegrandR_eq _ _ _ _ _ _ hf hw]
    simp only [Rat.cast_one, ite_self, one_mul]
  rw [e]; exact h

end SV.Props.C07Bridge
