/-
  C02 for CATEGORICAL scores — a pair with a NaN forecast or observation is in NO cell of the contingency table,
  lifted from one pair (`Props.C02.contingency_maps_nan`) to the COUNTS over a list of pairs of any length.

  The maps `map_tp / map_tn / map_fp / map_fn` are regenerated from `BinaryContingencyManager.__init__`
  (contingency_impl.py) on every run; a count is `self.tp.sum()` etc., i.e. the NaN-skipping sum `SV.nansum` of a map
  over the pairs (this is literally the body of `Model.C08.tableOfEvents`, whose `total` is `tp + tn + fp + fn`).
  Pairs are arbitrary `Fl × Fl` (not only 0/1 events) unless a theorem says otherwise.
-/
import ScoresVerif.Props.C02
import ScoresVerif.Lemmas.C02Lists

namespace SV.Props.C02Counts
open SV SV.Fl SV.Gen.Contingency SV.Lemmas.C02Lists SV.Props.C02

/-- the count of one cell: NaN-skipping sum of the cell's map over the pairs -/
def cellCount (cell : Fl → Fl → Fl) (es : List (Fl × Fl)) : Fl := nansum (es.map fun e => cell e.1 e.2)

/-- `total_count = tp + tn + fp + fn` -/
def totalCount (es : List (Fl × Fl)) : Fl :=
  Fl.add (Fl.add (Fl.add (cellCount map_tp es) (cellCount map_tn es)) (cellCount map_fp es)) (cellCount map_fn es)

/-- neither forecast nor observation is NaN -/
def complete (e : Fl × Fl) : Bool := e.1.notNan && e.2.notNan

theorem cell_nan_of_incomplete {cell : Fl → Fl → Fl} (hl : ∀ x, cell nan x = nan) (hr : ∀ x, cell x nan = nan)
    (e : Fl × Fl) (h : complete e = false) : cell e.1 e.2 = nan := by
  obtain ⟨f, o⟩ := e
  cases f <;> cases o <;> simp_all [complete, notNan, isNan]

theorem tp_l (x : Fl) : map_tp nan x = nan := (contingency_maps_nan x).1
theorem tp_r (x : Fl) : map_tp x nan = nan := (contingency_maps_nan x).2.1
theorem tn_l (x : Fl) : map_tn nan x = nan := (contingency_maps_nan x).2.2.1
theorem tn_r (x : Fl) : map_tn x nan = nan := (contingency_maps_nan x).2.2.2.1
theorem fp_l (x : Fl) : map_fp nan x = nan := (contingency_maps_nan x).2.2.2.2.1
theorem fp_r (x : Fl) : map_fp x nan = nan := (contingency_maps_nan x).2.2.2.2.2.1
theorem fn_l (x : Fl) : map_fn nan x = nan := (contingency_maps_nan x).2.2.2.2.2.2.1
theorem fn_r (x : Fl) : map_fn x nan = nan := (contingency_maps_nan x).2.2.2.2.2.2.2

theorem cellCount_filter {cell : Fl → Fl → Fl} (hl : ∀ x, cell nan x = nan) (hr : ∀ x, cell x nan = nan)
    (es : List (Fl × Fl)) : cellCount cell es = cellCount cell (es.filter complete) :=
  nansum_congr_valid (valid_map_filter (fun e => cell e.1 e.2) complete (cell_nan_of_incomplete hl hr) es)

/-- **counts over a list of pairs = counts over the list with every NaN pair deleted** — all four cells and the
    total, lists of any length, NaN in forecast, observation or both, any number of such pairs -/
theorem counts_eq_counts_without_nan_pairs (es : List (Fl × Fl)) :
    cellCount map_tp es = cellCount map_tp (es.filter complete) ∧
    cellCount map_tn es = cellCount map_tn (es.filter complete) ∧
    cellCount map_fp es = cellCount map_fp (es.filter complete) ∧
    cellCount map_fn es = cellCount map_fn (es.filter complete) ∧
    totalCount es = totalCount (es.filter complete) := by
  have h1 := cellCount_filter tp_l tp_r es
  have h2 := cellCount_filter tn_l tn_r es
  have h3 := cellCount_filter fp_l fp_r es
  have h4 := cellCount_filter fn_l fn_r es
  refine ⟨h1, h2, h3, h4, ?_⟩
  unfold totalCount; rw [← h1, ← h2, ← h3, ← h4]

/-- NaN written over the forecast / the observation of a pair -/
def nanFcst (e : Fl × Fl) : Fl × Fl := (nan, e.2)
def nanObs (e : Fl × Fl) : Fl × Fl := (e.1, nan)

theorem cellCount_mask {cell : Fl → Fl → Fl} (inval : Fl × Fl → Fl × Fl)
    (h : ∀ e, cell (inval e).1 (inval e).2 = nan) (keep : List Bool) (es : List (Fl × Fl)) :
    cellCount cell (maskWith inval keep es) = cellCount cell (deleteWith keep es) :=
  nansum_congr_valid (valid_map_maskWith (fun e => cell e.1 e.2) inval h keep es)

/-- mask = delete, forecast side: NaN written into the FORECAST of the flagged pairs gives the counts of the list
    with those pairs physically deleted -/
theorem counts_nan_fcst_eq_deleted (keep : List Bool) (es : List (Fl × Fl)) :
    cellCount map_tp (maskWith nanFcst keep es) = cellCount map_tp (deleteWith keep es) ∧
    cellCount map_tn (maskWith nanFcst keep es) = cellCount map_tn (deleteWith keep es) ∧
    cellCount map_fp (maskWith nanFcst keep es) = cellCount map_fp (deleteWith keep es) ∧
    cellCount map_fn (maskWith nanFcst keep es) = cellCount map_fn (deleteWith keep es) ∧
    totalCount (maskWith nanFcst keep es) = totalCount (deleteWith keep es) := by
  have h1 := cellCount_mask (cell := map_tp) nanFcst (fun e => tp_l e.2) keep es
  have h2 := cellCount_mask (cell := map_tn) nanFcst (fun e => tn_l e.2) keep es
  have h3 := cellCount_mask (cell := map_fp) nanFcst (fun e => fp_l e.2) keep es
  have h4 := cellCount_mask (cell := map_fn) nanFcst (fun e => fn_l e.2) keep es
  refine ⟨h1, h2, h3, h4, ?_⟩
  unfold totalCount; rw [h1, h2, h3, h4]

/-- mask = delete, observation side -/
theorem counts_nan_obs_eq_deleted (keep : List Bool) (es : List (Fl × Fl)) :
    cellCount map_tp (maskWith nanObs keep es) = cellCount map_tp (deleteWith keep es) ∧
    cellCount map_tn (maskWith nanObs keep es) = cellCount map_tn (deleteWith keep es) ∧
    cellCount map_fp (maskWith nanObs keep es) = cellCount map_fp (deleteWith keep es) ∧
    cellCount map_fn (maskWith nanObs keep es) = cellCount map_fn (deleteWith keep es) ∧
    totalCount (maskWith nanObs keep es) = totalCount (deleteWith keep es) := by
  have h1 := cellCount_mask (cell := map_tp) nanObs (fun e => tp_r e.1) keep es
  have h2 := cellCount_mask (cell := map_tn) nanObs (fun e => tn_r e.1) keep es
  have h3 := cellCount_mask (cell := map_fp) nanObs (fun e => fp_r e.1) keep es
  have h4 := cellCount_mask (cell := map_fn) nanObs (fun e => fn_r e.1) keep es
  refine ⟨h1, h2, h3, h4, ?_⟩
  unfold totalCount; rw [h1, h2, h3, h4]

/-- never less: a complete pair (no NaN) has a NUMBER (0 or 1) in every map, so it enters every cell's sum -/
theorem maps_number_of_complete (e : Fl × Fl) (h : complete e = true) :
    (map_tp e.1 e.2 = fin 0 ∨ map_tp e.1 e.2 = fin 1) ∧ (map_tn e.1 e.2 = fin 0 ∨ map_tn e.1 e.2 = fin 1) ∧
    (map_fp e.1 e.2 = fin 0 ∨ map_fp e.1 e.2 = fin 1) ∧ (map_fn e.1 e.2 = fin 0 ∨ map_fn e.1 e.2 = fin 1) := by
  obtain ⟨f, o⟩ := e
  have hf : f.isNan = false := by cases f <;> simp_all [complete, notNan, isNan]
  have ho : o.isNan = false := by cases o <;> simp_all [complete, notNan, isNan]
  simp only [map_tp, map_tn, map_fp, map_fn, whereB, hf, ho, Bool.not_false, if_true, ofBool]
  refine ⟨?_, ?_, ?_, ?_⟩ <;> split <;> simp
example : complete (fin 1, fin 0) = true := by decide

/-- exactly the complete pairs are the entries summed in each cell: the number of non-NaN entries of every map is the
    number of complete pairs (never more, never less) -/
theorem entries_counted_eq_complete_pairs (es : List (Fl × Fl)) :
    count (es.map fun e => map_tp e.1 e.2) = (es.filter complete).length ∧
    count (es.map fun e => map_tn e.1 e.2) = (es.filter complete).length ∧
    count (es.map fun e => map_fp e.1 e.2) = (es.filter complete).length ∧
    count (es.map fun e => map_fn e.1 e.2) = (es.filter complete).length := by
  have num : ∀ {x : Fl}, (x = fin 0 ∨ x = fin 1) → x.notNan = true := by
    intro x hx; rcases hx with rfl | rfl <;> rfl
  refine ⟨?_, ?_, ?_, ?_⟩ <;> unfold count
  · rw [valid_map_filter_eq (fun e => map_tp e.1 e.2) complete (cell_nan_of_incomplete tp_l tp_r)
      (fun e h => num (maps_number_of_complete e h).1)]; simp
  · rw [valid_map_filter_eq (fun e => map_tn e.1 e.2) complete (cell_nan_of_incomplete tn_l tn_r)
      (fun e h => num (maps_number_of_complete e h).2.1)]; simp
  · rw [valid_map_filter_eq (fun e => map_fp e.1 e.2) complete (cell_nan_of_incomplete fp_l fp_r)
      (fun e h => num (maps_number_of_complete e h).2.2.1)]; simp
  · rw [valid_map_filter_eq (fun e => map_fn e.1 e.2) complete (cell_nan_of_incomplete fn_l fn_r)
      (fun e h => num (maps_number_of_complete e h).2.2.2)]; simp

/-! Non-vacuity: three pairs, one with a NaN forecast and one with a NaN observation -/
example : totalCount [(fin 1, fin 1), (nan, fin 1), (fin 0, nan), (fin 1, fin 0)] = fin 2 := by decide +kernel
example : cellCount map_tp (maskWith nanFcst [true, false, true] [(fin 1, fin 1), (fin 1, fin 1), (fin 1, fin 0)]) = fin 1 := by
  decide +kernel

end SV.Props.C02Counts
