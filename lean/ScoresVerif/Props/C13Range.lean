/-
  C13 (stretch) — array level in Except-free form and the range of every result: per-case values and means over
  cases of `brier_score_for_ensemble` (unweighted) and `brier_score` on accepted inputs are missing or in [0, 1].
-/
import ScoresVerif.Props.C13Fair
import ScoresVerif.Lemmas.C13Mean

set_option linter.unusedSimpArgs false

namespace SV.Props.C13
open SV SV.Fl
open SV.Gen.Brier (operator_rejected brier_kernel)
open SV.Spec.Brier (Rel4 eventCount memberCount)
open SV.Model.C13 (ensCase ensScore applyWeights brierScore)
open SV.Lemmas.C13Mean (NanOrIn nanmean_bounds)

private theorem mapM_ok {α β : Type} (g : α → Except String β) (g' : α → β) (h : ∀ x, g x = .ok (g' x)) (l : List α) :
    l.mapM g = .ok (l.map g') := by
  induction l with
  | nil => rfl
  | cons a l ih => simp only [List.mapM_cons, h, ih, List.map_cons]; rfl

private theorem nested_ok {γ : Type} (cases : List γ) (ths : List Fl) (G : Fl → γ → Except String Fl) (G' : Fl → γ → Fl)
    (hG : ∀ t c, G t c = .ok (G' t c)) (W : List Fl → List Fl) :
    (ths.mapM fun thr => do
        let col ← cases.mapM (G thr)
        (pure (W col) : Except String (List Fl)))
      = .ok (ths.map fun thr => W (cases.map (G' thr))) :=
  mapM_ok _ (fun thr => W (cases.map (G' thr))) (fun thr => by rw [mapM_ok (G thr) (G' thr) (hG thr)]; rfl) _

/-- the column of one threshold: the property's per-case definition over all (members, observation) pairs, weighted -/
def specColumn (r : Rel4) (fcst : List (List Fl)) (obs : List Fl) (thr : Fl) (fair : Bool) (weights : Option (List Fl)) : List Fl :=
  applyWeights ((fcst.zip obs).map fun c => Spec.Brier.ensCase r c.1 c.2 thr fair) weights

/-- **`brier_score_for_ensemble` at array level IS the definition**: for each of the four operators the model's
    result is ValueError for a non-monotone threshold list and otherwise the table of (weighted) per-case
    definition values with, per threshold, their NaN-skipping mean over the cases -/
theorem ensScore_eq_spec (r : Rel4) (fcst : List (List Fl)) (obs thresholds : List Fl) (fair : Bool)
    (weights : Option (List Fl)) :
    ensScore fcst obs thresholds (.op (opOf r)) fair weights =
      if !(monotoneNondecr thresholds) then .error "ValueError"
      else .ok ((List.range fcst.length).map (fun k => thresholds.map fun thr =>
                    (specColumn r fcst obs thr fair weights).getD k nan),
                thresholds.map fun thr => nanmean (specColumn r fcst obs thr fair weights)) := by
  unfold ensScore
  have hr : operator_rejected (.op (opOf r)) = false := by cases r <;> decide
  simp only [hr, Bool.false_eq_true, if_false]
  cases hmono : monotoneNondecr thresholds
  · rfl
  · simp only [Bool.not_true, Bool.false_eq_true, if_false]
    have key := nested_ok (fcst.zip obs) thresholds
      (fun thr (x : List Fl × Fl) => ensCase x.1 x.2 thr (.op (opOf r)) fair)
      (fun thr c => Spec.Brier.ensCase r c.1 c.2 thr fair)
      (fun thr x => ensCase_eq_spec r x.1 x.2 thr fair) (fun col => applyWeights col weights)
    erw [key]
    simp only [bind, Except.bind, pure, Except.pure, List.map_map, specColumn, Function.comp_def]

/-- a per-case value of the definition is missing or in [0, 1] — fair or not, any ensemble, any of the four relations -/
theorem spec_case_range (r : Rel4) (ms : List Fl) (o thr : Fl) (fair : Bool) :
    NanOrIn 0 1 (Spec.Brier.ensCase r ms o thr fair) := by
  by_cases hobs : o.isNan = false
  · by_cases hthr : thr.isNan = false
    · by_cases hm : memberCount ms = 0
      · left; unfold Spec.Brier.ensCase Spec.Brier.brierEns; simp [hm, hobs, hthr]
      · obtain ⟨a, ha, h0, h1⟩ := ensCase_range r ms o thr hobs hthr hm fair
        rw [ensCase_eq_spec] at ha
        exact Or.inr ⟨a, Except.ok.inj ha, h0, h1⟩
    · left; unfold Spec.Brier.ensCase; simp at hthr; simp [hthr]
  · left; unfold Spec.Brier.ensCase; simp at hobs; simp [hobs]

/-- **range at array level** (no weights): whenever `brier_score_for_ensemble` returns, every mean over the cases
    — for every threshold — is missing or in [0, 1] -/
theorem ensScore_means_range (r : Rel4) (fcst : List (List Fl)) (obs thresholds : List Fl) (fair : Bool)
    (tbl : List (List Fl)) (means : List Fl)
    (h : ensScore fcst obs thresholds (.op (opOf r)) fair none = .ok (tbl, means)) :
    ∀ μ ∈ means, NanOrIn 0 1 μ := by
  rw [ensScore_eq_spec] at h
  cases hmono : monotoneNondecr thresholds
  · simp [hmono] at h
  · simp only [hmono, Bool.not_true, Bool.false_eq_true, if_false] at h
    have hm := (Prod.mk.inj (Except.ok.inj h)).2
    intro μ hμ
    rw [← hm] at hμ
    obtain ⟨thr, _, rfl⟩ := List.mem_map.mp hμ
    apply nanmean_bounds
    intro x hx
    unfold specColumn applyWeights at hx
    obtain ⟨c, _, rfl⟩ := List.mem_map.mp hx
    exact spec_case_range r c.1 c.2 thr fair

/-- the hypothesis is met, e.g. -/
example : ensScore [[fin 1, nan, fin 0], [fin 1, fin 1, fin (1/2)]] [fin 1, fin 0] [fin (1/2), fin 1] (.op (opOf .ge)) true none
    = .ok ([[fin 0, fin 0], [fin 1, fin (1/3)]], [fin (1/2), fin (1/6)]) := by decide +kernel

/-- **range of `brier_score`** with checking on and no weights: on accepted inputs the result is missing or in [0, 1] -/
theorem brierScore_range (fs os : List Fl) (v : Fl) (h : brierScore fs os none true = .ok v) : NanOrIn 0 1 v := by
  rw [brier_checked_accepted] at h
  cases hacc : Spec.Brier.accepted fs os
  · simp [hacc] at h
  · simp only [hacc, if_true] at h
    have hv := Except.ok.inj h
    rw [← hv]
    unfold Spec.Brier.brier Spec.Brier.meanOver
    apply nanmean_bounds
    intro x hx
    obtain ⟨⟨f, o⟩, hmem, rfl⟩ := List.mem_map.mp (by rw [← List.map_uncurry_zip_eq_zipWith] at hx; exact hx)
    have hf := List.of_mem_zip hmem
    unfold Spec.Brier.accepted at hacc
    simp only [Bool.and_eq_true, List.all_eq_true, Bool.or_eq_true] at hacc
    have h1 := hacc.1 f hf.1
    have h2 := hacc.2 o hf.2
    cases f with
    | nan => left; simp
    | pinf => simp [isNan, Fl.le] at h1
    | ninf => simp [isNan, Fl.le] at h1
    | fin a =>
      cases o with
      | nan => left; simp
      | pinf => simp [isNan, Fl.beq] at h2
      | ninf => simp [isNan, Fl.beq] at h2
      | fin b =>
        right
        simp only [isNan_fin, Bool.false_eq_true, false_or, le_fin, Bool.and_eq_true, decide_eq_true_eq, beq_fin] at h1 h2
        refine ⟨(a - b) * (a - b), by simp, ?_, ?_⟩
        · nlinarith [sq_nonneg (a - b)]
        · rcases h2 with rfl | rfl <;> nlinarith [h1.1, h1.2]

example : brierScore [fin (1/4), nan, fin 1] [fin 1, fin 0, fin 1] none true = .ok (fin (9/32)) := by decide +kernel

end SV.Props.C13
