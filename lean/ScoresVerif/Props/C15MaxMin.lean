/-
  C15 (stretch) — the mean-functional fit of the model of `isoreg_impl.py` IS the max-min formula of
  `Spec/Isotonic.lean`, and it does not depend on the order of the input (forecast, observation, weight) triples.

  As everywhere in C15 the statements are about the hand model `SV.Model.Isotonic` (tied to the source by the
  differential correspondence check); `scipy.optimize.isotonic_regression` itself stays outside the proof.
-/
import ScoresVerif.Lemmas.IsotonicC15

namespace SV.Props.C15
open SV SV.Model.Isotonic

/-! ## 7. fit = max-min formula (mean functional, exact rationals, every input with positive weights) -/

/-- MAX-MIN: for ANY sequence of pairs with positive weights (in particular the tidied one) the fitted sequence is,
    position by position, `max_{j ≤ i} min_{k ≥ i}` of the weighted mean of observations `j..k`
    (`Spec.Isotonic.maxminSeq`, which knows nothing about PAV, blocks or pooling). -/
theorem fit_eq_max_min (t : List Pair) (hw : ∀ p ∈ t, 0 < p.2.2) :
    (fitPairs wmean t).map (·.2) = (List.range t.length).map (Spec.Isotonic.maxminSeq (itemsOf t)) :=
  fitPairs_eq_maxmin t hw

/-- pointwise form of `fit_eq_max_min` -/
theorem fit_eq_max_min_at (t : List Pair) (hw : ∀ p ∈ t, 0 < p.2.2) (i : Nat) (hi : i < t.length) :
    ((fitPairs wmean t).map (·.2))[i]? = some (Spec.Isotonic.maxminSeq (itemsOf t) i) := by
  rw [fit_eq_max_min t hw]
  simp [hi]

/-- what the code returns (`y_out` of `isotonic_fit(functional="mean")`, before the reduction to distinct
    forecasts) is the max-min formula over the tidied pairs -/
theorem isotonicFit_yOut_max_min (f o w : List Fl) (r : Result) (hw : ∀ p ∈ validPairs f o w, 0 < p.2.2)
    (h : isotonicFit wmean f o w = some r) :
    r.yOut = (List.range (validPairs f o w).length).map
      (Spec.Isotonic.maxminSeq (itemsOf (tidy (validPairs f o w)))) := by
  unfold isotonicFit at h
  simp only at h
  split at h
  · exact absurd h (by simp)
  · simp only [Option.some.injEq] at h
    subst h
    simp only
    rw [fit_eq_max_min _ (fun p hp => hw p ((tidy_perm _).mem_iff.mp hp)), (tidy_perm _).length_eq]

/-- non-vacuity (positive weights, a tie with different weights, a pooled pair), and the formula evaluated -/
example : (∀ p ∈ [((1:Rat), (3:Rat), (1:Rat)), (2, 1, 3), (2, 1, 1), (3, 2, 2)], 0 < p.2.2) ∧
    (List.range 4).map (Spec.Isotonic.maxminSeq (itemsOf [((1:Rat), (3:Rat), (1:Rat)), (2, 1, 3), (2, 1, 1), (3, 2, 2)]))
      = [7/5, 7/5, 7/5, 2] := by
  refine ⟨?_, by decide +kernel⟩
  intro p hp; simp at hp; rcases hp with rfl | rfl | rfl | rfl <;> norm_num

/-- GROUP MAX-MIN — the formula of `Spec.Isotonic.isoFit`, the exact oracle of the harness: the fitted value of every
    tidied pair whose forecast is the i-th distinct forecast value equals
    `max_{a ≤ i} min_{b ≥ i} (Σ_{a ≤ h ≤ b} S_h) / (Σ_{a ≤ h ≤ b} W_h)` over the forecast GROUPS
    (S_h, W_h = Σ w·y, Σ w of the input pairs with the h-th distinct forecast, taken from the UNSORTED input).
    Proof: collapse each forecast group to one weighted observation; the collapsed least-squares problem has the same
    minimiser (between/within decomposition + uniqueness) and its PAV fit is the sequence max-min formula. -/
theorem fit_eq_group_max_min (ps : List Pair) (hw : ∀ p ∈ ps, 0 < p.2.2) (pv : Pair × Rat)
    (hpv : pv ∈ fitPairs wmean (tidy ps)) (i : Nat) (hi : (Spec.Isotonic.distinct ps)[i]? = some pv.1.1) :
    pv.2 = Spec.Isotonic.maxmin ((Spec.Isotonic.distinct ps).map (Spec.Isotonic.groupSum ps)) i :=
  fit_eq_group_maxmin ps hw pv hpv i hi

/-- every fitted pair is covered: its forecast IS one of the distinct forecasts -/
theorem fit_forecast_is_distinct (ps : List Pair) (pv : Pair × Rat) (hpv : pv ∈ fitPairs wmean (tidy ps)) :
    ∃ i : Nat, (Spec.Isotonic.distinct ps)[i]? = some pv.1.1 := by
  apply List.mem_iff_getElem?.mp
  exact (distinct_mem ps pv.1.1).mpr ⟨pv.1, (tidy_perm ps).mem_iff.mp (fitPairs_mem_fst _ _ hpv), rfl⟩

/-- non-vacuity: unsorted input with a tie group of different weights -/
example : (∀ p ∈ [((2:Rat), (1:Rat), (3:Rat)), (1, 3, 1), (3, 2, 2), (2, 1, 1)], 0 < p.2.2) ∧
    (Spec.Isotonic.distinct [((2:Rat), (1:Rat), (3:Rat)), (1, 3, 1), (3, 2, 2), (2, 1, 1)])[1]? = some 2 ∧
    Spec.Isotonic.maxmin ((Spec.Isotonic.distinct [((2:Rat), (1:Rat), (3:Rat)), (1, 3, 1), (3, 2, 2), (2, 1, 1)]).map
      (Spec.Isotonic.groupSum [((2:Rat), (1:Rat), (3:Rat)), (1, 3, 1), (3, 2, 2), (2, 1, 1)])) 1 = 7 / 5 := by
  refine ⟨?_, by decide +kernel, by decide +kernel⟩
  intro p hp; simp at hp; rcases hp with rfl | rfl | rfl | rfl <;> norm_num

/-- non-vacuity of `hpv` / `hi`: a fitted pair with forecast 2 exists and 2 is the distinct forecast number 1 -/
example : ∃ pv ∈ fitPairs wmean (tidy [((2:Rat), (1:Rat), (3:Rat)), (1, 3, 1), (3, 2, 2), (2, 1, 1)]),
    (Spec.Isotonic.distinct [((2:Rat), (1:Rat), (3:Rat)), (1, 3, 1), (3, 2, 2), (2, 1, 1)])[1]? = some pv.1.1 := by
  have hp : ((2:Rat), (1:Rat), (3:Rat)) ∈ tidy [((2:Rat), (1:Rat), (3:Rat)), (1, 3, 1), (3, 2, 2), (2, 1, 1)] :=
    (tidy_perm _).mem_iff.mpr (by simp)
  rw [← fitPairs_fst wmean (tidy _)] at hp
  obtain ⟨pv, hpv, e⟩ := List.mem_map.mp hp
  exact ⟨pv, hpv, by rw [e]; decide +kernel⟩

/-- MODEL = SPEC: what `isotonic_fit(functional="mean")` returns — the distinct forecasts, the counts and the fitted
    value at each distinct forecast — is exactly the table `Spec.Isotonic.isoFit` computes from the UNSORTED valid
    pairs (ascending distinct forecasts, number of pairs per forecast, max-min over the forecast groups).  The Spec
    knows nothing about the sort, the tie trick, PAV or `np.unique`/`interp1d`. -/
theorem isotonicFit_eq_isoFit (f o w : List Fl) (r : Result) (hw : ∀ p ∈ validPairs f o w, 0 < p.2.2)
    (h : isotonicFit wmean f o w = some r) :
    List.zip r.fcstSorted (List.zip r.counts r.values) = Spec.Isotonic.isoFit (validPairs f o w) := by
  unfold isotonicFit at h
  simp only at h
  split at h
  · exact absurd h (by simp)
  · simp only [Option.some.injEq] at h
    subst h
    simp only
    rw [zip3_proj, groups_fit_eq_isoFit _ hw]

/-- the `ValueError` branch ("no pairs left") is taken exactly when there is no valid pair — for any solver -/
theorem isotonicFit_none_iff (solve : Solver) (f o w : List Fl) :
    isotonicFit solve f o w = none ↔ validPairs f o w = [] := by
  have hlen := (tidy_perm (validPairs f o w)).length_eq
  unfold isotonicFit
  simp only
  constructor
  · intro h
    split at h
    · rename_i he
      rw [List.isEmpty_iff_length_eq_zero] at he
      exact List.length_eq_zero_iff.mp (by omega)
    · exact absurd h (by simp)
  · intro h
    have : (tidy (validPairs f o w)).isEmpty = true := by
      rw [List.isEmpty_iff_length_eq_zero, hlen, h]; rfl
    simp [this]

/-- non-vacuity: positive weights on the valid pairs (one NaN pair dropped) and the fit exists -/
example : (∀ p ∈ validPairs [Fl.fin 2, Fl.fin 1, Fl.nan, Fl.fin 2] [Fl.fin 1, Fl.fin 3, Fl.fin 0, Fl.fin 1]
      [Fl.fin 3, Fl.fin 1, Fl.fin 1, Fl.fin 1], 0 < p.2.2) ∧
    ∃ r, isotonicFit wmean [Fl.fin 2, Fl.fin 1, Fl.nan, Fl.fin 2] [Fl.fin 1, Fl.fin 3, Fl.fin 0, Fl.fin 1]
      [Fl.fin 3, Fl.fin 1, Fl.fin 1, Fl.fin 1] = some r := by
  constructor
  · intro p hp
    simp [validPairs, finOf] at hp
    rcases hp with rfl | rfl | rfl <;> norm_num
  · apply Option.ne_none_iff_exists'.mp
    intro h
    have := (isotonicFit_none_iff _ _ _ _).mp h
    simp [validPairs, finOf] at this

/-! ## 8. invariance under permutation of the input triples (mean functional) -/

/-- PERMUTATION INVARIANCE: if `qs` is any permutation of the valid (forecast, observation, weight) triples `ps`,
    the tidied (forecast, observation, fitted value) sequences coincide — although `tidy ps` and `tidy qs`
    themselves may differ (equal (forecast, observation) pairs with different weights keep their input order).
    Proof: both fits are minimisers, the minimiser is unique. -/
theorem fit_perm_invariant (ps qs : List Pair) (hperm : ps.Perm qs) (hw : ∀ p ∈ ps, 0 < p.2.2) :
    (fitPairs wmean (tidy ps)).map (fun pv => (pv.1.1, pv.1.2.1, pv.2))
      = (fitPairs wmean (tidy qs)).map (fun pv => (pv.1.1, pv.1.2.1, pv.2)) :=
  fit_perm ps qs hperm hw

/-- the whole result of `isotonic_fit` (distinct forecasts, counts, fitted values — and the tidied observations and
    `y_out`) is the same for two inputs whose valid triples are permutations of each other -/
theorem isotonicFit_perm_invariant (f o w f' o' w' : List Fl)
    (hperm : (validPairs f o w).Perm (validPairs f' o' w')) (hw : ∀ p ∈ validPairs f o w, 0 < p.2.2) :
    isotonicFit wmean f o w = isotonicFit wmean f' o' w' := by
  have hT := fit_perm_invariant _ _ hperm hw
  have hlen : (tidy (validPairs f o w)).isEmpty = (tidy (validPairs f' o' w')).isEmpty := by
    have : (tidy (validPairs f o w)).length = (tidy (validPairs f' o' w')).length :=
      ((tidy_perm _).trans (hperm.trans (tidy_perm _).symm)).length_eq
    rw [Bool.eq_iff_iff, List.isEmpty_iff_length_eq_zero, List.isEmpty_iff_length_eq_zero, this]
  have e1 : (fitPairs wmean (tidy (validPairs f o w))).map (fun pv => (pv.1.1, pv.2))
      = (fitPairs wmean (tidy (validPairs f' o' w'))).map (fun pv => (pv.1.1, pv.2)) := by
    have := congrArg (List.map fun x : Rat × Rat × Rat => (x.1, x.2.2)) hT
    simpa [List.map_map, Function.comp_def] using this
  have e2 : (fitPairs wmean (tidy (validPairs f o w))).map (·.2)
      = (fitPairs wmean (tidy (validPairs f' o' w'))).map (·.2) := by
    have := congrArg (List.map fun x : Rat × Rat × Rat => x.2.2) hT
    simpa [List.map_map, Function.comp_def] using this
  have e3 : (tidy (validPairs f o w)).map (·.2.1) = (tidy (validPairs f' o' w')).map (·.2.1) := by
    have := congrArg (List.map fun x : Rat × Rat × Rat => x.2.1) hT
    simp only [List.map_map, Function.comp_def] at this
    have h1 := congrArg (List.map fun p : Pair => p.2.1) (fitPairs_fst wmean (tidy (validPairs f o w)))
    have h2 := congrArg (List.map fun p : Pair => p.2.1) (fitPairs_fst wmean (tidy (validPairs f' o' w')))
    simp only [List.map_map, Function.comp_def] at h1 h2
    rw [← h1, ← h2]; exact this
  unfold isotonicFit
  simp only [hlen, e1, e2, e3]

/-- …in particular for any reordering of the input arrays as (forecast, observation, weight) triples -/
theorem isotonicFit_input_order_invariant (f o w f' o' w' : List Fl)
    (hperm : (List.zip f (List.zip o w)).Perm (List.zip f' (List.zip o' w')))
    (hw : ∀ p ∈ validPairs f o w, 0 < p.2.2) :
    isotonicFit wmean f o w = isotonicFit wmean f' o' w' :=
  isotonicFit_perm_invariant f o w f' o' w' (hperm.filterMap _) hw

/-- non-vacuity: a reordering (with a NaN pair and two equal (forecast, observation) pairs of different weight) -/
example : (List.zip [Fl.fin 2, Fl.fin 1, Fl.nan, Fl.fin 2] (List.zip [Fl.fin 1, Fl.fin 3, Fl.fin 0, Fl.fin 1]
      [Fl.fin 3, Fl.fin 1, Fl.fin 1, Fl.fin 1])).Perm
    (List.zip [Fl.fin 2, Fl.nan, Fl.fin 2, Fl.fin 1] (List.zip [Fl.fin 1, Fl.fin 0, Fl.fin 1, Fl.fin 3]
      [Fl.fin 1, Fl.fin 1, Fl.fin 3, Fl.fin 1])) ∧
    ∀ p ∈ validPairs [Fl.fin 2, Fl.fin 1, Fl.nan, Fl.fin 2] [Fl.fin 1, Fl.fin 3, Fl.fin 0, Fl.fin 1]
      [Fl.fin 3, Fl.fin 1, Fl.fin 1, Fl.fin 1], 0 < p.2.2 := by
  refine ⟨by decide +kernel, ?_⟩
  intro p hp
  simp [validPairs, finOf] at hp
  rcases hp with rfl | rfl | rfl <;> norm_num

/-! ## 9. the quantile functional: every block value lies between two observations of its block -/

/-- `functional="quantile"` with level 0 ≤ q ≤ 1: the value of every block of the fit lies between two
    observations of that block (so between the block's minimum and maximum observation) -/
theorem quantile_block_value_between (q : Rat) (h0 : 0 ≤ q) (h1 : q ≤ 1) (t : List Pair) :
    ∀ b ∈ pav obsOf (fun l => quantileSolver q (itemsOf l)) t,
      ∃ x ∈ b.items, ∃ y ∈ b.items, x.2.1 ≤ b.val ∧ b.val ≤ y.2.1 := by
  intro b hb
  obtain ⟨hne, h | ⟨x, rfl⟩⟩ := pav_ok obsOf (fun l => quantileSolver q (itemsOf l)) t b hb
  · have hne' : itemsOf b.items ≠ [] := by simpa [itemsOf] using hne
    obtain ⟨x, hx, y, hy, hxy⟩ := quantileSolver_between q h0 h1 (itemsOf b.items) hne'
    obtain ⟨px, hpx, rfl⟩ := List.mem_map.mp hx
    obtain ⟨py, hpy, rfl⟩ := List.mem_map.mp hy
    exact ⟨px, hpx, py, hpy, by rw [h]; exact hxy⟩
  · exact ⟨x, by simp [raw], x, by simp [raw], by simp [raw, obsOf], by simp [raw, obsOf]⟩

/-- hence the quantile fit stays inside any interval that contains the observations -/
theorem quantile_fit_bounds (q : Rat) (h0 : 0 ≤ q) (h1 : q ≤ 1) (t : List Pair) (lo hi : Rat)
    (hb : ∀ p ∈ t, lo ≤ p.2.1 ∧ p.2.1 ≤ hi) :
    ∀ pv ∈ fitPairs (quantileSolver q) t, lo ≤ pv.2 ∧ pv.2 ≤ hi := by
  intro pv hpv
  unfold fitPairs fit expand at hpv
  obtain ⟨b, hbm, hx⟩ := List.mem_flatMap.mp hpv
  obtain ⟨x0, _, rfl⟩ := List.mem_map.mp hx
  have hsub : ∀ y ∈ b.items, y ∈ t := by
    intro y hy
    rw [← pav_flat obsOf (fun l => quantileSolver q (itemsOf l)) t]
    exact List.mem_flatMap.mpr ⟨b, hbm, hy⟩
  obtain ⟨x, hx, y, hy, h1', h2'⟩ := quantile_block_value_between q h0 h1 t b hbm
  exact ⟨le_trans (hb x (hsub x hx)).1 h1', le_trans h2' (hb y (hsub y hy)).2⟩

/-- non-vacuity: the median, observations in [0, 2] -/
example : (0 : Rat) ≤ 1 / 2 ∧ (1 / 2 : Rat) ≤ 1 ∧
    (∀ p ∈ [((1:Rat), (2:Rat), (1:Rat)), (1, 0, 3)], (0:Rat) ≤ p.2.1 ∧ p.2.1 ≤ 2) := by
  refine ⟨by norm_num, by norm_num, ?_⟩
  intro p hp; simp at hp; rcases hp with rfl | rfl <;> norm_num

end SV.Props.C15
