/-
  C11Bridge — the θ-integrals of C11 are TRUE (Lebesgue) integrals.

  Props/C11.lean proves (i) the value murphy_score computes per (case, θ) is the elementary score `Spec.Murphy.elemQ/E/H`
  and (ii) the midpoint rule over any kink-complete grid — in particular over the thetas RETURNED by murphy_thetas —
  gives the pinball / half asymmetric squared / asymmetric Huber loss.  Lemmas/Bridge.lean proves that this midpoint rule
  is Mathlib's `∫ θ in a..b, F θ` (intervalIntegral over ℝ).  Combined here: the real integral over θ of the elementary
  score computed by the code equals the scoring function, with no trusted "midpoint rule is exact" step.

  Reading guide: `elemQuantileR α f o`, `elemExpectileR α f o`, `elemHuberR α a f o : ℝ → ℝ` are the elementary scores read
  over ℝ (same formulas; they equal the code's value at every rational θ — `cell_total_is_*`);
  `EqReal v r` = "the model value v is `fin s` for a rational s with (s : ℝ) = r".
-/
import ScoresVerif.Props.C11
import ScoresVerif.Lemmas.Bridge

set_option linter.unusedVariables false

namespace SV.Props.C11Bridge
open MeasureTheory
open SV SV.Bridge SV.Props.C11
open SV.Model.Murphy (cell quantileThetas huberThetas expectileThetas)
open SV.Spec.Murphy
open SV.Lemmas.Murphy
open SV.Fl (fin)

/-! ## 1. The integrand: at every rational θ the code's total elementary score is the real function being integrated -/

theorem cell_total_is_elemQuantileR (α f o θ : ℚ) (a : Fl) :
    EqReal (cell .quantile (fin α) a (fin f) (fin o) (fin θ)).total (elemQuantileR α f o θ) :=
  .of_fin (by rw [quantile_cell_eq_spec]) (murphy_elemQ_cast α f o θ).symm

theorem cell_total_is_elemExpectileR (α f o θ : ℚ) (a : Fl) :
    EqReal (cell .expectile (fin α) a (fin f) (fin o) (fin θ)).total (elemExpectileR α f o θ) :=
  .of_fin (by rw [expectile_cell_eq_spec]) (murphy_elemE_cast α f o θ).symm

theorem cell_total_is_elemHuberR (α a f o θ : ℚ) :
    EqReal (cell .huber (fin α) (fin a) (fin f) (fin o) (fin θ)).total (elemHuberR α a f o θ) :=
  .of_fin (by rw [huber_cell_eq_spec]) (murphy_elemH_cast α a f o θ).symm

/-! ## 2. ∫ S_θ dθ over any kink-complete grid range that covers forecast and observation is the scoring function -/

/-- quantile: ∫_p^last S^Q_{α,θ}(f,o) dθ = pinball loss (Ehm et al. 2016, Thm 1a), as a Lebesgue integral -/
theorem integral_quantile_lebesgue (α f o : ℚ) (g : List ℚ) (p : ℚ) (hk : KinkComplete (kinksQ f o) (p :: g))
    (hlo : p ≤ f ∧ p ≤ o) (hhi : f ≤ lastOr p g ∧ o ≤ lastOr p g) :
    IntervalIntegrable (elemQuantileR α f o) volume p (lastOr p g) ∧
      ∫ θ in (p : ℝ)..(lastOr p g : ℝ), elemQuantileR α f o θ = ((pinball α f o : ℚ) : ℝ) := by
  obtain ⟨hi, he⟩ := murphy_midpoint_quantile_eq_lebesgue α f o g p hk
  exact ⟨hi, by rw [← he, integral_quantile α f o g p hk hlo hhi]⟩

/-- expectile: ∫ S^E_{α,θ}(f,o) dθ = half the asymmetric squared loss (Ehm et al. 2016, Thm 1b) -/
theorem integral_expectile_lebesgue (α f o : ℚ) (g : List ℚ) (p : ℚ) (hk : KinkComplete (kinksE f o) (p :: g))
    (hlo : p ≤ f ∧ p ≤ o) (hhi : f ≤ lastOr p g ∧ o ≤ lastOr p g) :
    IntervalIntegrable (elemExpectileR α f o) volume p (lastOr p g) ∧
      ∫ θ in (p : ℝ)..(lastOr p g : ℝ), elemExpectileR α f o θ = ((halfAsymSq α f o : ℚ) : ℝ) := by
  obtain ⟨hi, he⟩ := murphy_midpoint_expectile_eq_lebesgue α f o g p hk
  exact ⟨hi, by rw [← he, integral_expectile α f o g p hk hlo hhi]⟩

/-- Huber: ∫ S^H_{α,a,θ}(f,o) dθ = asymmetric Huber loss (Taggart 2022, Thm 5.3) -/
theorem integral_huber_lebesgue (α a f o : ℚ) (ha : 0 ≤ a) (g : List ℚ) (p : ℚ)
    (hk : KinkComplete (kinksH a f o) (p :: g)) (hlo : p ≤ f ∧ p ≤ o) (hhi : f ≤ lastOr p g ∧ o ≤ lastOr p g) :
    IntervalIntegrable (elemHuberR α a f o) volume p (lastOr p g) ∧
      ∫ θ in (p : ℝ)..(lastOr p g : ℝ), elemHuberR α a f o θ = ((asymHuber α a f o : ℚ) : ℝ) := by
  obtain ⟨hi, he⟩ := murphy_midpoint_huber_eq_lebesgue α a f o g p hk
  exact ⟨hi, by rw [← he, integral_huber α a f o ha g p hk hlo hhi]⟩

/-- the hypotheses are satisfiable on a non-trivial grid: f = 3, o = 1, a = 1, grid 0,1,2,3,4 -/
example : KinkComplete (kinksH 1 3 1) [0, 1, 2, 3, 4] ∧ ((0 : ℚ) ≤ 3 ∧ (0 : ℚ) ≤ 1) ∧
    ((3 : ℚ) ≤ lastOr 0 [1, 2, 3, 4] ∧ (1 : ℚ) ≤ lastOr 0 [1, 2, 3, 4]) := by
  refine ⟨?_, by norm_num, by norm_num [lastOr]⟩
  simp only [KinkComplete, noKinkIoo, kinksH, List.mem_cons, List.mem_nil_iff, or_false, and_true]
  refine ⟨⟨by norm_num, ?_⟩, ⟨by norm_num, ?_⟩, ⟨by norm_num, ?_⟩, ⟨by norm_num, ?_⟩⟩ <;>
    (intro k hk; rcases hk with rfl | rfl | rfl | rfl <;> norm_num)

/-- grid-free form for the quantile and expectile scores: over the hull [min(f,o), max(f,o)] (outside of which S_θ = 0) -/
theorem integral_hull_lebesgue (α f o : ℚ) :
    ∫ θ in (min (f : ℝ) o)..(max (f : ℝ) o), elemQuantileR α f o θ = ((pinball α f o : ℚ) : ℝ) ∧
    ∫ θ in (min (f : ℝ) o)..(max (f : ℝ) o), elemExpectileR α f o θ = ((halfAsymSq α f o : ℚ) : ℝ) := by
  have hk : ∀ ks : List ℚ, (∀ k ∈ ks, k = f ∨ k = o) → KinkComplete ks [min f o, max f o] := by
    intro ks hks
    refine ⟨⟨min_le_max, fun k hk h => ?_⟩, trivial⟩
    rcases hks k hk with rfl | rfl
    · rcases le_total k o with h' | h'
      · rw [min_eq_left h'] at h; exact lt_irrefl _ h.1
      · rw [max_eq_left h'] at h; exact lt_irrefl _ h.2
    · rcases le_total f k with h' | h'
      · rw [max_eq_right h'] at h; exact lt_irrefl _ h.2
      · rw [min_eq_right h'] at h; exact lt_irrefl _ h.1
  have hQ := (integral_quantile_lebesgue α f o [max f o] (min f o) (hk _ (by simp [kinksQ]))
    ⟨min_le_left _ _, min_le_right _ _⟩ ⟨le_max_left _ _, le_max_right _ _⟩).2
  have hE := (integral_expectile_lebesgue α f o [max f o] (min f o) (hk _ (by simp [kinksE]))
    ⟨min_le_left _ _, min_le_right _ _⟩ ⟨le_max_left _ _, le_max_right _ _⟩).2
  simp only [lastOr, Rat.cast_min, Rat.cast_max] at hQ hE
  exact ⟨hQ, hE⟩

/-! ## 3. Capstone: integrating over the thetas RETURNED by murphy_thetas is the exact Lebesgue integral, and gives the loss
    of every case (any number of forecast sources, NaNs anywhere) -/
section capstone

theorem integral_over_thetas_quantile_lebesgue (α : ℚ) (F : List (List Fl)) (O : List Fl) (s : List Fl) (hs : s ∈ F)
    (f o : ℚ) (hf : Fl.fin f ∈ s) (ho : Fl.fin o ∈ O) (p : ℚ) (g : List ℚ) (hg : toRats (quantileThetas F O) = p :: g) :
    ∫ θ in (p : ℝ)..(lastOr p g : ℝ), elemQuantileR α f o θ = ((pinball α f o : ℚ) : ℝ) := by
  have hsorted : (p :: g).Pairwise (· < ·) := hg ▸ toRats_pairwise _ (quantile_thetas_sorted F O)
  have hmem : ∀ k ∈ kinksQ f o, k ∈ p :: g := fun k hk =>
    hg ▸ (mem_toRats k _).mpr (kinks_subset_thetas_quantile F O s hs f o hf ho k hk)
  rw [← (murphy_midpoint_quantile_eq_lebesgue α f o g p
    (kinkComplete_of_sorted _ _ hsorted (fun k hk => Or.inl (hmem k hk)))).2,
    integral_over_thetas_quantile α F O s hs f o hf ho p g hg]

theorem integral_over_thetas_expectile_lebesgue (α d : ℚ) (F : List (List Fl)) (O : List Fl) (s : List Fl) (hs : s ∈ F)
    (f o : ℚ) (hf : Fl.fin f ∈ s) (ho : Fl.fin o ∈ O) (p : ℚ) (g : List ℚ)
    (hg : toRats (expectileThetas F O (Fl.fin d)) = p :: g) :
    ∫ θ in (p : ℝ)..(lastOr p g : ℝ), elemExpectileR α f o θ = ((halfAsymSq α f o : ℚ) : ℝ) := by
  have hsorted : (p :: g).Pairwise (· < ·) := hg ▸ toRats_pairwise _ (expectile_thetas_sorted F O _)
  have hmem : ∀ k ∈ kinksE f o, k ∈ p :: g := fun k hk =>
    hg ▸ (mem_toRats k _).mpr ((kinks_subset_thetas_expectile F O d s hs f o hf ho).1 k hk)
  rw [← (murphy_midpoint_expectile_eq_lebesgue α f o g p
    (kinkComplete_of_sorted _ _ hsorted (fun k hk => Or.inl (hmem k hk)))).2,
    integral_over_thetas_expectile α d F O s hs f o hf ho p g hg]

theorem integral_over_thetas_huber_lebesgue (α a d : ℚ) (ha : 0 ≤ a) (F : List (List Fl)) (O : List Fl) (s : List Fl)
    (hs : s ∈ F) (f o : ℚ) (hf : Fl.fin f ∈ s) (ho : Fl.fin o ∈ O) (p : ℚ) (g : List ℚ)
    (hg : toRats (huberThetas F O (Fl.fin a) (Fl.fin d)) = p :: g) :
    ∫ θ in (p : ℝ)..(lastOr p g : ℝ), elemHuberR α a f o θ = ((asymHuber α a f o : ℚ) : ℝ) := by
  have hsorted : (p :: g).Pairwise (· < ·) := hg ▸ toRats_pairwise _ (huber_thetas_sorted F O _ _)
  have hmem : ∀ k ∈ kinksH a f o, k ∈ p :: g := fun k hk =>
    hg ▸ (mem_toRats k _).mpr ((kinks_subset_thetas_huber F O a d s hs f o hf ho).1 k hk)
  rw [← (murphy_midpoint_huber_eq_lebesgue α a f o g p
    (kinkComplete_of_sorted _ _ hsorted (fun k hk => Or.inl (hmem k hk)))).2,
    integral_over_thetas_huber α a d ha F O s hs f o hf ho p g hg]

example : toRats (quantileThetas [[Fl.fin 3, Fl.nan], [Fl.fin 2]] [Fl.fin 1, Fl.fin 3]) = [1, 2, 3] := by decide +kernel

end capstone

end SV.Props.C11Bridge
