/-
  C09 — each contingency-table metric equals its formula; aliases and symmetries hold.

  The theorems are about `SV.Gen.Contingency.*`, i.e. about the definitions REGENERATED from
  /repo/src/scores/categorical/contingency_impl.py on every run.  A change of the source that
  alters a formula makes the matching theorem fail to check.
-/
import ScoresVerif.Gen.Contingency
import ScoresVerif.Spec.Contingency
import ScoresVerif.Lemmas.FlBasic

namespace SV.Props.C09
open SV SV.Fl
namespace G
export SV.Gen.Contingency (accuracy base_rate forecast_rate fraction_correct frequency_bias bias_score
  probability_of_detection hit_rate true_positive_rate false_alarm_ratio false_alarm_rate
  probability_of_false_detection success_ratio threat_score critical_success_index peirce_skill_score
  true_skill_statistic hanssen_and_kuipers_discriminant sensitivity specificity true_negative_rate recall
  precision positive_predictive_value negative_predictive_value f1_score equitable_threat_score
  gilberts_skill_score heidke_skill_score cohens_kappa odds_ratio odds_ratio_skill_score yules_q
  symmetric_extremal_dependence_index)
end G
namespace S
export SV.Spec.Contingency (accuracy baseRate forecastRate frequencyBias pod falseAlarmRatio pofd successRatio
  threatScore peirce specificity npv f1 ets hss oddsRatio orss sedi hitsRandom expCorrect)
end S

variable (logF : Fl → Fl) (tp tn fp fn total : Fl)

/-! ## 1. Every metric is the documented expression, evaluated in IEEE-like arithmetic, for EVERY
    value of the counts (finite, zero, NaN, infinite): it is a total function, never an exception. -/

theorem accuracy_eq_doc : G.accuracy logF tp tn fp fn total = S.accuracy tp tn total := rfl
theorem base_rate_eq_doc : G.base_rate logF tp tn fp fn total = S.baseRate tp fn total := rfl
theorem forecast_rate_eq_doc : G.forecast_rate logF tp tn fp fn total = S.forecastRate tp fp total := rfl
theorem frequency_bias_eq_doc : G.frequency_bias logF tp tn fp fn total = S.frequencyBias tp fp fn := rfl
theorem pod_eq_doc : G.probability_of_detection logF tp tn fp fn total = S.pod tp fn := rfl
theorem false_alarm_ratio_eq_doc : G.false_alarm_ratio logF tp tn fp fn total = S.falseAlarmRatio tp fp := rfl
theorem false_alarm_rate_eq_doc : G.false_alarm_rate logF tp tn fp fn total = S.pofd tn fp := rfl
theorem success_ratio_eq_doc : G.success_ratio logF tp tn fp fn total = S.successRatio tp fp := rfl
theorem threat_score_eq_doc : G.threat_score logF tp tn fp fn total = S.threatScore tp fp fn := rfl
theorem peirce_eq_doc : G.peirce_skill_score logF tp tn fp fn total = S.peirce tp tn fp fn := rfl
theorem specificity_eq_doc : G.specificity logF tp tn fp fn total = S.specificity tn fp := rfl
theorem npv_eq_doc : G.negative_predictive_value logF tp tn fp fn total = S.npv tn fn := rfl
theorem f1_eq_doc : G.f1_score logF tp tn fp fn total = S.f1 tp fp fn := rfl
theorem ets_eq_doc : G.equitable_threat_score logF tp tn fp fn total = S.ets tp fp fn total := rfl
theorem hss_eq_doc : G.heidke_skill_score logF tp tn fp fn total = S.hss tp tn fp fn total := rfl
theorem odds_ratio_eq_doc : G.odds_ratio logF tp tn fp fn total = S.oddsRatio tp tn fp fn := rfl
theorem orss_eq_doc : G.odds_ratio_skill_score logF tp tn fp fn total = S.orss tp tn fp fn := rfl
theorem sedi_eq_doc : G.symmetric_extremal_dependence_index logF tp tn fp fn total = S.sedi tp tn fp fn logF := rfl

/-! ## 2. The 17 aliases return the value of their base metric. -/

theorem alias_fraction_correct : G.fraction_correct logF tp tn fp fn total = G.accuracy logF tp tn fp fn total := rfl
theorem alias_bias_score : G.bias_score logF tp tn fp fn total = G.frequency_bias logF tp tn fp fn total := rfl
theorem alias_hit_rate : G.hit_rate logF tp tn fp fn total = G.probability_of_detection logF tp tn fp fn total := rfl
theorem alias_true_positive_rate : G.true_positive_rate logF tp tn fp fn total = G.probability_of_detection logF tp tn fp fn total := rfl
theorem alias_sensitivity : G.sensitivity logF tp tn fp fn total = G.probability_of_detection logF tp tn fp fn total := rfl
theorem alias_recall : G.recall logF tp tn fp fn total = G.probability_of_detection logF tp tn fp fn total := rfl
theorem alias_pofd : G.probability_of_false_detection logF tp tn fp fn total = G.false_alarm_rate logF tp tn fp fn total := rfl
theorem alias_csi : G.critical_success_index logF tp tn fp fn total = G.threat_score logF tp tn fp fn total := rfl
theorem alias_tss : G.true_skill_statistic logF tp tn fp fn total = G.peirce_skill_score logF tp tn fp fn total := rfl
theorem alias_hk : G.hanssen_and_kuipers_discriminant logF tp tn fp fn total = G.peirce_skill_score logF tp tn fp fn total := rfl
theorem alias_tnr : G.true_negative_rate logF tp tn fp fn total = G.specificity logF tp tn fp fn total := rfl
theorem alias_precision : G.precision logF tp tn fp fn total = G.success_ratio logF tp tn fp fn total := rfl
theorem alias_ppv : G.positive_predictive_value logF tp tn fp fn total = G.success_ratio logF tp tn fp fn total := rfl
theorem alias_gilbert : G.gilberts_skill_score logF tp tn fp fn total = G.equitable_threat_score logF tp tn fp fn total := rfl
theorem alias_kappa : G.cohens_kappa logF tp tn fp fn total = G.heidke_skill_score logF tp tn fp fn total := rfl
theorem alias_yules_q : G.yules_q logF tp tn fp fn total = G.odds_ratio_skill_score logF tp tn fp fn total := rfl

/-! ## 3. Swapping forecast and observation (fp ↔ fn), for EVERY value of the counts. -/

theorem swap_pod_success_ratio :
    G.probability_of_detection logF tp tn fn fp total = G.success_ratio logF tp tn fp fn total := rfl

theorem swap_accuracy : G.accuracy logF tp tn fn fp total = G.accuracy logF tp tn fp fn total := rfl

theorem swap_threat_score : G.threat_score logF tp tn fn fp total = G.threat_score logF tp tn fp fn total := by
  show div tp (add (add tp fn) fp) = div tp (add (add tp fp) fn)
  rw [add_assoc, add_comm fn fp, ← add_assoc]

theorem swap_f1 : G.f1_score logF tp tn fn fp total = G.f1_score logF tp tn fp fn total := by
  show div (mul (fin 2) tp) (add (add (mul (fin 2) tp) fn) fp) = div (mul (fin 2) tp) (add (add (mul (fin 2) tp) fp) fn)
  rw [add_assoc, add_comm fn fp, ← add_assoc]

theorem swap_orss : G.odds_ratio_skill_score logF tp tn fn fp total = G.odds_ratio_skill_score logF tp tn fp fn total := by
  show div (sub (mul tp tn) (mul fp fn)) (add (mul tp tn) (mul fp fn)) =
       div (sub (mul tp tn) (mul fn fp)) (add (mul tp tn) (mul fn fp))
  rw [mul_comm fp fn]

theorem swap_ets : G.equitable_threat_score logF tp tn fn fp total = G.equitable_threat_score logF tp tn fp fn total := by
  show div (sub tp (div (mul (add tp fp) (add tp fn)) total))
           (sub (add (add tp fp) fn) (div (mul (add tp fp) (add tp fn)) total)) =
       div (sub tp (div (mul (add tp fn) (add tp fp)) total))
           (sub (add (add tp fn) fp) (div (mul (add tp fn) (add tp fp)) total))
  rw [mul_comm (add tp fp) (add tp fn), add_assoc tp fp fn, add_comm fp fn, ← add_assoc]

theorem swap_hss : G.heidke_skill_score logF tp tn fn fp total = G.heidke_skill_score logF tp tn fp fn total := by
  show div (sub (add tp tn) (mul (div (fin 1) total) (add (mul (add tp fp) (add tp fn)) (mul (add tn fp) (add tn fn)))))
           (sub total (mul (div (fin 1) total) (add (mul (add tp fp) (add tp fn)) (mul (add tn fp) (add tn fn))))) =
       div (sub (add tp tn) (mul (div (fin 1) total) (add (mul (add tp fn) (add tp fp)) (mul (add tn fn) (add tn fp)))))
           (sub total (mul (div (fin 1) total) (add (mul (add tp fn) (add tp fp)) (mul (add tn fn) (add tn fp)))))
  rw [mul_comm (add tp fp) (add tp fn), mul_comm (add tn fp) (add tn fn)]

/-! ## 4. Closed forms on tables of rational counts (the textbook 2×2 expressions). -/

section closed
variable (a b c d : Rat)   -- a = tp, b = fp, c = fn, d = tn

theorem pod_closed (h : a + c ≠ 0) :
    G.probability_of_detection logF (fin a) (fin d) (fin b) (fin c) (fin (a+d+b+c)) = fin (a / (a + c)) := by
  show div (fin a) (add (fin a) (fin c)) = _
  simp [div_fin, h]

theorem accuracy_closed (h : a + d + b + c ≠ 0) :
    G.accuracy logF (fin a) (fin d) (fin b) (fin c) (fin (a+d+b+c)) = fin ((a + d) / (a + d + b + c)) := by
  show div (add (fin a) (fin d)) (fin (a+d+b+c)) = _
  simp [div_fin, h]

/-- Peirce / true skill statistic = (ad − bc) / ((a+c)(b+d)) -/
theorem peirce_closed (h1 : a + c ≠ 0) (h2 : b + d ≠ 0) :
    G.peirce_skill_score logF (fin a) (fin d) (fin b) (fin c) (fin (a+d+b+c))
      = fin ((a * d - b * c) / ((a + c) * (b + d))) := by
  show sub (div (fin a) (add (fin a) (fin c))) (div (fin b) (add (fin b) (fin d))) = _
  simp only [add_fin, div_fin _ _ h1, div_fin _ _ h2, sub_fin]
  congr 1; field_simp; ring

/-- odds ratio = ad / (bc) whenever no cell is zero (all quotients finite) -/
theorem odds_ratio_closed (ha : a ≠ 0) (hb : b ≠ 0) (hc : c ≠ 0) (hd : d ≠ 0)
    (h1 : a + c ≠ 0) (h2 : d + b ≠ 0) :
    G.odds_ratio logF (fin a) (fin d) (fin b) (fin c) (fin (a+d+b+c)) = fin ((a * d) / (b * c)) := by
  show div (div (div (fin a) (add (fin a) (fin c))) (sub (fin 1) (div (fin a) (add (fin a) (fin c)))))
           (div (div (fin b) (add (fin d) (fin b))) (sub (fin 1) (div (fin b) (add (fin d) (fin b))))) = _
  have e1 : 1 - a / (a + c) = c / (a + c) := by field_simp; ring
  have e2 : 1 - b / (d + b) = d / (d + b) := by field_simp; ring
  have n1 : c / (a + c) ≠ 0 := div_ne_zero hc h1
  have n2 : d / (d + b) ≠ 0 := div_ne_zero hd h2
  have n3 : b / (d + b) / (d / (d + b)) ≠ 0 := div_ne_zero (div_ne_zero hb h2) n2
  simp only [add_fin, div_fin _ _ h1, div_fin _ _ h2, sub_fin, e1, e2, div_fin _ _ n1, div_fin _ _ n2,
    div_fin _ _ n3]
  congr 1; field_simp

/-- Heidke skill score = 2(ad − bc) / ((a+c)(c+d) + (a+b)(b+d)) -/
theorem hss_closed (hn : a + d + b + c ≠ 0)
    (hden : (a + c) * (c + d) + (a + b) * (b + d) ≠ 0) :
    G.heidke_skill_score logF (fin a) (fin d) (fin b) (fin c) (fin (a+d+b+c))
      = fin (2 * (a * d - b * c) / ((a + c) * (c + d) + (a + b) * (b + d))) := by
  show div (sub (add (fin a) (fin d)) (mul (div (fin 1) (fin (a+d+b+c)))
        (add (mul (add (fin a) (fin c)) (add (fin a) (fin b))) (mul (add (fin d) (fin c)) (add (fin d) (fin b))))))
      (sub (fin (a+d+b+c)) (mul (div (fin 1) (fin (a+d+b+c)))
        (add (mul (add (fin a) (fin c)) (add (fin a) (fin b))) (mul (add (fin d) (fin c)) (add (fin d) (fin b)))))) = _
  have hden' : a + d + b + c - 1 / (a + d + b + c) * ((a + c) * (a + b) + (d + c) * (d + b)) ≠ 0 := by
    intro h
    apply hden
    field_simp at h
    nlinarith [h]
  simp only [add_fin, mul_fin, div_fin _ _ hn, sub_fin, div_fin _ _ hden']
  congr 1
  rw [div_eq_div_iff hden' hden]
  field_simp
  ring

/-- ETS = (a − a_r)/(a + b + c − a_r) with a_r = (a+c)(a+b)/n -/
theorem ets_closed (hn : a + d + b + c ≠ 0)
    (hden : a + c + b - (a + c) * (a + b) / (a + d + b + c) ≠ 0) :
    G.equitable_threat_score logF (fin a) (fin d) (fin b) (fin c) (fin (a+d+b+c))
      = fin ((a - (a + c) * (a + b) / (a + d + b + c)) / (a + c + b - (a + c) * (a + b) / (a + d + b + c))) := by
  show div (sub (fin a) (div (mul (add (fin a) (fin c)) (add (fin a) (fin b))) (fin (a+d+b+c))))
           (sub (add (add (fin a) (fin c)) (fin b)) (div (mul (add (fin a) (fin c)) (add (fin a) (fin b))) (fin (a+d+b+c)))) = _
  simp only [add_fin, mul_fin, div_fin _ _ hn, sub_fin, div_fin _ _ hden]

end closed

/-! ## 5. Zero cells: the IEEE value for the single-quotient metrics on natural-number tables. -/

section zero
variable (a b c d : Nat)

/-- value of `x / y` for non-negative rationals -/
def nnDiv (x y : Rat) : Fl := if y = 0 then (if x = 0 then nan else pinf) else fin (x / y)

theorem div_nn (x y : Rat) (hx : 0 ≤ x) : div (fin x) (fin y) = nnDiv x y := by
  unfold nnDiv div
  by_cases hy : y = 0
  · by_cases hx0 : x = 0
    · simp [hy, hx0]
    · simp [hy, hx0, not_lt.mpr hx]
  · simp [hy]

theorem pod_zero_cells :
    G.probability_of_detection logF (fin a) (fin d) (fin b) (fin c) (fin ((a+d+b+c : Nat) : Rat))
      = if a + c = 0 then nan else fin ((a : Rat) / (a + c)) := by
  show div (fin a) (add (fin a) (fin c)) = _
  rw [add_fin, div_nn _ _ (by positivity)]
  unfold nnDiv
  by_cases h : a + c = 0
  · have ha : a = 0 := by omega
    have hc : c = 0 := by omega
    subst ha; subst hc; simp
  · have : ((a : Rat) + c) ≠ 0 := by exact_mod_cast h
    rw [if_neg this, if_neg h]

theorem far_zero_cells :
    G.false_alarm_ratio logF (fin a) (fin d) (fin b) (fin c) (fin ((a+d+b+c : Nat) : Rat))
      = if a + b = 0 then nan else fin ((b : Rat) / (a + b)) := by
  show div (fin b) (add (fin a) (fin b)) = _
  rw [add_fin, div_nn _ _ (by positivity)]
  unfold nnDiv
  by_cases h : a + b = 0
  · have ha : a = 0 := by omega
    have hc : b = 0 := by omega
    subst ha; subst hc; simp
  · have : ((a : Rat) + b) ≠ 0 := by exact_mod_cast h
    rw [if_neg this, if_neg h]

theorem frequency_bias_zero_cells :
    G.frequency_bias logF (fin a) (fin d) (fin b) (fin c) (fin ((a+d+b+c : Nat) : Rat))
      = if a + c = 0 then (if a + b = 0 then nan else pinf) else fin (((a : Rat) + b) / (a + c)) := by
  show div (add (fin a) (fin b)) (add (fin a) (fin c)) = _
  rw [add_fin, add_fin, div_nn _ _ (by positivity)]
  unfold nnDiv
  by_cases h : a + c = 0
  · have ha : a = 0 := by omega
    have hc : c = 0 := by omega
    subst ha; subst hc
    by_cases hb : b = 0 <;> simp [hb]
  · have : ((a : Rat) + c) ≠ 0 := by exact_mod_cast h
    rw [if_neg this, if_neg h]

theorem accuracy_zero_cells :
    G.accuracy logF (fin a) (fin d) (fin b) (fin c) (fin ((a+d+b+c : Nat) : Rat))
      = if a + d + b + c = 0 then nan else fin (((a : Rat) + d) / ((a + d + b + c : Nat) : Rat)) := by
  show div (add (fin a) (fin d)) (fin _) = _
  rw [add_fin, div_nn _ _ (by positivity)]
  unfold nnDiv
  by_cases h : a + d + b + c = 0
  · have ha : a = 0 := by omega
    have hd : d = 0 := by omega
    have hb : b = 0 := by omega
    have hc : c = 0 := by omega
    subst ha; subst hd; subst hb; subst hc; simp
  · have : (((a + d + b + c : Nat)) : Rat) ≠ 0 := by exact_mod_cast h
    rw [if_neg this, if_neg h]

end zero

/-! Non-vacuity: Finley's tornado table (tp 28, fp 72, fn 23, tn 2680) meets the hypotheses. -/
example : (28 : Rat) + 23 ≠ 0 ∧ (72 : Rat) + 2680 ≠ 0 := by norm_num
example : G.probability_of_detection id (fin 28) (fin 2680) (fin 72) (fin 23) (fin (28+2680+72+23)) = fin (28 / 51) := by
  rw [pod_closed id 28 72 23 2680 (by norm_num)]; norm_num

end SV.Props.C09
