/-
  C03, part 4 — weights living on OTHER dims than the data (broadcast by name) in the labelled-array model
  `SV.Arr` / `SV.scoreEval` (Model/Arr.lean; every weight-accepting score is tied to `scoreEval` by the
  C01/C03 correspondence).

  * weights on any dims: the value at an output label is the NaN-skipping mean, over the reduced dims, of
    (per-case score × weight AT THE SAME LABEL) — weights multiply before averaging, aligned by name;
  * weights that carry none of the reduced dims (e.g. weights on a subset of the preserved dims, or with
    dims of their own): the single weight at the output label factors out of the mean when it is finite and
    non-zero (any sign; for ALL per-case values incl. ±inf / NaN); a NaN weight gives NaN; a unit weight gives
    the unweighted score;
  * negative: a ZERO weight does not factor out when a per-case value is infinite (inf × 0 = NaN drops the case).

  Vocabulary (Lemmas/C04Relayout.lean): `Arr.WF a` distinct dim names, one size per dim; `keptDims/keptShape R a`
  the dims/sizes of the result of reducing `R`; `goneDims/goneShape R a` the reduced ones; `InRange ds ns x` the label
  `x` has an index inside the size for every dim of `ds`.
-/
import ScoresVerif.Lemmas.C03Arr
import ScoresVerif.Props.C03

namespace SV.Props.C03Arr
open SV SV.Fl SV.Arr SV.C03Arr

/-- **Weights on any dims, aligned by name.**  At every output label the weighted score is the NaN-skipping mean over
    the reduced dims of `p(label) × w(label)`: each per-case score is multiplied by the weight found at the same
    dimension labels (dims that `w` lacks are ignored when reading `w`, dims that `p` lacks when reading `p`). -/
theorem scoreEval_weighted_by_label (p w : Arr) (hp : WF p) (hw : WF w) (R : List String) (asg : Asg)
    (hr : InRange (keptDims R (Arr.mul p w)) (keptShape R (Arr.mul p w)) asg) :
    (scoreEval p (some w) R).get asg =
      nanmean ((assignments (goneDims R (Arr.mul p w)) (goneShape R (Arr.mul p w))).map fun r =>
        Fl.mul (p.get (restrict (keptDims R (Arr.mul p w)) asg ++ r))
               (w.get (restrict (keptDims R (Arr.mul p w)) asg ++ r))) := by
  rw [← fibre_mul p w hp hw R asg hr]
  exact reduceOver_get_fibre nanmean R (Arr.mul p w) asg hr

/-- weights without a reduced dim: the fibre that is averaged is the unweighted fibre times ONE weight -/
theorem scoreEval_weight_const_on_fibre (p w : Arr) (hp : WF p) (hw : WF w) (R : List String)
    (hR : ∀ d ∈ w.dims, d ∉ R) (asg : Asg)
    (hr : InRange (keptDims R (Arr.mul p w)) (keptShape R (Arr.mul p w)) asg) :
    (scoreEval p (some w) R).get asg = nanmean ((fibre R p asg).map fun s => Fl.mul s (w.get asg)) := by
  rw [← fibre_mul_const p w hp hw R hR asg hr]
  exact reduceOver_get_fibre nanmean R (Arr.mul p w) asg hr

/-- **A weight that is constant along the reduced dims factors out of the mean.**  If the weights carry none of
    the reduced dims and the weight at the output label is finite and non-zero (either sign), then
    `score(weights=w)[label] = score()[label] × w[label]` — for all per-case values including ±inf and NaN. -/
theorem scoreEval_weight_factors (p w : Arr) (hp : WF p) (hw : WF w) (R : List String)
    (hR : ∀ d ∈ w.dims, d ∉ R) (asg : Asg)
    (hr : InRange (keptDims R (Arr.mul p w)) (keptShape R (Arr.mul p w)) asg)
    (c : Rat) (hc : c ≠ 0) (hwc : w.get asg = fin c) :
    (scoreEval p (some w) R).get asg = Fl.mul ((scoreEval p none R).get asg) (fin c) := by
  rw [scoreEval_weight_const_on_fibre p w hp hw R hR asg hr, hwc, nanmean_map_mul_fin _ c hc]
  congr 1
  exact (reduceOver_get_fibre nanmean R p asg (inRange_kept_of_mul p w hp hw R asg hr)).symm

/-- a unit weight at the label (weights without a reduced dim): the unweighted score -/
theorem scoreEval_weight_one (p w : Arr) (hp : WF p) (hw : WF w) (R : List String)
    (hR : ∀ d ∈ w.dims, d ∉ R) (asg : Asg)
    (hr : InRange (keptDims R (Arr.mul p w)) (keptShape R (Arr.mul p w)) asg)
    (hwc : w.get asg = fin 1) :
    (scoreEval p (some w) R).get asg = (scoreEval p none R).get asg := by
  rw [scoreEval_weight_factors p w hp hw R hR asg hr 1 one_ne_zero hwc]
  exact C03.mul_one _

/-- a NaN weight at the label (weights without a reduced dim): the score there is NaN -/
theorem scoreEval_weight_nan (p w : Arr) (hp : WF p) (hw : WF w) (R : List String)
    (hR : ∀ d ∈ w.dims, d ∉ R) (asg : Asg)
    (hr : InRange (keptDims R (Arr.mul p w)) (keptShape R (Arr.mul p w)) asg)
    (hwc : w.get asg = nan) :
    (scoreEval p (some w) R).get asg = nan := by
  rw [scoreEval_weight_const_on_fibre p w hp hw R hR asg hr, hwc, nanmean_map_mul_nan]

/-- scaling weights of ANY dims by a constant c ≠ 0 scales the score by c (homogeneity on labelled arrays; the
    scaled weights are given as an array `w'` with the dims of `w` and `w'[x] = w[x] · c` at every label) -/
theorem scoreEval_smul_weights (p w w' : Arr) (hp : WF p) (hw : WF w) (hw' : WF w')
    (hd : w'.dims = w.dims) (hs : w'.shape = w.shape) (c : Rat) (hc : c ≠ 0)
    (hval : ∀ x, w'.get x = Fl.mul (w.get x) (fin c)) (R : List String) (asg : Asg)
    (hr : InRange (keptDims R (Arr.mul p w)) (keptShape R (Arr.mul p w)) asg) :
    (scoreEval p (some w') R).get asg = Fl.mul ((scoreEval p (some w) R).get asg) (fin c) := by
  have hdm : (Arr.mul p w').dims = (Arr.mul p w).dims := by
    show (zipWith Fl.mul p w').dims = (zipWith Fl.mul p w).dims
    rw [zipWith_dims, zipWith_dims, hd]
  have hsz : w'.sizeOf = w.sizeOf := by
    funext d; unfold Arr.sizeOf; rw [hd, hs]
  have hsm : (Arr.mul p w').shape = (Arr.mul p w).shape := by
    show (zipWith Fl.mul p w').shape = (zipWith Fl.mul p w).shape
    rw [zipWith_shape, zipWith_shape, hd, hsz]
  have hk : keptDims R (Arr.mul p w') = keptDims R (Arr.mul p w) := by unfold keptDims; rw [hdm, hsm]
  have hks : keptShape R (Arr.mul p w') = keptShape R (Arr.mul p w) := by unfold keptShape; rw [hdm, hsm]
  have hg : goneDims R (Arr.mul p w') = goneDims R (Arr.mul p w) := by unfold goneDims; rw [hdm, hsm]
  have hgs : goneShape R (Arr.mul p w') = goneShape R (Arr.mul p w) := by unfold goneShape; rw [hdm, hsm]
  have hr' : InRange (keptDims R (Arr.mul p w')) (keptShape R (Arr.mul p w')) asg := by rw [hk, hks]; exact hr
  rw [scoreEval_weighted_by_label p w' hp hw' R asg hr', scoreEval_weighted_by_label p w hp hw R asg hr,
    hk, hg, hgs, ← nanmean_map_mul_fin _ c hc, List.map_map]
  congr 1
  apply List.map_congr_left
  intro r _
  simp only [Function.comp, hval]
  exact mul_mul_fin _ _ c hc

/-- **Additivity in the weights on labelled arrays** — weights on ANY dims (in particular on the reduced ones).
    `w'` holds `w₁ + w₂` label by label, the three weight arrays share dims and sizes, per-case values and weights are
    finite or NaN, and `w₁`, `w₂` have the same NaN mask: then
    `score(weights=w₁+w₂)[label] = score(weights=w₁)[label] + score(weights=w₂)[label]`. -/
theorem scoreEval_add_weights (p w1 w2 w' : Arr) (hp : WF p) (hw1 : WF w1) (hw2 : WF w2) (hw' : WF w')
    (hd' : w'.dims = w1.dims) (hs' : w'.shape = w1.shape) (hd2 : w2.dims = w1.dims) (hs2 : w2.shape = w1.shape)
    (hval : ∀ x, w'.get x = Fl.add (w1.get x) (w2.get x))
    (hpf : ∀ x, noInf (p.get x) = true) (h1f : ∀ x, noInf (w1.get x) = true) (h2f : ∀ x, noInf (w2.get x) = true)
    (hmask : ∀ x, (w1.get x).isNan = (w2.get x).isNan)
    (R : List String) (asg : Asg)
    (hr : InRange (keptDims R (Arr.mul p w1)) (keptShape R (Arr.mul p w1)) asg) :
    (scoreEval p (some w') R).get asg =
      Fl.add ((scoreEval p (some w1) R).get asg) ((scoreEval p (some w2) R).get asg) := by
  obtain ⟨hk', hks', hg', hgs'⟩ := layout_mul_congr p w1 w' hd' hs' R
  obtain ⟨hk2, hks2, hg2, hgs2⟩ := layout_mul_congr p w1 w2 hd2 hs2 R
  have hr' : InRange (keptDims R (Arr.mul p w')) (keptShape R (Arr.mul p w')) asg := by rw [hk', hks']; exact hr
  have hr2 : InRange (keptDims R (Arr.mul p w2)) (keptShape R (Arr.mul p w2)) asg := by rw [hk2, hks2]; exact hr
  rw [scoreEval_weighted_by_label p w' hp hw' R asg hr', scoreEval_weighted_by_label p w1 hp hw1 R asg hr,
    scoreEval_weighted_by_label p w2 hp hw2 R asg hr2, hk', hg', hgs', hk2, hg2, hgs2]
  -- the cases of the fibre as (score, w₁, w₂) triples
  let X : Asg → Asg := fun r => restrict (keptDims R (Arr.mul p w1)) asg ++ r
  let l : List C03Nan.CaseN := (assignments (goneDims R (Arr.mul p w1)) (goneShape R (Arr.mul p w1))).map
    fun r => (toOpt (p.get (X r)), toOpt (w1.get (X r)), toOpt (w2.get (X r)))
  have hm : ∀ t ∈ l, t.2.1.isSome = t.2.2.isSome := by
    intro t ht
    obtain ⟨r, _, rfl⟩ := List.mem_map.mp ht
    simp only [toOpt_isSome _ (h1f _), toOpt_isSome _ (h2f _), hmask]
  have key := C03.nanmean_add_nan_weights l hm
  have e' : C03.weightedF (fun t => Fl.add (ofOpt t.2.1) (ofOpt t.2.2)) l =
      (assignments (goneDims R (Arr.mul p w1)) (goneShape R (Arr.mul p w1))).map fun r =>
        Fl.mul (p.get (X r)) (w'.get (X r)) := by
    simp only [C03.weightedF, l, List.map_map]
    apply List.map_congr_left
    intro r _
    simp only [Function.comp, ofOpt_toOpt _ (hpf _), ofOpt_toOpt _ (h1f _), ofOpt_toOpt _ (h2f _), hval]
  have e1 : C03.weightedF (fun t => ofOpt t.2.1) l =
      (assignments (goneDims R (Arr.mul p w1)) (goneShape R (Arr.mul p w1))).map fun r =>
        Fl.mul (p.get (X r)) (w1.get (X r)) := by
    simp only [C03.weightedF, l, List.map_map]
    apply List.map_congr_left
    intro r _
    simp only [Function.comp, ofOpt_toOpt _ (hpf _), ofOpt_toOpt _ (h1f _)]
  have e2 : C03.weightedF (fun t => ofOpt t.2.2) l =
      (assignments (goneDims R (Arr.mul p w1)) (goneShape R (Arr.mul p w1))).map fun r =>
        Fl.mul (p.get (X r)) (w2.get (X r)) := by
    simp only [C03.weightedF, l, List.map_map]
    apply List.map_congr_left
    intro r _
    simp only [Function.comp, ofOpt_toOpt _ (hpf _), ofOpt_toOpt _ (h2f _)]
  rw [e', e1, e2] at key
  exact key

/-- … and when the per-case values are finite or NaN (no ±inf), EVERY finite weight factors out, zero included:
    `score(weights=w)[label] = score()[label] × w[label]` for weights without a reduced dim -/
theorem scoreEval_weight_factors_finite (p w : Arr) (hp : WF p) (hw : WF w) (R : List String)
    (hR : ∀ d ∈ w.dims, d ∉ R) (hpf : ∀ x, noInf (p.get x) = true) (asg : Asg)
    (hr : InRange (keptDims R (Arr.mul p w)) (keptShape R (Arr.mul p w)) asg)
    (c : Rat) (hwc : w.get asg = fin c) :
    (scoreEval p (some w) R).get asg = Fl.mul ((scoreEval p none R).get asg) (fin c) := by
  have hfib : ∀ x ∈ fibre R p asg, noInf x = true := by
    intro x hx
    obtain ⟨r, _, rfl⟩ := List.mem_map.mp hx
    exact hpf _
  rw [scoreEval_weight_const_on_fibre p w hp hw R hR asg hr, hwc, nanmean_map_mul_fin_of_noInf _ hfib c]
  congr 1
  exact (reduceOver_get_fibre nanmean R p asg (inRange_kept_of_mul p w hp hw R asg hr)).symm

/-- **Unit weights on any of the data's dims** (reduced ones included) change nothing: `score(weights=1) = score()`
    at every label, for all per-case values -/
theorem scoreEval_unit_weights (p w : Arr) (hp : WF p) (hw : WF w) (hc : Compat p w)
    (hsub : ∀ d ∈ w.dims, d ∈ p.dims)
    (hone : ∀ x, InRange w.dims w.shape x → w.get x = fin 1) (R : List String) (asg : Asg)
    (hr : InRange (keptDims R p) (keptShape R p) asg) :
    (scoreEval p (some w) R).get asg = (scoreEval p none R).get asg := by
  have hm : WF (Arr.mul p w) := wf_zipWith Fl.mul hp hw
  have hex : w.dims.filter (fun d => !p.dims.contains d) = [] := by
    rw [List.filter_eq_nil_iff]
    intro d hd
    simpa using hsub d hd
  have hdm : (Arr.mul p w).dims = p.dims := by
    show (zipWith Fl.mul p w).dims = p.dims
    rw [zipWith_dims, hex, List.append_nil]
  have hsm : (Arr.mul p w).shape = p.shape := by
    show (zipWith Fl.mul p w).shape = p.shape
    rw [zipWith_shape, hex, List.map_nil, List.append_nil]
  have hk : keptDims R (Arr.mul p w) = keptDims R p := by unfold keptDims; rw [hdm, hsm]
  have hks : keptShape R (Arr.mul p w) = keptShape R p := by unfold keptShape; rw [hdm, hsm]
  have hg : goneDims R (Arr.mul p w) = goneDims R p := by unfold goneDims; rw [hdm, hsm]
  have hgs : goneShape R (Arr.mul p w) = goneShape R p := by unfold goneShape; rw [hdm, hsm]
  have hr' : InRange (keptDims R (Arr.mul p w)) (keptShape R (Arr.mul p w)) asg := by rw [hk, hks]; exact hr
  have hfib : (assignments (goneDims R (Arr.mul p w)) (goneShape R (Arr.mul p w))).map (fun r =>
        Fl.mul (p.get (restrict (keptDims R (Arr.mul p w)) asg ++ r))
               (w.get (restrict (keptDims R (Arr.mul p w)) asg ++ r))) = fibre R p asg := by
    unfold fibre
    rw [← hk, ← hg, ← hgs]
    apply List.map_congr_left
    intro r hrm
    have hin := inRange_restrict_append hm R asg r hr' hrm
    rw [hone _ (inRange_right_of_mul p w hp hw hc _ hin)]
    exact C03.mul_one _
  rw [scoreEval_weighted_by_label p w hp hw R asg hr', hfib]
  exact (reduceOver_get_fibre nanmean R p asg hr).symm

/-- the cases (per-case score, weight) the reduction sees at an output label, as possibly-missing rationals -/
def casesAt (p w : Arr) (R : List String) (asg : Asg) : List C03Nan.CaseN :=
  (assignments (goneDims R (Arr.mul p w)) (goneShape R (Arr.mul p w))).map fun r =>
    (toOpt (p.get (restrict (keptDims R (Arr.mul p w)) asg ++ r)),
     toOpt (w.get (restrict (keptDims R (Arr.mul p w)) asg ++ r)), none)

/-- **NaN weights on labelled arrays** (weights on any dims; values finite or NaN): at every output label the score is
    Σ p·w / n over exactly the reduced labels at which BOTH the per-case score and the weight are present; NaN if
    there is none.  (A NaN weight removes its case from numerator and denominator.) -/
theorem scoreEval_nan_weights (p w : Arr) (hp : WF p) (hw : WF w)
    (hpf : ∀ x, noInf (p.get x) = true) (hwf : ∀ x, noInf (w.get x) = true) (R : List String) (asg : Asg)
    (hr : InRange (keptDims R (Arr.mul p w)) (keptShape R (Arr.mul p w)) asg) :
    (scoreEval p (some w) R).get asg =
      if C03Nan.both (fun t => t.2.1) (casesAt p w R asg) = [] then nan
      else fin (((C03Nan.both (fun t => t.2.1) (casesAt p w R asg)).map fun q => q.1 * q.2).sum /
                (C03Nan.both (fun t => t.2.1) (casesAt p w R asg)).length) := by
  rw [← C03.nanmean_nan_weights, scoreEval_weighted_by_label p w hp hw R asg hr]
  congr 1
  simp only [C03.weightedF, casesAt, List.map_map]
  apply List.map_congr_left
  intro r _
  simp only [Function.comp, ofOpt_toOpt _ (hpf _), ofOpt_toOpt _ (hwf _)]

/-! ### Non-vacuity and the negative case -/

/-- per-case values on (x, y), one missing, one infinite -/
def exP : Arr := ⟨["x", "y"], [2, 3], #[.fin 1, .fin 2, .nan, .fin 4, .pinf, .fin 9]⟩
/-- weights on x only (a subset of the dims; "y" is reduced) -/
def exWx : Arr := ⟨["x"], [2], #[.fin 2, .fin (-3)]⟩
/-- weights with a dim of their own -/
def exWxt : Arr := ⟨["x", "t"], [2, 2], #[.fin 2, .fin 1, .nan, .fin (1/2)]⟩
/-- weights on x with a zero -/
def exW0 : Arr := ⟨["x"], [2], #[.fin 2, .fin 0]⟩

example : WF exP := ⟨by decide, by decide⟩
example : WF exWx := ⟨by decide, by decide⟩
example : ∀ d ∈ exWx.dims, d ∉ ["y"] := by decide

/-- a complete instance of `scoreEval_weight_factors` (negative weight, infinite per-case value in the fibre) -/
example : (scoreEval exP (some exWx) ["y"]).get [("x", 1)] = Fl.mul ((scoreEval exP none ["y"]).get [("x", 1)]) (fin (-3)) :=
  scoreEval_weight_factors exP exWx ⟨by decide, by decide⟩ ⟨by decide, by decide⟩ ["y"] (by decide) _
    (by refine ⟨by decide, trivial⟩) (-3) (by decide) (by decide +kernel)
example : (scoreEval exP (some exWx) ["y"]).get [("x", 1)] = ninf := by decide +kernel
example : (scoreEval exP (some exWx) ["y"]).get [("x", 0)] = fin 3 := by decide +kernel
example : (scoreEval exP none ["y"]).get [("x", 0)] = fin (3/2) := by decide +kernel

/-- weights with an extra dim "t": the result carries t, and at (x=1, t=1) the factor is 1/2; at (x=1, t=0) NaN -/
example : (scoreEval exP (some exWxt) ["y"]).get [("x", 0), ("t", 1)] =
    Fl.mul ((scoreEval exP none ["y"]).get [("x", 0), ("t", 1)]) (fin 1) :=
  scoreEval_weight_factors exP exWxt ⟨by decide, by decide⟩ ⟨by decide, by decide⟩ ["y"] (by decide) _
    (by refine ⟨by decide, by decide, trivial⟩) 1 (by decide) (by decide +kernel)
example : (scoreEval exP (some exWxt) ["y"]).get [("x", 1), ("t", 0)] = nan :=
  scoreEval_weight_nan exP exWxt ⟨by decide, by decide⟩ ⟨by decide, by decide⟩ ["y"] (by decide) _
    (by refine ⟨by decide, by decide, trivial⟩) (by decide +kernel)

/-- an instance of `scoreEval_weight_one` (weight 1 at x = 0, t = 1) -/
example : (scoreEval exP (some exWxt) ["y"]).get [("x", 0), ("t", 1)] = (scoreEval exP none ["y"]).get [("x", 0), ("t", 1)] :=
  scoreEval_weight_one exP exWxt ⟨by decide, by decide⟩ ⟨by decide, by decide⟩ ["y"] (by decide) _
    (by refine ⟨by decide, by decide, trivial⟩) (by decide +kernel)

/-- an instance of `scoreEval_weighted_by_label` / `scoreEval_weight_const_on_fibre` and the list that is averaged:
    x = 0, per-case values (1, 2, NaN) on y, weight 2 -/
example : (scoreEval exP (some exWx) ["y"]).get [("x", 0)] =
    nanmean ((fibre ["y"] exP [("x", 0)]).map fun s => Fl.mul s (exWx.get [("x", 0)])) :=
  scoreEval_weight_const_on_fibre exP exWx ⟨by decide, by decide⟩ ⟨by decide, by decide⟩ ["y"] (by decide) _
    (by refine ⟨by decide, trivial⟩)
example : (fibre ["y"] exP [("x", 0)]).map (fun s => Fl.mul s (exWx.get [("x", 0)])) = [fin 2, fin 4, nan] := by
  decide +kernel

/-- NEGATIVE: the hypothesis c ≠ 0 is needed.  At x = 1 the weight is 0 and the fibre (4, inf, 9) contains an infinite
    per-case value: inf × 0 = NaN drops that case and the weighted score is 0, whereas score() × 0 = inf × 0 = NaN. -/
theorem zero_weight_does_not_factor :
    (scoreEval exP (some exW0) ["y"]).get [("x", 1)] ≠ Fl.mul ((scoreEval exP none ["y"]).get [("x", 1)]) (fin 0) := by
  decide +kernel
example : (scoreEval exP (some exW0) ["y"]).get [("x", 1)] = fin 0 := by decide +kernel

/-- finite-or-NaN per-case values, weights ON the reduced dim y with a common NaN, and their sum -/
def exPf : Arr := ⟨["x", "y"], [2, 3], #[.fin 1, .fin 2, .nan, .fin 4, .fin 5, .fin 9]⟩
def exW1 : Arr := ⟨["y"], [3], #[.fin 1, .nan, .fin 2]⟩
def exW2 : Arr := ⟨["y"], [3], #[.fin 3, .nan, .fin 0]⟩
def exW12 : Arr := ⟨["y"], [3], #[.fin 4, .nan, .fin 2]⟩

/-- a complete instance of `scoreEval_add_weights`: every hypothesis discharged on concrete arrays -/
example : (scoreEval exPf (some exW12) ["y"]).get [("x", 1)] =
    Fl.add ((scoreEval exPf (some exW1) ["y"]).get [("x", 1)]) ((scoreEval exPf (some exW2) ["y"]).get [("x", 1)]) :=
  scoreEval_add_weights exPf exW1 exW2 exW12 ⟨by decide, by decide⟩ ⟨by decide, by decide⟩ ⟨by decide, by decide⟩
    ⟨by decide, by decide⟩ rfl rfl rfl rfl
    (forall_get₃ exW12 exW1 exW2 rfl rfl rfl rfl (fun a b c => a = Fl.add b c) (by decide +kernel) rfl)
    (get_noInf exPf (by decide)) (get_noInf exW1 (by decide)) (get_noInf exW2 (by decide))
    (forall_get₃ exW12 exW1 exW2 rfl rfl rfl rfl (fun _ b c => b.isNan = c.isNan) (by decide +kernel) rfl)
    ["y"] _ (by refine ⟨by decide, trivial⟩)
example : (scoreEval exPf (some exW12) ["y"]).get [("x", 1)] = fin 17 := by decide +kernel
example : (scoreEval exPf (some exW1) ["y"]).get [("x", 1)] = fin 11 := by decide +kernel
example : (scoreEval exPf (some exW2) ["y"]).get [("x", 1)] = fin 6 := by decide +kernel

/-- `scoreEval_weight_factors_finite` with a ZERO weight at x = 1 on finite-or-NaN per-case values -/
example : (scoreEval exPf (some exW0) ["y"]).get [("x", 1)] = Fl.mul ((scoreEval exPf none ["y"]).get [("x", 1)]) (fin 0) :=
  scoreEval_weight_factors_finite exPf exW0 ⟨by decide, by decide⟩ ⟨by decide, by decide⟩ ["y"] (by decide)
    (get_noInf exPf (by decide)) _ (by refine ⟨by decide, trivial⟩) 0 (by decide +kernel)
example : (scoreEval exPf (some exW0) ["y"]).get [("x", 1)] = fin 0 := by decide +kernel

/-- unit weights on the reduced dim y -/
def exWone : Arr := ⟨["y"], [3], #[.fin 1, .fin 1, .fin 1]⟩
/-- a complete instance of `scoreEval_unit_weights` -/
example : (scoreEval exP (some exWone) ["y"]).get [("x", 0)] = (scoreEval exP none ["y"]).get [("x", 0)] :=
  scoreEval_unit_weights exP exWone ⟨by decide, by decide⟩ ⟨by decide, by decide⟩ (Compat.of_forall (by decide +kernel))
    (by decide) (forall_get_inRange exWone (· = fin 1) (by decide +kernel)) ["y"] _ (by refine ⟨by decide, trivial⟩)

/-- a complete instance of `scoreEval_smul_weights`: weights on y (a reduced dim) times −2 -/
def exW1m2 : Arr := ⟨["y"], [3], #[.fin (-2), .nan, .fin (-4)]⟩
example : (scoreEval exP (some exW1m2) ["y"]).get [("x", 1)] =
    Fl.mul ((scoreEval exP (some exW1) ["y"]).get [("x", 1)]) (fin (-2)) :=
  scoreEval_smul_weights exP exW1 exW1m2 ⟨by decide, by decide⟩ ⟨by decide, by decide⟩ ⟨by decide, by decide⟩ rfl rfl
    (-2) (by decide)
    (forall_get₃ exW1m2 exW1 exW1 rfl rfl rfl rfl (fun a b _ => a = Fl.mul b (fin (-2))) (by decide +kernel) rfl)
    ["y"] _ (by refine ⟨by decide, trivial⟩)
example : (scoreEval exP (some exW1) ["y"]).get [("x", 1)] = fin 11 := by decide +kernel

/-- NEGATIVE on labelled arrays: additivity fails when the NaN masks of w₁ and w₂ differ
    (w₁ = (1, NaN, 2), w₂ = (3, 1, 0) on y; w₁+w₂ = (4, NaN, 2)): 17 ≠ 11 + 17/3 -/
theorem add_weights_needs_mask :
    (scoreEval exPf (some exW12) ["y"]).get [("x", 1)] ≠
      Fl.add ((scoreEval exPf (some exW1) ["y"]).get [("x", 1)])
        ((scoreEval exPf (some ⟨["y"], [3], #[.fin 3, .fin 1, .fin 0]⟩) ["y"]).get [("x", 1)]) := by
  decide +kernel

/-- an instance of `scoreEval_nan_weights`: x = 1, scores (4, 5, 9), weights (1, NaN, 2) ⇒ cases (4,1), (9,2) ⇒ 22/2 -/
example : C03Nan.both (fun t => t.2.1) (casesAt exPf exW1 ["y"] [("x", 1)]) = [(4, 1), (9, 2)] := by decide +kernel
example : (scoreEval exPf (some exW1) ["y"]).get [("x", 1)] = fin ((4 * 1 + 9 * 2) / 2) := by
  rw [scoreEval_nan_weights exPf exW1 ⟨by decide, by decide⟩ ⟨by decide, by decide⟩ (get_noInf exPf (by decide))
    (get_noInf exW1 (by decide)) ["y"] _ (by refine ⟨by decide, trivial⟩)]
  decide +kernel

end SV.Props.C03Arr
