/-
  C03, part 2 — where the weights enter, read from the AST on this run (`Gen/Frames.lean`): in every function that
  takes `weights` and resolves dimensions itself, `apply_weights(·, weights=weights)` feeds the very value that is then
  reduced (weights multiply per-case scores BEFORE averaging), or the weights are handed on to POD / POFD (ROC).
-/
import ScoresVerif.Gen.Frames

namespace SV.Props.C03Frames
open SV.Gen.Frames

theorem weights_before_reduction : ∀ s ∈ sites, s.hasWeights = true →
    s.weightsBeforeReduction = true ∨ s.weightsForwarded = true := by decide +kernel

/-- the only score that forwards its weights instead of applying them is the ROC curve -/
theorem forwarded_sites : (sites.filter (·.weightsForwarded)).map (·.site) = ["scores.probability.roc_impl.roc_curve_data"] := by
  decide +kernel

/-- 18 of the 25 dimension-resolving functions accept weights -/
theorem weighted_site_count : (sites.filter (·.hasWeights)).length = 18 := by decide +kernel

end SV.Props.C03Frames
