/-
  C17 (stretch) — the model of `cdf_envelope` / `fill_cdf` equals the position-wise Spec the oracle evaluates.

  `Props/C17.lean` proves the order-theoretic content (running max / min, least / greatest, kept ordinates, [0,1]);
  here the remaining link is closed: the *whole output row* of the model equals `SV.Spec.Cdf.lower` resp.
  `SV.Spec.Cdf.fillRow`, whose definitions mention no accumulator, no flip and no ffill/bfill — only
  "smallest non-NaN ordinate at positions ≥ i" and "a function of the given knots and the threshold".
-/
import ScoresVerif.Model.Cdf
import ScoresVerif.Spec.Cdf
import ScoresVerif.Lemmas.C17Lower
import ScoresVerif.Lemmas.C17Fill
import ScoresVerif.Lemmas.C17AddThresholds

namespace SV.Props.C17Spec
open SV SV.Model.Cdf SV.Lemmas.Cdf SV.Lemmas.CrpsCdf
open SV.Fl (fin nan)

/-! ## 1. lower envelope -/

/-- the lower envelope `flip(1 − fmax.accumulate(1 − flip(cdf)))` is, position by position, the smallest non-NaN
    ordinate at positions `≥ i`, NaN staying NaN — for rows of any length (mirror image of `C17.upper_eq_spec`) -/
theorem lower_eq_spec (xs : List Fl) (h : NoInf xs) : lowerRow xs = SV.Spec.Cdf.lower xs :=
  SV.Lemmas.C17Lower.lowerRow_eq_spec xs h

def exRow : List Fl := [fin 0, fin (1/2), nan, fin (1/5), fin (1/5), fin 1]
theorem exRow_noInf : NoInf exRow := by
  intro x hx
  simp only [exRow, List.mem_cons, List.not_mem_nil, or_false] at hx
  rcases hx with rfl | rfl | rfl | rfl | rfl | rfl <;> simp
example : NoInf exRow := exRow_noInf
example : SV.Spec.Cdf.lower exRow = [fin 0, fin (1/5), nan, fin (1/5), fin (1/5), fin 1] := by decide +kernel

/-- without the no-infinity hypothesis the statement is false: `1 − (−inf) = +inf` is absorbed by `fmax` in the code's
    complement trick, while the Spec ignores non-finite entries -/
theorem lower_eq_spec_needs_noInf : lowerRow [fin (1/2), Fl.ninf] ≠ SV.Spec.Cdf.lower [fin (1/2), Fl.ninf] := by
  decide +kernel

/-! ## 2. fill_cdf: each method is a function of the given knots -/

/-- a strictly increasing grid, a row with gaps at both ends and inside -/
def exThr : List Rat := [0, 1, 2, 4, 5]
def exGap : List Fl := [nan, fin (1/4), nan, fin (3/4), nan]
theorem exThr_incr : Incr exThr := by simp [exThr, Incr]; norm_num
theorem exGap_unit : Unit01 exGap := by
  intro x hx
  simp only [exGap, List.mem_cons, List.not_mem_nil, or_false] at hx
  rcases hx with rfl | rfl | rfl | rfl | rfl
  · exact Or.inl rfl
  · exact Or.inr ⟨1/4, rfl, by norm_num, by norm_num⟩
  · exact Or.inl rfl
  · exact Or.inr ⟨3/4, rfl, by norm_num, by norm_num⟩
  · exact Or.inl rfl

/-- `fill_cdf(method="step")`: a NaN at threshold `t` becomes the ordinate of the last given knot at or left of `t`,
    0 when there is none; given ordinates are kept; fewer than `min_nonnan` knots blank the row -/
theorem fill_step_eq_spec (thr : List Rat) (xs : List Fl) (k : Int) (hlen : thr.length = xs.length)
    (hinc : Incr thr) (hx : NoInf xs) :
    fillRow thr xs "step" k = SV.Spec.Cdf.fillRow thr xs "step" k :=
  SV.Lemmas.C17Fill.fillRow_step_eq_spec thr xs k hlen hinc hx

/-- `method="forward"` (`ffill` then `bfill`): last given knot at or left of `t`, the FIRST knot when there is none -/
theorem fill_forward_eq_spec (thr : List Rat) (xs : List Fl) (k : Int) (hlen : thr.length = xs.length)
    (hinc : Incr thr) (hx : NoInf xs) :
    fillRow thr xs "forward" k = SV.Spec.Cdf.fillRow thr xs "forward" k :=
  SV.Lemmas.C17Fill.fillRow_forward_eq_spec thr xs k hlen hinc hx

/-- `method="backward"` (`bfill` then `ffill`): next given knot at or right of `t`, the LAST knot when there is none -/
theorem fill_backward_eq_spec (thr : List Rat) (xs : List Fl) (k : Int) (hlen : thr.length = xs.length)
    (hinc : Incr thr) (hx : NoInf xs) :
    fillRow thr xs "backward" k = SV.Spec.Cdf.fillRow thr xs "backward" k :=
  SV.Lemmas.C17Fill.fillRow_backward_eq_spec thr xs k hlen hinc hx

/-- `method="linear"` (`interpolate_na(fill_value="extrapolate")` then `clip(0, 1)`): the chord through the two
    neighbouring knots; left of the first / right of the last knot the first / last chord extended; then clipped to
    [0,1]; with fewer than two knots nothing is filled.  Ordinates in [0,1] is the guard of `fill_cdf`. -/
theorem fill_linear_eq_spec (thr : List Rat) (xs : List Fl) (k : Int) (hlen : thr.length = xs.length)
    (hinc : Incr thr) (hu : Unit01 xs) :
    fillRow thr xs "linear" k = SV.Spec.Cdf.fillRow thr xs "linear" k :=
  SV.Lemmas.C17Fill.fillRow_linear_eq_spec thr xs k hlen hinc hu

/-- all four methods at once -/
theorem fill_eq_spec (thr : List Rat) (xs : List Fl) (method : String) (k : Int)
    (hm : method ∈ ["linear", "step", "forward", "backward"])
    (hlen : thr.length = xs.length) (hinc : Incr thr) (hu : Unit01 xs) :
    fillRow thr xs method k = SV.Spec.Cdf.fillRow thr xs method k := by
  simp only [List.mem_cons, List.not_mem_nil, or_false] at hm
  rcases hm with rfl | rfl | rfl | rfl
  · exact fill_linear_eq_spec thr xs k hlen hinc hu
  · exact fill_step_eq_spec thr xs k hlen hinc hu.noInf
  · exact fill_forward_eq_spec thr xs k hlen hinc hu.noInf
  · exact fill_backward_eq_spec thr xs k hlen hinc hu.noInf

example : exThr.length = exGap.length ∧ Incr exThr ∧ Unit01 exGap ∧ NoInf exGap :=
  ⟨rfl, exThr_incr, exGap_unit, exGap_unit.noInf⟩
-- the knot functions on this instance (thresholds 0 1 2 4 5, knots (1, ¼) and (4, ¾)):
example : SV.Spec.Cdf.fillRow exThr exGap "linear" 2 = [fin (1/12), fin (1/4), fin (5/12), fin (3/4), fin (11/12)] := by decide +kernel
example : SV.Spec.Cdf.fillRow exThr exGap "step" 2 = [fin 0, fin (1/4), fin (1/4), fin (3/4), fin (3/4)] := by decide +kernel
example : SV.Spec.Cdf.fillRow exThr exGap "forward" 2 = [fin (1/4), fin (1/4), fin (1/4), fin (3/4), fin (3/4)] := by decide +kernel
example : SV.Spec.Cdf.fillRow exThr exGap "backward" 2 = [fin (1/4), fin (1/4), fin (3/4), fin (3/4), fin (3/4)] := by decide +kernel
example : SV.Spec.Cdf.fillRow exThr exGap "step" 3 = [nan, nan, nan, nan, nan] := by decide +kernel

/-- the value the model puts at a NaN position is the model's own segment walk `interpAt`, clipped; it equals the Spec's
    neighbour-knot reading for EVERY abscissa `t` (on a knot, between two, outside all) -/
theorem interpolate_clip_eq_linearAt (ks : List (Rat × Rat)) (t : Rat) (hinc : ks.Pairwise (fun a b => a.1 < b.1))
    (hlen : 2 ≤ ks.length) :
    Fl.min (Fl.max (interpAt ks t) (fin 0)) (fin 1) = SV.Spec.Cdf.linearAt ks t :=
  SV.Lemmas.C17Fill.interp_clip_eq ks t hinc hlen

example : ([(1, 1/4), (4, 3/4)] : List (Rat × Rat)).Pairwise (fun a b => a.1 < b.1) ∧ 2 ≤ ([(1, 1/4), (4, 3/4)] : List (Rat × Rat)).length := by
  constructor
  · simp
  · decide

/-- the hypotheses are needed: on a grid that is not increasing position order and threshold order disagree … -/
theorem fill_eq_spec_needs_increasing :
    fillRow [1, 0, 2] [fin (1/2), nan, fin 1] "step" 1 ≠ SV.Spec.Cdf.fillRow [1, 0, 2] [fin (1/2), nan, fin 1] "step" 1 := by
  decide +kernel
/-- … and "linear" clips given ordinates outside [0,1] as well (such input is rejected by the guard of `fill_cdf`) -/
theorem fill_linear_needs_unit :
    fillRow [0, 1, 2] [fin 2, nan, fin 3] "linear" 2 ≠ SV.Spec.Cdf.fillRow [0, 1, 2] [fin 2, nan, fin 3] "linear" 2 := by
  decide +kernel

/-! ## 3. add_thresholds -/

/-- `add_thresholds(cdf, dim, new_thresholds, fill_method, min_nonnan)` on one CDF: the new threshold grid is the sorted,
    duplicate-free union (`Spec.Cdf.union`: merge sort then drop equal neighbours; NaN new thresholds are ignored), the
    given ordinates sit at their thresholds, new positions are NaN (method "none") or filled by the knot-function
    description of the method (`Spec.Cdf.addRow`); the guards of `fill_cdf` are silent for ordinates in [0,1] and
    `min_nonnan ≥ 2` ("linear") resp. `≥ 1` — thresholds need not even be sorted or distinct -/
theorem add_thresholds_eq_spec (thr : List Rat) (row : List Fl) (new : List Fl) (m : String) (k : Int)
    (hm : m = "none" ∨ m ∈ ["linear", "step", "forward", "backward"]) (hu : Unit01 row)
    (hk : (m = "linear" → 2 ≤ k) ∧ (m ∈ ["step", "forward", "backward"] → 1 ≤ k)) :
    addThresholds thr [row] new m k =
      .ok (SV.Spec.Cdf.union thr (finVals new), [SV.Spec.Cdf.addRow thr row (finVals new) m k]) :=
  SV.Lemmas.C17AddThresholds.addThresholds_eq_spec thr row new m k hm hu hk

example : ("forward" = "none" ∨ "forward" ∈ ["linear", "step", "forward", "backward"]) ∧ Unit01 exGap ∧
    (("forward" = "linear" → (2 : Int) ≤ 1) ∧ ("forward" ∈ ["step", "forward", "backward"] → (1 : Int) ≤ 1)) :=
  ⟨Or.inr (by decide), exGap_unit, by decide, fun _ => le_rfl⟩
example : (addThresholds exThr [exGap] [fin 3, nan, fin 1, fin (-1)] "forward" 1).toOption =
    some ([-1, 0, 1, 2, 3, 4, 5], [[fin (1/4), fin (1/4), fin (1/4), fin (1/4), fin (1/4), fin (3/4), fin (3/4)]]) := by
  decide +kernel

end SV.Props.C17Spec
