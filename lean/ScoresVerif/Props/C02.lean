/-
  C02 — a missing value removes exactly its own forecast case, never more, never less.
  Reduction level (every aggregated score is `nanmean`/`nansum`/`count` of per-case values, see
  `SV.scoreEval` and the per-score models) and kernel level (NaN-strictness of the arithmetic and of the
  boolean event maps regenerated from contingency_impl.py).
-/
import ScoresVerif.Model.Arr
import ScoresVerif.Lemmas.NanMean
import ScoresVerif.Gen.Contingency

namespace SV.Props.C02
open SV SV.Fl

/-- invalidate the cases whose flag is `false` by writing NaN into them -/
def maskBy : List Bool → List Fl → List Fl
  | k :: ks, x :: xs => (if k then x else nan) :: maskBy ks xs
  | _, _ => []

/-- physically delete the cases whose flag is `false` -/
def deleteBy : List Bool → List Fl → List Fl
  | k :: ks, x :: xs => if k then x :: deleteBy ks xs else deleteBy ks xs
  | _, _ => []

theorem valid_mask_eq_delete (keep : List Bool) (xs : List Fl) :
    valid (maskBy keep xs) = valid (deleteBy keep xs) := by
  induction keep generalizing xs with
  | nil => cases xs <;> rfl
  | cons k ks ih =>
    cases xs with
    | nil => rfl
    | cons x xs =>
      cases k
      · simpa [maskBy, deleteBy, valid, notNan, isNan, List.filter] using ih xs
      · simp only [maskBy, deleteBy, if_true]
        have := ih xs
        unfold valid at *
        simp only [List.filter_cons]
        split <;> simp_all

/-- masking by NaN = deleting the case, for the NaN-skipping mean, sum and count
    (lists of any length, any pattern of missing cases) -/
theorem nanmean_mask_eq_delete (keep : List Bool) (xs : List Fl) :
    nanmean (maskBy keep xs) = nanmean (deleteBy keep xs) := by
  unfold nanmean; rw [valid_mask_eq_delete]

theorem nansum_mask_eq_delete (keep : List Bool) (xs : List Fl) :
    nansum (maskBy keep xs) = nansum (deleteBy keep xs) := by
  unfold nansum; rw [valid_mask_eq_delete]

theorem count_mask_eq_delete (keep : List Bool) (xs : List Fl) :
    count (maskBy keep xs) = count (deleteBy keep xs) := by
  unfold count; rw [valid_mask_eq_delete]

/-- a NaN in the WEIGHTS removes exactly that case as well: weighted per-case values with masked
    weights have the same valid entries as after deleting those cases from both lists -/
theorem weighted_mask_eq_delete (keep : List Bool) (xs ws : List Fl) :
    valid (List.zipWith Fl.mul xs (maskBy keep ws)) =
    valid (List.zipWith Fl.mul (deleteBy keep xs) (deleteBy keep ws)) := by
  induction keep generalizing xs ws with
  | nil => cases xs <;> cases ws <;> simp [maskBy, deleteBy, valid]
  | cons k ks ih =>
    cases xs with
    | nil => cases ws <;> simp [maskBy, deleteBy, valid]
    | cons x xs =>
      cases ws with
      | nil => cases k <;> simp [maskBy, deleteBy, valid]
      | cons w ws =>
        cases k
        · simpa [maskBy, deleteBy, valid, notNan, isNan, List.filter] using ih xs ws
        · simp only [maskBy, deleteBy, if_true, List.zipWith_cons_cons]
          have := ih xs ws
          unfold valid at *
          simp only [List.filter_cons]
          split <;> simp_all

/-- a deleted case changes nothing else: the mean of the remaining cases is the mean of the others -/
theorem nanmean_ignores_nan_entries (xs ys : List Fl) :
    nanmean (xs ++ nan :: ys) = nanmean (xs ++ ys) := by
  unfold nanmean valid
  simp [List.filter_append, notNan, isNan]

/-! ### Kernel level: the arithmetic every per-case score is built from is NaN-strict -/

theorem add_nan_iff (a b : Option Rat) : (Fl.add (ofOpt a) (ofOpt b)).isNan = true ↔ a = none ∨ b = none := by
  cases a <;> cases b <;> simp [ofOpt, isNan]
theorem sub_nan_iff (a b : Option Rat) : (Fl.sub (ofOpt a) (ofOpt b)).isNan = true ↔ a = none ∨ b = none := by
  cases a <;> cases b <;> simp [ofOpt, isNan]
theorem mul_nan_iff (a b : Option Rat) : (Fl.mul (ofOpt a) (ofOpt b)).isNan = true ↔ a = none ∨ b = none := by
  cases a <;> cases b <;> simp [ofOpt, isNan]
theorem abs_nan_iff (a : Option Rat) : (Fl.abs (ofOpt a)).isNan = true ↔ a = none := by
  cases a <;> simp [ofOpt, isNan]
/-- comparisons with a missing value are `false` — so a NaN can only be turned into a 0/1 event by an
    explicit `.where(~isnan)`; the contingency maps below show the code does that -/
theorem cmp_nan (x : Fl) : Fl.lt nan x = false ∧ Fl.le nan x = false ∧ Fl.gt nan x = false ∧ Fl.ge nan x = false ∧
    Fl.beq nan x = false := by simp

open SV.Gen.Contingency in
/-- the four contingency maps (as regenerated from the source) are NaN whenever forecast or observed
    event is NaN: a missing value is never a hit, miss, false alarm or correct negative -/
theorem contingency_maps_nan (x : Fl) :
    map_tp nan x = nan ∧ map_tp x nan = nan ∧ map_tn nan x = nan ∧ map_tn x nan = nan ∧
    map_fp nan x = nan ∧ map_fp x nan = nan ∧ map_fn nan x = nan ∧ map_fn x nan = nan := by
  refine ⟨?_, ?_, ?_, ?_, ?_, ?_, ?_, ?_⟩ <;>
    cases x <;> simp [map_tp, map_tn, map_fp, map_fn, whereB, isNan]

open SV.Gen.Contingency in
/-- and on valid (0/1) pairs exactly one of the four maps is 1 -/
theorem contingency_maps_partition (f o : Bool) :
    let F := ofBool f; let O := ofBool o
    Fl.add (Fl.add (map_tp F O) (map_tn F O)) (Fl.add (map_fp F O) (map_fn F O)) = fin 1 := by
  cases f <;> cases o <;> simp [map_tp, map_tn, map_fp, map_fn, whereB, isNan, ofBool, Fl.add]

/-! Non-vacuity -/
example : nanmean (maskBy [true, false, true] [fin 1, fin 100, fin 3]) = fin 2 := by
  rw [nanmean_mask_eq_delete]; decide +kernel

end SV.Props.C02
