/-
  Model of src/scores/probability/roc_impl.py `roc_curve_data`, with the parts of
  src/scores/processing/discretise.py (`binary_discretise` → `comparative_discretise`, mode `operator.ge`, no tolerance)
  and src/scores/categorical/binary_impl.py (`probability_of_detection`, `probability_of_false_detection`) it runs.

  One ROC curve = the list of (forecast, observation, weight) triples that are summed together (the cells of the
  reduced dimensions for one index of the preserved dimensions) and the list of thresholds.  Faithful to the code:
  same `.where(notnull)` masks, `sum` skipping NaN, IEEE 0/0, `-1 * np.trapezoid(pod, pofd)`.  Core Lean only.
-/
import ScoresVerif.Model.Fl

namespace SV.Model.Roc
open SV

structure Triple where
  f : Fl
  o : Fl
  w : Option Fl      -- `weights=None` ↦ none
  deriving Inhabited

/-- `comparative_discretise(data, threshold, operator.ge)`:
    `operator.ge(data, comparison + 0 * -1).where(data.notnull() * comparison.notnull())` -/
def disc (f t : Fl) : Fl :=
  Fl.whereB (Fl.ofBool (Fl.ge f (Fl.add t (Fl.mul (Fl.fin 0) (Fl.fin (-1)))))) (f.notNan && t.notNan)

/-- `apply_weights(values, weights)` -/
def applyW (v : Fl) (w : Option Fl) : Fl :=
  match w with
  | none => v
  | some w => Fl.mul v w

def bothValid (d o : Fl) : Bool := d.notNan && o.notNan

/-- `hits = ((obs == 1) & (fcst == 1)).where(~isnan(fcst) & ~isnan(obs))` -/
def hit (d o : Fl) : Fl := Fl.whereB (Fl.ofBool (Fl.beq o (Fl.fin 1) && Fl.beq d (Fl.fin 1))) (bothValid d o)
/-- `misses = ((obs == 1) & (fcst == 0)).where(…)` -/
def miss (d o : Fl) : Fl := Fl.whereB (Fl.ofBool (Fl.beq o (Fl.fin 1) && Fl.beq d (Fl.fin 0))) (bothValid d o)
/-- `false_alarms = ((obs == 0) & (fcst == 1)).where(…)` -/
def falseAlarm (d o : Fl) : Fl := Fl.whereB (Fl.ofBool (Fl.beq o (Fl.fin 0) && Fl.beq d (Fl.fin 1))) (bothValid d o)
/-- `correct_negatives = ((obs == 0) & (fcst == 0)).where(…)` -/
def correctNeg (d o : Fl) : Fl := Fl.whereB (Fl.ofBool (Fl.beq o (Fl.fin 0) && Fl.beq d (Fl.fin 0))) (bothValid d o)

/-- `apply_weights(map).sum(dim=dims_to_sum)` of one of the four maps for the binary forecast `fcst >= t` -/
def wsum (cell : Fl → Fl → Fl) (ps : List Triple) (t : Fl) : Fl :=
  nansum (ps.map fun p => applyW (cell (disc p.f t) p.o) p.w)

/-- `pod = hits / (hits + misses)` -/
def pod (ps : List Triple) (t : Fl) : Fl :=
  Fl.div (wsum hit ps t) (Fl.add (wsum hit ps t) (wsum miss ps t))

/-- `pofd = false_alarms / (false_alarms + correct_negatives)` -/
def pofd (ps : List Triple) (t : Fl) : Fl :=
  Fl.div (wsum falseAlarm ps t) (Fl.add (wsum falseAlarm ps t) (wsum correctNeg ps t))

/-- `np.trapezoid(y, x)` = Σ (x_{k+1} − x_k) (y_k + y_{k+1}) / 2 -/
def trapezoid : List Fl → List Fl → Fl
  | y0 :: y1 :: ys, x0 :: x1 :: xs =>
      Fl.add (Fl.div (Fl.mul (Fl.sub x1 x0) (Fl.add y0 y1)) (Fl.fin 2)) (trapezoid (y1 :: ys) (x1 :: xs))
  | _, _ => Fl.fin 0

/-- `auc = -1 * np.trapezoid(pod, pofd)` along the threshold dimension -/
def auc (ps : List Triple) (ts : List Fl) : Fl :=
  Fl.mul (Fl.fin (-1)) (trapezoid (ts.map (pod ps)) (ts.map (pofd ps)))

/-! ### argument checks -/

def fmaxList (xs : List Fl) : Fl := (valid xs).foldl Fl.fmax Fl.nan     -- `.max()` skips NaN; all-NaN ↦ NaN
def fminList (xs : List Fl) : Fl := (valid xs).foldl Fl.fmin Fl.nan

/-- consecutive thresholds satisfy `t[k+1] >= t[k]` (numpy comparison: false on NaN) -/
def nonDecreasing : List Fl → Bool
  | a :: b :: l => Fl.ge b a && nonDecreasing (b :: l)
  | _ => true

/-- numpy `np.max` / `np.min` of the threshold list propagate NaN -/
def npMax (xs : List Fl) : Fl := match xs with | [] => Fl.nan | a :: l => l.foldl Fl.max a
def npMin (xs : List Fl) : Fl := match xs with | [] => Fl.nan | a :: l => l.foldl Fl.min a

def isBinary (o : Fl) : Bool := o.isNan || Fl.beq o (Fl.fin 0) || Fl.beq o (Fl.fin 1)

/-- does `roc_curve_data` raise ValueError?  (`allF`, `allO`: every forecast / observation value of the call) -/
def raises (checkArgs : Bool) (allF allO ts : List Fl) : Bool :=
  (checkArgs &&
    (Fl.gt (fmaxList allF) (Fl.fin 1) || Fl.lt (fminList allF) (Fl.fin 0) ||
     Fl.gt (npMax ts) (Fl.fin 1) || Fl.lt (npMin ts) (Fl.fin 0) ||
     !nonDecreasing ts))
  || !nonDecreasing ts                       -- binary_discretise checks again, independently of check_args
  || (checkArgs && !(allO.all isBinary))     -- check_binary(obs) inside POD / POFD

end SV.Model.Roc
