/-
  Hand model of the REDUCTION part of the point / interval scores (C05): what the code does with
  the per-case values after the pointwise kernel — `apply_weights`, `broadcast_and_match_nan`,
  `.mean(dim)` (skipna), `.std(dim)`, `xr.corr`.  One *fibre* (all cases that are averaged into one
  output cell) is a `List Case`; the harness does the broadcasting / grouping.

  The pointwise kernels are parameters: the driver and the theorems instantiate them with the
  definitions regenerated from the source (`SV.Gen.Point.*`).  Core Lean only.
-/
import ScoresVerif.Model.Fl

namespace SV.Model.PointScores
open SV

/-- one case of a fibre after broadcasting: forecast, observation, weight (`none` = `weights=None`) -/
structure Case where
  f : Fl
  o : Fl
  w : Option Fl
  deriving Inhabited

/-- `scores.functions.apply_weights` -/
def applyW (v : Fl) (w : Option Fl) : Fl :=
  match w with
  | none => v
  | some x => Fl.mul v x

/-- kernel, then weights, then `.mean(dim=…)` (xarray skips NaN; an all-NaN fibre gives NaN):
    `mse`, `mae`, `additive_bias`, `mean_error`, `quantile_score` -/
def meanScore (k : Fl → Fl → Fl) (cs : List Case) : Fl :=
  nanmean (cs.map fun c => applyW (k c.f c.o) c.w)

/-- `broadcast_and_match_nan` on a pair: a NaN on either side is forced onto both -/
def matchNan (p : Fl × Fl) : Fl × Fl :=
  if p.1.notNan && p.2.notNan then p else (Fl.nan, Fl.nan)

/-- weights are applied to fcst and obs separately, then NaNs are matched (multiplicative_bias, pbias) -/
def weightedPairs (cs : List Case) : List (Fl × Fl) :=
  cs.map fun c => matchNan (applyW c.f c.w, applyW c.o c.w)

/-- `multiplicative_bias`: `fcst.mean(dim) / obs.mean(dim)` -/
def multiplicativeBias (ratio : Fl → Fl → Fl) (cs : List Case) : Fl :=
  let ps := weightedPairs cs
  ratio (nanmean (ps.map (·.1))) (nanmean (ps.map (·.2)))

/-- `pbias`: `100 * error.mean(dim) / obs.mean(dim)` with `error = fcst - obs` -/
def pbias (err : Fl → Fl → Fl) (ratio : Fl → Fl → Fl) (cs : List Case) : Fl :=
  let ps := weightedPairs cs
  ratio (nanmean (ps.map fun p => err p.1 p.2)) (nanmean (ps.map (·.2)))

/-- four-operand fibre of the interval scores: lower, upper, obs, weight -/
structure ICase where
  l : Fl
  u : Fl
  y : Fl
  w : Option Fl
  deriving Inhabited

def meanIScore (k : Fl → Fl → Fl → Fl) (cs : List ICase) : Fl :=
  nanmean (cs.map fun c => applyW (k c.l c.u c.y) c.w)

/-- the data guard of `quantile_interval_score`: `(lower > upper).any()` over the WHOLE input -/
def anyGuard (g : Fl → Fl → Bool) (cs : List ICase) : Bool := cs.any fun c => g c.l c.u

/-! ### second moments as xarray computes them (`xr.corr`, `.std`, ddof = 0) -/

structure Moments where
  n : Nat
  muF : Fl
  muO : Fl
  varF : Fl
  varO : Fl
  cov : Fl

/-- moments of one fibre after NaN matching (kge calls `broadcast_and_match_nan`; `xr.corr` masks by
    itself): means, then mean of demeaned squares / products, all with skipna -/
def moments (ps : List (Fl × Fl)) : Moments :=
  let qs := ps.map matchNan
  let fs := qs.map (·.1)
  let os := qs.map (·.2)
  let mf := nanmean fs
  let mo := nanmean os
  let df := fs.map fun x => Fl.sub x mf
  let dO := os.map fun x => Fl.sub x mo
  { n := count fs, muF := mf, muO := mo,
    varF := nanmean (df.map fun x => Fl.mul x x),
    varO := nanmean (dO.map fun x => Fl.mul x x),
    cov := nanmean (List.zipWith Fl.mul df dO) }

end SV.Model.PointScores
