/-
  Model of `scores.stats.statistical_tests.diebold_mariano_impl` (HLN method, rational core) and of
  `acovf._next_regular` / the direct biased autocovariance estimator (C19).  Core Lean only.

  * `clean`            = `diffs[~np.isnan(diffs)]`
  * `mean`             = `np.mean(diffs)` / `da_timeseries.mean(other_dim)` (skipna)
  * `gammaHatK`        = `_dm_gamma_hat_k`  : Σ_{i=k}^{n-1} (d_i − d̄)(d_{i−k} − d̄)
  * `vHatRat`/`vHat`   = `_dm_v_hat`        : (γ̂₀ + 2 Σ_{k=1}^{h−1} γ̂_k) / n², and NaN when that is ≤ 0
  * `correction`       = `(n + 1 − 2h + h(h−1)/n) / n`
  * the HLN statistic is `correction**0.5 * (mean / v_hat**0.5)`; `sqrt` is uninterpreted (DESIGN §3.1): the model
    exposes `mean`, `vHat`, `correction`, `statSq = correction·mean²/v_hat` and `statSign = sign(mean)`;
    the harness applies libm's sqrt.
  * `allZero`          = `len(diffs[diffs != 0]) == 0`  ⇒ statistic NaN (both methods)
  * `ciUpper/ciLower`  = `ts_mean * (1 ± ci_quantile / test_stats)` in `Fl` arithmetic (so `0·(1 ± q/0)` is NaN)
  * `acovfDirect`      = the biased estimator  (1/n) Σ_i (x_{i+k} − x̄)(x_i − x̄)  that `acovf` computes by FFT
  * `nextRegular`      = `_next_regular` (5-smooth FFT length), loops by well-founded recursion
  Not modelled: `np.fft`, `scipy.optimize.least_squares` (HG method), `scipy.stats.norm/t`.
-/
import ScoresVerif.Model.Fl

namespace SV.Model.DM
open SV

/-- NaN removal -/
def clean (xs : List Fl) : List Rat := xs.filterMap fun | Fl.fin a => some a | _ => none

/-- `timeseries_len` = `da_timeseries.count(other_dim)` -/
def tsLen (xs : List Fl) : Nat := (clean xs).length

def mean (d : List Rat) : Rat := d.sum / (d.length : Int)

/-- `_dm_gamma_hat_k`: Σ (d[k:n] − d̄)·(d[0:n−k] − d̄) -/
def gammaHatK (d : List Rat) (dbar : Rat) (k : Nat) : Rat :=
  (List.zipWith (fun a b => (a - dbar) * (b - dbar)) (d.drop k) d).sum

/-- the value of `_dm_v_hat` before the positivity test -/
def vHatRat (d : List Rat) (h : Nat) : Rat :=
  let dbar := mean d
  (gammaHatK d dbar 0 + 2 * ((List.range (h - 1)).map fun k => gammaHatK d dbar (k + 1)).sum) / ((d.length : Int) : Rat) ^ 2

/-- `_dm_v_hat`: NaN when not positive -/
def vHat (d : List Rat) (h : Nat) : Fl := if vHatRat d h ≤ 0 then Fl.nan else Fl.fin (vHatRat d h)

/-- Harvey–Leybourne–Newbold small-sample factor `(n + 1 − 2h + h(h−1)/n)/n` -/
def correction (n h : Nat) : Rat :=
  (((n : Int) : Rat) + 1 - 2 * ((h : Int) : Rat) + ((h : Int) : Rat) * (((h : Int) : Rat) - 1) / ((n : Int) : Rat)) / ((n : Int) : Rat)

def allZero (d : List Rat) : Bool := d.all fun x => decide (x = 0)

/-- square of the HLN statistic (NaN exactly when the statistic is NaN) -/
def statSq (d : List Rat) (h : Nat) : Fl :=
  if allZero d then Fl.nan
  else if vHatRat d h ≤ 0 then Fl.nan
  else Fl.fin (correction d.length h * (mean d) ^ 2 / vHatRat d h)

/-- sign of the HLN statistic when it is not NaN: the sign of the mean (−1, 0, 1) -/
def statSign (d : List Rat) : Int := Fl.rsign (mean d)

/-- `ts_mean * (1 + ci_quantile / test_stats)` -/
def ciUpper (mean stat q : Fl) : Fl := Fl.mul mean (Fl.add (Fl.fin 1) (Fl.div q stat))
/-- `ts_mean * (1 - ci_quantile / test_stats)` -/
def ciLower (mean stat q : Fl) : Fl := Fl.mul mean (Fl.sub (Fl.fin 1) (Fl.div q stat))

/-! ### autocovariances -/

/-- direct biased estimator at lag `k` -/
def acovfDirect (x : List Rat) (k : Nat) : Rat := gammaHatK x (mean x) k / ((x.length : Int) : Rat)

def acovfAll (x : List Rat) : List Rat := (List.range x.length).map (acovfDirect x)

/-! ### `_next_regular` -/

/-- Python `int.bit_length()` -/
def bitLength (n : Nat) : Nat := if n = 0 then 0 else Nat.log2 n + 1

/-- `if N < match: match = N` with `float("inf")` as `none` -/
def upd (N : Nat) (m : Option Nat) : Option Nat :=
  match m with
  | none => some N
  | some v => if N < v then some N else some v

/-- inner loop `while p35 < target`; returns `(early return value, match, p35 at exit)` -/
def inner (target : Nat) (p35 : Nat) (m : Option Nat) : Option Nat × Option Nat × Nat :=
  if _h : 0 < p35 ∧ p35 < target then
    -- quotient = -(-target // p35);  p2 = 2 ** ((quotient - 1).bit_length());  N = p2 * p35
    if 2 ^ bitLength ((target + p35 - 1) / p35 - 1) * p35 = target then
      (some (2 ^ bitLength ((target + p35 - 1) / p35 - 1) * p35), m, p35)
    else if p35 * 3 = target then
      (some (p35 * 3), upd (2 ^ bitLength ((target + p35 - 1) / p35 - 1) * p35) m, p35 * 3)
    else inner target (p35 * 3) (upd (2 ^ bitLength ((target + p35 - 1) / p35 - 1) * p35) m)
  else (none, m, p35)
termination_by target - p35
decreasing_by omega

/-- outer loop `while p5 < target`; returns `(early return value, match, p5 at exit)` -/
def outer (target : Nat) (p5 : Nat) (m : Option Nat) : Option Nat × Option Nat × Nat :=
  if _h : 0 < p5 ∧ p5 < target then
    match inner target p5 m with
    | (some r, m', _) => (some r, m', p5)
    | (none, m', p35) =>
      if p5 * 5 = target then (some (p5 * 5), upd p35 m', p5 * 5)
      else outer target (p5 * 5) (upd p35 m')
  else (none, m, p5)
termination_by target - p5
decreasing_by omega

def nextRegular (target : Nat) : Nat :=
  if target ≤ 6 then target
  else if Nat.land target (target - 1) = 0 then target
  else
    match outer target 1 none with
    | (some r, _, _) => r
    | (none, m, p5) => (upd p5 m).getD 0

/-- FFT length used by `acovf` for a series of `nobs` values -/
def fftLength (nobs : Nat) : Nat := nextRegular (2 * nobs + 1)

end SV.Model.DM
