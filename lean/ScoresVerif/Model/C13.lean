/-
  C13 — array level of brier_score / brier_score_for_ensemble by hand on top of the translated kernels
  (Gen/Brier): counting over the ensemble dimension, threshold loop, weights, mean over cases.
-/
import ScoresVerif.Model.Fl
import ScoresVerif.Model.Discretise
import ScoresVerif.Gen.Discretise
import ScoresVerif.Gen.Brier

namespace SV.Model.C13
open SV

/-- i: `event_threshold_operator(fcst, thresholds).sum(dim=member)` — a sum of booleans -/
def memberEventCount (op : PyMode) (thr : Fl) (members : List Fl) : Fl :=
  Fl.ofNat (members.filter fun x => Gen.Brier.member_event_count_element op x thr).length

/-- m: `fcst.notnull().sum(dim=member)` -/
def totalMemberCount (op : PyMode) (thr : Fl) (members : List Fl) : Fl :=
  Fl.ofNat (members.filter fun x => Gen.Brier.total_member_count_element op x thr).length

/-- one case, one threshold -/
def ensCase (members : List Fl) (obs thr : Fl) (op : PyMode) (fair : Bool) : Except String Fl :=
  if Gen.Brier.operator_rejected op then throw "ValueError"
  else do
    let y ← Gen.Brier.binary_obs obs thr op
    pure (Gen.Brier.brier_case (memberEventCount op thr members) (totalMemberCount op thr members) y fair)

def applyWeights (scores : List Fl) (weights : Option (List Fl)) : List Fl :=
  match weights with
  | none => scores
  | some ws => List.zipWith Fl.mul scores ws

/-- all cases × thresholds: the (weighted) per-case values [case][threshold] and their mean over cases
    per threshold -/
def ensScore (fcst : List (List Fl)) (obs thresholds : List Fl) (op : PyMode) (fair : Bool)
    (weights : Option (List Fl)) : Except String (List (List Fl) × List Fl) :=
  if Gen.Brier.operator_rejected op then throw "ValueError"
  else if !(monotoneNondecr thresholds) then throw "ValueError"
  else do
    let cols ← thresholds.mapM fun thr => do
      let col ← (fcst.zip obs).mapM fun (ms, o) => ensCase ms o thr op fair
      pure (applyWeights col weights)
    let perCase := (List.range fcst.length).map fun k => cols.map fun col => col.getD k Fl.nan
    pure (perCase, cols.map nanmean)

/-- max / min over the non-missing values (xarray skipna); NaN when there are none -/
def nanMax (xs : List Fl) : Fl :=
  match valid xs with
  | [] => Fl.nan
  | x :: r => r.foldl Fl.max x
def nanMin (xs : List Fl) : Fl :=
  match valid xs with
  | [] => Fl.nan
  | x :: r => r.foldl Fl.min x

/-- `check_binary`: some non-missing value outside `binary_set` -/
def binaryRejected (os : List Fl) : Bool :=
  (valid os).any fun o => !(Gen.Brier.binary_set.any fun b => Fl.beq o b)

/-- `brier_score(fcst, obs, weights=, check_args=)` with every dimension reduced -/
def brierScore (fs os : List Fl) (weights : Option (List Fl)) (check : Bool) : Except String Fl :=
  if check && Gen.Brier.fcst_range_rejected (nanMax fs) (nanMin fs) then throw "ValueError"
  else if check && binaryRejected os then throw "ValueError"
  else pure (nanmean (applyWeights (List.zipWith Gen.Brier.brier_kernel fs os) weights))

end SV.Model.C13
