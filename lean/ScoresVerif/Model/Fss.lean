/-
  Model of the Fractions Skill Score pipeline (C16) — core Lean only.

  Faithful to  src/scores/fast/fss/backend.py  (`_check_dims`, `_apply_event_threshold`),
               src/scores/fast/fss/fss_numpy.py (`_compute_integral_field`, `_compute_fss_components`),
               src/scores/spatial/fss_impl.py   (`_aggregate_fss_decomposed`: loop shape).
  The scalar tails (`compute_fss`, accumulation step, aggregation tail, order of the component triple) are
  NOT written here: they are the definitions regenerated from the source in `Gen/Fss.lean`.

  Arrays are tables `List (List Int)` built by `mkTab` and read by `get` (out of range reads give 0 and never
  happen for valid windows); `x : Nat → Nat → Int` is the view `get t`.
-/
import ScoresVerif.Model.Fl
import ScoresVerif.Gen.Fss

namespace SV.Model.Fss
open SV

/-! ### tables -/

abbrev Tab := List (List Int)

def mkTab (f : Nat → Nat → Int) (H W : Nat) : Tab :=
  (List.range H).map fun i => (List.range W).map fun j => f i j

def get (t : Tab) (i j : Nat) : Int := (t.getD i []).getD j 0

def getFl (t : List (List Fl)) (i j : Nat) : Fl := (t.getD i []).getD j Fl.nan

/-! ### `_apply_event_threshold` -/

inductive ThrOp where
  | gt | ge | lt | le      -- np.greater, np.greater_equal, np.less, np.less_equal
  | leftId                 -- scores.utils.left_identity_operator (fss_2d_binary): the boolean field itself
  deriving DecidableEq, Repr, Inhabited

/-- one cell of `_op(field, event_threshold)` as 0/1.  numpy comparisons are False on NaN, so a NaN cell is a
    non-event under every comparison operator.  `left_identity_operator` returns the (boolean) input: True ↦ 1.
    (Non-boolean input of the binary entry point is outside the model.) -/
def event (op : ThrOp) (x thr : Fl) : Int :=
  match op with
  | .gt => if Fl.gt x thr then 1 else 0
  | .ge => if Fl.ge x thr then 1 else 0
  | .lt => if Fl.lt x thr then 1 else 0
  | .le => if Fl.le x thr then 1 else 0
  | .leftId => if Fl.beq x (Fl.fin 1) then 1 else 0

def pop (op : ThrOp) (thr : Fl) (field : List (List Fl)) (H W : Nat) : Tab :=
  mkTab (fun i j => event op (getFl field i j) thr) H W

/-! ### `_compute_integral_field`: summed-area table -/

/-- `x.cumsum(1)`: running sum along the second axis -/
def cumsum1 (x : Nat → Nat → Int) : Nat → Nat → Int
  | i, 0 => x i 0
  | i, j + 1 => cumsum1 x i j + x i (j + 1)

/-- `x.cumsum(0)`: running sum along the first axis -/
def cumsum0 (x : Nat → Nat → Int) : Nat → Nat → Int
  | 0, j => x 0 j
  | i + 1, j => cumsum0 x i j + x (i + 1) j

/-- `np.hstack([zero_row, s])` then `np.vstack([zero_col, s])`: a zero column on the left, a zero row on top -/
def zeroPad (s : Nat → Nat → Int) : Nat → Nat → Int :=
  fun i j => if i = 0 ∨ j = 0 then 0 else s (i - 1) (j - 1)

/-- `pop.cumsum(1).cumsum(0)` with the zero row/column: an (H+1) × (W+1) table -/
def integral (x : Tab) (H W : Nat) : Tab :=
  let c1 := mkTab (cumsum1 (get x)) H W
  let c0 := mkTab (cumsum0 (get c1)) H W
  mkTab (zeroPad (get c0)) (H + 1) (W + 1)

/-- `d - b - c + a` with a = S[tl0,tl1], b = S[tl0,br1], c = S[br0,tl1], d = S[br0,br1] -/
def corner (S : Tab) (t0 t1 b0 b1 : Nat) : Int :=
  get S b0 b1 - get S t0 b1 - get S b0 t1 + get S t0 t1

/-- `np.clip(v, lo, hi)` on integers -/
def clipI (v lo hi : Int) : Int := min (max v lo) hi

/-- no padding: `mesh_tl = np.mgrid[0:im_h, 0:im_w]`, `mesh_br = mesh_tl + window`; row-major flat image -/
def imgNoPad (S : Tab) (H W h w : Nat) : List Int :=
  let imH := (H + 1) - h
  let imW := (W + 1) - w
  (List.range imH).flatMap fun i => (List.range imW).map fun j => corner S i j (i + h) (j + w)

/-- `r_tl = np.clip(np.arange(-half, im - half), 0, im - 1)` at position k -/
def tlIdx (half im k : Nat) : Nat := (clipI ((k : Int) - (half : Int)) 0 ((im : Int) - 1)).toNat
/-- `r_br = np.clip(np.arange(rem, im + rem), 1, im - 1)` at position k -/
def brIdx (rem im k : Nat) : Nat := (clipI ((k : Int) + (rem : Int)) 1 ((im : Int) - 1)).toNat

/-- zero padding: the four clipped index vectors, `half = int(w / 2)`, `rem = w - half`; `np.meshgrid(…, indexing="ij")` -/
def imgPad (S : Tab) (H W h w : Nat) : List Int :=
  let halfH := h / 2
  let halfW := w / 2
  let imH := H + 1
  let imW := W + 1
  let remH := h - halfH
  let remW := w - halfW
  (List.range imH).flatMap fun k => (List.range imW).map fun l =>
    corner S (tlIdx halfH imH k) (tlIdx halfW imW l) (brIdx remH imH k) (brIdx remW imW l)

def img (pad : Bool) (S : Tab) (H W h w : Nat) : List Int :=
  if pad then imgPad S H W h w else imgNoPad S H W h w

/-! ### `_compute_fss_components` -/

def sumSq : List Int → Int
  | [] => 0
  | v :: t => v * v + sumSq t

/-- `np.nanmean(np.power(a, 2))` of an integer array (no NaN can occur) -/
def meanSq (l : List Int) : Rat := (sumSq l : Rat) / (l.length : Rat)

/-- `self._obs_img - self._fcst_img` (same shapes) -/
def diffImg (imgO imgF : List Int) : List Int := List.zipWith (fun o f => o - f) imgO imgF

def components (imgF imgO : List Int) : Fl × Fl × Fl :=
  SV.Gen.Fss.components (Fl.fin (meanSq imgF)) (Fl.fin (meanSq imgO)) (Fl.fin (meanSq (diffImg imgO imgF)))

/-! ### the pipeline -/

/-- `_check_dims` (shapes equal is the caller's business here): the window fits and is at least 1×1 -/
def validWindow (H W h w : Nat) : Bool := !(h > H || w > W || h < 1 || w < 1)

def imageOf (pad : Bool) (x : Tab) (H W h w : Nat) : List Int := img pad (integral x H W) H W h w

/-- `compute_fss_decomposed` on two event tables -/
def decomposedPop (pad : Bool) (xf xo : Tab) (H W h w : Nat) : Fl × Fl × Fl :=
  components (imageOf pad xf H W h w) (imageOf pad xo H W h w)

/-- `compute_fss_decomposed` -/
def decomposed (op : ThrOp) (thr : Fl) (pad : Bool) (fcst obs : List (List Fl)) (H W h w : Nat) : Fl × Fl × Fl :=
  decomposedPop pad (pop op thr fcst H W) (pop op thr obs H W) H W h w

def scoreOf (c : Fl × Fl × Fl) : Fl := SV.Gen.Fss.compute_fss c.1 c.2.1 c.2.2

/-- `fss_2d_single_field` (→ `compute_fss`) on event tables -/
def fssPop (pad : Bool) (xf xo : Tab) (H W h w : Nat) : Fl := scoreOf (decomposedPop pad xf xo H W h w)

/-- `fss_2d_single_field` -/
def fssSingle (op : ThrOp) (thr : Fl) (pad : Bool) (fcst obs : List (List Fl)) (H W h w : Nat) : Fl :=
  scoreOf (decomposed op thr pad fcst obs H W h w)

/-- `_aggregate_fss_decomposed` on an ndarray of component triples (`l = fss_d.size`) -/
def aggregateArr (cs : List (Fl × Fl × Fl)) : Fl :=
  let l := cs.length
  if l < 1 then SV.Gen.Fss.agg_empty
  else
    SV.Gen.Fss.agg_tail
      (cs.foldl (fun acc e => SV.Gen.Fss.agg_step (Fl.ofNat l) acc e.1 e.2.1 e.2.2) SV.Gen.Fss.agg_init)

/-- `_aggregate_fss_decomposed` on a single `np.void` (nothing to reduce) -/
def aggregateScalar (c : Fl × Fl × Fl) : Fl :=
  SV.Gen.Fss.agg_tail (SV.Gen.Fss.agg_scalar c.1 c.2.1 c.2.2)

end SV.Model.Fss
