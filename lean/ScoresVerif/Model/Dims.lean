/-
  Model of `scores.utils.gather_dimensions` (C01) — a statement-by-statement transcription,
  including Python's `preserve_dims or reduce_dims` truthiness — and the resolution rule in the
  property's own words (`Spec.resolve`).  Core Lean only.
  Sets of dimension names are lists; results are compared as sets.
-/
namespace SV.Dims

/-- how a caller can spell `reduce_dims` / `preserve_dims` / `score_specific_fcst_dims` -/
inductive DimSpec where
  | none
  | all                      -- the string "all"
  | str (s : String)         -- any other bare string
  | list (l : List String)   -- list / tuple / set of names
  deriving DecidableEq, Repr, Inhabited

inductive Err where
  | both          -- reduce_dims and preserve_dims both given
  | absent        -- a named dimension is not in the data
  | specific      -- a score-specific dimension check failed
  deriving DecidableEq, Repr

namespace DimSpec
def isNone : DimSpec → Bool | none => true | _ => false
/-- Python truthiness: `None`, `""`, `[]` are falsy -/
def truthy : DimSpec → Bool
  | none => false
  | all => true
  | str s => s != ""
  | list l => !l.isEmpty
/-- `[s] if isinstance(d, str) else d` -/
def asList : DimSpec → List String
  | none => []
  | all => ["all"]
  | str s => [s]
  | list l => l
end DimSpec

def union (a b : List String) : List String := a ++ b.filter (fun x => !a.contains x)
def diff (a b : List String) : List String := a.filter (fun x => !b.contains x)
def inter (a b : List String) : List String := a.filter (fun x => b.contains x)
def subset (a b : List String) : Bool := a.all (fun x => b.contains x)

/-- `gather_dimensions(fcst_dims, obs_dims, weights_dims=, reduce_dims=, preserve_dims=, score_specific_fcst_dims=)`,
    one `if` per Python statement, in source order -/
def gather (fcst obs : List String) (weights : Option (List String))
    (reduce preserve specific : DimSpec) : Except Err (List String) :=
  let allData := match weights with
    | some w => union (union fcst obs) w
    | Option.none => union fcst obs
  if !preserve.isNone && !reduce.isNone then Except.error Err.both else
  -- specified_dims = preserve_dims or reduce_dims
  let specified := if preserve.truthy then preserve else reduce
  -- "all" stays a string; any other string becomes a one-element list
  let specList : Option (List String) :=
    if specified == DimSpec.all then Option.none else if specified.isNone then Option.none else some specified.asList
  let sp := specific.asList
  if !specific.isNone && !subset sp fcst then Except.error Err.specific else
  if !specific.isNone && !(inter obs sp).isEmpty then Except.error Err.specific else
  if !specific.isNone && (match weights with | some w => !(inter w sp).isEmpty | Option.none => false) then
    Except.error Err.specific else
  if !specific.isNone && (match specList with | some l => !(inter l sp).isEmpty | Option.none => false) then
    Except.error Err.specific else
  let scoring := if specific.isNone then allData else diff allData sp
  if (match specList with | some l => !subset l allData | Option.none => false) then Except.error Err.absent else
  if !preserve.isNone then
    (if preserve == DimSpec.all then Except.ok [] else Except.ok (diff scoring preserve.asList))
  else if reduce == DimSpec.all then Except.ok scoring
  else match reduce with
    | DimSpec.str s => Except.ok [s]
    | DimSpec.none => Except.ok scoring
    | DimSpec.list l => Except.ok l
    | DimSpec.all => Except.ok scoring

/-! ### The rule in the property's words -/
namespace Spec

/-- dimensions named explicitly by a request (what must exist in the data) -/
def named : DimSpec → List String
  | DimSpec.str s => [s]
  | DimSpec.list l => l
  | _ => []

/-- Resolution rule of C01.  `reduce`/`preserve` are *well-formed* requests: a bare string is a
    non-empty name, and an empty list means "nothing named". -/
def resolve (fcst obs : List String) (weights : Option (List String))
    (reduce preserve specific : DimSpec) : Except Err (List String) :=
  let data := union (union fcst obs) (weights.getD [])
  let sp := specific.asList
  let req := if preserve.isNone then reduce else preserve
  if !preserve.isNone && !reduce.isNone then Except.error Err.both
  else if !specific.isNone && (!subset sp fcst || !(inter obs sp).isEmpty || !(inter (weights.getD []) sp).isEmpty
        || !(inter (named req) sp).isEmpty) then Except.error Err.specific
  else if !subset (named req) data then Except.error Err.absent
  else
    let scoring := if specific.isNone then data else diff data sp
    if !preserve.isNone then
      match preserve with
      | DimSpec.all => Except.ok []
      | p => Except.ok (diff scoring (named p))
    else
      match reduce with
      | DimSpec.none => Except.ok scoring
      | DimSpec.all => Except.ok scoring
      | r => Except.ok (named r)

end Spec

/-- requests the rule speaks about: bare strings are non-empty names other than "all";
    (`[]`/`()` is allowed and names nothing) -/
def wellFormed : DimSpec → Bool
  | DimSpec.str s => s != "" && s != "all"
  | _ => true

/-- same outcome: same error, or the same *set* of names -/
def sameOutcome : Except Err (List String) → Except Err (List String) → Prop
  | Except.error a, Except.error b => a = b
  | Except.ok a, Except.ok b => ∀ x, x ∈ a ↔ x ∈ b
  | _, _ => False

end SV.Dims
