/-
  Model of the flip-flop index (C18) — core Lean only.

  Faithful to src/scores/continuous/flip_flop_impl.py: `_flip_flop_index` (linear and directional),
  `_encompassing_sector_size_np` (sort, roll, folded differences, argmax, rotation, `n_unique <= 2` branch, skipna),
  `flip_flop_index` with selections, `flip_flop_index_proportion_exceeding` (via `>=` discretisation and nan-mean).
  The pointwise pieces (`angular_difference`, the normalisation tail, the cap at 180) are the definitions regenerated
  from the source in `Gen/FlipFlop.lean`.  A sequence is the `List Fl` along the sampling dimension.
-/
import ScoresVerif.Model.Fl
import ScoresVerif.Gen.FlipFlop

namespace SV.Model.FlipFlop
open SV
open SV.Gen.FlipFlop (angular_difference max_count angular_range linear_range tail linear_step)

/-- `data.max(dim, skipna=False)` / `np.max`: NaN-propagating; (empty: NaN, never used) -/
def maxStrict : List Fl → Fl
  | [] => Fl.nan
  | a :: t => t.foldl Fl.max a

def minStrict : List Fl → Fl
  | [] => Fl.nan
  | a :: t => t.foldl Fl.min a

/-- `d(data.shift(1), data)` along the sampling dim: the first element meets the NaN the shift introduces -/
def shiftPairs (d : Fl → Fl → Fl) : List Fl → List Fl
  | [] => []
  | a :: t => d Fl.nan a :: List.zipWith d (a :: t) t

/-- `abs(flip_flop).sum(dim)`: xarray's sum skips NaN -/
def absSum (ds : List Fl) : Fl := nansum (ds.map Fl.abs)

/-! ### `_encompassing_sector_size_np` on one column -/

/-- order used by `np.sort`: ascending, NaN last -/
def sortLe (a b : Fl) : Bool := if a.isNan then b.isNan else if b.isNan then true else Fl.le a b

def insertSorted (a : Fl) : List Fl → List Fl
  | [] => [a]
  | b :: t => if sortLe a b then a :: b :: t else b :: insertSorted a t

def sortFl : List Fl → List Fl
  | [] => []
  | a :: t => insertSorted a (sortFl t)

/-- `np.roll(data, shift=-1)` -/
def rollBack : List Fl → List Fl
  | [] => []
  | a :: t => t ++ [a]

/-- `np.argmax`: the first NaN if there is one, else the first maximum -/
def argmaxFrom : List Fl → Nat → Nat → Fl → Nat
  | [], _, best, _ => best
  | d :: t, i, best, bv =>
    if bv.isNan then best
    else if d.isNan then i
    else if Fl.lt bv d then argmaxFrom t (i + 1) i d else argmaxFrom t (i + 1) best bv

def argmax : List Fl → Nat
  | [] => 0
  | d :: t => argmaxFrom t 1 0 d

def c360 : Fl := Fl.fin 360
def c180 : Fl := Fl.fin 180

/-- `np.where(np.nan_to_num(d) > 180, 360 - d, d)` -/
def foldDiff (d : Fl) : Fl := if Fl.gt (if d.isNan then Fl.fin 0 else d) c180 then Fl.sub c360 d else d

def sectorNp (skipna : Bool) (xs : List Fl) : Fl :=
  let data0 := sortFl (xs.map fun v => Fl.mod v 360)
  let data :=
    if skipna then
      let d0 := data0.headD Fl.nan
      let r := data0.map fun v => Fl.mod (Fl.sub v d0) 360
      let allNan := r.all Fl.isNan
      r.map fun v => if v.isNan && !allNan then Fl.fin 0 else v
    else data0
  let rolled := rollBack data
  let diffs := (List.zipWith (fun a b => Fl.abs (Fl.sub a b)) data rolled).map foldDiff
  let k := argmax diffs
  let first := data.getD k Fl.nan
  let rotated := rolled.map fun v => Fl.mod (Fl.sub v first) 360
  let second := rotated.getD k Fl.nan
  let maxRot := maxStrict rotated
  let result := if Fl.beq maxRot second then second else Fl.sub c360 second
  let nUnique := (diffs.filter fun d => Fl.bne d (Fl.fin 0)).length
  if nUnique ≤ 2 then maxStrict diffs else result

/-! ### `_flip_flop_index` -/

def ffiLinear (xs : List Fl) : Fl :=
  let range := linear_range (maxStrict xs) (minStrict xs)
  tail (absSum (shiftPairs linear_step xs)) range (max_count (Fl.ofNat xs.length))

def ffiAngular (xs : List Fl) : Fl :=
  let range := angular_range (sectorNp false xs)
  tail (absSum (shiftPairs angular_difference xs)) range (max_count (Fl.ofNat xs.length))

def ffi (isAngular : Bool) (xs : List Fl) : Fl := if isAngular then ffiAngular xs else ffiLinear xs

/-! ### selections: `data.sel({sampling_dim: values})` — the values in the order requested; `none` = KeyError -/

def lookup (coords : List Int) (xs : List Fl) (v : Int) : Option Fl :=
  match coords, xs with
  | c :: cs, x :: t => if c = v then some x else lookup cs t v
  | _, _ => none

def select (coords : List Int) (xs : List Fl) : List Int → Option (List Fl)
  | [] => some []
  | v :: vs =>
    match lookup coords xs v, select coords xs vs with
    | some x, some r => some (x :: r)
    | _, _ => none

def ffiSelection (isAngular : Bool) (coords : List Int) (xs : List Fl) (vals : List Int) : Option Fl :=
  (select coords xs vals).map (ffi isAngular)

/-! ### `flip_flop_index_proportion_exceeding`: `>=` discretisation (NaN kept) then the nan-mean -/

def exceedFlag (v thr : Fl) : Fl := if v.isNan || thr.isNan then Fl.nan else Fl.ofBool (Fl.ge v thr)

def proportionExceeding (ffis : List Fl) (thr : Fl) : Fl := nanmean (ffis.map fun v => exceedFlag v thr)

end SV.Model.FlipFlop
