/-
  Prelude for the *statement* translator (`tools/py2lean_stmt.py`, tie T for Python-level control logic such as
  `utils.gather_dimensions`): a small universe of dynamically typed Python values — `None`, a `str`, and a
  list / tuple / set of strings — with exactly the operations the translated functions use.  Every operation that
  Python could reject (iterating `None`, a set method on a non-set, `[x]` with a non-string `x` — a value outside
  this universe) returns an error instead of a default, so a theorem about the generated code never holds because
  of a totalised definition.  Sets are lists read up to membership (`Dims.union/diff/inter/subset`).
  Core Lean only.
-/
import ScoresVerif.Model.Dims

namespace SV.PyDyn
open SV.Dims

/-- a Python value of the dimension-handling code -/
inductive V where
  | none
  | str (s : String)
  | list (l : List String)      -- list, tuple or set of names
  deriving DecidableEq, Repr, Inhabited

inductive PyErr where
  | value (msg : String)        -- `raise ValueError(<msg>)`; `msg` is the source text of the argument
  | type_                       -- a TypeError of the interpreter (None where an iterable is needed, …)
  | assertion                   -- a failed `assert`
  deriving DecidableEq, Repr

abbrev M := Except PyErr

namespace V
def isNone : V → Bool | none => true | _ => false
def isStr : V → Bool | str _ => true | _ => false
/-- Python truthiness -/
def truthy : V → Bool
  | none => false
  | str s => s != ""
  | list l => !l.isEmpty
/-- `v == "lit"` -/
def eqStr (v : V) (s : String) : Bool := v == V.str s
/-- `a or b` -/
def or (a b : V) : V := if a.truthy then a else b
/-- iteration (`set(x)`, `list(x)`, an argument of a set method): a string iterates over its characters -/
def iter : V → M (List String)
  | none => throw PyErr.type_
  | str s => pure (s.toList.map (fun c => String.singleton c))
  | list l => pure l
/-- `set(x)` -/
def toSet (v : V) : M V := do pure (V.list (← v.iter))
/-- the receiver of a set method must be a set (a list here) -/
def asSet : V → M (List String)
  | list l => pure l
  | _ => throw PyErr.type_
def union (a b : V) : M V := do pure (V.list (Dims.union (← a.asSet) (← b.iter)))
def difference (a b : V) : M V := do pure (V.list (Dims.diff (← a.asSet) (← b.iter)))
def intersection (a b : V) : M V := do pure (V.list (Dims.inter (← a.asSet) (← b.iter)))
def issubset (a b : V) : M Bool := do pure (Dims.subset (← a.asSet) (← b.iter))
def copy (a : V) : M V := do pure (V.list (← a.asSet))
/-- `[x]` for a string `x` (a list holding a non-string is outside this value universe) -/
def singleton : V → M V
  | str s => pure (V.list [s])
  | _ => throw PyErr.type_
def len : V → M Nat
  | none => throw PyErr.type_
  | str s => pure s.length
  | list l => pure l.length
/-- `"lit" in x` for a collection `x` -/
def containsStr (v : V) (s : String) : M Bool := do pure ((← v.asSet).contains s)
end V

end SV.PyDyn
