/-
  C08 — array level of the contingency managers and of binary_discretise(_proportion), by hand, on top of
  the translated element-wise kernels (Gen/Contingency maps, Gen/Discretise events and relation chain).
  Lists are the flattened positions that are summed (`.sum(dim=…)` skips NaN; an empty sum is 0).
-/
import ScoresVerif.Model.Fl
import ScoresVerif.Model.Discretise
import ScoresVerif.Gen.Contingency
import ScoresVerif.Gen.Discretise

namespace SV.Model.C08
open SV

structure Table where
  tp : Fl
  tn : Fl
  fp : Fl
  fn : Fl
  total : Fl
  deriving DecidableEq

/-- `BinaryContingencyManager._get_counts` over the positions reduced into one output cell -/
def tableOfEvents (es : List (Fl × Fl)) : Table :=
  let tp := nansum (es.map fun e => Gen.Contingency.map_tp e.1 e.2)
  let tn := nansum (es.map fun e => Gen.Contingency.map_tn e.1 e.2)
  let fp := nansum (es.map fun e => Gen.Contingency.map_fp e.1 e.2)
  let fn := nansum (es.map fun e => Gen.Contingency.map_fn e.1 e.2)
  { tp := tp, tn := tn, fp := fp, fn := fn, total := Fl.add (Fl.add (Fl.add tp tn) fp) fn }

/-- `ThresholdEventOperator(...).make_contingency_manager(fcst, obs, event_threshold=, op_fn=)` then counts -/
def tableOfThreshold (dthr : Fl) (dop : PyOp) (ps : List (Fl × Fl)) (thr : Option Fl) (op : Option PyOp) : Table :=
  tableOfEvents (ps.map fun p => Gen.Discretise.events_make_contingency_manager dthr dop p.1 p.2 thr op)

/-- component-wise sum of tables (summing kept counts along a dimension) -/
def Table.add (a b : Table) : Table :=
  { tp := Fl.add a.tp b.tp, tn := Fl.add a.tn b.tn, fp := Fl.add a.fp b.fp, fn := Fl.add a.fn b.fn,
    total := Fl.add a.total b.total }

def Table.zero : Table := { tp := Fl.fin 0, tn := Fl.fin 0, fp := Fl.fin 0, fn := Fl.fin 0, total := Fl.fin 0 }

/-- `binary_discretise(data, thresholds, mode, abs_tolerance=)`: monotonicity guard, then every
    (datum, threshold) element through the translated kernel; result indexed [datum][threshold] -/
def binaryDiscretise (data thresholds : List Fl) (mode : PyMode) (tol : Option Fl) : Except String (List (List Fl)) :=
  if !(monotoneNondecr thresholds) then throw "ValueError"
  else
    match Gen.Discretise.comparative_discretise Fl.nan Fl.nan mode tol with   -- errors do not depend on the data
    | .error e => throw e
    | .ok _ => data.mapM fun x => thresholds.mapM fun c => Gen.Discretise.comparative_discretise x c mode tol

/-- `binary_discretise_proportion` reducing all of `data`: per threshold the mean (skipna) of the column -/
def proportion (data thresholds : List Fl) (mode : PyMode) (tol : Option Fl) : Except String (List Fl) :=
  if !(monotoneNondecr thresholds) then throw "ValueError"
  else
    match Gen.Discretise.comparative_discretise Fl.nan Fl.nan mode tol with
    | .error e => throw e
    | .ok _ => thresholds.mapM fun c => do
        let col ← data.mapM fun x => Gen.Discretise.comparative_discretise x c mode tol
        pure (nanmean col)

end SV.Model.C08
