/-
  Support for the translated kernels of `scores.processing.discretise` (C08, C13): the Python objects a
  `mode` argument can be, with the four Python-level tests the code performs on it.  Core Lean only.
-/
import ScoresVerif.Model.Fl

namespace SV

/-- the six functions of Python's `operator` module the code mentions -/
inductive PyOp where
  | ge | gt | le | lt | eq | ne
  deriving DecidableEq, Repr, Inhabited

namespace PyOp

/-- `operator.xx(a, b)` element-wise on float arrays (numpy: every comparison with NaN is False, `!=` True) -/
def apply : PyOp → Fl → Fl → Bool
  | ge, a, b => Fl.ge a b
  | gt, a, b => Fl.gt a b
  | le, a, b => Fl.le a b
  | lt, a, b => Fl.lt a b
  | eq, a, b => Fl.beq a b
  | ne, a, b => Fl.bne a b

def name : PyOp → String
  | ge => "ge" | gt => "gt" | le => "le" | lt => "lt" | eq => "eq" | ne => "ne"

def ofName? : String → Option PyOp
  | "ge" => some ge | "gt" => some gt | "le" => some le | "lt" => some lt | "eq" => some eq | "ne" => some ne
  | _ => none

end PyOp

/-- the `mode` argument of `comparative_discretise`: a `str`, one of the `operator` functions, or any
    other object -/
inductive PyMode where
  | str (s : String)
  | op (o : PyOp)
  | other
  deriving DecidableEq, Repr, Inhabited

namespace PyMode

/-- `mode in D` for a dict `D` with string keys -/
def inKeys {α : Type} (m : PyMode) (tbl : List (String × α)) : Bool :=
  match m with
  | str s => (tbl.map Prod.fst).contains s
  | _ => false

/-- `D[mode]` (only evaluated after `mode in D`) -/
def lookup {α : Type} [Inhabited α] (m : PyMode) (tbl : List (String × α)) : α :=
  match m with
  | str s => (tbl.lookup s).getD default
  | _ => default

/-- `mode is operator.xx` (the `operator` functions are singletons) -/
def isOp (m : PyMode) (o : PyOp) : Bool :=
  match m with
  | op o' => decide (o' = o)
  | _ => false

/-- `mode in [operator.a, operator.b, …]` -/
def inOps (m : PyMode) (os : List PyOp) : Bool :=
  match m with
  | op o => os.contains o
  | _ => false

/-- `mode(a, b)` when `mode` is an operator function -/
def call (m : PyMode) (a b : Fl) : Bool :=
  match m with
  | op o => o.apply a b
  | _ => false

end PyMode

/-- `(x[1:] - x[:-1] >= 0).all()` — numpy: a NaN difference fails the test -/
def monotoneNondecr : List Fl → Bool
  | [] => true
  | [_] => true
  | a :: b :: rest => Fl.ge (Fl.sub b a) (Fl.fin 0) && monotoneNondecr (b :: rest)

end SV
