/-
  Labelled arrays (xarray semantics for equal coordinate sets): a set of named dimensions with
  sizes, a value for every assignment of indices to those names.  Broadcasting by name is pointwise
  application; reductions apply a list reduction to the fibre over each assignment of the kept dims.
  Core Lean only.
-/
import ScoresVerif.Model.Fl

namespace SV

structure Arr where
  dims : List String
  shape : List Nat
  data : Array Fl          -- row-major in the order of `dims`
  deriving Inhabited

abbrev Asg := List (String × Nat)

namespace Arr

def lookup (asg : Asg) (d : String) : Nat := (asg.lookup d).getD 0

/-- flat row-major index of an assignment (names not in `dims` are ignored) -/
def flatIndex : List String → List Nat → Asg → Nat
  | d :: ds, n :: ns, asg => lookup asg d * (ns.foldl (· * ·) 1) + flatIndex ds ns asg
  | _, _, _ => 0

def get (a : Arr) (asg : Asg) : Fl := a.data.getD (flatIndex a.dims a.shape asg) Fl.nan

/-- all assignments of `dims` (row-major order) -/
def assignments : List String → List Nat → List Asg
  | d :: ds, n :: ns => (List.range n).flatMap fun i => (assignments ds ns).map fun r => (d, i) :: r
  | _, _ => [[]]

def sizeOf (a : Arr) (d : String) : Nat :=
  match (a.dims.zip a.shape).lookup d with
  | some n => n
  | none => 1

/-- build an array from a function of the assignment -/
def ofFn (dims : List String) (shape : List Nat) (f : Asg → Fl) : Arr :=
  { dims := dims, shape := shape, data := ((assignments dims shape).map f).toArray }

/-- pointwise binary operation with broadcasting by dimension name:
    dims = a.dims followed by the dims of b that a lacks -/
def zipWith (f : Fl → Fl → Fl) (a b : Arr) : Arr :=
  let extra := b.dims.filter (fun d => !a.dims.contains d)
  let dims := a.dims ++ extra
  let shape := a.shape ++ extra.map b.sizeOf
  ofFn dims shape fun asg => f (a.get asg) (b.get asg)

def mul (a b : Arr) : Arr := zipWith Fl.mul a b

/-- reduce the dims in `R` with a list reduction applied to each fibre -/
def reduceOver (red : List Fl → Fl) (R : List String) (a : Arr) : Arr :=
  let keep := (a.dims.zip a.shape).filter (fun p => !R.contains p.1)
  let gone := (a.dims.zip a.shape).filter (fun p => R.contains p.1)
  let kd := keep.map (·.1); let ks := keep.map (·.2)
  let gd := gone.map (·.1); let gs := gone.map (·.2)
  ofFn kd ks fun asg => red ((assignments gd gs).map fun r => a.get (asg ++ r))

def nanmeanOver (R : List String) (a : Arr) : Arr := reduceOver nanmean R a
def nansumOver (R : List String) (a : Arr) : Arr := reduceOver nansum R a

end Arr

/-- the generic score combinator of C01–C03: per-case values `p` (the score's preserve-all output
    without weights), optional weights multiplied in by name, NaN-skipping mean over the reduced dims -/
def scoreEval (p : Arr) (w : Option Arr) (R : List String) : Arr :=
  let weighted := match w with
    | some w => Arr.mul p w
    | none => p
  Arr.nanmeanOver R weighted

end SV
