/-
  Fl — the number model: exact rationals plus the three IEEE-754 special values.

  This is IEEE arithmetic *minus rounding, overflow and signed zero* (DESIGN.md §3.1).
  Core Lean only (no Mathlib) so that the line-protocol driver starts fast.
-/

namespace SV

/-- absolute value on core `Rat` (no Mathlib notation here) -/
def rabs (q : Rat) : Rat := if q < 0 then -q else q

/-- Python / numpy `%` on finite numbers: result has the sign of the divisor -/
def rmod (a b : Rat) : Rat := a - b * ((a / b).floor : Rat)

inductive Fl where
  | fin (q : Rat)
  | pinf
  | ninf
  | nan
  deriving DecidableEq, Inhabited

namespace Fl

instance : OfNat Fl n := ⟨fin (n : Rat)⟩
instance : Coe Rat Fl := ⟨fin⟩

def ofInt (i : Int) : Fl := fin (i : Rat)
def ofNat (n : Nat) : Fl := fin (n : Rat)

def isNan : Fl → Bool
  | nan => true
  | _ => false

def isFinite : Fl → Bool
  | fin _ => true
  | _ => false

def notNan (x : Fl) : Bool := !x.isNan

def neg : Fl → Fl
  | fin q => fin (-q)
  | pinf => ninf
  | ninf => pinf
  | nan => nan

def add : Fl → Fl → Fl
  | nan, _ => nan
  | _, nan => nan
  | fin a, fin b => fin (a + b)
  | pinf, ninf => nan
  | ninf, pinf => nan
  | pinf, _ => pinf
  | _, pinf => pinf
  | ninf, _ => ninf
  | _, ninf => ninf

def sub (x y : Fl) : Fl := add x (neg y)

/-- sign of a rational as -1, 0, 1 -/
def rsign (q : Rat) : Int := if q < 0 then -1 else if q = 0 then 0 else 1

def mul : Fl → Fl → Fl
  | nan, _ => nan
  | _, nan => nan
  | fin a, fin b => fin (a * b)
  | fin a, pinf => if a = 0 then nan else if a < 0 then ninf else pinf
  | fin a, ninf => if a = 0 then nan else if a < 0 then pinf else ninf
  | pinf, fin b => if b = 0 then nan else if b < 0 then ninf else pinf
  | ninf, fin b => if b = 0 then nan else if b < 0 then pinf else ninf
  | pinf, pinf => pinf
  | ninf, ninf => pinf
  | pinf, ninf => ninf
  | ninf, pinf => ninf

/-- IEEE division without signed zero: `q/0 = ±inf` by the sign of `q`, `0/0 = nan`. -/
def div : Fl → Fl → Fl
  | nan, _ => nan
  | _, nan => nan
  | fin a, fin b =>
      if b = 0 then (if a = 0 then nan else if a < 0 then ninf else pinf) else fin (a / b)
  | fin _, pinf => fin 0
  | fin _, ninf => fin 0
  | pinf, fin b => if b < 0 then ninf else pinf
  | ninf, fin b => if b < 0 then pinf else ninf
  | pinf, pinf => nan
  | pinf, ninf => nan
  | ninf, pinf => nan
  | ninf, ninf => nan

def abs : Fl → Fl
  | fin q => fin (rabs q)
  | pinf => pinf
  | ninf => pinf
  | nan => nan

def powNat (x : Fl) : Nat → Fl
  | 0 => fin 1
  | n + 1 => mul (powNat x n) x

def sq (x : Fl) : Fl := mul x x

/-- comparisons are `false` whenever an operand is NaN (numpy semantics) -/
def lt : Fl → Fl → Bool
  | nan, _ => false
  | _, nan => false
  | fin a, fin b => decide (a < b)
  | ninf, ninf => false
  | ninf, _ => true
  | _, ninf => false
  | pinf, _ => false
  | _, pinf => true

def le : Fl → Fl → Bool
  | nan, _ => false
  | _, nan => false
  | fin a, fin b => decide (a ≤ b)
  | ninf, _ => true
  | _, pinf => true
  | pinf, _ => false
  | _, ninf => false

def gt (x y : Fl) : Bool := lt y x
def ge (x y : Fl) : Bool := le y x

def beq : Fl → Fl → Bool
  | fin a, fin b => decide (a = b)
  | pinf, pinf => true
  | ninf, ninf => true
  | _, _ => false

def bne (x y : Fl) : Bool := !(beq x y)   -- numpy: nan != nan is True

/-- numpy `minimum` / `maximum`: NaN-propagating -/
def min (x y : Fl) : Fl :=
  if x.isNan || y.isNan then nan else if le x y then x else y
def max (x y : Fl) : Fl :=
  if x.isNan || y.isNan then nan else if le x y then y else x

/-- numpy `fmax` / `fmin`: NaN-ignoring -/
def fmax (x y : Fl) : Fl :=
  if x.isNan then y else if y.isNan then x else if le x y then y else x
def fmin (x y : Fl) : Fl :=
  if x.isNan then y else if y.isNan then x else if le x y then x else y

/-- Python `%` with a finite positive modulus; anything non-finite gives NaN -/
def mod (x : Fl) (m : Rat) : Fl :=
  match x with
  | fin a => if m = 0 then nan else fin (rmod a m)
  | _ => nan

def ofBool (b : Bool) : Fl := if b then fin 1 else fin 0

/-- Python truthiness of a float: only zero is falsy (NaN and infinities are truthy) -/
def truthy (x : Fl) : Bool := !(beq x (fin 0))
/-- Python truthiness of `Optional[float]`: `None` and zero are falsy -/
def truthyOpt : Option Fl → Bool
  | none => false
  | some x => truthy x

/-- xarray `x.where(c, other)` -/
def whereB (x : Fl) (c : Bool) (other : Fl := nan) : Fl := if c then x else other

def fillna (x : Fl) (v : Fl) : Fl := if x.isNan then v else x
def combineFirst (x y : Fl) : Fl := if x.isNan then y else x

def clip (x lo hi : Fl) : Fl := min (max x lo) hi

instance : Add Fl := ⟨add⟩
instance : Sub Fl := ⟨sub⟩
instance : Mul Fl := ⟨mul⟩
instance : Div Fl := ⟨div⟩
instance : Neg Fl := ⟨neg⟩

def ratToString (q : Rat) : String :=
  if q.den = 1 then toString q.num else toString q.num ++ "/" ++ toString q.den

def toStr : Fl → String
  | fin q => ratToString q
  | pinf => "inf"
  | ninf => "-inf"
  | nan => "nan"

instance : ToString Fl := ⟨toStr⟩
instance : Repr Fl := ⟨fun x _ => Std.Format.text x.toStr⟩

end Fl

/-! ### NaN-skipping reductions over lists (xarray `mean/sum(skipna=True)`, `count`) -/

def valid (xs : List Fl) : List Fl := xs.filter Fl.notNan

def fsum (xs : List Fl) : Fl := xs.foldl Fl.add (Fl.fin 0)

/-- xarray `.sum(skipna=True)`: NaNs dropped, empty sum is 0 -/
def nansum (xs : List Fl) : Fl := fsum (valid xs)

def count (xs : List Fl) : Nat := (valid xs).length

/-- xarray `.mean(skipna=True)`: mean of non-NaN entries, NaN if there are none -/
def nanmean (xs : List Fl) : Fl :=
  let v := valid xs
  if v.isEmpty then Fl.nan else Fl.div (fsum v) (Fl.ofNat v.length)

/-- `.mean(skipna=False)` / numpy mean: any NaN gives NaN; empty gives NaN -/
def strictmean (xs : List Fl) : Fl :=
  if xs.isEmpty then Fl.nan else Fl.div (fsum xs) (Fl.ofNat xs.length)

end SV
