/-
  Model of `scores.processing.isoreg_impl` (C15).  Core Lean only.

  Faithful to the code, not to the textbook:
  * `validPairs`/`tidy`   = `_tidy_ir_inputs` (joint NaN removal on the flattened arrays, stable sort by
                            (fcst ascending, obs descending) = `np.lexsort((-obs, fcst))`).
  * `go`/`pav`            = `_contiguous_ir`: the sklearn-style in-place PAV.  The active block is compared with
                            the block to its right; if it is not strictly below, the whole following
                            non-increasing run (`takeRun`: continue while the value of the block absorbed last is
                            not below the next block's value) is pooled AT ONCE, the solver is called once on the
                            pooled observations, and the algorithm backtracks by one block.  Blocks that are never
                            pooled keep the raw observation as their value (the solver is NOT called on them).
                            This differs from the textbook stack PAV for solvers that are not means.
  * `functional="mean"`   : the code calls `scipy.optimize.isotonic_regression`; it is modelled by the same `pav`
                            with the weighted-mean solver (scipy is outside the proof, tied by correspondence).
  * `quantileSolver`      = `np.quantile(block, q)` (default linear interpolation).
  * `groups`              = `np.unique(..., return_counts=True)` on the sorted forecasts together with
                            `interp1d(fcst_tidied, y_out)(unique)`; for a 1-D linear `interp1d` scipy calls
                            `np.interp`, whose binary search returns the LAST index of a run of equal abscissae.
  * `interp`              = `regression_func` (np.interp inside the range, NaN outside).
  * `nanquantileCol`/`band` = `_nanquantile` / `_confidence_band` applied to a given bootstrap matrix.
  Not modelled: the bootstrap resampling itself (numpy global RNG), infinities, dtype checks.
-/
import ScoresVerif.Model.Fl

namespace SV.Model.Isotonic
open SV

/-- (observation, weight) -/
abbrev Item := Rat × Rat
/-- (forecast, observation, weight) -/
abbrev Pair := Rat × Rat × Rat
abbrev Solver := List Item → Rat

/-! ### `_tidy_ir_inputs` -/

def finOf : Fl × Fl × Fl → Option Pair
  | (Fl.fin a, Fl.fin b, Fl.fin c) => some (a, b, c)
  | _ => none

/-- zip the flattened arrays and drop every pair with a NaN in any slot -/
def validPairs (f o w : List Fl) : List Pair := (List.zip f (List.zip o w)).filterMap finOf

/-- sort key of `np.lexsort((-obs, fcst))`: forecast ascending, then observation descending -/
def keyLe (a b : Pair) : Bool := decide (a.1 < b.1) || (decide (a.1 = b.1) && decide (b.2.1 ≤ a.2.1))

def tidy (ps : List Pair) : List Pair := ps.mergeSort keyLe

/-! ### `_contiguous_ir` -/

/-- a block of pooled items (in input order) and its current value `y_out[index]` -/
structure Blk (α : Type) where
  items : List α
  val : Rat

section PAV
variable {α : Type}

/-- initial block of one observation: `y_out = y.copy()` — its value is the observation itself -/
def raw (obs : α → Rat) (x : α) : Blk α := ⟨[x], obs x⟩

/-- inner `while True` loop: having absorbed a block of value `prev`, keep absorbing while NOT `prev < next.val`;
    returns the absorbed observations and the untouched remainder -/
def takeRun (prev : Rat) : List (Blk α) → List α × List (Blk α)
  | [] => ([], [])
  | s :: rest =>
    if prev < s.val then ([], s :: rest)
    else ((s.items ++ (takeRun s.val rest).1), (takeRun s.val rest).2)

theorem takeRun_length (prev : Rat) (l : List (Blk α)) : (takeRun prev l).2.length ≤ l.length := by
  induction l generalizing prev with
  | nil => simp [takeRun]
  | cons s rest ih =>
    unfold takeRun
    split
    · simp
    · have := ih s.val
      simp only [List.length_cons]
      omega

/-- the pooled block: the active block, its right neighbour and the whole run absorbed after it; the solver is
    called once on the union -/
def pool (solve : List α → Rat) (cur n : Blk α) (rest : List (Blk α)) : Blk α :=
  ⟨cur.items ++ n.items ++ (takeRun n.val rest).1, solve (cur.items ++ n.items ++ (takeRun n.val rest).1)⟩

/-- outer loop.  `left` = finished blocks to the left of the active one (head = nearest), `cur` = active block,
    third argument = blocks to its right -/
def go (solve : List α → Rat) (left : List (Blk α)) (cur : Blk α) : List (Blk α) → List (Blk α)
  | [] => (cur :: left).reverse
  | n :: rest =>
    if cur.val < n.val then go solve (cur :: left) n rest          -- next block is higher: it becomes the active one
    else
      match left with
      | [] => go solve [] (pool solve cur n rest) (takeRun n.val rest).2        -- index = 0: restart from the same point
      | p :: l' => go solve l' p (pool solve cur n rest :: (takeRun n.val rest).2)   -- backtrack by one block
termination_by right => 3 * right.length + 2 * left.length
decreasing_by
  all_goals simp only [List.length_cons]
  · omega
  · have := takeRun_length n.val rest; omega
  · have := takeRun_length n.val rest; omega

/-- final blocks, in input order -/
def pav (obs : α → Rat) (solve : List α → Rat) (ys : List α) : List (Blk α) :=
  match ys.map (raw obs) with
  | [] => []
  | b :: bs => go solve [] b bs

/-- "Reconstruct the solution": every position of a block gets the block's value -/
def expand (bs : List (Blk α)) : List (α × Rat) := bs.flatMap fun b => b.items.map fun x => (x, b.val)

/-- the fitted sequence `y_out`, paired with the items -/
def fit (obs : α → Rat) (solve : List α → Rat) (ys : List α) : List (α × Rat) := expand (pav obs solve ys)

end PAV

/-! ### solvers -/

def wsum (l : List Item) : Rat := (l.map fun x => x.2 * x.1).sum
def wtot (l : List Item) : Rat := (l.map fun x => x.2).sum
/-- weighted mean (`functional="mean"`, and `np.average(obs, weights=w)` as a custom solver) -/
def wmean : Solver := fun l => wsum l / wtot l

def insertSorted (x : Rat) : List Rat → List Rat
  | [] => [x]
  | y :: ys => if x ≤ y then x :: y :: ys else y :: insertSorted x ys
def sortAsc (xs : List Rat) : List Rat := xs.foldr insertSorted []

/-- linear-interpolation quantile of an ascending list at level `q` (numpy `method="linear"`) -/
def quantileSorted (v : List Rat) (q : Rat) : Rat :=
  let pos : Rat := ((v.length : Int) - 1 : Int) * q
  let lo := pos.floor.toNat
  let hi := pos.ceil.toNat
  let a := v.getD lo 0
  let b := v.getD hi 0
  a + (b - a) * (pos - (lo : Int))

/-- `partial(np.quantile, q=alpha)`; weights are ignored (the code refuses weights here) -/
def quantileSolver (q : Rat) : Solver := fun l => quantileSorted (sortAsc (l.map (·.1))) q

def lmax : List Rat → Rat
  | [] => 0
  | x :: xs => xs.foldl (fun a b => if a ≤ b then b else a) x
def lmin : List Rat → Rat
  | [] => 0
  | x :: xs => xs.foldl (fun a b => if b ≤ a then b else a) x

/-- the named custom solvers the harness passes to `isotonic_fit(functional=None, solver=…)` -/
def namedSolver : String → Solver
  | "max" => fun l => lmax (l.map (·.1))
  | "min" => fun l => lmin (l.map (·.1))
  | "midrange" => fun l => (lmax (l.map (·.1)) + lmin (l.map (·.1))) / 2
  | "median" => quantileSolver (1/2)
  | "wmean" => wmean
  | "first" => fun l => (l.map (·.1)).headD 0
  | "last" => fun l => (l.map (·.1)).getLastD 0
  -- deliberately odd solvers: not monotone under pooling (still the identity on one observation)
  | "min_minus_len" => fun l => lmin (l.map (·.1)) - ((l.length : Int) - 1 : Int) / 4
  | "max_plus_len" => fun l => lmax (l.map (·.1)) + ((l.length : Int) - 1 : Int) / 2
  | "trimmed" => fun l =>
      let ys := l.map (·.1)
      if 2 < ys.length then (ys.sum - lmax ys - lmin ys) / ((ys.length : Int) - 2 : Int) else (lmax ys + lmin ys) / 2
  | _ => wmean

/-! ### reduction to the distinct forecasts -/

/-- run-length grouping of the (sorted forecast, fitted value) sequence: (forecast, count, value at the LAST
    position of the run) — `np.unique(return_counts=True)` and `np.interp` at a repeated abscissa -/
def groups : List (Rat × Rat) → List (Rat × Nat × Rat)
  | [] => []
  | (f, y) :: rest =>
    match groups rest with
    | [] => [(f, 1, y)]
    | (f', c, y') :: g => if f = f' then (f', c + 1, y') :: g else (f, 1, y) :: (f', c, y') :: g

structure Result where
  fcstSorted : List Rat
  counts : List Nat
  values : List Rat
  /-- tidied observations and the full fitted sequence (not returned by the code; used by theorems/harness) -/
  obsTidied : List Rat
  yOut : List Rat

def itemsOf (t : List Pair) : List Item := t.map fun p => (p.2.1, p.2.2)

/-- the observation of a pair -/
def obsOf (p : Pair) : Rat := p.2.1

/-- the fitted value attached to every tidied pair: PAV over the tidied pairs; the solver sees (obs, weight) -/
def fitPairs (solve : Solver) (t : List Pair) : List (Pair × Rat) := fit obsOf (fun l => solve (itemsOf l)) t

/-- `isotonic_fit` without bootstrapping; `none` = the `ValueError` for "no pairs left" -/
def isotonicFit (solve : Solver) (f o w : List Fl) : Option Result :=
  let t := tidy (validPairs f o w)
  if t.isEmpty then none else
    let z := fitPairs solve t
    let g := groups (z.map fun pv => (pv.1.1, pv.2))
    some ⟨g.map (·.1), g.map (·.2.1), g.map (·.2.2), t.map (·.2.1), z.map (·.2)⟩

/-! ### `regression_func` = `np.interp` with NaN outside the data range -/

/-- last index `j` with `xs[j] ≤ x` (xs ascending, `xs[0] ≤ x` assumed) -/
def lastLe (xs : List Rat) (x : Rat) : Nat := (xs.takeWhile fun a => decide (a ≤ x)).length - 1

def interp (xs ys : List Rat) (x : Fl) (single : Bool := false) : Fl :=
  match x with
  | Fl.fin x =>
    match xs.head?, xs.getLast? with
    | some x0, some xn =>
      if x < x0 || xn < x then Fl.nan else
        let j := lastLe xs x
        let xj := xs.getD j 0
        let yj := ys.getD j 0
        if j + 1 = xs.length then Fl.fin yj
        else if xj = x then Fl.fin yj
        else Fl.fin ((ys.getD (j+1) 0 - yj) / (xs.getD (j+1) 0 - xj) * (x - xj) + yj)
    | _, _ => Fl.nan
  -- numpy quirk: with exactly ONE data point `np.interp` answers a NaN query with that point's ordinate
  | Fl.nan => if single then (match ys.head? with | some y => Fl.fin y | none => Fl.nan) else Fl.nan
  | _ => Fl.nan

/-! ### `_nanquantile` and `_confidence_band` on a given bootstrap matrix (rows = samples) -/

def finVals (col : List Fl) : List Rat := col.filterMap fun | Fl.fin a => some a | _ => none

/-- numpy indexing of a sorted column, including the wrap-around of the index `-1` (empty column) -/
def atIdx (arr : List Rat) (i : Int) : Rat :=
  if i < 0 then arr.getD (arr.length - (-i).toNat) 0 else arr.getD i.toNat 0

/-- "Linear interpolation - take the fractional part of desired position":
    `floor_val` if floor = ceil, else `arr[floor]·(ceil − pos) + arr[ceil]·(pos − floor)` -/
def lerpAt (A : Int → Rat) (pos : Rat) : Rat :=
  if pos.floor = pos.ceil then A pos.floor
  else A pos.floor * ((pos.ceil : Rat) - pos) + A pos.ceil * (pos - (pos.floor : Rat))

/-- the column with NaNs replaced by the global maximum `m` -/
def fillCol (m : Rat) (col : List Fl) : List Rat := col.map fun | Fl.fin a => a | _ => m

/-- one column of `_nanquantile`: NaNs are replaced by the global maximum `mx` (if the matrix is not all-NaN),
    the column is sorted, and the order statistic at `(valid-1)*quant` is linearly interpolated -/
def nanquantileCol (mx : Option Rat) (col : List Fl) (quant : Rat) : Fl :=
  match mx with
  | none => Fl.nan
  | some m => Fl.fin (lerpAt (atIdx (sortAsc (fillCol m col))) ((((finVals col).length : Int) - 1 : Int) * quant))

def transpose (rows : List (List Fl)) (ncol : Nat) : List (List Fl) :=
  (List.range ncol).map fun j => rows.map fun r => r.getD j Fl.nan

/-- `_confidence_band`: (lower, upper) per column -/
def band (rows : List (List Fl)) (ncol : Nat) (confidence : Rat) (minNonNan : Nat) : List Fl × List Fl :=
  let sig := 1 - confidence
  let upperLevel := 1 - sig / 2
  let lowerLevel := sig / 2
  let cols := transpose rows ncol
  let allv := cols.flatMap finVals
  let mx : Option Rat := if allv.isEmpty then none else some (lmax allv)
  let mask (col : List Fl) (v : Fl) : Fl := if minNonNan ≤ (finVals col).length then v else Fl.nan
  (cols.map fun c => mask c (nanquantileCol mx c lowerLevel),
   cols.map fun c => mask c (nanquantileCol mx c upperLevel))

end SV.Model.Isotonic
