/-
  Model/Murphy — hand-written executable model of the parts of
  /repo/src/scores/continuous/murphy_impl.py that the translator does not take:

  * the frame of `murphy_score` around the translated kernels (`Gen/Murphy.lean`): dispatch on the
    functional, `broadcast_and_match_nan` on one cell, the combine block, `mean(dim=…)` (skipna) over cases;
  * `_check_murphy_inputs` (guards);
  * `murphy_thetas`: `_quantile_thetas`, `_huber_thetas`, `_expectile_thetas` (np.unique, `fcst − left_limit_delta`,
    `obs ± huber_a`, NaN dropped).

  Faithful to the code (same order of operations), core Lean only.
-/
import ScoresVerif.Model.Fl
import ScoresVerif.Gen.Murphy

namespace SV.Model.Murphy
open SV

inductive Functional where
  | quantile | huber | expectile
  deriving DecidableEq, Repr, Inhabited

/-- `VALID_SCORING_FUNC_NAMES` (the caller lower-cases first) -/
def Functional.ofString? : String → Option Functional
  | "quantile" => some .quantile
  | "huber" => some .huber
  | "expectile" => some .expectile
  | _ => none

/-- `exposed_functions()[f"_{functional}_elementary_score"]` — over component -/
def elemOver : Functional → (fcst obs theta alpha huber_a : Fl) → Fl
  | .quantile => Gen.Murphy.quantile_over
  | .huber => Gen.Murphy.huber_over
  | .expectile => Gen.Murphy.expectile_over

def elemUnder : Functional → (fcst obs theta alpha huber_a : Fl) → Fl
  | .quantile => Gen.Murphy.quantile_under
  | .huber => Gen.Murphy.huber_under
  | .expectile => Gen.Murphy.expectile_under

/-- `broadcast_and_match_nan(theta1, fcst, obs)` at one (theta, case) cell: a NaN in any of the three
    makes all three NaN -/
def matchNan (x theta fcst obs : Fl) : Fl :=
  if theta.isNan || fcst.isNan || obs.isNan then Fl.nan else x

structure Cell where
  total : Fl
  under : Fl
  over : Fl
  deriving Inhabited

/-- the three per-case, per-theta values of `murphy_score` before the mean -/
def cell (fn : Functional) (alpha huber_a fcst obs theta : Fl) : Cell :=
  let theta1 := matchNan theta theta fcst obs
  let fcst1 := matchNan fcst theta fcst obs
  let obs1 := matchNan obs theta fcst obs
  let over := elemOver fn fcst1 obs1 theta1 alpha huber_a
  let under := elemUnder fn fcst1 obs1 theta1 alpha huber_a
  { total := Gen.Murphy.combine_total over under fcst1,
    under := Gen.Murphy.combine_under over under fcst1,
    over := Gen.Murphy.combine_over over under fcst1 }

/-- `result.mean(dim=reduce_dims)` (skipna) over the cases of one preserved cell, at one theta -/
def meanCell (fn : Functional) (alpha huber_a : Fl) (cases : List (Fl × Fl)) (theta : Fl) : Cell :=
  let cs := cases.map fun c => cell fn alpha huber_a c.1 c.2 theta
  { total := nanmean (cs.map (·.total)), under := nanmean (cs.map (·.under)), over := nanmean (cs.map (·.over)) }

/-! ### `_check_murphy_inputs` -/

/-- `true` = the call raises ValueError.  `alpha`, `huber_a`, `left_limit_delta` are `None`-able. -/
def checkRaises (alpha : Option Fl) (functional : Option String) (huber_a : Option Fl)
    (left_limit_delta : Option Fl) : Bool :=
  (match alpha with
    | some a => !(Fl.lt (Fl.fin 0) a && Fl.lt a (Fl.fin 1))
    | none => false) ||
  (match functional with
    | some s => (Functional.ofString? s).isNone
    | none => false) ||
  (functional == some "huber" &&
    (match huber_a with
      | none => true
      | some a => Fl.le a (Fl.fin 0))) ||
  (match left_limit_delta with
    | some d => Fl.lt d (Fl.fin 0)
    | none => false)

/-! ### `murphy_thetas` -/

/-- insertion into a strictly increasing list, dropping an equal element -/
def insertSorted (x : Fl) : List Fl → List Fl
  | [] => [x]
  | y :: ys => if Fl.lt x y then x :: y :: ys else if Fl.beq x y then y :: ys else y :: insertSorted x ys

def sortDedup (xs : List Fl) : List Fl := xs.foldr insertSorted []

/-- `np.unique` on floats (numpy ≥ 1.21): the distinct non-NaN values increasing, then a single NaN if any -/
def npUnique (xs : List Fl) : List Fl :=
  sortDedup (xs.filter Fl.notNan) ++ (if xs.any Fl.isNan then [Fl.nan] else [])

/-- `result = u[~np.isnan(u)]` -/
def dropNan (xs : List Fl) : List Fl := xs.filter Fl.notNan

/-- `_quantile_thetas`: forecasts = one flattened array per source -/
def quantileThetas (forecasts : List (List Fl)) (obs : List Fl) : List Fl :=
  let ufcasts_and_uobs := npUnique (forecasts.flatten ++ obs)
  dropNan ufcasts_and_uobs

/-- `_huber_thetas` -/
def huberThetas (forecasts : List (List Fl)) (obs : List Fl) (huber_a left_limit_delta : Fl) : List Fl :=
  let uobs := npUnique obs
  let uobs_minus_a := uobs.map (fun x => Fl.sub x huber_a)
  let uobs_plus_a := uobs.map (fun x => Fl.add x huber_a)
  let ufcasts := npUnique forecasts.flatten
  let left_limit_points := ufcasts.map (fun x => Fl.sub x left_limit_delta)
  let ufcasts_and_uobs := npUnique (ufcasts ++ left_limit_points ++ uobs ++ uobs_minus_a ++ uobs_plus_a)
  dropNan ufcasts_and_uobs

/-- `_expectile_thetas` -/
def expectileThetas (forecasts : List (List Fl)) (obs : List Fl) (left_limit_delta : Fl) : List Fl :=
  let ufcasts := npUnique forecasts.flatten
  let left_limit_points := ufcasts.map (fun x => Fl.sub x left_limit_delta)
  let ufcasts_and_uobs := npUnique (ufcasts ++ left_limit_points ++ obs)
  dropNan ufcasts_and_uobs

/-- `murphy_thetas` after the guards: `left_limit_delta = None` is read as 0 for huber / expectile -/
def thetas (fn : Functional) (forecasts : List (List Fl)) (obs : List Fl) (huber_a : Fl)
    (left_limit_delta : Option Fl) : List Fl :=
  let d := left_limit_delta.getD (Fl.fin 0)
  match fn with
  | .quantile => quantileThetas forecasts obs
  | .huber => huberThetas forecasts obs huber_a d
  | .expectile => expectileThetas forecasts obs d

end SV.Model.Murphy
