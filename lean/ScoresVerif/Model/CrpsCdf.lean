/-
  Model of scores.probability.crps_impl: crps_cdf (whole-array pipeline), crps_cdf_exact,
  crps_cdf_trapz, crps_cdf_brier_decomposition, adjust_fcst_for_crps, crps_step_threshold_weight
  (C07, C17) — core Lean only.

  An array is a list of rows (one per combination of the non-threshold dimensions); `obs` and the
  threshold weight are already broadcast to the rows of the forecast by the harness (their dimensions
  are subsets of the forecast's).  The score is returned per row (the harness asks the code for
  `preserve_dims = all non-threshold dims`); the mean over rows is `nanmean` (xarray `.mean`).
-/
import ScoresVerif.Model.Cdf

namespace SV.Model.CrpsCdf
open SV SV.Fl SV.Model.Cdf

structure Weight where
  thr : List Rat
  rows : List (List Fl)

/-- `check_crps_cdf_inputs` (the parts that depend on values; dimension checks are C01/C20) -/
def checkInputs (fthr : List Rat) (w : Option Weight) (fillF fillW integ : String) : E Unit :=
  let fills := ["linear", "step", "forward", "backward"]
  if !(fills.contains fillF) then throw "ValueError"
  else if w.isSome && !(fills.contains fillW) then throw "ValueError"
  else if !(["exact", "trapz"].contains integ) then throw "ValueError"
  else if fthr.length < 2 then throw "ValueError"
  else if !(increasing fthr) then throw "ValueError"
  else match w with
    | none => pure ()
    | some w =>
      if !(increasing w.thr) then throw "ValueError"
      else if w.rows.any (fun r => r.any (fun x => Fl.lt x (fin 0))) then throw "ValueError"
      else pure ()

/-- `crps_cdf_reformat_inputs`: common grid = union of weight, forecast, ALL observation values and
    additional thresholds; observation CDF, filled forecast, filled weight on that grid -/
def reformat (fthr : List Rat) (frows : List (List Fl)) (obs : List Fl) (w : Option Weight)
    (additional : List Fl) (fillF fillW : String) :
    E (List Rat × List (List Fl) × List (List Fl) × List (List Fl)) := do
  let wthr := match w with | some w => w.thr | none => []
  let grid := sortU (wthr ++ fthr ++ finVals obs ++ finVals additional)
  let gridFl := grid.map Fl.fin
  let (_, ocdf) ← observedCdf obs (some gridFl) false 0
  let (_, f) ← addThresholds fthr frows gridFl fillF
  let wc ← match w with
    | none => pure (f.map fun r => r.map fun _ => one)
    | some w => do
        let (_, x) ← addThresholds w.thr w.rows gridFl fillW
        pure x
  pure (grid, f, ocdf, wc)

/-- `x.shift(threshold=1)` -/
def shift1 (xs : List Fl) : List Fl := (nan :: xs).take xs.length

def whereL (xs : List Fl) (m : List Bool) : List Fl := List.zipWith (fun x b => if b then x else nan) xs m

def inputsWithoutNan (f o w : List Fl) : Bool := !(anyNan f) && !(anyNan o) && !(anyNan w)

structure Parts where
  total : Fl
  under : Fl
  over : Fl

/-- `crps_cdf_exact` on one row (the exact-integration step; after repair c6c9dbb every piece integral is
    multiplied by the right-continuous weight on that piece, `piece_weight = threshold_weight.shift(1)`) -/
def exactRow (grid : List Rat) (f o w : List Fl) : Parts :=
  let ok := inputsWithoutNan f o w
  let pw := shift1 w
  let oOne := o.map (fun a => Fl.beq a one)
  let oZero := List.zipWith (fun a b => Fl.beq a (fin 0) || Fl.beq b (fin 0)) o (shift1 o)
  let over0 := integrateSqW grid (whereL (f.map (Fl.sub · one)) oOne) pw
  let over := Fl.whereB (Fl.whereB over0 (!over0.isNan) (fin 0)) ok
  let under0 := integrateSqW grid (whereL f oZero) pw
  let under := Fl.whereB (Fl.whereB under0 (!under0.isNan) (fin 0)) ok
  { total := Fl.add over under, under := under, over := over }

/-- `DataArray.integrate` (xarray `trapz`): `Σ dx * 0.5 * (y[i] + y[i-1])`, NaN-propagating -/
def trapz : List Rat → List Fl → Fl
  | x0 :: x1 :: xs, y0 :: y1 :: ys =>
      Fl.add (Fl.mul (Fl.mul (fin (x1 - x0)) (fin (1/2))) (Fl.add y1 y0)) (trapz (x1 :: xs) (y1 :: ys))
  | _, _ => fin 0

def zip3 (g : Fl → Fl → Fl → Fl) : List Fl → List Fl → List Fl → List Fl
  | a :: as, b :: bs, c :: cs => g a b c :: zip3 g as bs cs
  | _, _, _ => []

/-- `crps_cdf_trapz` on one row -/
def trapzRow (grid : List Rat) (f o w : List Fl) : Parts :=
  let ok := inputsWithoutNan f o w
  let integrand := zip3 (fun f o w => Fl.mul w (Fl.powNat (Fl.sub f o) 2)) f o w
  let total := Fl.whereB (trapz grid integrand) ok
  let overI := zip3 (fun f o w => Fl.mul (Fl.mul o w) (Fl.powNat (Fl.sub f o) 2)) f o w
  let over := Fl.whereB (trapz grid overI) ok
  { total := total, under := Fl.sub total over, over := over }

structure Cfg where
  propagate : Bool := true
  fillF : String := "linear"
  fillW : String := "forward"
  integ : String := "exact"

/-- `crps_cdf(fcst, obs, threshold_weight=, additional_thresholds=, propagate_nans=, fcst_fill_method=,
    threshold_weight_fill_method=, integration_method=, preserve_dims=<all non-threshold dims>,
    include_components=True)`: one `Parts` per row -/
def crpsCdf (fthr : List Rat) (frows : List (List Fl)) (obs : List Fl) (w : Option Weight)
    (additional : List Fl) (cfg : Cfg) : E (List Parts) := do
  checkInputs fthr w cfg.fillF cfg.fillW cfg.integ
  let frows := if cfg.propagate then frows.map propagateNan else frows
  let w := if cfg.propagate then w.map (fun w => { w with rows := w.rows.map propagateNan }) else w
  let (grid, f, o, wc) ← reformat fthr frows obs w additional cfg.fillF cfg.fillW
  let rec go : List (List Fl) → List (List Fl) → List (List Fl) → List Parts
    | f :: fs, o :: os, w :: ws =>
        (if cfg.integ = "exact" then exactRow grid f o w else trapzRow grid f o w) :: go fs os ws
    | _, _, _ => []
  pure (go f o wc)

/-- per-threshold Brier decomposition of one row: (total, under, over) lists along the grid -/
def brierRow (f o : List Fl) : List Fl × List Fl × List Fl :=
  let b := List.zipWith (fun f o => Fl.powNat (Fl.sub f o) 2) f o
  let over := List.zipWith (fun b o => Fl.whereB (Fl.whereB b (Fl.beq o one) (fin 0)) (!b.isNan)) b o
  let under := List.zipWith (fun b o => Fl.whereB (Fl.whereB b (Fl.beq o (fin 0)) (fin 0)) (!b.isNan)) b o
  (List.zipWith Fl.add over under, under, over)

/-- `crps_cdf_brier_decomposition(fcst, obs, additional_thresholds=, fcst_fill_method=,
    preserve_dims=<all non-threshold dims>)`: grid and per row the three lists -/
def brierDecomposition (fthr : List Rat) (frows : List (List Fl)) (obs : List Fl) (additional : List Fl)
    (fillF : String) : E (List Rat × List (List Fl × List Fl × List Fl)) := do
  if !(["linear", "step", "forward", "backward"].contains fillF) then throw "ValueError"
  if !(increasing fthr) then throw "ValueError"
  let frows := frows.map propagateNan
  let (grid, f, o, _) ← reformat fthr frows obs none additional fillF "forward"
  pure (grid, List.zipWith brierRow f o)

/-- column-wise `.mean(dims)` (NaN-skipping) of per-row lists -/
def colMeans : List (List Fl) → List Fl
  | [] => []
  | rows@(r :: _) => (List.range r.length).map fun j => nanmean (rows.map fun r => r.getD j nan)

/-! ## adjust_fcst_for_crps -/

/-- `idxmax("cdf_type")` over (original, upper, lower): first maximum, NaN skipped; `none` when all NaN -/
def idxmax3 (a b c : Fl) : Option Nat :=
  let cand := [(0, a), (1, b), (2, c)].filter (fun p => !(p.2.isNan))
  match cand with
  | [] => none
  | p :: ps => some (ps.foldl (fun best q => if Fl.lt best.2 q.2 then q else best) p).1

/-- `adjust_fcst_for_crps(fcst, dim, obs, decreasing_tolerance=, additional_thresholds=,
    fcst_fill_method=, integration_method=)` -/
def adjustFcst (fthr : List Rat) (frows : List (List Fl)) (obs : List Fl) (tol : Rat)
    (additional : List Fl) (fillF integ : String) : E (List (List Fl)) := do
  if tol < 0 then throw "ValueError"
  let frows := frows.map propagateNan
  let dec ← decreasingCdfs fthr frows tol
  if !(dec.any id) then pure frows else
  let (_, env) := cdfEnvelope fthr frows
  let cfg : Cfg := { propagate := true, fillF := fillF, fillW := "forward", integ := integ }
  let c0 ← crpsCdf fthr (env.map (·.1)) obs none additional cfg
  let c1 ← crpsCdf fthr (env.map (·.2.1)) obs none additional cfg
  let c2 ← crpsCdf fthr (env.map (·.2.2)) obs none additional cfg
  let rec go : List (List Fl) → List Bool → List (List Fl × List Fl × List Fl) → List Parts → List Parts → List Parts → List (List Fl)
    | r :: rs, d :: ds, e :: es, a :: as, b :: bs, c :: cs =>
        (if d then
          match idxmax3 a.total b.total c.total with
          | some 0 => e.1
          | some 1 => e.2.1
          | some _ => e.2.2
          | none => r
         else r) :: go rs ds es as bs cs
    | _, _, _, _, _, _ => []
  pure (go frows dec env c0 c1 c2)

/-- `crps_step_threshold_weight(step_points, dim, threshold_values=, steppoints_in_thresholds=,
    steppoint_precision=, weight_upper=)` -/
def stepWeight (points : List Fl) (thresholdValues : Option (List Fl)) (incl : Bool) (prec : Rat)
    (upper : Bool) : E (List Rat × List (List Fl)) := do
  let (g, rows) ← observedCdf points thresholdValues incl prec
  pure (g, if upper then rows else rows.map fun r => r.map (Fl.sub one ·))

end SV.Model.CrpsCdf
