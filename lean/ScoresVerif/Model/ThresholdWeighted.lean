/-
  Model/ThresholdWeighted — hand model of `threshold_weighted_impl._auxiliary_funcs` (C10): end-point validation and the
  replacement of infinite end points by finite ones beyond the data range.  Core Lean only.

  All arrays are given per forecast case (end points already broadcast against the forecast/observation
  arrays): `(a >= b).any()`, `.min()`, `.max()` of a broadcast array equal those of the original one.
  Each end point is converted to a DataArray on its own (`if isinstance(e, (float, int)): e = xr.DataArray(e)`,
  upstream fix 59f483d / F16), so scalar and array end points may be mixed freely; the conversion itself has no
  pointwise content and is covered by the differential check (mixed tuples are generated).
  Faithful to the code: xarray `.min()/.max()` skip NaN; Python's builtin `min(p, q, r)` / `max` keep the first
  argument unless a later one compares `<` / `>` (so a NaN in first position is kept); `e.where(e > -inf, r)`
  replaces every entry for which the comparison is False (including NaN).
-/
import ScoresVerif.Model.Fl

namespace SV.Model.TW
open SV SV.Fl

/-- xarray `.min()` (skipna=True): minimum of the non-NaN entries, NaN when there is none -/
def nanMin (xs : List Fl) : Fl :=
  match valid xs with
  | [] => nan
  | v :: vs => vs.foldl (fun m t => if Fl.lt t m then t else m) v

def nanMax (xs : List Fl) : Fl :=
  match valid xs with
  | [] => nan
  | v :: vs => vs.foldl (fun m t => if Fl.gt t m then t else m) v

/-- Python builtin `min(x0, x1, ...)` on floats / 0-d arrays -/
def pyMin : List Fl → Fl
  | [] => nan
  | v :: vs => vs.foldl (fun m t => if Fl.lt t m then t else m) v

def pyMax : List Fl → Fl
  | [] => nan
  | v :: vs => vs.foldl (fun m t => if Fl.gt t m then t else m) v

def isInf : Fl → Bool
  | pinf => true
  | ninf => true
  | _ => false

def any2 (p : Fl → Fl → Bool) (xs ys : List Fl) : Bool := (List.zip xs ys).any fun st => p st.1 st.2
def all2 (p : Fl → Fl → Bool) (xs ys : List Fl) : Bool := (List.zip xs ys).all fun st => p st.1 st.2

/-- rectangular branch: `Except.error "ValueError"` or the finite end points (a', b') per case -/
def auxRect (fcst obs a b : List Fl) : Except String (List Fl × List Fl) :=
  if any2 Fl.ge a b then .error "ValueError" else
    let ra := Fl.sub (pyMin [nanMin fcst, nanMin obs, nanMin b]) (fin 1)
    let a' := a.map fun s => whereB s (Fl.gt s ninf) ra
    let rb := Fl.add (pyMax [nanMax fcst, nanMax obs, nanMax a']) (fin 1)
    let b' := b.map fun t => whereB t (Fl.lt t pinf) rb
    .ok (a', b')

structure Trap where
  a : List Fl
  b : List Fl
  c : List Fl
  d : List Fl

/-- trapezoidal branch: (a, d) = interval_where_positive, (b, c) = interval_where_one -/
def auxTrap (fcst obs a b c d : List Fl) : Except String Trap :=
  if any2 Fl.ge b c then .error "ValueError"
  else if any2 (fun s t => isInf s && Fl.bne s t) a b || any2 (fun s t => isInf t && Fl.bne s t) c d then .error "ValueError"
  else if !(all2 (fun s t => Fl.lt s t || (Fl.beq s t && isInf s)) a b) then .error "ValueError"
  else if !(all2 (fun s t => Fl.lt s t || (Fl.beq s t && isInf s)) c d) then .error "ValueError"
  else
    let rb := Fl.sub (pyMin [nanMin fcst, nanMin obs, nanMin c]) (fin 1)
    let b' := b.map fun t => whereB t (Fl.gt t ninf) rb
    let ra := Fl.sub (nanMin b') (fin 1)
    let a' := a.map fun t => whereB t (Fl.gt t ninf) ra
    let rc := Fl.add (pyMax [nanMax fcst, nanMax obs, nanMax b']) (fin 1)
    let c' := c.map fun t => whereB t (Fl.lt t pinf) rc
    let rd := Fl.add (nanMax c') (fin 1)
    let d' := d.map fun t => whereB t (Fl.lt t pinf) rd
    .ok ⟨a', b', c', d'⟩

end SV.Model.TW
