/-
  Model of scores.processing.cdf.cdf_functions (C17, used by C07) — core Lean only.

  A CDF is a `List Fl` of ordinates over a `List Rat` of thresholds (same length, strictly increasing
  unless said otherwise).  A whole array is a list of such rows ("cases": every combination of the
  non-threshold dimensions, flattened by the harness).  The definitions follow the code statement by
  statement: same order of operations, same clipping, same NaN handling.  xarray calls
  (`interpolate_na`, `ffill`, `bfill`, `sortby`, `shift`, `sum(skipna, min_count)`, `count`) are
  modelled by their documented meaning and tied to the library by the correspondence check only.
-/
import ScoresVerif.Model.Fl

namespace SV.Model.Cdf
open SV SV.Fl

abbrev E := Except String

/-! ## round_values -/

/-- numpy `rint` / `round`: nearest integer, ties to even -/
def rint (q : Rat) : Int :=
  let f := q.floor
  let r := q - (f : Rat)
  if r < 1/2 then f else if 1/2 < r then f + 1 else (if f % 2 = 0 then f else f + 1)

/-- `np.round(x, decimals=d)` in exact arithmetic -/
def roundDec (q : Rat) (d : Nat) : Rat := ((rint (q * (10 : Rat) ^ d) : Int) : Rat) / (10 : Rat) ^ d

/-- `(x / p).round() * p` then `.round(decimals)`; `p = 0` means no rounding -/
def roundQ (q prec : Rat) (decpl : Nat := 7) : Rat :=
  if 0 < prec then roundDec (((rint (q / prec) : Int) : Rat) * prec) decpl else q

def roundFl (x : Fl) (prec : Rat) (decpl : Nat := 7) : Fl :=
  match x with
  | fin q => fin (roundQ q prec decpl)
  | y => y        -- nan, ±inf are fixed points of `/p`, `round`, `*p` for p > 0

/-- `round_values(array, rounding_precision, final_round_decpl)` -/
def roundValues (xs : List Fl) (prec : Rat) (decpl : Nat := 7) : E (List Fl) :=
  if prec < 0 then throw "ValueError" else pure (xs.map (roundFl · prec decpl))

/-! ## propagate_nan -/

def anyNan (xs : List Fl) : Bool := xs.any Fl.isNan

/-- one row: any NaN along the threshold axis makes the whole row NaN -/
def propagateNan (xs : List Fl) : List Fl := if anyNan xs then xs.map (fun _ => nan) else xs

/-! ## sorted unique union of thresholds (`np.sort(pd.unique(...))`) -/

def insertU (t : Rat) : List Rat → List Rat
  | [] => [t]
  | x :: xs => if t < x then t :: x :: xs else if t = x then x :: xs else x :: insertU t xs

def sortU (ts : List Rat) : List Rat := ts.foldr insertU []

/-- finite values of a list (NaN removed; the harness never sends ±inf as a threshold) -/
def finVals : List Fl → List Rat
  | [] => []
  | fin q :: xs => q :: finVals xs
  | _ :: xs => finVals xs

/-! ## observed_cdf -/

/-- one observation against a grid: `(threshold >= obs).astype(float).where(~isnan(obs))` -/
def observedRow (grid : List Rat) (obs : Fl) : List Fl :=
  grid.map fun t => if obs.isNan then nan else ofBool (ge (fin t) obs)

/-- `observed_cdf(obs, dim, threshold_values, include_obs_in_thresholds, precision)`:
    returns the threshold grid and one row per observation -/
def observedCdf (obs : List Fl) (thresholdValues : Option (List Fl)) (includeObs : Bool) (prec : Rat) :
    E (List Rat × List (List Fl)) :=
  if prec < 0 then throw "ValueError" else
  let tv := (thresholdValues.getD [])
  if obs.all Fl.isNan && (thresholdValues.isNone || tv.all Fl.isNan) then throw "ValueError" else
  let obs' := if 0 < prec then obs.map (roundFl · prec) else obs
  let ths := (if includeObs then finVals obs' else []) ++ finVals tv
  let grid := sortU ths
  pure (grid, obs'.map (observedRow grid))

/-! ## integrate_square_piecewise_linear -/

/-- the code's piece formula for `x[i-1] ≤ t ≤ x[i]`: `m²Δ³/3 + m·b·Δ² + b²Δ` with
    `m = Δy/Δx`, `b = y[i-1]` (written with `powNat` exactly as the translator emits `**`) -/
def piece (dx yprev y : Fl) : Fl :=
  let dy := Fl.sub y yprev
  let m := Fl.div dy dx
  let b := yprev
  Fl.add (Fl.add (Fl.div (Fl.mul (Fl.powNat m 2) (Fl.powNat dx 3)) (fin 3))
                 (Fl.mul (Fl.mul m b) (Fl.powNat dx 2)))
         (Fl.mul (Fl.powNat b 2) dx)

/-- pieces over consecutive pairs (the first position of the code's arrays is NaN by `shift`
    and is dropped by the NaN-skipping sum, so it is not listed) -/
def pieces : List Rat → List Fl → List Fl
  | x0 :: x1 :: xs, y0 :: y1 :: ys => piece (fin (x1 - x0)) y0 y1 :: pieces (x1 :: xs) (y1 :: ys)
  | _, _ => []

/-- `.sum(dim, min_count=1)`: NaN-skipping sum, NaN when there is no non-NaN term -/
def sumMin1 (xs : List Fl) : Fl := if (valid xs).isEmpty then nan else nansum xs

def integrateSq (thr : List Rat) (ys : List Fl) : Fl := sumMin1 (pieces thr ys)

/-- pieces multiplied by `piece_weight` (aligned with `ys`; the factor of the piece `x[i-1] ≤ t ≤ x[i]`
    is the entry at `x[i]`) -/
def piecesW : List Rat → List Fl → List Fl → List Fl
  | x0 :: x1 :: xs, y0 :: y1 :: ys, _ :: p1 :: ps =>
      Fl.mul (piece (fin (x1 - x0)) y0 y1) p1 :: piecesW (x1 :: xs) (y1 :: ys) (p1 :: ps)
  | _, _, _ => []

/-- `integrate_square_piecewise_linear(function_values, dim, piece_weight=pw)` on one row -/
def integrateSqW (thr : List Rat) (ys pw : List Fl) : Fl := sumMin1 (piecesW thr ys pw)

/-! ## fill_cdf / add_thresholds -/

def ffillFrom : Fl → List Fl → List Fl
  | _, [] => []
  | last, x :: xs => if x.isNan then last :: ffillFrom last xs else x :: ffillFrom x xs

/-- xarray `ffill`: every NaN takes the last non-NaN value before it (leading NaNs stay) -/
def ffill (xs : List Fl) : List Fl := ffillFrom nan xs
/-- xarray `bfill` -/
def bfill (xs : List Fl) : List Fl := (ffill xs.reverse).reverse

/-- the non-NaN knots of a row -/
def knots : List Rat → List Fl → List (Rat × Rat)
  | t :: ts, fin q :: xs => (t, q) :: knots ts xs
  | _ :: ts, _ :: xs => knots ts xs
  | _, _ => []

/-- scipy `interp1d(kind="linear", fill_value="extrapolate")`: `slope * (t - x_lo) + y_lo` -/
def lineAt (x0 y0 x1 y1 t : Rat) : Rat := (y1 - y0) / (x1 - x0) * (t - x0) + y0

/-- value at `t` of the piecewise-linear function through `ks` (≥ 2 knots), extended linearly by its
    first / last segment -/
def interpAt : List (Rat × Rat) → Rat → Fl
  | [(x0, y0), (x1, y1)], t => fin (lineAt x0 y0 x1 y1 t)
  | (x0, y0) :: (x1, y1) :: k :: rest, t =>
      if t ≤ x1 then fin (lineAt x0 y0 x1 y1 t) else interpAt ((x1, y1) :: k :: rest) t
  | _, _ => nan

/-- `interpolate_na(dim, method="linear", fill_value="extrapolate")` on one row: only NaN positions
    are replaced; rows with no NaN or with fewer than two non-NaN values are returned unchanged -/
def interpolateNa (thr : List Rat) (xs : List Fl) : List Fl :=
  let ks := knots thr xs
  if ks.length < 2 then xs else
  (thr.zip xs).map fun (t, x) => if x.isNan then interpAt ks t else x

def allNan (xs : List Fl) : List Fl := xs.map (fun _ => nan)

/-- the filling part of `fill_cdf` on one row (after the guards) -/
def fillRow (thr : List Rat) (xs : List Fl) (method : String) (minNonnan : Int) : List Fl :=
  let enough : Bool := decide (minNonnan ≤ (count xs : Int))
  let c := if enough then xs else allNan xs
  if method = "linear" then (interpolateNa thr c).map (fun v => Fl.min (Fl.max v (fin 0)) (fin 1))
  else if method = "step" then
    let s := (ffill c).map (fun v => Fl.fillna v (fin 0))
    if enough then s else allNan s
  else if method = "forward" then bfill (ffill c)
  else if method = "backward" then ffill (bfill c)
  else c

/-- `cdf_values_within_bounds` on the whole array -/
def withinBounds (rows : List (List Fl)) : Bool :=
  let v := valid rows.flatten
  v.isEmpty || (v.all (fun x => ge x (fin 0)) && v.all (fun x => le x (fin 1)))

/-- `fill_cdf(cdf, threshold_dim, method, min_nonnan)` with its guards, whole array -/
def fillCdf (thr : List Rat) (rows : List (List Fl)) (method : String) (minNonnan : Int) : E (List (List Fl)) :=
  if !(["linear", "step", "forward", "backward"].contains method) then throw "ValueError"
  else if !(withinBounds rows) then throw "ValueError"
  else if minNonnan < 1 && method != "linear" then throw "ValueError"
  else if minNonnan < 2 && method == "linear" then throw "ValueError"
  else pure (rows.map (fillRow thr · method minNonnan))

/-- value of a row at threshold `t`, NaN when `t` is not one of its thresholds (xarray outer join) -/
def lookupAt : List Rat → List Fl → Rat → Fl
  | x :: xs, v :: vs, t => if x = t then v else lookupAt xs vs t
  | _, _, _ => nan

/-- `add_thresholds(cdf, dim, new_thresholds, fill_method, min_nonnan)` -/
def addThresholds (thr : List Rat) (rows : List (List Fl)) (new : List Fl) (method : String)
    (minNonnan : Int := 2) : E (List Rat × List (List Fl)) :=
  let grid := sortU (thr ++ finVals new)
  let re := rows.map fun r => grid.map (lookupAt thr r)
  if method = "none" then pure (grid, re)
  else do
    let f ← fillCdf grid re method minNonnan
    pure (grid, f)

/-! ## decreasing_cdfs -/

/-- `cdf - cdf.shift(1)` without its leading NaN -/
def diffs : List Fl → List Fl
  | x0 :: x1 :: xs => Fl.sub x1 x0 :: diffs (x1 :: xs)
  | _ => []

/-- `diff.clip(max=0).sum(dim) < -tolerance` on one row -/
def decreasingRow (xs : List Fl) (tol : Rat) : Bool :=
  Fl.lt (nansum ((diffs xs).map (fun d => Fl.min d (fin 0)))) (Fl.neg (fin tol))

def increasing : List Rat → Bool
  | x0 :: x1 :: xs => decide (x0 < x1) && increasing (x1 :: xs)
  | _ => true

/-- `decreasing_cdfs(cdf, dim, tolerance)` with the guards of `check_nan_decreasing_inputs` -/
def decreasingCdfs (thr : List Rat) (rows : List (List Fl)) (tol : Rat) : E (List Bool) :=
  if tol < 0 then throw "ValueError"
  else if !(increasing thr) then throw "ValueError"
  else if !(rows.all fun r => r.all Fl.isNan || r.all Fl.notNan) then throw "ValueError"
  else pure (rows.map (decreasingRow · tol))

/-! ## cdf_envelope -/

/-- `np.fmax.accumulate` (running NaN-ignoring maximum); `accFmax nan xs` is the accumulate of `xs` -/
def accFmax : Fl → List Fl → List Fl
  | _, [] => []
  | a, x :: xs => Fl.fmax a x :: accFmax (Fl.fmax a x) xs

def runFmax (xs : List Fl) : List Fl := accFmax nan xs

/-- `np.where(~np.isnan(cdf), v, nan)` -/
def maskLike (xs vs : List Fl) : List Fl := List.zipWith (fun x v => if x.isNan then nan else v) xs vs

def one : Fl := fin 1

def upperRow (xs : List Fl) : List Fl := maskLike xs (runFmax xs)

/-- `flip(1 - fmax.accumulate(1 - flip(cdf)))` -/
def lowerRow (xs : List Fl) : List Fl :=
  maskLike xs ((runFmax (xs.reverse.map (Fl.sub one ·))).map (Fl.sub one ·)).reverse

/-- insertion sort of (threshold, column index) pairs: `cdf.sortby(threshold_dim)` (stable) -/
def insertBy (p : Rat × Nat) : List (Rat × Nat) → List (Rat × Nat)
  | [] => [p]
  | q :: qs => if p.1 ≤ q.1 then p :: q :: qs else q :: insertBy p qs

def sortPerm (thr : List Rat) : List (Rat × Nat) :=
  (thr.zipIdx).foldr insertBy []

def applyPerm (perm : List (Rat × Nat)) (xs : List Fl) : List Fl := perm.map fun p => xs.getD p.2 nan

/-- `cdf_envelope(cdf, dim)`: sorted thresholds and per row (original, upper, lower) -/
def cdfEnvelope (thr : List Rat) (rows : List (List Fl)) : List Rat × List (List Fl × List Fl × List Fl) :=
  let perm := sortPerm thr
  (perm.map (·.1), rows.map fun r => let s := applyPerm perm r; (s, upperRow s, lowerRow s))

end SV.Model.Cdf
