/-
  Model of src/scores/probability/crps_impl.py — `crps_for_ensemble`, `tw_crps_for_ensemble`,
  `tail_tw_crps_for_ensemble`, `interval_tw_crps_for_ensemble` — and of the per-case formula of
  src/scores/probability/brier_impl.py `brier_score_for_ensemble` (used as integrand in C06).

  One forecast case = the list of ensemble members `xs : List Fl` (NaN = missing member) and one
  observation `y : Fl`.  The transcription follows the code line by line (same order of operations,
  same `.where`, same NaN handling); it is faithful to the code, not to what the code "should" do.
  Core Lean only.
-/
import ScoresVerif.Model.Fl

namespace SV.Model.CrpsEns
open SV

inductive Method where
  | ecdf
  | fair
  deriving DecidableEq, Repr

/-- `abs(fcst - fcst.isel(member=i)).sum(dim=member)` for the member value `xi`
    (xarray `sum` skips NaN; an all-NaN sum is 0) -/
def spreadRow (xs : List Fl) (xi : Fl) : Fl :=
  nansum (xs.map fun xj => Fl.abs (Fl.sub xj xi))

/-- `fcst_spread_term = 0; for i in range(M): fcst_spread_term += spreadRow i` -/
def spreadRaw (xs : List Fl) : Fl :=
  fsum (xs.map (spreadRow xs))

/-- `ens_count = fcst.count(member)` (an integer array) -/
def ensCount (xs : List Fl) : Int := (count xs : Nat)

/-- the integer denominator `2 * ens_count**2` ('ecdf') or `2 * ens_count * (ens_count - 1)` ('fair') -/
def spreadDen (m : Method) (xs : List Fl) : Int :=
  match m with
  | .ecdf => 2 * (ensCount xs) ^ 2
  | .fair => 2 * ensCount xs * (ensCount xs - 1)

/-- `fcst_spread_term / denominator` (0/0 = NaN when no member, or one member with 'fair') -/
def spreadTerm (m : Method) (xs : List Fl) : Fl :=
  Fl.div (spreadRaw xs) (Fl.ofInt (spreadDen m xs))

/-- `fcst_obs_term = abs(fcst - obs).mean(dim=member)` (skipna mean) -/
def fcstObsTerm (xs : List Fl) (y : Fl) : Fl :=
  nanmean (xs.map fun x => Fl.abs (Fl.sub x y))

/-- `result = fcst_obs_term - fcst_spread_term` -/
def total (m : Method) (xs : List Fl) (y : Fl) : Fl :=
  Fl.sub (fcstObsTerm xs y) (spreadTerm m xs)

/-- `mask = ~isnan(fcst) & ~isnan(obs)` -/
def mask (x y : Fl) : Bool := x.notNan && y.notNan

/-- `(obs - fcst).where(obs > fcst, 0).where(mask).mean(dim=member)` -/
def under (xs : List Fl) (y : Fl) : Fl :=
  nanmean (xs.map fun x => Fl.whereB (Fl.whereB (Fl.sub y x) (Fl.gt y x) (Fl.fin 0)) (mask x y))

/-- `(fcst - obs).where(fcst > obs, 0).where(mask).mean(dim=member)` -/
def over (xs : List Fl) (y : Fl) : Fl :=
  nanmean (xs.map fun x => Fl.whereB (Fl.whereB (Fl.sub x y) (Fl.gt x y) (Fl.fin 0)) (mask x y))

/-- `fcst_spread_term.where(~isnan(fcst_obs_term))` -/
def spreadComp (m : Method) (xs : List Fl) (y : Fl) : Fl :=
  Fl.whereB (spreadTerm m xs) (!(fcstObsTerm xs y).isNan)

structure Components where
  total : Fl
  under : Fl
  over : Fl
  spread : Fl

/-- the four entries of the `component` dimension (include_components=True) -/
def components (m : Method) (xs : List Fl) (y : Fl) : Components :=
  { total := total m xs y, under := under xs y, over := over xs y, spread := spreadComp m xs y }

/-! ### chaining functions of the threshold-weighted variants -/

/-- `np.maximum(x, threshold)` (tail = "upper") -/
def chainUpper (t x : Fl) : Fl := Fl.max x t
/-- `np.minimum(x, threshold)` (tail = "lower") -/
def chainLower (t x : Fl) : Fl := Fl.min x t
/-- `np.minimum(np.maximum(x, lower), upper)` -/
def chainInterval (a b x : Fl) : Fl := Fl.min (Fl.max x a) b

/-- `tw_crps_for_ensemble`: the chaining function is applied to obs and to every member, then
    `crps_for_ensemble` -/
def tw (v : Fl → Fl) (m : Method) (xs : List Fl) (y : Fl) : Components :=
  components m (xs.map v) (v y)

def tailUpper (t : Fl) := tw (chainUpper t)
def tailLower (t : Fl) := tw (chainLower t)
def interval (a b : Fl) := tw (chainInterval a b)

/-- guard of `interval_tw_crps_for_ensemble`: raise iff some `lower >= upper` (NaN compares false) -/
def intervalGuardRaises (bounds : List (Fl × Fl)) : Bool :=
  bounds.any fun ab => Fl.ge ab.1 ab.2

/-! ### weights and the mean over cases: `apply_weights(result, weights).mean(dim=dims_for_mean)` -/

/-- `values * weights` (no weights: unchanged) -/
def applyWeights (vals : List Fl) (w : Option (List Fl)) : List Fl :=
  match w with
  | none => vals
  | some ws => List.zipWith Fl.mul vals ws

def reduceMean (vals : List Fl) (w : Option (List Fl)) : Fl := nanmean (applyWeights vals w)

/-! ### per-case formula of `brier_score_for_ensemble` (operator.ge) -/

/-- `member_event_count = (fcst >= threshold).sum(member)` -/
def eventCount (xs : List Fl) (θ : Fl) : Int := ((xs.filter fun x => Fl.ge x θ).length : Nat)

/-- `binary_discretise(obs, threshold, ge)`: NaN where obs or the threshold is NaN -/
def binaryObs (y θ : Fl) : Fl :=
  Fl.whereB (Fl.ofBool (Fl.ge y θ)) (y.notNan && θ.notNan)

def brierEns (fair : Bool) (xs : List Fl) (y θ : Fl) : Fl :=
  let i := eventCount xs θ
  let m := ensCount xs
  let r := Fl.sq (Fl.sub (Fl.div (Fl.ofInt i) (Fl.ofInt m)) (binaryObs y θ))
  if fair then
    let corr := Fl.div (Fl.ofInt (i * (m - i))) (Fl.ofInt (m ^ 2 * (m - 1)))
    Fl.sub r (Fl.fillna corr (Fl.fin 0))
  else r

end SV.Model.CrpsEns
