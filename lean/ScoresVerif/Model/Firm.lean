/-
  Model/Firm — hand-written executable model of the code around the translated kernels of `Gen/Firm.lean` (C12):

  * `firm`: the loop `weight * _single_category_score(...)`, Python `sum(...)` (starts from the int 0), mean(skipna) over
    cases (weights=None), `_check_firm_inputs`;
  * `_risk_matrix_score`: the sum over (probability threshold, severity) cells with the translated `skipna` flag, the
    value checks of `_check_risk_matrix_score_inputs`;
  * `matrix_weights_to_array` (orientation: `np.flip(np.sort(coords))`) and `_scaling_to_weight_matrix` (Appendix B
    algorithm, literally, including `lowest_prob_index = max_level + 1`).

  Core Lean only.
-/
import ScoresVerif.Model.Fl
import ScoresVerif.Gen.Firm

namespace SV.Model.Firm
open SV

/-! ### firm -/

abbrev Comp := (fcst obs risk_parameter categorical_threshold discount_distance : Fl) → String → Fl

/-- `sum(total_score)` at one case: `0 + w₁·s₁ + w₂·s₂ + …` for one data variable; `tw` = (threshold, weight) at this case -/
def firmCase (comp : Comp) (f o alpha d : Fl) (mode : String) (tw : List (Fl × Fl)) : Fl :=
  tw.foldl (fun acc p => Fl.add acc (Fl.mul p.2 (comp f o alpha p.1 d mode))) (Fl.fin 0)

structure Out where
  firm : Fl
  over : Fl
  under : Fl
  deriving Inhabited

def firmCaseAll (f o alpha d : Fl) (mode : String) (tw : List (Fl × Fl)) : Out :=
  { firm := firmCase Gen.Firm.firm_score f o alpha d mode tw,
    over := firmCase Gen.Firm.over_penalty f o alpha d mode tw,
    under := firmCase Gen.Firm.under_penalty f o alpha d mode tw }

/-- mean(skipna) over the cases of one preserved cell; each case carries its own (threshold, weight) list -/
def firmMean (alpha d : Fl) (mode : String) (cases : List (Fl × Fl × List (Fl × Fl))) : Out :=
  let outs := cases.map fun c => firmCaseAll c.1 c.2.1 alpha d mode c.2.2
  { firm := nanmean (outs.map (·.firm)), over := nanmean (outs.map (·.over)), under := nanmean (outs.map (·.under)) }

/-- `_check_firm_inputs`: `true` = ValueError.  `weights` = every value of every threshold weight (scalars and array entries) -/
def firmRaises (nThresholds nWeights : Nat) (alpha : Fl) (weights : List Fl) (d : Fl) (mode : String) : Bool :=
  decide (nThresholds < 1) || !(nThresholds == nWeights) || (Fl.le alpha (Fl.fin 0) || Fl.ge alpha (Fl.fin 1)) ||
  weights.any (fun w => Fl.le w (Fl.fin 0)) || Fl.lt d (Fl.fin 0) || !(mode == "upper" || mode == "lower")

/-! ### risk matrix score -/

/-- one forecast case: `fo` = (fcst, obs) per severity category, `W` = per probability threshold `p` the weights per
    severity category (same order as `fo`) -/
def rmCase (mode : String) (fo : List (Fl × Fl)) (W : List (Fl × List Fl)) : Fl :=
  let cells := W.flatMap fun pw => (fo.zip pw.2).map fun c => Gen.Firm.rm_cell c.1.1 c.1.2 pw.1 c.2 mode
  if Gen.Firm.rm_sum_skipna then nansum cells else fsum cells

/-- value checks of `_check_risk_matrix_score_inputs` (dimension checks are not modelled): `true` = ValueError -/
def rmRaises (fcsts obs probs : List Fl) (mode : String) : Bool :=
  let fv := valid fcsts
  fv.any (fun x => Fl.gt x (Fl.fin 1)) || fv.any (fun x => Fl.lt x (Fl.fin 0)) ||
  (valid obs).any (fun x => !(Fl.beq x (Fl.fin 0) || Fl.beq x (Fl.fin 1))) ||
  probs.any (fun p => Fl.le p (Fl.fin 0)) || probs.any (fun p => Fl.ge p (Fl.fin 1)) ||
  !(mode == "upper" || mode == "lower")

/-! ### matrix_weights_to_array -/

def insAsc (x : Rat) : List Rat → List Rat
  | [] => [x]
  | y :: ys => if x ≤ y then x :: y :: ys else y :: insAsc x ys

/-- `np.sort` -/
def sortAsc (xs : List Rat) : List Rat := xs.foldr insAsc []

structure WeightArray where
  probCoords : List Rat          -- coordinate of row i
  sevCoords : List String        -- coordinate of column j
  data : List (List Fl)
  deriving Inhabited

/-- `matrix_weights_to_array`: `none` = ValueError -/
def matrixWeightsToArray (M : List (List Fl)) (sev : List String) (probs : List Rat) : Option WeightArray :=
  if M.length ≠ probs.length then none
  else if M.any (fun row => row.length ≠ sev.length) then none
  else if probs.any (fun p => 1 ≤ p) || probs.any (fun p => p ≤ 0) then none
  else some { probCoords := (sortAsc probs).reverse, sevCoords := sev, data := M }

def idxOf? [BEq α] (x : α) : List α → Option Nat
  | [] => none
  | y :: ys => if x == y then some 0 else (idxOf? x ys).map (· + 1)

/-- the weight stored for probability threshold `p` and severity label `s` -/
def WeightArray.lookup (wa : WeightArray) (p : Rat) (s : String) : Option Fl := do
  let i ← idxOf? p wa.probCoords
  let j ← idxOf? s wa.sevCoords
  let row ← wa.data[i]?
  row[j]?

/-! ### _scaling_to_weight_matrix -/

def modifyAt (l : List α) (i : Nat) (f : α → α) : List α :=
  match l, i with
  | [], _ => []
  | x :: xs, 0 => f x :: xs
  | x :: xs, i + 1 => x :: modifyAt xs i f

/-- `np.argmax(col >= level)`: first index where true, 0 when nowhere -/
def argmaxGe (col : List Nat) (level : Nat) : Nat :=
  match col.findIdx? (fun v => decide (level ≤ v)) with
  | some i => i
  | none => 0

/-- inner loop over the columns of one level: state = (wts, lowest_prob_index) -/
def levelStep (S : List (List Nat)) (w : List Fl) (level : Nat) (st : List (List Fl) × Nat) (c0 : Nat) :
    List (List Fl) × Nat :=
  let column := c0 + 1
  let the_column := S.map (fun row => row.getD column 0)
  let column_rev := the_column.reverse
  let prob_index := argmaxGe column_rev level
  let prob_index := if prob_index ≥ st.2 then 0 else prob_index
  if prob_index > 0 then
    (modifyAt st.1 (prob_index - 1) (fun row => modifyAt row (column - 1) (fun x => Fl.add x (w.getD (level - 1) Fl.nan))),
      prob_index)
  else st

def scalingToWeightMatrix (S : List (List Nat)) (w : List Fl) : List (List Fl) :=
  let maxS := S.flatten.foldl Nat.max 0
  let max_level := Nat.max maxS w.length
  let n_sev := (S.headD []).length - 1
  let n_prob := S.length - 1
  let wts0 : List (List Fl) := List.replicate n_prob (List.replicate n_sev (Fl.fin 0))
  let wts := (List.range max_level).foldl (fun wts l0 =>
      ((List.range n_sev).foldl (levelStep S w (l0 + 1)) (wts, max_level + 1)).1) wts0
  wts.reverse

/-- value checks of `weights_from_warning_scaling` on the scaling matrix and the weights: `true` = ValueError -/
def scalingRaises (S : List (List Int)) (w : List Fl) (nProbCoords nSevCoords : Nat) (probs : List Fl) : Bool :=
  let flat := S.flatten
  let rows := S.length
  let cols := (S.headD []).length
  let diffsRow := S.flatMap fun r => (r.zip (r.drop 1)).map fun p => p.2 - p.1
  let diffsCol := (S.zip (S.drop 1)).flatMap fun p => (p.1.zip p.2).map fun q => q.2 - q.1
  flat.any (· < 0) || S.any (fun r => r.headD 0 ≠ 0) || (S.getLastD []).any (· ≠ 0) ||
  diffsRow.any (· < 0) || diffsCol.any (· > 0) ||
  decide (rows - 1 ≠ nProbCoords) || decide (cols - 1 ≠ nSevCoords) ||
  decide ((w.length : Int) < flat.foldl max 0) ||
  probs.any (fun p => Fl.ge p (Fl.fin 1)) || probs.any (fun p => Fl.le p (Fl.fin 0)) ||
  w.any (fun x => Fl.le x (Fl.fin 0))

/-- `weights_from_warning_scaling` after its input checks: the Appendix-B weight matrix labelled by `matrix_weights_to_array`
    (rows ↔ probability thresholds in decreasing order, columns ↔ the severity labels in the supplied order) -/
def weightsFromWarningScaling (S : List (List Nat)) (w : List Fl) (sev : List String) (probs : List Rat) : Option WeightArray :=
  matrixWeightsToArray (scalingToWeightMatrix S w) sev probs

end SV.Model.Firm
