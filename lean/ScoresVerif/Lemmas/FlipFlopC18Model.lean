/-
  C18 — the executable model `sectorNp false` on a NaN-free column equals the rational mirror `sectorQ d k`
  (`Lemmas/FlipFlopC18Defs.lean`) on the sorted residues d, where k is the index `argmax` returns — an index of a
  maximal element of `diffsQ d`.
-/
import ScoresVerif.Lemmas.FlipFlopC18Defs

namespace SV.Model.FlipFlop
open SV SV.Fl SV.Spec.FlipFlop

/-! ### step 1: `% 360` -/

theorem mod360_fin (a : Rat) : Fl.mod (fin a) 360 = fin (rmod a 360) := by
  simp [Fl.mod]

theorem map_mod360_fin (xs : List Rat) :
    (xs.map fin).map (fun v => Fl.mod v 360) = (xs.map fun v => rmod v 360).map fin := by
  simp only [List.map_map]
  apply List.map_congr_left
  intro a _
  simp [Function.comp, mod360_fin]

/-! ### step 2: the sort -/

theorem sortLe_fin (a b : Rat) : sortLe (fin a) (fin b) = decide (a ≤ b) := by
  simp [sortLe]

theorem insertSorted_fin (a : Rat) : ∀ l : List Rat,
    insertSorted (fin a) (l.map fin) = (List.orderedInsert (· ≤ ·) a l).map fin
  | [] => rfl
  | b :: t => by
    have ih := insertSorted_fin a t
    simp only [List.map_cons, insertSorted, sortLe_fin, List.orderedInsert_cons, decide_eq_true_eq]
    split_ifs with h
    · simp
    · simp [ih]

theorem sortFl_fin : ∀ qs : List Rat, sortFl (qs.map fin) = (qs.insertionSort (· ≤ ·)).map fin
  | [] => rfl
  | a :: t => by
    simp only [List.map_cons, sortFl, List.insertionSort_cons, sortFl_fin t, insertSorted_fin]

/-! ### step 3: the roll -/

theorem rollBack_fin (d : List Rat) : rollBack (d.map fin) = (d.rotate 1).map fin := by
  cases d with
  | nil => rfl
  | cons a t => simp [rollBack, List.rotate_cons_succ]

/-! ### step 4: folded differences -/

theorem foldDiff_fin (x : Rat) : foldDiff (fin x) = fin (foldQ x) := by
  unfold foldDiff foldQ c180 c360
  simp only [isNan_fin, Bool.false_eq_true, if_false, gt_fin, decide_eq_true_eq, sub_fin]
  split_ifs <;> rfl

theorem diffs_fin (d : List Rat) :
    (List.zipWith (fun a b => Fl.abs (Fl.sub a b)) (d.map fin) ((d.rotate 1).map fin)).map foldDiff
      = (diffsQ d).map fin := by
  unfold diffsQ
  rw [List.zipWith_map_left, List.zipWith_map_right, List.map_zipWith, List.map_zipWith]
  congr 1
  funext a b
  simp [foldDiff_fin]

theorem length_diffsQ (d : List Rat) : (diffsQ d).length = d.length := by
  simp [diffsQ]

/-! ### step 5: argmax -/

theorem argmaxFrom_fin : ∀ (t : List Rat) (i best : Nat) (bv : Rat),
    (argmaxFrom (t.map fin) i best (fin bv) = best ∧ ∀ x ∈ t, x ≤ bv) ∨
    ∃ j, j < t.length ∧ argmaxFrom (t.map fin) i best (fin bv) = i + j ∧ bv ≤ t.getD j 0 ∧ ∀ x ∈ t, x ≤ t.getD j 0
  | [], i, best, bv => Or.inl ⟨rfl, by simp⟩
  | d :: t, i, best, bv => by
    simp only [List.map_cons, argmaxFrom, isNan_fin, Bool.false_eq_true, if_false, lt_fin, decide_eq_true_eq]
    split_ifs with h
    · rcases argmaxFrom_fin t (i + 1) i d with ⟨h1, h2⟩ | ⟨j, hj, h1, h2, h3⟩
      · refine Or.inr ⟨0, by simp, by simpa using h1, by simpa using h.le, ?_⟩
        intro x hx
        rcases List.mem_cons.mp hx with rfl | hx
        · simp
        · simpa using h2 x hx
      · refine Or.inr ⟨j + 1, by simpa using hj, by rw [h1]; omega, ?_, ?_⟩
        · simpa using le_trans h.le h2
        · intro x hx
          rcases List.mem_cons.mp hx with rfl | hx
          · simpa using h2
          · simpa using h3 x hx
    · have h' : d ≤ bv := not_lt.mp h
      rcases argmaxFrom_fin t (i + 1) best bv with ⟨h1, h2⟩ | ⟨j, hj, h1, h2, h3⟩
      · refine Or.inl ⟨h1, ?_⟩
        intro x hx
        rcases List.mem_cons.mp hx with rfl | hx
        · exact h'
        · exact h2 x hx
      · refine Or.inr ⟨j + 1, by simpa using hj, by rw [h1]; omega, by simpa using h2, ?_⟩
        intro x hx
        rcases List.mem_cons.mp hx with rfl | hx
        · simpa using le_trans h' h2
        · simpa using h3 x hx

theorem argmax_fin (L : List Rat) (hne : L ≠ []) :
    argmax (L.map fin) < L.length ∧ ∀ x ∈ L, x ≤ L.getD (argmax (L.map fin)) 0 := by
  obtain ⟨a, t, rfl⟩ := List.exists_cons_of_ne_nil hne
  simp only [List.map_cons, argmax]
  rcases argmaxFrom_fin t 1 0 a with ⟨h1, h2⟩ | ⟨j, hj, h1, h2, h3⟩
  · rw [h1]
    refine ⟨by simp, ?_⟩
    intro x hx
    rcases List.mem_cons.mp hx with rfl | hx
    · simp
    · simpa using h2 x hx
  · rw [h1, Nat.add_comm 1 j]
    refine ⟨by simpa using hj, ?_⟩
    intro x hx
    rcases List.mem_cons.mp hx with rfl | hx
    · simpa using h2
    · simpa using h3 x hx

/-! ### step 6: the pieces after the argmax -/

theorem getD_map_fin (d : List Rat) (k : Nat) (hk : k < d.length) :
    (d.map fin).getD k Fl.nan = fin (d.getD k 0) := by
  simp [List.getD_eq_getElem?_getD, List.getElem?_map, List.getElem?_eq_getElem hk]

theorem rotated_fin (d : List Rat) (f : Rat) :
    ((d.rotate 1).map fin).map (fun v => Fl.mod (Fl.sub v (fin f)) 360)
      = ((d.rotate 1).map fun v => rmod (v - f) 360).map fin := by
  simp only [List.map_map]
  apply List.map_congr_left
  intro a _
  simp [Function.comp, mod360_fin]

theorem length_rotatedQ (d : List Rat) (k : Nat) : (rotatedQ d k).length = d.length := by
  simp [rotatedQ]

theorem maxStrict_fin' (l : List Rat) (hne : l ≠ []) : maxStrict (l.map fin) = fin (maxL l) := by
  obtain ⟨a, t, rfl⟩ := List.exists_cons_of_ne_nil hne
  exact maxStrict_fin a t

theorem nUnique_fin (l : List Rat) :
    ((l.map fin).filter fun x => Fl.bne x (fin 0)).length = (l.filter fun x => decide (x ≠ 0)).length := by
  rw [List.filter_map, List.length_map]
  congr 2
  funext x
  simp [Fl.bne, Function.comp]

/-! ### step 7: assembly -/

/-- the part of `sectorNp false` after `% 360` and the sort -/
def sectorPost (data : List Fl) : Fl :=
  let rolled := rollBack data
  let diffs := (List.zipWith (fun a b => Fl.abs (Fl.sub a b)) data rolled).map foldDiff
  let k := argmax diffs
  let first := data.getD k Fl.nan
  let rotated := rolled.map fun v => Fl.mod (Fl.sub v first) 360
  let second := rotated.getD k Fl.nan
  let maxRot := maxStrict rotated
  let result := if Fl.beq maxRot second then second else Fl.sub c360 second
  let nUnique := (diffs.filter fun d => Fl.bne d (Fl.fin 0)).length
  if nUnique ≤ 2 then maxStrict diffs else result

theorem sectorNp_false_eq (xs : List Fl) :
    sectorNp false xs = sectorPost (sortFl (xs.map fun v => Fl.mod v 360)) := rfl

theorem sectorPost_fin (d : List Rat) (hne : d ≠ []) :
    sectorPost (d.map fin) = fin (sectorQ d (argmax ((diffsQ d).map fin))) := by
  have hdq : diffsQ d ≠ [] := by
    intro h; apply hne; apply List.eq_nil_of_length_eq_zero; rw [← length_diffsQ, h]; rfl
  obtain ⟨hk, -⟩ := argmax_fin (diffsQ d) hdq
  rw [length_diffsQ] at hk
  have hrq : rotatedQ d (argmax ((diffsQ d).map fin)) ≠ [] := by
    intro h; apply hne; apply List.eq_nil_of_length_eq_zero
    rw [← length_rotatedQ d (argmax ((diffsQ d).map fin)), h]; rfl
  unfold sectorPost
  simp only [rollBack_fin, diffs_fin]
  rw [getD_map_fin d _ hk, rotated_fin]
  change (if _ then _ else
      if (maxStrict ((rotatedQ d (argmax ((diffsQ d).map fin))).map fin)).beq
          (((rotatedQ d (argmax ((diffsQ d).map fin))).map fin).getD (argmax ((diffsQ d).map fin)) nan) = true
        then ((rotatedQ d (argmax ((diffsQ d).map fin))).map fin).getD (argmax ((diffsQ d).map fin)) nan
        else c360.sub (((rotatedQ d (argmax ((diffsQ d).map fin))).map fin).getD (argmax ((diffsQ d).map fin)) nan)) = _
  rw [getD_map_fin _ _ (by rw [length_rotatedQ]; exact hk), maxStrict_fin' _ hrq, maxStrict_fin' _ hdq, nUnique_fin]
  unfold sectorQ c360
  simp only [beq_fin, decide_eq_true_eq, sub_fin]
  split_ifs <;> rfl

theorem sectorNp_fin (xs : List Rat) (hne : xs ≠ []) :
    ∃ k, k < (sortedResidues xs).length ∧
      (∀ x ∈ diffsQ (sortedResidues xs), x ≤ (diffsQ (sortedResidues xs)).getD k 0) ∧
      sectorNp false (xs.map fin) = fin (sectorQ (sortedResidues xs) k) := by
  have hd : sortedResidues xs ≠ [] := by
    intro h; apply hne; apply List.eq_nil_of_length_eq_zero
    have := congrArg List.length h
    simpa [sortedResidues] using this
  have hdq : diffsQ (sortedResidues xs) ≠ [] := by
    intro h; apply hd; apply List.eq_nil_of_length_eq_zero; rw [← length_diffsQ, h]; rfl
  obtain ⟨hk, hmax⟩ := argmax_fin (diffsQ (sortedResidues xs)) hdq
  refine ⟨argmax ((diffsQ (sortedResidues xs)).map fin), by rwa [length_diffsQ] at hk, hmax, ?_⟩
  rw [sectorNp_false_eq, map_mod360_fin, sortFl_fin]
  exact sectorPost_fin (sortedResidues xs) hd

/-- a concrete non-trivial instance of the hypothesis, and the value both sides take on it -/
example : ([350, 10, 20] : List Rat) ≠ [] ∧ sectorNp false (([350, 10, 20] : List Rat).map fin) = fin 30 ∧
    sectorQ (sortedResidues [350, 10, 20]) 1 = 30 := by decide +kernel

end SV.Model.FlipFlop
