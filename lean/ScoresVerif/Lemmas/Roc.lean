/-
  Helper lemmas for C14: the `Fl` model of POD / POFD on valid pairs is weighted counting; monotonicity; trapezoid area.
-/
import ScoresVerif.Model.Roc
import ScoresVerif.Spec.Roc
import ScoresVerif.Lemmas.CrpsEns

namespace SV.Lemmas.Roc
open SV SV.Model.Roc SV.Spec.Roc
open SV.Lemmas.CrpsEns (nansum_map_fin)

/-- the model triple of a valid pair -/
def ofCase (c : Case) : Triple := ⟨Fl.fin c.f, Fl.fin (if c.ev then 1 else 0), some (Fl.fin c.w)⟩
/-- the same without a weights array (`weights=None`) -/
def ofCaseNoW (c : Case) : Triple := ⟨Fl.fin c.f, Fl.fin (if c.ev then 1 else 0), none⟩

theorem disc_fin (f t : Rat) : disc (Fl.fin f) (Fl.fin t) = Fl.fin (if t ≤ f then 1 else 0) := by
  unfold disc
  by_cases h : t ≤ f <;> simp [Fl.whereB, Fl.ofBool, h]

/-! ## weighted sums of the four maps -/

theorem sum_ite_eq_wsumIf (p : Case → Bool) : ∀ (cs : List Case),
    (cs.map fun c => if p c then c.w else 0).sum = wsumIf p cs
  | [] => by simp [wsumIf]
  | c :: cs => by
    have ih := sum_ite_eq_wsumIf p cs
    unfold wsumIf at ih ⊢
    by_cases h : p c <;> simp [List.filter_cons, h, ih]

theorem cell_term (cell : Fl → Fl → Fl) (q : Case → Bool) (t : Rat)
    (hcell : ∀ c : Case, cell (Fl.fin (if t ≤ c.f then 1 else 0)) (Fl.fin (if c.ev then 1 else 0))
      = Fl.fin (if q c then 1 else 0)) (cs : List Case) :
    wsum cell (cs.map ofCase) (Fl.fin t) = Fl.fin (wsumIf q cs) := by
  unfold wsum
  rw [List.map_map]
  have : ((fun p : Triple => applyW (cell (disc p.f (Fl.fin t)) p.o) p.w) ∘ ofCase)
      = Fl.fin ∘ (fun c : Case => if q c then c.w else 0) := by
    funext c
    simp only [Function.comp, ofCase, disc_fin, hcell, applyW]
    by_cases h : q c <;> simp [h]
  rw [this, ← List.map_map, nansum_map_fin, sum_ite_eq_wsumIf]

theorem cell_term_noW (cell : Fl → Fl → Fl) (q : Case → Bool) (t : Rat)
    (hcell : ∀ c : Case, cell (Fl.fin (if t ≤ c.f then 1 else 0)) (Fl.fin (if c.ev then 1 else 0))
      = Fl.fin (if q c then 1 else 0)) (cs : List Case) (hw : ∀ c ∈ cs, c.w = 1) :
    wsum cell (cs.map ofCaseNoW) (Fl.fin t) = Fl.fin (wsumIf q cs) := by
  unfold wsum
  rw [List.map_map]
  have : ∀ c ∈ cs, ((fun p : Triple => applyW (cell (disc p.f (Fl.fin t)) p.o) p.w) ∘ ofCaseNoW) c
      = (Fl.fin ∘ (fun c : Case => if q c then c.w else 0)) c := by
    intro c hc
    simp only [Function.comp, ofCaseNoW, disc_fin, hcell, applyW, hw c hc]
  rw [List.map_congr_left this, ← List.map_map, nansum_map_fin, sum_ite_eq_wsumIf]

theorem hit_cell (t : Rat) (c : Case) : hit (Fl.fin (if t ≤ c.f then 1 else 0)) (Fl.fin (if c.ev then 1 else 0))
    = Fl.fin (if (c.ev && decide (t ≤ c.f)) then 1 else 0) := by
  by_cases h1 : t ≤ c.f <;> cases h2 : c.ev <;> simp [hit, bothValid, Fl.whereB, Fl.ofBool, h1]
theorem miss_cell (t : Rat) (c : Case) : miss (Fl.fin (if t ≤ c.f then 1 else 0)) (Fl.fin (if c.ev then 1 else 0))
    = Fl.fin (if (c.ev && !decide (t ≤ c.f)) then 1 else 0) := by
  by_cases h1 : t ≤ c.f <;> cases h2 : c.ev <;> simp [miss, bothValid, Fl.whereB, Fl.ofBool, h1]
theorem fa_cell (t : Rat) (c : Case) : falseAlarm (Fl.fin (if t ≤ c.f then 1 else 0)) (Fl.fin (if c.ev then 1 else 0))
    = Fl.fin (if (!c.ev && decide (t ≤ c.f)) then 1 else 0) := by
  by_cases h1 : t ≤ c.f <;> cases h2 : c.ev <;> simp [falseAlarm, bothValid, Fl.whereB, Fl.ofBool, h1]
theorem cn_cell (t : Rat) (c : Case) : correctNeg (Fl.fin (if t ≤ c.f then 1 else 0)) (Fl.fin (if c.ev then 1 else 0))
    = Fl.fin (if (!c.ev && !decide (t ≤ c.f)) then 1 else 0) := by
  by_cases h1 : t ≤ c.f <;> cases h2 : c.ev <;> simp [correctNeg, bothValid, Fl.whereB, Fl.ofBool, h1]

theorem wsumIf_split (p q : Case → Bool) : ∀ (cs : List Case),
    wsumIf (fun c => p c && q c) cs + wsumIf (fun c => p c && !q c) cs = wsumIf p cs
  | [] => by simp [wsumIf]
  | c :: cs => by
    have ih := wsumIf_split p q cs
    unfold wsumIf at ih ⊢
    cases hp : p c <;> cases hq : q c <;> simp [List.filter_cons, hp, hq] <;> linarith

theorem pod_ofCase (cs : List Case) (t : Rat) : Model.Roc.pod (cs.map ofCase) (Fl.fin t) = Spec.Roc.pod cs t := by
  unfold Model.Roc.pod Spec.Roc.pod
  rw [cell_term hit _ t (hit_cell t), cell_term miss _ t (miss_cell t), Fl.add_fin]
  unfold hitsW eventsW
  rw [wsumIf_split (fun c => c.ev) (fun c => decide (t ≤ c.f))]

theorem pofd_ofCase (cs : List Case) (t : Rat) : Model.Roc.pofd (cs.map ofCase) (Fl.fin t) = Spec.Roc.pofd cs t := by
  unfold Model.Roc.pofd Spec.Roc.pofd
  rw [cell_term falseAlarm _ t (fa_cell t), cell_term correctNeg _ t (cn_cell t), Fl.add_fin]
  unfold falseAlarmsW nonEventsW
  rw [wsumIf_split (fun c => !c.ev) (fun c => decide (t ≤ c.f))]

theorem pod_ofCaseNoW (cs : List Case) (hw : ∀ c ∈ cs, c.w = 1) (t : Rat) :
    Model.Roc.pod (cs.map ofCaseNoW) (Fl.fin t) = Spec.Roc.pod cs t := by
  unfold Model.Roc.pod Spec.Roc.pod
  rw [cell_term_noW hit _ t (hit_cell t) cs hw, cell_term_noW miss _ t (miss_cell t) cs hw, Fl.add_fin]
  unfold hitsW eventsW
  rw [wsumIf_split (fun c => c.ev) (fun c => decide (t ≤ c.f))]

theorem pofd_ofCaseNoW (cs : List Case) (hw : ∀ c ∈ cs, c.w = 1) (t : Rat) :
    Model.Roc.pofd (cs.map ofCaseNoW) (Fl.fin t) = Spec.Roc.pofd cs t := by
  unfold Model.Roc.pofd Spec.Roc.pofd
  rw [cell_term_noW falseAlarm _ t (fa_cell t) cs hw, cell_term_noW correctNeg _ t (cn_cell t) cs hw, Fl.add_fin]
  unfold falseAlarmsW nonEventsW
  rw [wsumIf_split (fun c => !c.ev) (fun c => decide (t ≤ c.f))]

/-! ## monotonicity and range -/

def Nonneg (cs : List Case) : Prop := ∀ c ∈ cs, 0 ≤ c.w

theorem wsumIf_mono {p q : Case → Bool} (hpq : ∀ c, p c = true → q c = true) : ∀ {cs : List Case}, Nonneg cs →
    wsumIf p cs ≤ wsumIf q cs
  | [], _ => by simp [wsumIf]
  | c :: cs, h => by
    have ih := wsumIf_mono hpq (cs := cs) (fun d hd => h d (List.mem_cons_of_mem _ hd))
    have hc : 0 ≤ c.w := h c (by simp)
    unfold wsumIf at ih ⊢
    cases hp : p c <;> cases hq : q c <;> simp [List.filter_cons, hp, hq] <;> first | linarith | (exfalso; simp [hpq c hp] at hq)

theorem wsumIf_nonneg (p : Case → Bool) {cs : List Case} (h : Nonneg cs) : 0 ≤ wsumIf p cs := by
  have := wsumIf_mono (p := fun _ => false) (q := p) (by simp) h
  simpa [wsumIf] using this

theorem hitsW_antitone {cs : List Case} (h : Nonneg cs) {t t' : Rat} (htt : t ≤ t') : hitsW cs t' ≤ hitsW cs t :=
  wsumIf_mono (fun c hc => by
    simp only [Bool.and_eq_true, decide_eq_true_eq] at hc ⊢; exact ⟨hc.1, le_trans htt hc.2⟩) h

theorem falseAlarmsW_antitone {cs : List Case} (h : Nonneg cs) {t t' : Rat} (htt : t ≤ t') :
    falseAlarmsW cs t' ≤ falseAlarmsW cs t :=
  wsumIf_mono (fun c hc => by
    simp only [Bool.and_eq_true, decide_eq_true_eq] at hc ⊢; exact ⟨hc.1, le_trans htt hc.2⟩) h

theorem hitsW_le_events {cs : List Case} (h : Nonneg cs) (t : Rat) : hitsW cs t ≤ eventsW cs :=
  wsumIf_mono (fun c hc => by simp only [Bool.and_eq_true] at hc; exact hc.1) h
theorem falseAlarmsW_le_nonEvents {cs : List Case} (h : Nonneg cs) (t : Rat) : falseAlarmsW cs t ≤ nonEventsW cs :=
  wsumIf_mono (fun c hc => by simp only [Bool.and_eq_true] at hc; exact hc.1) h

theorem wsumIf_congr {p q : Case → Bool} : ∀ {cs : List Case}, (∀ c ∈ cs, p c = q c) → wsumIf p cs = wsumIf q cs
  | [], _ => rfl
  | c :: cs, h => by
    have ih := wsumIf_congr (cs := cs) (fun d hd => h d (List.mem_cons_of_mem _ hd))
    have hc := h c (by simp)
    unfold wsumIf at ih ⊢
    simp only [List.filter_cons, hc]
    split_ifs <;> simp [ih]

theorem hitsW_at_low {cs : List Case} {t : Rat} (hf : ∀ c ∈ cs, t ≤ c.f) : hitsW cs t = eventsW cs :=
  wsumIf_congr (fun c hc => by simp [hf c hc])
theorem falseAlarmsW_at_low {cs : List Case} {t : Rat} (hf : ∀ c ∈ cs, t ≤ c.f) : falseAlarmsW cs t = nonEventsW cs :=
  wsumIf_congr (fun c hc => by simp [hf c hc])

/-! ## trapezoid -/

theorem trapezoid_fin : ∀ (pts : List (Rat × Rat)),
    trapezoid (pts.map fun p => Fl.fin p.2) (pts.map fun p => Fl.fin p.1) = Fl.fin (-(trapArea pts))
  | [] => by simp [trapezoid, trapArea]
  | [_] => by simp [trapezoid, trapArea]
  | (x0, y0) :: (x1, y1) :: rest => by
    have ih := trapezoid_fin ((x1, y1) :: rest)
    simp only [List.map_cons] at ih ⊢
    simp only [trapezoid, trapArea, ih, Fl.sub_fin, Fl.add_fin, Fl.mul_fin, Fl.div_fin _ _ (by norm_num : (2 : Rat) ≠ 0)]
    congr 1; ring

/-- x-coordinates (POFD) non-increasing along the list -/
def xAntitone : List (Rat × Rat) → Prop
  | p :: q :: rest => q.1 ≤ p.1 ∧ xAntitone (q :: rest)
  | _ => True

theorem trapArea_nonneg : ∀ {pts : List (Rat × Rat)}, (∀ p ∈ pts, 0 ≤ p.2) → xAntitone pts → 0 ≤ trapArea pts
  | [], _, _ => le_refl _
  | [_], _, _ => le_refl _
  | p :: q :: rest, hy, hx => by
    obtain ⟨x0, y0⟩ := p; obtain ⟨x1, y1⟩ := q
    have h0 := hy (x0, y0) (by simp); have h1 := hy (x1, y1) (by simp)
    have ih := trapArea_nonneg (pts := (x1, y1) :: rest) (fun p hp => hy p (List.mem_cons_of_mem _ hp)) hx.2
    simp only [trapArea]
    have : 0 ≤ (x0 - x1) * (y0 + y1) / 2 := by
      apply div_nonneg _ (by norm_num)
      exact mul_nonneg (by have := hx.1; simp at this; linarith) (by simp at h0 h1; linarith)
    linarith

theorem trapArea_le : ∀ {pts : List (Rat × Rat)} (m : Rat), (∀ p ∈ pts, 0 ≤ p.2 ∧ p.2 ≤ 1) → (∀ p ∈ pts, m ≤ p.1) →
    xAntitone pts → ∀ p0 ∈ pts.head?, trapArea pts ≤ p0.1 - m
  | [], _, _, _, _, _, h => by simp at h
  | [p], m, _, hm, _, p0, h => by
    simp only [List.head?_cons, Option.mem_def, Option.some.injEq] at h; subst h
    simp only [trapArea]; linarith [hm p (by simp)]
  | p :: q :: rest, m, hy, hm, hx, p0, h => by
    simp only [List.head?_cons, Option.mem_def, Option.some.injEq] at h; subst h
    obtain ⟨x0, y0⟩ := p; obtain ⟨x1, y1⟩ := q
    have h0 := hy (x0, y0) (by simp); have h1 := hy (x1, y1) (by simp)
    have ih := trapArea_le (pts := (x1, y1) :: rest) m (fun p hp => hy p (List.mem_cons_of_mem _ hp))
      (fun p hp => hm p (List.mem_cons_of_mem _ hp)) hx.2 (x1, y1) (by simp)
    simp only [trapArea]
    have hx01 : x1 ≤ x0 := hx.1
    simp only at h0 h1 ih ⊢
    have : (x0 - x1) * (y0 + y1) / 2 ≤ x0 - x1 := by
      have : (x0 - x1) * (y0 + y1) ≤ (x0 - x1) * 2 := mul_le_mul_of_nonneg_left (by linarith) (by linarith)
      linarith
    linarith

end SV.Lemmas.Roc
