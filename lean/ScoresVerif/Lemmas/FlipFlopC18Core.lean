/-
  C18 — the combinatorial core: for a sorted list of residues in [0,360) the value computed by the sector routine
  (`sectorQ d k`, k any index of a maximal folded difference) is the smallest covering arc `sector d`.
  Worked on index functions `e : ℕ → ℚ` (e j = d[j]) with cyclic gaps g j = (e (j+1 mod n) − e j) mod 360.
-/
import ScoresVerif.Lemmas.FlipFlopC18Defs
import Mathlib.Data.Finset.Card
import Mathlib.Algebra.BigOperators.Group.Finset.Basic

namespace SV.Spec.FlipFlop
open SV
open SV.Model.FlipFlop (rmod360_nonneg rmod360_lt)

/-- a weakly increasing sequence of n ≥ 1 residues in [0,360) -/
structure SortedRes (n : ℕ) (e : ℕ → ℚ) : Prop where
  pos : 0 < n
  mono : ∀ i j, i ≤ j → j < n → e i ≤ e j
  nonneg : ∀ j, j < n → 0 ≤ e j
  lt360 : ∀ j, j < n → e j < 360

/-- cyclic successor index -/
def nx (n j : ℕ) : ℕ := (j + 1) % n

theorem nx_of_lt {n j : ℕ} (h : j + 1 < n) : nx n j = j + 1 := Nat.mod_eq_of_lt h
theorem nx_last {n : ℕ} (h : 0 < n) : nx n (n - 1) = 0 := by
  unfold nx; rw [Nat.sub_add_cancel h]; exact Nat.mod_self n
theorem nx_lt {n : ℕ} (h : 0 < n) (j : ℕ) : nx n j < n := Nat.mod_lt _ h

/-- cyclic gap after index j (0 between equal neighbours) -/
def gq (n : ℕ) (e : ℕ → ℚ) (j : ℕ) : ℚ := rmod (e (nx n j) - e j) 360
/-- folded absolute difference at index j, as the code computes it -/
def dq (n : ℕ) (e : ℕ → ℚ) (j : ℕ) : ℚ := foldQ |e j - e (nx n j)|

variable {n : ℕ} {e : ℕ → ℚ}

theorem gq_nonneg (j : ℕ) : 0 ≤ gq n e j := rmod360_nonneg _
theorem gq_lt (j : ℕ) : gq n e j < 360 := rmod360_lt _

theorem gq_of_lt (H : SortedRes n e) {j : ℕ} (h : j + 1 < n) : gq n e j = e (j + 1) - e j := by
  unfold gq; rw [nx_of_lt h]
  have h1 := H.mono j (j + 1) (by omega) h
  have h2 := H.lt360 (j + 1) h
  have h3 := H.nonneg j (by omega)
  exact rmod360_of_mem _ (by linarith) (by linarith)

theorem gq_last (H : SortedRes n e) : gq n e (n - 1) = if e 0 = e (n - 1) then 0 else 360 - (e (n - 1) - e 0) := by
  have hp := H.pos
  unfold gq; rw [nx_last hp]
  split_ifs with h
  · rw [h, sub_self]; exact rmod360_zero
  · have h1 := H.mono 0 (n - 1) (by omega) (by omega)
    have h2 : e 0 < e (n - 1) := lt_of_le_of_ne h1 h
    have h3 := H.nonneg 0 hp
    have h4 := H.lt360 (n - 1) (by omega)
    rw [rmod360_of_neg _ (by linarith) (by linarith)]; ring

/-- the folded difference is the smaller of gap and 360 − gap -/
theorem dq_eq (H : SortedRes n e) {j : ℕ} (hj : j < n) :
    dq n e j = if gq n e j ≤ 180 then gq n e j else 360 - gq n e j := by
  by_cases h : j + 1 < n
  · have h1 := H.mono j (j + 1) (by omega) h
    unfold dq; rw [gq_of_lt H h, nx_of_lt h, abs_sub_comm, abs_of_nonneg (by linarith)]
    unfold foldQ
    split_ifs <;> first | rfl | (exfalso; linarith)
  · have hj' : j = n - 1 := by omega
    subst hj'
    have hp := H.pos
    have h1 := H.mono 0 (n - 1) (by omega) (by omega)
    rw [gq_last H]
    unfold dq; rw [nx_last hp, abs_of_nonneg (by linarith)]
    unfold foldQ
    split_ifs with a b c <;> first | rfl | (exfalso; linarith) | linarith

theorem dq_eq_zero_iff (H : SortedRes n e) {j : ℕ} (hj : j < n) : dq n e j = 0 ↔ gq n e j = 0 := by
  rw [dq_eq H hj]
  have h1 := gq_nonneg (n := n) (e := e) j
  have h2 := gq_lt (n := n) (e := e) j
  split_ifs with h
  · rfl
  · constructor <;> intro h' <;> exfalso <;> linarith

/-- three gaps at increasing indices fit into the circle -/
theorem three_gaps_lt (H : SortedRes n e) {a b c : ℕ} (hab : a < b) (hbc : b < c) (hc : c < n) :
    gq n e a + gq n e b + gq n e c ≤ 360 := by
  rw [gq_of_lt H (show a + 1 < n by omega), gq_of_lt H (show b + 1 < n by omega)]
  have h1 := H.mono (a + 1) b (by omega) (by omega)
  have h0 := H.nonneg a (by omega)
  by_cases h : c + 1 < n
  · rw [gq_of_lt H h]
    have h2 := H.mono (b + 1) c (by omega) (by omega)
    have h3 := H.lt360 (c + 1) h
    linarith
  · have hc' : c = n - 1 := by omega
    subst hc'
    have h2 := H.mono (b + 1) (n - 1) (by omega) (by omega)
    have h4 := H.mono 0 a (by omega) (by omega)
    have h5 := H.lt360 (n - 1) (by omega)
    have h6 := H.nonneg 0 H.pos
    rw [gq_last H]
    split_ifs <;> linarith

theorem three_gaps (H : SortedRes n e) {a b c : ℕ} (hab : a ≠ b) (hac : a ≠ c) (hbc : b ≠ c)
    (ha : a < n) (hb : b < n) (hc : c < n) : gq n e a + gq n e b + gq n e c ≤ 360 := by
  rcases lt_or_gt_of_ne hab with h1 | h1 <;> rcases lt_or_gt_of_ne hac with h2 | h2 <;>
    rcases lt_or_gt_of_ne hbc with h3 | h3
  · exact three_gaps_lt H h1 h3 hc
  · have := three_gaps_lt H h2 h3 hb; linarith
  · omega
  · have := three_gaps_lt H h2 h1 hb; linarith
  · have := three_gaps_lt H h1 h2 hc; linarith
  · omega
  · have := three_gaps_lt H h3 h2 ha; linarith
  · have := three_gaps_lt H h3 h1 ha; linarith

/-! ### covering arcs in terms of gaps -/

/-- the list of the first n values -/
def lst (n : ℕ) (e : ℕ → ℚ) : List ℚ := (List.range n).map e

theorem mem_lst {x : ℚ} : x ∈ lst n e ↔ ∃ j, j < n ∧ e j = x := by
  unfold lst; simp [List.mem_map, List.mem_range]

theorem cover_step (H : SortedRes n e) {i : ℕ} (hi : i + 1 < n) (hlt : e i < e (i + 1)) :
    coverFrom (lst n e) (e (i + 1)) = 360 - (e (i + 1) - e i) := by
  have hi0 := H.nonneg i (by omega)
  unfold coverFrom
  apply maxL_eq_of
  · refine List.mem_map.mpr ⟨e i, mem_lst.mpr ⟨i, by omega, rfl⟩, ?_⟩
    rw [arc_of_gt _ _ (H.lt360 _ hi) hi0 hlt]; ring
  · intro x hx
    obtain ⟨b, hb, rfl⟩ := List.mem_map.mp hx
    obtain ⟨j, hj, rfl⟩ := mem_lst.mp hb
    have hj0 := H.nonneg j hj
    have hj1 := H.lt360 j hj
    rcases le_or_gt (e (i + 1)) (e j) with h | h
    · rw [arc_of_le _ _ (H.nonneg _ hi) hj1 h]; linarith
    · rw [arc_of_gt _ _ (H.lt360 _ hi) hj0 h]
      have hji : j ≤ i := by
        by_contra hc
        have := H.mono (i + 1) j (by omega) hj
        linarith
      have := H.mono j i hji (by omega)
      linarith

theorem cover_zero (H : SortedRes n e) : coverFrom (lst n e) (e 0) = e (n - 1) - e 0 := by
  have hp := H.pos
  have h0 := H.nonneg 0 hp
  unfold coverFrom
  apply maxL_eq_of
  · refine List.mem_map.mpr ⟨e (n - 1), mem_lst.mpr ⟨n - 1, by omega, rfl⟩, ?_⟩
    exact arc_of_le _ _ h0 (H.lt360 _ (by omega)) (H.mono 0 (n - 1) (by omega) (by omega))
  · intro x hx
    obtain ⟨b, hb, rfl⟩ := List.mem_map.mp hx
    obtain ⟨j, hj, rfl⟩ := mem_lst.mp hb
    rw [arc_of_le _ _ h0 (H.lt360 j hj) (H.mono 0 j (by omega) hj)]
    have := H.mono j (n - 1) (by omega) (by omega)
    linarith

/-- the covering arc that starts just after a positive gap is 360 − that gap -/
theorem cover_succ (H : SortedRes n e) {j : ℕ} (hj : j < n) (hg : 0 < gq n e j) :
    coverFrom (lst n e) (e (nx n j)) = 360 - gq n e j := by
  by_cases h : j + 1 < n
  · rw [gq_of_lt H h] at hg ⊢
    rw [nx_of_lt h, cover_step H h (by linarith)]
  · have hj' : j = n - 1 := by omega
    subst hj'
    rw [nx_last H.pos]
    rw [gq_last H] at hg ⊢
    split_ifs at hg ⊢ with h0
    · exact absurd hg (lt_irrefl _)
    · rw [cover_zero H]; ring

/-- every covering arc from a data point is 360 − some positive gap (the one before its group of equal values) -/
theorem cover_exists (H : SortedRes n e) (h2 : e 0 < e (n - 1)) : ∀ i, i < n →
    ∃ j, j < n ∧ 0 < gq n e j ∧ coverFrom (lst n e) (e i) = 360 - gq n e j ∧ e (nx n j) = e i
  | 0, _ => by
    have hp := H.pos
    have hg : gq n e (n - 1) = 360 - (e (n - 1) - e 0) := by rw [gq_last H, if_neg (ne_of_lt h2)]
    have h3 := H.lt360 (n - 1) (by omega)
    have h4 := H.nonneg 0 hp
    exact ⟨n - 1, by omega, by rw [hg]; linarith, by rw [cover_zero H, hg]; ring, by rw [nx_last hp]⟩
  | i + 1, hi => by
    have hm := H.mono i (i + 1) (by omega) hi
    rcases lt_or_eq_of_le hm with h | h
    · exact ⟨i, by omega, by rw [gq_of_lt H hi]; linarith, by rw [cover_step H hi h, gq_of_lt H hi],
        by rw [nx_of_lt hi]⟩
    · obtain ⟨j, hj, hg, hc, he⟩ := cover_exists H h2 i (by omega)
      exact ⟨j, hj, hg, by rw [← h]; exact hc, by rw [← h]; exact he⟩

/-- with at least two distinct values the smallest covering arc is 360 − the largest cyclic gap -/
theorem sector_eq_of_max (H : SortedRes n e) (h2 : e 0 < e (n - 1)) (G : ℚ)
    (hub : ∀ j, j < n → gq n e j ≤ G) (hmem : ∃ j, j < n ∧ gq n e j = G) : sector (lst n e) = 360 - G := by
  obtain ⟨j, hj, hjG⟩ := hmem
  have hp := H.pos
  have hpos : 0 < G := by
    have := hub (n - 1) (by omega)
    rw [gq_last H, if_neg (ne_of_lt h2)] at this
    have h3 := H.lt360 (n - 1) (by omega)
    have h4 := H.nonneg 0 hp
    linarith
  unfold sector
  apply minL_eq_of
  · refine List.mem_map.mpr ⟨e (nx n j), mem_lst.mpr ⟨nx n j, nx_lt hp j, rfl⟩, ?_⟩
    rw [cover_succ H hj (by rw [hjG]; exact hpos), hjG]
  · intro x hx
    obtain ⟨b, hb, rfl⟩ := List.mem_map.mp hx
    obtain ⟨i, hi, rfl⟩ := mem_lst.mp hb
    obtain ⟨j', hj', _, hc, _⟩ := cover_exists H h2 i hi
    rw [hc]; linarith [hub j' hj']

/-- the maximum of the rotated rolled copy is the covering arc from the angle at k -/
theorem maxL_rotated (H : SortedRes n e) (k : ℕ) :
    maxL ((List.range n).map fun j => rmod (e (nx n j) - e k) 360) = coverFrom (lst n e) (e k) := by
  have hp := H.pos
  unfold coverFrom lst
  rw [List.map_map]
  apply maxL_congr_mem
  intro x
  simp only [List.mem_map, List.mem_range, Function.comp, arc]
  constructor
  · rintro ⟨j, _, rfl⟩; exact ⟨nx n j, nx_lt hp j, rfl⟩
  · rintro ⟨j, hj, rfl⟩
    rcases Nat.eq_zero_or_pos j with h0 | h0
    · exact ⟨n - 1, by omega, by rw [nx_last hp, h0]⟩
    · exact ⟨j - 1, by omega, by rw [nx_of_lt (by omega), Nat.sub_add_cancel h0]⟩

/-! ### counting the non-zero differences -/

theorem filter_length_eq_card (F : ℕ → ℚ) (n : ℕ) :
    (((List.range n).map F).filter fun x => decide (x ≠ 0)).length = ((Finset.range n).filter fun j => F j ≠ 0).card := by
  rw [List.filter_map, List.length_map]
  rfl

theorem mem_nz {F : ℕ → ℚ} {j : ℕ} : j ∈ (Finset.range n).filter (fun j => F j ≠ 0) ↔ j < n ∧ F j ≠ 0 := by
  simp [Finset.mem_filter, Finset.mem_range]

/-! ### the three cases -/

/-- one distinct value: every difference is 0 and so is the sector -/
theorem core_const (H : SortedRes n e) (h1 : e 0 = e (n - 1)) :
    (((List.range n).map (dq n e)).filter fun x => decide (x ≠ 0)).length ≤ 2 ∧
    maxL ((List.range n).map (dq n e)) = sector (lst n e) := by
  have hp := H.pos
  have hall : ∀ j, j < n → e j = e 0 := fun j hj =>
    le_antisymm (by rw [h1]; exact H.mono j (n - 1) (by omega) (by omega)) (H.mono 0 j (by omega) hj)
  have hd : ∀ j, j < n → dq n e j = 0 := by
    intro j hj
    rw [dq_eq_zero_iff H hj]
    unfold gq
    rw [hall j hj, hall _ (nx_lt hp j), sub_self]; exact rmod360_zero
  have hs : sector (lst n e) = 0 :=
    sector_singleton_set _ (e 0) (mem_lst.mpr ⟨0, hp, rfl⟩) (by
      intro x hx; obtain ⟨j, hj, rfl⟩ := mem_lst.mp hx; exact hall j hj)
  constructor
  · rw [filter_length_eq_card]
    have : (Finset.range n).filter (fun j => dq n e j ≠ 0) = ∅ := by
      apply Finset.filter_eq_empty_iff.mpr
      intro j hj; simp [hd j (Finset.mem_range.mp hj)]
    rw [this]; simp
  · rw [hs]
    apply maxL_eq_of
    · exact List.mem_map.mpr ⟨0, List.mem_range.mpr hp, hd 0 hp⟩
    · intro x hx
      obtain ⟨j, hj, rfl⟩ := List.mem_map.mp hx
      rw [hd j (List.mem_range.mp hj)]

/-- at most two non-zero differences (two distinct values): the largest folded difference is the sector -/
theorem core_two (H : SortedRes n e) (h2 : e 0 < e (n - 1))
    (hU : ((Finset.range n).filter fun j => dq n e j ≠ 0).card ≤ 2) :
    maxL ((List.range n).map (dq n e)) = sector (lst n e) := by
  have hp := H.pos
  have hL1 := H.lt360 (n - 1) (by omega)
  have hL0 := H.nonneg 0 hp
  have hglast : gq n e (n - 1) = 360 - (e (n - 1) - e 0) := by rw [gq_last H, if_neg (ne_of_lt h2)]
  have hsum : ∑ j ∈ Finset.range (n - 1), (e (j + 1) - e j) = e (n - 1) - e 0 := Finset.sum_range_sub e (n - 1)
  obtain ⟨p, hp', hpne⟩ := Finset.exists_ne_zero_of_sum_ne_zero (by rw [hsum]; intro h; linarith)
  have hpn : p + 1 < n := by have := Finset.mem_range.mp hp'; omega
  have hoth : ∀ j, j + 1 < n → j ≠ p → e (j + 1) - e j = 0 := by
    intro j hj hjp
    by_contra hne
    have h3 : 2 < ((Finset.range n).filter fun j => dq n e j ≠ 0).card := by
      rw [Finset.two_lt_card]
      refine ⟨j, mem_nz.mpr ⟨by omega, ?_⟩, p, mem_nz.mpr ⟨by omega, ?_⟩, n - 1, mem_nz.mpr ⟨by omega, ?_⟩,
        hjp, by omega, by omega⟩
      · rw [Ne, dq_eq_zero_iff H (by omega), gq_of_lt H hj]; exact hne
      · rw [Ne, dq_eq_zero_iff H (by omega), gq_of_lt H hpn]; exact hpne
      · rw [Ne, dq_eq_zero_iff H (by omega), hglast]; intro h; linarith
    omega
  have hgp : gq n e p = e (n - 1) - e 0 := by
    rw [gq_of_lt H hpn, ← hsum]
    symm
    apply Finset.sum_eq_single p
    · intro j hj hjp; exact hoth j (by have := Finset.mem_range.mp hj; omega) hjp
    · intro h; exact absurd hp' h
  have hgo : ∀ j, j < n → j ≠ p → j ≠ n - 1 → gq n e j = 0 := by
    intro j hj hjp hjn
    rw [gq_of_lt H (by omega)]; exact hoth j (by omega) hjp
  set L := e (n - 1) - e 0 with hLdef
  have hLpos : 0 < L := by linarith
  have hLlt : L < 360 := by linarith
  -- the sector
  have hsec : sector (lst n e) = 360 - (if L ≤ 180 then 360 - L else L) := by
    apply sector_eq_of_max H h2
    · intro j hj
      by_cases hjp : j = p
      · rw [hjp, hgp]; split_ifs <;> linarith
      · by_cases hjn : j = n - 1
        · rw [hjn, hglast]; split_ifs <;> linarith
        · rw [hgo j hj hjp hjn]; split_ifs <;> linarith
    · by_cases h : L ≤ 180
      · exact ⟨n - 1, by omega, by rw [hglast, if_pos h]⟩
      · exact ⟨p, by omega, by rw [hgp, if_neg h]⟩
  rw [hsec]
  apply maxL_eq_of
  · refine List.mem_map.mpr ⟨p, List.mem_range.mpr (by omega), ?_⟩
    rw [dq_eq H (by omega), hgp]
    split_ifs <;> linarith
  · intro x hx
    obtain ⟨j, hj, rfl⟩ := List.mem_map.mp hx
    have hj := List.mem_range.mp hj
    rw [dq_eq H hj]
    by_cases hjp : j = p
    · rw [hjp, hgp]; split_ifs <;> linarith
    · by_cases hjn : j = n - 1
      · rw [hjn, hglast]; split_ifs <;> linarith
      · rw [hgo j hj hjp hjn]; split_ifs <;> linarith

/-- three or more non-zero differences: the rotation branch of the routine gives 360 − the largest gap -/
theorem core_many (H : SortedRes n e) (h2 : e 0 < e (n - 1))
    (hU : 2 < ((Finset.range n).filter fun j => dq n e j ≠ 0).card)
    {k : ℕ} (hk : k < n) (hmax : ∀ j, j < n → dq n e j ≤ dq n e k) :
    (if maxL ((List.range n).map fun j => rmod (e (nx n j) - e k) 360) = gq n e k then gq n e k else 360 - gq n e k)
      = sector (lst n e) := by
  obtain ⟨a, ha, b, hb, c, hc, hab, hac, hbc⟩ := Finset.two_lt_card.mp hU
  obtain ⟨han, ha0⟩ := mem_nz.mp ha
  obtain ⟨hbn, hb0⟩ := mem_nz.mp hb
  obtain ⟨hcn, hc0⟩ := mem_nz.mp hc
  have gpos : ∀ j, j < n → dq n e j ≠ 0 → 0 < gq n e j := fun j hj h =>
    lt_of_le_of_ne (gq_nonneg j) (fun h' => h ((dq_eq_zero_iff H hj).mpr h'.symm))
  have hga := gpos a han ha0
  have hgb := gpos b hbn hb0
  have hgc := gpos c hcn hc0
  -- two different gaps leave room for a third one
  have K : ∀ i j, i < n → j < n → i ≠ j → gq n e i + gq n e j < 360 := by
    intro i j hi hj hij
    by_cases h1 : a ≠ i ∧ a ≠ j
    · have := three_gaps H hij (Ne.symm h1.1) (Ne.symm h1.2) hi hj han; linarith
    · by_cases h3 : b ≠ i ∧ b ≠ j
      · have := three_gaps H hij (Ne.symm h3.1) (Ne.symm h3.2) hi hj hbn; linarith
      · have h4 : c ≠ i ∧ c ≠ j := by omega
        have := three_gaps H hij (Ne.symm h4.1) (Ne.symm h4.2) hi hj hcn; linarith
  -- the argmax of the folded differences is an argmax of the gaps
  have hgmax : ∀ j, j < n → gq n e j ≤ gq n e k := by
    intro j hj
    by_contra hlt
    have hlt : gq n e k < gq n e j := not_le.mp hlt
    have hjk : j ≠ k := fun h => by rw [h] at hlt; exact lt_irrefl _ hlt
    have hK := K j k hj hk hjk
    have hm := hmax j hj
    have hk0 := gq_nonneg (n := n) (e := e) k
    rw [dq_eq H hj, dq_eq H hk] at hm
    split_ifs at hm <;> linarith
  have hsec := sector_eq_of_max H h2 (gq n e k) hgmax ⟨k, hk, rfl⟩
  obtain ⟨j, hj, hgj, hcj, hej⟩ := cover_exists H h2 k hk
  have hjk : j ≠ k := by
    intro h
    rw [h] at hej hgj
    unfold gq at hgj
    rw [hej, sub_self, rmod360_zero] at hgj
    exact lt_irrefl _ hgj
  have hK := K j k hj hk hjk
  rw [maxL_rotated H k, hcj, if_neg (by intro h; linarith), hsec]

/-- THE CORE: whatever maximal index k the argmax picks, the routine's value is the smallest covering arc -/
theorem core (H : SortedRes n e) {k : ℕ} (hk : k < n) (hmax : ∀ j, j < n → dq n e j ≤ dq n e k) :
    (if (((List.range n).map (dq n e)).filter fun x => decide (x ≠ 0)).length ≤ 2 then maxL ((List.range n).map (dq n e))
     else if maxL ((List.range n).map fun j => rmod (e (nx n j) - e k) 360) = gq n e k then gq n e k
       else 360 - gq n e k) = sector (lst n e) := by
  have hp := H.pos
  rcases lt_or_eq_of_le (H.mono 0 (n - 1) (by omega) (by omega)) with h2 | h1
  · rw [filter_length_eq_card]
    by_cases hU : ((Finset.range n).filter fun j => dq n e j ≠ 0).card ≤ 2
    · rw [if_pos hU]; exact core_two H h2 hU
    · rw [if_neg hU]; exact core_many H h2 (by omega) hk hmax
  · obtain ⟨h, h'⟩ := core_const H h1
    rw [if_pos h]; exact h'

/-! ### from lists to index functions -/

/-- the index function of a list -/
def idx (d : List ℚ) : ℕ → ℚ := fun j => d.getD j 0

theorem idx_of_lt (d : List ℚ) {j : ℕ} (hj : j < d.length) : idx d j = d[j] := by
  unfold idx; simp [hj]

theorem sortedRes_idx (d : List ℚ) (hne : d ≠ []) (hs : d.Pairwise (· ≤ ·)) (hr : ∀ x ∈ d, 0 ≤ x ∧ x < 360) :
    SortedRes d.length (idx d) where
  pos := List.length_pos_of_ne_nil hne
  mono := by
    intro i j hij hj
    rw [idx_of_lt d hj, idx_of_lt d (by omega : i < d.length)]
    rcases Nat.lt_or_eq_of_le hij with h | h
    · exact List.pairwise_iff_getElem.mp hs i j (by omega) hj h
    · subst h; exact le_refl _
  nonneg := by intro j hj; rw [idx_of_lt d hj]; exact (hr _ (List.getElem_mem hj)).1
  lt360 := by intro j hj; rw [idx_of_lt d hj]; exact (hr _ (List.getElem_mem hj)).2

theorem lst_idx (d : List ℚ) : lst d.length (idx d) = d := by
  unfold lst
  apply List.ext_getElem
  · simp
  · intro j h1 h2
    simp only [List.getElem_map, List.getElem_range]
    exact idx_of_lt d h2

theorem rotate_one_getElem (d : List ℚ) {j : ℕ} (hj : j < d.length) :
    (d.rotate 1)[j]'(by rw [List.length_rotate]; exact hj) = idx d (nx d.length j) := by
  rw [List.getElem_rotate, idx_of_lt d (nx_lt (by omega) j)]
  rfl

theorem diffsQ_idx (d : List ℚ) : diffsQ d = (List.range d.length).map (dq d.length (idx d)) := by
  unfold diffsQ
  apply List.ext_getElem
  · simp
  · intro j h1 h2
    have hj : j < d.length := by simpa using h2
    simp only [List.getElem_zipWith, List.getElem_map, List.getElem_range]
    rw [rotate_one_getElem d hj, ← idx_of_lt d hj]
    rfl

theorem rotatedQ_idx (d : List ℚ) (k : ℕ) :
    rotatedQ d k = (List.range d.length).map fun j => rmod (idx d (nx d.length j) - idx d k) 360 := by
  unfold rotatedQ
  apply List.ext_getElem
  · simp
  · intro j h1 h2
    have hj : j < d.length := by simpa using h2
    simp only [List.getElem_map, List.getElem_range]
    rw [rotate_one_getElem d hj]
    rfl

/-- for sorted residues the routine's value — for any index k of a maximal folded difference — is the smallest
    covering arc -/
theorem sectorQ_eq_sector (d : List ℚ) (hne : d ≠ []) (hs : d.Pairwise (· ≤ ·)) (hr : ∀ x ∈ d, 0 ≤ x ∧ x < 360)
    {k : ℕ} (hk : k < d.length) (hmax : ∀ x ∈ diffsQ d, x ≤ (diffsQ d).getD k 0) : sectorQ d k = sector d := by
  have H := sortedRes_idx d hne hs hr
  have hgetD : (diffsQ d).getD k 0 = dq d.length (idx d) k := by
    rw [diffsQ_idx]; simp [hk]
  have hmax' : ∀ j, j < d.length → dq d.length (idx d) j ≤ dq d.length (idx d) k := by
    intro j hj
    rw [← hgetD]
    apply hmax
    rw [diffsQ_idx]
    exact List.mem_map.mpr ⟨j, List.mem_range.mpr hj, rfl⟩
  have hsecond : (rotatedQ d k).getD k 0 = gq d.length (idx d) k := by
    rw [rotatedQ_idx]; simp [hk]; rfl
  have := core H hk hmax'
  rw [lst_idx] at this
  rw [← this]
  unfold sectorQ
  simp only [hsecond]
  rw [← diffsQ_idx, ← rotatedQ_idx]

end SV.Spec.FlipFlop
