/-
  C18 — the rational mirror `sectorQ` of the sector routine is equivariant under cyclic rotation of the data list:
  rotating the data by z rotates the folded differences and the rotated copy by z, and the value at index k of the
  rotated data is the value at index (k + z) % n of the original.  Hence `sectorQ_eq_sector` (sorted data, k any index
  of a maximal folded difference) extends to every cyclic rotation of a sorted list, and so does the model's
  post-sort part `sectorPost`.
-/
import ScoresVerif.Lemmas.FlipFlopC18Core
import ScoresVerif.Lemmas.FlipFlopC18Model

namespace SV.Spec.FlipFlop
open SV

/-- reading a rotated list with a default -/
theorem getD_rotate (l : List Rat) (z k : Nat) (hk : k < l.length) :
    (l.rotate z).getD k 0 = l.getD ((k + z) % l.length) 0 := by
  have h2 : (k + z) % l.length < l.length := Nat.mod_lt _ (by omega)
  have h1 : k < (l.rotate z).length := by rw [List.length_rotate]; exact hk
  rw [List.getD_eq_getElem?_getD, List.getD_eq_getElem?_getD, List.getElem?_eq_getElem h1, List.getElem?_eq_getElem h2,
    List.getElem_rotate]

theorem rotate_rotate_one (S : List Rat) (z : Nat) : (S.rotate z).rotate 1 = (S.rotate 1).rotate z := by
  rw [List.rotate_rotate, List.rotate_rotate, Nat.add_comm]

/-- the folded differences of a rotated list are the rotated folded differences -/
theorem diffsQ_rotate (S : List Rat) (z : Nat) : diffsQ (S.rotate z) = (diffsQ S).rotate z := by
  unfold diffsQ
  rw [rotate_rotate_one, List.zipWith_rotate_distrib _ _ _ _ (by rw [List.length_rotate])]

/-- the rotated copy of a rotated list -/
theorem rotatedQ_rotate (S : List Rat) (z k : Nat) (hk : k < S.length) :
    rotatedQ (S.rotate z) k = (rotatedQ S ((k + z) % S.length)).rotate z := by
  unfold rotatedQ
  rw [rotate_rotate_one, getD_rotate S z k hk, List.map_rotate]

/-- the routine's value at index k of the rotated data is its value at index (k + z) % n of the data -/
theorem sectorQ_rotate (S : List Rat) (z k : Nat) (hk : k < S.length) :
    sectorQ (S.rotate z) k = sectorQ S ((k + z) % S.length) := by
  have hlen : (rotatedQ S ((k + z) % S.length)).length = S.length := by simp [rotatedQ]
  have hsecond : (rotatedQ (S.rotate z) k).getD k 0
      = (rotatedQ S ((k + z) % S.length)).getD ((k + z) % S.length) 0 := by
    rw [rotatedQ_rotate S z k hk, getD_rotate _ z k (by rw [hlen]; exact hk), hlen]
  have hmaxR : maxL (rotatedQ (S.rotate z) k) = maxL (rotatedQ S ((k + z) % S.length)) := by
    rw [rotatedQ_rotate S z k hk]
    exact maxL_congr_mem _ _ (fun x => List.mem_rotate)
  have hmaxD : maxL (diffsQ (S.rotate z)) = maxL (diffsQ S) := by
    rw [diffsQ_rotate]
    exact maxL_congr_mem _ _ (fun x => List.mem_rotate)
  have hfil : ((diffsQ (S.rotate z)).filter fun x => decide (x ≠ 0)).length
      = ((diffsQ S).filter fun x => decide (x ≠ 0)).length := by
    rw [diffsQ_rotate]
    exact ((List.rotate_perm (diffsQ S) z).filter _).length_eq
  unfold sectorQ
  simp only [hsecond, hmaxR, hmaxD, hfil]

/-- for every cyclic rotation of sorted residues the routine's value — for any index k of a maximal folded
    difference of the rotated data — is the smallest covering arc of the data -/
theorem sectorQ_rotate_eq_sector (S : List Rat) (z : Nat) (hne : S ≠ []) (hs : S.Pairwise (· ≤ ·))
    (hr : ∀ x ∈ S, 0 ≤ x ∧ x < 360) {k : Nat} (hk : k < S.length)
    (hmax : ∀ x ∈ diffsQ (S.rotate z), x ≤ (diffsQ (S.rotate z)).getD k 0) : sectorQ (S.rotate z) k = sector S := by
  have hpos : 0 < S.length := List.length_pos_of_ne_nil hne
  have hk' : (k + z) % S.length < S.length := Nat.mod_lt _ hpos
  have hlen : (diffsQ S).length = S.length := by simp [diffsQ]
  rw [sectorQ_rotate S z k hk]
  apply sectorQ_eq_sector S hne hs hr hk'
  intro x hx
  have h := hmax x (by rw [diffsQ_rotate]; exact List.mem_rotate.mpr hx)
  rw [diffsQ_rotate, getD_rotate _ z k (by rw [hlen]; exact hk), hlen] at h
  exact h

/-- a concrete non-trivial instance: the sorted list [0,0,10,100,350] rotated by 2 is [10,100,350,0,0]; its maximal
    folded difference (110) sits at index 1, where the routine returns the covering arc 110 -/
example : ([0, 0, 10, 100, 350] : List Rat) ≠ [] ∧ ([0, 0, 10, 100, 350] : List Rat).Pairwise (· ≤ ·) ∧
    (∀ x ∈ ([0, 0, 10, 100, 350] : List Rat), 0 ≤ x ∧ x < 360) ∧
    ([0, 0, 10, 100, 350] : List Rat).rotate 2 = [10, 100, 350, 0, 0] ∧
    diffsQ (([0, 0, 10, 100, 350] : List Rat).rotate 2) = [90, 110, 10, 0, 10] ∧
    (∀ x ∈ diffsQ (([0, 0, 10, 100, 350] : List Rat).rotate 2),
      x ≤ (diffsQ (([0, 0, 10, 100, 350] : List Rat).rotate 2)).getD 1 0) ∧
    sectorQ (([0, 0, 10, 100, 350] : List Rat).rotate 2) 1 = 110 ∧ sector [0, 0, 10, 100, 350] = 110 := by
  decide +kernel

end SV.Spec.FlipFlop

namespace SV.Model.FlipFlop
open SV SV.Fl SV.Spec.FlipFlop

/-- the model's post-sort part, fed ANY cyclic rotation of sorted residues, returns the smallest covering arc -/
theorem sectorPost_rotate_fin (S : List Rat) (z : Nat) (hne : S ≠ []) (hs : S.Pairwise (· ≤ ·))
    (hr : ∀ x ∈ S, 0 ≤ x ∧ x < 360) : sectorPost ((S.rotate z).map fin) = fin (sector S) := by
  have hne' : S.rotate z ≠ [] := by
    intro h; apply hne; apply List.eq_nil_of_length_eq_zero
    rw [← List.length_rotate S z, h]; rfl
  have hdq : diffsQ (S.rotate z) ≠ [] := by
    intro h; apply hne'; apply List.eq_nil_of_length_eq_zero; rw [← length_diffsQ, h]; rfl
  obtain ⟨hk, hmax⟩ := argmax_fin (diffsQ (S.rotate z)) hdq
  rw [length_diffsQ, List.length_rotate] at hk
  rw [sectorPost_fin _ hne', sectorQ_rotate_eq_sector S z hne hs hr hk hmax]

example : sectorPost ((([0, 0, 10, 100, 350] : List Rat).rotate 2).map fin) = fin 110 := by decide +kernel

end SV.Model.FlipFlop
