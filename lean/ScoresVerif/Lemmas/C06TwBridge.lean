/-
  C06 — the threshold-weighted step integral `Spec.CrpsEns.twIntegral a? b? xs y` is a Lebesgue integral:
  over the hull of thresholds ∪ {y} ∪ members of `weightOnR a? b? · crpsIntegrandR xs y`, and — restricting to the
  support of the weight — of the bare integrand (F_ens − 1{y ≤ ·})² over [a, b] (tails: up to the end of the hull).
  Uses the generic step-integral bridge of Lemmas/Bridge.lean (imported, not modified).
-/
import ScoresVerif.Lemmas.Bridge
import ScoresVerif.Lemmas.CrpsEnsC06Tw

namespace SV.Bridge
open MeasureTheory Set
open SV.Spec.CrpsEns (grid stepIntegral integrand weightOn optPts twIntegral)
open SV.Spec.Murphy (lastOr)

/-- the weight `Spec.CrpsEns.weightOn` = 1[a,b) (missing end = unbounded) read over ℝ -/
noncomputable def weightOnR : Option ℚ → Option ℚ → ℝ → ℝ
  | some a, some b, t => if (a : ℝ) ≤ t ∧ t < (b : ℝ) then 1 else 0
  | some a, none, t => if (a : ℝ) ≤ t then 1 else 0
  | none, some b, t => if t < (b : ℝ) then 1 else 0
  | none, none, _ => 1

theorem weightOnR_cast (a b : Option ℚ) (t : ℚ) : weightOnR a b t = ((weightOn a b t : ℚ) : ℝ) := by
  cases a <;> cases b <;>
    simp only [weightOnR, weightOn, Rat.cast_le, Rat.cast_lt, Bool.and_true, Bool.true_and, Bool.and_eq_true,
      decide_eq_true_eq, if_true, Rat.cast_one] <;>
    split_ifs <;> simp

/-- on an open cell (lo, hi) with no threshold strictly inside, the weight keeps its value at lo -/
theorem weightOnR_const (a b : Option ℚ) (lo hi : ℚ) (hno : ∀ x, x ∈ optPts a b → x ≤ lo ∨ hi ≤ x) (θ : ℝ)
    (h1 : (lo : ℝ) < θ) (h2 : θ < hi) : weightOnR a b θ = weightOnR a b lo := by
  have keyA : ∀ x, x ∈ optPts a b → (((x : ℝ) ≤ θ) ↔ ((x : ℝ) ≤ lo)) := by
    intro x hx
    rcases hno x hx with h | h
    · have : (x : ℝ) ≤ lo := by exact_mod_cast h
      exact ⟨fun _ => this, fun _ => by linarith⟩
    · have : (hi : ℝ) ≤ x := by exact_mod_cast h
      exact ⟨fun h' => by linarith, fun h' => by linarith⟩
  have keyB : ∀ x, x ∈ optPts a b → ((θ < (x : ℝ)) ↔ ((lo : ℝ) < (x : ℝ))) := by
    intro x hx
    rw [← not_le, ← not_le, keyA x hx]
  cases a with
  | none =>
    cases b with
    | none => rfl
    | some b => simp only [weightOnR, keyB b (by simp [optPts])]
  | some a =>
    cases b with
    | none => simp only [weightOnR, keyA a (by simp [optPts])]
    | some b => simp only [weightOnR, keyA a (by simp [optPts]), keyB b (by simp [optPts])]

/-- the weighted integrand over ℝ -/
noncomputable def twIntegrandR (a b : Option ℚ) (xs : List ℚ) (y : ℚ) (t : ℝ) : ℝ := weightOnR a b t * crpsIntegrandR xs y t

/-- **C06 tw**: the exact step integral `twIntegral a? b? xs y` is ∫ 1[a,b)(t) (F_ens(t) − 1{y ≤ t})² dt over the hull of
    thresholds ∪ {y} ∪ members -/
theorem twIntegral_eq_lebesgue (a b : Option ℚ) (xs : List ℚ) (y p : ℚ) (g : List ℚ)
    (hg : grid (optPts a b ++ y :: xs) = p :: g) :
    IntervalIntegrable (twIntegrandR a b xs y) volume p (lastOr p g) ∧
      ((twIntegral a b xs y : ℚ) : ℝ) = ∫ t in (p : ℝ)..(lastOr p g : ℝ), twIntegrandR a b xs y t := by
  unfold twIntegral
  rw [hg]
  apply stepIntegral_eq_intervalIntegral _ _
    (fun t => by unfold twIntegrandR; rw [weightOnR_cast, crpsIntegrandR_cast]; push_cast; rfl)
  have hs := SV.Lemmas.CrpsEns.pairwise_grid (optPts a b ++ y :: xs)
  rw [hg] at hs
  refine (sorted_chain_noInside (fun x => x ∈ optPts a b ++ y :: xs) g p hs ?_).imp ?_
  · intro x hx
    have : x ∈ grid (optPts a b ++ y :: xs) := SV.Lemmas.CrpsEns.mem_grid.mpr hx
    rw [hg] at this
    rcases List.mem_cons.mp this with rfl | h
    · exact Or.inl le_rfl
    · exact Or.inr h
  · rintro lo hi ⟨hab, hno⟩
    refine ⟨hab, fun θ h1 h2 => ?_⟩
    unfold twIntegrandR
    rw [weightOnR_const a b lo hi (fun x hx => hno x (List.mem_append_left _ hx)) θ h1 h2,
      crpsIntegrandR_const xs y lo hi (fun x hx => hno x (List.mem_append_right _ hx)) θ h1 h2]

/-- a function `G` that vanishes on (L, A) and on (B, U] and equals `F` on (A, B): ∫_L^U G = ∫_A^B F -/
theorem integral_restrict_support {F G : ℝ → ℝ} {L A B U : ℝ} (hLA : L ≤ A) (hAB : A ≤ B) (hBU : B ≤ U)
    (h0 : ∀ t, L < t → t < A → G t = 0) (h1 : ∀ t, A < t → t < B → G t = F t) (h2 : ∀ t, B < t → t ≤ U → G t = 0)
    (hG : IntervalIntegrable G volume L U) :
    IntervalIntegrable F volume A B ∧ ∫ t in L..U, G t = ∫ t in A..B, F t := by
  have hG1 : IntervalIntegrable G volume L A :=
    hG.mono_set (by rw [uIcc_of_le hLA, uIcc_of_le (by linarith)]; exact Icc_subset_Icc le_rfl (by linarith))
  have hG2 : IntervalIntegrable G volume A B :=
    hG.mono_set (by rw [uIcc_of_le hAB, uIcc_of_le (by linarith)]; exact Icc_subset_Icc hLA hBU)
  have hG3 : IntervalIntegrable G volume B U :=
    hG.mono_set (by rw [uIcc_of_le hBU, uIcc_of_le (by linarith)]; exact Icc_subset_Icc (by linarith) le_rfl)
  have e1 : ∫ t in L..A, G t = 0 := by
    have hae : ∀ᵐ x ∂(volume : Measure ℝ), x ∈ uIoc L A → G x = (fun _ => (0 : ℝ)) x := by
      have hq : ({A} : Set ℝ)ᶜ ∈ ae (volume : Measure ℝ) := compl_mem_ae_iff.2 (measure_singleton A)
      filter_upwards [hq] with x hx hx'
      rw [uIoc_of_le hLA] at hx'
      exact h0 x hx'.1 (lt_of_le_of_ne hx'.2 hx)
    rw [intervalIntegral.integral_congr_ae hae]; simp
  have e3 : ∫ t in B..U, G t = 0 := by
    have hae : ∀ᵐ x ∂(volume : Measure ℝ), x ∈ uIoc B U → G x = (fun _ => (0 : ℝ)) x :=
      Filter.Eventually.of_forall fun x hx => by rw [uIoc_of_le hBU] at hx; exact h2 x hx.1 hx.2
    rw [intervalIntegral.integral_congr_ae hae]; simp
  have hae : ∀ᵐ x ∂(volume : Measure ℝ), x ∈ uIoc A B → G x = F x := by
    have hq : ({B} : Set ℝ)ᶜ ∈ ae (volume : Measure ℝ) := compl_mem_ae_iff.2 (measure_singleton B)
    filter_upwards [hq] with x hx hx'
    rw [uIoc_of_le hAB] at hx'
    exact h1 x hx'.1 (lt_of_le_of_ne hx'.2 hx)
  refine ⟨hG2.congr_ae ((ae_restrict_iff' measurableSet_uIoc).2 hae), ?_⟩
  rw [← intervalIntegral.integral_add_adjacent_intervals (hG1.trans hG2) hG3,
    ← intervalIntegral.integral_add_adjacent_intervals hG1 hG2, e1, e3, intervalIntegral.integral_congr_ae hae]
  ring

theorem head_le_of_sorted' (p : ℚ) (g : List ℚ) (h : (p :: g).Pairwise (· < ·)) (x : ℚ) (hx : x ∈ p :: g) : p ≤ x := by
  rcases List.mem_cons.mp hx with rfl | hx
  · exact le_refl _
  · exact le_of_lt ((List.pairwise_cons.mp h).1 x hx)

theorem le_lastOr_of_sorted' : ∀ (g : List ℚ) (p : ℚ), (p :: g).Pairwise (· < ·) → ∀ x ∈ p :: g, x ≤ lastOr p g := by
  intro g
  induction g with
  | nil => intro p _ x hx; simp at hx; subst hx; exact le_refl _
  | cons q rest ih =>
    intro p h x hx
    rw [List.pairwise_cons] at h
    simp only [lastOr]
    rcases List.mem_cons.mp hx with rfl | hx
    · exact le_trans (le_of_lt (h.1 q (by simp))) (ih q h.2 q (by simp))
    · exact ih q h.2 x hx

/-- every point that went into the grid lies between its first and its last point -/
theorem grid_hull {pts : List ℚ} {p : ℚ} {g : List ℚ} (hg : grid pts = p :: g) {x : ℚ} (hx : x ∈ pts) :
    p ≤ x ∧ x ≤ lastOr p g := by
  have hs := SV.Lemmas.CrpsEns.pairwise_grid pts
  have hm : x ∈ grid pts := SV.Lemmas.CrpsEns.mem_grid.mpr hx
  rw [hg] at hs hm
  exact ⟨head_le_of_sorted' p g hs x hm, le_lastOr_of_sorted' g p hs x hm⟩

/-- interval weight, a ≤ b: the weighted integral is ∫_a^b of the bare integrand -/
theorem twIntegral_interval_eq_lebesgue {a b : ℚ} (hab : a ≤ b) (xs : List ℚ) (y : ℚ) :
    IntervalIntegrable (crpsIntegrandR xs y) volume a b ∧
      ((twIntegral (some a) (some b) xs y : ℚ) : ℝ) = ∫ t in (a : ℝ)..(b : ℝ), crpsIntegrandR xs y t := by
  rcases hgr : grid (optPts (some a) (some b) ++ y :: xs) with _ | ⟨p, g⟩
  · have : a ∈ grid (optPts (some a) (some b) ++ y :: xs) := SV.Lemmas.CrpsEns.mem_grid.mpr (by simp [optPts])
    rw [hgr] at this; simp at this
  obtain ⟨hi, he⟩ := twIntegral_eq_lebesgue (some a) (some b) xs y p g hgr
  have ha := grid_hull hgr (x := a) (by simp [optPts])
  have hb := grid_hull hgr (x := b) (by simp [optPts])
  have hA : (p : ℝ) ≤ a := by exact_mod_cast ha.1
  have hAB : (a : ℝ) ≤ b := by exact_mod_cast hab
  have hB : (b : ℝ) ≤ lastOr p g := by exact_mod_cast hb.2
  obtain ⟨hi', he'⟩ := integral_restrict_support (F := crpsIntegrandR xs y) hA hAB hB
    (fun t _ h => by unfold twIntegrandR weightOnR; simp [not_le.mpr h])
    (fun t h h' => by unfold twIntegrandR weightOnR; simp [h.le, h'])
    (fun t h _ => by unfold twIntegrandR weightOnR; simp [not_lt.mpr h.le]) hi
  exact ⟨hi', by rw [he, he']⟩

/-- upper tail: ∫ from the threshold to the end of the hull -/
theorem twIntegral_upper_eq_lebesgue (a : ℚ) (xs : List ℚ) (y p : ℚ) (g : List ℚ) (hg : grid (a :: y :: xs) = p :: g) :
    IntervalIntegrable (crpsIntegrandR xs y) volume a (lastOr p g) ∧
      ((twIntegral (some a) none xs y : ℚ) : ℝ) = ∫ t in (a : ℝ)..(lastOr p g : ℝ), crpsIntegrandR xs y t := by
  have hgr : grid (optPts (some a) none ++ y :: xs) = p :: g := hg
  obtain ⟨hi, he⟩ := twIntegral_eq_lebesgue (some a) none xs y p g hgr
  have ha := grid_hull hg (x := a) (by simp)
  have hA : (p : ℝ) ≤ a := by exact_mod_cast ha.1
  have hB : (a : ℝ) ≤ lastOr p g := by exact_mod_cast ha.2
  obtain ⟨hi', he'⟩ := integral_restrict_support (F := crpsIntegrandR xs y) hA hB le_rfl
    (fun t _ h => by unfold twIntegrandR weightOnR; simp [not_le.mpr h])
    (fun t h h' => by unfold twIntegrandR weightOnR; simp [h.le])
    (fun t h h' => absurd (lt_of_lt_of_le h h') (lt_irrefl _)) hi
  exact ⟨hi', by rw [he, he']⟩

/-- lower tail: ∫ from the start of the hull to the threshold -/
theorem twIntegral_lower_eq_lebesgue (b : ℚ) (xs : List ℚ) (y p : ℚ) (g : List ℚ) (hg : grid (b :: y :: xs) = p :: g) :
    IntervalIntegrable (crpsIntegrandR xs y) volume p b ∧
      ((twIntegral none (some b) xs y : ℚ) : ℝ) = ∫ t in (p : ℝ)..(b : ℝ), crpsIntegrandR xs y t := by
  have hgr : grid (optPts none (some b) ++ y :: xs) = p :: g := hg
  obtain ⟨hi, he⟩ := twIntegral_eq_lebesgue none (some b) xs y p g hgr
  have hb := grid_hull hg (x := b) (by simp)
  have hA : (p : ℝ) ≤ b := by exact_mod_cast hb.1
  have hB : (b : ℝ) ≤ lastOr p g := by exact_mod_cast hb.2
  obtain ⟨hi', he'⟩ := integral_restrict_support (F := crpsIntegrandR xs y) le_rfl hA hB
    (fun t h h' => absurd (lt_trans h h') (lt_irrefl _))
    (fun t _ h' => by unfold twIntegrandR weightOnR; simp [h'])
    (fun t h _ => by unfold twIntegrandR weightOnR; simp [not_lt.mpr h.le]) hi
  exact ⟨hi', by rw [he, he']⟩

/-- right of every member and of the observation the integrand vanishes -/
theorem crpsIntegrandR_zero_right {xs : List ℚ} (hx : xs ≠ []) (y : ℚ) (θ : ℝ) (h : ∀ x ∈ y :: xs, (x : ℝ) ≤ θ) :
    crpsIntegrandR xs y θ = 0 := by
  have hf : xs.filter (fun x : ℚ => decide ((x : ℝ) ≤ θ)) = xs :=
    List.filter_eq_self.mpr (fun x hx' => by simpa using h x (List.mem_cons_of_mem _ hx'))
  have hM : (xs.length : ℝ) ≠ 0 := by
    have : xs.length ≠ 0 := by simpa using hx
    exact_mod_cast this
  unfold crpsIntegrandR ecdfR heavisideR
  rw [hf, div_self hM, if_pos (h y (by simp))]; ring

/-- left of every member and of the observation the integrand vanishes -/
theorem crpsIntegrandR_zero_left (xs : List ℚ) (y : ℚ) (θ : ℝ) (h : ∀ x ∈ y :: xs, θ < (x : ℝ)) :
    crpsIntegrandR xs y θ = 0 := by
  have hf : xs.filter (fun x : ℚ => decide ((x : ℝ) ≤ θ)) = [] :=
    List.filter_eq_nil_iff.mpr (fun x hx' => by simpa using h x (List.mem_cons_of_mem _ hx'))
  unfold crpsIntegrandR ecdfR heavisideR
  rw [hf, if_neg (not_le.mpr (h y (by simp)))]; simp

/-- a function integrable on [A, U] that vanishes right of U: improper integral over (A, ∞) -/
theorem integral_Ioi_of_zero_right {F : ℝ → ℝ} {A U : ℝ} (hAU : A ≤ U) (hF : IntervalIntegrable F volume A U)
    (h0 : ∀ t, U < t → F t = 0) : IntegrableOn F (Ioi A) volume ∧ ∫ t in Ioi A, F t = ∫ t in A..U, F t := by
  have h1 : IntegrableOn F (Ioc A U) volume := (intervalIntegrable_iff_integrableOn_Ioc_of_le hAU).mp hF
  have h2 : IntegrableOn F (Ioi U) volume :=
    (integrableOn_zero (μ := volume) (s := Ioi U)).congr_fun (fun t ht => (h0 t ht).symm) measurableSet_Ioi
  refine ⟨by rw [← Ioc_union_Ioi_eq_Ioi hAU]; exact h1.union h2, ?_⟩
  rw [← Ioc_union_Ioi_eq_Ioi hAU, setIntegral_union (Ioc_disjoint_Ioi le_rfl) measurableSet_Ioi h1 h2,
    intervalIntegral.integral_of_le hAU,
    setIntegral_congr_fun measurableSet_Ioi (fun t ht => h0 t ht : EqOn F (fun _ => (0 : ℝ)) (Ioi U))]
  simp

/-- a function integrable on [L, B] that vanishes left of L: improper integral over (−∞, B] -/
theorem integral_Iic_of_zero_left {F : ℝ → ℝ} {L B : ℝ} (hLB : L ≤ B) (hF : IntervalIntegrable F volume L B)
    (h0 : ∀ t, t < L → F t = 0) : IntegrableOn F (Iic B) volume ∧ ∫ t in Iic B, F t = ∫ t in L..B, F t := by
  have h1 : IntegrableOn F (Ioc L B) volume := (intervalIntegrable_iff_integrableOn_Ioc_of_le hLB).mp hF
  have h2' : IntegrableOn F (Iio L) volume :=
    (integrableOn_zero (μ := volume) (s := Iio L)).congr_fun (fun t ht => (h0 t ht).symm) measurableSet_Iio
  have h2 : IntegrableOn F (Iic L) volume := (integrableOn_Iic_iff_integrableOn_Iio).mpr h2'
  refine ⟨by rw [← Iic_union_Ioc_eq_Iic hLB]; exact h2.union h1, ?_⟩
  rw [← Iic_union_Ioc_eq_Iic hLB, setIntegral_union (Iic_disjoint_Ioc le_rfl) measurableSet_Ioc h2 h1,
    intervalIntegral.integral_of_le hLB, integral_Iic_eq_integral_Iio,
    setIntegral_congr_fun measurableSet_Iio (fun t ht => h0 t ht : EqOn F (fun _ => (0 : ℝ)) (Iio L))]
  simp

/-- the hull end points: every member and the observation lie in [p, lastOr p g], and the integrand vanishes outside -/
theorem crpsIntegrandR_zero_outside {xs : List ℚ} (hx : xs ≠ []) (y : ℚ) {pts : List ℚ} (hsub : ∀ x ∈ y :: xs, x ∈ pts)
    {p : ℚ} {g : List ℚ} (hg : grid pts = p :: g) (θ : ℝ) (h : θ < (p : ℝ) ∨ (lastOr p g : ℝ) < θ) :
    crpsIntegrandR xs y θ = 0 := by
  rcases h with h | h
  · exact crpsIntegrandR_zero_left xs y θ (fun x hx' => by
      have : (p : ℝ) ≤ x := by exact_mod_cast (grid_hull hg (hsub x hx')).1
      linarith)
  · exact crpsIntegrandR_zero_right hx y θ (fun x hx' => by
      have : (x : ℝ) ≤ lastOr p g := by exact_mod_cast (grid_hull hg (hsub x hx')).2
      linarith)

/-- upper tail as an improper integral: ∫_{(a, ∞)} (F_ens − H_y)² -/
theorem twIntegral_upper_eq_improper (a : ℚ) {xs : List ℚ} (hx : xs ≠ []) (y : ℚ) :
    IntegrableOn (crpsIntegrandR xs y) (Ioi (a : ℝ)) volume ∧
      ((twIntegral (some a) none xs y : ℚ) : ℝ) = ∫ t in Ioi (a : ℝ), crpsIntegrandR xs y t := by
  rcases hgr : grid (a :: y :: xs) with _ | ⟨p, g⟩
  · have : a ∈ grid (a :: y :: xs) := SV.Lemmas.CrpsEns.mem_grid.mpr (by simp)
    rw [hgr] at this; simp at this
  obtain ⟨hi, he⟩ := twIntegral_upper_eq_lebesgue a xs y p g hgr
  have hB : (a : ℝ) ≤ lastOr p g := by exact_mod_cast (grid_hull hgr (x := a) (by simp)).2
  obtain ⟨hi', he'⟩ := integral_Ioi_of_zero_right hB hi (fun t ht =>
    crpsIntegrandR_zero_outside hx y (fun x hx' => List.mem_cons_of_mem _ hx') hgr t (Or.inr ht))
  exact ⟨hi', by rw [he, he']⟩

/-- lower tail as an improper integral: ∫_{(−∞, b)} (F_ens − H_y)² -/
theorem twIntegral_lower_eq_improper (b : ℚ) {xs : List ℚ} (hx : xs ≠ []) (y : ℚ) :
    IntegrableOn (crpsIntegrandR xs y) (Iio (b : ℝ)) volume ∧
      ((twIntegral none (some b) xs y : ℚ) : ℝ) = ∫ t in Iio (b : ℝ), crpsIntegrandR xs y t := by
  rcases hgr : grid (b :: y :: xs) with _ | ⟨p, g⟩
  · have : b ∈ grid (b :: y :: xs) := SV.Lemmas.CrpsEns.mem_grid.mpr (by simp)
    rw [hgr] at this; simp at this
  obtain ⟨hi, he⟩ := twIntegral_lower_eq_lebesgue b xs y p g hgr
  have hA : (p : ℝ) ≤ b := by exact_mod_cast (grid_hull hgr (x := b) (by simp)).1
  obtain ⟨hi', he'⟩ := integral_Iic_of_zero_left hA hi (fun t ht =>
    crpsIntegrandR_zero_outside hx y (fun x hx' => List.mem_cons_of_mem _ hx') hgr t (Or.inl ht))
  exact ⟨hi'.mono_set Iio_subset_Iic_self, by rw [he, ← he', integral_Iic_eq_integral_Iio]⟩

/-- the unweighted CRPS integral over the whole real line -/
theorem crpsIntegral_eq_integral_real {xs : List ℚ} (hx : xs ≠ []) (y : ℚ) :
    Integrable (crpsIntegrandR xs y) volume ∧
      ((SV.Spec.CrpsEns.crpsIntegral xs y : ℚ) : ℝ) = ∫ t, crpsIntegrandR xs y t := by
  rcases hgr : grid (y :: xs) with _ | ⟨p, g⟩
  · have : y ∈ grid (y :: xs) := SV.Lemmas.CrpsEns.mem_grid.mpr (by simp)
    rw [hgr] at this; simp at this
  obtain ⟨hi, he⟩ := crpsIntegral_eq_lebesgue xs y p g hgr
  have hpl : (p : ℝ) ≤ lastOr p g := by
    exact_mod_cast le_lastOr_of_sorted' g p (by rw [← hgr]; exact SV.Lemmas.CrpsEns.pairwise_grid _) p (by simp)
  have hz := fun t h => crpsIntegrandR_zero_outside hx y (fun x hx' => hx') hgr t h
  obtain ⟨hL, eL⟩ := integral_Iic_of_zero_left hpl hi (fun t ht => hz t (Or.inl ht))
  have hR : IntegrableOn (crpsIntegrandR xs y) (Ioi (lastOr p g : ℝ)) volume :=
    (integrableOn_zero (μ := volume) (s := Ioi (lastOr p g : ℝ))).congr_fun
      (fun t ht => (hz t (Or.inr ht)).symm) measurableSet_Ioi
  have eR : ∫ t in Ioi (lastOr p g : ℝ), crpsIntegrandR xs y t = 0 := by
    rw [setIntegral_congr_fun measurableSet_Ioi
      (fun t ht => hz t (Or.inr ht) : EqOn (crpsIntegrandR xs y) (fun _ => (0 : ℝ)) (Ioi (lastOr p g : ℝ)))]
    simp
  refine ⟨?_, ?_⟩
  · have := hL.union hR
    rwa [Iic_union_Ioi, integrableOn_univ] at this
  · rw [← intervalIntegral.integral_Iic_add_Ioi hL hR, eL, eR, he]; ring

end SV.Bridge
