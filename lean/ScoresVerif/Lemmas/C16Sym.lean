/-
  C16 stretch — helper lemmas for Props/C16Sym.lean: the three sums as double sums over the grid of window positions,
  and their behaviour under reflecting / transposing the fields.  About the EXISTING `SV.Spec.Fss` definitions.
-/
import ScoresVerif.Lemmas.Fss

namespace SV.Model.Fss
open SV SV.Fl
open SV.Spec.Fss (image fieldSums sums score fss win ext sumTo addS)

/-! ### the three sums as double sums over the grid of window positions -/

/-- (Σ f², Σ o², Σ (o−f)²) over an n × m grid of positions -/
def sums2 (f o : Nat → Nat → Int) (n m : Nat) : Int × Int × Int :=
  (∑ i ∈ Finset.range n, ∑ j ∈ Finset.range m, f i j * f i j,
   ∑ i ∈ Finset.range n, ∑ j ∈ Finset.range m, o i j * o i j,
   ∑ i ∈ Finset.range n, ∑ j ∈ Finset.range m, (o i j - f i j) * (o i j - f i j))

theorem sums_append : ∀ (l1 l2 k1 k2 : List Int), l1.length = k1.length →
    sums (l1 ++ l2) (k1 ++ k2) = addS (sums l1 k1) (sums l2 k2)
  | [], _, [], _, _ => by simp [sums, addS]
  | [], _, _ :: _, _, h => by simp at h
  | _ :: _, _, [], _, h => by simp at h
  | f :: fs, l2, o :: os, k2, h => by
    have ih := sums_append fs l2 os k2 (by simpa using h)
    simp only [List.cons_append, sums, ih, addS, Prod.mk.injEq]
    refine ⟨by ring, by ring, by ring⟩

theorem sums_row (f o : Nat → Int) (m : Nat) :
    sums ((List.range m).map f) ((List.range m).map o)
      = (∑ j ∈ Finset.range m, f j * f j, ∑ j ∈ Finset.range m, o j * o j,
         ∑ j ∈ Finset.range m, (o j - f j) * (o j - f j)) := by
  induction m with
  | zero => simp [sums]
  | succ m ih =>
    rw [List.range_succ, List.map_append, List.map_append, sums_append _ _ _ _ (by simp), ih]
    simp [sums, addS, Finset.sum_range_succ]

theorem sums_grid (f o : Nat → Nat → Int) (n m : Nat) :
    sums ((List.range n).flatMap fun i => (List.range m).map (f i))
         ((List.range n).flatMap fun i => (List.range m).map (o i)) = sums2 f o n m := by
  induction n with
  | zero => simp [sums, sums2]
  | succ n ih =>
    rw [List.range_succ, List.flatMap_append, List.flatMap_append,
      sums_append _ _ _ _ (by rw [length_flatMap_range, length_flatMap_range]), ih]
    simp [sums_row, addS, sums2, Finset.sum_range_succ]

theorem sums2_congr (f o f' o' : Nat → Nat → Int) (n m : Nat)
    (hf : ∀ i < n, ∀ j < m, f i j = f' i j) (ho : ∀ i < n, ∀ j < m, o i j = o' i j) :
    sums2 f o n m = sums2 f' o' n m := by
  unfold sums2
  rw [Prod.mk.injEq, Prod.mk.injEq]
  refine ⟨?_, ?_, ?_⟩ <;>
    refine Finset.sum_congr rfl fun i hi => Finset.sum_congr rfl fun j hj => ?_ <;>
    simp only [hf i (Finset.mem_range.mp hi) j (Finset.mem_range.mp hj),
      ho i (Finset.mem_range.mp hi) j (Finset.mem_range.mp hj)]

theorem fieldSums_eq_sums2 (xf xo : Nat → Nat → Int) (H W pt pb pl pr h w : Nat) :
    fieldSums xf xo H W pt pb pl pr h w
      = sums2 (fun i j => win (ext xf H W pt pl) i j h w) (fun i j => win (ext xo H W pt pl) i j h w)
          (pt + H + pb + 1 - h) (pl + W + pr + 1 - w) := by
  unfold fieldSums image
  exact sums_grid _ _ _ _

/-- reversing the rows of the grid leaves the three sums unchanged -/
theorem sums2_reflect_rows (f o : Nat → Nat → Int) (n m : Nat) :
    sums2 (fun i j => f (n - 1 - i) j) (fun i j => o (n - 1 - i) j) n m = sums2 f o n m := by
  unfold sums2
  refine Prod.ext ?_ (Prod.ext ?_ ?_)
  · exact Finset.sum_range_reflect (fun i => ∑ j ∈ Finset.range m, f i j * f i j) n
  · exact Finset.sum_range_reflect (fun i => ∑ j ∈ Finset.range m, o i j * o i j) n
  · exact Finset.sum_range_reflect (fun i => ∑ j ∈ Finset.range m, (o i j - f i j) * (o i j - f i j)) n

/-- transposing the grid leaves the three sums unchanged -/
theorem sums2_transpose (f o : Nat → Nat → Int) (n m : Nat) :
    sums2 (fun j i => f i j) (fun j i => o i j) m n = sums2 f o n m := by
  unfold sums2
  rw [Prod.mk.injEq, Prod.mk.injEq]
  exact ⟨Finset.sum_comm, Finset.sum_comm, Finset.sum_comm⟩

/-! ### reflected and transposed fields -/

/-- the field upside down -/
def flipRows (x : Nat → Nat → Int) (H : Nat) : Nat → Nat → Int := fun i j => x (H - 1 - i) j

/-- the transposed field -/
def transposeF (x : Nat → Nat → Int) : Nat → Nat → Int := fun i j => x j i

theorem ext_flipRows (x : Nat → Nat → Int) (H W pt pb pl a b : Nat) (ha : a < pt + H + pb) :
    ext (flipRows x H) H W pt pl a b = ext x H W pb pl (pt + H + pb - 1 - a) b := by
  unfold ext flipRows
  by_cases hc : pt ≤ a ∧ a < pt + H ∧ pl ≤ b ∧ b < pl + W
  · rw [if_pos hc, if_pos ⟨by omega, by omega, hc.2.2.1, hc.2.2.2⟩]
    congr 1; omega
  · rw [if_neg hc, if_neg (by intro hc'; apply hc; exact ⟨by omega, by omega, hc'.2.2.1, hc'.2.2.2⟩)]

theorem win_flipRows (x : Nat → Nat → Int) (H W pt pb pl i j h w : Nat) (hi : i < pt + H + pb + 1 - h) :
    win (ext (flipRows x H) H W pt pl) i j h w
      = win (ext x H W pb pl) (pt + H + pb + 1 - h - 1 - i) j h w := by
  unfold win
  simp only [sumTo_eq_sum]
  rw [← Finset.sum_range_reflect]
  refine Finset.sum_congr rfl fun a ha => ?_
  have ha' := Finset.mem_range.mp ha
  refine Finset.sum_congr rfl fun b _ => ?_
  rw [ext_flipRows x H W pt pb pl _ _ (by omega)]
  congr 1; omega

theorem ext_transpose (x : Nat → Nat → Int) (H W pt pl a b : Nat) :
    ext (transposeF x) W H pl pt b a = ext x H W pt pl a b := by
  unfold ext transposeF
  by_cases hc : pt ≤ a ∧ a < pt + H ∧ pl ≤ b ∧ b < pl + W
  · rw [if_pos hc, if_pos ⟨hc.2.2.1, hc.2.2.2, hc.1, hc.2.1⟩]
  · rw [if_neg hc, if_neg (by intro hc'; exact hc ⟨hc'.2.2.1, hc'.2.2.2, hc'.1, hc'.2.1⟩)]

theorem win_transpose (x : Nat → Nat → Int) (H W pt pl i j h w : Nat) :
    win (ext (transposeF x) W H pl pt) j i w h = win (ext x H W pt pl) i j h w := by
  unfold win
  simp only [sumTo_eq_sum]
  rw [Finset.sum_comm]
  refine Finset.sum_congr rfl fun a _ => Finset.sum_congr rfl fun b _ => ?_
  exact ext_transpose x H W pt pl _ _

theorem fieldSums_flipRows (xf xo : Nat → Nat → Int) (H W pt pb pl pr h w : Nat) :
    fieldSums (flipRows xf H) (flipRows xo H) H W pt pb pl pr h w = fieldSums xf xo H W pb pt pl pr h w := by
  rw [fieldSums_eq_sums2, fieldSums_eq_sums2]
  have e : pb + H + pt + 1 - h = pt + H + pb + 1 - h := by omega
  rw [e, ← sums2_reflect_rows (fun i j => win (ext xf H W pb pl) i j h w)]
  apply sums2_congr
  · intro i hi j _; exact win_flipRows xf H W pt pb pl i j h w hi
  · intro i hi j _; exact win_flipRows xo H W pt pb pl i j h w hi

theorem fieldSums_transpose (xf xo : Nat → Nat → Int) (H W pt pb pl pr h w : Nat) :
    fieldSums (transposeF xf) (transposeF xo) W H pl pr pt pb w h = fieldSums xf xo H W pt pb pl pr h w := by
  rw [fieldSums_eq_sums2, fieldSums_eq_sums2,
    ← sums2_transpose (fun i j => win (ext xf H W pt pl) i j h w)]
  apply sums2_congr
  · intro j _ i _; exact win_transpose xf H W pt pl i j h w
  · intro j _ i _; exact win_transpose xo H W pt pl i j h w

/-- reading a row-reversed table -/
theorem getFl_reverse (l : List (List Fl)) (i j : Nat) (hi : i < l.length) :
    getFl l.reverse i j = getFl l (l.length - 1 - i) j := by
  unfold getFl
  simp only [List.getD_eq_getElem?_getD]
  rw [List.getElem?_reverse hi]

end SV.Model.Fss
