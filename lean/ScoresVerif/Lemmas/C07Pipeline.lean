/-
  C07 stretch, third part: the whole `crps_cdf` pipeline of the model for ONE case without threshold weight
  (`check_crps_cdf_inputs` → `propagate_nan` → `crps_cdf_reformat_inputs` (grid union, observed CDF, add_thresholds +
  fill_cdf with its guards) → `crps_cdf_exact`) unfolded into one closed expression on the grid
  `sortU (fthr ++ [obs] ++ additional)`; with it the row-level refinement theorem and the Spec equality become
  statements about `crpsCdf` itself.
-/
import ScoresVerif.Lemmas.C07RefineFill

namespace SV.Lemmas.C07Refine
open SV SV.Model.Cdf SV.Model.CrpsCdf SV.Lemmas.Cdf SV.Lemmas.CrpsCdf SV.Lemmas.C17Fill
open SV.Fl (fin nan)
open SV.Spec.CrpsCdf (exactParts)

/-! ### `sortU` = the strictly increasing list of the members -/

theorem mem_insertU_self (m : Rat) (G : List Rat) : m ∈ insertU m G := by
  induction G with
  | nil => simp [insertU]
  | cons x xs ih =>
    unfold insertU
    split_ifs with h1 h2
    · simp
    · simp [h2]
    · exact List.mem_cons_of_mem _ ih

theorem incr_sortU (ts : List Rat) : Incr (sortU ts) := incr_foldr_insertU ts [] trivial

theorem mem_foldr_insertU_iff {x : Rat} (ms G : List Rat) : x ∈ ms.foldr insertU G ↔ x ∈ ms ∨ x ∈ G := by
  induction ms with
  | nil => simp
  | cons m ms ih =>
    simp only [List.foldr_cons, List.mem_cons]
    constructor
    · intro h
      rcases mem_insertU h with rfl | h
      · exact Or.inl (Or.inl rfl)
      · rcases ih.mp h with h | h
        · exact Or.inl (Or.inr h)
        · exact Or.inr h
    · rintro ((rfl | h) | h)
      · exact mem_insertU_self _ _
      · exact mem_insertU_of_mem (ih.mpr (Or.inl h))
      · exact mem_insertU_of_mem (ih.mpr (Or.inr h))

theorem mem_sortU_iff {x : Rat} (ts : List Rat) : x ∈ sortU ts ↔ x ∈ ts := by
  have := mem_foldr_insertU_iff (x := x) ts []
  simpa [sortU] using this

/-- a strictly increasing list is determined by its members -/
theorem incr_ext (A B : List Rat) (hA : Incr A) (hB : Incr B) (h : ∀ x, x ∈ A ↔ x ∈ B) : A = B := by
  induction A generalizing B with
  | nil =>
    cases B with
    | nil => rfl
    | cons b bs => exact absurd ((h b).mpr (by simp)) (by simp)
  | cons a as ih =>
    cases B with
    | nil => exact absurd ((h a).mp (by simp)) (by simp)
    | cons b bs =>
      have hab : a = b := by
        rcases List.mem_cons.mp ((h a).mp (by simp)) with e | ha
        · exact e
        · rcases List.mem_cons.mp ((h b).mpr (by simp)) with e | hb
          · exact e.symm
          · exact absurd ((incr_head_lt hB a ha).trans (incr_head_lt hA b hb)) (lt_irrefl _)
      subst hab
      congr 1
      apply ih bs (incr_tail hA) (incr_tail hB)
      intro x
      constructor
      · intro hx
        rcases List.mem_cons.mp ((h x).mp (List.mem_cons_of_mem _ hx)) with e | hx'
        · exact absurd (e ▸ incr_head_lt hA x hx) (lt_irrefl _)
        · exact hx'
      · intro hx
        rcases List.mem_cons.mp ((h x).mpr (List.mem_cons_of_mem _ hx)) with e | hx'
        · exact absurd (e ▸ incr_head_lt hB x hx) (lt_irrefl _)
        · exact hx'

theorem sortU_of_incr (G : List Rat) (hG : Incr G) : sortU G = G :=
  incr_ext _ _ (incr_sortU G) hG (fun _ => mem_sortU_iff G)

/-- adding thresholds that are already there changes nothing -/
theorem sortU_append_sub (A G : List Rat) (hG : Incr G) (hsub : ∀ t ∈ A, t ∈ G) : sortU (A ++ G) = G :=
  incr_ext _ _ (incr_sortU _) hG (fun x => by
    rw [mem_sortU_iff, List.mem_append]
    exact ⟨fun h => h.elim (hsub x) id, Or.inr⟩)

/-- the grid with extra thresholds is the grid refined by `insertU` -/
theorem sortU_append_extra (X E : List Rat) : sortU (X ++ E) = E.foldr insertU (sortU X) :=
  incr_ext _ _ (incr_sortU _) (incr_foldr_insertU E _ (incr_sortU X)) (fun x => by
    rw [mem_sortU_iff, mem_foldr_insertU_iff, mem_sortU_iff, List.mem_append, or_comm])

theorem finVals_map_fin (G : List Rat) : finVals (G.map fin) = G := by
  induction G with
  | nil => rfl
  | cons x xs ih => simp [finVals, ih]

/-! ### the guards are silent on a NaN-free forecast in [0,1] -/

theorem unit01_relay (G fthr fq : List Rat) (hu : ∀ v ∈ fq, 0 ≤ v ∧ v ≤ 1) :
    Unit01 (G.map (lookupAt fthr (fq.map fin))) := by
  intro x hx
  obtain ⟨t, _, rfl⟩ := List.mem_map.mp hx
  rcases lookupAt_cases fthr fq t with h | ⟨v, h, hm⟩
  · exact Or.inl h
  · exact Or.inr ⟨v, h, hu v (List.of_mem_zip hm).2⟩

theorem withinBounds_unit (row : List Fl) (h : Unit01 row) : withinBounds [row] = true := by
  unfold withinBounds
  simp only [Bool.or_eq_true, Bool.and_eq_true, List.all_eq_true]
  by_cases he : (valid [row].flatten).isEmpty
  · exact Or.inl he
  · refine Or.inr ⟨?_, ?_⟩ <;>
    · intro x hx
      have hx' : x ∈ row := by simpa using (List.mem_filter.mp hx).1
      rcases h x hx' with rfl | ⟨q, rfl, h0, h1⟩
      · simp [valid] at hx
      · simp [Fl.ge, h0, h1]

/-! ### the pipeline for one case, no threshold weight, linear fill, exact integration -/

/-- the common grid of `crps_cdf_reformat_inputs` for one case -/
def gridOf (fthr : List Rat) (obs : Rat) (additional : List Fl) : List Rat := sortU (fthr ++ [obs] ++ finVals additional)

theorem observedCdf_grid (G : List Rat) (hG : Incr G) (obs : Rat) :
    observedCdf [fin obs] (some (G.map fin)) false 0 = .ok (G, [observedRow G (fin obs)]) := by
  simp [observedCdf, finVals_map_fin, sortU_of_incr G hG, pure, Except.pure]

theorem addThresholds_grid (G fthr fq : List Rat) (hG : Incr G) (hsub : ∀ t ∈ fthr, t ∈ G)
    (hu : ∀ v ∈ fq, 0 ≤ v ∧ v ≤ 1) :
    addThresholds fthr [fq.map fin] (G.map fin) "linear" 2
      = .ok (G, [fillRow G (G.map (lookupAt fthr (fq.map fin))) "linear" 2]) := by
  have hb := withinBounds_unit _ (unit01_relay G fthr fq hu)
  simp [addThresholds, finVals_map_fin, sortU_append_sub fthr G hG hsub, fillCdf, hb, bind, Except.bind, pure, Except.pure]

/-- **the model of `crps_cdf` on one NaN-free case** (no weight, `fcst_fill_method="linear"`,
    `integration_method="exact"`, any `propagate_nans`, observation and additional thresholds anywhere) is: grid union,
    re-lay + linear fill, observed CDF, exact integration -/
theorem crpsCdf_single (fthr fq : List Rat) (obs : Rat) (additional : List Fl) (cfg : Cfg)
    (hfill : cfg.fillF = "linear") (hinteg : cfg.integ = "exact")
    (hf : Incr fthr) (hlen : fq.length = fthr.length) (h2 : 2 ≤ fthr.length) (hu : ∀ v ∈ fq, 0 ≤ v ∧ v ≤ 1) :
    crpsCdf fthr [fq.map fin] [fin obs] none additional cfg =
      .ok [exactRow (gridOf fthr obs additional)
            (fillRow (gridOf fthr obs additional) ((gridOf fthr obs additional).map (lookupAt fthr (fq.map fin))) "linear" 2)
            (observedRow (gridOf fthr obs additional) (fin obs)) ((ones (gridOf fthr obs additional)).map fin)] := by
  have hG : Incr (gridOf fthr obs additional) := incr_sortU _
  have hsub : ∀ t ∈ fthr, t ∈ gridOf fthr obs additional := by
    intro t ht
    rw [gridOf, mem_sortU_iff]
    simp [ht]
  have hchk : checkInputs fthr none cfg.fillF cfg.fillW cfg.integ = .ok () := by
    have h2' : ¬ fthr.length < 2 := not_lt.mpr h2
    simp [checkInputs, hfill, hinteg, h2', (incr_iff fthr).mpr hf, pure, Except.pure]
  have hprop : propagateNan (fq.map fin) = fq.map fin := propagateNan_of_noNan _ (anyNan_map_fin fq)
  have hrows : (if cfg.propagate = true then [fq.map fin].map propagateNan else [fq.map fin]) = [fq.map fin] := by
    split <;> simp [hprop]
  have hre : reformat fthr [fq.map fin] [fin obs] none additional "linear" cfg.fillW =
      .ok (gridOf fthr obs additional,
        [fillRow (gridOf fthr obs additional) ((gridOf fthr obs additional).map (lookupAt fthr (fq.map fin))) "linear" 2],
        [observedRow (gridOf fthr obs additional) (fin obs)], [(ones (gridOf fthr obs additional)).map fin]) := by
    unfold reformat
    have e : sortU ([] ++ fthr ++ finVals [fin obs] ++ finVals additional) = gridOf fthr obs additional := by
      simp [gridOf, finVals]
    simp only [e, observedCdf_grid _ hG, addThresholds_grid _ fthr fq hG hsub hu, bind, Except.bind, pure, Except.pure]
    simp [fillRow_relay _ fthr fq hG hf hlen h2 hu hsub, ones, one]
  rw [hfill, hinteg] at hchk
  unfold crpsCdf
  simp only [hrows, Option.map_none, ite_self, hfill, hinteg, hchk, bind, Except.bind]
  rw [hre]
  simp [crpsCdf.go, hinteg, pure, Except.pure]

theorem gridOf_extra (fthr : List Rat) (obs : Rat) (additional : List Fl) (extra : List Rat) :
    gridOf fthr obs (additional ++ extra.map fin) = extra.foldr insertU (gridOf fthr obs additional) := by
  rw [gridOf, finVals_append, finVals_map_fin, ← List.append_assoc, sortU_append_extra]
  rfl

theorem obs_mem_gridOf (fthr : List Rat) (obs : Rat) (additional : List Fl) : obs ∈ gridOf fthr obs additional := by
  rw [gridOf, mem_sortU_iff]; simp

/-- **refine_invariant for `crps_cdf` itself** (one NaN-free case, no threshold weight, linear fill, exact integration):
    extra additional thresholds inside the span of the forecast thresholds do not change the result -/
theorem crpsCdf_refine (fthr fq : List Rat) (obs : Rat) (additional : List Fl) (extra : List Rat) (cfg : Cfg)
    (hfill : cfg.fillF = "linear") (hinteg : cfg.integ = "exact")
    (hf : Incr fthr) (hlen : fq.length = fthr.length) (h2 : 2 ≤ fthr.length) (hu : ∀ v ∈ fq, 0 ≤ v ∧ v ≤ 1)
    (hex : ∀ m ∈ extra, (∃ t ∈ fthr, t ≤ m) ∧ (∃ t ∈ fthr, m ≤ t)) :
    crpsCdf fthr [fq.map fin] [fin obs] none (additional ++ extra.map fin) cfg
      = crpsCdf fthr [fq.map fin] [fin obs] none additional cfg := by
  rw [crpsCdf_single fthr fq obs _ cfg hfill hinteg hf hlen h2 hu,
    crpsCdf_single fthr fq obs _ cfg hfill hinteg hf hlen h2 hu, gridOf_extra]
  have hG : Incr (gridOf fthr obs additional) := incr_sortU _
  have hobs := obs_mem_gridOf fthr obs additional
  have hsub : ∀ t ∈ fthr, t ∈ gridOf fthr obs additional := by
    intro t ht
    rw [gridOf, mem_sortU_iff]
    simp [ht]
  generalize gridOf fthr obs additional = G at hG hobs hsub
  cases G with
  | nil => simp at hobs
  | cons p rest =>
    have hW : OnCells (fun a b => ∀ m ∈ extra, a < m → m < b → ConstOn (fun _ => (1 : Rat)) a b) (p :: rest) :=
      onCells_mono (fun a b _ m _ _ _ t _ _ => rfl) _ (cells_sep _ hG)
    have := exactRow_refine_fill obs fthr fq (fun _ => 1) p rest extra hG (noStraddle_of_mem hG hobs) hf hlen h2 hu hsub hex hW
    simp only [ones]
    rw [this]

end SV.Lemmas.C07Refine
