/- part of the case analysis for Props/C01Gen.lean — see Lemmas/C01GenBase.lean -/
import ScoresVerif.Lemmas.C01GenBase
namespace SV.Props.C01Gen
open SV.Dims SV.PyDyn SV.Gen.Dims

set_option maxRecDepth 2000 in
/-- `preserve_dims` a list — including the falsy empty list -/
theorem gen_eq_model_preserve_list (fcst obs : List String) (w : Option (List String)) (l : List String) (specific : DimSpec)
    (hs : notAllStr specific = true) :
    outcome (gen_gather_dimensions (V.list fcst) (V.list obs) (wToV w) (toV DimSpec.none) (toV (DimSpec.list l)) (toV specific))
      = some (gather fcst obs w DimSpec.none (DimSpec.list l) specific) := by
  cases l <;> cases w <;> cases specific <;> simp [notAllStr] at hs <;>
    gd_simp <;> (try split_ifs) <;> (try simp_all)
end SV.Props.C01Gen
